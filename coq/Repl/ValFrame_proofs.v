(* C02E: one server frame, seen from one client slot: the server record before `send_replication`,
   the outputs for the slot, the invariants of Repl/ValSpec.v after the frame. *)
From RV Require Import Lib.Res Repl.ClientTicks Repl.ClientTicks_proofs Repl.World Vis.Visibility
  Tick.RepliconTick Tick.RepliconTick_proofs Tick.ConfirmHistory Tick.MutateTicks
  Repl.Server Repl.ServerSpec Repl.Server_proofs Wire.AckCodec Wire.AckCodec_proofs Repl.Ack_proofs Repl.StructSpec Repl.Struct_proofs
  Repl.StructOps_proofs Repl.StructRun_proofs
  Repl.Client Repl.Sys Repl.Client_proofs Repl.ClientEnt_proofs Repl.ClientMut_proofs Repl.ClientSys_proofs
  Repl.ClientStructSpec Repl.ClientStruct_proofs Repl.ClientHist_proofs Repl.StructE2E_proofs Repl.StructE2EMut_proofs
  Repl.ValSpec Repl.ValSnap_proofs Repl.ValHist_proofs Repl.ValClient_proofs Repl.ValServer_proofs Repl.ValCli_proofs
  Repl.ValSrv_proofs.
From Coq Require Import ZifyBool ZifyN.
Open Scope N_scope.
Ltac Zify.zify_post_hook ::= Z.div_mod_to_equations.
Arguments N.add : simpl never. Arguments N.mul : simpl never. Arguments N.pow : simpl never.
Arguments N.ltb : simpl never. Arguments N.leb : simpl never. Arguments N.div : simpl never.
Arguments N.modulo : simpl never. Arguments N.sub : simpl never. Arguments N.eqb : simpl never.

(* ================================================================== *)
(* 1. game operations do not touch the client records (no SMap, no visibility) *)
(* ================================================================== *)

Lemma apply_sop_clients s op : sop_ok op = true -> no_vis s -> sv_clients (apply_sop s op) = sv_clients s.
Proof.
  intros Hok Hnv.
  destruct op as [e marker comps|e|e k v|e k|e k v|e|e|slot e visible|slot e pc]; unfold apply_sop; try discriminate.
  - destruct (get_ent s e); reflexivity.
  - destruct (get_ent s e) as [x|]; [|reflexivity]. destruct (se_alive x); [|reflexivity].
    destruct (se_marker x); [rewrite sv_clients_buffer_despawn|]; reflexivity.
  - destruct (get_ent s e) as [x|]; [|reflexivity]. destruct (se_alive x && val_ok s v); reflexivity.
  - destruct (get_ent s e) as [x|]; [|reflexivity]. destruct (se_alive x); [|reflexivity].
    destruct (al_get k (se_comps x)); reflexivity.
  - destruct (get_ent s e) as [x|]; [|reflexivity]. destruct (se_alive x && val_ok s v); [|reflexivity].
    destruct (al_get k (se_comps x)); reflexivity.
  - destruct (get_ent s e) as [x|]; [|reflexivity]. destruct (se_alive x); [|reflexivity].
    destruct (se_marker x); reflexivity.
  - destruct (get_ent s e) as [x|]; [|reflexivity]. destruct (se_alive x); [|reflexivity].
    destruct (se_marker x); [rewrite sv_clients_buffer_despawn|]; reflexivity.
  - destruct (find_client s slot) as [c0|] eqn:Ef; [|reflexivity]. destruct (get_ent s e); [|reflexivity].
    unfold find_client in Ef. apply find_some in Ef. destruct Ef as [Hc0 _]. rewrite (Hnv c0 Hc0). reflexivity.
Qed.

Lemma ops_clients ops : forall s, forallb sop_ok ops = true -> no_vis s -> sv_clients (fold_left apply_sop ops s) = sv_clients s.
Proof.
  induction ops as [|op t IH]; intros s Hok Hnv; cbn [fold_left]; [reflexivity|].
  cbn [forallb] in Hok. apply andb_prop in Hok. destruct Hok as [H1 H2].
  rewrite IH; [apply apply_sop_clients; assumption|exact H2|].
  intros cl Hin. rewrite (apply_sop_clients s op H1 Hnv) in Hin. exact (Hnv cl Hin).
Qed.

(* ================================================================== *)
(* 2. the outputs for one slot                                        *)
(* ================================================================== *)

Lemma mutates_for_outs c s parts cls cl :
  NoDup (map sc_slot cls) -> In cl cls -> sc_authorized cl = true ->
  mutates_for (sc_slot cl) (outs_of (map (client_result_pure c s parts) cls))
  = co_mutates (snd (sfc_pure c s (sv_now s) cl (part_for parts cl))).
Proof.
  induction cls as [|a cls IH]; intros Hnd Hin Ha; [destruct Hin|].
  cbn [map]. inversion Hnd as [|? ? Hni Hnd']; subst.
  change (outs_of (client_result_pure c s parts a :: map (client_result_pure c s parts) cls))
    with ((match snd (client_result_pure c s parts a) with Some o => [o] | None => [] end)
          ++ outs_of (map (client_result_pure c s parts) cls)).
  assert (Hrest : forall sl, ~ In sl (map sc_slot cls) -> mutates_for sl (outs_of (map (client_result_pure c s parts) cls)) = []).
  { clear. intros sl. induction cls as [|b t IHt]; intros Hn; [reflexivity|]. cbn [map].
    change (outs_of (client_result_pure c s parts b :: map (client_result_pure c s parts) t))
      with ((match snd (client_result_pure c s parts b) with Some o => [o] | None => [] end)
            ++ outs_of (map (client_result_pure c s parts) t)).
    unfold mutates_for. rewrite flat_map_app. fold (mutates_for sl (outs_of (map (client_result_pure c s parts) t))).
    rewrite IHt by (intros H; apply Hn; right; exact H). rewrite app_nil_r.
    unfold client_result_pure. destruct (sc_authorized b); cbn [snd flat_map]; [|reflexivity].
    change (co_slot (snd (sfc_pure c s (sv_now s) b (part_for parts b)))) with (sc_slot b).
    replace (sc_slot b =? sl) with false; [reflexivity|]. symmetry. apply N.eqb_neq. intros E. apply Hn. left. exact E. }
  unfold mutates_for. rewrite flat_map_app. fold (mutates_for (sc_slot cl) (outs_of (map (client_result_pure c s parts) cls))).
  destruct Hin as [-> | Hin].
  - rewrite (Hrest (sc_slot cl) Hni), app_nil_r. unfold client_result_pure. rewrite Ha. cbn [snd flat_map].
    change (co_slot (snd (sfc_pure c s (sv_now s) cl (part_for parts cl)))) with (sc_slot cl). rewrite N.eqb_refl, app_nil_r. reflexivity.
  - assert (Hne : sc_slot a <> sc_slot cl).
    { intros Heq. apply Hni. rewrite Heq. apply in_map. exact Hin. }
    rewrite (IH Hnd' Hin Ha). unfold client_result_pure at 1. destruct (sc_authorized a); cbn [snd flat_map]; [|reflexivity].
    change (co_slot (snd (sfc_pure c s (sv_now s) a (part_for parts a)))) with (sc_slot a).
    replace (sc_slot a =? sc_slot cl) with false by lia. reflexivity.
Qed.

(* a slot without an authorized record gets nothing *)
Lemma outs_none c s parts cls slot :
  (forall cl, In cl cls -> sc_slot cl = slot -> sc_authorized cl = false) ->
  upd_for slot (outs_of (map (client_result_pure c s parts) cls)) = None /\
  mutates_for slot (outs_of (map (client_result_pure c s parts) cls)) = [].
Proof.
  induction cls as [|a cls IH]; intros H; [split; reflexivity|]. cbn [map].
  change (outs_of (client_result_pure c s parts a :: map (client_result_pure c s parts) cls))
    with ((match snd (client_result_pure c s parts a) with Some o => [o] | None => [] end)
          ++ outs_of (map (client_result_pure c s parts) cls)).
  destruct (IH (fun cl Hin => H cl (or_intror Hin))) as [I1 I2].
  unfold mutates_for. rewrite flat_map_app. fold (mutates_for slot (outs_of (map (client_result_pure c s parts) cls))). rewrite I2, app_nil_r.
  unfold client_result_pure at 1 3. destruct (sc_authorized a) eqn:Ea; cbn [snd app flat_map]; [|split; [exact I1|reflexivity]].
  assert (Hne : sc_slot a <> slot) by (intros E; pose proof (H a (or_introl eq_refl) E); congruence).
  unfold upd_for. cbn [find]. change (co_slot (snd (sfc_pure c s (sv_now s) a (part_for parts a)))) with (sc_slot a).
  replace (sc_slot a =? slot) with false by lia. split; [exact I1|reflexivity].
Qed.

(* ================================================================== *)
(* 3. the frame of a running server                                   *)
(* ================================================================== *)

Definition cleanup_rec (c : cfg) (min_ts : N) (cleanup : bool) (cl : sclient) : sclient :=
  if cleanup then mkSC (sc_slot cl) (sc_authorized cl) (sc_max_size cl) (cleanup_older_mutations (sc_ticks cl) min_ts) (sc_vis cl) (sc_pending_map cl)
  else cl.

Definition fr_pre (c : cfg) (s : server) (tick : bool) (dt : N) (cleanup : bool) (ops : list sop) : server :=
  let s1 := with_time_tick s tick dt in
  let s2 := (let r := Server.receive_acks s1 in if cleanup then cleanup_acks c r else r) in
  buffer_removals (fold_left apply_sop ops s2).

Lemma frame_running c s tick dt (cleanup : bool) ops parts s' fo :
  srv_ok s -> sv_running s = true -> NoDup (map sc_slot (sv_clients s)) -> forallb sop_ok ops = true ->
  server_frame c s tick dt cleanup ops parts = Ok (s', fo) ->
  let s3 := fr_pre c s tick dt cleanup ops in
  let rs := map (client_result_pure c s3 parts) (sv_clients s3) in
  srv_ok s3 /\ sv_removed_events s3 = [] /\ sv_now s3 = sv_now s /\
  sv_tick s3 = (if tick then tick_add (sv_tick s) 1 else sv_tick s) /\
  sv_clients s3 = map (fun cl => cleanup_rec c (sv_elapsed s + dt - cfg_timeout c) cleanup (ack_client (sv_now s) (sv_inbox_acks s) cl)) (sv_clients s) /\
  (if sv_dirty s || tick
   then s' = set_last_running (set_after_send s3 (map fst rs) (sv_now s3)) /\ fo = mkFO (sv_tick s3) true (outs_of rs)
   else s' = set_last_running s3 /\ fo = mkFO (sv_tick s3) false []).
Proof.
  intros Hok Hrun Hnd Hops H. cbv zeta.
  destruct (frame_running_pre c s tick dt cleanup ops Hok Hrun Hnd) as (Hok3 & Hev3 & Hrun3 & _ & _ & _). cbv zeta in Hok3, Hev3, Hrun3.
  unfold fr_pre. cbv zeta.
  set (s1 := with_time_tick s tick dt) in *.
  set (s2 := if cleanup then cleanup_acks c (Server.receive_acks s1) else Server.receive_acks s1) in *.
  set (s3 := fold_left apply_sop ops s2) in *.
  assert (Hnv2 : no_vis s2).
  { intros cl Hin. unfold s2 in Hin. pose proof (so_novis s (proj1 Hok)) as Hnv.
    assert (Hr : forall cl0, In cl0 (sv_clients (Server.receive_acks s1)) -> sc_vis cl0 = None).
    { intros cl0 H0. rewrite receive_acks_clients in H0. apply in_map_iff in H0. destruct H0 as [c1 [E Hc1]]. subst cl0.
      rewrite (proj1 (proj2 (proj2 (proj2 (ack_client_frame _ _ c1))))). exact (Hnv c1 Hc1). }
    destruct cleanup; [|exact (Hr cl Hin)].
    unfold cleanup_acks, set_clients in Hin. cbn [sv_clients] in Hin. apply in_map_iff in Hin. destruct Hin as [c1 [E Hc1]]. subst cl. cbn. exact (Hr c1 Hc1). }
  assert (Hcl2 : sv_clients s2 = map (fun cl => cleanup_rec c (sv_elapsed s + dt - cfg_timeout c) cleanup (ack_client (sv_now s) (sv_inbox_acks s) cl)) (sv_clients s)).
  { unfold s2. destruct cleanup.
    - unfold cleanup_acks, set_clients. cbn [sv_clients]. rewrite receive_acks_clients, map_map. reflexivity.
    - rewrite receive_acks_clients. apply map_ext. intros cl. reflexivity. }
  assert (Hf2 : sv_now s2 = sv_now s /\ sv_tick s2 = sv_tick s1 /\ sv_dirty s2 = sv_dirty s || tick).
  { unfold s2. destruct cleanup; cbn; auto. }
  destruct Hf2 as (F3 & F4 & F5).
  destruct (ops_flags ops s2) as (B1 & _ & B3 & B4 & B5 & _). fold s3 in B1, B3, B4, B5.
  split; [exact Hok3|]. split; [exact Hev3|]. split; [change (sv_now s3 = sv_now s); congruence|].
  split; [change (sv_tick s3 = (if tick then tick_add (sv_tick s) 1 else sv_tick s)); rewrite B4, F4; reflexivity|].
  split; [change (sv_clients s3 = map (fun cl => cleanup_rec c (sv_elapsed s + dt - cfg_timeout c) cleanup (ack_client (sv_now s) (sv_inbox_acks s) cl)) (sv_clients s));
          unfold s3; rewrite (ops_clients ops s2 Hops Hnv2); exact Hcl2|].
  unfold server_frame in H. fold s1 in H. change (sv_running s1) with (sv_running s) in H. rewrite Hrun in H. cbv zeta in H. fold s2 in H. fold s3 in H.
  rewrite Hrun3 in H. change (sv_dirty (buffer_removals s3)) with (sv_dirty s3) in H. rewrite B3, F5 in H.
  destruct (sv_dirty s || tick).
  - rewrite send_replication_eq in H. cbn [bind] in H. injection H as <- <-. split; reflexivity.
  - cbn [bind] in H. injection H as <- <-. split; reflexivity.
Qed.

(* ================================================================== *)
(* 4. the invariants of one slot across a frame of a running server   *)
(* ================================================================== *)

Lemma cleanup_default ts : cleanup_older_mutations ct_default ts = ct_default.
Proof. reflexivity. Qed.

Section SFrame.
  Variables SN SN' : N -> N -> server -> Prop.
  Hypothesis Hsn : forall t r s1, SN t r s1 -> SN' t r s1.
  Variables (c : cfg) (s : server) (tick : bool) (dt : N) (cleanup : bool) (ops : list sop) (parts : list (N * partition))
            (s' : server) (fo : frame_out).
  Hypothesis Hok : srv_ok s.
  Hypothesis Hrun : sv_running s = true.
  Hypothesis Hnd : NoDup (map sc_slot (sv_clients s)).
  Hypothesis Hops : forallb sop_ok ops = true.
  Hypothesis Hvals : forallb sop_vals ops = true.
  Hypothesis Hnm : nomaps_srv s.
  Hypothesis Heok : ents_ok s.
  Hypothesis Hdb : db_ok s.
  Hypothesis Hf : server_frame c s tick dt cleanup ops parts = Ok (s', fo).
  Hypothesis Htk3 : sv_tick s <= sv_tick s'.
  Hypothesis Hsnap : fo_ran fo = true -> SN' (sv_tick s') (sv_now s) s'.
  Hypothesis Hbound : fo_ran fo = true -> forall t r s1, SN t r s1 -> t < sv_tick s'.
  Hypothesis Hpos : fo_ran fo = true -> 1 <= sv_tick s'.
  Hypothesis Hmax : sv_now s < MAX_CHANGE_AGE.
  Hypothesis Hsnap' : forall t r s0, SN' t r s0 -> SN t r s0 \/ (fo_ran fo = true /\ t = sv_tick s' /\ r = sv_now s /\ s0 = s').
  Hypothesis Hboundr : forall t r s1, SN t r s1 -> r < sv_now s.

  Variables (slot : N) (cli : client) (pend : list update_msg) (muts : list mutate_msg) (acks : list N) (regs : N).
  Hypothesis Hcli : cli_inv SN s cli pend muts.
  Hypothesis Hrec : forall rec, In rec (sv_clients s) -> sc_slot rec = slot ->
    srv_slot_inv SN s rec cli pend muts (acks_for slot (sv_inbox_acks s) ++ acks) /\
    ct_mutate_index (sc_ticks rec) = regs /\ (sc_authorized rec = false -> sc_ticks rec = ct_default).
  Hypothesis Hwrap : regs + N.of_nat (length (mutates_for slot (fo_clients fo))) < 2 ^ 16.
  Hypothesis Hpend : forall rec, In rec (sv_clients s) -> sc_slot rec = slot -> sc_authorized rec = true ->
    pending_ok s (sc_ticks rec) (fold_left abs_apply pend (client_struct cli)).

  Local Notation s3 := (fr_pre c s tick dt cleanup ops).
  Local Notation F := (fun cl => cleanup_rec c (sv_elapsed s + dt - cfg_timeout c) cleanup (ack_client (sv_now s) (sv_inbox_acks s) cl)).

  Local Notation FR := (frame_running c s tick dt cleanup ops parts s' fo Hok Hrun Hnd Hops Hf).

  Local Notation s2 := (if cleanup then cleanup_acks c (Server.receive_acks (with_time_tick s tick dt)) else Server.receive_acks (with_time_tick s tick dt)).

  Lemma sf_ents2 : sv_ents s2 = sv_ents s.
  Proof. destruct cleanup; reflexivity. Qed.

  Lemma sf_dead e : dead s e -> dead s3 e.
  Proof.
    intros Hd. unfold fr_pre. cbv zeta. apply (dead_ext (fold_left apply_sop ops s2)); [reflexivity|]. apply ops_dead.
    apply (dead_ext s); [exact sf_ents2|exact Hd].
  Qed.

  Lemma sf_ents_ok : ents_ok s3.
  Proof.
    unfold fr_pre. cbv zeta. apply (ents_ok_ext (fold_left apply_sop ops s2)); [reflexivity|cbn; lia|]. apply ops_ents_ok; [exact Hvals|].
    apply (ents_ok_ext s); [exact sf_ents2|destruct cleanup; cbn; lia|exact Heok].
  Qed.

  Lemma sf_db_ok : db_ok s3.
  Proof.
    unfold fr_pre. cbv zeta.
    assert (H2 : db_ok s2).
    { intros e He. apply (dead_ext s); [exact sf_ents2|]. apply Hdb. destruct cleanup; exact He. }
    pose proof (ops_db ops s2 Hvals H2) as H3. intros e He. apply (dead_ext (fold_left apply_sop ops s2)); [reflexivity|]. apply H3. exact He.
  Qed.

  Lemma sf_tick3 : sv_tick s' = sv_tick s3.
  Proof. destruct FR as (_ & _ & _ & _ & _ & Hc). cbv zeta in Hc. destruct (sv_dirty s || tick); destruct Hc as [-> _]; reflexivity. Qed.

  (* the record of the slot when `send_replication` runs *)
  Lemma sf_rec3 rec : In rec (sv_clients s) -> sc_slot rec = slot ->
    sc_slot (F rec) = slot /\ sc_authorized (F rec) = sc_authorized rec /\ sc_vis (F rec) = None /\ sc_pending_map (F rec) = [] /\
    srv_slot_inv SN s3 (F rec) cli pend muts acks /\ ct_mutate_index (sc_ticks (F rec)) = regs /\
    (sc_authorized rec = false -> sc_ticks (F rec) = ct_default) /\
    (sc_authorized rec = true -> pending_ok s3 (sc_ticks (F rec)) (fold_left abs_apply pend (client_struct cli))).
  Proof.
    intros Hin Hs. destruct (Hrec rec Hin Hs) as (S1 & S2 & S3).
    destruct (ack_client_frame (sv_now s) (sv_inbox_acks s) rec) as (A1 & A2 & A3 & A4 & A5).
    set (rec2 := ack_client (sv_now s) (sv_inbox_acks s) rec) in *.
    set (rec3 := cleanup_rec c (sv_elapsed s + dt - cfg_timeout c) cleanup rec2) in *.
    assert (Hf1 : sc_slot rec3 = sc_slot rec2 /\ sc_authorized rec3 = sc_authorized rec2 /\ sc_vis rec3 = sc_vis rec2 /\
                  sc_pending_map rec3 = sc_pending_map rec2).
    { unfold rec3, cleanup_rec. destruct cleanup; cbn; auto. }
    destruct Hf1 as (B1 & B2 & B3 & B4).
    split; [congruence|]. split; [congruence|]. split; [rewrite B3, A4; exact (so_novis s (proj1 Hok) rec Hin)|].
    split; [rewrite B4, A5; exact (Hnm rec Hin)|].
    (* the bookkeeping after the acknowledgements *)
    assert (H2 : srv_slot_inv SN s rec2 cli pend muts acks /\ ct_mutate_index (sc_ticks rec2) = regs /\
                 (sc_authorized rec = false -> sc_ticks rec2 = ct_default)).
    { unfold rec2, ack_client. destruct (sc_authorized rec) eqn:Ea.
      - cbn [sc_ticks]. split; [|split; [|discriminate]].
        + apply (srv_slot_ticks SN s (with_ticks rec (ack_all (sc_ticks rec) (sv_now s) (acks_for (sc_slot rec) (sv_inbox_acks s))))); [reflexivity|].
          apply srv_slot_ack_all; [exact Hmax|]. rewrite Hs. exact S1.
        + rewrite <- S2. clear. generalize (sc_ticks rec) as t. induction (acks_for (sc_slot rec) (sv_inbox_acks s)) as [|i r IH]; intros t; [reflexivity|].
          rewrite ack_all_cons, IH. exact (proj1 (proj2 (ack_frame t (sv_now s) i))).
      - split; [|split; [exact S2|exact S3]]. apply (srv_slot_sub SN s rec cli pend muts (acks_for slot (sv_inbox_acks s) ++ acks)); [auto| |exact S1].
        intros i Hi. apply in_or_app. right. exact Hi. }
    destruct H2 as (T1 & T2 & T3).
    assert (H3 : srv_slot_inv SN s rec3 cli pend muts acks /\ ct_mutate_index (sc_ticks rec3) = regs /\
                 (sc_authorized rec = false -> sc_ticks rec3 = ct_default)).
    { unfold rec3, cleanup_rec. destruct cleanup; [|auto]. cbn [sc_ticks]. split; [|split; [exact T2|]].
      - apply (srv_slot_ticks SN s (with_ticks rec2 (cleanup_older_mutations (sc_ticks rec2) (sv_elapsed s + dt - cfg_timeout c)))); [reflexivity|].
        apply srv_slot_cleanup. exact T1.
      - intros Hu. rewrite (T3 Hu). reflexivity. }
    destruct H3 as (U1 & U2 & U3). split; [|split; [exact U2|split; [exact U3|]]].
    - apply (srv_slot_srv SN SN s); [auto|intros e0 a0 t0 r0 s0 _ H0 _; exact H0|exact sf_dead|rewrite <- sf_tick3; exact Htk3| |exact U1].
      destruct FR as (_ & _ & E & _). cbv zeta in E. rewrite E. lia.
    - intros Hau. destruct (frame_running_pre c s tick dt cleanup ops Hok Hrun Hnd) as (_ & _ & _ & _ & _ & Hpre). cbv zeta in Hpre.
      pose proof (Hpre _ _ (Hpend rec Hin Hs Hau)) as Hp. change (buffer_removals (fold_left apply_sop ops s2)) with s3 in Hp.
      apply (pending_ok_ticks s3 (sc_ticks rec)); [|exact Hp]. intros e0.
      unfold rec3, cleanup_rec, rec2, ack_client. rewrite Hau.
      assert (Hk : mutation_tick (ack_all (sc_ticks rec) (sv_now s) (acks_for (sc_slot rec) (sv_inbox_acks s))) e0 <> None <-> mutation_tick (sc_ticks rec) e0 <> None).
      { unfold ack_all. apply ack_fold_keeps_known. }
      destruct cleanup; cbn [sc_ticks]; exact Hk.
  Qed.

  Lemma sf_cli3 : cli_inv SN s3 cli pend muts.
  Proof. apply (cli_inv_srv SN SN s); [auto|intros t r s0 H0; left; exact H0|exact sf_dead|exact Hcli]. Qed.

  Definition sf_extra : list update_msg := match upd_for slot (fo_clients fo) with Some u => [u] | None => [] end.
  Definition sf_newm : list mutate_msg := mutates_for slot (fo_clients fo).

  Lemma sf_dead' e : dead s3 e -> dead s' e.
  Proof.
    intros Hd. destruct FR as (_ & _ & _ & _ & _ & Hc). cbv zeta in Hc.
    destruct (sv_dirty s || tick); destruct Hc as [-> _]; exact Hd.
  Qed.

  Lemma sf_F_slot rec : sc_slot (F rec) = sc_slot rec /\ sc_authorized (F rec) = sc_authorized rec.
  Proof.
    destruct (ack_client_frame (sv_now s) (sv_inbox_acks s) rec) as (A1 & A2 & _). unfold cleanup_rec. destruct cleanup; cbn; auto.
  Qed.

  Lemma sf_nodup3 : NoDup (map sc_slot (map F (sv_clients s))).
  Proof. rewrite map_map. rewrite (map_ext (fun x => sc_slot (F x)) sc_slot); [exact Hnd|]. intros a. exact (proj1 (sf_F_slot a)). Qed.

  Lemma sf_new_r t r s0 : SN' t r s0 -> SN t r s0 \/ forall t0 r0 s00, SN t0 r0 s00 -> r0 < r.
  Proof. intros H. destruct (Hsnap' t r s0 H) as [Ho|(_ & _ & -> & _)]; [left; exact Ho|right]. intros t0 r0 s00 H0. exact (Hboundr _ _ _ H0). Qed.

  Lemma sf_now3 : sv_now s3 = sv_now s.
  Proof. destruct FR as (_ & _ & E & _). exact E. Qed.

  Lemma sf_now' : sv_now s3 <= sv_now s'.
  Proof.
    destruct FR as (_ & _ & _ & _ & _ & Hc). cbv zeta in Hc.
    destruct (sv_dirty s || tick); destruct Hc as [-> _]; cbn; lia.
  Qed.

  (* nothing is sent to the slot *)
  Lemma sf_quiet : sf_extra = [] -> sf_newm = [] ->
    (forall rec', In rec' (sv_clients s') -> sc_slot rec' = slot -> exists rec, In rec (sv_clients s) /\ sc_slot rec = slot /\ rec' = F rec) ->
    (fo_ran fo = true -> forall rec, In rec (sv_clients s) -> sc_slot rec = slot -> sc_authorized rec = false) ->
    cli_inv SN' s' cli (pend ++ sf_extra) (muts ++ sf_newm) /\
    forall rec', In rec' (sv_clients s') -> sc_slot rec' = slot ->
      srv_slot_inv SN' s' rec' cli (pend ++ sf_extra) (muts ++ sf_newm) acks /\
      ct_mutate_index (sc_ticks rec') = regs + N.of_nat (length sf_newm) /\ (sc_authorized rec' = false -> sc_ticks rec' = ct_default).
  Proof.
    intros E1 E2 Hrecs Hq. rewrite E1, E2, !app_nil_r. split.
    - apply (cli_inv_srv SN SN' s3); [exact Hsn|exact sf_new_r|exact sf_dead'|exact sf_cli3].
    - intros rec' Hin Hs. destruct (Hrecs rec' Hin Hs) as (rec & Hr & Hsl & ->).
      destruct (sf_rec3 rec Hr Hsl) as (_ & Ha & _ & _ & S1 & S2 & S3 & _). cbn [length]. rewrite N.add_0_r. split; [|split; [exact S2|rewrite Ha; exact S3]].
      apply (srv_slot_srv SN SN' s3); [exact Hsn| |exact sf_dead'|rewrite sf_tick3; lia|exact sf_now'|exact S1].
      intros e0 a0 t0 r0 s0 Hst H0 _. destruct (Hsnap' t0 r0 s0 H0) as [Ho|(Hran & _)]; [exact Ho|].
      exfalso. rewrite (S3 (Hq Hran rec Hr Hsl)) in Hst. discriminate.
  Qed.

  Theorem sframe_slot :
    cli_inv SN' s' cli (pend ++ sf_extra) (muts ++ sf_newm) /\
    forall rec', In rec' (sv_clients s') -> sc_slot rec' = slot ->
      srv_slot_inv SN' s' rec' cli (pend ++ sf_extra) (muts ++ sf_newm) acks /\
      ct_mutate_index (sc_ticks rec') = regs + N.of_nat (length sf_newm) /\ (sc_authorized rec' = false -> sc_ticks rec' = ct_default).
  Proof.
    pose proof FR as (Hok3 & Hev3 & Hnow3 & Htick3 & Hcl3 & Hc). cbv zeta in Hc.
    destruct (sv_dirty s || tick) eqn:Ed.
    2:{ destruct Hc as [Es' Efo]. apply sf_quiet.
        - unfold sf_extra. rewrite Efo. reflexivity.
        - unfold sf_newm. rewrite Efo. reflexivity.
        - intros rec' Hin Hs. rewrite Es' in Hin. cbn [set_last_running sv_clients] in Hin. rewrite Hcl3 in Hin.
          apply in_map_iff in Hin. destruct Hin as [rec [E Hr]]. exists rec. split; [exact Hr|]. split; [|symmetry; exact E].
          rewrite <- E in Hs. rewrite (proj1 (sf_F_slot rec)) in Hs. exact Hs.
        - intros Hran. rewrite Efo in Hran. discriminate. }
    destruct Hc as [Es' Efo].
    assert (Hran : fo_ran fo = true) by (rewrite Efo; reflexivity).
    assert (Houts : fo_clients fo = outs_of (map (client_result_pure c s3 parts) (sv_clients s3))) by (rewrite Efo; reflexivity).
    assert (Hcls' : sv_clients s' = map fst (map (client_result_pure c s3 parts) (sv_clients s3))) by (rewrite Es'; reflexivity).
    assert (Hnd3 : NoDup (map sc_slot (sv_clients s3))) by (rewrite Hcl3; exact sf_nodup3).
    destruct (find (fun cl => (sc_slot cl =? slot) && sc_authorized cl) (sv_clients s)) as [rec|] eqn:Efind.
    - (* the slot has an authorized record *)
      apply find_some in Efind. destruct Efind as [Hr Hb]. apply andb_prop in Hb. destruct Hb as [Hsl Hau]. assert (Hsl' : sc_slot rec = slot) by lia.
      destruct (sf_rec3 rec Hr Hsl') as (R1 & R2 & R3 & R4 & R5 & R6 & _ & R8).
      set (rec3 := F rec) in *. assert (Hin3 : In rec3 (sv_clients s3)) by (rewrite Hcl3; exact (in_map F _ rec Hr)).
      assert (Hau3 : sc_authorized rec3 = true) by congruence.
      set (p := part_for parts rec3).
      pose proof (upd_for_outs c s3 parts (sv_clients s3) rec3 Hnd3 Hin3 Hau3) as Eu. rewrite R1 in Eu. fold p in Eu.
      pose proof (mutates_for_outs c s3 parts (sv_clients s3) rec3 Hnd3 Hin3 Hau3) as Em. rewrite R1 in Em. fold p in Em.
      assert (Ex : sf_extra = send_extra s3 rec3) by (unfold sf_extra; rewrite Houts, Eu; symmetry; apply send_extra_out).
      assert (En : sf_newm = co_mutates (snd (sfc_pure c s3 (sv_now s3) rec3 p))) by (unfold sf_newm; rewrite Houts; exact Em).
      assert (Hnewsnap : SN' (sv_tick s3) (sv_now s3) s') by (rewrite <- sf_tick3, Hnow3; exact (Hsnap Hran)).
      assert (Hb3 : forall t r s1, SN t r s1 -> t < sv_tick s3) by (intros t r s1 H0; rewrite <- sf_tick3; exact (Hbound Hran t r s1 H0)).
      assert (Hp3 : 1 <= sv_tick s3) by (rewrite <- sf_tick3; exact (Hpos Hran)).
      assert (He' : sv_ents s' = sv_ents s3) by (rewrite Es'; reflexivity).
      assert (Ht' : sv_tick s' = sv_tick s3) by exact sf_tick3.
      assert (Hnw : ct_mutate_index (sc_ticks rec3) + N.of_nat (length (co_mutates (snd (sfc_pure c s3 (sv_now s3) rec3 p)))) < 2 ^ 16).
      { rewrite R6, <- En. exact Hwrap. }
      assert (Hbr3 : forall t r s1, SN t r s1 -> r < sv_now s3) by (intros t r s1 H0; rewrite sf_now3; exact (Hboundr _ _ _ H0)).
      assert (Hsn3 : forall t r s0, SN' t r s0 -> SN t r s0 \/ (t = sv_tick s3 /\ r = sv_now s3 /\ s0 = s')).
      { intros t r s0 H0. destruct (Hsnap' t r s0 H0) as [Ho|(_ & A & B & C)]; [left; exact Ho|right]. rewrite <- sf_tick3, sf_now3. auto. }
      assert (Hn' : sv_now s' = sv_now s3 + 1) by (rewrite Es'; reflexivity).
      assert (Hpd3 : pending_ok s3 (sc_ticks rec3) (fold_left abs_apply pend (client_struct cli))) by (apply R8; exact Hau).
      rewrite Ex, En. split.
      + exact (send_cli SN SN' c s3 s' rec3 p cli pend muts acks Hsn Hnewsnap Hb3 Hp3 He' Ht' Hok3 Hev3 R3 R4 sf_ents_ok sf_db_ok sf_cli3 R5 Hbr3 Hsn3 Hn' Hpd3 Hnw).
      + intros rec' Hin Hs. rewrite Hcls', map_map in Hin. apply in_map_iff in Hin. destruct Hin as [r3 [E Hr3]].
        assert (Hs3 : sc_slot r3 = slot).
        { rewrite <- E in Hs. unfold client_result_pure in Hs. destruct (sc_authorized r3); exact Hs. }
        assert (r3 = rec3) by (apply (nodup_slot_eq (sv_clients s3)); [exact Hnd3|exact Hr3|exact Hin3|congruence]). subst r3.
        assert (E' : rec' = fst (sfc_pure c s3 (sv_now s3) rec3 p)) by (rewrite <- E; unfold client_result_pure; rewrite Hau3; reflexivity).
        rewrite E'. split; [|split].
        * exact (send_slot SN SN' c s3 s' rec3 p cli pend muts acks Hsn Hnewsnap Hb3 Hp3 He' Ht' Hok3 Hev3 R3 R4 sf_ents_ok sf_db_ok sf_cli3 R5 Hbr3 Hsn3 Hn' Hpd3 Hnw).
        * rewrite (proj1 (sfc_regs c s3 rec3 p Hnw)), R6. reflexivity.
        * cbn. discriminate.
    - (* no authorized record: nothing is sent to the slot *)
      assert (Hnone : forall cl, In cl (sv_clients s3) -> sc_slot cl = slot -> sc_authorized cl = false).
      { intros cl Hin Hs. rewrite Hcl3 in Hin. apply in_map_iff in Hin. destruct Hin as [rec [E Hr]]. subst cl.
        destruct (sf_F_slot rec) as [A B]. rewrite B. rewrite A in Hs.
        pose proof (find_none _ _ Efind rec Hr) as Hf0. cbn in Hf0. destruct (sc_authorized rec); [|reflexivity]. lia. }
      destruct (outs_none c s3 parts (sv_clients s3) slot Hnone) as [N1 N2].
      apply sf_quiet.
      + unfold sf_extra. rewrite Houts, N1. reflexivity.
      + unfold sf_newm. rewrite Houts. exact N2.
      + intros rec' Hin Hs. rewrite Hcls', map_map in Hin. apply in_map_iff in Hin. destruct Hin as [r3 [E Hr3]].
        assert (Hs3 : sc_slot r3 = slot).
        { rewrite <- E in Hs. unfold client_result_pure in Hs. destruct (sc_authorized r3); exact Hs. }
        assert (E' : rec' = r3) by (rewrite <- E; unfold client_result_pure; rewrite (Hnone r3 Hr3 Hs3); reflexivity).
        rewrite Hcl3 in Hr3. apply in_map_iff in Hr3. destruct Hr3 as [rec [E3 Hr]]. exists rec. split; [exact Hr|].
        split; [rewrite <- (proj1 (sf_F_slot rec)); rewrite E3; exact Hs3|congruence].
      + intros _ rec Hr Hs. pose proof (find_none _ _ Efind rec Hr) as Hf0. cbn in Hf0. destruct (sc_authorized rec); [|reflexivity]. lia.
  Qed.
End SFrame.

(* ================================================================== *)
(* 5. the acknowledgement inbox across a frame                        *)
(* ================================================================== *)

Lemma apply_sop_inbox s op : sv_inbox_acks (apply_sop s op) = sv_inbox_acks s.
Proof.
  destruct op as [e marker comps|e|e k v|e k|e k v|e|e|slot e visible|slot e pc]; unfold apply_sop.
  - destruct (get_ent s e); reflexivity.
  - destruct (get_ent s e) as [x|]; [|reflexivity]. destruct (se_alive x); [|reflexivity].
    destruct (se_marker x); [|reflexivity]. unfold buffer_despawn. cbn [set_ent sv_running]. destruct (sv_running s); reflexivity.
  - destruct (get_ent s e) as [x|]; [|reflexivity]. destruct (se_alive x && val_ok s v); reflexivity.
  - destruct (get_ent s e) as [x|]; [|reflexivity]. destruct (se_alive x); [|reflexivity].
    destruct (al_get k (se_comps x)); reflexivity.
  - destruct (get_ent s e) as [x|]; [|reflexivity]. destruct (se_alive x && val_ok s v); [|reflexivity].
    destruct (al_get k (se_comps x)); reflexivity.
  - destruct (get_ent s e) as [x|]; [|reflexivity]. destruct (se_alive x); [|reflexivity].
    destruct (se_marker x); reflexivity.
  - destruct (get_ent s e) as [x|]; [|reflexivity]. destruct (se_alive x); [|reflexivity].
    destruct (se_marker x); [|reflexivity]. unfold buffer_despawn. cbn [set_ent sv_running]. destruct (sv_running s); reflexivity.
  - destruct (find_client s slot) as [c0|]; [|reflexivity]. destruct (get_ent s e); [|reflexivity].
    destruct (sc_vis c0); reflexivity.
  - destruct (find_client s slot) as [c0|]; [|reflexivity]. destruct (get_ent s e); [|reflexivity].
    destruct (sc_authorized c0 && existsb _ (sv_premap s)); reflexivity.
Qed.

Lemma ops_inbox ops : forall s, sv_inbox_acks (fold_left apply_sop ops s) = sv_inbox_acks s.
Proof. induction ops as [|op t IH]; intros s; cbn [fold_left]; [reflexivity|]. rewrite IH. apply apply_sop_inbox. Qed.

Lemma frame_inbox c s tick dt (cleanup : bool) ops parts s' fo :
  server_frame c s tick dt cleanup ops parts = Ok (s', fo) ->
  (forall m, In m (sv_inbox_acks s') -> In m (sv_inbox_acks s)) /\ (sv_running s = true -> sv_inbox_acks s' = []).
Proof.
  intros H. unfold server_frame in H.
  set (s1 := with_time_tick s tick dt) in *.
  set (s2 := if sv_running s1 then (let r := Server.receive_acks s1 in if cleanup then cleanup_acks c r else r) else s1) in *.
  assert (F2 : (sv_running s = true -> sv_inbox_acks s2 = []) /\ (forall m, In m (sv_inbox_acks s2) -> In m (sv_inbox_acks s))).
  { unfold s2. change (sv_running s1) with (sv_running s). destruct (sv_running s); [|split; [discriminate|auto]].
    cbv zeta. destruct cleanup; split; intros; try reflexivity; exfalso; cbn in *; assumption. }
  destruct F2 as [A B]. pose proof (ops_inbox ops s2) as E3. set (s3 := fold_left apply_sop ops s2) in *.
  assert (G : forall sx, sv_inbox_acks sx = sv_inbox_acks s3 \/ sv_inbox_acks sx = [] ->
            (forall m, In m (sv_inbox_acks sx) -> In m (sv_inbox_acks s)) /\ (sv_running s = true -> sv_inbox_acks sx = [])).
  { intros sx [E|E]; rewrite E; [rewrite E3; auto|split; [intros m []|reflexivity]]. }
  destruct (sv_running s3).
  - change (sv_dirty (buffer_removals s3)) with (sv_dirty s3) in H. destruct (sv_dirty s3).
    + rewrite send_replication_eq in H. cbn [bind] in H. injection H as <- _. apply G. left. reflexivity.
    + cbn [bind] in H. injection H as <- _. apply G. left. reflexivity.
  - cbn [bind] in H. injection H as <- _. apply G. destruct (sv_last_running s3); [right|left]; reflexivity.
Qed.

Lemma enqueue_lack outs : forall y slot, l_ack (get_link (enqueue_outputs y outs) slot) = l_ack (get_link y slot).
Proof.
  induction outs as [|o t IH]; intros y slot; [reflexivity|].
  unfold enqueue_outputs in *. cbn [fold_left]. rewrite IH.
  destruct (N.eq_dec slot (co_slot o)) as [->|Hne]; [rewrite get_link_set_link_same|rewrite get_link_set_link_other by exact Hne]; reflexivity.
Qed.

Lemma acks_for_sub slot a b : (forall m, In m a -> In m b) -> forall i, In i (acks_for slot a) -> In i (acks_for slot b).
Proof.
  intros H i Hi. unfold acks_for in *. apply in_concat in Hi. destruct Hi as [l [Hl Hi]]. apply in_concat. exists l. split; [|exact Hi].
  apply in_map_iff in Hl. destruct Hl as [m [E Hm]]. apply filter_In in Hm. apply in_map_iff. exists m. split; [exact E|]. apply filter_In.
  split; [apply H; tauto|tauto].
Qed.
