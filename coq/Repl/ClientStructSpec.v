(* C03, client half: definitions.  The structure a client holds (server entity -> component
   kinds), the client invariant under which the client model implements `abs_apply`
   (Repl/StructSpec.v), the side conditions on client operations and on buffered mutate
   messages.  Lemmas: Repl/ClientStruct_proofs.v, whole-system composition:
   Repl/StructE2E_proofs.v, pinned statements: Properties/C03E.v.

   (This file imports Client_proofs / ClientEnt_proofs / ClientMut_proofs only for the
   vocabulary they define: emap_wf, ewf, has_pre.) *)
From RV Require Import Lib.Res Repl.ClientTicks Repl.World Repl.Client Repl.Client_proofs Repl.ClientEnt_proofs
  Repl.ClientMut_proofs Vis.Visibility Tick.RepliconTick Tick.ConfirmHistory Tick.MutateTicks
  Repl.Server Repl.ServerSpec Repl.StructSpec.
Open Scope N_scope.

(* ---------- the structure held by a client ---------- *)

(* mapped server entity -> kinds of the client entity; only client entities that are alive and
   carry the `Replicated` marker count (a placeholder created for an entity reference is mapped
   but not marked) *)
Definition client_struct (c : client) : structure :=
  flat_map (fun sc => match get_cent c (snd sc) with
                      | Some x => if ce_alive x && ce_marker x then [(fst sc, map fst (ce_comps x))] else []
                      | None => []
                      end) (cl_s2c c).

(* the same, read as a function (equal to [al_get e (client_struct c)] when the keys of
   [cl_s2c] are unique, ClientStruct_proofs.al_get_client_struct) *)
Definition cs_get (c : client) (e : N) : option (list N) :=
  match al_get e (cl_s2c c) with
  | Some cid =>
    match get_cent c cid with
    | Some x => if ce_alive x && ce_marker x then Some (map fst (ce_comps x)) else None
    | None => None
    end
  | None => None
  end.

(* ---------- the client invariant ---------- *)

Record cs_inv (c : client) : Prop := mkCsInv {
  (* the two hash maps are inverse bijections with unique keys, below the allocation counter *)
  ci_emap : emap_wf c;
  (* unique entity ids, nothing allocated at or above the counter *)
  ci_ewf : ewf c;
  (* every mapped client entity exists and is alive *)
  ci_mapped : forall s cid, al_get s (cl_s2c c) = Some cid ->
              exists x, get_cent c cid = Some x /\ ce_alive x = true;
  (* an entity without the marker (placeholder, pre-spawned, despawned) is blank *)
  ci_blank : forall cid x, get_cent c cid = Some x -> ce_marker x = false ->
             ce_comps x = [] /\ ce_hist x = None
}.

(* ---------- client operations ---------- *)

(* despawning a pre-spawned entity is harmless when nothing maps to it *)
Definition cop_safe (c : client) (op : cop) : bool :=
  match op with
  | CPrespawn _ => true
  | CDespawn pc =>
    match find (has_pre pc) (cl_ents c) with
    | Some (cid, _) => match al_get cid (cl_c2s c) with Some _ => false | None => true end
    | None => true
    end
  end.

(* ... for a list of operations applied in order *)
Fixpoint cops_safe (c : client) (ops : list cop) : bool :=
  match ops with
  | [] => true
  | op :: r => cop_safe c op && cops_safe (apply_cop c op) r
  end.

(* pre-spawned entities are never the image of a server entity: holds along every run whose
   update messages carry no pre-spawn mappings, and makes every operation safe *)
Definition pre_unmapped (c : client) : Prop :=
  forall cid x, get_cent c cid = Some x -> ce_pre x <> None -> al_get cid (cl_c2s c) = None.

(* ---------- update messages ---------- *)

Definition no_maps (u : update_msg) : bool := match u_maps u with [] => true | _ => false end.

(* ---------- buffered mutate messages ---------- *)

(* ticks that have not wrapped: below half the range the wrapping comparison is the usual one *)
Definition small_tick (t : N) : Prop := t < 2 ^ 31.

Definition kinds_sub (a b : list N) : Prop := forall k, In k a -> In k b.

(* one body entry (e, comps) of a mutate message of tick [tick]: either it only mentions kinds
   the client entity has, or the entity has been confirmed at this tick or a later one (then
   `apply_mutations` skips the entry) *)
Definition entry_safe (c : client) (tick e : N) (comps : list (N * val)) : Prop :=
  forall cid x, al_get e (cl_s2c c) = Some cid -> get_cent c cid = Some x -> ce_marker x = true ->
    kinds_sub (map fst comps) (map fst (ce_comps x)) \/
    exists h, ce_hist x = Some h /\ tick <= h_last h.

(* every message `apply_mutate_messages` will apply (its update tick has been reached) is safe *)
Definition mut_safe (c : client) : Prop :=
  (forall m, In m (cl_buffered c) -> small_tick (m_tick m)) /\
  (forall cid x h, get_cent c cid = Some x -> ce_hist x = Some h -> small_tick (h_last h)) /\
  forall m, In m (cl_buffered c) -> tick_gtb (m_upd_tick m) (cl_upd_tick c) = false ->
    forall e comps, In (e, comps) (m_body m) -> entry_safe c (m_tick m) e comps.

(* ... or there is nothing to apply *)
Definition mut_ok (c : client) : Prop := mut_safe c \/ cl_buffered c = [].

(* the client state `apply_replication` hands to `apply_mutate_messages` once the update
   messages of the inbox are applied *)
Definition merge_mut_inbox (c1 : client) : client :=
  clear_inboxes (set_buffered c1 (fold_left (fun b m => buffer_insert m b) (cl_inbox_mut c1) (cl_buffered c1)) (cl_mticks c1)).

(* ---------- the history argument for mutate messages ---------- *)

Definition dflt_upd : update_msg := mkUpd 0 [] [] [] [].

(* an update message that does not mention entity [e] *)
Definition untouched (e : N) (u : update_msg) : Prop :=
  ~ In e (u_despawns u) /\ ~ In e (map fst (u_removals u)) /\ ~ In e (map fst (u_changes u)).

(* [applied]: the update messages the client has applied, oldest first.  Every replicated entity
   the client holds carries a confirm history whose last tick is not below the tick of the last
   applied message that mentioned it *)
Definition ent_hist_ok (applied : list update_msg) (c : client) : Prop :=
  forall e cid x, al_get e (cl_s2c c) = Some cid -> get_cent c cid = Some x -> ce_marker x = true ->
    exists h a1 a2, ce_hist x = Some h /\ applied = a1 ++ a2 /\
      (forall u, In u a1 -> u_tick u <= h_last h) /\ (forall u, In u a2 -> untouched e u).

(* ticks of the update messages sent to a client: strictly increasing *)
Definition ticks_incr (sent : list update_msg) : Prop :=
  forall p q, sent = p ++ q -> forall a b, In a p -> In b q -> u_tick a < u_tick b.

(* what the server guarantees about a mutate message sent to a client whose update messages are
   [sent]: it was produced when the prefix [p] had been sent (its update tick is the tick of the
   last message of [p]), its tick lies between the ticks of [p] and those of the later messages,
   and every body entry only names kinds the entity has in the structure after [p] *)
Definition mmsg_ok (sent : list update_msg) (m : mutate_msg) : Prop :=
  small_tick (m_tick m) /\
  exists p q, sent = p ++ q /\
    (p <> [] -> m_upd_tick m = u_tick (last p dflt_upd)) /\
    (forall u, In u q -> m_tick m < u_tick u) /\
    forall e comps, In (e, comps) (m_body m) ->
      kinds_sub (map fst comps) (kinds_of (fold_left abs_apply p []) e).

(* ---------- update messages WITH pre-spawn mappings ---------- *)

(* one mapping (server entity e, pre-spawned id pc) is harmless when e is unknown to the client and the
   pre-spawned entity it designates (if alive) is neither marked nor already the image of an entity *)
Definition map_step_ok (c : client) (e pc : N) : Prop :=
  al_get e (cl_s2c c) = None /\
  forall cid x, find (has_pre pc) (cl_ents c) = Some (cid, x) -> ce_alive x = true ->
    ce_marker x = false /\ al_get cid (cl_c2s c) = None.

(* the state to which the mappings of an update message are applied: since the repair of defect D30 the despawn
   records of the message come first *)
Definition maps_pre (c : client) (u : update_msg) : client :=
  fold_left apply_despawn (u_despawns u) (set_upd_tick c (u_tick u)).

(* ... for the mappings of a message, applied in order *)
Fixpoint maps_ok (c : client) (maps : list (N * N)) : Prop :=
  match maps with
  | [] => True
  | (e, pc) :: t => map_step_ok c e pc /\ maps_ok (apply_entity_mapping c e pc) t
  end.
