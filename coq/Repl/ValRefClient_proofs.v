(* C02G, client side: what applying update and mutate messages does to the client entity that stands for a server
   entity ([centof], Repl/ValSpec.v) when the values may be ENTITY REFERENCES.  Generalises Repl/ValClient_proofs.v
   (all values `VNat`): `Client.map_value` reserves a placeholder (mapped, unmarked, blank) for a referenced server
   entity the client does not know, so writing the components of one entity can add client entities and map entries;
   the entity map only grows while the arrays of removals / changes of an update message and the entries of a mutate
   message are applied, and loses exactly the despawned entities in the despawn phase. *)
From RV Require Import Lib.Res Repl.ClientTicks Repl.ClientTicks_proofs Repl.World Vis.Visibility
  Tick.RepliconTick Tick.RepliconTick_proofs Tick.ConfirmHistory Tick.MutateTicks
  Repl.Server Repl.ServerSpec Repl.StructSpec
  Repl.Client Repl.Sys Repl.Client_proofs Repl.ClientEnt_proofs Repl.ClientMut_proofs Repl.ClientSys_proofs
  Repl.ClientStructSpec Repl.ClientStruct_proofs Repl.ClientHist_proofs Repl.StructE2E_proofs Repl.StructE2EMut_proofs
  Repl.Converge Repl.ValSpec Repl.ValClient_proofs Repl.ValCli_proofs Repl.ValVisSpec Repl.ValRefSpec.
From Coq Require Import ZifyBool ZifyN.
Open Scope N_scope.
Ltac Zify.zify_post_hook ::= Z.div_mod_to_equations.
Arguments N.add : simpl never. Arguments N.mul : simpl never. Arguments N.pow : simpl never.
Arguments N.ltb : simpl never. Arguments N.leb : simpl never. Arguments N.div : simpl never.
Arguments N.modulo : simpl never. Arguments N.sub : simpl never. Arguments N.eqb : simpl never.

(* ================================================================== *)
(* 1. values read back through the entity map                         *)
(* ================================================================== *)

Lemma s2c_c2s c s cid : emap_wf c -> (al_get s (cl_s2c c) = Some cid <-> al_get cid (cl_c2s c) = Some s).
Proof. intros (_ & _ & H & _). apply H. Qed.

(* the server-to-client map only grows *)
Definition s2c_grows (c c' : client) : Prop :=
  forall e cid, al_get e (cl_s2c c) = Some cid -> al_get e (cl_s2c c') = Some cid.

Lemma s2c_grows_refl c : s2c_grows c c.
Proof. intros e cid H. exact H. Qed.

Lemma s2c_grows_trans a b c : s2c_grows a b -> s2c_grows b c -> s2c_grows a c.
Proof. intros H1 H2 e cid H. apply H2. apply H1. exact H. Qed.

Lemma c2s_grows c c' cid t : emap_wf c -> emap_wf c' -> s2c_grows c c' ->
  al_get cid (cl_c2s c) = Some t -> al_get cid (cl_c2s c') = Some t.
Proof. intros Hw Hw' Hg H. apply (s2c_c2s c' t cid Hw'). apply Hg. apply (s2c_c2s c t cid Hw). exact H. Qed.

Lemma vrel_grows c c' v cv : emap_wf c -> emap_wf c' -> s2c_grows c c' -> vrel c v cv -> vrel c' v cv.
Proof.
  intros Hw Hw' Hg. destruct v as [n|t], cv as [m|cid]; cbn [vrel]; try exact (fun H => H).
  exact (c2s_grows c c' cid t Hw Hw' Hg).
Qed.

Lemma vrel_cval_of c v : emap_wf c -> (forall t, v = VRef t -> al_get t (cl_s2c c) <> None) -> vrel c v (cval_of (cl_s2c c) v).
Proof.
  intros Hw H. destruct v as [n|t]; cbn [cval_of vrel]; [reflexivity|].
  destruct (al_get t (cl_s2c c)) as [cid|] eqn:E; [|exfalso; exact (H t eq_refl E)].
  cbn [vrel]. apply (s2c_c2s c t cid Hw). exact E.
Qed.

Lemma vrel_ext c c' v cv : cl_c2s c' = cl_c2s c -> vrel c v cv -> vrel c' v cv.
Proof. intros E. destruct v, cv; cbn [vrel]; try exact (fun H => H). rewrite E. exact (fun H => H). Qed.

Lemma agreer_grows c c' cc sc : emap_wf c -> emap_wf c' -> s2c_grows c c' -> agreer c cc sc -> agreer c' cc sc.
Proof. intros Hw Hw' Hg H k cv c0 A B. exact (vrel_grows c c' _ _ Hw Hw' Hg (H k cv c0 A B)). Qed.

(* `Converge.cval_matches` is [vrel] *)
Lemma cval_matches_vrel c v cv : Converge.cval_matches c v cv = true <-> vrel c v cv.
Proof.
  destruct v as [n|t], cv as [m|cid]; cbn [Converge.cval_matches vrel]; try (split; [discriminate|intros []]).
  - split; intros H; lia.
  - destruct (al_get cid (cl_c2s c)) as [s|]; [|split; discriminate]. split; [intros H; f_equal; lia|intros H; inversion H; lia].
Qed.

(* ================================================================== *)
(* 2. [wr_compsr]                                                     *)
(* ================================================================== *)

Lemma cval_of_ext s2c s2c' v : (forall t, v = VRef t -> al_get t s2c' = al_get t s2c) -> cval_of s2c' v = cval_of s2c v.
Proof. destruct v as [n|t]; cbn [cval_of]; [reflexivity|]. intros H. rewrite (H t eq_refl). reflexivity. Qed.

Lemma wr_compsr_ext s2c s2c' vals : forall base,
  (forall k t, In (k, VRef t) vals -> al_get t s2c' = al_get t s2c) -> wr_compsr s2c' vals base = wr_compsr s2c vals base.
Proof.
  unfold wr_compsr. induction vals as [|[k v] r IH]; intros base H; cbn [fold_left fst snd]; [reflexivity|].
  rewrite (cval_of_ext s2c s2c' v) by (intros t ->; apply (H k t); left; reflexivity).
  apply IH. intros k0 t0 Hin. apply (H k0 t0). right. exact Hin.
Qed.

Lemma wr_compsr_get s2c vals : forall base k, NoDup (map fst vals) ->
  al_get k (wr_compsr s2c vals base) = match al_get k vals with Some v => Some (cval_of s2c v) | None => al_get k base end.
Proof.
  unfold wr_compsr. induction vals as [|[k0 v0] t IH]; intros base k Hnd; cbn [fold_left al_get]; [reflexivity|].
  cbn [map fst] in Hnd. inversion Hnd as [|? ? Hni Hnd']; subst. rewrite IH by exact Hnd'. cbn [fst snd].
  destruct (k0 =? k) eqn:E.
  - assert (k0 = k) by lia. subst k0.
    assert (Hn : al_get k t = None) by (apply al_get_none_keys; exact Hni). rewrite Hn. apply kinsert_get_same.
  - destruct (al_get k t); [reflexivity|]. apply kinsert_get_other. lia.
Qed.

Lemma wr_compsr_mem s2c vals base k : NoDup (map fst vals) ->
  mem_N k (map fst (wr_compsr s2c vals base)) = mem_N k (map fst vals) || mem_N k (map fst base).
Proof.
  intros Hnd. rewrite !ValCli_proofs.mem_keys_get, (wr_compsr_get s2c vals base k Hnd). destruct (al_get k vals); [reflexivity|].
  destruct (al_get k base); reflexivity.
Qed.

Lemma wr_compsr_nil s2c l : wr_compsr s2c [] l = l.
Proof. reflexivity. Qed.

(* the references of a written list that were in the base, or are mapped *)
Lemma wr_compsr_refs s2c vals : forall base k cid,
  al_get k (wr_compsr s2c vals base) = Some (CRef cid) ->
  al_get k base = Some (CRef cid) \/ exists k0 v, In (k0, v) vals /\ cval_of s2c v = CRef cid.
Proof.
  unfold wr_compsr. induction vals as [|[k0 v0] t IH]; intros base k cid H; cbn [fold_left fst snd] in H; [left; exact H|].
  destruct (IH _ k cid H) as [Hb|(k1 & v1 & Hin & Hc)].
  - destruct (N.eq_dec k k0) as [->|Hne].
    + rewrite kinsert_get_same in Hb. right. exists k0, v0. split; [left; reflexivity|congruence].
    + rewrite kinsert_get_other in Hb by exact Hne. left. exact Hb.
  - right. exists k1, v1. split; [right; exact Hin|exact Hc].
Qed.

Lemma rm_comps_sub ks l k cv : al_get k (rm_comps ks l) = Some cv -> al_get k l = Some cv.
Proof. rewrite rm_comps_get. destruct (mem_N k ks); [discriminate|exact (fun H => H)]. Qed.

(* the client values written stand for the values of the entry; the old ones are kept *)
Lemma agreer_write c s2c vals ks base sc :
  NoDup (map fst vals) ->
  (forall k v, In (k, v) vals -> vrel c v (cval_of s2c v) /\ exists c0, al_get k sc = Some c0 /\ c_val c0 = v) ->
  (forall k cv c0, al_get k vals = None -> al_get k base = Some cv -> al_get k sc = Some c0 -> vrel c (c_val c0) cv) ->
  agreer c (wr_compsr s2c vals (rm_comps ks base)) sc.
Proof.
  intros Hnd Hv Hold k cv c0 Hg Hs. rewrite wr_compsr_get in Hg by exact Hnd.
  destruct (al_get k vals) as [v|] eqn:E.
  - inversion Hg; subst cv. destruct (Hv k v (Server_proofs.al_get_In _ _ _ E)) as [Hr [c' [Hc' Hval]]]. assert (c' = c0) by congruence. subst c'.
    rewrite Hval. exact Hr.
  - rewrite rm_comps_get in Hg. destruct (mem_N k ks); [discriminate|]. exact (Hold k cv c0 E Hg Hs).
Qed.

Lemma agreer_write0 c s2c vals base sc :
  NoDup (map fst vals) ->
  (forall k v, In (k, v) vals -> vrel c v (cval_of s2c v) /\ exists c0, al_get k sc = Some c0 /\ c_val c0 = v) ->
  (forall k cv c0, al_get k vals = None -> al_get k base = Some cv -> al_get k sc = Some c0 -> vrel c (c_val c0) cv) ->
  agreer c (wr_compsr s2c vals base) sc.
Proof. intros A B C. rewrite <- (rm_comps_nil base). apply agreer_write; assumption. Qed.

(* ================================================================== *)
(* 3. writing the components of one entity                            *)
(* ================================================================== *)

(* what one `map_value` does *)
Lemma map_value_view c v : cs_inv c ->
  let c1 := fst (map_value c v) in
  cs_inv c1 /\ same_meta c c1 /\ s2c_grows c c1 /\
  snd (map_value c v) = cval_of (cl_s2c c1) v /\
  (forall t, v = VRef t -> al_get t (cl_s2c c1) <> None) /\
  (forall cid x, get_cent c cid = Some x -> get_cent c1 cid = Some x) /\
  (forall e cid, al_get e (cl_s2c c1) = Some cid ->
     al_get e (cl_s2c c) = Some cid \/
     (al_get e (cl_s2c c) = None /\ v = VRef e /\ get_cent c1 cid = Some placeholder /\ get_cent c cid = None)) /\
  (forall cid x, get_cent c1 cid = Some x -> get_cent c cid = Some x \/ (x = placeholder /\ get_cent c cid = None)).
Proof.
  intros Hinv. destruct v as [n|t].
  { cbn. split; [exact Hinv|]. split; [apply same_meta_refl|]. split; [apply s2c_grows_refl|]. split; [reflexivity|].
    split; [intros t H; discriminate|]. split; [auto|]. split; [auto|auto]. }
  unfold map_value. destruct (al_get t (cl_s2c c)) as [cid0|] eqn:E.
  { cbn [fst snd]. split; [exact Hinv|]. split; [apply same_meta_refl|]. split; [apply s2c_grows_refl|].
    split; [cbn [cval_of]; rewrite E; reflexivity|]. split; [intros t0 H; inversion H; subst t0; congruence|]. split; [auto|]. split; [auto|auto]. }
  destruct (spawn_vacant_props c t false Hinv E) as (H1 & H2 & H3 & H4 & H5 & _ & _ & H8 & H9).
  cbn [spawn_cent fst snd] in *.
  assert (Hfresh : get_cent c (cl_next c) = None) by (apply (proj2 (ci_ewf c Hinv)); lia).
  split; [exact H1|]. split; [exact H8|]. split; [exact H5|].
  split; [cbn [cval_of]; rewrite H4; reflexivity|]. split; [intros t0 H; inversion H; subst t0; congruence|]. split; [exact H2|]. split.
  - intros e cid He. cbn [emap_vacant_insert set_maps cl_s2c] in He. destruct (N.eq_dec e t) as [->|Hne].
    + rewrite al_get_insert_same in He. inversion He; subst cid. right. split; [exact E|]. split; [reflexivity|]. split; [exact H3|exact Hfresh].
    + rewrite al_get_insert_other in He by exact Hne. left. exact He.
  - intros cid x Hx. destruct (H9 cid x Hx) as [Ho|Hp]; [left; exact Ho|]. subst x.
    destruct (get_cent c cid) as [y|] eqn:Ey; [left; rewrite (H2 cid y Ey) in Hx; exact Hx|right; split; reflexivity].
Qed.

(* the result of writing [comps] into the marked client entity [cid] of server entity [e] *)
Record write_view (c c' : client) (e cid : N) (x : cent) (comps : list (N * val)) : Prop := mkWV {
  wv_inv : cs_inv c';
  wv_meta : same_meta c c';
  wv_grow : s2c_grows c c';
  wv_ent : exists x', get_cent c' cid = Some x' /\ ce_alive x' = true /\ ce_marker x' = true /\ ce_hist x' = ce_hist x /\
                      ce_pre x' = ce_pre x /\ ce_comps x' = wr_compsr (cl_s2c c') comps (ce_comps x);
  wv_refs : refs_mapped c' comps;
  wv_fwd : forall cid1 y, cid1 <> cid -> get_cent c cid1 = Some y -> get_cent c' cid1 = Some y;
  wv_new : forall e1 cid1, al_get e1 (cl_s2c c') = Some cid1 ->
           al_get e1 (cl_s2c c) = Some cid1 \/
           (al_get e1 (cl_s2c c) = None /\ (exists k, In (k, VRef e1) comps) /\ get_cent c' cid1 = Some placeholder /\ cid1 <> cid);
  wv_bwd : forall cid1 y, cid1 <> cid -> get_cent c' cid1 = Some y -> get_cent c cid1 = Some y \/ y = placeholder
}.

Lemma write_one_view c e cid x kv : cs_inv c -> al_get e (cl_s2c c) = Some cid -> get_cent c cid = Some x ->
  ce_alive x = true -> ce_marker x = true -> write_view c (write_one cid c kv) e cid x [kv].
Proof.
  intros Hinv He Hx Ha Hm. rewrite write_one_eq.
  destruct (map_value_view c (snd kv) Hinv) as (H1 & H2 & H3 & H4 & H5 & H6 & H7 & H8). cbv zeta in H1, H2, H3, H4, H5, H6, H7, H8.
  set (c1 := fst (map_value c (snd kv))) in *. rewrite (H6 cid x Hx).
  set (x' := mkCEnt (ce_alive x) (ce_pre x) (ce_marker x) (ce_hist x) (kinsert (fst kv) (snd (map_value c (snd kv))) (ce_comps x))).
  constructor.
  - eapply cs_inv_set_cent; [exact H1|exact (H6 cid x Hx)|exact Ha|cbn; congruence].
  - eapply same_meta_trans; [exact H2|apply same_meta_set_cent].
  - intros e1 cid1 H. cbn [set_cent cl_s2c]. exact (H3 e1 cid1 H).
  - exists x'. split; [apply get_cent_set_cent_same|]. split; [exact Ha|]. split; [exact Hm|].
    split; [reflexivity|]. split; [reflexivity|]. cbn [x' ce_comps set_cent cl_s2c wr_compsr fold_left]. rewrite H4. reflexivity.
  - intros k t [Hin|[]]. cbn [set_cent cl_s2c]. apply (H5 t). destruct kv as [k0 v0]. cbn [snd]. congruence.
  - intros cid1 y Hne Hy. rewrite get_cent_set_cent_other by exact Hne. exact (H6 cid1 y Hy).
  - intros e1 cid1 H. cbn [set_cent cl_s2c] in H. destruct (H7 e1 cid1 H) as [Ho|(A & B & C & D)]; [left; exact Ho|right].
    assert (Hne : cid1 <> cid) by (intros ->; congruence).
    split; [exact A|]. split; [exists (fst kv); left; destruct kv as [k0 v0]; cbn [fst snd] in *; congruence|].
    split; [rewrite get_cent_set_cent_other by exact Hne; exact C|exact Hne].
  - intros cid1 y Hne Hy. rewrite get_cent_set_cent_other in Hy by exact Hne. destruct (H8 cid1 y Hy) as [Ho|[Hp _]]; [left; exact Ho|right; exact Hp].
Qed.

Lemma write_comps_view comps : forall c e cid x, cs_inv c -> al_get e (cl_s2c c) = Some cid -> get_cent c cid = Some x ->
  ce_alive x = true -> ce_marker x = true -> write_view c (write_comps c cid comps) e cid x comps.
Proof.
  induction comps as [|kv t IH]; intros c e cid x Hinv He Hx Ha Hm.
  - cbn [write_comps fold_left]. constructor; [exact Hinv|apply same_meta_refl|apply s2c_grows_refl| |intros k t0 []|auto|auto|auto].
    exists x. repeat (split; [first [assumption|reflexivity]|]). reflexivity.
  - rewrite write_comps_cons.
    destruct (write_one_view c e cid x kv Hinv He Hx Ha Hm) as [H1 H2 H3 (x1 & Hx1 & Ha1 & Hm1 & Hh1 & Hp1 & Hk1) H5 H6 H7 H8].
    destruct (IH _ e cid x1 H1 (H3 e cid He) Hx1 Ha1 Hm1) as [G1 G2 G3 (x2 & Hx2 & Ha2 & Hm2 & Hh2 & Hp2 & Hk2) G5 G6 G7 G8].
    set (c1 := write_one cid c kv) in *. set (c2 := write_comps c1 cid t) in *.
    constructor.
    + exact G1.
    + exact (same_meta_trans _ _ _ H2 G2).
    + exact (s2c_grows_trans _ _ _ H3 G3).
    + exists x2. split; [exact Hx2|]. split; [exact Ha2|]. split; [exact Hm2|]. split; [congruence|]. split; [congruence|].
      rewrite Hk2, Hk1. unfold wr_compsr. cbn [fold_left]. f_equal. f_equal. destruct kv as [k v]. cbn [fst snd].
      apply cval_of_ext. intros t0 ->. pose proof (H5 k t0 (or_introl eq_refl)) as Hmapped.
      destruct (al_get t0 (cl_s2c c1)) as [cid0|] eqn:E0; [|congruence]. symmetry. exact (G3 t0 cid0 E0).
    + intros k t0 [Hin|Hin].
      * pose proof (H5 k t0 (or_introl Hin)) as Hmapped. destruct (al_get t0 (cl_s2c c1)) as [cid0|] eqn:E0; [|congruence].
        rewrite (G3 t0 cid0 E0). discriminate.
      * exact (G5 k t0 Hin).
    + intros cid1 y Hne Hy. apply G6; [exact Hne|]. apply H6; assumption.
    + intros e1 cid1 H. destruct (G7 e1 cid1 H) as [Ho|(A & (k & B) & C & D)].
      * destruct (H7 e1 cid1 Ho) as [Ho1|(A1 & (k1 & B1) & C1 & D1)]; [left; exact Ho1|right].
        split; [exact A1|]. split; [exists k1; destruct B1 as [B1|[]]; left; exact B1|]. split; [exact (G6 cid1 _ D1 C1)|exact D1].
      * right. split; [|split; [exists k; right; exact B|split; [exact C|exact D]]].
        destruct (al_get e1 (cl_s2c c)) as [cid0|] eqn:E0; [|reflexivity]. rewrite (H3 e1 cid0 E0) in A. discriminate.
    + intros cid1 y Hne Hy. destruct (G8 cid1 y Hne Hy) as [Hy1|Hy1]; [|right; exact Hy1]. exact (H8 cid1 y Hne Hy1).
Qed.

(* ================================================================== *)
(* 4. entities a step does not address                                *)
(* ================================================================== *)

(* nothing happens to the client entity of [e], or (it was unknown) a placeholder is reserved for it *)
Definition others_ok (c c' : client) (e : N) : Prop :=
  centof c' e = centof c e \/ (centof c e = None /\ exists x, centof c' e = Some x /\ ce_marker x = false).

Lemma others_ok_refl c e : others_ok c c e.
Proof. left. reflexivity. Qed.

Lemma others_ok_trans a b c e : others_ok a b e -> others_ok b c e -> others_ok a c e.
Proof.
  intros [H1|(H1 & x1 & Hx1 & Hm1)] [H2|(H2 & x2 & Hx2 & Hm2)].
  - left. congruence.
  - right. split; [congruence|]. exists x2. auto.
  - right. split; [exact H1|]. exists x1. split; [congruence|exact Hm1].
  - congruence.
Qed.

Lemma others_has c c' e x h : others_ok c c' e -> (has c' e x h <-> has c e x h).
Proof.
  intros [H|(H & x1 & Hx1 & Hm1)]; unfold has.
  - rewrite H. reflexivity.
  - split; intros (A & _ & B & _); [|congruence]. rewrite Hx1 in A. inversion A; subst x1. congruence.
Qed.

Lemma centof_unmarked_blank c e x : cs_inv c -> centof c e = Some x -> ce_marker x = false -> ce_comps x = [] /\ ce_hist x = None.
Proof. intros Hcs Hc Hm. destruct (centof_some_mapped c e x Hc) as [cid [_ Hx]]. exact (ci_blank c Hcs cid x Hx Hm). Qed.

Lemma others_comps c c' e : cs_inv c' -> others_ok c c' e -> comps_of (centof c' e) = comps_of (centof c e).
Proof.
  intros Hcs [H|(H & x1 & Hx1 & Hm1)]; [rewrite H; reflexivity|]. rewrite H, Hx1. cbn [comps_of].
  exact (proj1 (centof_unmarked_blank c' e x1 Hcs Hx1 Hm1)).
Qed.

Lemma others_geb c c' e T : cs_inv c' -> others_ok c c' e -> geb_hist T (centof c' e) -> geb_hist T (centof c e).
Proof.
  intros Hcs [H|(H & x1 & Hx1 & Hm1)] G; [rewrite <- H; exact G|]. rewrite H. intros x h Hx. discriminate.
Qed.

Lemma mapped_okr_step c c' e0 : cs_inv c' -> mapped_okr c -> (forall e, e <> e0 -> others_ok c c' e) ->
  (al_get e0 (cl_s2c c') <> None -> (exists x h, has c' e0 x h) \/ (exists x, centof c' e0 = Some x /\ ce_marker x = false)) ->
  mapped_okr c'.
Proof.
  intros Hcs Hmo Hoth H0 e cid Hs. destruct (N.eq_dec e e0) as [->|Hne]; [apply H0; congruence|].
  destruct (ci_mapped c' Hcs e cid Hs) as [x [Hx _]]. assert (Hc' : centof c' e = Some x) by (unfold centof; rewrite Hs; exact Hx).
  destruct (Hoth e Hne) as [H|(H & x1 & Hx1 & Hm1)].
  - rewrite Hc' in H. symmetry in H. destruct (centof_some_mapped c e x H) as [cid1 [Hs1 _]].
    destruct (Hmo e cid1 Hs1) as [(x2 & h2 & Hh)|(x2 & Hx2 & Hm2)].
    + left. exists x2, h2. apply (others_has c c' e x2 h2 (Hoth e Hne)). exact Hh.
    + right. exists x2. split; [congruence|exact Hm2].
  - right. exists x1. auto.
Qed.

(* ================================================================== *)
(* 5. the despawn phase                                               *)
(* ================================================================== *)

Lemma s2c_despawn c d e : al_get e (cl_s2c (apply_despawn c d)) = if e =? d then None else al_get e (cl_s2c c).
Proof.
  unfold apply_despawn, emap_remove_server. destruct (al_get d (cl_s2c c)) as [cid|] eqn:Ed.
  - assert (E : al_get e (al_remove d (cl_s2c c)) = if e =? d then None else al_get e (cl_s2c c)).
    { destruct (e =? d) eqn:Ee; [assert (e = d) by lia; subst e; apply al_get_remove_same|apply al_get_remove_other; lia]. }
    rewrite get_cent_set_maps. destruct (get_cent c cid) as [x|]; [destruct (ce_alive x)|]; cbn [set_cent set_maps cl_s2c]; exact E.
  - destruct (e =? d) eqn:Ee; [assert (e = d) by lia; subst e; exact Ed|reflexivity].
Qed.

Lemma s2c_despawns ds : forall c e,
  al_get e (cl_s2c (fold_left apply_despawn ds c)) = if mem_N e ds then None else al_get e (cl_s2c c).
Proof.
  induction ds as [|d t IH]; intros c e; cbn [fold_left]; [reflexivity|].
  rewrite IH, s2c_despawn. unfold mem_N. cbn [existsb]. fold (mem_N e t). destruct (e =? d); cbn [orb]; [destruct (mem_N e t); reflexivity|reflexivity].
Qed.

Lemma mapped_okr_despawns ds : forall c, cs_inv c -> mapped_okr c -> mapped_okr (fold_left apply_despawn ds c).
Proof.
  intros c Hcs Hmo e cid Hs. rewrite s2c_despawns in Hs. destruct (mem_N e ds) eqn:Em; [discriminate|].
  destruct (centof_despawns ds c e Hcs) as [Hcs' Hc]. rewrite Em in Hc.
  destruct (Hmo e cid Hs) as [(x & h & Hh)|(x & Hx & Hm)].
  - left. exists x, h. unfold has in *. rewrite Hc. exact Hh.
  - right. exists x. split; [congruence|exact Hm].
Qed.

(* ================================================================== *)
(* 6. one element of the removals / changes array                     *)
(* ================================================================== *)

Lemma entry_grows c e0 c1 cid0 : cs_inv c -> entry_entity c e0 = Some (c1, cid0) -> s2c_grows c c1.
Proof.
  intros Hinv H. destruct (entry_props c e0 Hinv) as (c1' & cid' & x' & E & _ & _ & _ & _ & _ & _ & G & _).
  rewrite E in H. inversion H; subst c1' cid'. exact G.
Qed.

Lemma removal_view_r c T e0 ks r : cs_inv c -> mapped_okr c -> apply_removals c T e0 ks = Ok r ->
  exists c', r = Continue c' /\ cs_inv c' /\ mapped_okr c' /\ s2c_grows c c' /\
    (forall e, e <> e0 -> centof c' e = centof c e) /\
    geb_hist T (centof c e0) /\
    exists x', centof c' e0 = Some x' /\ live_at T x' /\ ce_comps x' = rm_comps ks (comps_of (centof c e0)).
Proof.
  intros Hinv Hmo H. destruct (removal_view c T e0 ks r Hinv H) as (c' & -> & Hinv' & Hoth & Hg & x' & Hx' & Hl & Hc).
  exists c'. split; [reflexivity|]. split; [exact Hinv'|].
  assert (Hgrow : s2c_grows c c').
  { unfold apply_removals in H. destruct (entry_entity c e0) as [[c1 cid0]|] eqn:Ee; [|discriminate].
    pose proof (entry_grows c e0 c1 cid0 Hinv Ee) as G. destruct (get_cent c1 cid0) as [x|]; [|discriminate].
    apply bind_ok in H. destruct H as [x1 [_ H]]. inversion H; subst c'. intros e cid He. cbn [set_cent cl_s2c]. exact (G e cid He). }
  split.
  { apply (mapped_okr_step c c' e0 Hinv' Hmo); [intros e Hne; left; exact (Hoth e Hne)|].
    intros _. left. destruct (live_at_has c' e0 x' T Hx' Hl) as [h [Hh _]]. exists x', h. exact Hh. }
  split; [exact Hgrow|]. split; [exact Hoth|]. split; [exact Hg|]. exists x'. auto.
Qed.

Lemma change_view_r c T e0 vals r : cs_inv c -> mapped_okr c -> apply_changes c T e0 vals = Ok r ->
  exists c', r = Continue c' /\ cs_inv c' /\ mapped_okr c' /\ s2c_grows c c' /\
    (forall e, e <> e0 -> others_ok c c' e) /\
    geb_hist T (centof c e0) /\
    exists x', centof c' e0 = Some x' /\ live_at T x' /\
               ce_comps x' = wr_compsr (cl_s2c c') vals (comps_of (centof c e0)) /\ refs_mapped c' vals.
Proof.
  intros Hinv Hmo H.
  destruct (change_step c _ T (e0, vals) r Hinv (srel_self c (cs_inv_nodup c Hinv)) H) as (c' & -> & Hinv' & _).
  exists c'. split; [reflexivity|]. split; [exact Hinv'|].
  unfold apply_changes in H. destruct (entry_entity c e0) as [[c1 cid0]|] eqn:Ee; [|discriminate].
  destruct (entry_view c e0 c1 cid0 Hinv Ee) as (I1 & M1 & O1 & V1). pose proof (entry_grows c e0 c1 cid0 Hinv Ee) as G1.
  rewrite (centof_mapped c1 e0 cid0 M1) in V1. rewrite V1 in H.
  set (x0 := match centof c e0 with Some x => x | None => fresh_cent end) in *.
  apply bind_ok in H. destruct H as [x1 [Ec H]].
  destruct (confirm_tick_fields _ _ _ Ec) as (A & B & C & D & h' & Hh' & Hl' & Hge).
  assert (Ha0 : ce_alive x0 = true).
  { unfold x0. destruct (centof c e0) as [x|] eqn:Ex; [exact (centof_alive c e0 x Hinv Ex)|reflexivity]. }
  assert (I2 : cs_inv (set_cent c1 cid0 x1)).
  { eapply cs_inv_set_cent; [exact I1|exact V1|rewrite A; exact Ha0|rewrite C; cbn; congruence]. }
  assert (M2 : al_get e0 (cl_s2c (set_cent c1 cid0 x1)) = Some cid0) by exact M1.
  destruct (write_comps_view vals (set_cent c1 cid0 x1) e0 cid0 x1 I2 M2 (get_cent_set_cent_same _ _ _)
              (eq_trans A Ha0) (eq_trans C eq_refl)) as [W1 W2 W3 (x' & Hx' & Wa & Wm & Wh & Wp & Wc) W5 W6 W7 W8].
  inversion H; subst c'. clear H. set (c' := write_comps (set_cent c1 cid0 x1) cid0 vals) in *.
  assert (Hgrow : s2c_grows c c') by (intros e cid He; apply W3; cbn [set_cent cl_s2c]; exact (G1 e cid He)).
  assert (M' : al_get e0 (cl_s2c c') = Some cid0) by (apply W3; exact M2).
  assert (Hoth : forall e, e <> e0 -> others_ok c c' e).
  { intros e Hne. unfold others_ok. rewrite <- (O1 e Hne). unfold centof.
    destruct (al_get e (cl_s2c c1)) as [cid1|] eqn:E1.
    - assert (E2 : al_get e (cl_s2c (set_cent c1 cid0 x1)) = Some cid1) by exact E1. rewrite (W3 e cid1 E2). left.
      assert (Hne1 : cid1 <> cid0) by (intros ->; apply Hne; exact (s2c_inj c1 e e0 cid0 (ci_emap c1 I1) E1 M1)).
      destruct (ci_mapped c1 I1 e cid1 E1) as [y [Hy _]]. rewrite Hy. apply W6; [exact Hne1|]. rewrite get_cent_set_cent_other by exact Hne1. exact Hy.
    - destruct (al_get e (cl_s2c c')) as [cid1|] eqn:E2; [|left; reflexivity].
      destruct (W7 e cid1 E2) as [Ho|(_ & _ & Hp & _)]; [cbn [set_cent cl_s2c] in Ho; congruence|].
      right. split; [reflexivity|]. exists placeholder. split; [exact Hp|reflexivity]. }
  assert (Hc' : centof c' e0 = Some x') by (unfold centof; rewrite M'; exact Hx').
  assert (Hlive : live_at T x').
  { split; [exact Wa|]. split; [exact Wm|]. exists h'. split; [rewrite Wh; exact Hh'|exact Hl']. }
  split.
  { apply (mapped_okr_step c c' e0 W1 Hmo Hoth). intros _. left. destruct (live_at_has c' e0 x' T Hc' Hlive) as [h [Hh _]]. exists x', h. exact Hh. }
  split; [exact Hgrow|]. split; [exact Hoth|]. split.
  { intros x h Hx Hh. apply Hge. unfold x0. rewrite Hx. cbn. exact Hh. }
  exists x'. split; [exact Hc'|]. split; [exact Hlive|]. split; [|exact W5].
  rewrite Wc, D. cbn [with_marker ce_comps]. unfold x0, comps_of. destruct (centof c e0); reflexivity.
Qed.

(* ================================================================== *)
(* 7. the arrays of an update message                                 *)
(* ================================================================== *)

Lemma run_removals_view_r T l : forall c c', cs_inv c -> mapped_okr c -> NoDup (map fst l) ->
  run_array (fun c r => apply_removals c T (fst r) (snd r)) l c = Ok (Continue c') ->
  cs_inv c' /\ mapped_okr c' /\ s2c_grows c c' /\ forall e,
    match al_get e l with
    | None => centof c' e = centof c e
    | Some ks => geb_hist T (centof c e) /\
                 exists x', centof c' e = Some x' /\ live_at T x' /\ ce_comps x' = rm_comps ks (comps_of (centof c e))
    end.
Proof.
  induction l as [|[e0 ks] t IH]; intros c c' Hinv Hmo Hnd H.
  - rewrite run_array_nil in H. inversion H; subst c'. split; [exact Hinv|]. split; [exact Hmo|]. split; [apply s2c_grows_refl|]. intros e. reflexivity.
  - rewrite run_array_cons in H. cbn [fst snd] in H.
    destruct (apply_removals c T e0 ks) as [r| |] eqn:E0; try discriminate.
    destruct (removal_view_r c T e0 ks r Hinv Hmo E0) as (c1 & -> & I1 & Mo1 & Gr1 & O1 & G1 & x1 & V1 & L1 & C1).
    cbn [map fst] in Hnd. inversion Hnd as [|? ? Hni Hnd']; subst.
    destruct (IH c1 c' I1 Mo1 Hnd' H) as (I' & Mo' & Gr' & V'). split; [exact I'|]. split; [exact Mo'|].
    split; [exact (s2c_grows_trans _ _ _ Gr1 Gr')|]. intros e. cbn [al_get]. specialize (V' e).
    destruct (e0 =? e) eqn:Ee.
    + assert (e0 = e) by lia. subst e0. assert (Hn : al_get e t = None) by (apply al_get_none_keys; exact Hni).
      rewrite Hn in V'. split; [exact G1|]. exists x1. rewrite V'. auto.
    + assert (Hne : e <> e0) by lia. rewrite (O1 e Hne) in V'. exact V'.
Qed.

Lemma refs_mapped_grows c c' vals : s2c_grows c c' -> refs_mapped c vals -> refs_mapped c' vals.
Proof.
  intros G H k t Hin. specialize (H k t Hin). destruct (al_get t (cl_s2c c)) as [cid|] eqn:E; [|congruence].
  rewrite (G t cid E). discriminate.
Qed.

Lemma wr_compsr_grows c c' vals base : s2c_grows c c' -> refs_mapped c vals ->
  wr_compsr (cl_s2c c') vals base = wr_compsr (cl_s2c c) vals base.
Proof.
  intros G H. apply wr_compsr_ext. intros k t Hin. specialize (H k t Hin).
  destruct (al_get t (cl_s2c c)) as [cid|] eqn:E; [|congruence]. exact (G t cid E).
Qed.

Lemma run_changes_view_r T l : forall c c', cs_inv c -> mapped_okr c -> NoDup (map fst l) ->
  run_array (fun c ch => apply_changes c T (fst ch) (snd ch)) l c = Ok (Continue c') ->
  cs_inv c' /\ mapped_okr c' /\ s2c_grows c c' /\ forall e,
    match al_get e l with
    | None => others_ok c c' e
    | Some vals => geb_hist T (centof c e) /\
                   exists x', centof c' e = Some x' /\ live_at T x' /\
                              ce_comps x' = wr_compsr (cl_s2c c') vals (comps_of (centof c e)) /\ refs_mapped c' vals
    end.
Proof.
  induction l as [|[e0 vals] t IH]; intros c c' Hinv Hmo Hnd H.
  - rewrite run_array_nil in H. inversion H; subst c'. split; [exact Hinv|]. split; [exact Hmo|]. split; [apply s2c_grows_refl|].
    intros e. apply others_ok_refl.
  - rewrite run_array_cons in H. cbn [fst snd] in H.
    destruct (apply_changes c T e0 vals) as [r| |] eqn:E0; try discriminate.
    destruct (change_view_r c T e0 vals r Hinv Hmo E0) as (c1 & -> & I1 & Mo1 & Gr1 & O1 & G1 & x1 & V1 & L1 & C1 & R1).
    cbn [map fst] in Hnd. inversion Hnd as [|? ? Hni Hnd']; subst.
    destruct (IH c1 c' I1 Mo1 Hnd' H) as (I' & Mo' & Gr' & V'). split; [exact I'|]. split; [exact Mo'|].
    split; [exact (s2c_grows_trans _ _ _ Gr1 Gr')|]. intros e. cbn [al_get]. specialize (V' e).
    destruct (e0 =? e) eqn:Ee.
    + assert (e0 = e) by lia. subst e0. assert (Hnone : al_get e t = None) by (apply al_get_none_keys; exact Hni).
      rewrite Hnone in V'. split; [exact G1|]. exists x1.
      assert (E1 : centof c' e = Some x1).
      { destruct V' as [V'|(V' & _)]; [rewrite V'; exact V1|congruence]. }
      split; [exact E1|]. split; [exact L1|]. split; [|exact (refs_mapped_grows c1 c' vals Gr' R1)].
      rewrite C1. symmetry. exact (wr_compsr_grows c1 c' vals _ Gr' R1).
    + assert (Hne : e <> e0) by lia. pose proof (O1 e Hne) as Oe.
      destruct (al_get e t) as [vals0|].
      * destruct V' as (G' & x' & X' & L' & C' & R'). split; [exact (others_geb c c1 e T I1 Oe G')|]. exists x'.
        split; [exact X'|]. split; [exact L'|]. split; [|exact R']. rewrite C', (others_comps c c1 e I1 Oe). reflexivity.
      * exact (others_ok_trans c c1 c' e Oe V').
Qed.

(* ================================================================== *)
(* 8. a whole update message                                          *)
(* ================================================================== *)

Theorem update_view_r c u c' : cs_inv c -> mapped_okr c -> upd_shaper u -> apply_update_message c u = Ok c' ->
  cs_inv c' /\ cl_upd_tick c' = u_tick u /\ mapped_okr c' /\
  (* the map entries of the entities that are not despawned survive *)
  (forall e cid, al_get e (cl_s2c c) = Some cid -> mem_N e (u_despawns u) = false -> al_get e (cl_s2c c') = Some cid) /\
  forall e,
    let o1 := if mem_N e (u_despawns u) then None else centof c e in
    if touched u e then
      geb_hist (u_tick u) o1 /\
      exists x', centof c' e = Some x' /\ live_at (u_tick u) x' /\
                 ce_comps x' = wr_compsr (cl_s2c c') (al_dflt e (u_changes u)) (rm_comps (al_dflt e (u_removals u)) (comps_of o1)) /\
                 refs_mapped c' (al_dflt e (u_changes u))
    else centof c' e = o1 \/ (o1 = None /\ exists x', centof c' e = Some x' /\ ce_marker x' = false).
Proof.
  intros Hinv Hmo (Hm & Hndr & Hndc) H.
  destruct (update_message_srel c (client_struct c) u c' Hinv (srel_self c (cs_inv_nodup c Hinv)) Hm H) as (_ & Hinv' & Htk & Hcomp).
  split; [exact Hinv'|]. split; [exact Htk|].
  destruct Hcomp as [c3 [E3 E4]].
  assert (Epre : update_pre c u = fold_left apply_despawn (u_despawns u) (set_upd_tick c (u_tick u))).
  { unfold update_pre. rewrite Hm. reflexivity. }
  assert (Hinv0 : cs_inv (set_upd_tick c (u_tick u))) by (revert Hinv; apply cs_inv_ext; reflexivity).
  assert (Hmo0 : mapped_okr (set_upd_tick c (u_tick u))) by exact Hmo.
  rewrite Epre in E3. set (c1 := fold_left apply_despawn (u_despawns u) (set_upd_tick c (u_tick u))) in *.
  assert (Ip : cs_inv c1) by exact (proj1 (centof_despawns (u_despawns u) (set_upd_tick c (u_tick u)) 0 Hinv0)).
  assert (Mp : mapped_okr c1) by exact (mapped_okr_despawns (u_despawns u) _ Hinv0 Hmo0).
  destruct (run_removals_view_r _ _ _ _ Ip Mp Hndr E3) as (I3 & M3 & G3 & V3).
  destruct (run_changes_view_r _ _ _ _ I3 M3 Hndc E4) as (I4 & M4 & G4 & V4).
  split; [exact M4|]. split.
  { intros e cid He Hd. apply G4. apply G3. unfold c1. rewrite s2c_despawns, Hd. exact He. }
  intros e. specialize (V3 e). specialize (V4 e).
  pose proof (proj2 (centof_despawns (u_despawns u) (set_upd_tick c (u_tick u)) e Hinv0)) as Vp. fold c1 in Vp.
  rewrite (centof_ext c (set_upd_tick c (u_tick u)) e eq_refl eq_refl) in Vp.
  cbv zeta. unfold touched, al_dflt.
  set (o1 := if mem_N e (u_despawns u) then None else centof c e) in *. rewrite Vp in V3.
  destruct (al_get e (u_removals u)) as [ks|] eqn:Er; destruct (al_get e (u_changes u)) as [vals|] eqn:Ec.
  - destruct V3 as (Ge3 & x3 & X3 & L3 & C3). destruct V4 as (Ge4 & x4 & X4 & L4 & C4 & R4).
    split; [exact Ge3|]. exists x4. split; [exact X4|]. split; [exact L4|]. split; [|exact R4]. rewrite C4, X3. cbn [comps_of]. rewrite C3. reflexivity.
  - destruct V3 as (Ge3 & x3 & X3 & L3 & C3). split; [exact Ge3|]. exists x3.
    assert (E4' : centof c' e = Some x3) by (destruct V4 as [V4|(V4 & _)]; [rewrite V4; exact X3|congruence]).
    split; [exact E4'|]. split; [exact L3|]. split; [rewrite wr_compsr_nil; exact C3|intros k t []].
  - destruct V4 as (Ge4 & x4 & X4 & L4 & C4 & R4). rewrite V3 in Ge4, C4. split; [exact Ge4|]. exists x4. split; [exact X4|]. split; [exact L4|].
    split; [|exact R4]. rewrite rm_comps_nil. exact C4.
  - unfold others_ok in V4. rewrite V3 in V4. destruct V4 as [V4|(V4 & x4 & X4 & Hm4)]; [left; exact V4|right]. split; [exact V4|]. exists x4. auto.
Qed.

(* the client values that stand for server values keep doing so, unless the referenced entity is despawned *)
Lemma vrel_update c u c' v cv : cs_inv c -> mapped_okr c -> upd_shaper u -> apply_update_message c u = Ok c' ->
  vrel c v cv -> (forall t, v = VRef t -> mem_N t (u_despawns u) = false) -> vrel c' v cv.
Proof.
  intros Hinv Hmo Hsh H Hr Hnd. destruct (update_view_r c u c' Hinv Hmo Hsh H) as (Hinv' & _ & _ & Hs & _).
  destruct v as [n|t], cv as [m|cid]; cbn [vrel] in *; try exact Hr.
  apply (s2c_c2s c' t cid (ci_emap c' Hinv')). apply Hs; [|exact (Hnd t eq_refl)]. apply (s2c_c2s c t cid (ci_emap c Hinv)). exact Hr.
Qed.

(* ================================================================== *)
(* 9. one entry of a mutate message                                   *)
(* ================================================================== *)

Lemma mutation_view_r c T e0 vals r : cs_inv c -> mapped_okr c -> apply_mutations c T e0 vals = Ok r ->
  exists c', r = Continue c' /\ cs_inv c' /\ mapped_okr c' /\ s2c_grows c c' /\
    (forall e, e <> e0 -> others_ok c c' e) /\
    ((forall x h, ~ has c e0 x h) -> c' = c) /\
    forall x h, has c e0 x h ->
        if tick_gtb T (h_last h) then
          tick_geb T (h_last h) = true /\
          exists x', centof c' e0 = Some x' /\ live_at T x' /\
                     ce_comps x' = wr_compsr (cl_s2c c') vals (ce_comps x) /\ refs_mapped c' vals
        else c' = c.
Proof.
  intros Hinv Hmo H. unfold apply_mutations in H.
  destruct (al_get e0 (cl_s2c c)) as [cid|] eqn:Ee.
  2:{ inversion H; subst r. exists c. split; [reflexivity|]. split; [exact Hinv|]. split; [exact Hmo|]. split; [apply s2c_grows_refl|].
      split; [intros; apply others_ok_refl|]. split; [auto|]. intros x h (Hc & _). unfold centof in Hc. rewrite Ee in Hc. discriminate. }
  destruct (ci_mapped c Hinv e0 cid Ee) as [x0 [Hx0 Ha0]]. rewrite Hx0, Ha0 in H. cbn [negb] in H.
  assert (Hc0 : centof c e0 = Some x0) by (unfold centof; rewrite Ee; exact Hx0).
  destruct (ce_hist x0) as [h0|] eqn:Eh0.
  2:{ inversion H; subst r. exists c. split; [reflexivity|]. split; [exact Hinv|]. split; [exact Hmo|]. split; [apply s2c_grows_refl|].
      split; [intros; apply others_ok_refl|]. split; [auto|]. intros x h (Hc & _ & _ & Hh). rewrite Hc0 in Hc. inversion Hc; subst x. congruence. }
  destruct (tick_gtb T (h_last h0)) eqn:Eg.
  2:{ inversion H; subst r. exists c. split; [reflexivity|]. split; [exact Hinv|]. split; [exact Hmo|]. split; [apply s2c_grows_refl|].
      split; [intros; apply others_ok_refl|]. split; [auto|]. intros x h (Hc & _ & _ & Hh). rewrite Hc0 in Hc. inversion Hc; subst x.
      rewrite Eh0 in Hh. inversion Hh; subst h. rewrite Eg. reflexivity. }
  apply bind_ok in H. destruct H as [h' [Eh' H]].
  destruct (hist_set_last_tick_ok _ _ _ Eh') as [Hl' Hge].
  assert (Hmk0 : ce_marker x0 = true).
  { destruct (ce_marker x0) eqn:Em; [reflexivity|]. destruct (ci_blank c Hinv cid x0 Hx0 Em) as [_ Hn]. congruence. }
  set (x1 := mkCEnt true (ce_pre x0) (ce_marker x0) (Some h') (ce_comps x0)) in *.
  assert (I2 : cs_inv (set_cent c cid x1)).
  { apply (cs_inv_set_cent c cid x0); [exact Hinv|exact Hx0|reflexivity|cbn; congruence]. }
  destruct (write_comps_view vals (set_cent c cid x1) e0 cid x1 I2 Ee (get_cent_set_cent_same _ _ _) eq_refl Hmk0)
    as [W1 W2 W3 (x' & Hx' & Wa & Wm & Wh & Wp & Wc) W5 W6 W7 W8].
  inversion H; subst r. clear H. set (c' := write_comps (set_cent c cid x1) cid vals) in *.
  assert (M' : al_get e0 (cl_s2c c') = Some cid) by (apply W3; exact Ee).
  assert (Hoth : forall e, e <> e0 -> others_ok c c' e).
  { intros e Hne. unfold others_ok, centof.
    destruct (al_get e (cl_s2c c)) as [cid1|] eqn:E1.
    - assert (E2 : al_get e (cl_s2c (set_cent c cid x1)) = Some cid1) by exact E1. rewrite (W3 e cid1 E2). left.
      assert (Hne1 : cid1 <> cid) by (intros ->; apply Hne; exact (s2c_inj c e e0 cid (ci_emap c Hinv) E1 Ee)).
      destruct (ci_mapped c Hinv e cid1 E1) as [y [Hy _]]. rewrite Hy. apply W6; [exact Hne1|]. rewrite get_cent_set_cent_other by exact Hne1. exact Hy.
    - destruct (al_get e (cl_s2c c')) as [cid1|] eqn:E2; [|left; reflexivity].
      destruct (W7 e cid1 E2) as [Ho|(_ & _ & Hp & _)]; [cbn [set_cent cl_s2c] in Ho; congruence|].
      right. split; [reflexivity|]. exists placeholder. split; [exact Hp|reflexivity]. }
  assert (Hc' : centof c' e0 = Some x') by (unfold centof; rewrite M'; exact Hx').
  assert (Hlive : live_at T x').
  { split; [exact Wa|]. split; [exact Wm|]. exists h'. split; [rewrite Wh; reflexivity|exact Hl']. }
  exists c'. split; [reflexivity|]. split; [exact W1|]. split.
  { apply (mapped_okr_step c c' e0 W1 Hmo Hoth). intros _. left. destruct (live_at_has c' e0 x' T Hc' Hlive) as [h [Hh _]]. exists x', h. exact Hh. }
  split; [intros e cid1 He; apply W3; exact He|]. split; [exact Hoth|]. split.
  { intros Hno. exfalso. apply (Hno x0 h0). split; [exact Hc0|]. split; [exact Ha0|]. split; [exact Hmk0|exact Eh0]. }
  intros x h (Hc & _ & _ & Hh). rewrite Hc0 in Hc. inversion Hc; subst x. rewrite Eh0 in Hh. inversion Hh; subst h. rewrite Eg.
  split; [exact Hge|]. exists x'. split; [exact Hc'|]. split; [exact Hlive|]. split; [exact Wc|exact W5].
Qed.

(* ================================================================== *)
(* 10. client operations leave the maps alone                          *)
(* ================================================================== *)

Lemma cop_c2s c op : cl_c2s (apply_cop c op) = cl_c2s c.
Proof.
  destruct op as [pc|pc]; cbn [apply_cop].
  - destruct (existsb _ (cl_ents c)); reflexivity.
  - destruct (find _ (cl_ents c)) as [[cid0 x0]|]; [|reflexivity]. destruct (ce_alive x0); reflexivity.
Qed.

Lemma cops_c2s ops : forall c, cl_c2s (fold_left apply_cop ops c) = cl_c2s c.
Proof. induction ops as [|op t IH]; intros c; cbn [fold_left]; [reflexivity|]. rewrite IH. apply cop_c2s. Qed.
