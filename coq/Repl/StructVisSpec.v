(* C03, server half, for every visibility policy (PAll / PBlack / PWhite): the update messages sent
   to a client are the structural diffs of the part of the server world that is VISIBLE to that
   client, between consecutive ticks.  Definitions only; lemmas: Repl/StructVis_proofs.v (a tick),
   Repl/StructVisOps_proofs.v (operations), Repl/StructVisRun_proofs.v (frames, runs),
   Repl/StructVisIndep_proofs.v (independence of the clients); pinned statements: Properties/C03V.v.  Everything of Repl/StructSpec.v is reused (structure,
   struct_equiv, struct_of, abs_apply, pending_ok, the ghost run gstate / gstep / grun: `sync_sent`
   does not depend on the policy).

   struct_vis s cl     the entities of `struct_of s` that the visibility of the client record [cl]
                       reports as visible (`vis_visible (sc_vis cl)`; no ClientVisibility = all)
   vis_legal v         representation invariant of a ClientVisibility: per entity, the triple
                       (list entry, in `added`, in `removed`) is one of the four combinations the
                       state machine produces (Vis/Visibility_proofs.v: `view`, `conc`)
   v_prev v e          what the ClientVisibility remembers of the LAST TICK for e ("the client was
                       told that e is visible"): read off the model state, see below
   vis_ok vo st        the visibility part of the invariant between two ticks: every entity of the
                       structure [st] sent so far was visible at the last tick
   srv_base_v / srv_ok_v   `srv_base` / `srv_ok` of StructSpec without `no_vis`
   cl_keep             proof vocabulary: a client record that changed only in ways the invariants do
                       not read (acknowledgements, pre-spawn mappings, `set_visibility`)
   ginv_v              the invariant of a ghost run, all policies
   vis_kind / clients_kind  the policy decides which ClientVisibility an authorized client carries
   same_but / gop_sim  independence: servers / run steps that differ only in what concerns one slot *)
From RV Require Import Lib.Res Repl.ClientTicks Repl.World Vis.Visibility Vis.VisSpec Vis.Visibility_proofs
  Tick.RepliconTick Repl.Server Repl.ServerSpec Repl.StructSpec.
Open Scope N_scope.

(* ---------- the visible part of the replicated structure ---------- *)

Definition vis_filter (vo : option vis) (st : structure) : structure :=
  filter (fun ek => vis_visible vo (fst ek)) st.

(* [cl] is meant to be the client record AFTER the tick's `send_for_client` (its visibility has gone
   through `update`): between two ticks the record also carries the settings made since the last
   tick, which must not count before the next tick *)
Definition struct_vis (s : server) (cl : sclient) : structure := vis_filter (sc_vis cl) (struct_of s).

(* ---------- the ClientVisibility between two ticks ---------- *)

(* e is in the set `drain_lost` will report: blacklist `added`, whitelist `removed` *)
Definition lost_in (v : vis) (e : N) : bool :=
  set_mem e (if is_whitelist v then v_removed v else v_added v).

(* the value of `is_visible v e` at the last tick, as far as the state machine remembers it:
   VVisible = visible then and now; VGained = hidden then, visible now; VHidden = hidden now, and
   visible then iff e is queued as "lost" *)
Definition v_prev (v : vis) (e : N) : bool :=
  match state v e with
  | VVisible => true
  | VGained => false
  | VHidden => lost_in v e
  end.

Definition vis_legal (v : vis) : Prop :=
  forall e, exists cur prev, view v e = conc (is_whitelist v) cur prev.

Definition vis_ok (vo : option vis) (st : structure) : Prop :=
  match vo with
  | None => True
  | Some v => vis_legal v /\ forall e, al_get e st <> None -> v_prev v e = true
  end.

(* the invariant of one client between two ticks: [st] is what the client has been sent so far *)
Record pending_ok_v (s : server) (cl : sclient) (st : structure) : Prop := mkPendingV {
  pv_pending : pending_ok s (sc_ticks cl) st;
  pv_vis : vis_ok (sc_vis cl) st
}.

(* ---------- server-wide facts, without `no_vis` ---------- *)

Record srv_base_v (s : server) : Prop := mkSrvBaseV {
  sb_wf : ents_wf s;
  sb_stamp : sv_last_run s < sv_now s;
  sb_fresh : forall e k x c, rem_listed s e k -> get_ent s e = Some x -> In (k, c) (se_comps x) ->
             sv_last_run s < c_added c;
  sb_rb_nodup : NoDup (al_keys (sv_removal_buf s))
}.
Definition srv_ok_v (s : server) : Prop := srv_base_v s /\ rb_repl s.

(* proof vocabulary: the server without its clients (the PAll lemmas apply to it) *)
Definition strip (s : server) : server := set_clients s [].

(* proof vocabulary: [cl'] is [cl] after steps that keep slot, authorization, the set of entities
   with a mutation tick and the visibility part of the invariant *)
Definition cl_keep (cl cl' : sclient) : Prop :=
  sc_slot cl' = sc_slot cl /\ sc_authorized cl' = sc_authorized cl /\
  (forall e, mutation_tick (sc_ticks cl') e <> None <-> mutation_tick (sc_ticks cl) e <> None) /\
  (forall st, vis_ok (sc_vis cl) st -> vis_ok (sc_vis cl') st).

(* ---------- the visibility inside `send_for_client` ---------- *)

(* the visibility read by collect_removals / collect_changes, for a client that has one *)
Definition mid_vis (s : server) (v : vis) : vis :=
  fst (despawn_loop (fst (drain_lost v)) (sv_despawn_buf s)).
(* the entities `drain_lost` reports, and the ones the buffer loop reports *)
Definition lost_list (v : vis) : list N := sort_N (snd (drain_lost v)).
Definition loop_list (s : server) (v : vis) : list N :=
  snd (despawn_loop (fst (drain_lost v)) (sv_despawn_buf s)).

(* ---------- the invariant of a run (all policies) ---------- *)

Definition client_inv_v (s : server) (sent : list (N * structure)) (cl : sclient) : Prop :=
  sc_authorized cl = true ->
  pending_ok_v s cl (sent_of (sc_slot cl) sent) /\
  (* no running frame since the last reset: nobody has been sent anything *)
  (sv_last_running s = false -> sent_of (sc_slot cl) sent = [] /\ fresh_ticks (sc_ticks cl)).

Record ginv_v (g : gstate) : Prop := mkGInvV {
  gv_srv : srv_ok_v (g_srv g);
  gv_slots : NoDup (map sc_slot (sv_clients (g_srv g)));
  gv_idle : sv_last_running (g_srv g) = false -> sv_removal_buf (g_srv g) = [];
  gv_clients : forall cl, In cl (sv_clients (g_srv g)) -> client_inv_v (g_srv g) (g_sent g) cl;
  gv_dom : forall slot, al_get slot (g_sent g) <> None ->
           exists cl, In cl (sv_clients (g_srv g)) /\ sc_slot cl = slot /\ sc_authorized cl = true
}.

(* ---------- the policy decides the kind of ClientVisibility ---------- *)

Definition vis_kind (p : policy) (vo : option vis) : Prop :=
  match p, vo with
  | PAll, None => True
  | PBlack, Some v => is_whitelist v = false
  | PWhite, Some v => is_whitelist v = true
  | _, _ => False
  end.

Definition clients_kind (c : cfg) (s : server) : Prop :=
  forall cl, In cl (sv_clients s) -> sc_authorized cl = true -> vis_kind (cfg_policy c) (sc_vis cl).

(* ---------- independence of the clients ---------- *)

(* two client records that may differ only when they belong to [slot] *)
Definition cl_sim (slot : N) (c1 c2 : sclient) : Prop :=
  sc_slot c1 = sc_slot c2 /\ (sc_slot c1 <> slot -> c1 = c2).

(* two servers that agree on everything except the record of the client in [slot] *)
Definition same_but (slot : N) (s1 s2 : server) : Prop :=
  strip s1 = strip s2 /\ Forall2 (cl_sim slot) (sv_clients s1) (sv_clients s2).

(* the game operations that are not a visibility setting for [slot] *)
Definition not_vis_of (slot : N) (op : sop) : bool :=
  match op with SVis sl _ _ => negb (sl =? slot) | _ => true end.

(* everything a frame sent to a slot: update message, mutate messages, oracle flag *)
Definition out_for (slot : N) (outs : list client_out) : option client_out :=
  find (fun o => co_slot o =? slot) outs.

(* two steps of a run that differ only in the visibility settings for [slot] *)
Inductive gop_sim (slot : N) : gop -> gop -> Prop :=
| gs_same o : gop_sim slot o o
| gs_frame tick dt cleanup ops1 ops2 parts :
    filter (not_vis_of slot) ops1 = filter (not_vis_of slot) ops2 ->
    gop_sim slot (GFrame tick dt cleanup ops1 parts) (GFrame tick dt cleanup ops2 parts).

(* every authorized client of the state has been sent exactly the visible part of the current
   structure (boolean, for the examples; meaningful right after a tick) *)
Definition all_synced_v (g : gstate) : bool :=
  forallb (fun cl => negb (sc_authorized cl) ||
                     struct_eqb (sent_of (sc_slot cl) (g_sent g)) (struct_vis (g_srv g) cl))
          (sv_clients (g_srv g)).
