(* Helper definitions for the server-side theorems about Repl/Server.v (definitions only;
   the lemmas are in Repl/Server_proofs.v).

   `send_for_client` never fails (the only `Panic` site, `SendRate::Periodic(0)`, is not
   reachable with the harness rates), so it is equal to `Ok` of a pure function whose
   intermediate values are exposed here under names:
     sfc_despawns / sfc_ticks1 / sfc_vis1   results of `collect_despawns`
     cep                                    `collect_entity` without the `res` monad
     collect_changes                        the fold over `replicated_ents`
     changed_set / mutated_set / sfc_ticks2 its three results
     sfc_parts / sfc_mut_fold               the partition actually used, the mutate messages
   Server_proofs.send_for_client_eq proves the equality. *)
From RV Require Import Lib.Res Repl.ClientTicks Repl.World Vis.Visibility Tick.RepliconTick Repl.Server.
Open Scope N_scope.

(* ---------- collect_despawns ---------- *)

Definition sfc_despawns (s : server) (cl : sclient) : list N :=
  fst (fst (collect_despawns (sv_despawn_buf s) (sc_ticks cl) (sc_vis cl))).
Definition sfc_ticks1 (s : server) (cl : sclient) : client_ticks :=
  snd (fst (collect_despawns (sv_despawn_buf s) (sc_ticks cl) (sc_vis cl))).
(* the visibility read by collect_removals / collect_changes *)
Definition sfc_vis1 (s : server) (cl : sclient) : option vis :=
  snd (collect_despawns (sv_despawn_buf s) (sc_ticks cl) (sc_vis cl)).

(* ---------- collect_entity ---------- *)

Definition val_of (kc : N * comp) : N * val := (fst kc, c_val (snd kc)).
(* all components of an entity, as sent *)
Definition all_comps (x : sent) : list (N * val) := map val_of (se_comps x).

(* `send_mutations (rate_of k) tick` as a boolean *)
Definition sm (k tick : N) : bool :=
  match rate_of k with EveryTick => true | Once => false | Periodic p => tick mod p =? 0 end.

Definition incremental (last_run : N) (marker_added : bool) (st : vstate) (mt : option N) (c : comp) : option N :=
  match mt with
  | Some t => if negb marker_added && negb (is_gained st) && negb (last_run <? c_added c) then Some t else None
  | None => None
  end.

Definition comp_is_ins (last_run : N) (marker_added : bool) (st : vstate) (mt : option N) (kc : N * comp) : bool :=
  match incremental last_run marker_added st mt (snd kc) with None => true | Some _ => false end.
Definition comp_is_mut (last_run tick : N) (marker_added : bool) (st : vstate) (mt : option N) (kc : N * comp) : bool :=
  match incremental last_run marker_added st mt (snd kc) with
  | Some t => (t <? c_changed (snd kc)) && sm (fst kc) tick
  | None => false
  end.

(* collect_entity, pure; [mt] is the client's mutation tick of the entity *)
Definition cep (last_run tick : N) (rb : list (N * list N)) (mt : option N)
  (st : vstate) (e : N) (x : sent) (madd : N) : ent_changes :=
  if is_hidden st then mkEC None [] false else
  let marker_added := last_run <? madd in
  let ins := map val_of (filter (comp_is_ins last_run marker_added st mt) (se_comps x)) in
  let muts := map val_of (filter (comp_is_mut last_run tick marker_added st mt) (se_comps x)) in
  let new_entity := marker_added || is_gained st || match mt with None => true | Some _ => false end in
  let has_removal := match al_get e rb with Some _ => true | None => false end in
  let has_ins := match ins with [] => false | _ => true end in
  if new_entity || has_ins || has_removal then
    let entry := ins ++ muts in
    match entry with
    | [] => mkEC (if new_entity then Some [] else None) [] true
    | _ => mkEC (Some entry) [] true
    end
  else mkEC None muts false.

(* ---------- collect_changes ---------- *)

Definition ent_id (exm : N * sent * N) : N := fst (fst exm).

Definition cc_acc : Type := (list (N * list (N * val)) * list (N * list (N * val)) * client_ticks)%type.

Definition collect_step (last_run tick : N) (rb : list (N * list N)) (vis1 : option vis) (this_run : N)
  (acc : cc_acc) (exm : N * sent * N) : cc_acc :=
  let '(changes, muts, ticks) := acc in
  let '(e, x, madd) := exm in
  let ec := cep last_run tick rb (mutation_tick ticks e) (vis_state_of vis1 e) e x madd in
  (match ec_entry ec with Some en => changes ++ [(e, en)] | None => changes end,
   match ec_muts ec with [] => muts | m => muts ++ [(e, m)] end,
   if ec_bump ec then set_mutation_tick ticks e this_run else ticks).

Definition collect_changes (s : server) (vis1 : option vis) (this_run : N) (ticks1 : client_ticks) : cc_acc :=
  fold_left (collect_step (sv_last_run s) (sv_tick s) (sv_removal_buf s) vis1 this_run)
            (replicated_ents s) ([], [], ticks1).

(* the `changes` array of the update message *)
Definition changed_set (s : server) (this_run : N) (cl : sclient) : list (N * list (N * val)) :=
  fst (fst (collect_changes s (sfc_vis1 s cl) this_run (sfc_ticks1 s cl))).
(* the per-entity mutations left for mutate messages: the `muts` accumulated by the fold *)
Definition mutated_set (s : server) (this_run : N) (cl : sclient) : list (N * list (N * val)) :=
  snd (fst (collect_changes s (sfc_vis1 s cl) this_run (sfc_ticks1 s cl))).
Definition sfc_ticks2 (s : server) (this_run : N) (cl : sclient) : client_ticks :=
  snd (collect_changes s (sfc_vis1 s cl) this_run (sfc_ticks1 s cl)).

(* the threaded per-entity results of the fold (entity, its ent_changes) *)
Fixpoint collect_list (last_run tick : N) (rb : list (N * list N)) (vis1 : option vis) (this_run : N)
  (ticks : client_ticks) (l : list (N * sent * N)) : list (N * ent_changes) * client_ticks :=
  match l with
  | [] => ([], ticks)
  | exm :: r =>
    let e := ent_id exm in
    let ec := cep last_run tick rb (mutation_tick ticks e) (vis_state_of vis1 e) e (snd (fst exm)) (snd exm) in
    let ticks' := if ec_bump ec then set_mutation_tick ticks e this_run else ticks in
    let '(ecs, tf) := collect_list last_run tick rb vis1 this_run ticks' r in
    ((e, ec) :: ecs, tf)
  end.

Definition entries_of (ecs : list (N * ent_changes)) : list (N * list (N * val)) :=
  flat_map (fun eec => match ec_entry (snd eec) with Some en => [(fst eec, en)] | None => [] end) ecs.
Definition muts_of (ecs : list (N * ent_changes)) : list (N * list (N * val)) :=
  flat_map (fun eec => match ec_muts (snd eec) with [] => [] | m => [(fst eec, m)] end) ecs.

(* the per-entity results for one client *)
Definition sfc_ecs (s : server) (this_run : N) (cl : sclient) : list (N * ent_changes) :=
  fst (collect_list (sv_last_run s) (sv_tick s) (sv_removal_buf s) (sfc_vis1 s cl) this_run
                    (sfc_ticks1 s cl) (replicated_ents s)).

(* ---------- the rest of send_for_client ---------- *)

Definition sfc_removals (s : server) (cl : sclient) : list (N * list N) :=
  sort_by_key (collect_removals (sv_removal_buf s) (sfc_vis1 s cl)).

Definition sfc_upd (s : server) (this_run : N) (cl : sclient) : update_msg :=
  mkUpd (sv_tick s) (sort_by_key (sc_pending_map cl)) (sfc_despawns s cl) (sfc_removals s cl)
        (changed_set s this_run cl).
Definition sfc_has_upd (s : server) (this_run : N) (cl : sclient) : bool :=
  negb (update_is_empty (sfc_upd s this_run cl)).
Definition sfc_ticks3 (s : server) (this_run : N) (cl : sclient) : client_ticks :=
  if sfc_has_upd s this_run cl then set_update_tick (sfc_ticks2 s this_run cl) (sv_tick s)
  else sfc_ticks2 s this_run cl.

Definition sfc_bad (c : cfg) (s : server) (this_run : N) (cl : sclient) (p : partition) : bool :=
  negb (partition_ok (cfg_track c) (mutated_set s this_run cl) p).
(* the partition actually used *)
Definition sfc_parts (c : cfg) (s : server) (this_run : N) (cl : sclient) (p : partition) : partition :=
  if sfc_bad c s this_run cl p then
    match mutated_set s this_run cl with
    | [] => if cfg_track c then [[]] else []
    | _ => [map fst (mutated_set s this_run cl)]
    end
  else p.

Definition mut_body (muts : list (N * list (N * val))) (ents : list N) : list (N * list (N * val)) :=
  map (fun e => (e, match al_get e muts with Some m => m | None => [] end)) ents.

Definition mut_step (track : bool) (tick this_run elapsed upd_tick count : N)
  (muts : list (N * list (N * val))) (acc : client_ticks * list mutate_msg) (ents : list N)
  : client_ticks * list mutate_msg :=
  let '(t, msgs) := acc in
  let '(t', idx) := register_mutate_message t this_run elapsed in
  let t'' := add_entities t' idx ents in
  (t'', msgs ++ [mkMut upd_tick tick (if track then count else 1) idx (mut_body muts ents)]).

Definition sfc_send_muts (c : cfg) (s : server) (this_run : N) (cl : sclient) : bool :=
  match mutated_set s this_run cl with [] => cfg_track c | _ => true end.

Definition sfc_mut_fold (c : cfg) (s : server) (this_run : N) (cl : sclient) (p : partition)
  : client_ticks * list mutate_msg :=
  if sfc_send_muts c s this_run cl then
    fold_left (mut_step (cfg_track c) (sv_tick s) this_run (sv_elapsed s)
                        (ct_update_tick (sfc_ticks3 s this_run cl))
                        (N.of_nat (length (sfc_parts c s this_run cl p)))
                        (mutated_set s this_run cl))
              (sfc_parts c s this_run cl p) (sfc_ticks3 s this_run cl, [])
  else (sfc_ticks3 s this_run cl, []).

Definition sfc_pure (c : cfg) (s : server) (this_run : N) (cl : sclient) (p : partition) : sclient * client_out :=
  (mkSC (sc_slot cl) true (sc_max_size cl) (fst (sfc_mut_fold c s this_run cl p))
        (match sfc_vis1 s cl with Some v => Some (update v) | None => None end) [],
   mkCO (sc_slot cl) (if sfc_has_upd s this_run cl then Some (sfc_upd s this_run cl) else None)
        (snd (sfc_mut_fold c s this_run cl p)) (sfc_bad c s this_run cl p)).

(* mutate indices handed out by consecutive `register_mutate_message` calls *)
Fixpoint idx_seq (start : N) (n : nat) : list N :=
  match n with
  | O => []
  | S n' => start :: idx_seq ((start + 1) mod 2 ^ 16) n'
  end.

(* the mutate messages of a partition, first index [idx] *)
Definition mut_msgs (track : bool) (tick upd_tick count : N) (muts : list (N * list (N * val)))
  (idx : N) (p : partition) : list mutate_msg :=
  map (fun ie => mkMut upd_tick tick (if track then count else 1) (fst ie) (mut_body muts (snd ie)))
      (combine (idx_seq idx (length p)) p).

(* the acknowledgement bookkeeping after registering the messages of a partition *)
Definition mut_ticks (this_run elapsed : N) (t : client_ticks) (p : partition) : client_ticks :=
  fold_left (fun t ents => add_entities (fst (register_mutate_message t this_run elapsed)) (ct_mutate_index t) ents) p t.

(* ---------- send_replication, per client ---------- *)

Definition part_for (parts : list (N * partition)) (cl : sclient) : partition :=
  match al_get (sc_slot cl) parts with Some p => p | None => [] end.

(* what `send_replication` does with one client *)
Definition client_result (c : cfg) (s : server) (parts : list (N * partition)) (cl : sclient)
  : res (sclient * option client_out) :=
  if sc_authorized cl then
    let* (cl', out) := send_for_client c s (sv_now s) cl (part_for parts cl) in Ok (cl', Some out)
  else Ok (cl, None).

Definition outs_of (rs : list (sclient * option client_out)) : list client_out :=
  flat_map (fun r => match snd r with Some o => [o] | None => [] end) rs.

(* slot and authorization of every client, in order *)
Definition auth_sig (s : server) : list (N * bool) :=
  map (fun cl => (sc_slot cl, sc_authorized cl)) (sv_clients s).

(* ... without the monad (send_for_client never fails) *)
Definition client_result_pure (c : cfg) (s : server) (parts : list (N * partition)) (cl : sclient)
  : sclient * option client_out :=
  if sc_authorized cl then
    (fst (sfc_pure c s (sv_now s) cl (part_for parts cl)), Some (snd (sfc_pure c s (sv_now s) cl (part_for parts cl))))
  else (cl, None).

(* every client authorized in [s2] has an authorized client of the same slot in [s1] *)
Definition auth_incl (s1 s2 : server) : Prop :=
  forall sl, In (sl, true) (auth_sig s2) -> In (sl, true) (auth_sig s1).

(* one `register_mutate_message` + `add_entities` *)
Definition reg_step (this_run elapsed : N) (t : client_ticks) (ents : list N) : client_ticks :=
  add_entities (fst (register_mutate_message t this_run elapsed)) (ct_mutate_index t) ents.

(* [t] is [t0] with some mutation ticks removed (what collect_despawns does to the bookkeeping) *)
Definition ticks_shrunk (t0 t : client_ticks) : Prop :=
  ct_update_tick t = ct_update_tick t0 /\ ct_mutations t = ct_mutations t0 /\
  ct_mutate_index t = ct_mutate_index t0 /\
  forall e, mutation_tick t0 e = None -> mutation_tick t e = None.

(* v is the current value of component k of the entity record x *)
Definition comp_of (x : sent) (k : N) (v : val) : Prop :=
  exists comp, In (k, comp) (se_comps x) /\ v = c_val comp /\
               (NoDup (al_keys (se_comps x)) -> al_get k (se_comps x) = Some comp).

(* representation invariants of the association lists (hash maps have unique keys) *)
Definition ents_wf (s : server) : Prop := NoDup (map fst (sv_ents s)).
