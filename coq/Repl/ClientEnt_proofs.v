(* Layer 1 client, entity level: how single client entities evolve (marker, confirm history,
   liveness) under every step of the client model; pre-spawn mappings (C16). *)
From RV Require Import Lib.Res Repl.ClientTicks Repl.ClientTicks_proofs Repl.World Repl.Client Repl.Client_proofs
  Tick.RepliconTick Tick.RepliconTick_proofs Tick.ConfirmHistory Tick.MutateTicks.
From Coq Require Import ZifyBool ZifyN.
Open Scope N_scope.
Ltac Zify.zify_post_hook ::= Z.div_mod_to_equations.
Arguments N.add : simpl never. Arguments N.mul : simpl never. Arguments N.pow : simpl never.
Arguments N.ltb : simpl never. Arguments N.leb : simpl never. Arguments N.div : simpl never.
Arguments N.modulo : simpl never. Arguments N.sub : simpl never. Arguments N.eqb : simpl never.

(* ================================================================== *)
(* F. labelled steps of one client entity                             *)
(* ================================================================== *)

Inductive lbl := LMap | LDespawn | LConfirm (tick : N) | LComps | LMutate (tick : N).

Inductive cent_step : lbl -> cent -> cent -> Prop :=
| cs_map x : ce_alive x = true ->
    cent_step LMap x (mkCEnt true (ce_pre x) true (ce_hist x) (ce_comps x))
| cs_despawn x : ce_alive x = true ->
    cent_step LDespawn x (mkCEnt false (ce_pre x) false None [])
| cs_confirm x tick x1 : confirm_tick (with_marker x) tick = Ok x1 -> cent_step (LConfirm tick) x x1
| cs_comps x comps' :
    cent_step LComps x (mkCEnt (ce_alive x) (ce_pre x) (ce_marker x) (ce_hist x) comps')
| cs_mutate x h h' tick : ce_alive x = true -> ce_hist x = Some h -> tick_gtb tick (h_last h) = true ->
    hist_set_last_tick h tick = Ok h' ->
    cent_step (LMutate tick) x (mkCEnt true (ce_pre x) (ce_marker x) (Some h') (ce_comps x)).

Inductive cent_steps (P : lbl -> Prop) : cent -> cent -> Prop :=
| css_refl x : cent_steps P x x
| css_step l x y z : P l -> cent_step l x y -> cent_steps P y z -> cent_steps P x z.

Lemma cent_steps_trans P x y z : cent_steps P x y -> cent_steps P y z -> cent_steps P x z.
Proof. induction 1 as [|l x y w Hl Hs _ IH]; intros H2; [exact H2|]. eapply css_step; eauto. Qed.

Lemma cent_steps_one (P : lbl -> Prop) l x y : P l -> cent_step l x y -> cent_steps P x y.
Proof. intros Hl Hs. eapply css_step; [exact Hl|exact Hs|apply css_refl]. Qed.

Lemma cent_steps_weaken (P Q : lbl -> Prop) x y : (forall l, P l -> Q l) -> cent_steps P x y -> cent_steps Q x y.
Proof. intros HPQ. induction 1 as [|l x y w Hl Hs _ IH]; [apply css_refl|]. eapply css_step; eauto. Qed.

Definition ents_steps (P : lbl -> Prop) (c c' : client) : Prop :=
  forall cid x, get_cent c cid = Some x -> exists x', get_cent c' cid = Some x' /\ cent_steps P x x'.

Lemma ents_steps_refl P c : ents_steps P c c.
Proof. intros cid x H. exists x. split; [exact H|apply css_refl]. Qed.

Lemma ents_steps_trans P a b c : ents_steps P a b -> ents_steps P b c -> ents_steps P a c.
Proof.
  intros H1 H2 cid x Hx. destruct (H1 _ _ Hx) as [y [Hy S1]]. destruct (H2 _ _ Hy) as [z [Hz S2]].
  exists z. split; [exact Hz|eapply cent_steps_trans; eauto].
Qed.

Lemma ents_steps_weaken (P Q : lbl -> Prop) c c' : (forall l, P l -> Q l) -> ents_steps P c c' -> ents_steps Q c c'.
Proof.
  intros HPQ H cid x Hx. destruct (H _ _ Hx) as [y [Hy S]]. exists y. split; [exact Hy|].
  eapply cent_steps_weaken; eauto.
Qed.

Lemma ents_steps_same P c c' : cl_ents c' = cl_ents c -> ents_steps P c c'.
Proof. intros E cid x H. exists x. unfold get_cent in *. rewrite E. split; [exact H|apply css_refl]. Qed.

Lemma ents_steps_set_cent P c cid x x' :
  get_cent c cid = Some x -> cent_steps P x x' -> ents_steps P c (set_cent c cid x').
Proof.
  intros Hx S cid0 x0 H0. unfold get_cent, set_cent in *; cbn [cl_ents].
  destruct (N.eq_dec cid0 cid) as [->|Hne].
  - rewrite al_get_insert_same. exists x'. split; [reflexivity|]. congruence.
  - rewrite al_get_insert_other by exact Hne. exists x0. split; [exact H0|apply css_refl].
Qed.

Lemma al_get_app_some {V} k (l1 l2 : list (N * V)) v : al_get k l1 = Some v -> al_get k (l1 ++ l2) = Some v.
Proof.
  induction l1 as [|[k' v'] t IH]; cbn [al_get app]; [discriminate|].
  destruct (k' =? k); [auto|exact IH].
Qed.

Lemma al_get_app_none {V} k (l1 l2 : list (N * V)) : al_get k l1 = None -> al_get k (l1 ++ l2) = al_get k l2.
Proof.
  induction l1 as [|[k' v'] t IH]; cbn [al_get app]; [reflexivity|].
  destruct (k' =? k); [discriminate|exact IH].
Qed.

Lemma ents_steps_spawn P c p m : ents_steps P c (fst (spawn_cent c p m)).
Proof.
  intros cid x H. exists x. split; [|apply css_refl]. unfold get_cent in *. cbn.
  apply al_get_app_some. exact H.
Qed.

(* ---- allocation: entity ids at or above the counter are unused ---- *)

Definition ents_fresh (c : client) : Prop := forall cid, cl_next c <= cid -> get_cent c cid = None.

Lemma ents_fresh_lt c cid x : ents_fresh c -> get_cent c cid = Some x -> cid < cl_next c.
Proof. intros Hf H. destruct (N.lt_ge_cases cid (cl_next c)) as [Hlt|Hge]; [exact Hlt|]. rewrite (Hf _ Hge) in H. discriminate. Qed.

Lemma ents_fresh_init track : ents_fresh (client_init track).
Proof. intros cid _. reflexivity. Qed.

Lemma ents_fresh_ext c c' : cl_ents c' = cl_ents c -> cl_next c' = cl_next c -> ents_fresh c -> ents_fresh c'.
Proof. intros E1 E2 H cid Hle. unfold get_cent. rewrite E1. apply H. lia. Qed.

Lemma ents_fresh_set_cent c cid x x' : ents_fresh c -> get_cent c cid = Some x -> ents_fresh (set_cent c cid x').
Proof.
  intros Hf Hx cid0 Hle. pose proof (ents_fresh_lt _ _ _ Hf Hx) as Hlt. cbn in Hle.
  unfold get_cent, set_cent; cbn [cl_ents]. rewrite al_get_insert_other by lia. apply Hf. exact Hle.
Qed.

Lemma ents_fresh_spawn c p m : ents_fresh c -> ents_fresh (fst (spawn_cent c p m)).
Proof.
  intros Hf cid Hle. cbn in Hle. unfold get_cent; cbn. rewrite al_get_app_none by (apply Hf; lia).
  cbn [al_get]. destruct (cl_next c =? cid) eqn:E; [lia|reflexivity].
Qed.

Lemma spawn_get_new c p m : ents_fresh c ->
  get_cent (fst (spawn_cent c p m)) (cl_next c) = Some (mkCEnt true p m None []).
Proof.
  intros Hf. unfold get_cent; cbn. rewrite al_get_app_none by (apply Hf; lia).
  cbn [al_get]. rewrite N.eqb_refl. reflexivity.
Qed.

Lemma get_cent_set_maps c a b cid : get_cent (set_maps c a b) cid = get_cent c cid.
Proof. reflexivity. Qed.

(* ================================================================== *)
(* G. the removals / changes phase of one update message              *)
(* ================================================================== *)

Definition phase_T (T : N) (l : lbl) : Prop := l = LConfirm T \/ l = LComps.

(* maps only grow, allocated entities keep their mapping, entities take confirm(T)/component steps *)
Definition phase_rel (T : N) (c c' : client) : Prop :=
  (forall e cid, al_get e (cl_s2c c) = Some cid -> al_get e (cl_s2c c') = Some cid) /\
  (forall cid, cid < cl_next c -> al_get cid (cl_c2s c') = al_get cid (cl_c2s c)) /\
  cl_next c <= cl_next c' /\
  ents_steps (phase_T T) c c' /\
  (forall e cid, al_get e (cl_s2c c') = Some cid -> al_get e (cl_s2c c) = Some cid \/ cl_next c <= cid).

Lemma phase_rel_refl T c : phase_rel T c c.
Proof.
  split; [auto|]. split; [auto|]. split; [lia|]. split; [apply ents_steps_refl|auto].
Qed.

Lemma phase_rel_trans T a b c : phase_rel T a b -> phase_rel T b c -> phase_rel T a c.
Proof.
  intros (A1 & A2 & A3 & A4 & A5) (B1 & B2 & B3 & B4 & B5).
  split; [|split; [|split; [|split]]].
  - intros e cid H. auto.
  - intros cid Hlt. rewrite B2 by lia. apply A2. exact Hlt.
  - lia.
  - eapply ents_steps_trans; eauto.
  - intros e cid H. destruct (B5 _ _ H) as [H1|H1]; [|right; lia].
    destruct (A5 _ _ H1) as [H2|H2]; [left; exact H2|right; exact H2].
Qed.

Lemma phase_rel_set_cent T c cid x x' :
  get_cent c cid = Some x -> cent_steps (phase_T T) x x' -> phase_rel T c (set_cent c cid x').
Proof.
  intros Hx S. split; [auto|]. split; [auto|]. split; [cbn; lia|].
  split; [apply ents_steps_set_cent with x; assumption|auto].
Qed.

Lemma phase_rel_spawn_vacant T c s p m :
  al_get s (cl_s2c c) = None ->
  phase_rel T c (emap_vacant_insert (fst (spawn_cent c p m)) s (snd (spawn_cent c p m))).
Proof.
  intros Hs. split; [|split; [|split; [|split]]]; cbn.
  - intros e cid H. rewrite al_get_insert_other; [exact H|]. intros ->. congruence.
  - intros cid Hlt. rewrite al_get_insert_other by lia. reflexivity.
  - lia.
  - intros cid x H. exists x. split; [|apply css_refl]. unfold get_cent in *; cbn.
    apply al_get_app_some. exact H.
  - intros e cid. destruct (N.eq_dec e s) as [->|Hne].
    + rewrite al_get_insert_same. intros H; inversion H; subst. right. lia.
    + rewrite al_get_insert_other by exact Hne. auto.
Qed.

Lemma phase_rel_entry T c s c1 cid : entry_entity c s = Some (c1, cid) -> phase_rel T c c1.
Proof.
  unfold entry_entity. destruct (al_get s (cl_s2c c)) as [cid0|] eqn:E.
  - destruct (alive c cid0); [|discriminate]. intros H; inversion H; subst. apply phase_rel_refl.
  - intros H. pose proof (phase_rel_spawn_vacant T c s None true E) as H1. cbn in H, H1.
    inversion H; subst. exact H1.
Qed.

Lemma phase_rel_map_value T c v : phase_rel T c (fst (map_value c v)).
Proof.
  unfold map_value. destruct v as [n|t]; [apply phase_rel_refl|].
  destruct (al_get t (cl_s2c c)) eqn:E; [apply phase_rel_refl|].
  exact (phase_rel_spawn_vacant T c t None false E).
Qed.

Lemma phase_rel_write_one T cid c kv : phase_rel T c (write_one cid c kv).
Proof.
  rewrite write_one_eq. pose proof (phase_rel_map_value T c (snd kv)) as H.
  destruct (get_cent _ cid) as [x|] eqn:E; [|exact H].
  eapply phase_rel_trans; [exact H|]. eapply phase_rel_set_cent; [exact E|].
  eapply cent_steps_one; [right; reflexivity|apply cs_comps].
Qed.

Lemma phase_rel_write_comps T c cid comps : phase_rel T c (write_comps c cid comps).
Proof.
  rewrite write_comps_fold. apply fold_left_rel; [apply phase_rel_refl|apply phase_rel_trans|].
  intros; apply phase_rel_write_one.
Qed.

Lemma phase_rel_removals T c s kinds r : apply_removals c T s kinds = Ok r -> phase_rel T c (sr_client r).
Proof.
  unfold apply_removals. destruct (entry_entity c s) as [[c1 cid]|] eqn:E.
  - pose proof (phase_rel_entry T _ _ _ _ E) as H1. destruct (get_cent c1 cid) as [x|] eqn:Ex.
    + intros H. apply bind_ok in H. destruct H as [x1 [E1 H]]. inversion H; subst. cbn [sr_client].
      eapply phase_rel_trans; [exact H1|]. eapply phase_rel_set_cent; [exact Ex|].
      eapply css_step; [left; reflexivity|apply cs_confirm; exact E1|].
      eapply cent_steps_one; [right; reflexivity|apply cs_comps].
    + intros H; inversion H; subst. exact H1.
  - intros H; inversion H; subst. apply phase_rel_refl.
Qed.

Lemma phase_rel_changes T c s comps r : apply_changes c T s comps = Ok r -> phase_rel T c (sr_client r).
Proof.
  unfold apply_changes. destruct (entry_entity c s) as [[c1 cid]|] eqn:E.
  - pose proof (phase_rel_entry T _ _ _ _ E) as H1. destruct (get_cent c1 cid) as [x|] eqn:Ex.
    + intros H. apply bind_ok in H. destruct H as [x1 [E1 H]]. inversion H; subst. cbn [sr_client].
      eapply phase_rel_trans; [exact H1|]. eapply phase_rel_trans; [|apply phase_rel_write_comps].
      eapply phase_rel_set_cent; [exact Ex|].
      eapply cent_steps_one; [left; reflexivity|apply cs_confirm; exact E1].
    + intros H; inversion H; subst. exact H1.
  - intros H; inversion H; subst. apply phase_rel_refl.
Qed.

Lemma phase_rel_run_removals T l c r :
  run_array (fun c r => apply_removals c T (fst r) (snd r)) l c = Ok r -> phase_rel T c (sr_client r).
Proof.
  apply run_array_rel; [apply phase_rel_refl|apply phase_rel_trans|]. intros c0 a r0 _. apply phase_rel_removals.
Qed.

Lemma phase_rel_run_changes T l c r :
  run_array (fun c ch => apply_changes c T (fst ch) (snd ch)) l c = Ok r -> phase_rel T c (sr_client r).
Proof.
  apply run_array_rel; [apply phase_rel_refl|apply phase_rel_trans|]. intros c0 a r0 _. apply phase_rel_changes.
Qed.

(* ---- what phase steps do to one entity ---- *)

Lemma confirm_tick_fields x tick x1 : confirm_tick x tick = Ok x1 ->
  ce_alive x1 = ce_alive x /\ ce_pre x1 = ce_pre x /\ ce_marker x1 = ce_marker x /\ ce_comps x1 = ce_comps x /\
  exists h', ce_hist x1 = Some h' /\ h_last h' = tick /\
             (forall h, ce_hist x = Some h -> tick_geb tick (h_last h) = true).
Proof.
  unfold confirm_tick. destruct (ce_hist x) as [h|] eqn:Eh.
  - intros H. apply bind_ok in H. destruct H as [h' [E H]]. inversion H; subst; cbn.
    split; [reflexivity|]. split; [reflexivity|]. split; [reflexivity|]. split; [reflexivity|].
    exists h'. split; [reflexivity|]. unfold hist_set_last_tick in E.
    destruct (tick_geb tick (h_last h)) eqn:Eg; cbn [negb] in E; [|discriminate].
    inversion E; subst; cbn. split; [reflexivity|]. intros h0 H0; inversion H0; subst; exact Eg.
  - intros H; inversion H; subst; cbn.
    split; [reflexivity|]. split; [reflexivity|]. split; [reflexivity|]. split; [reflexivity|].
    exists (hist_new tick). split; [reflexivity|]. split; [reflexivity|]. discriminate.
Qed.

Definition confirmed_ent (T : N) (x : cent) : Prop :=
  ce_alive x = true /\ ce_marker x = true /\ exists h, ce_hist x = Some h /\ h_last h = T.

Lemma phase_step_fields T l x y : phase_T T l -> cent_step l x y ->
  ce_alive y = ce_alive x /\ ce_pre y = ce_pre x /\ (ce_marker x = true -> ce_marker y = true) /\
  (confirmed_ent T x -> confirmed_ent T y).
Proof.
  intros [-> | ->] S; inversion S; subst; cbn.
  - match goal with H : confirm_tick _ _ = Ok _ |- _ => apply confirm_tick_fields in H; cbn in H;
      destruct H as (Ha & Hp & Hm & _ & h' & Hh & Hl & _) end.
    split; [exact Ha|]. split; [exact Hp|]. split; [intros _; exact Hm|].
    intros (A & _ & _). split; [congruence|]. split; [exact Hm|]. exists h'. auto.
  - split; [reflexivity|]. split; [reflexivity|]. split; [auto|]. intros H; exact H.
Qed.

Lemma phase_steps_fields T x y : cent_steps (phase_T T) x y ->
  ce_alive y = ce_alive x /\ ce_pre y = ce_pre x /\ (ce_marker x = true -> ce_marker y = true) /\
  (confirmed_ent T x -> confirmed_ent T y).
Proof.
  induction 1 as [|l x y z Hl Hs _ IH]; [split; [reflexivity|]; split; [reflexivity|]; split; auto|].
  destruct (phase_step_fields T l x y Hl Hs) as (A1 & A2 & A3 & A4). destruct IH as (B1 & B2 & B3 & B4).
  split; [congruence|]. split; [congruence|]. split; auto.
Qed.

(* a server entity is "confirmed at T": mapped to an alive marked client entity whose history ends at T *)
Definition confirmed_at (T : N) (c : client) (e : N) : Prop :=
  exists cid x, al_get e (cl_s2c c) = Some cid /\ get_cent c cid = Some x /\ confirmed_ent T x.

Lemma confirmed_at_phase T c c' e : phase_rel T c c' -> confirmed_at T c e -> confirmed_at T c' e.
Proof.
  intros (H1 & _ & _ & H4 & _) (cid & x & Hs & Hx & Hc). destruct (H4 _ _ Hx) as [y [Hy S]].
  exists cid, y. split; [auto|]. split; [exact Hy|]. apply (phase_steps_fields T x y S). exact Hc.
Qed.

(* ---- freshness is kept ---- *)

Lemma ents_fresh_entry c s c1 cid : ents_fresh c -> entry_entity c s = Some (c1, cid) -> ents_fresh c1.
Proof.
  intros Hf. unfold entry_entity. destruct (al_get s (cl_s2c c)) as [cid0|].
  - destruct (alive c cid0); [|discriminate]. intros H; inversion H; subst; exact Hf.
  - intros H. cbn in H. inversion H; subst. pose proof (ents_fresh_spawn c None true Hf) as H1.
    revert H1. apply ents_fresh_ext; reflexivity.
Qed.

Lemma ents_fresh_map_value c v : ents_fresh c -> ents_fresh (fst (map_value c v)).
Proof.
  intros Hf. unfold map_value. destruct v as [n|t]; [exact Hf|]. destruct (al_get t (cl_s2c c)); [exact Hf|].
  pose proof (ents_fresh_spawn c None false Hf) as H1. revert H1. apply ents_fresh_ext; reflexivity.
Qed.

Lemma ents_fresh_write_one cid c kv : ents_fresh c -> ents_fresh (write_one cid c kv).
Proof.
  intros Hf. rewrite write_one_eq. pose proof (ents_fresh_map_value c (snd kv) Hf) as H.
  destruct (get_cent _ cid) as [x|] eqn:E; [|exact H]. eapply ents_fresh_set_cent; eauto.
Qed.

Lemma ents_fresh_write_comps c cid comps : ents_fresh c -> ents_fresh (write_comps c cid comps).
Proof. rewrite write_comps_fold. apply fold_left_inv. intros; apply ents_fresh_write_one; assumption. Qed.

Lemma get_cent_set_cent_same c cid x : get_cent (set_cent c cid x) cid = Some x.
Proof. unfold get_cent, set_cent; cbn. apply al_get_insert_same. Qed.

Lemma get_cent_set_cent_other c cid cid' x : cid' <> cid -> get_cent (set_cent c cid x) cid' = get_cent c cid'.
Proof. intros H. unfold get_cent, set_cent; cbn. apply al_get_insert_other. exact H. Qed.

Lemma ents_fresh_removals c T s kinds r : ents_fresh c -> apply_removals c T s kinds = Ok r -> ents_fresh (sr_client r).
Proof.
  intros Hf. unfold apply_removals. destruct (entry_entity c s) as [[c1 cid]|] eqn:E.
  - pose proof (ents_fresh_entry _ _ _ _ Hf E) as H1. destruct (get_cent c1 cid) as [x|] eqn:Ex.
    + intros H. apply bind_ok in H. destruct H as [x1 [_ H]]. inversion H; subst. cbn [sr_client].
      eapply ents_fresh_set_cent; eauto.
    + intros H; inversion H; subst. exact H1.
  - intros H; inversion H; subst. exact Hf.
Qed.

Lemma ents_fresh_changes c T s comps r : ents_fresh c -> apply_changes c T s comps = Ok r -> ents_fresh (sr_client r).
Proof.
  intros Hf. unfold apply_changes. destruct (entry_entity c s) as [[c1 cid]|] eqn:E.
  - pose proof (ents_fresh_entry _ _ _ _ Hf E) as H1. destruct (get_cent c1 cid) as [x|] eqn:Ex.
    + intros H. apply bind_ok in H. destruct H as [x1 [_ H]]. inversion H; subst. cbn [sr_client].
      apply ents_fresh_write_comps. eapply ents_fresh_set_cent; eauto.
    + intros H; inversion H; subst. exact H1.
  - intros H; inversion H; subst. exact Hf.
Qed.

Lemma ents_fresh_mapping c s pc : ents_fresh c -> ents_fresh (apply_entity_mapping c s pc).
Proof.
  intros Hf. unfold apply_entity_mapping. destruct (find _ (cl_ents c)) as [[cid x]|] eqn:E; [|exact Hf].
  destruct (ce_alive x); [|exact Hf]. apply find_some in E. destruct E as [Hin _].
  intros cid0 Hle. cbn in Hle. unfold get_cent; cbn. rewrite al_get_insert_other; [apply Hf; exact Hle|].
  intros ->. pose proof (Hf cid Hle) as Hn. unfold get_cent in Hn. apply al_get_none_keys in Hn.
  apply Hn. unfold al_keys. apply in_map_iff. exists (cid, x). auto.
Qed.

Lemma ents_fresh_despawn c s : ents_fresh c -> ents_fresh (apply_despawn c s).
Proof.
  intros Hf. unfold apply_despawn, emap_remove_server. destruct (al_get s (cl_s2c c)) as [cid|]; [|exact Hf].
  cbv beta iota. rewrite get_cent_set_maps. destruct (get_cent c cid) as [x|] eqn:Ex.
  - destruct (ce_alive x).
    + eapply ents_fresh_set_cent; [|rewrite get_cent_set_maps; exact Ex]. revert Hf. apply ents_fresh_ext; reflexivity.
    + revert Hf. apply ents_fresh_ext; reflexivity.
  - revert Hf. apply ents_fresh_ext; reflexivity.
Qed.

(* ================================================================== *)
(* H. item 3: marker and history after an update message              *)
(* ================================================================== *)

Lemma entry_maps c s c1 cid : entry_entity c s = Some (c1, cid) -> al_get s (cl_s2c c1) = Some cid.
Proof.
  unfold entry_entity. destruct (al_get s (cl_s2c c)) as [cid0|] eqn:E.
  - destruct (alive c cid0); [|discriminate]. intros H; inversion H; subst; exact E.
  - intros H. cbn in H. inversion H; subst. cbn. apply al_get_insert_same.
Qed.

(* the vacant branch: a fresh entity that carries the marker from birth *)
Lemma entry_vacant_marked c s : ents_fresh c -> al_get s (cl_s2c c) = None ->
  exists c1, entry_entity c s = Some (c1, cl_next c) /\
             get_cent c1 (cl_next c) = Some (mkCEnt true None true None []) /\
             al_get s (cl_s2c c1) = Some (cl_next c) /\ cl_next c1 = cl_next c + 1.
Proof.
  intros Hf E. unfold entry_entity. rewrite E. cbn. eexists. split; [reflexivity|].
  split; [|split; [cbn; apply al_get_insert_same|reflexivity]].
  exact (spawn_get_new c None true Hf).
Qed.

Lemma entry_alive c s c1 cid : ents_fresh c -> entry_entity c s = Some (c1, cid) ->
  exists x, get_cent c1 cid = Some x /\ ce_alive x = true.
Proof.
  intros Hf. destruct (al_get s (cl_s2c c)) as [cid0|] eqn:E.
  - unfold entry_entity. rewrite E. unfold alive. destruct (get_cent c cid0) as [x|] eqn:Ex; [|discriminate].
    destruct (ce_alive x) eqn:Ea; [|discriminate]. intros H; inversion H; subst. exists x. auto.
  - destruct (entry_vacant_marked c s Hf E) as [c2 [H1 [H2 _]]]. rewrite H1. intros H; inversion H; subst.
    eexists. split; [exact H2|reflexivity].
Qed.

(* the occupied branch adds the marker when it is missing; both branches confirm the tick *)
Lemma changes_record_confirmed c T e comps c2 :
  ents_fresh c -> apply_changes c T e comps = Ok (Continue c2) -> confirmed_at T c2 e.
Proof.
  intros Hf. unfold apply_changes. destruct (entry_entity c e) as [[c1 cid]|] eqn:E; [|discriminate].
  destruct (entry_alive _ _ _ _ Hf E) as [x [Ex Ha]]. rewrite Ex. intros H.
  apply bind_ok in H. destruct H as [x1 [E1 H]]. inversion H; subst. clear H.
  apply confirmed_at_phase with (set_cent c1 cid x1); [apply phase_rel_write_comps|].
  exists cid, x1. split; [cbn; exact (entry_maps _ _ _ _ E)|]. split; [apply get_cent_set_cent_same|].
  apply confirm_tick_fields in E1. cbn in E1. destruct E1 as (A1 & _ & A3 & _ & h' & A5 & A6 & _).
  split; [congruence|]. split; [exact A3|]. exists h'. auto.
Qed.

Lemma removals_record_confirmed c T e kinds c2 :
  ents_fresh c -> apply_removals c T e kinds = Ok (Continue c2) -> confirmed_at T c2 e.
Proof.
  intros Hf. unfold apply_removals. destruct (entry_entity c e) as [[c1 cid]|] eqn:E; [|discriminate].
  destruct (entry_alive _ _ _ _ Hf E) as [x [Ex Ha]]. rewrite Ex. intros H.
  apply bind_ok in H. destruct H as [x1 [E1 H]]. inversion H; subst. clear H.
  eexists cid, _. split; [cbn; exact (entry_maps _ _ _ _ E)|]. split; [apply get_cent_set_cent_same|].
  apply confirm_tick_fields in E1. cbn in E1. destruct E1 as (A1 & _ & A3 & _ & h' & A5 & A6 & _).
  split; [cbn; congruence|]. split; [exact A3|]. exists h'. auto.
Qed.

Lemma run_changes_confirmed T l : forall c c', ents_fresh c ->
  run_array (fun c ch => apply_changes c T (fst ch) (snd ch)) l c = Ok (Continue c') ->
  forall e comps, In (e, comps) l -> confirmed_at T c' e.
Proof.
  induction l as [|a t IH]; intros c c' Hf H e comps Hin; [destruct Hin|].
  rewrite run_array_cons in H. destruct (apply_changes c T (fst a) (snd a)) as [[c1|c1]| |] eqn:E; try discriminate.
  pose proof (ents_fresh_changes _ _ _ _ _ Hf E) as Hf1. cbn [sr_client] in Hf1.
  destruct Hin as [->|Hin].
  - cbn [fst snd] in E. apply confirmed_at_phase with c1.
    + exact (phase_rel_run_changes T t c1 (Continue c') H).
    + exact (changes_record_confirmed _ _ _ _ _ Hf E).
  - exact (IH c1 c' Hf1 H e comps Hin).
Qed.

Lemma run_removals_confirmed T l : forall c c', ents_fresh c ->
  run_array (fun c r => apply_removals c T (fst r) (snd r)) l c = Ok (Continue c') ->
  forall e kinds, In (e, kinds) l -> confirmed_at T c' e.
Proof.
  induction l as [|a t IH]; intros c c' Hf H e kinds Hin; [destruct Hin|].
  rewrite run_array_cons in H. destruct (apply_removals c T (fst a) (snd a)) as [[c1|c1]| |] eqn:E; try discriminate.
  pose proof (ents_fresh_removals _ _ _ _ _ Hf E) as Hf1. cbn [sr_client] in Hf1.
  destruct Hin as [->|Hin].
  - cbn [fst snd] in E. apply confirmed_at_phase with c1.
    + exact (phase_rel_run_removals T t c1 (Continue c') H).
    + exact (removals_record_confirmed _ _ _ _ _ Hf E).
  - exact (IH c1 c' Hf1 H e kinds Hin).
Qed.

Lemma ents_fresh_run_removals T l c r : ents_fresh c ->
  run_array (fun c r => apply_removals c T (fst r) (snd r)) l c = Ok r -> ents_fresh (sr_client r).
Proof. apply run_array_inv. intros c0 a r0 P E. exact (ents_fresh_removals _ _ _ _ _ P E). Qed.

Lemma ents_fresh_run_changes T l c r : ents_fresh c ->
  run_array (fun c ch => apply_changes c T (fst ch) (snd ch)) l c = Ok r -> ents_fresh (sr_client r).
Proof. apply run_array_inv. intros c0 a r0 P E. exact (ents_fresh_changes _ _ _ _ _ P E). Qed.

(* the state after the despawn and mapping phases of a message (since the repair of defect D30 the despawn records are
   applied BEFORE the mappings of the same message) *)
Definition update_pre (c : client) (u : update_msg) : client :=
  fold_left (fun c m => apply_entity_mapping c (fst m) (snd m)) (u_maps u)
    (fold_left apply_despawn (u_despawns u) (set_upd_tick c (u_tick u))).

(* the message was applied to its end (no array element aborted it) *)
Definition update_completes (c : client) (u : update_msg) (c' : client) : Prop :=
  exists c3, run_array (fun c r => apply_removals c (u_tick u) (fst r) (snd r)) (u_removals u) (update_pre c u) = Ok (Continue c3) /\
             run_array (fun c ch => apply_changes c (u_tick u) (fst ch) (snd ch)) (u_changes u) c3 = Ok (Continue c').

Lemma update_completes_ok c u c' : update_completes c u c' -> apply_update_message c u = Ok c'.
Proof.
  intros [c3 [E3 E4]]. unfold apply_update_message. cbv zeta. unfold update_pre in E3. rewrite E3. cbn [bind].
  rewrite E4. reflexivity.
Qed.

Lemma ents_fresh_update_pre c u : ents_fresh c -> ents_fresh (update_pre c u).
Proof.
  intros Hf. unfold update_pre. apply fold_left_inv; [intros; apply ents_fresh_mapping; assumption|].
  apply fold_left_inv; [intros; apply ents_fresh_despawn; assumption|].
  revert Hf. apply ents_fresh_ext; reflexivity.
Qed.

Theorem update_changed_entities_confirmed c u c' :
  ents_fresh c -> update_completes c u c' ->
  (forall e kinds, In (e, kinds) (u_removals u) -> confirmed_at (u_tick u) c' e) /\
  (forall e comps, In (e, comps) (u_changes u) -> confirmed_at (u_tick u) c' e).
Proof.
  intros Hf [c3 [E3 E4]]. pose proof (ents_fresh_update_pre c u Hf) as Hf2.
  pose proof (ents_fresh_run_removals _ _ _ _ Hf2 E3) as Hf3. cbn [sr_client] in Hf3. split.
  - intros e kinds Hin. apply confirmed_at_phase with c3.
    + exact (phase_rel_run_changes _ _ _ _ E4).
    + exact (run_removals_confirmed _ _ _ _ Hf2 E3 e kinds Hin).
  - intros e comps Hin. exact (run_changes_confirmed _ _ _ _ Hf3 E4 e comps Hin).
Qed.

(* ---- despawns ---- *)

Lemma al_get_remove_none {V} k k' (l : list (N * V)) : al_get k' l = None -> al_get k' (al_remove k l) = None.
Proof.
  intros H. destruct (N.eq_dec k' k) as [->|Hne]; [apply al_get_remove_same|].
  rewrite al_get_remove_other by exact Hne. exact H.
Qed.

Lemma despawn_s2c c s : cl_s2c (apply_despawn c s) = al_remove s (cl_s2c c).
Proof.
  unfold apply_despawn, emap_remove_server. destruct (al_get s (cl_s2c c)) as [cid|] eqn:E.
  - cbv beta iota. rewrite get_cent_set_maps. destruct (get_cent c cid) as [x|]; [destruct (ce_alive x)|]; reflexivity.
  - symmetry. apply al_remove_absent. exact E.
Qed.

Lemma despawn_kills c s cid : al_get s (cl_s2c c) = Some cid -> alive (apply_despawn c s) cid = false.
Proof.
  intros E. unfold apply_despawn, emap_remove_server. rewrite E. cbv beta iota. rewrite get_cent_set_maps.
  destruct (get_cent c cid) as [x|] eqn:Ex.
  - destruct (ce_alive x) eqn:Ea.
    + unfold alive. rewrite get_cent_set_cent_same. reflexivity.
    + unfold alive. rewrite get_cent_set_maps, Ex. exact Ea.
  - unfold alive. rewrite get_cent_set_maps, Ex. reflexivity.
Qed.

Lemma despawn_keeps_dead c s cid : alive c cid = false -> alive (apply_despawn c s) cid = false.
Proof.
  intros Hd. unfold apply_despawn, emap_remove_server. destruct (al_get s (cl_s2c c)) as [cid0|]; [|exact Hd].
  cbv beta iota. rewrite get_cent_set_maps. destruct (get_cent c cid0) as [x|] eqn:Ex; [|exact Hd].
  destruct (ce_alive x) eqn:Ea; [|exact Hd]. unfold alive.
  destruct (N.eq_dec cid cid0) as [->|Hne]; [rewrite get_cent_set_cent_same; reflexivity|].
  rewrite get_cent_set_cent_other by exact Hne. exact Hd.
Qed.

(* after the despawn array every listed server entity is unmapped and its former client entity is dead *)
Lemma despawns_unmapped_dead ds : forall c e,
  In e ds ->
  al_get e (cl_s2c (fold_left apply_despawn ds c)) = None /\
  (forall cid, al_get e (cl_s2c c) = Some cid -> emap_wf c -> alive (fold_left apply_despawn ds c) cid = false).
Proof.
  assert (Hkeep_none : forall ds c e, al_get e (cl_s2c c) = None -> al_get e (cl_s2c (fold_left apply_despawn ds c)) = None).
  { induction ds0 as [|d t IH]; intros c e H; cbn [fold_left]; [exact H|]. apply IH. rewrite despawn_s2c.
    apply al_get_remove_none. exact H. }
  assert (Hkeep_dead : forall ds c cid, alive c cid = false -> alive (fold_left apply_despawn ds c) cid = false).
  { induction ds0 as [|d t IH]; intros c cid H; cbn [fold_left]; [exact H|]. apply IH. apply despawn_keeps_dead. exact H. }
  induction ds as [|d t IH]; intros c e Hin; [destruct Hin|]. cbn [fold_left]. destruct (N.eq_dec d e) as [->|Hne].
  - split.
    + apply Hkeep_none. rewrite despawn_s2c. apply al_get_remove_same.
    + intros cid E _. apply Hkeep_dead. apply despawn_kills. exact E.
  - destruct Hin as [->|Hin]; [congruence|]. destruct (IH (apply_despawn c d) e Hin) as [H1 H2]. split; [exact H1|].
    intros cid E Hwf. apply H2; [|apply emap_wf_despawn; exact Hwf].
    rewrite despawn_s2c. rewrite al_get_remove_other by congruence. exact E.
Qed.

(* ================================================================== *)
(* I. pre-spawn mappings (C16)                                        *)
(* ================================================================== *)

Definition has_pre (pc : N) (kv : N * cent) : bool :=
  match ce_pre (snd kv) with Some p => p =? pc | None => false end.

Lemma has_pre_true pc kv : has_pre pc kv = true <-> ce_pre (snd kv) = Some pc.
Proof.
  unfold has_pre. destruct (ce_pre (snd kv)) as [p|]; [|split; discriminate].
  split; [intros H; f_equal; lia|intros H; inversion H; lia].
Qed.

Lemma mapping_cases c s pc :
  (apply_entity_mapping c s pc = c /\
   forall cid x, find (has_pre pc) (cl_ents c) = Some (cid, x) -> ce_alive x = false) \/
  exists cid x, In (cid, x) (cl_ents c) /\ ce_pre x = Some pc /\ ce_alive x = true /\
                find (has_pre pc) (cl_ents c) = Some (cid, x) /\
                apply_entity_mapping c s pc =
                emap_insert (set_cent c cid (mkCEnt true (ce_pre x) true (ce_hist x) (ce_comps x))) s cid.
Proof.
  unfold apply_entity_mapping. change (fun kv : N * cent => match ce_pre (snd kv) with Some p => p =? pc | None => false end)
    with (has_pre pc).
  destruct (find (has_pre pc) (cl_ents c)) as [[cid x]|] eqn:E; [|left; split; [reflexivity|discriminate]].
  destruct (ce_alive x) eqn:Ea; [|left; split; [reflexivity|intros ? ? H; inversion H; subst; exact Ea]]. right. exists cid, x.
  apply find_some in E. destruct E as [Hin Hp]. apply has_pre_true in Hp. cbn in Hp. auto.
Qed.

(* an unknown or dead pre-spawned entity: the mapping is ignored *)
Lemma mapping_dead_ignored c s pc :
  (forall cid x, In (cid, x) (cl_ents c) -> ce_pre x = Some pc -> ce_alive x = false) ->
  apply_entity_mapping c s pc = c.
Proof.
  intros Hd. destruct (mapping_cases c s pc) as [[H _]|(cid & x & Hin & Hp & Ha & _)]; [exact H|].
  rewrite (Hd _ _ Hin Hp) in Ha. discriminate.
Qed.

Lemma mapping_next c s pc : cl_next (apply_entity_mapping c s pc) = cl_next c.
Proof. destruct (mapping_cases c s pc) as [[-> _]|(cid & x & _ & _ & _ & _ & ->)]; reflexivity. Qed.

Lemma despawn_next c s : cl_next (apply_despawn c s) = cl_next c.
Proof.
  unfold apply_despawn, emap_remove_server. destruct (al_get s (cl_s2c c)) as [cid|]; [|reflexivity].
  cbv beta iota. rewrite get_cent_set_maps. destruct (get_cent c cid) as [x|]; [destruct (ce_alive x)|]; reflexivity.
Qed.

Lemma al_get_in_nodup {V} k (v : V) l : NoDup (al_keys l) -> In (k, v) l -> al_get k l = Some v.
Proof.
  unfold al_keys. induction l as [|[k' v'] t IH]; cbn [map fst In al_get]; [tauto|].
  intros Hnd [H|H].
  - inversion H; subst. rewrite N.eqb_refl. reflexivity.
  - inversion Hnd as [|? ? Hnin Hnd']; subst. destruct (k' =? k) eqn:E; [|auto].
    assert (k' = k) by lia; subst. exfalso. apply Hnin. apply in_map_iff. exists (k, v). auto.
Qed.

Lemma al_get_in {V} k (v : V) l : al_get k l = Some v -> In (k, v) l.
Proof.
  induction l as [|[k' v'] t IH]; cbn [al_get In]; [discriminate|].
  destruct (k' =? k) eqn:E; [|auto]. intros H; inversion H; subst. left. f_equal. lia.
Qed.

Lemma al_insert_in {V} k (v : V) l k0 v0 : In (k0, v0) (al_insert k v l) -> (k0, v0) = (k, v) \/ In (k0, v0) l.
Proof.
  induction l as [|[k' v'] t IH]; cbn [al_insert In].
  - intros [H|[]]; auto.
  - destruct (k' =? k); cbn [In]; intros [H|H]; auto. destruct (IH H); auto.
Qed.

Section Adopt.
  Variables (cid pc e : N).

  (* the pre-spawned entity is there, alive, the only one with this script id, and only [e] may be
     related to it by the maps *)
  Definition adopt_J (c : client) : Prop :=
    NoDup (al_keys (cl_ents c)) /\
    (exists x, get_cent c cid = Some x /\ ce_alive x = true /\ ce_pre x = Some pc) /\
    (forall cid' x', In (cid', x') (cl_ents c) -> ce_pre x' = Some pc -> cid' = cid) /\
    (forall s, al_get s (cl_s2c c) = Some cid -> s = e) /\
    (forall s, al_get cid (cl_c2s c) = Some s -> s = e).

  (* ... and [e] is mapped to it both ways, and it carries the marker *)
  Definition adopt_K (c : client) : Prop :=
    al_get e (cl_s2c c) = Some cid /\ al_get cid (cl_c2s c) = Some e /\
    exists x, get_cent c cid = Some x /\ ce_marker x = true.

  (* nothing is mapped to the pre-spawned entity yet *)
  Definition adopt_U (c : client) : Prop :=
    (forall s, al_get s (cl_s2c c) <> Some cid) /\ al_get cid (cl_c2s c) = None.

  (* a despawn record does not concern an entity nothing is mapped to *)
  Lemma adopt_JU_despawn c d : adopt_J c -> adopt_U c -> adopt_J (apply_despawn c d) /\ adopt_U (apply_despawn c d).
  Proof.
    intros (Hnd & (x & Hx & Hxa & Hxp) & Huniq & Hs2c & Hc2s) (U1 & U2).
    unfold apply_despawn, emap_remove_server. destruct (al_get d (cl_s2c c)) as [cid'|] eqn:E.
    2:{ split; [split; [exact Hnd|split; [exists x; auto|auto]]|split; assumption]. }
    cbv beta iota. rewrite get_cent_set_maps.
    assert (Hc : cid' <> cid) by (intros ->; exact (U1 d E)).
    assert (G : forall c1, cl_s2c c1 = al_remove d (cl_s2c c) -> cl_c2s c1 = al_remove cid' (cl_c2s c) ->
                NoDup (al_keys (cl_ents c1)) -> get_cent c1 cid = Some x ->
                (forall k y, In (k, y) (cl_ents c1) -> ce_pre y = Some pc -> k = cid) ->
                adopt_J c1 /\ adopt_U c1).
    { intros c1 E1 E2 E3 E4 E5.
      assert (V1 : forall s, al_get s (cl_s2c c1) <> Some cid).
      { intros s Hs. rewrite E1 in Hs. destruct (N.eq_dec s d) as [->|Hne2]; [rewrite al_get_remove_same in Hs; discriminate|].
        rewrite al_get_remove_other in Hs by exact Hne2. exact (U1 s Hs). }
      assert (V2 : al_get cid (cl_c2s c1) = None) by (rewrite E2, al_get_remove_other by congruence; exact U2).
      split; [|split; assumption]. split; [exact E3|]. split; [exists x; auto|]. split; [exact E5|]. split.
      - intros s Hs. exfalso. exact (V1 s Hs).
      - intros s Hs. congruence. }
    destruct (get_cent c cid') as [x'|] eqn:Ex'; [destruct (ce_alive x')|]; try (apply G; try reflexivity; assumption).
    apply G; try reflexivity.
    - cbn. apply al_insert_nodup. exact Hnd.
    - rewrite get_cent_set_cent_other by congruence. rewrite get_cent_set_maps. exact Hx.
    - intros k y Hk Hy. cbn in Hk. apply al_insert_in in Hk. destruct Hk as [Hk|Hk]; [|exact (Huniq _ _ Hk Hy)].
      inversion Hk; subst k y. cbn in Hy. apply (Huniq cid' x'); [|exact Hy]. unfold get_cent in Ex'. apply al_get_in. exact Ex'.
  Qed.

  Lemma adopt_JU_despawns ds : forall c, adopt_J c -> adopt_U c ->
    adopt_J (fold_left apply_despawn ds c) /\ adopt_U (fold_left apply_despawn ds c).
  Proof.
    induction ds as [|d t IH]; intros c HJ HU; cbn [fold_left]; [split; assumption|].
    destruct (adopt_JU_despawn c d HJ HU) as [HJ1 HU1]. exact (IH _ HJ1 HU1).
  Qed.

  Lemma adopt_J_mapping c e' pc' :
    adopt_J c -> (pc' = pc -> e' = e) -> adopt_J (apply_entity_mapping c e' pc').
  Proof.
    intros HJ Hside.
    destruct (mapping_cases c e' pc') as [[-> _]|(cid' & x' & Hin & Hp & Ha & _ & ->)]; [exact HJ|].
    destruct HJ as (Hnd & (x & Hx & Hxa & Hxp) & Huniq & Hs2c & Hc2s).
    pose proof (al_get_in_nodup _ _ _ Hnd Hin) as Hget'.
    assert (Hsame : cid' = cid -> pc' = pc).
    { intros ->. unfold get_cent in Hx. rewrite Hx in Hget'. inversion Hget'; subst. congruence. }
    split; [|split; [|split; [|split]]].
    - cbn. apply al_insert_nodup. exact Hnd.
    - destruct (N.eq_dec cid' cid) as [->|Hne].
      + unfold get_cent in Hx. rewrite Hx in Hget'. inversion Hget'; subst x'.
        eexists. split; [unfold emap_insert; rewrite get_cent_set_maps; apply get_cent_set_cent_same|]. cbn. auto.
      + exists x. split; [|auto]. unfold emap_insert. rewrite get_cent_set_maps.
        rewrite get_cent_set_cent_other by congruence. exact Hx.
    - intros k y Hk Hy. cbn in Hk. apply al_insert_in in Hk. destruct Hk as [Hk|Hk].
      + inversion Hk; subst. cbn in Hy. apply (Huniq _ _ Hin). congruence.
      + exact (Huniq _ _ Hk Hy).
    - intros s. cbn. destruct (N.eq_dec s e') as [->|Hne].
      + rewrite al_get_insert_same. intros H; inversion H; subst. auto.
      + rewrite al_get_insert_other by exact Hne. apply Hs2c.
    - intros s. cbn. destruct (N.eq_dec cid' cid) as [->|Hne].
      + rewrite al_get_insert_same. intros H; inversion H; subst. auto.
      + rewrite al_get_insert_other by congruence. intros H. apply Hc2s.
        destruct (al_get e' (cl_s2c c)) as [existing|]; [|exact H].
        destruct (existing =? cid'); [exact H|].
        destruct (N.eq_dec cid existing) as [->|Hne2]; [rewrite al_get_remove_same in H; discriminate|].
        rewrite al_get_remove_other in H by exact Hne2. exact H.
  Qed.

  Lemma adopt_K_established c : adopt_J c -> adopt_K (apply_entity_mapping c e pc).
  Proof.
    intros (Hnd & (x & Hx & Hxa & Hxp) & Huniq & Hs2c & Hc2s).
    destruct (mapping_cases c e pc) as [[_ Hdead]|(cid' & x' & Hin & Hp & Ha & _ & ->)].
    - exfalso. destruct (find (has_pre pc) (cl_ents c)) as [[cid0 x0]|] eqn:E.
      + pose proof (Hdead _ _ eq_refl) as Hd. apply find_some in E. destruct E as [Hin0 Hp0].
        apply has_pre_true in Hp0. cbn in Hp0.
        pose proof (Huniq _ _ Hin0 Hp0); subst cid0. pose proof (al_get_in_nodup _ _ _ Hnd Hin0) as H0.
        unfold get_cent in Hx. rewrite Hx in H0. inversion H0; subst x0. congruence.
      + pose proof (find_none _ _ E _ (al_get_in _ _ _ Hx)) as Hn.
        assert (Ht : has_pre pc (cid, x) = true) by (apply has_pre_true; exact Hxp). congruence.
    - pose proof (Huniq _ _ Hin Hp); subst cid'. split; [cbn; apply al_get_insert_same|].
      split; [cbn; apply al_get_insert_same|]. eexists. split; [unfold emap_insert; rewrite get_cent_set_maps; apply get_cent_set_cent_same|reflexivity].
  Qed.

  Lemma adopt_K_mapping c e' pc' :
    adopt_J c -> adopt_K c -> (pc' = pc <-> e' = e) -> adopt_K (apply_entity_mapping c e' pc').
  Proof.
    intros HJ HK Hside.
    destruct (mapping_cases c e' pc') as [[-> _]|(cid' & x' & Hin & Hp & Ha & _ & ->)]; [exact HK|].
    destruct HJ as (Hnd & (x & Hx & Hxa & Hxp) & Huniq & Hs2c & Hc2s).
    destruct HK as (K1 & K2 & (x0 & Hx0 & Hm)).
    pose proof (al_get_in_nodup _ _ _ Hnd Hin) as Hget'.
    assert (Hsame : cid' = cid -> pc' = pc).
    { intros ->. unfold get_cent in Hx. rewrite Hx in Hget'. inversion Hget'; subst. congruence. }
    assert (Hsame2 : pc' = pc -> cid' = cid).
    { intros ->. exact (Huniq _ _ Hin Hp). }
    split; [|split].
    - cbn. destruct (N.eq_dec e' e) as [->|Hne].
      + rewrite al_get_insert_same. f_equal. apply Hsame2. apply Hside. reflexivity.
      + rewrite al_get_insert_other by congruence. exact K1.
    - cbn. destruct (N.eq_dec cid' cid) as [->|Hne].
      + rewrite al_get_insert_same. f_equal. apply Hside. apply Hsame. reflexivity.
      + rewrite al_get_insert_other by congruence.
        destruct (al_get e' (cl_s2c c)) as [existing|] eqn:Ee; [|exact K2].
        destruct (existing =? cid'); [exact K2|].
        destruct (N.eq_dec cid existing) as [->|Hne2].
        * exfalso. apply Hne. apply Hsame2. apply Hside. exact (Hs2c _ Ee).
        * rewrite al_get_remove_other by exact Hne2. exact K2.
    - destruct (N.eq_dec cid' cid) as [->|Hne].
      + eexists. split; [unfold emap_insert; rewrite get_cent_set_maps; apply get_cent_set_cent_same|reflexivity].
      + exists x0. split; [|exact Hm]. unfold emap_insert. rewrite get_cent_set_maps.
        rewrite get_cent_set_cent_other by congruence. exact Hx0.
  Qed.

  Lemma adopt_maps_fold l : forall c,
    adopt_J c -> (forall e' pc', In (e', pc') l -> (pc' = pc <-> e' = e)) ->
    let c1 := fold_left (fun c m => apply_entity_mapping c (fst m) (snd m)) l c in
    adopt_J c1 /\ (adopt_K c \/ In (e, pc) l -> adopt_K c1).
  Proof.
    induction l as [|[e' pc'] t IH]; intros c HJ Hside; cbn [fold_left fst snd].
    - split; [exact HJ|]. intros [H|[]]; exact H.
    - assert (Hs1 : pc' = pc <-> e' = e) by (apply Hside; left; reflexivity).
      assert (HJ1 : adopt_J (apply_entity_mapping c e' pc')) by (apply adopt_J_mapping; [exact HJ|apply Hs1]).
      destruct (IH _ HJ1 (fun a b Hin => Hside a b (or_intror Hin))) as [HJ2 HK2]. split; [exact HJ2|].
      intros [HK|[Heq|Hin]].
      + apply HK2. left. apply adopt_K_mapping; assumption.
      + inversion Heq; subst. apply HK2. left. apply adopt_K_established. exact HJ.
      + apply HK2. right. exact Hin.
  Qed.

  Definition adopt_F (c : client) : Prop :=
    al_get e (cl_s2c c) = Some cid /\ al_get cid (cl_c2s c) = Some e /\
    (forall s, al_get s (cl_s2c c) = Some cid -> s = e) /\
    exists x, get_cent c cid = Some x /\ ce_alive x = true /\ ce_marker x = true /\ ce_pre x = Some pc.

  Lemma adopt_F_of_JK c : adopt_J c -> adopt_K c -> adopt_F c.
  Proof.
    intros (Hnd & (x & Hx & Hxa & Hxp) & Huniq & Hs2c & Hc2s) (K1 & K2 & (x0 & Hx0 & Hm)).
    split; [exact K1|]. split; [exact K2|]. split; [exact Hs2c|]. exists x. rewrite Hx in Hx0. inversion Hx0; subst. auto.
  Qed.

  Lemma adopt_F_despawn c e' : e' <> e -> adopt_F c -> adopt_F (apply_despawn c e').
  Proof.
    intros Hne (F1 & F2 & F3 & (x & Hx & Ha & Hm & Hp)).
    unfold apply_despawn, emap_remove_server. destruct (al_get e' (cl_s2c c)) as [cid'|] eqn:E.
    2:{ split; [exact F1|]. split; [exact F2|]. split; [exact F3|]. exists x. auto. }
    cbv beta iota. rewrite get_cent_set_maps.
    assert (Hc : cid' <> cid) by (intros ->; apply Hne; exact (F3 _ E)).
    assert (G : forall c1, cl_s2c c1 = al_remove e' (cl_s2c c) -> cl_c2s c1 = al_remove cid' (cl_c2s c) ->
                get_cent c1 cid = Some x -> adopt_F c1).
    { intros c1 E1 E2 E3. unfold adopt_F. rewrite E1, E2.
      split; [rewrite al_get_remove_other by congruence; exact F1|].
      split; [rewrite al_get_remove_other by congruence; exact F2|].
      split; [|exists x; auto].
      intros s Hs. destruct (N.eq_dec s e') as [->|Hne2]; [rewrite al_get_remove_same in Hs; discriminate|].
      rewrite al_get_remove_other in Hs by exact Hne2. exact (F3 _ Hs). }
    destruct (get_cent c cid') as [x'|]; [destruct (ce_alive x')|]; apply G; try reflexivity; try exact Hx.
    rewrite get_cent_set_cent_other by congruence. exact Hx.
  Qed.

  Lemma adopt_F_despawns ds : forall c, ~ In e ds -> adopt_F c -> adopt_F (fold_left apply_despawn ds c).
  Proof.
    induction ds as [|d t IH]; intros c Hnin HF; cbn [fold_left]; [exact HF|].
    apply IH; [intros H; apply Hnin; right; exact H|]. apply adopt_F_despawn; [|exact HF].
    intros ->. apply Hnin. left; reflexivity.
  Qed.

  Lemma adopt_F_phase T c c' : cid < cl_next c -> phase_rel T c c' -> adopt_F c ->
    al_get e (cl_s2c c') = Some cid /\ al_get cid (cl_c2s c') = Some e /\
    exists x', get_cent c' cid = Some x' /\ ce_alive x' = true /\ ce_marker x' = true /\ ce_pre x' = Some pc.
  Proof.
    intros Hlt (P1 & P2 & _ & P4 & _) (F1 & F2 & _ & (x & Hx & Ha & Hm & Hp)).
    split; [auto|]. split; [rewrite P2 by exact Hlt; exact F2|].
    destruct (P4 _ _ Hx) as [y [Hy S]]. exists y. split; [exact Hy|].
    destruct (phase_steps_fields T x y S) as (A1 & A2 & A3 & _). repeat split; try congruence. auto.
  Qed.
End Adopt.

Lemma fold_next {A} (g : client -> A -> client) l :
  (forall c a, cl_next (g c a) = cl_next c) -> forall c, cl_next (fold_left g l c) = cl_next c.
Proof. intros Hg. induction l as [|a t IH]; intros c; cbn [fold_left]; [reflexivity|]. rewrite IH. apply Hg. Qed.

Lemma update_pre_next c u : cl_next (update_pre c u) = cl_next c.
Proof.
  unfold update_pre. rewrite fold_next by (intros; apply mapping_next).
  rewrite fold_next by apply despawn_next. reflexivity.
Qed.

(* whatever the outcome (completed or aborted half way), the result is a removals/changes phase
   away from the state after despawns and mappings *)
Lemma update_message_phases c u c' : apply_update_message c u = Ok c' -> phase_rel (u_tick u) (update_pre c u) c'.
Proof.
  intros H. unfold apply_update_message in H. cbv zeta in H. fold (update_pre c u) in H.
  apply bind_ok in H. destruct H as [r3 [E3 H]].
  pose proof (phase_rel_run_removals _ _ _ _ E3) as H3.
  destruct r3 as [c3|c3]; cbn [sr_client] in H3; [|inversion H; subst; exact H3].
  apply bind_ok in H. destruct H as [r4 [E4 H]].
  pose proof (phase_rel_run_changes _ _ _ _ E4) as H4.
  destruct r4 as [c4|c4]; cbn [sr_client] in H4; inversion H; subst; eapply phase_rel_trans; eauto.
Qed.

(* C16: the mapping travels in the same message as the entity's first data *)
Theorem mapping_adopts_prespawned c u c' cid pc e x :
  ents_fresh c -> NoDup (al_keys (cl_ents c)) ->
  get_cent c cid = Some x -> ce_alive x = true -> ce_pre x = Some pc ->
  (forall cid' x', In (cid', x') (cl_ents c) -> ce_pre x' = Some pc -> cid' = cid) ->
  (forall s, al_get s (cl_s2c c) <> Some cid) -> al_get cid (cl_c2s c) = None ->
  In (e, pc) (u_maps u) ->
  (forall e' pc', In (e', pc') (u_maps u) -> (pc' = pc <-> e' = e)) ->
  apply_update_message c u = Ok c' ->
  cid < cl_next c /\ al_get e (cl_s2c c') = Some cid /\ al_get cid (cl_c2s c') = Some e /\
  exists x', get_cent c' cid = Some x' /\ ce_alive x' = true /\ ce_marker x' = true /\ ce_pre x' = Some pc.
Proof.
  intros Hf Hnd Hx Ha Hp Huniq Hunm Hc2s Hin Hside H.
  pose proof (ents_fresh_lt _ _ _ Hf Hx) as Hlt. split; [exact Hlt|].
  assert (HJ : adopt_J cid pc e (set_upd_tick c (u_tick u))).
  { split; [exact Hnd|]. split; [exists x; auto|]. split; [exact Huniq|]. split.
    - intros s Hs. exfalso. exact (Hunm s Hs).
    - intros s Hs. cbn in Hs. congruence. }
  assert (HU : adopt_U cid (set_upd_tick c (u_tick u))) by (split; [exact Hunm|exact Hc2s]).
  (* the despawn records of the message do not concern the pre-spawned entity: nothing is mapped to it yet *)
  destruct (adopt_JU_despawns cid pc e (u_despawns u) _ HJ HU) as [HJ0 _].
  destruct (adopt_maps_fold cid pc e (u_maps u) _ HJ0 Hside) as [HJ1 HK1]. cbv zeta in HJ1, HK1.
  pose proof (adopt_F_of_JK _ _ _ _ HJ1 (HK1 (or_intror Hin))) as HF1. fold (update_pre c u) in HF1.
  apply (adopt_F_phase cid pc e (u_tick u) (update_pre c u) c').
  - rewrite update_pre_next. exact Hlt.
  - exact (update_message_phases _ _ _ H).
  - exact HF1.
Qed.

(* ... and when the message runs to its end, the entity's record lands on that entity *)
Corollary mapping_adopts_prespawned_confirmed c u c' cid pc e x comps :
  ents_fresh c -> NoDup (al_keys (cl_ents c)) ->
  get_cent c cid = Some x -> ce_alive x = true -> ce_pre x = Some pc ->
  (forall cid' x', In (cid', x') (cl_ents c) -> ce_pre x' = Some pc -> cid' = cid) ->
  (forall s, al_get s (cl_s2c c) <> Some cid) -> al_get cid (cl_c2s c) = None ->
  In (e, pc) (u_maps u) ->
  (forall e' pc', In (e', pc') (u_maps u) -> (pc' = pc <-> e' = e)) ->
  update_completes c u c' -> In (e, comps) (u_changes u) ->
  al_get e (cl_s2c c') = Some cid /\
  exists x', get_cent c' cid = Some x' /\ ce_pre x' = Some pc /\ confirmed_ent (u_tick u) x'.
Proof.
  intros Hf Hnd Hx Ha Hp Huniq Hunm Hc2s Hin Hside Hc Hch.
  destruct (mapping_adopts_prespawned c u c' cid pc e x Hf Hnd Hx Ha Hp Huniq Hunm Hc2s Hin Hside
              (update_completes_ok _ _ _ Hc)) as (_ & M1 & _ & (x' & Hx' & _ & _ & Hp')).
  split; [exact M1|]. destruct (update_changed_entities_confirmed c u c' Hf Hc) as [_ Hcf].
  destruct (Hcf _ _ Hch) as (cid2 & x2 & E2 & Hx2 & Hce). rewrite M1 in E2. inversion E2; subst cid2.
  exists x2. split; [exact Hx2|]. split; [|exact Hce]. rewrite Hx' in Hx2. inversion Hx2; subst. exact Hp'.
Qed.

(* C16, dead or unknown pre-spawned entity: the mapping is ignored, the entity gets a fresh client entity *)
Lemma dead_maps_fold pc e l : forall c,
  (forall cid x, In (cid, x) (cl_ents c) -> ce_pre x = Some pc -> ce_alive x = false) ->
  al_get e (cl_s2c c) = None ->
  (forall pc', In (e, pc') l -> pc' = pc) ->
  let c1 := fold_left (fun c m => apply_entity_mapping c (fst m) (snd m)) l c in
  al_get e (cl_s2c c1) = None.
Proof.
  induction l as [|[e' pc'] t IH]; intros c Hd He Hside; cbn [fold_left fst snd]; [exact He|].
  apply IH.
  - destruct (mapping_cases c e' pc') as [[-> _]|(cid' & x' & Hin & Hp & Ha & _ & ->)]; [exact Hd|].
    intros k y Hk Hy. cbn in Hk. apply al_insert_in in Hk. destruct Hk as [Hk|Hk]; [|exact (Hd _ _ Hk Hy)].
    inversion Hk; subst. cbn in Hy. rewrite (Hd _ _ Hin Hy) in Ha. discriminate.
  - destruct (N.eq_dec e' e) as [->|Hne].
    + rewrite (Hside pc' (or_introl eq_refl)). rewrite mapping_dead_ignored by exact Hd. exact He.
    + destruct (mapping_cases c e' pc') as [[-> _]|(cid' & x' & _ & _ & _ & _ & ->)]; [exact He|].
      cbn. rewrite al_get_insert_other by congruence. exact He.
  - intros pc0 Hin. apply Hside. right. exact Hin.
Qed.

Lemma despawns_keep_unmapped ds : forall c e, al_get e (cl_s2c c) = None -> al_get e (cl_s2c (fold_left apply_despawn ds c)) = None.
Proof.
  induction ds as [|d t IH]; intros c e H; cbn [fold_left]; [exact H|]. apply IH. rewrite despawn_s2c.
  apply al_get_remove_none. exact H.
Qed.

(* a despawn record only kills: the entities pre-spawned under [pc] stay dead *)
Lemma despawns_keep_dead_pre pc ds : forall c,
  (forall cid x, In (cid, x) (cl_ents c) -> ce_pre x = Some pc -> ce_alive x = false) ->
  forall cid x, In (cid, x) (cl_ents (fold_left apply_despawn ds c)) -> ce_pre x = Some pc -> ce_alive x = false.
Proof.
  induction ds as [|d t IH]; intros c Hd; cbn [fold_left]; [exact Hd|]. apply IH.
  unfold apply_despawn, emap_remove_server. destruct (al_get d (cl_s2c c)) as [cid'|]; [|exact Hd].
  cbv beta iota. rewrite get_cent_set_maps. destruct (get_cent c cid') as [x'|]; [|exact Hd]. destruct (ce_alive x'); [|exact Hd].
  intros k y Hk Hy. cbn in Hk. apply al_insert_in in Hk. destruct Hk as [Hk|Hk]; [inversion Hk; reflexivity|exact (Hd _ _ Hk Hy)].
Qed.

Theorem mapping_dead_prespawn_spawns_fresh c u c' pc e comps :
  ents_fresh c ->
  (forall cid x, In (cid, x) (cl_ents c) -> ce_pre x = Some pc -> ce_alive x = false) ->
  al_get e (cl_s2c c) = None ->
  (forall pc', In (e, pc') (u_maps u) -> pc' = pc) ->
  update_completes c u c' -> In (e, comps) (u_changes u) ->
  exists cid' x', al_get e (cl_s2c c') = Some cid' /\ cl_next c <= cid' /\
                  get_cent c' cid' = Some x' /\ confirmed_ent (u_tick u) x'.
Proof.
  intros Hf Hd He Hside Hc Hch.
  destruct (update_changed_entities_confirmed c u c' Hf Hc) as [_ Hcf].
  destruct (Hcf _ _ Hch) as (cid2 & x2 & E2 & Hx2 & Hce). exists cid2, x2.
  split; [exact E2|]. split; [|auto].
  pose proof (update_message_phases _ _ _ (update_completes_ok _ _ _ Hc)) as (_ & _ & _ & _ & P5).
  destruct (P5 _ _ E2) as [H|H]; [|rewrite update_pre_next in H; exact H].
  exfalso. unfold update_pre in H.
  rewrite (dead_maps_fold pc e (u_maps u) (fold_left apply_despawn (u_despawns u) (set_upd_tick c (u_tick u)))) in H; [discriminate| | |exact Hside].
  - apply despawns_keep_dead_pre. exact Hd.
  - apply despawns_keep_unmapped. exact He.
Qed.

(* ServerEntityMap::insert through a pre-spawn mapping keeps the invariant when the pre-spawned
   entity is not already the image of a different server entity *)
Lemma emap_wf_mapping c s pc :
  emap_wf c -> ents_fresh c ->
  (forall cid x s0, In (cid, x) (cl_ents c) -> ce_pre x = Some pc -> al_get cid (cl_c2s c) = Some s0 -> s0 = s) ->
  emap_wf (apply_entity_mapping c s pc).
Proof.
  intros Hwf Hf Hone. destruct (mapping_cases c s pc) as [[-> _]|(cid & x & Hin & Hp & Ha & _ & ->)]; [exact Hwf|].
  apply emap_wf_insert.
  - apply emap_wf_set_cent. exact Hwf.
  - cbn. destruct (N.lt_ge_cases cid (cl_next c)) as [Hlt|Hge]; [exact Hlt|]. exfalso.
    pose proof (Hf cid Hge) as Hn. unfold get_cent in Hn. apply al_get_none_keys in Hn. apply Hn.
    unfold al_keys. apply in_map_iff. exists (cid, x). auto.
  - intros s0 H0. cbn in H0. exact (Hone _ _ _ Hin Hp H0).
Qed.
