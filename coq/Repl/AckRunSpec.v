(* C11 end to end: specification vocabulary (definitions only, not extracted).
   Per client slot a ghost of the current session of the slot's record on the server (from the `StConnect` that created
   the record to the `StDisconnect` / `reset` that removes it):
     ag_runs    (run stamp, replicon tick) of every run of `send_replication` made while the record exists
     ag_sent    every mutate message sent to the slot, with the stamp `this_run` of the run that sent it
     ag_upds    every update message sent to the slot, with the stamp of its run
     ag_acked   the acknowledgements the server has PROCESSED for the slot: index and the server's record of the
                message (`mutate_info`: run stamp, timestamp, entities) at the moment `receive_acks` looked it up -
                an `StDeliver` of the ack channel followed by the server frame that runs `receive_acks`, the index
                still registered (not cleaned up, not acknowledged before), the sender an authorized client
   The ghost reads the model's own functions; nothing of the model is copied. *)
From RV Require Import Lib.Res Repl.ClientTicks Repl.World Vis.Visibility Repl.Server Repl.ServerSpec Repl.Client Repl.Sys
  Wire.AckCodec Repl.Ack_proofs Repl.ClientSys_proofs Repl.StructE2EMut_proofs.
Open Scope N_scope.

Record aghost := mkAG {
  ag_runs : list (N * N);
  ag_sent : list (N * mutate_msg);
  ag_upds : list (N * update_msg);
  ag_acked : list (N * mutate_info)
}.
Definition ag_empty : aghost := mkAG [] [] [] [].
Definition aghosts := N -> aghost.
Definition ags_empty : aghosts := fun _ => ag_empty.
Definition ag_upd (G : aghosts) (slot : N) (g : aghost) : aghosts := fun k => if k =? slot then g else G k.

(* the indices of a list of acknowledgements that name a registered message, each with the record found *)
Fixpoint acked_infos (ct : client_ticks) (now : N) (idxs : list N) : list (N * mutate_info) :=
  match idxs with
  | [] => []
  | i :: r =>
    (match al_get i (ct_mutations ct) with Some info => [(i, info)] | None => [] end)
    ++ acked_infos (ack_mutate_message ct now i) now r
  end.

(* ---------- the stages of `server_frame` ---------- *)

(* PreUpdate: `receive_acks`, then `cleanup_acks` when its timer fired *)
Definition frame_acks (c : cfg) (s : server) (tick : bool) (dt : N) (cleanup : bool) : server :=
  let s1 := with_time_tick s tick dt in
  if sv_running s1 then (let r := Server.receive_acks s1 in if cleanup then cleanup_acks c r else r) else s1.

(* the state `send_replication` starts from (when it runs): after the operations and `buffer_removals` *)
Definition frame_pre (c : cfg) (s : server) (tick : bool) (dt : N) (cleanup : bool) (ops : list sop) : server :=
  buffer_removals (fold_left apply_sop ops (frame_acks c s tick dt cleanup)).

(* the acknowledgements `receive_acks` processes for a slot in a frame *)
Definition frame_acked (s : server) (k : N) : list (N * mutate_info) :=
  if sv_running s then
    match find_client s k with
    | Some cl => if sc_authorized cl then acked_infos (sc_ticks cl) (sv_now s) (acks_for k (sv_inbox_acks s)) else []
    | None => []
    end
  else [].

Definition ag_frame (g : aghost) (r : N) (fo : frame_out) (k : N) (acked : list (N * mutate_info)) : aghost :=
  mkAG (ag_runs g ++ (if fo_ran fo then [(r, fo_tick fo)] else []))
       (ag_sent g ++ map (pair r) (mutates_for k (fo_clients fo)))
       (ag_upds g ++ map (pair r) (updates_for k (fo_clients fo)))
       (ag_acked g ++ acked).

Definition astep (y : sys) (G : aghosts) (st : step) : aghosts :=
  match st with
  | StSFrame tick dt cleanup ops parts =>
    match server_frame (y_cfg y) (y_server y) tick dt cleanup ops parts with
    | Ok (s', fo) =>
      fun k => match find_client s' k with
               | Some _ => ag_frame (G k) (sv_now (y_server y)) fo k (frame_acked (y_server y) k)
               | None => ag_empty
               end
    | _ => G
    end
  | StDisconnect slot =>
    match al_get slot (y_clients y) with
    | Some _ => ag_upd G slot ag_empty
    | None => G
    end
  | _ => G
  end.

Fixpoint arun (y : sys) (G : aghosts) (script : list step) : res (sys * aghosts) :=
  match script with
  | [] => Ok (y, G)
  | st :: rest => let* (y', _) := sys_step y st in arun y' (astep y G st) rest
  end.

(* the ghost of ONE slot along a run (what [arun] computes, pointwise: `vm_compute` friendly) *)
Fixpoint arun1 (y : sys) (g : aghost) (script : list step) (k : N) : res (sys * aghost) :=
  match script with
  | [] => Ok (y, g)
  | st :: rest => let* (y', _) := sys_step y st in arun1 y' (astep y (fun _ => g) st k) rest k
  end.

(* ---------- what the theorems say ---------- *)

(* an update message mentions an entity: an entry of the changes array or a removal record
   (the cases in which `collect_changes` sets the entity's stamp to the stamp of the run) *)
Definition upd_mentions (u : update_msg) (e : N) : Prop :=
  In e (map fst (u_removals u)) \/ In e (map fst (u_changes u)).

(* the acknowledgement of a message with run stamp [T] that lists [e] has been processed *)
Definition acked_at (g : aghost) (e T : N) : Prop :=
  exists i info, In (i, info) (ag_acked g) /\ In e (mi_entities info) /\ ClientTicks.mi_tick info = T.

(* an update message of the run with stamp [T] mentions [e] *)
Definition rebased_at (g : aghost) (e T : N) : Prop :=
  exists u, In (T, u) (ag_upds g) /\ upd_mentions u e.

(* component [k] of entity [e] with value [v] is in a mutate message *)
Definition in_mutate (m : mutate_msg) (e k : N) (v : val) : Prop :=
  exists vals, In (e, vals) (m_body m) /\ In (k, v) vals.

(* the current component [k] of entity [e] in the server world *)
Definition comp_at (s : server) (e k : N) : option comp :=
  match get_ent s e with Some x => al_get k (se_comps x) | None => None end.
