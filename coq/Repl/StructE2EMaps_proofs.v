(* C03 end to end with PRE-SPAWN MAPPINGS (G3): the development of Repl/StructE2ESess_proofs.v (every visibility
   policy, several sessions) once more, with `SMap` operations allowed.  What C16 promises about a mapping is a
   HYPOTHESIS on the run ([run_maps_ok], stated step by step on the states the run goes through):
     - every update message the server produces names, in its mappings, only entities that are in its changes
       array (the mapping is registered no later than the tick in which the entity first becomes visible to
       that client: `unknown_visible_is_sent_whole` then puts the whole entity into the message);
     - when a connected client applies the messages of its inbox, every mapping is harmless at the moment it is
       applied, i.e. after the despawn records of its message ([inbox_maps_ok], [maps_ok] at [maps_pre] of
       Repl/ClientStructSpec.v: the server entity is unknown to the client, the pre-spawned entity, if alive, is
       neither marked nor mapped);
     - the client operations of a frame are harmless ([cops_safe]: no pre-spawned entity that something is mapped
       to is despawned by the client).  Without mappings this follows from the invariant "pre-spawned entities
       are never mapped" of Repl/StructE2ESess_proofs.v; with mappings it is the script author's obligation.
   Client side: Repl/ClientHistMaps_proofs.v.  The vocabulary (modes, sessions_ok, the ghost run, reached_s,
   snaps_v, slink) is the one of Repl/StructE2ESess_proofs.v. *)
From RV Require Import Lib.Res Repl.ClientTicks Repl.ClientTicks_proofs Repl.World Vis.Visibility Vis.VisSpec
  Vis.Visibility_proofs Tick.RepliconTick Tick.RepliconTick_proofs Tick.ConfirmHistory Tick.MutateTicks
  Repl.Server Repl.ServerSpec Repl.Server_proofs Repl.StructSpec Repl.Struct_proofs
  Repl.StructOps_proofs Repl.StructRun_proofs
  Repl.StructVisSpec Repl.StructVis_proofs Repl.StructVisOps_proofs Repl.StructVisRun_proofs
  Repl.Client Repl.Sys Repl.Client_proofs Repl.ClientEnt_proofs Repl.ClientMut_proofs Repl.ClientSys_proofs
  Repl.Session_proofs
  Repl.ClientStructSpec Repl.ClientStruct_proofs Repl.ClientHist_proofs Repl.ClientMaps_proofs
  Repl.StructE2E_proofs Repl.StructE2EMut_proofs Repl.StructE2EVis_proofs Repl.StructE2ESess_proofs
  Repl.ClientHistMaps_proofs.
From Coq Require Import ZifyBool ZifyN.
Open Scope N_scope.
Ltac Zify.zify_post_hook ::= Z.div_mod_to_equations.
Arguments N.add : simpl never. Arguments N.mul : simpl never. Arguments N.pow : simpl never.
Arguments N.ltb : simpl never. Arguments N.leb : simpl never. Arguments N.div : simpl never.
Arguments N.modulo : simpl never. Arguments N.sub : simpl never. Arguments N.eqb : simpl never.

(* ================================================================== *)
(* 0. the server side, with `SMap` operations                         *)
(* ================================================================== *)

Lemma apply_sop_upd_ticks_g lt s op : upd_ticks_ok lt s -> upd_ticks_ok lt (apply_sop s op).
Proof.
  intros H. destruct (sop_ok op) eqn:Eok; [exact (apply_sop_upd_ticks lt s op Eok H)|].
  destruct op as [e marker comps|e|e k v|e k|e k v|e|e|slot e visible|slot e pc]; try discriminate. unfold apply_sop.
  destruct (find_client s slot) as [c0|] eqn:Ef; [|exact H]. destruct (get_ent s e); [|exact H].
  destruct (sc_authorized c0 && existsb _ (sv_premap s)) eqn:Ec; [|exact H].
  apply andb_prop in Ec. destruct Ec as [Ha0 _].
  unfold find_client in Ef. apply find_some in Ef. destruct Ef as [Hc0 _].
  intros cl Hin Ha t Hl. unfold update_client, set_clients in Hin. cbn [sv_clients] in Hin.
  apply in_map_iff in Hin. destruct Hin as [c1 [E Hc1]].
  destruct (sc_slot c1 =? _); subst cl; [cbn in *; exact (H c0 Hc0 Ha0 t Hl)|exact (H c1 Hc1 Ha t Hl)].
Qed.

Lemma ops_upd_ticks_g lt ops : forall s, upd_ticks_ok lt s -> upd_ticks_ok lt (fold_left apply_sop ops s).
Proof.
  induction ops as [|op t IH]; intros s H; cbn [fold_left]; [exact H|]. apply IH. apply apply_sop_upd_ticks_g. exact H.
Qed.

Lemma server_frame_clients_g c g tick dt (cleanup : bool) ops parts s' fo :
  ginv_v g ->
  server_frame c (g_srv g) tick dt cleanup ops parts = Ok (s', fo) ->
  sv_running s' = sv_running (g_srv g) /\
  (forall slot, has_rec s' slot -> has_rec (g_srv g) slot) /\
  (sv_running (g_srv g) = true -> auth_sig s' = auth_sig (g_srv g)) /\
  NoDup (map co_slot (fo_clients fo)) /\
  (forall o, In o (fo_clients fo) -> has_auth s' (co_slot o)) /\
  (forall o u, In o (fo_clients fo) -> co_update o = Some u -> u_tick u = sv_tick s') /\
  (sv_running (g_srv g) = false -> fo_clients fo = []).
Proof.
  intros [Hok Hnd Hidle Hcl Hdom] H. set (s := g_srv g) in *.
  unfold server_frame in H. change (sv_running (with_time_tick s tick dt)) with (sv_running s) in H.
  destruct (sv_running s) eqn:Erun.
  - destruct (frame_running_pre_v c s tick dt cleanup ops Hok Erun Hnd) as [Hok3 [Hev3 [Hrun3 [Hlr3 [Hsame3 Hp3]]]]].
    cbv zeta in Hok3, Hev3, Hrun3, Hlr3, Hsame3, Hp3.
    set (s2 := if cleanup then cleanup_acks c (receive_acks (with_time_tick s tick dt))
               else receive_acks (with_time_tick s tick dt)) in *.
    set (s3 := fold_left apply_sop ops s2) in *.
    cbv zeta in H. fold s2 in H. fold s3 in H. rewrite Hrun3 in H. set (s3' := buffer_removals s3) in *.
    assert (Hsig3 : auth_sig s3' = auth_sig s) by (apply auth_sig_keep; exact Hsame3).
    assert (Hnd3 : NoDup (map sc_slot (sv_clients s3'))) by (rewrite (cl_keep_slots _ _ Hsame3); exact Hnd).
    destruct (sv_dirty s3') eqn:Ed.
    + rewrite send_replication_eq in H. cbn [bind] in H. injection H as <- <-. cbn [fo_clients].
      set (rs := map (client_result_pure c s3' parts) (sv_clients s3')) in *.
      assert (Hone : forall cl, In cl (sv_clients s3') ->
                sc_slot (fst (client_result_pure c s3' parts cl)) = sc_slot cl /\
                sc_authorized (fst (client_result_pure c s3' parts cl)) = sc_authorized cl).
      { intros cl Hin. unfold client_result_pure. destruct (sc_authorized cl) eqn:Ea; cbn [fst].
        - unfold sfc_pure. cbn. auto.
        - split; [reflexivity|exact Ea]. }
      assert (Hsig4 : auth_sig (set_last_running (set_after_send s3' (map fst rs) (sv_now s3'))) = auth_sig s).
      { rewrite <- Hsig3. unfold auth_sig. cbn [set_last_running set_after_send sv_clients]. unfold rs. rewrite !map_map.
        apply map_ext_in. intros cl Hin. destruct (Hone cl Hin) as (-> & ->). reflexivity. }
      split; [change (sv_running s3 = true); exact Hrun3|split; [|split; [|split; [|split; [|split]]]]].
      * intros slot Hr. apply has_rec_sig. rewrite <- Hsig4. apply has_rec_sig. exact Hr.
      * intros _. exact Hsig4.
      * unfold rs. rewrite outs_of_slots. apply NoDup_map_filter. exact Hnd3.
      * intros o Ho. unfold outs_of in Ho. apply in_flat_map in Ho. destruct Ho as [r [Hr Ho]].
        unfold rs in Hr. apply in_map_iff in Hr. destruct Hr as [cl [<- Hcl0]].
        unfold client_result_pure in Ho. destruct (sc_authorized cl) eqn:Ea; [|destruct Ho].
        cbn [snd] in Ho. destruct Ho as [<- | []]. cbn [sfc_pure snd co_slot].
        exists (fst (client_result_pure c s3' parts cl)). split.
        -- cbn [set_last_running set_after_send sv_clients]. unfold rs. rewrite map_map. apply in_map_iff. exists cl. auto.
        -- destruct (Hone cl Hcl0) as (A & B). split; [exact A|congruence].
      * intros o u Ho Hu. unfold outs_of in Ho. apply in_flat_map in Ho. destruct Ho as [r [Hr Ho]].
        unfold rs in Hr. apply in_map_iff in Hr. destruct Hr as [cl [<- Hcl0]].
        unfold client_result_pure in Ho. destruct (sc_authorized cl) eqn:Ea; [|destruct Ho].
        cbn [snd] in Ho. destruct Ho as [<- | []]. cbn [sfc_pure snd co_update] in Hu.
        destruct (sfc_has_upd s3' (sv_now s3') cl); [|discriminate]. inversion Hu; subst u.
        reflexivity.
      * discriminate.
    + cbn [bind] in H. injection H as <- <-. cbn [fo_clients].
      split; [exact Hrun3|].
      split; [intros slot Hr; apply has_rec_sig; rewrite <- Hsig3; apply has_rec_sig; exact Hr|].
      split; [intros _; exact Hsig3|].
      split; [constructor|]. split; [intros o []|]. split; [intros o u []|discriminate].
  - set (s1 := with_time_tick s tick dt) in *.
    assert (Hb1 : srv_base_v s1) by (apply (srv_base_v_ext s); try reflexivity; exact (proj1 Hok)).
    destruct (ops_any_v ops s1 Hb1 Hnd) as [Hb3 [Hfl3 Hsame3]]. cbv zeta in Hb3, Hfl3, Hsame3.
    set (s3 := fold_left apply_sop ops s1) in *.
    destruct Hfl3 as [G1 _]. change (sv_running s1) with (sv_running s) in G1.
    rewrite G1, Erun in H. cbn [bind] in H. injection H as <- <-. cbn [fo_clients].
    assert (Hslots3 : map sc_slot (sv_clients s3) = map sc_slot (sv_clients s)) by exact (cl_keep_slots _ _ Hsame3).
    split; [|split; [|split; [discriminate|split; [constructor|split; [intros o []|split; [intros o u []|reflexivity]]]]]].
    + destruct (sv_last_running s3); cbn; rewrite G1; exact Erun.
    + intros slot Hr. apply has_rec_slots in Hr. apply has_rec_slots. destruct (sv_last_running s3); [destruct Hr|].
      change (In slot (map sc_slot (sv_clients s3))) in Hr. rewrite Hslots3 in Hr. exact Hr.
Qed.


Lemma server_frame_muts_g c g tick dt (cleanup : bool) ops parts s' fo lt :
  ginv_v g -> upd_ticks_ok lt (g_srv g) ->
  server_frame c (g_srv g) tick dt cleanup ops parts = Ok (s', fo) ->
  (forall o m, In o (fo_clients fo) -> In m (co_mutates o) ->
     m_tick m = sv_tick s' /\
     match co_update o with
     | Some u => m_upd_tick m = u_tick u
     | None => forall t, lt (co_slot o) = Some t -> m_upd_tick m = t
     end /\
     exists cl', In cl' (sv_clients s') /\ sc_slot cl' = co_slot o /\ sc_authorized cl' = true /\
       forall e comps, In (e, comps) (m_body m) -> kinds_sub (map fst comps) (kinds_of (struct_vis s' cl') e)) /\
  (forall cl', In cl' (sv_clients s') -> sc_authorized cl' = true -> sv_running (g_srv g) = true ->
     match upd_for (sc_slot cl') (fo_clients fo) with
     | Some u => ct_update_tick (sc_ticks cl') = u_tick u
     | None => forall t, lt (sc_slot cl') = Some t -> ct_update_tick (sc_ticks cl') = t
     end).
Proof.
  intros [Hok Hnd Hidle Hcl Hdom] Hut H. set (s := g_srv g) in *.
  unfold server_frame in H. change (sv_running (with_time_tick s tick dt)) with (sv_running s) in H.
  destruct (sv_running s) eqn:Erun.
  - destruct (frame_running_pre_v c s tick dt cleanup ops Hok Erun Hnd) as [Hok3 [Hev3 [Hrun3 [Hlr3 [Hsame3 Hp3]]]]].
    cbv zeta in Hok3, Hev3, Hrun3, Hlr3, Hsame3, Hp3.
    set (s2 := if cleanup then cleanup_acks c (receive_acks (with_time_tick s tick dt))
               else receive_acks (with_time_tick s tick dt)) in *.
    set (s3 := fold_left apply_sop ops s2) in *.
    cbv zeta in H. fold s2 in H. fold s3 in H. rewrite Hrun3 in H. set (s3' := buffer_removals s3) in *.
    assert (Hut3 : upd_ticks_ok lt s3').
    { apply (upd_ticks_same lt s3); [reflexivity|]. apply ops_upd_ticks_g. unfold s2.
      destruct cleanup; [apply cleanup_acks_upd_ticks|]; apply receive_acks_upd_ticks;
        (apply (upd_ticks_same lt s); [reflexivity|exact Hut]). }
    assert (Hnd3 : NoDup (map sc_slot (sv_clients s3'))) by (rewrite (cl_keep_slots _ _ Hsame3); exact Hnd).
    assert (Hwf3 : ents_wf s3') by exact (sb_wf _ (proj1 Hok3)).
    assert (Hleg3 : forall cl3, In cl3 (sv_clients s3') -> sc_authorized cl3 = true ->
              match sc_vis cl3 with Some v => vis_legal v | None => True end).
    { intros cl3 Hin Ha. destruct (Forall2_In_r _ _ _ _ Hsame3 Hin) as [cl [Hcl0 Hs]].
      exact (legal_of_client_inv_v s (g_sent g) cl cl3 (Hcl cl Hcl0) Hs Ha). }
    destruct (sv_dirty s3') eqn:Ed.
    + rewrite send_replication_eq in H. cbn [bind] in H. injection H as <- <-. cbn [fo_clients].
      set (rs := map (client_result_pure c s3' parts) (sv_clients s3')) in *.
      set (sfin := set_last_running (set_after_send s3' (map fst rs) (sv_now s3'))).
      assert (Hsfc : forall cl3, In cl3 (sv_clients s3') -> sc_authorized cl3 = true ->
                let P := sfc_pure c s3' (sv_now s3') cl3 (part_for parts cl3) in
                (forall m, In m (co_mutates (snd P)) ->
                   m_tick m = sv_tick s3' /\
                   m_upd_tick m = (if sfc_has_upd s3' (sv_now s3') cl3 then sv_tick s3' else ct_update_tick (sc_ticks cl3)) /\
                   forall e comps, In (e, comps) (m_body m) -> kinds_sub (map fst comps) (kinds_of (struct_vis s3' (fst P)) e)) /\
                co_update (snd P) = (if sfc_has_upd s3' (sv_now s3') cl3 then Some (sfc_upd s3' (sv_now s3') cl3) else None) /\
                co_slot (snd P) = sc_slot cl3 /\
                ct_update_tick (sc_ticks (fst P)) = (if sfc_has_upd s3' (sv_now s3') cl3 then sv_tick s3' else ct_update_tick (sc_ticks cl3))).
      { intros cl3 Hin Ha P. pose proof (send_for_client_eq c s3' (sv_now s3') cl3 (part_for parts cl3)) as Hsend. fold P in Hsend.
        destruct P as [cl' out] eqn:EP. cbn [fst snd].
        destruct (sfc_result _ _ _ _ _ _ _ Hsend) as [Ecl Eout].
        destruct (sfc_ticks3_fields s3' (sv_now s3') cl3) as (_ & _ & _ & T3).
        split; [|split; [rewrite Eout; reflexivity|split; [rewrite Eout; reflexivity|]]].
        - intros m Hm. pose proof Hm as Hm0. rewrite Eout in Hm. cbn [co_mutates] in Hm. apply mut_msgs_header in Hm.
          destruct Hm as (M1 & M2 & _ & _). split; [exact M2|]. split; [rewrite M1; exact T3|].
          intros e comps Hb.
          destruct (proj2 (changes_only_visible c s3' (sv_now s3') cl3 (part_for parts cl3) cl' out Hsend) m e comps Hm0 Hb)
            as (Hst & _ & x & madd & Hrep & Hk).
          assert (Hget : repl_get s3' e = Some x) by (apply repl_get_spec; [exact Hwf3|exists madd; exact Hrep]).
          assert (Hv : vis_visible (sc_vis cl') e = true).
          { rewrite (visible_after_tick c s3' (sv_now s3') cl3 (part_for parts cl3) cl' out e (Hleg3 cl3 Hin Ha) Hsend).
            apply vis_visible_state. exact Hst. }
          unfold kinds_of, struct_vis. rewrite al_get_vis_filter, Hv, (al_get_struct_of s3' e Hwf3), Hget. cbn [option_map].
          intros k Hin0. apply in_map_iff in Hin0. destruct Hin0 as [[k0 v0] [Ek Hkv]]. cbn in Ek. subst k0.
          destruct (Hk k v0 Hkv) as [comp [Hc _]]. apply in_map_iff. exists (k, comp). auto.
        - rewrite Ecl. cbn [sc_ticks]. destruct (mut_ticks_fields (sv_now s3') (sv_elapsed s3') (sfc_parts c s3' (sv_now s3') cl3 (part_for parts cl3))
                                             (sfc_ticks3 s3' (sv_now s3') cl3)) as (_ & M & _). rewrite M. exact T3. }
      split.
      * intros o m Ho Hm. unfold outs_of in Ho. apply in_flat_map in Ho. destruct Ho as [r [Hr Ho]].
        unfold rs in Hr. apply in_map_iff in Hr. destruct Hr as [cl3 [<- Hcl3]].
        unfold client_result_pure in Ho. destruct (sc_authorized cl3) eqn:Ea; [|destruct Ho].
        cbn [snd] in Ho. destruct Ho as [<- | []].
        destruct (Hsfc cl3 Hcl3 Ea) as (F1 & F2 & F3 & _). cbv zeta in F1, F2, F3.
        destruct (F1 m Hm) as (G1 & G2 & G3). split; [exact G1|]. split.
        -- rewrite F2, F3. destruct (sfc_has_upd s3' (sv_now s3') cl3); [rewrite G2; reflexivity|].
           intros t Hl. rewrite G2. exact (Hut3 cl3 Hcl3 Ea t Hl).
        -- exists (fst (sfc_pure c s3' (sv_now s3') cl3 (part_for parts cl3))).
           split; [|split; [rewrite F3; reflexivity|split; [reflexivity|]]].
           ++ cbn [set_last_running set_after_send sv_clients]. unfold rs. rewrite map_map. apply in_map_iff.
              exists cl3. split; [|exact Hcl3]. unfold client_result_pure. rewrite Ea. reflexivity.
           ++ intros e comps Hb. rewrite (struct_vis_ext s3' sfin _ eq_refl). exact (G3 e comps Hb).
      * intros cl' Hin Ha _. cbn [set_last_running set_after_send sv_clients] in Hin. fold rs in Hin. unfold rs in Hin.
        rewrite map_map in Hin. apply in_map_iff in Hin. destruct Hin as [cl3 [<- Hcl3]].
        assert (Ea : sc_authorized cl3 = true).
        { unfold client_result_pure in Ha. destruct (sc_authorized cl3) eqn:Ea0; [reflexivity|]. cbn [fst] in Ha. congruence. }
        assert (Efst : fst (client_result_pure c s3' parts cl3) = fst (sfc_pure c s3' (sv_now s3') cl3 (part_for parts cl3)))
          by (unfold client_result_pure; rewrite Ea; reflexivity).
        rewrite Efst. destruct (Hsfc cl3 Hcl3 Ea) as (_ & F2 & F3 & F4). cbv zeta in F2, F3, F4.
        change (sc_slot (fst (sfc_pure c s3' (sv_now s3') cl3 (part_for parts cl3)))) with (sc_slot cl3).
        unfold rs. change (sv_clients s3) with (sv_clients s3').
        rewrite (upd_for_outs c s3' parts _ cl3 Hnd3 Hcl3 Ea), F2, F4.
        destruct (sfc_has_upd s3' (sv_now s3') cl3); [reflexivity|]. intros t Hl. exact (Hut3 cl3 Hcl3 Ea t Hl).
    + cbn [bind] in H. injection H as <- <-. cbn [fo_clients]. split; [intros o m []|].
      intros cl' Hin Ha _. cbn [upd_for find]. intros t Hl. exact (Hut3 cl' Hin Ha t Hl).
  - set (s1 := with_time_tick s tick dt) in *.
    assert (G1 : sv_running (fold_left apply_sop ops s1) = false).
    { destruct (ops_flags ops s1) as (B1 & _). rewrite B1. exact Erun. }
    rewrite G1 in H. cbn [bind] in H. injection H as <- <-. cbn [fo_clients].
    split; [intros o m []|]. intros cl' _ _ Hr. discriminate.
Qed.


(* ================================================================== *)
(* 1. what the run is assumed to do with pre-spawn mappings           *)
(* ================================================================== *)

(* the client state to which `client_frame` applies the client operations *)
Definition frame_pre_cops (c : client) : res client :=
  match cl_status c with
  | Connected => let* (c2, _) := apply_replication c in Ok c2
  | Disconnected => Ok (if cl_last_not_disconnected c then client_reset c else c)
  end.

(* a client frame: the mappings of the inbox are harmless when applied, the client operations are harmless *)
Definition cframe_ok (cl : client) (ops : list cop) : Prop :=
  (cl_status cl = Connected -> inbox_maps_ok cl (cl_inbox_upd cl)) /\
  (forall c2, frame_pre_cops cl = Ok c2 -> cops_safe c2 ops = true).

(* a server frame: every mapped entity is sent in the changes array of the same message *)
Definition sframe_ok (y : sys) (tick : bool) (dt : N) (cleanup : bool) (ops : list sop) (parts : list (N * partition)) : Prop :=
  forall s' fo, server_frame (y_cfg y) (y_server y) tick dt cleanup ops parts = Ok (s', fo) ->
    forall o u, In o (fo_clients fo) -> co_update o = Some u -> maps_in_changes u.

Definition step_maps_ok (y : sys) (st : step) : Prop :=
  match st with
  | StCFrame slot ops => forall cl, al_get slot (y_clients y) = Some cl -> cframe_ok cl ops
  | StSFrame tick dt cleanup ops parts => sframe_ok y tick dt cleanup ops parts
  | _ => True
  end.

Fixpoint run_maps_ok (y : sys) (script : list step) : Prop :=
  match script with
  | [] => True
  | st :: r => step_maps_ok y st /\ forall y' o, sys_step y st = Ok (y', o) -> run_maps_ok y' r
  end.

Lemma run_maps_ok_snoc script : forall y st,
  run_maps_ok y (script ++ [st]) <-> run_maps_ok y script /\ (forall y1, run y script = Ok y1 -> step_maps_ok y1 st).
Proof.
  induction script as [|a t IH]; intros y st; cbn [app run_maps_ok run].
  - split.
    + intros [H _]. split; [exact I|]. intros y1 E. inversion E; subst. exact H.
    + intros [_ H]. split; [apply H; reflexivity|intros; exact I].
  - split.
    + intros [H1 H2]. split; [split; [exact H1|]|].
      * intros y' o E. exact (proj1 (proj1 (IH y' st) (H2 y' o E))).
      * intros y1 E. destruct (sys_step y a) as [[y' o]| |] eqn:Es; cbn [bind] in E; try discriminate.
        exact (proj2 (proj1 (IH y' st) (H2 y' o eq_refl)) y1 E).
    + intros [[H1 H2] H3]. split; [exact H1|]. intros y' o E. apply (IH y' st). split; [exact (H2 y' o E)|].
      intros y1 E1. apply H3. rewrite E. cbn [bind]. exact E1.
Qed.

Definition script_okg (script : list step) : bool := legal script && sessions_ok script.

(* ---------- the same as a boolean, computed along the run ---------- *)

Definition map_step_okb (c : client) (e pc : N) : bool :=
  match al_get e (cl_s2c c) with
  | Some _ => false
  | None =>
    match find (has_pre pc) (cl_ents c) with
    | Some (cid, x) =>
      if ce_alive x then negb (ce_marker x) && match al_get cid (cl_c2s c) with None => true | Some _ => false end
      else true
    | None => true
    end
  end.

Fixpoint maps_okb (c : client) (maps : list (N * N)) : bool :=
  match maps with
  | [] => true
  | (e, pc) :: t => map_step_okb c e pc && maps_okb (apply_entity_mapping c e pc) t
  end.

Fixpoint inbox_maps_okb (c : client) (us : list update_msg) : bool :=
  match us with
  | [] => true
  | u :: t => maps_okb (maps_pre c u) (u_maps u) &&
              match apply_update_message c u with Ok c' => inbox_maps_okb c' t | _ => true end
  end.

Definition maps_in_changesb (u : update_msg) : bool :=
  forallb (fun e => mem_N e (map fst (u_changes u))) (map fst (u_maps u)).

Definition cframe_okb (cl : client) (ops : list cop) : bool :=
  match cl_status cl with Connected => inbox_maps_okb cl (cl_inbox_upd cl) | Disconnected => true end &&
  match frame_pre_cops cl with Ok c2 => cops_safe c2 ops | _ => true end.

Definition sframe_okb (y : sys) (tick : bool) (dt : N) (cleanup : bool) (ops : list sop) (parts : list (N * partition)) : bool :=
  match server_frame (y_cfg y) (y_server y) tick dt cleanup ops parts with
  | Ok (_, fo) => forallb (fun o => match co_update o with Some u => maps_in_changesb u | None => true end) (fo_clients fo)
  | _ => true
  end.

Definition step_maps_okb (y : sys) (st : step) : bool :=
  match st with
  | StCFrame slot ops => match al_get slot (y_clients y) with Some cl => cframe_okb cl ops | None => true end
  | StSFrame tick dt cleanup ops parts => sframe_okb y tick dt cleanup ops parts
  | _ => true
  end.

Fixpoint run_maps_okb (y : sys) (script : list step) : bool :=
  match script with
  | [] => true
  | st :: r => step_maps_okb y st && match sys_step y st with Ok (y', _) => run_maps_okb y' r | _ => true end
  end.

Lemma map_step_okb_sound c e pc : map_step_okb c e pc = true -> map_step_ok c e pc.
Proof.
  unfold map_step_okb, map_step_ok. destruct (al_get e (cl_s2c c)); [discriminate|]. intros H. split; [reflexivity|].
  intros cid x Hf Ha. rewrite Hf, Ha in H. apply andb_prop in H. destruct H as [H1 H2].
  split; [destruct (ce_marker x); [discriminate|reflexivity]|]. destruct (al_get cid (cl_c2s c)); [discriminate|reflexivity].
Qed.

Lemma maps_okb_sound maps : forall c, maps_okb c maps = true -> maps_ok c maps.
Proof.
  induction maps as [|[e pc] t IH]; intros c H; cbn [maps_okb maps_ok] in *; [exact I|].
  apply andb_prop in H. destruct H as [H1 H2]. split; [exact (map_step_okb_sound c e pc H1)|exact (IH _ H2)].
Qed.

Lemma inbox_maps_okb_sound us : forall c, inbox_maps_okb c us = true -> inbox_maps_ok c us.
Proof.
  induction us as [|u t IH]; intros c H; cbn [inbox_maps_okb inbox_maps_ok] in *; [exact I|].
  apply andb_prop in H. destruct H as [H1 H2]. split; [exact (maps_okb_sound _ _ H1)|].
  intros c' E. rewrite E in H2. exact (IH c' H2).
Qed.

Lemma maps_in_changesb_sound u : maps_in_changesb u = true -> maps_in_changes u.
Proof.
  unfold maps_in_changesb, maps_in_changes. rewrite forallb_forall. intros H e He. apply mem_N_In. exact (H e He).
Qed.

Lemma cframe_okb_sound cl ops : cframe_okb cl ops = true -> cframe_ok cl ops.
Proof.
  unfold cframe_okb, cframe_ok. intros H. apply andb_prop in H. destruct H as [H1 H2]. split.
  - intros Es. rewrite Es in H1. exact (inbox_maps_okb_sound _ _ H1).
  - intros c2 E. rewrite E in H2. exact H2.
Qed.

Lemma sframe_okb_sound y tick dt cleanup ops parts : sframe_okb y tick dt cleanup ops parts = true -> sframe_ok y tick dt cleanup ops parts.
Proof.
  unfold sframe_okb, sframe_ok. intros H s' fo E o u Ho Hu. rewrite E in H. rewrite forallb_forall in H.
  specialize (H o Ho). rewrite Hu in H. exact (maps_in_changesb_sound u H).
Qed.

Lemma step_maps_okb_sound y st : step_maps_okb y st = true -> step_maps_ok y st.
Proof.
  destruct st; cbn [step_maps_okb step_maps_ok]; auto.
  - apply sframe_okb_sound.
  - intros H cl Hc. rewrite Hc in H. exact (cframe_okb_sound cl ops H).
Qed.

Theorem run_maps_okb_sound script : forall y, run_maps_okb y script = true -> run_maps_ok y script.
Proof.
  induction script as [|st t IH]; intros y H; cbn [run_maps_okb run_maps_ok] in *; [exact I|].
  apply andb_prop in H. destruct H as [H1 H2]. split; [exact (step_maps_okb_sound y st H1)|].
  intros y' o E. rewrite E in H2. exact (IH y' H2).
Qed.

(* without `SMap` operations no update message carries a mapping (the invariant `nomaps_srv` of
   Repl/StructE2ESess_proofs.v); the hypothesis is then about the client operations only, which that development
   discharges with the invariant "pre-spawned entities are never mapped" *)

(* ================================================================== *)
(* 2. the invariant of a whole-system run                             *)
(* ================================================================== *)

Section MAPS.
  Variables (cfg0 : cfg) (nclients : N).

  Local Notation reached_s := (StructE2ESess_proofs.reached_s cfg0 nclients).
  Local Notation snaps_v := (StructE2ESess_proofs.snaps_v cfg0 nclients).
  Local Notation slink := (StructE2ESess_proofs.slink cfg0 nclients).
  Local Notation reached_s_mono := (StructE2ESess_proofs.reached_s_mono cfg0 nclients).
  Local Notation reached_s_last := (StructE2ESess_proofs.reached_s_last cfg0 nclients).
  Local Notation snaps_v_mono := (StructE2ESess_proofs.snaps_v_mono cfg0 nclients).
  Local Notation slink_mono := (StructE2ESess_proofs.slink_mono cfg0 nclients).
  Local Notation slink_weaken := (StructE2ESess_proofs.slink_weaken cfg0 nclients).
  Local Notation deliver_acks_fold_v := (StructE2ESess_proofs.deliver_acks_fold_v cfg0).

  (* the client side of a connection: [applied] are the update messages the client has applied, [pend]
     (inbox ++ queue) those sent and not yet applied, [lmut] the queued mutate messages *)
  Record cside_m (c : client) (applied pend : list update_msg) (lmut : list mutate_msg) : Prop := mkCSideM {
    cm_rel : srel c (fold_left abs_apply applied []);
    cm_mapch : forall u, In u pend -> maps_in_changes u;
    cm_tick : applied <> [] -> cl_upd_tick c = u_tick (last applied dflt_upd);
    cm_small : forall u, In u (applied ++ pend) -> small_tick (u_tick u);
    cm_incr : ticks_incr (applied ++ pend);
    cm_hist : ent_hist_ok applied c;
    cm_muts : forall m, In m (lmut ++ cl_inbox_mut c ++ cl_buffered c) -> mmsg_ok (applied ++ pend) m;
    cm_first : cl_last_not_disconnected c = false -> applied = [] /\ cl_buffered c = []
  }.

  Definition inv_live_m (script : list step) (s : server) (gs : list (N * structure)) (slot : N)
             (lupd : list update_msg) (lmut : list mutate_msg) (c : client) : Prop :=
    (has_rec s slot <-> cl_status c = Connected) /\
    (cl_status c = Disconnected -> clean c /\ lupd = [] /\ lmut = []) /\
    (cl_status c = Connected -> sv_running s = true /\
       exists applied, cside_m c applied (cl_inbox_upd c ++ lupd) lmut /\
                       slink script s gs slot (applied ++ cl_inbox_upd c ++ lupd) (lmut ++ cl_inbox_mut c ++ cl_buffered c)).

  (* a connected client whose server was stopped: what it has applied and what it may still receive (the
     server may be started again without a reset) is not a prefix of what the server believes it was sent;
     only what a client frame needs to keep the client invariants is recorded *)
  Definition stale_conn_m (c : client) (lupd : list update_msg) (lmut : list mutate_msg) : Prop :=
    (forall u, In u (cl_inbox_upd c ++ lupd) -> maps_in_changes u) /\
    (forall u, In u (cl_inbox_upd c ++ lupd) -> small_tick (u_tick u)) /\
    (forall m, In m (lmut ++ cl_inbox_mut c ++ cl_buffered c) -> small_tick (m_tick m)) /\
    (cl_last_not_disconnected c = false -> srel c [] /\ cl_buffered c = []).

  Definition inv_stale_m (s : server) (slot : N) (lupd : list update_msg) (lmut : list mutate_msg) (c : client) : Prop :=
    (cl_status c = Disconnected -> clean c /\ ~ has_rec s slot /\ lupd = [] /\ lmut = []) /\
    (cl_status c = Connected -> stale_conn_m c lupd lmut).

  Definition mode_inv_m (script : list step) (m : smode) (s : server) (gs : list (N * structure)) (slot : N)
             (lupd : list update_msg) (lmut : list mutate_msg) (c : client) : Prop :=
    match m with
    | MClean => inv_clean s slot lupd lmut c
    | MLive => inv_live_m script s gs slot lupd lmut c
    | MLeft => inv_left s slot lupd lmut c
    | MStale => inv_stale_m s slot lupd lmut c
    end.

  Record slot_inv_m (script : list step) (m : smode) (s : server) (gs : list (N * structure)) (slot : N)
         (lupd : list update_msg) (lmut : list mutate_msg) (c : client) : Prop := mkSlotInvM {
    gs_cs : cs_inv c;
    gs_hs : hist_small c;
    gs_mode : mode_inv_m script m s gs slot lupd lmut c
  }.

  Record g_inv (script : list step) (y : sys) (gs : list (N * structure)) : Prop := mkGInv2 {
    gi2_cfg : y_cfg y = cfg0;
    gi2_ginv : ginv_v (mkG (y_server y) gs);
    gi2_tick : sv_tick (y_server y) <= tick_frames script;
    gi2_slots : forall slot c, al_get slot (y_clients y) = Some c ->
               slot_inv_m script (mode_of script slot) (y_server y) gs slot
                        (l_upd (get_link y slot)) (l_mut (get_link y slot)) c
  }.

  (* ---------- monotonicity ---------- *)

  (* the invariant of a slot after a step that ends no session of the slot and leaves its client and its
     queues alone: the mode is the same *)
  Lemma mode_inv_mono_m script st m s s' gs gs' slot lupd lmut c :
    ends_session slot st = false ->
    (has_rec s' slot <-> has_rec s slot) -> sent_of slot gs' = sent_of slot gs ->
    sv_tick s' = sv_tick s -> sv_dirty s' = sv_dirty s -> (sv_running s = true -> sv_running s' = true) ->
    (has_auth s slot -> has_auth s' slot) ->
    (has_auth s slot ->
       forall cl', In cl' (sv_clients s') -> sc_slot cl' = slot -> sc_authorized cl' = true ->
       exists cl, In cl (sv_clients s) /\ sc_slot cl = slot /\ sc_authorized cl = true /\ sc_ticks cl = sc_ticks cl') ->
    mode_inv_m script m s gs slot lupd lmut c -> mode_inv_m (script ++ [st]) m s' gs' slot lupd lmut c.
  Proof.
    intros He Hr E Et Ed Hrun Ha Hs H. destruct m; cbn [mode_inv_m] in *.
    - destruct H as (A & B & C & D). split; [exact A|]. split; [exact B|]. split; [rewrite Hr; exact C|exact D].
    - destruct H as (A & B & C). split; [rewrite Hr; exact A|]. split; [exact B|].
      intros Hc. destruct (C Hc) as [R [applied [C1 C2]]]. split; [auto|]. exists applied. split; [exact C1|].
      apply (slink_mono script st s s' gs gs'); auto.
    - destruct H as (A & B & C & D). split; [exact A|]. split; [exact B|]. split; [rewrite Hr; exact C|exact D].
    - destruct H as (C & D). split; [|exact D].
      intros Hc. destruct (C Hc) as (C1 & C2 & C3). split; [exact C1|]. split; [rewrite Hr; exact C2|exact C3].
  Qed.

  Lemma slot_inv_mono_m script st m s s' gs gs' slot lupd lmut c :
    ends_session slot st = false ->
    (has_rec s' slot <-> has_rec s slot) -> sent_of slot gs' = sent_of slot gs ->
    sv_tick s' = sv_tick s -> sv_dirty s' = sv_dirty s -> (sv_running s = true -> sv_running s' = true) ->
    (has_auth s slot -> has_auth s' slot) ->
    (has_auth s slot ->
       forall cl', In cl' (sv_clients s') -> sc_slot cl' = slot -> sc_authorized cl' = true ->
       exists cl, In cl (sv_clients s) /\ sc_slot cl = slot /\ sc_authorized cl = true /\ sc_ticks cl = sc_ticks cl') ->
    slot_inv_m script m s gs slot lupd lmut c -> slot_inv_m (script ++ [st]) m s' gs' slot lupd lmut c.
  Proof.
    intros He Hr E Et Ed Hrun Ha Hs [H1 H3 H4]. constructor; [exact H1|exact H3|].
    exact (mode_inv_mono_m script st m s s' gs gs' slot lupd lmut c He Hr E Et Ed Hrun Ha Hs H4).
  Qed.

  (* ---------- changes of mode ---------- *)

  Lemma clean_to_live_m script s gs slot lupd lmut c : inv_clean s slot lupd lmut c -> inv_live_m script s gs slot lupd lmut c.
  Proof.
    intros (A & B & C & D & E). split; [|split].
    - split; [intros Hr; contradiction|intros Hc; congruence].
    - intros _. auto.
    - intros Hc. congruence.
  Qed.

  (* ---------- a step that leaves clients, queues and client records alone ---------- *)

  Lemma g_same script st y gs y' :
    g_inv script y gs -> is_tick_frame st = false ->
    (forall slot m, mode_step slot m st = m) -> (forall slot, ends_session slot st = false) ->
    y_cfg y' = y_cfg y -> (forall slot, al_get slot (y_clients y') = al_get slot (y_clients y)) ->
    (forall slot, l_upd (get_link y' slot) = l_upd (get_link y slot)) ->
    (forall slot, l_mut (get_link y' slot) = l_mut (get_link y slot)) ->
    sv_clients (y_server y') = sv_clients (y_server y) ->
    sv_tick (y_server y') = sv_tick (y_server y) -> sv_dirty (y_server y') = sv_dirty (y_server y) ->
    sv_running (y_server y') = sv_running (y_server y) ->
    ginv_v (mkG (y_server y') gs) -> g_inv (script ++ [st]) y' gs.
  Proof.
    intros [H1 H2 H4 H6] Hnt Hmode Hends E1 E2 E3 E3m E4 Et Ed Er Hg. constructor.
    - congruence.
    - exact Hg.
    - rewrite tick_frames_snoc, Hnt, Et. exact H4.
    - intros slot c Hc. rewrite E2 in Hc. rewrite E3, E3m, mode_of_snoc, Hmode.
      apply (slot_inv_mono_m script st _ (y_server y) _ gs gs); try assumption; try reflexivity.
      + apply Hends.
      + split; apply has_rec_clients; [exact E4|symmetry; exact E4].
      + rewrite Er. auto.
      + apply has_auth_clients. exact E4.
      + intros _. apply same_records. exact E4.
      + exact (H6 slot c Hc).
  Qed.

  (* ---------- the initial state ---------- *)

  Lemma g_init : g_inv [] (sys_init cfg0 nclients) [].
  Proof.
    constructor; try reflexivity.
    - exact ginit_inv_v.
    - intros slot c Hc. cbn [sys_init y_clients] in Hc. apply al_get_map_const in Hc. subst c.
      assert (Hl : get_link (sys_init cfg0 nclients) slot = link_empty).
      { unfold get_link. cbn [sys_init y_links].
        destruct (al_get slot (map (fun i : N => (i, link_empty)) (map N.of_nat (seq 0 (N.to_nat nclients))))) as [l|] eqn:E; [|reflexivity].
        apply al_get_map_const in E. exact E. }
      rewrite Hl. constructor.
      + apply cs_inv_init.
      + intros cid x h H. discriminate.
      + cbn. split; [reflexivity|]. split; [split; [intros e; exact I|auto]|]. split; [intros [cl [[] _]]|auto].
  Qed.

  (* ---------- StStart ---------- *)

  Lemma g_start script y gs : g_inv script y gs ->
    g_inv (script ++ [StStart]) (set_server y (set_running (y_server y) true)) gs.
  Proof.
    intros H.
    destruct H as [H1 H2 H4 H6]. constructor.
    - exact H1.
    - exact (gstep_inv_v cfg0 (mkG (y_server y) gs) GStart _ H2 eq_refl).
    - rewrite tick_frames_snoc. exact H4.
    - intros slot c Hc. rewrite mode_of_snoc. cbn [mode_step].
      apply (slot_inv_mono_m script StStart _ (y_server y) _ gs gs); try reflexivity; try tauto.
      + intros _. apply same_records. reflexivity.
      + exact (H6 slot c Hc).
  Qed.

  (* ---------- StStop ---------- *)

  (* when the server stops, the links are emptied *)
  Lemma cside_stale_m c applied lupd lmut : cside_m c applied (cl_inbox_upd c ++ lupd) lmut -> stale_conn_m c [] [].
  Proof.
    intros [C1 C2 C3 C4 C5 C6 C7 C8].
    split; [intros u Hu; rewrite app_nil_r in Hu; apply C2; apply in_or_app; left; exact Hu|]. split; [|split].
    - intros u Hu. rewrite app_nil_r in Hu. apply C4. apply in_or_app. right. apply in_or_app. left. exact Hu.
    - intros m Hm. cbn [app] in Hm. apply (C7 m). apply in_or_app. right. exact Hm.
    - intros Hl. destruct (C8 Hl) as [-> B]. split; [exact C1|exact B].
  Qed.

  Lemma stale_conn_weaken_m c lupd lmut : stale_conn_m c lupd lmut -> stale_conn_m c [] [].
  Proof.
    intros (A & B & C & D).
    split; [intros u Hu; rewrite app_nil_r in Hu; apply A; apply in_or_app; left; exact Hu|]. split; [|split; [|exact D]].
    - intros u Hu. rewrite app_nil_r in Hu. apply B. apply in_or_app. left. exact Hu.
    - intros m Hm. cbn [app] in Hm. apply C. apply in_or_app. right. exact Hm.
  Qed.

  Lemma g_stop script y gs y' o : g_inv script y gs -> sys_step y StStop = Ok (y', o) -> g_inv (script ++ [StStop]) y' gs.
  Proof.
    intros [H1 H2 H4 H6] H. cbn [sys_step] in H. inversion H; subst o. clear H.
    match goal with H : ?t = y' |- _ => set (y2 := t) in *; assert (Ecfg : y_cfg y2 = y_cfg y) by reflexivity;
      assert (S1 : y_server y2 = set_running (y_server y) false) by reflexivity;
      assert (S3 : y_clients y2 = y_clients y) by reflexivity;
      assert (S4 : forall slot, get_link y2 slot = link_empty)
        by (intros slot; unfold get_link, y2; cbn [y_links set_server]; apply get_link_map_empty);
      clearbody y2; subst y2 end.
    constructor.
    - congruence.
    - rewrite S1. exact (gstep_inv_v cfg0 (mkG (y_server y) gs) GStop _ H2 eq_refl).
    - rewrite S1, tick_frames_snoc. exact H4.
    - intros slot c Hc. rewrite S3 in Hc. rewrite S4, S1. cbn [link_empty l_upd l_mut]. rewrite mode_of_snoc.
      destruct (H6 slot c Hc) as [I1 I3 I4]. constructor; [exact I1|exact I3|].
      assert (Hrec : has_rec (set_running (y_server y) false) slot <-> has_rec (y_server y) slot) by (split; apply has_rec_clients; reflexivity).
      destruct (mode_of script slot); cbn [mode_step mode_inv_m] in *.
      + destruct I4 as (A & B & C & _). split; [exact A|]. split; [exact B|]. rewrite Hrec. auto.
      + destruct I4 as (A & B & C). split.
        * intros Hd. split; [exact (proj1 (B Hd))|]. split; [rewrite Hrec, A; congruence|auto].
        * intros Hcn. destruct (C Hcn) as [_ [applied [C1 _]]]. exact (cside_stale_m c applied _ _ C1).
      + destruct I4 as (A & B & C & _). split; [exact A|]. split; [exact B|]. rewrite Hrec. auto.
      + destruct I4 as (C & D). split.
        * intros Hd. destruct (C Hd) as (C1 & C2 & _). split; [exact C1|]. split; [rewrite Hrec; exact C2|auto].
        * intros Hcn. exact (stale_conn_weaken_m c _ _ (D Hcn)).
  Qed.

  (* ---------- StConnect ---------- *)

  (* a connected client just after the connection *)
  Lemma fresh_connection_m script s gs slot c :
    cs_inv c -> clean c -> sv_running s = true -> sent_of slot gs = [] ->
    exists applied, cside_m c applied (cl_inbox_upd c ++ []) [] /\
                    slink script s gs slot (applied ++ cl_inbox_upd c ++ []) ([] ++ cl_inbox_mut c ++ cl_buffered c).
  Proof.
    intros Hinv (R & B & I & M) Hr Hs. exists []. rewrite I, M, B. cbn [app]. split.
    - constructor.
      + exact R.
      + intros u [].
      + congruence.
      + intros u [].
      + exact ticks_incr_nil.
      + apply ent_hist_nil; assumption.
      + intros m Hm. rewrite M, B in Hm. destruct Hm.
      + intros _. auto.
    - constructor.
      + cbn. symmetry. exact Hs.
      + intros p q E Hp. destruct p; [congruence|discriminate].
      + intros u [].
      + intros m [].
      + congruence.
      + congruence.
  Qed.

  Lemma g_connect script y gs slot0 max y' o :
    g_inv script y gs -> sess_step_ok script (StConnect slot0 max) = true ->
    sys_step y (StConnect slot0 max) = Ok (y', o) ->
    g_inv (script ++ [StConnect slot0 max]) y' (ghost_step_s y gs (StConnect slot0 max)).
  Proof.
    intros Hinv Hs H. pose proof Hinv as [Hcfg Hg Htk Hslots].
    assert (Hnoop : g_inv (script ++ [StConnect slot0 max]) y gs).
    { constructor; [exact Hcfg|exact Hg|rewrite tick_frames_snoc; exact Htk|].
      intros slot c Hc. destruct (mode_connect script slot0 max slot Hs) as [E Hm0]. rewrite E.
      pose proof (slot_inv_mono_m script (StConnect slot0 max) _ (y_server y) (y_server y) gs gs slot _ _ c eq_refl
                    (conj (fun x => x) (fun x => x)) eq_refl eq_refl eq_refl (fun x => x) (fun x => x)
                    (fun _ => same_records _ _ slot eq_refl) (Hslots slot c Hc)) as G.
      destruct (slot0 =? slot) eqn:E0; [|exact G]. assert (slot0 = slot) by lia. subst slot0.
      destruct (Hm0 eq_refl) as [Em|Em]; rewrite Em in G; [|exact G].
      destruct G as [G1 G3 G4]. constructor; [exact G1|exact G3|]. apply clean_to_live_m. exact G4. }
    cbn [sys_step ghost_step_s ghost_step] in *. rewrite Hcfg in *.
    destruct (find_client (y_server y) slot0) as [c0|] eqn:Ef; [inversion H; subst; exact Hnoop|].
    destruct (al_get slot0 (y_clients y)) as [cl|] eqn:Ec; [|inversion H; subst; exact Hnoop].
    destruct (sv_running (y_server y)) eqn:Er; [|inversion H; subst; exact Hnoop].
    inversion H; subst y' o. clear H Hnoop. set (s := y_server y) in *.
    set (s' := connect_client cfg0 s slot0 max).
    pose proof (connect_inv_v cfg0 (mkG s gs) slot0 max Hg) as Hg'. cbn [g_srv g_sent] in Hg'. fold s' in Hg'.
    assert (F1 : exists cnew, sv_clients s' = sv_clients s ++ [cnew] /\ sc_slot cnew = slot0 /\ sc_pending_map cnew = []).
    { unfold s', connect_client. fold s. rewrite Er, Ef. eexists. split; [reflexivity|].
      destruct (cfg_auth cfg0); cbn; auto. }
    destruct F1 as (cnew & F1 & F2 & F3).
    assert (Hnorec : ~ has_rec s slot0) by (intros Hr; apply has_rec_find in Hr; congruence).
    assert (Hsent : forall slot, sent_of slot (sync_sent s' gs []) = sent_of slot gs).
    { intros slot. rewrite (sync_sent_of_slot s gs s' [] slot Hg (gv_slots _ Hg')); [reflexivity| |intros o []].
      intros [c1 [Hin Hc1]]. exists c1. split; [|exact Hc1]. cbn [g_srv]. rewrite F1. apply in_or_app. left. exact Hin. }
    assert (Hflags : sv_tick s' = sv_tick s /\ sv_dirty s' = sv_dirty s /\ sv_running s' = true).
    { unfold s', connect_client. fold s. rewrite Er, Ef. cbn. auto. }
    destruct Hflags as (T1 & T2 & T3).
    constructor.
    - exact Hcfg.
    - exact Hg'.
    - cbn [set_client set_server y_server]. fold s'. rewrite tick_frames_snoc. cbn [is_tick_frame]. rewrite T1. exact Htk.
    - intros slot c Hc. cbn [set_client set_server y_clients y_server] in *.
      change (get_link (set_client (set_server y s') slot0 (set_status cl Connected)) slot) with (get_link y slot).
      destruct (mode_connect script slot0 max slot Hs) as [E Hm0]. rewrite E.
      destruct (N.eq_dec slot slot0) as [->|Hne].
      + rewrite N.eqb_refl. rewrite al_get_insert_same in Hc. inversion Hc; subst c. clear Hc.
        destruct (Hslots slot0 cl Ec) as [O1 O3 O4].
        assert (Hold : cl_status cl = Disconnected /\ clean cl /\ l_upd (get_link y slot0) = [] /\ l_mut (get_link y slot0) = []).
        { destruct (Hm0 eq_refl) as [Em|Em]; rewrite Em in O4; cbn [mode_inv_m] in O4.
          - destruct O4 as (A & B & _ & D & F). auto.
          - destruct O4 as (A & B & _). destruct (status_dec cl) as [Es|Es]; [|exfalso; apply Hnorec; apply A; exact Es].
            destruct (B Es) as (B1 & B2 & B3). auto. }
        destruct Hold as (Es & Hcl & Hlu & Hlm). rewrite Hlu, Hlm.
        assert (Ei : cl_inbox_upd (set_status cl Connected) = cl_inbox_upd cl) by (unfold set_status; rewrite Es; reflexivity).
        assert (Em : cl_inbox_mut (set_status cl Connected) = cl_inbox_mut cl) by (unfold set_status; rewrite Es; reflexivity).
        assert (Hcl' : clean (set_status cl Connected)).
        { destruct Hcl as (R & B & I & M). split; [revert R; apply srel_ext; reflexivity|]. rewrite Ei, Em. auto. }
        constructor.
        * apply cs_inv_set_status. exact O1.
        * revert O3. apply hist_small_ext. reflexivity.
        * cbn [mode_inv_m]. split; [|split].
          -- split; [intros _; reflexivity|]. intros _. exists cnew. split; [rewrite F1; apply in_or_app; right; left; reflexivity|exact F2].
          -- cbn. discriminate.
          -- intros _. split; [exact T3|].
             apply fresh_connection_m; [apply cs_inv_set_status; exact O1|exact Hcl'|exact T3|].
             rewrite Hsent. exact (sent_of_norec_v (mkG s gs) slot0 Hg Hnorec).
      + replace (slot0 =? slot) with false by lia. rewrite al_get_insert_other in Hc by exact Hne.
        refine (slot_inv_mono_m script _ _ s s' gs _ slot _ _ c _ _ (Hsent slot) T1 T2 (fun _ => T3) _ _ (Hslots slot c Hc)).
        * cbn. lia.
        * split.
          -- intros [c1 [Hin Hs1]]. rewrite F1 in Hin. apply in_app_or in Hin. destruct Hin as [Hin|[<-|[]]]; [exists c1; auto|congruence].
          -- intros [c1 [Hin Hs1]]. exists c1. split; [rewrite F1; apply in_or_app; left; exact Hin|exact Hs1].
        * intros [c1 [Hin Hc1]]. exists c1. split; [rewrite F1; apply in_or_app; left; exact Hin|exact Hc1].
        * intros _ cl' Hin Hs1 Ha1. rewrite F1 in Hin. apply in_app_or in Hin.
          destruct Hin as [Hin|[<-|[]]]; [exists cl'; auto|congruence].
  Qed.

  (* ---------- StAuthorize ---------- *)

  Lemma g_authorize script y gs slot0 :
    g_inv script y gs ->
    g_inv (script ++ [StAuthorize slot0]) (set_server y (authorize_client (y_cfg y) (y_server y) slot0))
          (ghost_step_s y gs (StAuthorize slot0)).
  Proof.
    intros [Hcfg Hg Htk Hslots]. cbn [ghost_step_s ghost_step]. rewrite Hcfg. set (s := y_server y) in *.
    set (s' := authorize_client cfg0 s slot0).
    destruct (authorize_clients cfg0 s slot0) as (A1 & A2 & A3 & A4 & A5). fold s' in A1, A2, A3, A4, A5.
    pose proof (authorize_inv_v cfg0 (mkG s gs) slot0 Hg) as Hg'. cbn [g_srv g_sent] in Hg'. fold s' in Hg'.
    assert (Hsent : forall slot, sent_of slot (sync_sent s' gs []) = sent_of slot gs).
    { intros slot. rewrite (sync_sent_of_slot s gs s' [] slot Hg (gv_slots _ Hg') (A2 slot)); [reflexivity|intros o []]. }
    assert (Hflags : sv_tick s' = sv_tick s /\ sv_dirty s' = sv_dirty s).
    { unfold s', authorize_client. destruct (find_client s slot0) as [cl|]; [|auto]. destruct (sc_authorized cl); cbn; auto. }
    destruct Hflags as (T1 & T2).
    assert (Hrecs : forall cl', In cl' (sv_clients s') ->
              In cl' (sv_clients s) \/ (sc_slot cl' = slot0 /\ exists cl, In cl (sv_clients s) /\ sc_slot cl = slot0 /\ sc_authorized cl = false)).
    { unfold s', authorize_client. destruct (find_client s slot0) as [cl|] eqn:Ef; [|auto]. destruct (sc_authorized cl) eqn:Ea; [auto|].
      unfold find_client in Ef. apply find_some in Ef. destruct Ef as [Hcl Hs0]. cbn in Hs0.
      intros cl' Hin. unfold update_client, set_clients in Hin. cbn [sv_clients authorized_client sc_slot] in Hin.
      apply in_map_iff in Hin. destruct Hin as [c1 [E Hc1]]. destruct (sc_slot c1 =? slot0) eqn:E1; subst cl'; [|left; exact Hc1].
      right. split; [reflexivity|]. exists cl. split; [exact Hcl|]. split; [lia|exact Ea]. }
    assert (Hrec' : forall slot, has_rec s slot -> has_rec s' slot).
    { intros slot [c1 [Hin Hs1]]. unfold s', authorize_client. destruct (find_client s slot0) as [cl|] eqn:Ef; [|exists c1; auto].
      destruct (sc_authorized cl); [exists c1; auto|].
      exists (if sc_slot c1 =? slot0 then authorized_client cfg0 slot0 (sc_max_size cl) else c1). split.
      - unfold update_client, set_clients. cbn [sv_clients authorized_client sc_slot]. apply in_map_iff. exists c1. auto.
      - destruct (sc_slot c1 =? slot0) eqn:E1; [cbn; lia|exact Hs1]. }
    constructor.
    - exact Hcfg.
    - exact Hg'.
    - cbn [set_server y_server]. fold s'. rewrite tick_frames_snoc. cbn [is_tick_frame]. rewrite T1. exact Htk.
    - intros slot c Hc. cbn [set_server y_clients y_server] in *.
      change (get_link (set_server y s') slot) with (get_link y slot). rewrite mode_of_snoc. cbn [mode_step].
      refine (slot_inv_mono_m script (StAuthorize slot0) _ s s' gs _ slot _ _ c eq_refl (conj (A1 slot) (Hrec' slot)) (Hsent slot) T1 T2 _ (A2 slot) _ (Hslots slot c Hc)).
      + rewrite A4. auto.
      + intros [ca [Hca [Hsa Haa]]] cl' Hin Hs1 Ha1. destruct (Hrecs cl' Hin) as [Hold|[Hs0 [cl [Hcl [Hsl Hna]]]]]; [exists cl'; auto|].
        exfalso. assert (ca = cl); [|subst ca; congruence].
        apply (nodup_slot_eq (sv_clients s)); [exact (gv_slots _ Hg)|exact Hca|exact Hcl|congruence].
  Qed.

  (* ---------- StDisconnect ---------- *)

  (* the client of a session that is ended by a disconnect *)
  Lemma disconnected_left_m script m s gs slot lupd lmut cl :
    cs_inv cl -> mode_inv_m script m s gs slot lupd lmut cl -> left_ok (set_status cl Disconnected).
  Proof.
    intros Hinv H. destruct (set_status_disconnected_fields cl) as (_ & F2 & F3 & _).
    assert (Hdisc : cl_status cl = Disconnected -> left_ok cl -> left_ok (set_status cl Disconnected)).
    { intros Es (A & B & C). unfold left_ok, set_status. rewrite Es. cbn. auto. }
    assert (Hconn : cl_status cl = Connected -> (exists applied pend lm, cside_m cl applied pend lm) -> left_ok (set_status cl Disconnected)).
    { intros Es (applied & pend & lm & [C1 _ _ _ _ _ _ C8]). destruct (F2 Es) as [I1 I2]. split; [exact I1|]. split; [exact I2|].
      rewrite F3. intros Hl. destruct (C8 Hl) as [-> B]. split; [revert C1; apply srel_ext; reflexivity|exact B]. }
    destruct m; cbn [mode_inv_m] in H.
    - destruct H as (A & B & _). apply Hdisc; [exact A|apply clean_left; exact B].
    - destruct H as (_ & B & C). destruct (status_dec cl) as [Es|Es].
      + apply Hdisc; [exact Es|apply clean_left; exact (proj1 (B Es))].
      + destruct (C Es) as [_ [applied [C1 _]]]. apply Hconn; [exact Es|eauto].
    - destruct H as (A & B & _). apply Hdisc; assumption.
    - destruct H as (C & D). destruct (status_dec cl) as [Es|Es].
      + apply Hdisc; [exact Es|apply clean_left; exact (proj1 (C Es))].
      + destruct (D Es) as (_ & _ & _ & D4). destruct (F2 Es) as [I1 I2]. split; [exact I1|]. split; [exact I2|].
        rewrite F3. intros Hl. destruct (D4 Hl) as [R B]. split; [revert R; apply srel_ext; reflexivity|exact B].
  Qed.

  Lemma g_disconnect script y gs slot0 y' o :
    g_inv script y gs -> sys_step y (StDisconnect slot0) = Ok (y', o) ->
    g_inv (script ++ [StDisconnect slot0]) y' (ghost_step_s y gs (StDisconnect slot0)).
  Proof.
    intros Hinv H. pose proof Hinv as [Hcfg Hg Htk Hslots].
    cbn [sys_step ghost_step_s] in *.
    destruct (al_get slot0 (y_clients y)) as [cl|] eqn:Ec.
    2:{ inversion H; subst y' o. constructor; [exact Hcfg|exact Hg|rewrite tick_frames_snoc; exact Htk|].
        intros slot c Hc. rewrite mode_disconnect. destruct (slot0 =? slot) eqn:E0; [assert (slot0 = slot) by lia; congruence|].
        refine (slot_inv_mono_m script _ _ (y_server y) (y_server y) gs gs slot _ _ c _
                    (conj (fun x => x) (fun x => x)) eq_refl eq_refl eq_refl (fun x => x) (fun x => x)
                    (fun _ => same_records _ _ slot eq_refl) (Hslots slot c Hc)). cbn. exact E0. }
    inversion H; subst y' o. clear H. set (s := y_server y) in *. set (s' := disconnect_client s slot0).
    pose proof (disconnect_inv_v (mkG s gs) slot0 Hg) as Hg'. cbn [g_srv g_sent] in Hg'. fold s' in Hg'.
    destruct (disconnect_forgets_client s slot0) as (D1 & _ & _ & D4 & _ & D6 & _ & _ & D9). fold s' in D1, D4, D6, D9.
    assert (Hrec : forall slot, slot <> slot0 -> (has_rec s' slot <-> has_rec s slot)).
    { intros slot Hne. split; intros [c1 [Hin Hs1]]; exists c1; (split; [|exact Hs1]).
      - apply D4 in Hin. tauto.
      - apply D4. split; [exact Hin|congruence]. }
    assert (Hauth : forall slot, slot <> slot0 -> has_auth s slot -> has_auth s' slot).
    { intros slot Hne [c1 [Hin [Hs1 Ha1]]]. exists c1. split; [apply D4; split; [exact Hin|congruence]|auto]. }
    assert (Hsent : forall slot, slot <> slot0 -> sent_of slot (sync_sent s' gs []) = sent_of slot gs).
    { intros slot Hne. rewrite (sync_sent_of_slot s gs s' [] slot Hg (gv_slots _ Hg') (Hauth slot Hne)); [reflexivity|intros o []]. }
    assert (Hnorec : ~ has_rec s' slot0) by (intros Hr; apply has_rec_find in Hr; congruence).
    constructor.
    - exact Hcfg.
    - exact Hg'.
    - change (sv_tick s' <= tick_frames (script ++ [StDisconnect slot0])). rewrite tick_frames_snoc, D6. cbn [is_tick_frame]. exact Htk.
    - intros slot c Hc. unfold clear_link in *. cbn [set_link set_client set_server y_clients y_server] in *. fold s'.
      change (get_link (set_link (set_client (set_server y s') slot0 (set_status cl Disconnected)) slot0 link_empty) slot)
        with (get_link (set_link y slot0 link_empty) slot).
      rewrite mode_disconnect. destruct (N.eq_dec slot slot0) as [->|Hne].
      + rewrite N.eqb_refl, get_link_set_link_same. cbn [link_empty l_upd l_mut].
        rewrite al_get_insert_same in Hc. inversion Hc; subst c. clear Hc. destruct (Hslots slot0 cl Ec) as [O1 O3 O4].
        destruct (set_status_disconnected_fields cl) as (F1 & _).
        constructor.
        * apply cs_inv_set_status. exact O1.
        * revert O3. apply hist_small_ext. reflexivity.
        * pose proof (disconnected_left_m script _ s gs slot0 _ _ cl O1 O4) as Hleft.
          destruct (mode_of script slot0) eqn:Em; cbn [mode_inv_m] in *; try (split; [exact F1|split; [exact Hleft|auto]]).
          destruct O4 as (A & (R & B & I & M) & _). split; [exact F1|]. split; [|auto].
          unfold clean, set_status. rewrite A. cbn. split; [revert R; apply srel_ext; reflexivity|auto].
      + replace (slot0 =? slot) with false by lia. rewrite al_get_insert_other in Hc by exact Hne.
        rewrite get_link_set_link_other by exact Hne.
        refine (slot_inv_mono_m script _ _ s s' gs _ slot _ _ c _ (Hrec slot Hne) (Hsent slot Hne) D6 eq_refl _ (Hauth slot Hne) _ (Hslots slot c Hc)).
        * cbn. lia.
        * rewrite D9. auto.
        * intros _ cl' Hin Hs1 Ha1. apply D4 in Hin. exists cl'. tauto.
  Qed.

  (* ---------- StSFrame ---------- *)

  Lemma g_sframe script y gs tick dt (cleanup : bool) ops parts y' o :
    g_inv script y gs -> run (sys_init cfg0 nclients) script = Ok y -> sframe_ok y tick dt cleanup ops parts ->
    tick_frames (script ++ [StSFrame tick dt cleanup ops parts]) < 2 ^ 31 ->
    sys_step y (StSFrame tick dt cleanup ops parts) = Ok (y', o) ->
    g_inv (script ++ [StSFrame tick dt cleanup ops parts]) y' (ghost_step_s y gs (StSFrame tick dt cleanup ops parts)).
  Proof.
    intros [Hcfg Hg Htk Hslots] Hrun0 Hsf Hbound H.
    assert (Hreach : forall slot, reached_s (script ++ [StSFrame tick dt cleanup ops parts]) slot y').
    { intros slot. apply reached_s_last. rewrite run_app, Hrun0. cbn [bind run]. rewrite H. reflexivity. }
    cbn [sys_step ghost_step_s ghost_step] in *. rewrite Hcfg in *. set (s := y_server y) in *.
    destruct (server_frame cfg0 s tick dt cleanup ops parts) as [[s' fo]| |] eqn:Ef; cbn [bind] in H; try discriminate.
    inversion H; subst y' o. clear H. set (outs := fo_clients fo) in *.
    destruct (gframe_ok_v cfg0 (mkG s gs) tick dt cleanup ops parts s' fo Hg Ef) as (Hg' & Hran & Hnot). cbn [g_srv g_sent] in *.
    destruct (server_frame_clients_g cfg0 (mkG s gs) tick dt cleanup ops parts s' fo Hg Ef)
      as (N2 & N3 & N4 & N5 & N6 & N7 & N8). cbn [g_srv] in *. fold outs in N5, N6, N7, N8.
    unfold sframe_ok in Hsf. rewrite Hcfg in Hsf. specialize (Hsf s' fo Ef). fold outs in Hsf.
    destruct (server_frame_ticks_v cfg0 s tick dt cleanup ops parts s' fo Ef) as (K1 & K2 & K3 & K4 & K5). fold outs in K5.
    destruct (enqueue_fields outs (set_server y s')) as (Q1 & Q2 & Q3).
    pose proof Npow31 as P31. pose proof Npow32 as P32.
    rewrite tick_frames_snoc in Hbound. cbn [is_tick_frame] in Hbound.
    assert (Htk' : sv_tick s' <= tick_frames (script ++ [StSFrame tick dt cleanup ops parts])).
    { rewrite tick_frames_snoc. cbn [is_tick_frame]. destruct K4 as [K4|K4]; rewrite K4; [lia|].
      destruct tick; [pose proof (tick_add_le (sv_tick s)); lia|lia]. }
    constructor.
    - rewrite Q1. exact Hcfg.
    - rewrite Q2. exact Hg'.
    - rewrite Q2. exact Htk'.
    - intros slot c Hc. rewrite Q3 in Hc. cbn [set_server y_clients] in Hc. rewrite Q2. cbn [set_server y_server].
      rewrite enqueue_lupd, enqueue_lmut. change (get_link (set_server y s') slot) with (get_link y slot).
      rewrite mode_of_snoc. cbn [mode_step].
      destruct (Hslots slot c Hc) as [O1 O3 O4]. constructor; [exact O1|exact O3|].
      rewrite (updates_for_upd_for slot outs N5).
      destruct (sv_running s) eqn:Er.
      2:{ (* the server is stopped: nothing is sent, records are kept or reset *)
          rewrite (N8 eq_refl). cbn [upd_for find mutates_for flat_map]. rewrite !app_nil_r.
          destruct (mode_of script slot) eqn:Em; cbn [mode_inv_m] in *.
          - destruct O4 as (A & B & C & D). split; [exact A|]. split; [exact B|]. split; [intros Hr; exact (C (N3 slot Hr))|exact D].
          - destruct O4 as (A & B & C). destruct (status_dec c) as [Es|Es]; [|destruct (C Es) as [Hr _]; congruence].
            split; [|split; [exact B|intros Hc'; congruence]].
            split; [intros Hr; apply A; exact (N3 slot Hr)|intros Hc'; congruence].
          - destruct O4 as (A & B & C & D). split; [exact A|]. split; [exact B|]. split; [intros Hr; exact (C (N3 slot Hr))|exact D].
          - destruct O4 as (C & D). split; [|exact D].
            intros Hd. destruct (C Hd) as (C1 & C2 & C3). split; [exact C1|]. split; [intros Hr; exact (C2 (N3 slot Hr))|exact C3]. }
      (* the server is running *)
      specialize (N4 eq_refl). specialize (K3 eq_refl).
      assert (Hrec : has_rec s' slot <-> has_rec s slot) by (rewrite !has_rec_sig, N4; reflexivity).
      assert (Hau : has_auth s slot -> has_auth s' slot).
      { intros Ha. apply has_auth_sig. rewrite N4. apply has_auth_sig. exact Ha. }
      assert (Hsent : sent_of slot (sync_sent s' gs outs) = abs_send (sent_of slot gs) (upd_for slot outs)).
      { apply (sync_sent_of_slot s gs s' outs slot Hg (gv_slots _ Hg') Hau). intros o1 Ho1 <-. exact (N6 o1 Ho1). }
      assert (Hnoout : ~ has_rec s slot -> upd_for slot outs = None /\ mutates_for slot outs = []).
      { intros Hno. assert (Hn : ~ In slot (map co_slot outs)).
        { intros Hin. apply in_map_iff in Hin. destruct Hin as [o1 [Es Ho1]]. apply Hno. apply Hrec.
          destruct (N6 o1 Ho1) as [c1 [A [B _]]]. exists c1. split; [exact A|congruence]. }
        split; [exact (proj1 (upd_for_none slot outs Hn))|].
        destruct (mutates_for slot outs) as [|m0 t0] eqn:Em; [reflexivity|]. exfalso.
        destruct (mutates_for_in slot outs m0) as [o1 [Ho1 [Es _]]]; [rewrite Em; left; reflexivity|].
        apply Hn. apply in_map_iff. exists o1. auto. }
      assert (Hidle : ~ has_rec s slot -> forall P : list update_msg -> list mutate_msg -> Prop,
                P (l_upd (get_link y slot)) (l_mut (get_link y slot)) ->
                P (l_upd (get_link y slot) ++ match upd_for slot outs with Some u => [u] | None => [] end)
                  (l_mut (get_link y slot) ++ mutates_for slot outs)).
      { intros Hno P HP. destruct (Hnoout Hno) as [-> ->]. rewrite !app_nil_r. exact HP. }
      destruct (mode_of script slot) eqn:Em; cbn [mode_inv_m] in *.
      + destruct O4 as (A & B & C & D). apply (Hidle C (fun lu lm => inv_clean s' slot lu lm c)).
        split; [exact A|]. split; [exact B|]. split; [rewrite Hrec; exact C|exact D].
      + destruct O4 as (A & B & C). destruct (status_dec c) as [Es|Es].
        { assert (Hno : ~ has_rec s slot) by (intros Hr; apply A in Hr; congruence).
          apply (Hidle Hno (fun lu lm => inv_live_m _ s' _ slot lu lm c)).
          split; [rewrite Hrec; exact A|]. split; [exact B|intros Hc'; congruence]. }
        destruct (C Es) as [_ [applied [[C1 C2 C3 C4 C5 C6 C7 C8] [L1 L2 L3 L4 L5 L6]]]].
        set (sent := applied ++ cl_inbox_upd c ++ l_upd (get_link y slot)) in *.
        set (oldm := l_mut (get_link y slot) ++ cl_inbox_mut c ++ cl_buffered c) in *.
        (* ticks *)
        assert (Htke : sv_tick s' = (if tick then sv_tick s + 1 else sv_tick s)).
        { rewrite K3. destruct tick; [|reflexivity]. apply tick_add_one. lia. }
        assert (Hsm' : sv_tick s' < 2 ^ 31) by (rewrite Htke; destruct tick; lia).
        assert (Hle : sv_tick s <= sv_tick s') by (rewrite Htke; destruct tick; lia).
        assert (Hb_old : forall t, bound_ok s t -> bound_ok s' t) by (unfold bound_ok; intros t [X Y]; split; [lia|exact K1]).
        assert (Hstrict : outs <> [] -> forall t, bound_ok s t -> t < sv_tick s').
        { intros Hne t [X Y]. destruct (K5 Hne) as [_ [Ht|Hd]]; [|congruence]. subst tick. rewrite Htke. lia. }
        assert (Hfr : outs <> [] -> fo_ran fo = true).
        { intros Hne. destruct (fo_ran fo) eqn:E; [reflexivity|]. exfalso. apply Hne. exact (Hnot eq_refl). }
        (* the update tick the server keeps *)
        set (lt := fun sl : N => if sl =? slot then match sent with [] => None | _ => Some (u_tick (last sent dflt_upd)) end else None).
        assert (Hut : upd_ticks_ok lt s).
        { intros cl Hin Ha t Hl. unfold lt in Hl. destruct (sc_slot cl =? slot) eqn:E1; [|discriminate].
          destruct sent as [|u0 t0] eqn:Esent; [discriminate|]. inversion Hl; subst t.
          apply L6; [exact Hin|lia|exact Ha|discriminate]. }
        destruct (server_frame_muts_g cfg0 (mkG s gs) tick dt cleanup ops parts s' fo lt Hg Hut Ef) as [M1 M2].
        fold outs in M1, M2. cbn [g_srv] in M2.
        assert (Hltsome : sent <> [] -> lt slot = Some (u_tick (last sent dflt_upd))).
        { intros Hne. unfold lt. rewrite N.eqb_refl. destruct sent; [congruence|reflexivity]. }
        assert (Hstr : forall cl', In cl' (sv_clients s') -> sc_slot cl' = slot -> sc_authorized cl' = true -> outs <> [] ->
                  struct_equiv (abs_send (sent_of slot gs) (upd_for slot outs)) (struct_vis s' cl')).
        { intros cl' X Y Z Hne. pose proof (Hran (Hfr Hne) cl' X Z) as G. rewrite Y in G. exact G. }
        (* a mutate message produced by this frame for the slot *)
        assert (Hnew : forall m, In m (mutates_for slot outs) ->
                  outs <> [] /\ m_tick m = sv_tick s' /\
                  match upd_for slot outs with
                  | Some u => m_upd_tick m = u_tick u
                  | None => sent <> [] -> m_upd_tick m = u_tick (last sent dflt_upd)
                  end /\
                  forall e comps, In (e, comps) (m_body m) ->
                    kinds_sub (map fst comps) (kinds_of (abs_send (sent_of slot gs) (upd_for slot outs)) e)).
        { intros m Hm. destruct (mutates_for_in slot outs m Hm) as (o1 & Ho1 & Eso & Hmo).
          destruct (M1 o1 m Ho1 Hmo) as (G1 & G2 & cl' & X & Y & Z & G3). pose proof (upd_for_of_out outs o1 N5 Ho1) as Eup. rewrite Eso in Eup.
          assert (Hne : outs <> []) by (intros E0; rewrite E0 in Ho1; destruct Ho1).
          split; [exact Hne|]. split; [exact G1|]. split.
          - rewrite Eup. destruct (co_update o1) as [u|]; [exact G2|]. intros Hne0. apply G2. rewrite Eso. exact (Hltsome Hne0).
          - intros e comps Hb. apply (kinds_sub_equiv _ (struct_vis s' cl')); [|exact (G3 e comps Hb)].
            apply struct_equiv_symm. apply Hstr; [exact X|congruence|exact Z|exact Hne]. }
        assert (Hconn : cl_status c = Connected) by exact Es.
        destruct (upd_for slot outs) as [u|] eqn:Eu.
        * destruct (upd_for_in slot outs u Eu) as (o1 & Ho1 & Hso & Huo).
          pose proof (N7 o1 u Ho1 Huo) as Ht. pose proof (Hsf o1 u Ho1 Huo) as Hmp. pose proof (N6 o1 Ho1) as Hauth. rewrite Hso in Hauth.
          assert (Hne : outs <> []) by (intros E0; rewrite E0 in Ho1; destruct Ho1).
          assert (Eassoc : applied ++ cl_inbox_upd c ++ l_upd (get_link y slot) ++ [u] = sent ++ [u]).
          { unfold sent. rewrite <- !app_assoc. reflexivity. }
          assert (Hfold : fold_left abs_apply (sent ++ [u]) [] = abs_apply (sent_of slot gs) u).
          { rewrite fold_left_app. cbn [fold_left]. rewrite L1. reflexivity. }
          split; [rewrite Hrec; exact A|]. split; [intros Hd; congruence|].
          intros _. split; [rewrite N2; reflexivity|]. exists applied. split.
          -- constructor.
             ++ exact C1.
             ++ intros u0 Hu0. rewrite !app_assoc in Hu0. apply in_app_or in Hu0. destruct Hu0 as [Hu0|[<-|[]]]; [|exact Hmp].
                apply C2. exact Hu0.
             ++ exact C3.
             ++ rewrite Eassoc. intros u0 Hin. apply in_app_or in Hin. destruct Hin as [Hin|[<-|[]]]; [exact (C4 u0 Hin)|].
                unfold small_tick. rewrite Ht. exact Hsm'.
             ++ rewrite Eassoc. apply ticks_incr_snoc; [exact C5|]. intros a Ha. rewrite Ht. exact (Hstrict Hne _ (L3 a Ha)).
             ++ exact C6.
             ++ rewrite Eassoc. intros m Hm. apply in_app3 in Hm. destruct Hm as [Hm|Hm].
                ** apply mmsg_ok_snoc; [exact (C7 m Hm)|]. rewrite Ht. exact (Hstrict Hne _ (L4 m Hm)).
                ** destruct (Hnew m Hm) as (_ & G1 & G2 & G3).
                   split; [unfold small_tick; rewrite G1; exact Hsm'|]. exists (sent ++ [u]), [].
                   split; [rewrite app_nil_r; reflexivity|]. split; [intros _; rewrite last_snoc; exact G2|]. split; [intros u0 []|].
                   intros e comps Hb. rewrite Hfold. exact (G3 e comps Hb).
             ++ exact C8.
          -- rewrite Eassoc. constructor.
             ++ rewrite Hfold, Hsent. reflexivity.
             ++ intros p q E Hp. symmetry in E. apply app_snoc_split in E. destruct E as [[-> ->]|[q' [-> E]]].
                ** destruct Hauth as [cl' [X [Y Z]]]. exists (enqueue_outputs (set_server y s') outs), cl'.
                   split; [apply Hreach|]. rewrite Q2. cbn [set_server y_server].
                   split; [rewrite <- Y; exact (find_client_of_in s' cl' (gv_slots _ Hg') X)|]. split; [exact Z|].
                   split; [rewrite Hfold; exact (Hstr cl' X Y Z Hne)|rewrite last_snoc; exact Ht].
                ** destruct (L2 p q' E Hp) as (y1 & cl1 & R & X). exists y1, cl1. split; [apply reached_s_mono; [reflexivity|exact R]|exact X].
             ++ intros u0 Hin. apply in_app_or in Hin. destruct Hin as [Hin|[<-|[]]]; [exact (Hb_old _ (L3 u0 Hin))|].
                split; [rewrite Ht; lia|exact K1].
             ++ intros m Hm. apply in_app3 in Hm. destruct Hm as [Hm|Hm]; [exact (Hb_old _ (L4 m Hm))|].
                destruct (Hnew m Hm) as (_ & G1 & _). split; [rewrite G1; lia|exact K1].
             ++ intros _. exact Hauth.
             ++ intros cl' Hin Hsl Ha _. pose proof (M2 cl' Hin Ha Er) as G. rewrite Hsl, Eu in G.
                rewrite last_snoc. exact G.
        * rewrite app_nil_r. fold sent.
          split; [rewrite Hrec; exact A|]. split; [intros Hd; congruence|].
          intros _. split; [rewrite N2; reflexivity|]. exists applied. fold sent. split.
          -- constructor; try assumption.
             intros m Hm. apply in_app3 in Hm. destruct Hm as [Hm|Hm]; [exact (C7 m Hm)|].
             destruct (Hnew m Hm) as (Hne & G1 & G2 & G3).
             split; [unfold small_tick; rewrite G1; exact Hsm'|]. exists sent, [].
             split; [rewrite app_nil_r; reflexivity|]. split; [exact G2|]. split; [intros u0 []|].
             intros e comps Hb. rewrite L1. exact (G3 e comps Hb).
          -- constructor.
             ++ rewrite L1, Hsent. reflexivity.
             ++ apply snaps_v_mono; [reflexivity|exact L2].
             ++ intros u0 Hin. exact (Hb_old _ (L3 u0 Hin)).
             ++ intros m Hm. apply in_app3 in Hm. destruct Hm as [Hm|Hm]; [exact (Hb_old _ (L4 m Hm))|].
                destruct (Hnew m Hm) as (_ & G1 & _). split; [rewrite G1; lia|exact K1].
             ++ intros Hne. apply Hau. exact (L5 Hne).
             ++ intros cl' Hin Hsl Ha Hne. pose proof (M2 cl' Hin Ha Er) as G. rewrite Hsl, Eu in G. apply G. exact (Hltsome Hne).
      + destruct O4 as (A & B & C & D). apply (Hidle C (fun lu lm => inv_left s' slot lu lm c)).
        split; [exact A|]. split; [exact B|]. split; [rewrite Hrec; exact C|exact D].
      + (* the server was stopped and started again without a reset: it still sends to the slot *)
        destruct O4 as (C & D). split.
        * intros Hd. destruct (C Hd) as (C1 & C2 & C3).
          apply (Hidle C2 (fun lu lm => clean c /\ ~ has_rec s' slot /\ lu = [] /\ lm = [])). rewrite Hrec. auto.
        * intros Hcn. destruct (D Hcn) as (D1 & D2 & D3 & D4).
          assert (Hsm' : sv_tick s' < 2 ^ 31).
          { rewrite tick_frames_snoc in Htk'. cbn [is_tick_frame] in Htk'. destruct tick; lia. }
          assert (Hut : upd_ticks_ok (fun _ : N => None) s) by (intros cl Hin Ha t Hl; discriminate).
          destruct (server_frame_muts_g cfg0 (mkG s gs) tick dt cleanup ops parts s' fo _ Hg Hut Ef) as [M1 _].
          fold outs in M1.
          assert (Hups : forall u, In u (match upd_for slot outs with Some u => [u] | None => [] end) ->
                    maps_in_changes u /\ small_tick (u_tick u)).
          { intros u Hu. destruct (upd_for slot outs) as [u1|] eqn:Eu; [|destruct Hu]. destruct Hu as [<-|[]].
            destruct (upd_for_in slot outs u1 Eu) as (o1 & Ho1 & _ & Huo). pose proof (N7 o1 u1 Ho1 Huo) as Ht.
            split; [exact (Hsf o1 u1 Ho1 Huo)|unfold small_tick; rewrite Ht; exact Hsm']. }
          split; [|split; [|split; [|exact D4]]].
          -- intros u Hu. rewrite app_assoc in Hu. apply in_app_or in Hu. destruct Hu as [Hu|Hu]; [exact (D1 u Hu)|exact (proj1 (Hups u Hu))].
          -- intros u Hu. rewrite app_assoc in Hu. apply in_app_or in Hu. destruct Hu as [Hu|Hu]; [exact (D2 u Hu)|exact (proj2 (Hups u Hu))].
          -- intros m Hm. apply in_app3 in Hm. destruct Hm as [Hm|Hm]; [exact (D3 m Hm)|].
             destruct (mutates_for_in slot outs m Hm) as (o1 & Ho1 & _ & Hmo). destruct (M1 o1 m Ho1 Hmo) as (G1 & _).
             unfold small_tick. rewrite G1. exact Hsm'.
  Qed.

  (* ---------- StCFrame ---------- *)

  (* a frame of a client that is not connected: afterwards it is clean *)
  Lemma frame_disconnected_m c ops c' out :
    cs_inv c -> (cl_last_not_disconnected c = false -> srel c [] /\ cl_buffered c = []) ->
    cl_status c = Disconnected -> cops_safe (if cl_last_not_disconnected c then client_reset c else c) ops = true ->
    client_frame c ops = Ok (c', out) ->
    cs_inv c' /\ srel c' [] /\ cl_status c' = Disconnected /\ cl_inbox_upd c' = cl_inbox_upd c /\
    cl_inbox_mut c' = cl_inbox_mut c /\ cl_buffered c' = [].
  Proof.
    intros Hinv Hrel Hc Hs H. unfold client_frame in H. rewrite Hc in H. cbn [negb bind] in H. rewrite andb_true_r in H.
    inversion H; subst c' out. clear H.
    set (c1 := if cl_last_not_disconnected c then client_reset c else c) in *.
    assert (H1 : cs_inv c1 /\ srel c1 [] /\ cl_status c1 = Disconnected /\ cl_inbox_upd c1 = cl_inbox_upd c /\
                 cl_inbox_mut c1 = cl_inbox_mut c /\ cl_buffered c1 = []).
    { unfold c1. destruct (cl_last_not_disconnected c).
      - split; [apply cs_inv_reset; exact Hinv|]. split; [intros e; cbn; exact I|auto].
      - destruct (Hrel eq_refl) as [R B]. auto 8. }
    destruct H1 as (I1 & R1 & S1 & B1 & B2 & B3).
    destruct (cops_step ops c1 I1 Hs) as [I3 G3].
    destruct (cops_fields ops c1) as (K1 & K2 & K3 & K4).
    split; [revert I3; apply cs_inv_ext; reflexivity|].
    split; [apply (srel_ext (fold_left apply_cop ops c1)); [reflexivity|reflexivity|exact (cops_srel ops c1 _ I1 Hs R1)]|].
    cbn [set_locals cl_status cl_inbox_upd cl_inbox_mut cl_buffered]. rewrite K1, K2, K3, K4. auto 8.
  Qed.

  Lemma cframe_disc_m cl ops cl' cfo :
    cs_inv cl -> hist_small cl -> cl_status cl = Disconnected -> left_ok cl -> cframe_ok cl ops ->
    client_frame cl ops = Ok (cl', cfo) ->
    cs_inv cl' /\ hist_small cl' /\ cl_status cl' = Disconnected /\ clean cl'.
  Proof.
    intros Hinv Hhs Es (I & M & F) [_ Hco] H.
    assert (Hs : cops_safe (if cl_last_not_disconnected cl then client_reset cl else cl) ops = true).
    { apply Hco. unfold frame_pre_cops. rewrite Es. reflexivity. }
    destruct (frame_disconnected_m cl ops cl' cfo Hinv F Es Hs H) as (D1 & D3 & D4 & D5 & D6 & D7).
    split; [exact D1|]. split; [exact (frame_disconnected_hs_gen cl ops cl' cfo Hhs Es H)|].
    split; [exact D4|]. split; [exact D3|]. rewrite D5, D6. auto.
  Qed.

  Lemma cframe_ok_cops c ops : cl_status c = Connected -> cframe_ok c ops ->
    forall c2 out2, apply_replication c = Ok (c2, out2) -> cops_safe c2 ops = true.
  Proof.
    intros Es [_ Hco] c2 out2 E. apply Hco. unfold frame_pre_cops. rewrite Es, E. reflexivity.
  Qed.

  (* a frame of a connected client *)
  Lemma cframe_conn_m c applied rest lmut ops c' out :
    cs_inv c -> hist_small c -> cl_status c = Connected ->
    cside_m c applied (cl_inbox_upd c ++ rest) lmut -> cframe_ok c ops -> client_frame c ops = Ok (c', out) ->
    cs_inv c' /\ hist_small c' /\ cl_status c' = Connected /\ cl_inbox_upd c' = [] /\ cl_inbox_mut c' = [] /\
    (forall m, In m (cl_buffered c') -> In m (cl_inbox_mut c ++ cl_buffered c)) /\
    cside_m c' (applied ++ cl_inbox_upd c) (cl_inbox_upd c' ++ rest) lmut.
  Proof.
    intros Hinv Hhs Es [C1 C2 C3 C4 C5 C6 C7 C8] Hok H.
    assert (Hpre : hist_pre_m c applied rest).
    { constructor; try assumption.
      - intros u Hu. apply C2. apply in_or_app. left. exact Hu.
      - exact (proj1 Hok Es).
      - intros m Hm. apply C7. apply in_or_app. right. exact Hm. }
    destruct (frame_hist_maps c applied rest ops c' out Hpre Es (cframe_ok_cops c ops Es Hok) H) as (I & R & Hh & S & Tk & Ei & Em & St & Kb).
    pose proof (frame_lnd c ops c' out H) as Hl. rewrite St in Hl.
    split; [exact I|]. split; [exact S|]. split; [exact St|]. split; [exact Ei|]. split; [exact Em|].
    split; [exact Kb|]. rewrite Ei. cbn [app].
    assert (Eassoc : (applied ++ cl_inbox_upd c) ++ rest = applied ++ cl_inbox_upd c ++ rest) by (rewrite <- app_assoc; reflexivity).
    constructor.
    - exact R.
    - intros u Hu. apply C2. apply in_or_app. right. exact Hu.
    - exact Tk.
    - rewrite Eassoc. exact C4.
    - rewrite Eassoc. exact C5.
    - exact Hh.
    - rewrite Eassoc, Em. cbn [app]. intros m Hm. apply C7. apply in_app_or in Hm. apply in_or_app.
      destruct Hm as [Hm|Hm]; [left; exact Hm|right; exact (Kb m Hm)].
    - intros Hf. congruence.
  Qed.

  Lemma g_cframe script y gs slot0 ops y' o :
    g_inv script y gs -> (forall cl, al_get slot0 (y_clients y) = Some cl -> cframe_ok cl ops) ->
    sys_step y (StCFrame slot0 ops) = Ok (y', o) ->
    g_inv (script ++ [StCFrame slot0 ops]) y' gs.
  Proof.
    intros Hinv Hcok H. pose proof Hinv as [Hcfg Hg Htk Hslots].
    assert (Hother : forall (s' : server) slot c, slot <> slot0 -> sv_clients s' = sv_clients (y_server y) ->
              sv_tick s' = sv_tick (y_server y) -> sv_dirty s' = sv_dirty (y_server y) -> sv_running s' = sv_running (y_server y) ->
              al_get slot (y_clients y) = Some c ->
              slot_inv_m (script ++ [StCFrame slot0 ops]) (mode_of (script ++ [StCFrame slot0 ops]) slot) s' gs slot
                       (l_upd (get_link y slot)) (l_mut (get_link y slot)) c).
    { intros s' slot c Hne Ecl Et Ed Er Hc. rewrite mode_cframe. replace (slot0 =? slot) with false by lia.
      refine (slot_inv_mono_m script (StCFrame slot0 ops) _ (y_server y) s' gs gs slot _ _ c eq_refl _ eq_refl Et Ed _ _ _ (Hslots slot c Hc)).
      - split; apply has_rec_clients; [exact Ecl|symmetry; exact Ecl].
      - rewrite Er. auto.
      - apply has_auth_clients. exact Ecl.
      - intros _. apply same_records. exact Ecl. }
    destruct (al_get slot0 (y_clients y)) as [cl|] eqn:Ec.
    2:{ cbn [sys_step] in H. rewrite Ec in H. inversion H; subst y' o.
        constructor; [exact Hcfg|exact Hg|rewrite tick_frames_snoc; exact Htk|].
        intros slot c Hc. apply Hother; try reflexivity; [intros ->; congruence|exact Hc]. }
    specialize (Hcok cl eq_refl).
    destruct (client_frame cl ops) as [[cl' cfo]| |] eqn:Ef;
      [|cbn [sys_step] in H; rewrite Ec, Ef in H; discriminate|cbn [sys_step] in H; rewrite Ec, Ef in H; discriminate].
    pose proof (cframe_sys_lmut y slot0 ops y' o H) as F3m.
    destruct (cframe_sys y slot0 ops cl cl' cfo y' o Ec Ef H) as (F1 & F2 & F3 & [pcs F4]).
    set (s := y_server y) in *.
    assert (Ecl : sv_clients (y_server y') = sv_clients s) by (rewrite F4; reflexivity).
    assert (Hrec : forall slot, has_rec (y_server y') slot <-> has_rec s slot).
    { intros slot. split; apply has_rec_clients; [exact Ecl|symmetry; exact Ecl]. }
    constructor.
    - congruence.
    - rewrite F4. exact (gstep_inv_v cfg0 (mkG s gs) (GPublish slot0 pcs) _ Hg eq_refl).
    - rewrite F4, tick_frames_snoc. exact Htk.
    - intros slot c Hc. rewrite F2 in Hc. rewrite F3, F3m. destruct (N.eq_dec slot slot0) as [->|Hne].
      2:{ rewrite al_get_insert_other in Hc by exact Hne. apply Hother; try (rewrite F4; reflexivity); assumption. }
      rewrite al_get_insert_same in Hc. inversion Hc; subst c. clear Hc. rewrite mode_cframe, N.eqb_refl.
      destruct (Hslots slot0 cl Ec) as [O1 O3 O4].
      (* the client was not connected *)
      assert (Hdisc : cl_status cl = Disconnected -> left_ok cl ->
                cs_inv cl' /\ hist_small cl' /\ cl_status cl' = Disconnected /\ clean cl').
      { intros Es Hl. exact (cframe_disc_m cl ops cl' cfo O1 O3 Es Hl Hcok Ef). }
      destruct (mode_of script slot0) eqn:Em; cbn [mode_inv_m] in O4.
      + destruct O4 as (A & B & C & D). destruct (Hdisc A (clean_left _ B)) as (I & S & St & Cl).
        constructor; [exact I|exact S|]. cbn [mode_inv_m]. split; [exact St|]. split; [exact Cl|]. rewrite Hrec. auto.
      + destruct O4 as (A & B & C). destruct (status_dec cl) as [Es|Es].
        * destruct (B Es) as (B1 & B2). destruct (Hdisc Es (clean_left _ B1)) as (I & S & St & Cl).
          constructor; [exact I|exact S|]. cbn [mode_inv_m]. split; [|split; [intros _; auto|intros Hc'; congruence]].
          rewrite Hrec, St. rewrite Es in A. exact A.
        * destruct (C Es) as [Hr [applied [C1 L]]].
          destruct (cframe_conn_m cl applied _ _ ops cl' cfo O1 O3 Es C1 Hcok Ef) as (I & S & St & Ei & Emu & Kb & C1').
          constructor; [exact I|exact S|]. cbn [mode_inv_m]. split; [|split; [intros Hd; congruence|]].
          { rewrite Hrec, St. rewrite Es in A. exact A. }
          intros _. split; [rewrite F4; exact Hr|]. exists (applied ++ cl_inbox_upd cl). split; [exact C1'|].
          rewrite Ei, Emu. cbn [app]. rewrite <- app_assoc.
          apply (slink_weaken _ _ _ _ _ (l_mut (get_link y slot0) ++ cl_inbox_mut cl ++ cl_buffered cl)).
          { intros m Hm. apply in_app_or in Hm. apply in_or_app. destruct Hm as [Hm|Hm]; [left; exact Hm|right; exact (Kb m Hm)]. }
          apply (slink_mono script (StCFrame slot0 ops) s (y_server y') gs gs); try (rewrite F4; reflexivity); try reflexivity.
          -- apply has_auth_clients. exact Ecl.
          -- intros _ _. apply same_records. exact Ecl.
          -- exact L.
      + destruct O4 as (A & B & C & D). destruct (Hdisc A B) as (I & S & St & Cl).
        constructor; [exact I|exact S|]. cbn [mode_inv_m]. split; [exact St|]. split; [exact Cl|]. rewrite Hrec. auto.
      + destruct O4 as (C & D). destruct (status_dec cl) as [Es|Es].
        * destruct (C Es) as (C1 & C2 & C3). destruct (Hdisc Es (clean_left _ C1)) as (I & S & St & Cl).
          constructor; [exact I|exact S|]. cbn [mode_inv_m].
          split; [intros _; split; [exact Cl|]; split; [rewrite Hrec; exact C2|exact C3]|intros Hc'; congruence].
        * destruct (D Es) as (D1 & D2 & D3 & D4).
          destruct (cframe_weak_maps cl ops cl' cfo O1 O3 Es
                      (fun u Hu => D1 u (in_or_app _ _ _ (or_introl Hu))) (proj1 Hcok Es)
                      (fun u Hu => D2 u (in_or_app _ _ _ (or_introl Hu)))
                      (fun m Hm => D3 m (in_or_app _ _ _ (or_intror Hm))) (cframe_ok_cops cl ops Es Hcok) Ef) as (I & S & St & Ei & Emu & Kb).
          pose proof (frame_lnd cl ops cl' cfo Ef) as Hl. rewrite St in Hl.
          constructor; [exact I|exact S|]. cbn [mode_inv_m]. split; [intros Hd; congruence|]. intros _.
          rewrite <- F3, <- F3m. unfold stale_conn_m. rewrite Ei, Emu, F3, F3m. cbn [app].
          split; [intros u Hu; apply D1; apply in_or_app; right; exact Hu|].
          split; [intros u Hu; apply D2; apply in_or_app; right; exact Hu|].
          split; [|intros Hf; congruence].
          intros m Hm. apply D3. apply in_app_or in Hm. apply in_or_app.
          destruct Hm as [Hm|Hm]; [left; exact Hm|right; exact (Kb m Hm)].
  Qed.

  (* ---------- StDeliver / StDrop ---------- *)

  (* only a connected client has something queued *)
  Lemma queued_live_m script m s gs slot lupd lmut c :
    mode_inv_m script m s gs slot lupd lmut c -> lupd <> [] \/ lmut <> [] -> (m = MLive \/ m = MStale) /\ cl_status c = Connected.
  Proof.
    intros H Hne. destruct m; cbn [mode_inv_m] in H.
    - destruct H as (_ & _ & _ & -> & ->). destruct Hne; congruence.
    - split; [left; reflexivity|]. destruct H as (_ & B & _). destruct (status_dec c) as [Es|Es]; [|exact Es].
      destruct (B Es) as (_ & -> & ->). destruct Hne; congruence.
    - destruct H as (_ & _ & _ & -> & ->). destruct Hne; congruence.
    - split; [right; reflexivity|]. destruct H as (C & _). destruct (status_dec c) as [Es|Es]; [|exact Es].
      destruct (C Es) as (_ & _ & -> & ->). destruct Hne; congruence.
  Qed.

  (* a step that only moves messages between the queues of a live slot and the inboxes of its client *)
  Lemma g_link_live script st y gs slot0 cl cl' lu lm la :
    g_inv script y gs -> is_tick_frame st = false ->
    (forall slot m, mode_step slot m st = m) -> (forall slot, ends_session slot st = false) ->
    al_get slot0 (y_clients y) = Some cl -> mode_of script slot0 = MLive \/ mode_of script slot0 = MStale -> cl_status cl = Connected ->
    cl_s2c cl' = cl_s2c cl -> cl_c2s cl' = cl_c2s cl -> cl_ents cl' = cl_ents cl -> cl_next cl' = cl_next cl ->
    cl_upd_tick cl' = cl_upd_tick cl -> cl_status cl' = cl_status cl -> cl_buffered cl' = cl_buffered cl ->
    cl_last_not_disconnected cl' = cl_last_not_disconnected cl ->
    cl_inbox_upd cl' ++ lu = cl_inbox_upd cl ++ l_upd (get_link y slot0) ->
    (forall m, In m (lm ++ cl_inbox_mut cl') -> In m (l_mut (get_link y slot0) ++ cl_inbox_mut cl)) ->
    g_inv (script ++ [st]) (set_client (set_link y slot0 (mkLink lu lm la)) slot0 cl') gs.
  Proof.
    intros [Hcfg Hg Htk Hslots] Hnt Hmode Hends Ec Em Es E1 E2 E3 E4 E5 E6 E7 E8 Hupd Hmut.
    constructor; [exact Hcfg|exact Hg|rewrite tick_frames_snoc, Hnt; exact Htk|].
    intros slot c Hc. cbn [set_client set_link y_clients y_server] in *.
    change (get_link (set_client (set_link y slot0 (mkLink lu lm la)) slot0 cl') slot)
      with (get_link (set_link y slot0 (mkLink lu lm la)) slot).
    rewrite mode_of_snoc, Hmode.
    destruct (N.eq_dec slot slot0) as [->|Hne].
    2:{ rewrite al_get_insert_other in Hc by exact Hne. rewrite get_link_set_link_other by exact Hne.
        refine (slot_inv_mono_m script st _ (y_server y) _ gs gs slot _ _ c (Hends slot) _ eq_refl eq_refl eq_refl _ _ _ (Hslots slot c Hc));
          [tauto|auto|auto|]. intros _. apply same_records. reflexivity. }
    rewrite al_get_insert_same in Hc. inversion Hc; subst c. clear Hc. rewrite get_link_set_link_same. cbn [l_upd l_mut].
    destruct (Hslots slot0 cl Ec) as [O1 O3 O4].
    assert (Hsub : forall m, In m (lm ++ cl_inbox_mut cl' ++ cl_buffered cl') ->
              In m (l_mut (get_link y slot0) ++ cl_inbox_mut cl ++ cl_buffered cl)).
    { intros m Hm. rewrite E7 in Hm. rewrite app_assoc in Hm. apply in_app_or in Hm. rewrite app_assoc. apply in_or_app.
      destruct Hm as [Hm|Hm]; [left; exact (Hmut m Hm)|right; exact Hm]. }
    constructor.
    - revert O1. apply cs_inv_ext; assumption.
    - revert O3. apply hist_small_ext. exact E3.
    - destruct Em as [Em|Em]; rewrite Em in *; cbn [mode_inv_m] in *.
      2:{ destruct O4 as (_ & D). split; [rewrite E6; intros Hd; congruence|]. intros _.
          destruct (D Es) as (D1 & D2 & D3 & D4). unfold stale_conn_m. rewrite Hupd.
          split; [exact D1|]. split; [exact D2|]. split; [intros m Hm; exact (D3 m (Hsub m Hm))|].
          rewrite E8, E7. intros Hl. destruct (D4 Hl) as [R B]. split; [revert R; apply srel_ext; assumption|exact B]. }
      destruct O4 as (A & B & C).
      split; [rewrite E6; exact A|]. split; [rewrite E6; intros Hd; congruence|]. intros _.
      destruct (C Es) as [Hr [applied [[C1 C2 C3 C4 C5 C6 C7 C8] L]]]. split; [exact Hr|]. exists applied. rewrite Hupd.
      split.
      + constructor; try assumption.
        * revert C1. apply srel_ext; assumption.
        * rewrite E5. exact C3.
        * revert C6. apply ent_hist_ok_ext; assumption.
        * intros m Hm. apply C7. exact (Hsub m Hm).
        * rewrite E8, E7. exact C8.
      + apply (slink_weaken _ _ _ _ _ _ _ Hsub).
        apply (slink_mono script st (y_server y) (y_server y) gs gs); try reflexivity; auto.
        intros _ _. apply same_records. reflexivity.
  Qed.

  Lemma g_transport script st y gs y' o :
    transport_step st = true -> legal_step st = true ->
    g_inv script y gs -> sys_step y st = Ok (y', o) -> g_inv (script ++ [st]) y' gs.
  Proof.
    intros Ht Hl Hinv H. pose proof Hinv as [Hcfg Hg Htk Hslots].
    assert (Hnt : is_tick_frame st = false) by (destruct st; try discriminate; reflexivity).
    assert (Hmode : forall slot m, mode_step slot m st = m) by (intros slot m; destruct st; try discriminate; reflexivity).
    assert (Hends : forall slot, ends_session slot st = false) by (intros slot; destruct st; try discriminate; reflexivity).
    assert (Hnoop : g_inv (script ++ [st]) y gs) by (apply (g_same script st y gs); try reflexivity; auto).
    (* a state that differs from [y] only in the acknowledgement queue of one link and in one re-inserted client *)
    assert (Hsame : forall slot0 cl lu lm la, al_get slot0 (y_clients y) = Some cl ->
              lu = l_upd (get_link y slot0) -> lm = l_mut (get_link y slot0) ->
              g_inv (script ++ [st]) (set_client (set_link y slot0 (mkLink lu lm la)) slot0 cl) gs).
    { intros slot0 cl lu lm la Ec -> ->. apply (g_same script st y gs); try reflexivity; auto.
      - intros slot. cbn [set_client y_clients set_link]. apply al_get_reinsert. exact Ec.
      - intros slot. change (get_link (set_client ?a ?b ?c) slot) with (get_link a slot).
        destruct (N.eq_dec slot slot0) as [->|Hne];
          [rewrite get_link_set_link_same|rewrite get_link_set_link_other by exact Hne]; reflexivity.
      - intros slot. change (get_link (set_client ?a ?b ?c) slot) with (get_link a slot).
        destruct (N.eq_dec slot slot0) as [->|Hne];
          [rewrite get_link_set_link_same|rewrite get_link_set_link_other by exact Hne]; reflexivity. }
    destruct st as [| | | | | | |slot0 s2c ch w|slot0 s2c ch w]; try discriminate; cbn [sys_step] in H.
    - (* deliver *)
      destruct (al_get slot0 (y_clients y)) as [cl|] eqn:Ec; [|inversion H; subst y' o; exact Hnoop].
      pose proof (Hslots slot0 cl Ec) as [_ _ Hmi].
      destruct s2c.
      + destruct (ch =? 0) eqn:Ech.
        * cbn [legal_step] in Hl. rewrite Ech in Hl. assert (Hw : w <> Last) by (destruct w; congruence).
          destruct (l_upd (get_link y slot0)) as [|u0 q0] eqn:Eq.
          { rewrite take_nil in H. inversion H; subst y' o. cbn [fold_left]. apply Hsame; [exact Ec|auto|reflexivity]. }
          destruct (queued_live_m _ _ _ _ _ _ _ _ Hmi) as [Em Es]; [left; discriminate|].
          rewrite <- Eq in *. clear Eq u0 q0.
          destruct (take w (l_upd (get_link y slot0))) as [picked rest] eqn:Etk. inversion H; subst y' o. clear H.
          apply take_app in Etk; [|exact Hw].
          destruct (deliver_updates_fields picked cl) as (A & B & C & D & E & F & G & K). cbv zeta in A, B, C, D, E, F, G, K.
          apply (g_link_live script _ y gs slot0 cl); try assumption.
          -- apply deliver_updates_lnd.
          -- destruct (deliver_updates_inbox picked cl Es) as [Hi _]. rewrite Hi, <- app_assoc, Etk. reflexivity.
          -- intros m Hm. rewrite F in Hm. exact Hm.
        * destruct (ch =? 1) eqn:Ech1; [|inversion H; subst y' o; exact Hnoop].
          destruct (l_mut (get_link y slot0)) as [|m0 q0] eqn:Eq.
          { rewrite take_nil in H. inversion H; subst y' o. cbn [fold_left]. apply Hsame; [exact Ec|reflexivity|auto]. }
          destruct (queued_live_m _ _ _ _ _ _ _ _ Hmi) as [Em Es]; [right; discriminate|].
          rewrite <- Eq in *. clear Eq m0 q0.
          destruct (take w (l_mut (get_link y slot0))) as [picked rest] eqn:Etk. inversion H; subst y' o. clear H.
          destruct (deliver_mutates_fields picked cl Es) as (A & B & C & D & E & F & G & K & L). cbv zeta in A, B, C, D, E, F, G, K, L.
          refine (g_link_live script _ y gs slot0 cl _ _ _ _ Hinv Hnt Hmode Hends Ec Em Es A B C D E (eq_trans K (eq_sym Es)) G _ _ _).
          -- apply deliver_mutates_lnd.
          -- rewrite L. reflexivity.
          -- intros m Hm. rewrite F in Hm. apply in_app_or in Hm. apply in_or_app. destruct Hm as [Hm|Hm].
             ++ left. exact (take_in _ _ _ _ m Etk (or_intror Hm)).
             ++ apply in_app_or in Hm. destruct Hm as [Hm|Hm]; [right; exact Hm|left; exact (take_in _ _ _ _ m Etk (or_introl Hm))].
      + destruct (ch =? 0); [|inversion H; subst y' o; exact Hnoop].
        destruct (take w (l_ack (get_link y slot0))) as [picked rest] eqn:Etk. inversion H; subst y' o. clear H.
        destruct (deliver_acks_fold_v slot0 picked (y_server y) gs Hg) as (A & B & C). cbv zeta in A, B, C.
        destruct (deliver_acks_fold_flags slot0 picked (y_server y)) as (X1 & X2 & _).
        apply (g_same script _ y gs); [exact Hinv|reflexivity|exact Hmode|exact Hends|reflexivity|reflexivity| | |exact B|exact X1|exact X2|exact C|exact A].
        -- intros slot. change (get_link (set_server ?a ?b) slot) with (get_link a slot).
           destruct (N.eq_dec slot slot0) as [->|Hne];
             [rewrite get_link_set_link_same|rewrite get_link_set_link_other by exact Hne]; reflexivity.
        -- intros slot. change (get_link (set_server ?a ?b) slot) with (get_link a slot).
           destruct (N.eq_dec slot slot0) as [->|Hne];
             [rewrite get_link_set_link_same|rewrite get_link_set_link_other by exact Hne]; reflexivity.
    - (* drop: only the mutation channel *)
      cbn [legal_step] in Hl. destruct s2c; [|discriminate].
      destruct (al_get slot0 (y_clients y)) as [cl|] eqn:Ec; [|inversion H; subst y' o; exact Hnoop].
      pose proof (Hslots slot0 cl Ec) as [_ _ Hmi].
      assert (Hch : ch = 1) by lia. subst ch. cbn in H.
      destruct (l_mut (get_link y slot0)) as [|m0 q0] eqn:Eq.
      { rewrite take_nil in H. inversion H; subst y' o. apply Hsame; [exact Ec|reflexivity|auto]. }
      destruct (queued_live_m _ _ _ _ _ _ _ _ Hmi) as [Em Es]; [right; discriminate|].
      rewrite <- Eq in *. clear Eq m0 q0.
      destruct (take w (l_mut (get_link y slot0))) as [picked rest] eqn:Etk. inversion H; subst y' o. clear H.
      apply (g_link_live script _ y gs slot0 cl); try assumption; try reflexivity.
      intros m Hm. apply in_app_or in Hm. apply in_or_app. destruct Hm as [Hm|Hm]; [left; exact (take_in _ _ _ _ m Etk (or_intror Hm))|right; exact Hm].
  Qed.

  (* ---------- every step ---------- *)

  Lemma g_step script y gs st y' o :
    g_inv script y gs -> run (sys_init cfg0 nclients) script = Ok y ->
    legal_step st = true -> sess_step_ok script st = true -> step_maps_ok y st ->
    tick_frames (script ++ [st]) < 2 ^ 31 ->
    sys_step y st = Ok (y', o) -> g_inv (script ++ [st]) y' (ghost_step_s y gs st).
  Proof.
    intros Hinv Hrun H1 Hs Hmk Hb H.
    destruct st as [| |slot max|slot|slot|tick dt cleanup ops parts|slot ops|slot s2c ch w|slot s2c ch w].
    - cbn [sys_step] in H. inversion H; subst y' o. exact (g_start script y gs Hinv).
    - exact (g_stop script y gs y' o Hinv H).
    - exact (g_connect script y gs slot max y' o Hinv Hs H).
    - cbn [sys_step] in H. inversion H; subst y' o. exact (g_authorize script y gs slot Hinv).
    - exact (g_disconnect script y gs slot y' o Hinv H).
    - exact (g_sframe script y gs tick dt cleanup ops parts y' o Hinv Hrun Hmk Hb H).
    - exact (g_cframe script y gs slot ops y' o Hinv Hmk H).
    - exact (g_transport script (StDeliver slot s2c ch w) y gs y' o eq_refl H1 Hinv H).
    - exact (g_transport script (StDrop slot s2c ch w) y gs y' o eq_refl H1 Hinv H).
  Qed.

  Theorem g_run script : forall y gs,
    script_okg script = true -> run_maps_ok (sys_init cfg0 nclients) script -> tick_frames script < 2 ^ 31 ->
    erun_s (sys_init cfg0 nclients) [] script = Ok (y, gs) -> g_inv script y gs.
  Proof.
    induction script as [|st t IH] using rev_ind; intros y gs Hok Hmk Hb H.
    - cbn in H. inversion H; subst. exact g_init.
    - unfold script_okg, legal in Hok. rewrite !forallb_app, sessions_ok_snoc in Hok. cbn [forallb] in Hok.
      rewrite !andb_true_r in Hok.
      apply andb_prop in Hok. destruct Hok as [L S].
      apply andb_prop in S. destruct S as [S1 S2]. apply andb_prop in L. destruct L as [L1 L2].
      apply run_maps_ok_snoc in Hmk. destruct Hmk as [Hmk1 Hmk2].
      rewrite erun_s_app in H. destruct (erun_s (sys_init cfg0 nclients) [] t) as [[y1 gs1]| |] eqn:E1; cbn [bind] in H; try discriminate.
      cbn [erun_s] in H. destruct (sys_step y1 st) as [[y2 o]| |] eqn:E2; cbn [bind] in H; try discriminate.
      inversion H; subst y gs. clear H. pose proof (tick_frames_mono t st) as Hm.
      pose proof (erun_s_run _ _ _ _ _ E1) as Hr1.
      refine (g_step t y1 gs1 st y2 o (IH y1 gs1 _ Hmk1 _ eq_refl) Hr1 L2 S2 (Hmk2 y1 Hr1) Hb E2); [|lia].
      unfold script_okg, legal. rewrite L1, S1. reflexivity.
  Qed.

  (* ================================================================ *)
  (* 3. the theorems                                                  *)
  (* ================================================================ *)

  (* (a) FIFO and atomicity, per session: the update messages sent to a connected client SINCE ITS CURRENT
         CONNECT (the ghost of the slot starts from [] at every connect) split into those it has applied
         (its structure is their `abs_apply` fold) and those still in its inbox or in the queue, in order;
         every non-empty prefix is the structure visible to the slot's record at a moment of the current
         session (no session end of the slot since), at the tick of the prefix's last message *)
  Theorem g_fifo script y gs slot c :
    script_okg script = true -> run_maps_ok (sys_init cfg0 nclients) script -> tick_frames script < 2 ^ 31 ->
    erun_s (sys_init cfg0 nclients) [] script = Ok (y, gs) ->
    al_get slot (y_clients y) = Some c -> mode_of script slot = MLive -> cl_status c = Connected ->
    ginv_v (mkG (y_server y) gs) /\
    exists applied,
      struct_equiv (client_struct c) (fold_left abs_apply applied []) /\
      fold_left abs_apply (applied ++ cl_inbox_upd c ++ l_upd (get_link y slot)) [] = sent_of slot gs /\
      (applied <> [] -> cl_upd_tick c = u_tick (last applied dflt_upd)) /\
      ticks_incr (applied ++ cl_inbox_upd c ++ l_upd (get_link y slot)) /\
      (forall p q, applied ++ cl_inbox_upd c ++ l_upd (get_link y slot) = p ++ q -> p <> [] ->
         exists pre post y1 cl1, script = pre ++ post /\ run (sys_init cfg0 nclients) pre = Ok y1 /\
           forallb (fun st => negb (ends_session slot st)) post = true /\
           find_client (y_server y1) slot = Some cl1 /\ sc_authorized cl1 = true /\
           struct_equiv (fold_left abs_apply p []) (struct_vis (y_server y1) cl1) /\
           u_tick (last p dflt_upd) = sv_tick (y_server y1)).
  Proof.
    intros Hok Hmk Hb H Hc Hm Hs. pose proof (g_run script y gs Hok Hmk Hb H) as [_ Hg _ Hslots]. split; [exact Hg|].
    destruct (Hslots slot c Hc) as [O1 _ O4]. rewrite Hm in O4. cbn [mode_inv_m] in O4. destruct O4 as (_ & _ & C).
    destruct (C Hs) as [_ [applied [[C1 _ C3 _ C5 _ _ _] [L1 L2 _ _ _ _]]]].
    exists applied. split; [apply srel_struct_equiv; [exact (cs_inv_nodup c O1)|exact C1]|]. split; [exact L1|].
    split; [exact C3|]. split; [exact C5|]. intros p q E Hp. destruct (L2 p q E Hp) as (y1 & cl1 & (pre & post & E1 & R & Hp1) & A).
    exists pre, post, y1, cl1. auto.
  Qed.

  Theorem g_in_flight script y gs slot c :
    script_okg script = true -> run_maps_ok (sys_init cfg0 nclients) script -> tick_frames script < 2 ^ 31 ->
    erun_s (sys_init cfg0 nclients) [] script = Ok (y, gs) ->
    al_get slot (y_clients y) = Some c -> mode_of script slot = MLive -> cl_status c = Connected ->
    struct_equiv (fold_left abs_apply (cl_inbox_upd c ++ l_upd (get_link y slot)) (client_struct c)) (sent_of slot gs).
  Proof.
    intros Hok Hmk Hb H Hc Hm Hs. destruct (g_fifo script y gs slot c Hok Hmk Hb H Hc Hm Hs) as (_ & applied & C1 & C2 & _).
    rewrite <- C2. rewrite (fold_left_app abs_apply applied). apply abs_apply_fold_equiv. exact C1.
  Qed.

  (* ... and once everything in flight is applied the client holds what is visible to it now *)
  Corollary g_synced script y gs slot c :
    script_okg script = true -> run_maps_ok (sys_init cfg0 nclients) script -> tick_frames script < 2 ^ 31 ->
    erun_s (sys_init cfg0 nclients) [] script = Ok (y, gs) ->
    al_get slot (y_clients y) = Some c -> mode_of script slot = MLive -> cl_status c = Connected ->
    cl_inbox_upd c = [] -> l_upd (get_link y slot) = [] ->
    struct_equiv (client_struct c) (sent_of slot gs).
  Proof.
    intros Hok Hmk Hb H Hc Hm Hs Hi Hl. pose proof (g_in_flight script y gs slot c Hok Hmk Hb H Hc Hm Hs) as G.
    rewrite Hi, Hl in G. exact G.
  Qed.

  (* (b) C03: at every moment, for every slot that is clean or live, the structure its client holds is
         the empty structure or the structure that was visible to the slot's record at an earlier moment
         of its CURRENT session, namely at the tick the client reports as its update tick *)
  Theorem g_every_moment script y slot c :
    script_okg script = true -> run_maps_ok (sys_init cfg0 nclients) script -> tick_frames script < 2 ^ 31 ->
    run (sys_init cfg0 nclients) script = Ok y -> al_get slot (y_clients y) = Some c ->
    mode_of script slot = MClean \/ mode_of script slot = MLive ->
    struct_equiv (client_struct c) [] \/
    exists pre post y1 cl1, script = pre ++ post /\ run (sys_init cfg0 nclients) pre = Ok y1 /\
      forallb (fun st => negb (ends_session slot st)) post = true /\
      find_client (y_server y1) slot = Some cl1 /\ sc_authorized cl1 = true /\
      struct_equiv (client_struct c) (struct_vis (y_server y1) cl1) /\ cl_upd_tick c = sv_tick (y_server y1).
  Proof.
    intros Hok Hmk Hb H Hc Hm. destruct (run_erun_s script (sys_init cfg0 nclients) [] y H) as [gs He].
    pose proof (g_run script y gs Hok Hmk Hb He) as [_ _ _ Hslots].
    destruct (Hslots slot c Hc) as [O1 _ O4]. pose proof (cs_inv_nodup c O1) as Hnd.
    destruct Hm as [Hm|Hm]; rewrite Hm in O4; cbn [mode_inv_m] in O4.
    - left. destruct O4 as (_ & (R & _) & _). apply srel_struct_equiv; [exact Hnd|exact R].
    - destruct O4 as (_ & B & C). destruct (status_dec c) as [Es|Es].
      + left. destruct (B Es) as ((R & _) & _). apply srel_struct_equiv; [exact Hnd|exact R].
      + destruct (C Es) as [_ [applied [[C1 _ C3 _ _ _ _ _] [_ L2 _ _ _ _]]]]. destruct applied as [|u0 t0] eqn:Ea.
        * left. apply srel_struct_equiv; [exact Hnd|exact C1].
        * right. rewrite <- Ea in *. assert (Hne : applied <> []) by (rewrite Ea; discriminate).
          destruct (L2 applied _ eq_refl Hne) as (y1 & cl1 & (pre & post & E & R & Hp) & F & Au & A & B0).
          exists pre, post, y1, cl1. split; [exact E|]. split; [exact R|]. split; [exact Hp|]. split; [exact F|]. split; [exact Au|]. split.
          -- eapply struct_equiv_trans; [|exact A]. apply srel_struct_equiv; [exact Hnd|exact C1].
          -- rewrite (C3 Hne). exact B0.
  Qed.

  (* (c) the update tick a client reports never decreases within a session: the update messages of a
         session have strictly increasing ticks and are applied in order (the statement about the list) *)
  Theorem g_ticks_increase script y gs slot c :
    script_okg script = true -> run_maps_ok (sys_init cfg0 nclients) script -> tick_frames script < 2 ^ 31 ->
    erun_s (sys_init cfg0 nclients) [] script = Ok (y, gs) ->
    al_get slot (y_clients y) = Some c -> mode_of script slot = MLive -> cl_status c = Connected ->
    forall u, In u (cl_inbox_upd c ++ l_upd (get_link y slot)) -> struct_equiv (client_struct c) [] \/ cl_upd_tick c < u_tick u.
  Proof.
    intros Hok Hmk Hb H Hc Hm Hs u Hu. pose proof (g_run script y gs Hok Hmk Hb H) as [_ _ _ Hslots].
    destruct (Hslots slot c Hc) as [O1 _ O4]. rewrite Hm in O4. cbn [mode_inv_m] in O4. destruct O4 as (_ & _ & C).
    destruct (C Hs) as [_ [applied [[C1 _ C3 _ C5 _ _ _] _]]]. destruct applied as [|u0 t0] eqn:Ea.
    - left. apply srel_struct_equiv; [exact (cs_inv_nodup c O1)|exact C1].
    - right. rewrite <- Ea in *. assert (Hne : applied <> []) by (rewrite Ea; discriminate). rewrite (C3 Hne).
      apply (C5 applied _ eq_refl); [apply last_in; exact Hne|exact Hu].
  Qed.

  (* ... and a client frame never moves the update tick of a connected client backwards (the other steps do
     not touch it); before the first update message of a session is applied the structure is empty *)
  Lemma cside_frame_tick_m c applied rest lmut ops c' out :
    cs_inv c -> hist_small c -> cl_status c = Connected ->
    cside_m c applied (cl_inbox_upd c ++ rest) lmut -> cframe_ok c ops -> client_frame c ops = Ok (c', out) ->
    applied <> [] -> cl_upd_tick c <= cl_upd_tick c'.
  Proof.
    intros Hinv Hhs Es C1 Hcok H Hne.
    destruct (cframe_conn_m c applied rest lmut ops c' out Hinv Hhs Es C1 Hcok H) as (_ & _ & _ & _ & _ & _ & C1').
    rewrite (cm_tick _ _ _ _ C1 Hne). rewrite (cm_tick _ _ _ _ C1') by (destruct applied; [congruence|discriminate]).
    destruct (cl_inbox_upd c) as [|u0 t0] eqn:Ei; [rewrite app_nil_r; lia|].
    rewrite last_app_ne by discriminate. apply N.lt_le_incl.
    apply (cm_incr _ _ _ _ C1 applied ((u0 :: t0) ++ rest) eq_refl); [apply last_in; exact Hne|].
    apply in_or_app. left. apply last_in. discriminate.
  Qed.

  Theorem g_tick_monotone script y gs slot c ops y' o c' :
    script_okg script = true -> run_maps_ok (sys_init cfg0 nclients) script -> tick_frames script < 2 ^ 31 ->
    erun_s (sys_init cfg0 nclients) [] script = Ok (y, gs) ->
    al_get slot (y_clients y) = Some c -> mode_of script slot = MLive -> cl_status c = Connected ->
    cframe_ok c ops ->
    sys_step y (StCFrame slot ops) = Ok (y', o) -> al_get slot (y_clients y') = Some c' ->
    struct_equiv (client_struct c) [] \/ cl_upd_tick c <= cl_upd_tick c'.
  Proof.
    intros Hok Hmk Hb H Hc Hm Hs Hcok Hstep Hc'. pose proof (g_run script y gs Hok Hmk Hb H) as [_ _ _ Hslots].
    destruct (Hslots slot c Hc) as [O1 O3 O4]. rewrite Hm in O4. cbn [mode_inv_m] in O4. destruct O4 as (_ & _ & C).
    destruct (C Hs) as [_ [applied [C1 _]]].
    destruct (client_frame c ops) as [[cl' cfo]| |] eqn:Ef;
      [|cbn [sys_step] in Hstep; rewrite Hc, Ef in Hstep; discriminate|cbn [sys_step] in Hstep; rewrite Hc, Ef in Hstep; discriminate].
    destruct (cframe_sys y slot ops c cl' cfo y' o Hc Ef Hstep) as (_ & F2 & _).
    rewrite F2, al_get_insert_same in Hc'. inversion Hc'; subst c'.
    destruct applied as [|u0 t0] eqn:Ea.
    - left. apply srel_struct_equiv; [exact (cs_inv_nodup c O1)|exact (cm_rel _ _ _ _ C1)].
    - right. rewrite <- Ea in *. apply (cside_frame_tick_m c applied _ _ ops cl' cfo O1 O3 Hs C1 Hcok Ef). rewrite Ea. discriminate.
  Qed.

  (* (d) what is proved for the other slots *)

  (* a clean slot: the client is not connected and holds nothing of the server, nothing is queued, buffered
     or in its inboxes, the server has no record of it *)
  Theorem g_clean script y slot c :
    script_okg script = true -> run_maps_ok (sys_init cfg0 nclients) script -> tick_frames script < 2 ^ 31 ->
    run (sys_init cfg0 nclients) script = Ok y -> al_get slot (y_clients y) = Some c ->
    mode_of script slot = MClean ->
    cl_status c = Disconnected /\ struct_equiv (client_struct c) [] /\ cl_buffered c = [] /\
    cl_inbox_upd c = [] /\ cl_inbox_mut c = [] /\ find_client (y_server y) slot = None /\
    l_upd (get_link y slot) = [] /\ l_mut (get_link y slot) = [].
  Proof.
    intros Hok Hmk Hb H Hc Hm. destruct (run_erun_s script (sys_init cfg0 nclients) [] y H) as [gs He].
    pose proof (g_run script y gs Hok Hmk Hb He) as [_ _ _ Hslots].
    destruct (Hslots slot c Hc) as [O1 _ O4]. rewrite Hm in O4. cbn [mode_inv_m] in O4.
    destruct O4 as (A & (R & B & I & M) & C & D & E). split; [exact A|].
    split; [apply srel_struct_equiv; [exact (cs_inv_nodup c O1)|exact R]|]. split; [exact B|]. split; [exact I|]. split; [exact M|].
    split; [|auto]. destruct (find_client (y_server y) slot) eqn:Ef; [|reflexivity]. exfalso. apply C. apply has_rec_find. congruence.
  Qed.

  (* a slot whose session was ended by `StDisconnect` and whose client has not run a frame since: the
     client may still hold the old structure; the server has forgotten it, nothing is queued or in the
     inboxes, and the next frame of the client makes the slot clean (mode_left_cframe, g_clean) *)
  Theorem g_left script y slot c :
    script_okg script = true -> run_maps_ok (sys_init cfg0 nclients) script -> tick_frames script < 2 ^ 31 ->
    run (sys_init cfg0 nclients) script = Ok y -> al_get slot (y_clients y) = Some c ->
    mode_of script slot = MLeft ->
    cl_status c = Disconnected /\ cs_inv c /\ cl_inbox_upd c = [] /\ cl_inbox_mut c = [] /\
    find_client (y_server y) slot = None /\ l_upd (get_link y slot) = [] /\ l_mut (get_link y slot) = [].
  Proof.
    intros Hok Hmk Hb H Hc Hm. destruct (run_erun_s script (sys_init cfg0 nclients) [] y H) as [gs He].
    pose proof (g_run script y gs Hok Hmk Hb He) as [_ _ _ Hslots].
    destruct (Hslots slot c Hc) as [O1 _ O4]. rewrite Hm in O4. cbn [mode_inv_m] in O4.
    destruct O4 as (A & (I & M & _) & C & D & E). split; [exact A|]. split; [exact O1|]. split; [exact I|]. split; [exact M|].
    split; [|auto]. destruct (find_client (y_server y) slot) eqn:Ef; [|reflexivity]. exfalso. apply C. apply has_rec_find. congruence.
  Qed.

  (* a slot that was live when the server stopped and has not been disconnected yet: the client invariant is
     kept, so that `StDisconnect slot; StCFrame slot _` brings the slot back to MClean; a client that is not
     connected is clean *)
  Theorem g_stale script y slot c :
    script_okg script = true -> run_maps_ok (sys_init cfg0 nclients) script -> tick_frames script < 2 ^ 31 ->
    run (sys_init cfg0 nclients) script = Ok y -> al_get slot (y_clients y) = Some c ->
    mode_of script slot = MStale ->
    cs_inv c /\ (cl_status c = Disconnected -> struct_equiv (client_struct c) [] /\ find_client (y_server y) slot = None).
  Proof.
    intros Hok Hmk Hb H Hc Hm. destruct (run_erun_s script (sys_init cfg0 nclients) [] y H) as [gs He].
    pose proof (g_run script y gs Hok Hmk Hb He) as [_ _ _ Hslots].
    destruct (Hslots slot c Hc) as [O1 _ O4]. rewrite Hm in O4. cbn [mode_inv_m] in O4.
    destruct O4 as (C & _). split; [exact O1|]. intros Hd. destruct (C Hd) as ((R & _) & C2 & _).
    split; [apply srel_struct_equiv; [exact (cs_inv_nodup c O1)|exact R]|].
    destruct (find_client (y_server y) slot) eqn:Ef; [|reflexivity]. exfalso. apply C2. apply has_rec_find. congruence.
  Qed.

  (* the invariant of the ghost run of C03V along the whole run *)
  Theorem g_ghost_invariant script y gs :
    script_okg script = true -> run_maps_ok (sys_init cfg0 nclients) script -> tick_frames script < 2 ^ 31 ->
    erun_s (sys_init cfg0 nclients) [] script = Ok (y, gs) -> ginv_v (mkG (y_server y) gs).
  Proof. intros Hok Hmk Hb H. exact (gi2_ginv _ _ _ (g_run script y gs Hok Hmk Hb H)). Qed.

End MAPS.
