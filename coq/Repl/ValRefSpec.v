(* C02 / C01 end to end at the value level WITH ENTITY REFERENCES: definitions.  Generalises Repl/ValVisSpec.v (every
   visibility policy, several sessions, re-replication; kinds 0 / 1 holding `VNat`) to

     kinds     every component kind whose rate is `EveryTick` (0 A, 1 B, 3 R of the harness pool; not 2 `Once`, not 4
               `Periodic`), holding ANY value: `VNat n` or `VRef t`
     values    a client value [cv] stands for the server value [v] in client [c] ([vrel]): `CNat n` for `VNat n`, and
               `CRef cid` for `VRef t` when the client's entity map sends [cid] back to [t]
               (`al_get cid (cl_c2s c) = Some t`; this is `Converge.cval_matches`, and what `Sys.describe` reports)

   A reference to a server entity the client does not know makes the client reserve a PLACEHOLDER (mapped, not marked,
   no confirm history), which is adopted when the entity is replicated to the client later.  The client never repoints
   a reference it holds, so the one thing that breaks it is a DESPAWN RECORD for its target (the map entry goes, the
   client entity dies; if the server entity is replicated again it gets a NEW client entity: defect class D25).  The
   hypothesis that excludes exactly this is [refs_kept]: a despawn record sent to a client at tick T names no entity that
   an entity visible to that client referenced in an EARLIER snapshot (tick < T) of the client's session.  Losing an
   entity BEFORE it is referenced, or in the very tick in which the reference appears, is harmless.

   What changes in the invariants of Repl/ValVisSpec.v:
     mapped_okr   a mapped client entity is a live replica with a confirm history, or is not marked (placeholder)
     absentr      "the client holds no replica of [e]" (it may hold a placeholder)
     agreer       [vrel] instead of equality with `cv_nat`
     cr_nd        new field of the client invariant: the despawn records on their way name no entity referenced in an
                  earlier snapshot
   Lemmas: Repl/ValRefHist_proofs.v (server history), Repl/ValRefClient_proofs.v (writing references),
   Repl/ValRefCli_proofs.v (client half), Repl/ValRefSrv_proofs.v + Repl/ValRefFrame_proofs.v (server half),
   Repl/ValRefE2E_proofs.v (whole-system runs), Repl/ValRefSettle_proofs.v; pinned: Properties/C02G.v, Properties/C01G.v. *)
From RV Require Import Lib.Res Repl.ClientTicks Repl.World Vis.Visibility Tick.RepliconTick Tick.ConfirmHistory
  Tick.MutateTicks Repl.Server Repl.ServerSpec Repl.StructSpec Repl.StructVisSpec Repl.Client Repl.Sys Repl.ClientStructSpec
  Repl.ClientStruct_proofs Repl.ClientMut_proofs Repl.StructE2E_proofs Repl.StructE2EMut_proofs Repl.StructE2ESess_proofs
  Repl.ValSpec Repl.ValVisSpec.
Open Scope N_scope.

(* ================================================================== *)
(* 1. scripts                                                         *)
(* ================================================================== *)

(* the kinds replicated every tick *)
Definition kind_et (k : N) : bool := negb (k =? 2) && negb (k =? 4).

(* every-tick kinds, any value *)
Definition sop_valsr (op : sop) : bool :=
  match op with
  | SSpawn _ _ comps => forallb (fun kv => kind_et (fst kv)) comps
  | SInsert _ k _ => kind_et k
  | SMutate _ k _ => kind_et k
  | _ => true
  end.
Definition step_valsr (st : step) : bool :=
  match st with StSFrame _ _ _ ops _ => forallb sop_valsr ops | _ => true end.
Definition script_valsr (script : list step) : bool := forallb step_valsr script.

(* the despawn records a step sends to a slot *)
Definition desp_step (y : sys) (st : step) (slot : N) : list N :=
  match st with
  | StSFrame tick dt cleanup ops parts =>
    match server_frame (y_cfg y) (y_server y) tick dt cleanup ops parts with
    | Ok (_, fo) => match upd_for slot (fo_clients fo) with Some u => u_despawns u | None => [] end
    | _ => []
    end
  | _ => []
  end.

(* [d] is referenced by an entity visible to the slot in the server state [s0] *)
Definition refd (slot : N) (s0 : server) (d : N) : Prop :=
  exists e x1 k c, vrepl slot s0 e = Some x1 /\ al_get k (se_comps x1) = Some c /\ c_val c = VRef d.

Section RefsKept.
  Variables (cfg0 : cfg) (nclients : N).

  (* a despawn record sent to the slot names no entity that was referenced, visibly to the slot, in an earlier
     snapshot of the session of the slot *)
  Definition refs_kept (script : list step) (slot : N) : Prop :=
    forall pre st post y0, script = pre ++ st :: post -> run (sys_init cfg0 nclients) pre = Ok y0 ->
      forall d, In d (desp_step y0 st slot) ->
        forall t r s0, snaps cfg0 nclients slot pre t r s0 -> ~ refd slot s0 d.
End RefsKept.

(* ---------- an executable check of [refs_kept] (sound: Repl/ValRefCheck_proofs.v) ---------- *)

Definition val_refs (v : val) : list N := match v with VRef t => [t] | VNat _ => [] end.
Definition comp_refs (cs : list (N * comp)) : list N := flat_map (fun kc => val_refs (c_val (snd kc))) cs.

(* the entities referenced by the entities visible to the slot *)
Definition vis_refs (slot : N) (s : server) : list N :=
  flat_map (fun ex => match vrepl slot s (fst ex) with Some x => comp_refs (se_comps x) | None => [] end) (sv_ents s).

(* what a step adds to the references seen by the slot: those of the snapshot a server frame takes *)
Definition step_seen (y' : sys) (o : out) (slot : N) : list N :=
  match o with OSFrame fo _ => if fo_ran fo then vis_refs slot (y_server y') else [] | _ => [] end.

(* run the script; [seen]: the entities referenced in the snapshots of the current session of the slot *)
Fixpoint refs_keptb_from (y : sys) (script : list step) (slot : N) (seen : list N) : bool :=
  match script with
  | [] => true
  | st :: rest =>
    match sys_step y st with
    | Ok (y', o) =>
      forallb (fun d => negb (mem_N d seen)) (desp_step y st slot) &&
      refs_keptb_from y' rest slot (if ends_session slot st then [] else seen ++ step_seen y' o slot)
    | _ => true
    end
  end.
Definition refs_keptb (cfg0 : cfg) (nclients : N) (script : list step) (slot : N) : bool :=
  refs_keptb_from (sys_init cfg0 nclients) script slot [].

(* the slots of `sys_init`; ... the check for every slot *)
Definition client_slots (nclients : N) : list N := map N.of_nat (seq 0 (N.to_nat nclients)).
Definition refs_keptb_all (cfg0 : cfg) (nclients : N) (script : list step) : bool :=
  forallb (refs_keptb cfg0 nclients script) (client_slots nclients).

(* ================================================================== *)
(* 2. server history                                                  *)
(* ================================================================== *)

(* sorted component lists of every-tick kinds, stamped below the counter *)
Definition comps_okr (now : N) (l : list (N * comp)) : Prop :=
  ksorted l /\
  forall k c, In (k, c) l -> kind_et k = true /\ c_added c <= c_changed c /\ c_changed c <= now.
Definition ents_okr (s : server) : Prop :=
  forall e x, get_ent s e = Some x -> comps_okr (sv_now s) (se_comps x).

Section HistR.
  Variables (cfg0 : cfg) (nclients : N).

  Record srv_histr (script : list step) (s : server) : Prop := mkSrvHistR {
    hr_wf : ents_wf s;
    hr_ents : ents_okr s;
    hr_now : sv_last_run s < sv_now s;
    hr_tick : sv_tick s <= tick_frames script;
    hr_r : forall t r s1, snap cfg0 nclients script t r s1 -> r <= sv_last_run s /\ t < 2 ^ 31 /\ ents_wf s1;
    hr_rinj : forall t1 r1 s1 t2 r2 s2, snap cfg0 nclients script t1 r1 s1 -> snap cfg0 nclients script t2 r2 s2 ->
              r1 = r2 -> t1 = t2 /\ s1 = s2;
    hr_keep : forall t1 r1 s1, snap cfg0 nclients script t1 r1 s1 -> keeps r1 s1 s;
    hr_keep2 : forall t1 r1 s1 t2 r2 s2, snap cfg0 nclients script t1 r1 s1 -> snap cfg0 nclients script t2 r2 s2 ->
               r1 <= r2 -> keeps r1 s1 s2;
    hr_run : (exists t r s1, esnap cfg0 nclients script t r s1) -> sv_running s = true;
    hr_bound : forall t r s1, esnap cfg0 nclients script t r s1 ->
               t <= sv_tick s /\ (sv_dirty s = true -> t < sv_tick s);
    hr_inj : forall t1 r1 s1 t2 r2 s2, esnap cfg0 nclients script t1 r1 s1 -> esnap cfg0 nclients script t2 r2 s2 ->
             r1 < r2 -> t1 < t2;
    hr_t0 : t0_invv cfg0 nclients script s
  }.
End HistR.

(* ================================================================== *)
(* 3. the client side                                                 *)
(* ================================================================== *)

(* the client value [cv] stands for the server value [v]: a reference is read back through the client's entity map *)
Definition vrel (c : client) (v : val) (cv : cval) : Prop :=
  match v, cv with
  | VNat n, CNat m => n = m
  | VRef t, CRef cid => al_get cid (cl_c2s c) = Some t
  | _, _ => False
  end.

(* the client components stand for the server values, on the kinds both have *)
Definition agreer (c : client) (cc : list (N * cval)) (sc : list (N * comp)) : Prop :=
  forall k cv c0, al_get k cc = Some cv -> al_get k sc = Some c0 -> vrel c (c_val c0) cv.

(* `write_comps` once all references are mapped: every value replaces / is inserted under its kind *)
Definition wr_compsr (s2c : list (N * N)) (vals : list (N * val)) (base : list (N * cval)) : list (N * cval) :=
  fold_left (fun acc kv => kinsert (fst kv) (cval_of s2c (snd kv)) acc) vals base.

(* a mapped client entity is a live replica with a confirm history, or is not marked (the placeholder of a reference) *)
Definition mapped_okr (c : client) : Prop :=
  forall e cid, al_get e (cl_s2c c) = Some cid ->
    (exists x h, has c e x h) \/ (exists x, centof c e = Some x /\ ce_marker x = false).

Definition entry_valsr (s1 : server) (e : N) (vals : list (N * val)) : Prop :=
  NoDup (map fst vals) /\
  exists x1, get_ent s1 e = Some x1 /\
    forall k v, In (k, v) vals -> exists c, al_get k (se_comps x1) = Some c /\ c_val c = v.

(* update messages as the server builds them in the scope of this development *)
Definition upd_shaper (u : update_msg) : Prop :=
  u_maps u = [] /\ NoDup (map fst (u_removals u)) /\ NoDup (map fst (u_changes u)).

(* the client holds no replica of [e] (it may hold a placeholder), and every update message on its way that mentions
   [e] is not older than tick [t] *)
Definition absentr (c : client) (pend : list update_msg) (e t : N) : Prop :=
  (forall x h, ~ has c e x h) /\ forall u, In u pend -> mentions u e -> t <= u_tick u.

Definition cgr (c : client) (pend : list update_msg) (g e t : N) : Prop :=
  will_conf pend g e t \/ has_conf c e t \/ absentr c pend e t.

Section InvR.
  Variable slot : N.
  Variable SN : N -> N -> server -> Prop.

  Definition conf_sincer (c : client) (pend : list update_msg) (g e a : N) : Prop :=
    exists t_a s_a, SN t_a a s_a /\ cgr c pend g e t_a.

  Definition ent_promiser (c : client) (pend : list update_msg) (g : N) (s1 : server) (e : N)
             (vals : list (N * val)) : Prop :=
    entry_valsr s1 e vals /\
    (entry_full s1 e vals \/ exists a, entry_since s1 e vals a /\ conf_sincer c pend g e a).

  Definition upd_okr (c : client) (pend : list update_msg) (u : update_msg) : Prop :=
    upd_shaper u /\
    exists r s1, SN (u_tick u) r s1 /\
      forall e, mentions u e -> ent_promiser c pend (u_tick u) s1 e (al_dflt e (u_changes u)).

  Definition mut_okr (c : client) (pend : list update_msg) (m : mutate_msg) : Prop :=
    m_upd_tick m <= m_tick m /\
    (forall u, In u pend -> u_tick u <= m_upd_tick m \/ m_tick m < u_tick u) /\
    exists r s1, SN (m_tick m) r s1 /\
      forall e vals, In (e, vals) (m_body m) ->
        entry_valsr s1 e vals /\
        exists a, entry_since s1 e vals a /\ conf_sincer c pend (m_upd_tick m + 1) e a /\ kstablev slot SN r s1 e a.

  (* the despawn records of [u] name no entity referenced, visibly to the slot, in an earlier snapshot *)
  Definition desp_fresh (u : update_msg) : Prop :=
    forall d, In d (u_despawns u) -> forall t r s0, SN t r s0 -> t < u_tick u -> ~ refd slot s0 d.

  Record cli_invr (c : client) (pend : list update_msg) (muts : list mutate_msg) : Prop := mkCliInvR {
    cr_cs : cs_inv c;
    cr_pu : ClientStruct_proofs.pu c;
    cr_mo : mapped_okr c;
    (* T: a replica has the component kinds and stands for the values the entity had, visible to the slot, in the
       snapshot of its confirmed tick *)
    cr_T : forall e x h, has c e x h ->
           exists r s1 x1, SN (h_last h) r s1 /\ vrepl slot s1 e = Some x1 /\ agreer c (ce_comps x) (se_comps x1) /\
                           kinds_equiv (map fst (ce_comps x)) (map fst (se_comps x1));
    cr_ut : cl_upd_tick c = 0 \/ exists r s1, SN (cl_upd_tick c) r s1;
    cr_lt : forall u, In u pend -> cl_upd_tick c < u_tick u;
    cr_incr : ticks_incr pend;
    cr_hl : forall e x h, has c e x h -> forall u, In u pend -> h_last h < u_tick u;
    cr_pend : forall u, In u pend -> upd_okr c pend u;
    cr_muts : forall m, In m muts -> mut_okr c pend m;
    cr_struct : forall p u q, pend = p ++ u :: q ->
                exists r s1, SN (u_tick u) r s1 /\
                  struct_equiv (fold_left abs_apply (p ++ [u]) (client_struct c)) (vstruct slot s1);
    cr_nd : forall u, In u pend -> desp_fresh u
  }.

  Record srv_slot_invr (s : server) (cl : sclient) (c : client) (pend : list update_msg) (muts : list mutate_msg)
         (acks : list N) : Prop := mkSrvSlotR {
    (* K: an acknowledged stamp is backed by the client *)
    sr_K : forall e a, mutation_tick (sc_ticks cl) e = Some a -> conf_sincer c pend (sv_tick s + 1) e a;
    sr_ack : forall i info e, In i acks -> al_get i (ct_mutations (sc_ticks cl)) = Some info -> In e (mi_entities info) ->
             conf_sincer c pend 0 e (ClientTicks.mi_tick info);
    sr_reg : forall m info, In m muts -> al_get (m_idx m) (ct_mutations (sc_ticks cl)) = Some info ->
             (exists s1, SN (m_tick m) (ClientTicks.mi_tick info) s1) /\ mi_entities info = map fst (m_body m);
    sr_midx : forall m, In m muts -> m_idx m < ct_mutate_index (sc_ticks cl);
    sr_aidx : forall i, In i acks -> i < ct_mutate_index (sc_ticks cl);
    sr_ut : ct_update_tick (sc_ticks cl) <= sv_tick s;
    sr_utp : forall u, In u pend -> u_tick u <= ct_update_tick (sc_ticks cl);
    sr_nd : NoDup (al_keys (ct_mutations (sc_ticks cl)));
    sr_SK : forall e a, mutation_tick (sc_ticks cl) e = Some a -> forall t r s0, SN t r s0 -> a <= r ->
            ClientStruct_proofs.opt_equiv (al_get e (vstruct slot s0)) (al_get e (fold_left abs_apply pend (client_struct c)));
    sr_le : (forall e a, mutation_tick (sc_ticks cl) e = Some a -> a < sv_now s) /\
            (forall i info, al_get i (ct_mutations (sc_ticks cl)) = Some info -> ClientTicks.mi_tick info < sv_now s);
    sr_mupd : forall m, In m muts -> m_upd_tick m <= ct_update_tick (sc_ticks cl);
    sr_last : ct_update_tick (sc_ticks cl) = last (map u_tick pend) (cl_upd_tick c)
  }.
End InvR.

(* ================================================================== *)
(* 4. convergence                                                     *)
(* ================================================================== *)

(* a client value (if any) stands for the server value (if any), and there is one exactly when there is the other *)
Definition opt_vrel (c : client) (ov : option val) (ocv : option cval) : Prop :=
  match ocv, ov with
  | Some cv, Some v => vrel c v cv
  | None, None => True
  | _, _ => False
  end.

(* the client holds a value for component [k] of server entity [e] exactly when the server replicates one to the slot,
   and the client value stands for the server value *)
Definition view_agrees (c : client) (slot : N) (s : server) (e k : N) : Prop :=
  opt_vrel c (sviewv slot s e k) (cview c e k).
