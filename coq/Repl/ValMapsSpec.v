(* C02 / C01 / C16 end to end at the value level WITH PRE-SPAWN MAPPINGS (`SMap` operations): definitions.

   The value theorems of Repl/ValRef*.v are proved for scripts without `SMap`.  They are transferred to scripts with `SMap`
   (scope `script_okg` + `run_maps_ok` of Repl/StructE2EMaps_proofs.v) through a NORMAL FORM of the client:

     strip u    the update message [u] without its mappings
     nent x     a client entity with its pre-spawn id forgotten; a pre-spawned entity that a mapping has just marked
                (`Replicated`, but no confirm history yet) counts as unmarked: it is then exactly the PLACEHOLDER a
                reference to its server entity would have reserved (`Client.map_value`)
     ncl c      the client with every entity normalised and the mappings stripped from its inbox

   Nothing in `apply_update_message` (after the mappings), `apply_mutate_messages` reads `ce_pre` or `ce_marker`, so all of
   them commute with [ncl] (Repl/ValMapsNorm_proofs.v), and applying the mappings of a harmless message ([maps_ok]) is, on
   the normal form, reserving placeholders.  The invariants of Repl/ValRefSpec.v are kept for [ncl c] and the stripped
   messages; every statement about values, confirm histories and the entity map is the same for [c] and [ncl c].
   Lemmas: Repl/ValMapsNorm_proofs.v, ValMapsCli_proofs.v, ValMapsSrv_proofs.v, ValMapsE2E_proofs.v, ValMapsSettle_proofs.v,
   ValMapsC16_proofs.v; pinned: Properties/C02H.v, C01H.v, C16E.v. *)
From RV Require Import Lib.Res Repl.ClientTicks Repl.World Vis.Visibility Tick.RepliconTick Tick.ConfirmHistory
  Tick.MutateTicks Repl.Server Repl.Client Repl.Sys.
Open Scope N_scope.

Definition strip (u : update_msg) : update_msg :=
  mkUpd (u_tick u) [] (u_despawns u) (u_removals u) (u_changes u).

Definition is_some {A : Type} (o : option A) : bool := match o with Some _ => true | None => false end.

Definition nent (x : cent) : cent :=
  mkCEnt (ce_alive x) None (ce_marker x && (is_some (ce_hist x) || negb (is_some (ce_pre x)))) (ce_hist x) (ce_comps x).

Definition nents (l : list (N * cent)) : list (N * cent) := map (fun kv => (fst kv, nent (snd kv))) l.

Definition ncl (c : client) : client :=
  mkCli (cl_status c) (cl_last_connected c) (cl_last_not_disconnected c) (cl_upd_tick c) (cl_s2c c) (cl_c2s c)
        (nents (cl_ents c)) (cl_next c) (cl_buffered c) (cl_mticks c) (map strip (cl_inbox_upd c)) (cl_inbox_mut c).

(* a step result, normalised *)
Definition nstep (r : step_result) : step_result :=
  match r with Continue c => Continue (ncl c) | Abort c => Abort (ncl c) end.

Definition map_res {A B : Type} (f : A -> B) (r : res A) : res B :=
  match r with Ok a => Ok (f a) | Err => Err | Panic => Panic end.

(* the links with the mappings stripped from the queued update messages; the system as the value invariants see it *)
Definition nlink (l : link) : link := mkLink (map strip (l_upd l)) (l_mut l) (l_ack l).

Definition nsys (y : sys) : sys :=
  mkSys (y_cfg y) (y_server y) (map (fun kv => (fst kv, ncl (snd kv))) (y_clients y))
        (map (fun kv => (fst kv, nlink (snd kv))) (y_links y)).

(* the record of a client without its pending mappings *)
Definition clr (cl : sclient) : sclient :=
  mkSC (sc_slot cl) (sc_authorized cl) (sc_max_size cl) (sc_ticks cl) (sc_vis cl) [].

(* a mapped client entity that carries the marker has a confirm history (an invariant of whole-system runs: `ent_hist_ok`
   of Repl/ClientStructSpec.v gives it) *)
Definition marked_hist (c : client) : Prop :=
  forall e cid x, al_get e (cl_s2c c) = Some cid -> get_cent c cid = Some x -> ce_marker x = true -> ce_hist x <> None.

(* ---------- C16 over runs ---------- *)

(* the mapping (e, pc) of an update message is APPLIED by the client [c] (state just before the message): the entity
   pre-spawned under [pc] exists and is alive *)
Definition pre_alive (c : client) (pc : N) : Prop :=
  exists cid x, find (fun kv => match ce_pre (snd kv) with Some p => p =? pc | None => false end) (cl_ents c) = Some (cid, x) /\
                ce_alive x = true.

(* the client entity that was pre-spawned under [pc] *)
Definition pre_ent (c : client) (pc cid : N) : Prop :=
  exists x, get_cent c cid = Some x /\ ce_pre x = Some pc.
