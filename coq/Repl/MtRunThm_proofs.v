(* C12 end to end, H2 (b, c): what the run invariant of Repl/MtRun_proofs.v says about `ServerMutateTicks` and the
   `MutateTickReceived` events, through Layer 0 (Tick/MutateTicks_proofs.v: `mt_R`, `mspec_confirm_all`). *)
From RV Require Import Lib.Res Repl.ClientTicks Repl.ClientTicks_proofs Repl.World Vis.Visibility Repl.Server Repl.ServerSpec
  Repl.Server_proofs Repl.Client Repl.Sys
  Tick.RepliconTick Tick.RepliconTick_proofs Tick.ConfirmHistory Tick.ConfirmHistory_proofs Tick.MutateTicks Tick.MutateTicks_proofs Tick.TickSpec
  Repl.Client_proofs Repl.ClientEnt_proofs Repl.ClientMut_proofs Repl.ClientSys_proofs Repl.ClientStructSpec Repl.ClientStruct_proofs
  Repl.ClientHist_proofs Repl.Session_proofs Repl.StructE2EMut_proofs Repl.StructE2ESess_proofs
  Repl.MtRunSrv_proofs Repl.HistRun_proofs Repl.MtRunSpec Repl.MtRunCli_proofs Repl.MtRun_proofs.
From Coq Require Import ZifyBool ZifyN Permutation.
Open Scope N_scope.
Ltac Zify.zify_post_hook ::= Z.div_mod_to_equations.
Arguments N.add : simpl never. Arguments N.mul : simpl never. Arguments N.pow : simpl never.
Arguments N.ltb : simpl never. Arguments N.leb : simpl never. Arguments N.div : simpl never.
Arguments N.modulo : simpl never. Arguments N.sub : simpl never. Arguments N.eqb : simpl never.

(* ================================================================== *)
(* 1. the specification side: logs, maxima, events                    *)
(* ================================================================== *)

Lemma calls_for_zcalls T l : length (calls_for (Z.of_N T) (zcalls l)) = count_tick T l.
Proof.
  unfold calls_for, zcalls, count_tick. induction l as [|m t IH]; [reflexivity|]. cbn [map filter fst]. unfold of_tick at 1.
  destruct (Z.eqb_spec (Z.of_N (m_tick m)) (Z.of_N T)) as [E|E]; destruct (N.eqb_spec (m_tick m) T) as [E2|E2]; try lia; cbn [length]; rewrite IH; reflexivity.
Qed.

Lemma zcalls_app a b : zcalls (a ++ b) = zcalls a ++ zcalls b.
Proof. apply map_app. Qed.

Lemma log_of_nil : log_of [] mlog_empty.
Proof. intros t. split; [reflexivity|left; reflexivity]. Qed.

Lemma log_of_step pre M t c : log_of pre M -> log_of (pre ++ [(t, c)]) (mlog_add M t c).
Proof.
  intros Hlog x. unfold mlog_add. rewrite calls_for_app, app_length. unfold calls_for at 2. cbn [filter fst]. rewrite (Z.eqb_sym t x).
  destruct (x =? t)%Z eqn:Ex.
  - apply Z.eqb_eq in Ex. subst x. cbn [tm_received tm_count length]. destruct (Hlog t) as [Hr _]. split; [lia|].
    right. apply in_or_app. right. left. reflexivity.
  - destruct (Hlog x) as [Hr Hc]. cbn [length]. split; [lia|].
    destruct Hc as [H0 | Hi]; [left; exact H0|right; apply in_or_app; left; exact Hi].
Qed.

Lemma mspec_cons L M t c r :
  mspec_confirm_all L M ((t, c) :: r) =
  (fst (mspec_confirm_all (Z.max L t) (mlog_add M t c) r), mspec_completes L M t c :: snd (mspec_confirm_all (Z.max L t) (mlog_add M t c) r)).
Proof. cbn [mspec_confirm_all]. destruct (mspec_confirm_all (Z.max L t) (mlog_add M t c) r) as [LM bs]. reflexivity. Qed.

Lemma mspec_log calls : forall pre L M, log_of pre M -> log_of (pre ++ calls) (snd (fst (mspec_confirm_all L M calls))).
Proof.
  induction calls as [|[t c] r IH]; intros pre L M Hlog.
  - rewrite app_nil_r. exact Hlog.
  - rewrite mspec_cons. cbn [fst snd]. replace (pre ++ (t, c) :: r) with ((pre ++ [(t, c)]) ++ r) by (rewrite <- app_assoc; reflexivity).
    apply IH. apply log_of_step. exact Hlog.
Qed.

Lemma mspec_max calls : forall L M, fst (fst (mspec_confirm_all L M calls)) = fold_left Z.max (map fst calls) L.
Proof.
  induction calls as [|[t c] r IH]; intros L M; [reflexivity|]. rewrite mspec_cons. cbn [fst map fold_left]. apply IH.
Qed.

Lemma lmax_z l : forall L, fold_left Z.max (map fst (zcalls l)) (Z.of_N L) = Z.of_N (lmax L l).
Proof.
  unfold lmax, zcalls. induction l as [|m t IH]; intros L; [reflexivity|]. cbn [map fst fold_left].
  replace (Z.max (Z.of_N L) (Z.of_N (m_tick m))) with (Z.of_N (N.max L (m_tick m))) by lia. apply IH.
Qed.

Lemma lmax_app L a b : lmax L (a ++ b) = lmax (lmax L a) b.
Proof. unfold lmax. rewrite map_app, fold_left_app. reflexivity. Qed.

Lemma lmax_ge l : forall L, L <= lmax L l.
Proof.
  unfold lmax. induction l as [|m t IH]; intros L; cbn [map fold_left]; [lia|]. specialize (IH (N.max L (m_tick m))). lia.
Qed.

(* the flags the specification computes are the events of [ev_spec] *)
Lemma fired_cons m r b bs : fired (m :: r) (b :: bs) = (if b then [m_tick m] else []) ++ fired r bs.
Proof. unfold fired. cbn [map combine filter snd]. destruct b; reflexivity. Qed.

Lemma fired_spec l : forall pre L M Ln, L = Z.of_N Ln -> log_of (zcalls pre) M ->
  fired l (snd (mspec_confirm_all L M (zcalls l))) = ev_spec Ln pre l.
Proof.
  induction l as [|m r IH]; intros pre L M Ln HL Hlog; [reflexivity|].
  change (zcalls (m :: r)) with ((Z.of_N (m_tick m), m_count m) :: zcalls r). rewrite mspec_cons. cbn [snd ev_spec].
  rewrite fired_cons. f_equal.
  - unfold mspec_completes. destruct (Hlog (Z.of_N (m_tick m))) as [Hr _]. rewrite Hr, calls_for_zcalls. subst L.
    replace (Z.of_N Ln - 64 <? Z.of_N (m_tick m))%Z with (Ln <? m_tick m + 64)
      by (destruct (Z.ltb_spec (Z.of_N Ln - 64) (Z.of_N (m_tick m))); destruct (N.ltb_spec Ln (m_tick m + 64)); lia).
    reflexivity.
  - apply IH; [subst L; lia|]. rewrite zcalls_app. apply log_of_step. exact Hlog.
Qed.

Lemma ev_spec_app l1 : forall L pre l2, ev_spec L pre (l1 ++ l2) = ev_spec L pre l1 ++ ev_spec (lmax L l1) (pre ++ l1) l2.
Proof.
  induction l1 as [|m r IH]; intros L pre l2.
  - cbn [app ev_spec]. rewrite app_nil_r. reflexivity.
  - cbn [app ev_spec]. rewrite IH, <- !app_assoc. reflexivity.
Qed.

(* "exactly when the last of the `m_count` messages of the tick is applied" (inside the window) *)
Lemma ev_spec_iff T l : forall L pre,
  In T (ev_spec L pre l) <->
  exists a1 m a2, l = a1 ++ m :: a2 /\ m_tick m = T /\ N.of_nat (count_tick T (pre ++ a1)) + 1 = m_count m /\ lmax L a1 < T + 64.
Proof.
  induction l as [|m r IH]; intros L pre.
  - cbn [ev_spec]. split; [intros []|]. intros (a1 & m & a2 & E & _). destruct a1; discriminate.
  - cbn [ev_spec]. rewrite in_app_iff, IH. split.
    + intros [H|(a1 & m1 & a2 & E & Ht & Hc & Hw)].
      * destruct (N.ltb_spec L (m_tick m + 64)) as [Hw|Hw]; [|destruct H].
        destruct (N.eqb_spec (N.of_nat (count_tick (m_tick m) pre) + 1) (m_count m)) as [Hc|Hc]; [|destruct H].
        destruct H as [<-|[]]. exists [], m, r. rewrite app_nil_r. cbn [app]. repeat split; assumption.
      * exists (m :: a1), m1, a2. subst r. split; [reflexivity|]. split; [exact Ht|]. split.
        -- rewrite <- Hc. rewrite <- app_assoc. reflexivity.
        -- exact Hw.
    + intros (a1 & m1 & a2 & E & Ht & Hc & Hw). destruct a1 as [|m0 a1].
      * cbn [app] in E. inversion E; subst m1 a2. left. rewrite app_nil_r in Hc. cbn in Hw. subst T.
        destruct (N.ltb_spec L (m_tick m + 64)); [|lia]. cbn [andb].
        destruct (N.eqb_spec (N.of_nat (count_tick (m_tick m) pre) + 1) (m_count m)); [left; reflexivity|congruence].
      * cbn [app] in E. inversion E; subst m0 r. right. exists a1, m1, a2. split; [reflexivity|]. split; [exact Ht|]. split.
        -- rewrite <- Hc. rewrite <- app_assoc. reflexivity.
        -- exact Hw.
Qed.

(* at most once per tick: messages of one tick carry the same count *)
Lemma ev_spec_nodup l : forall L pre,
  (forall m1 m2, In m1 (pre ++ l) -> In m2 (pre ++ l) -> m_tick m1 = m_tick m2 -> m_count m1 = m_count m2) ->
  NoDup (ev_spec L pre l).
Proof.
  induction l as [|m r IH]; intros L pre Hsame; [constructor|]. cbn [ev_spec].
  assert (Hrest : NoDup (ev_spec (N.max L (m_tick m)) (pre ++ [m]) r)).
  { apply IH. intros m1 m2 H1 H2. apply Hsame; rewrite <- app_assoc in *; assumption. }
  destruct ((L <? m_tick m + 64) && (N.of_nat (count_tick (m_tick m) pre) + 1 =? m_count m)) eqn:Eb; [|exact Hrest].
  cbn [app]. constructor; [|exact Hrest]. intros Hin. apply ev_spec_iff in Hin.
  destruct Hin as (a1 & m1 & a2 & E & Ht & Hc & _). apply andb_prop in Eb. destruct Eb as [_ Eb].
  assert (Hcnt : m_count m1 = m_count m).
  { apply Hsame; [|apply in_or_app; right; left; reflexivity|exact Ht]. apply in_or_app. right. right. rewrite E. apply in_or_app. right. left. reflexivity. }
  rewrite !count_tick_app in Hc. assert (Hm : count_tick (m_tick m) [m] = 1%nat) by (unfold count_tick, of_tick; cbn [filter]; rewrite N.eqb_refl; reflexivity).
  rewrite Hm in Hc. lia.
Qed.

(* ================================================================== *)
(* 2. over runs                                                       *)
(* ================================================================== *)

Section Thm.
  Variables (cfg0 : cfg) (nclients : N).
  Notation track := (cfg_track cfg0).

  Variables (script : list step) (y : sys) (G : mghosts).
  Hypothesis Hsess : sessions_ok script = true.
  Hypothesis Hparts : parts_small script = true.
  Hypothesis Hticks : tick_frames script < 2 ^ 31.
  Hypothesis Hrun : mrun (sys_init cfg0 nclients) mgs_empty script = Ok (y, G).

  Lemma inv_here : m_inv cfg0 script y G.
  Proof. exact (m_inv_run cfg0 nclients script y G Hsess Hparts Hticks Hrun). Qed.

  (* H2 (a) over a session: every slot, every mode *)
  Theorem h2a_session slot : srv_proto track (mg_sent (G slot)).
  Proof. exact (mi_proto _ _ _ _ inv_here slot). Qed.

  Theorem sent_ticks_small slot m : In m (mg_sent (G slot)) -> m_tick m < 2 ^ 31.
  Proof.
    intros Hm. pose proof (mi_before _ _ _ _ inv_here slot m Hm) as Hb. pose proof (mi_tick _ _ _ _ inv_here) as Ht.
    destruct (sv_dirty (y_server y)); lia.
  Qed.

  (* the tracker is the replay of the applied messages (every slot, every mode) *)
  Theorem h2b_replay slot c : al_get slot (y_clients y) = Some c -> replay_ok track c (G slot).
  Proof. intros Hc. exact (proj1 (mi_slots _ _ _ _ inv_here slot c Hc)). Qed.

  (* H2 (c): a clean slot - never connected, or disconnected and reset since - holds a pristine tracker *)
  Theorem h2c_clean slot c : al_get slot (y_clients y) = Some c ->
    mode_of script slot = MClean \/ (mode_of script slot = MLive /\ cl_status c = Disconnected) ->
    cl_mticks c = (if track then Some mt_default else None) /\ cl_buffered c = [] /\
    mg_appl (G slot) = [] /\ mg_evs (G slot) = [] /\ mg_sent (G slot) = [] /\ mg_lost (G slot) = [].
  Proof.
    intros Hc Hm. destruct (mi_slots _ _ _ _ inv_here slot c Hc) as (A1 & A2 & A3 & A4).
    assert (Hcl : clean_st (y_server y) slot (G slot) c (l_mut (get_link y slot))).
    { destruct Hm as [Hm|[Hm Hd]]; rewrite Hm in A4; cbn [mode_ok] in A4; [exact A4|]. destruct A4 as [A4|(B1 & _)]; [exact A4|congruence]. }
    destruct Hcl as (B1 & B2 & B3 & B4 & B5). destruct (A2 B2) as (C1 & C2 & C3).
    split; [|split; [exact C1|split; [exact C2|split; [exact C3|split; [exact (mi_norec _ _ _ _ inv_here slot B4)|exact B5]]]]].
    unfold replay_ok in A1. rewrite C2 in A1. destruct (cl_mticks c) as [m|].
    - destruct A1 as (-> & bs & E & _). cbn in E. inversion E. reflexivity.
    - destruct A1 as [-> _]. reflexivity.
  Qed.

  Section Live.
    Variables (slot : N) (c : client).
    Hypothesis Hc : al_get slot (y_clients y) = Some c.
    Hypothesis Hmode : mode_of script slot = MLive.
    Hypothesis Hconn : cl_status c = Connected.

    Notation g := (G slot).
    Notation lmut := (l_mut (get_link y slot)).

    (* none lost, none duplicated: everything the server sent in this session is applied, buffered, in the inbox,
       in flight or dropped *)
    Theorem h2b_accounting : live_ok g c lmut.
    Proof.
      destruct (mi_slots _ _ _ _ inv_here slot c Hc) as (_ & _ & _ & A4). rewrite Hmode in A4. cbn [mode_ok] in A4.
      destruct A4 as [(B1 & _)|(_ & _ & _ & B4)]; [congruence|exact B4].
    Qed.

    Lemma appl_in_sent m : In m (mg_appl g) -> In m (mg_sent g).
    Proof. intros Hm. apply (Permutation_in m (Permutation_sym h2b_accounting)). apply in_or_app. left. exact Hm. Qed.

    Lemma count_split T :
      count_tick T (mg_sent g) = (count_tick T (mg_appl g) + count_tick T (cl_buffered c ++ cl_inbox_mut c ++ lmut ++ mg_lost g))%nat.
    Proof. rewrite (count_tick_perm T _ _ h2b_accounting), count_tick_app. reflexivity. Qed.

    Hypothesis Htrack : track = true.

    Lemma sent_count m : In m (mg_sent g) -> m_count m = N.of_nat (count_tick (m_tick m) (mg_sent g)) /\ m_count m <> 0 /\ m_count m < 2 ^ 64.
    Proof. intros Hm. destruct (h2a_session slot m Hm) as (Q1 & Q2 & Q3). rewrite Htrack in Q3. auto. Qed.

    (* the calls the client made follow the sender's protocol of Layer 0 *)
    Theorem h2b_protocol : sender_protocol (zcalls (mg_appl g)).
    Proof.
      intros t cnt Hin. unfold zcalls in Hin. apply in_map_iff in Hin. destruct Hin as [m [E Hm]]. inversion E; subst t cnt. clear E.
      destruct (sent_count m (appl_in_sent m Hm)) as (Q1 & Q2 & Q3). split; [exact Q2|]. split; [exact Q3|]. split.
      - intros c' Hin'. unfold zcalls in Hin'. apply in_map_iff in Hin'. destruct Hin' as [m' [E' Hm']]. inversion E' as [[Et Ec]].
        assert (Ett : m_tick m' = m_tick m) by lia. destruct (sent_count m' (appl_in_sent m' Hm')) as (Q1' & _). rewrite Q1', Ett, Q1. reflexivity.
      - rewrite calls_for_zcalls, Q1. pose proof (count_split (m_tick m)). lia.
    Qed.

    Lemma appl_half_range : forall l L, (forall m, In m l -> m_tick m < 2 ^ 31) -> (0 <= L < 2 ^ 31)%Z ->
      within_half_range L (map fst (zcalls l)).
    Proof.
      pose proof Npow31 as P31. pose proof Zpow31 as Z31.
      induction l as [|m t IH]; intros L Hs HL; [exact I|]. cbn [zcalls map fst within_half_range].
      pose proof (Hs m (or_introl eq_refl)) as Hm. split; [lia|]. apply IH; [intros m0 H0; apply Hs; right; exact H0|lia].
    Qed.

    Theorem h2b_calls_ok : mcalls_ok 0 mlog_empty (zcalls (mg_appl g)).
    Proof.
      apply mcalls_ok_from_protocol; [exact h2b_protocol|]. apply appl_half_range; [|rewrite Zpow31; lia].
      intros m Hm. exact (sent_ticks_small slot m (appl_in_sent m Hm)).
    Qed.

    Lemma wrap_zcalls l : (forall m, In m l -> m_tick m < 2 ^ 31) -> wrap_calls (zcalls l) = ncalls l.
    Proof.
      intros Hs. unfold wrap_calls, zcalls, ncalls. rewrite map_map. apply map_ext_in. intros m Hm. cbn [fst snd].
      rewrite wrap_of_N; [reflexivity|]. pose proof (Hs m Hm). pose proof Npow31. pose proof Npow32. lia.
    Qed.

    (* H2 (b): the tracker refines the log of the applied messages *)
    Theorem h2b_refines :
      exists m, cl_mticks c = Some m /\
        mt_R m (Z.of_N (lmax 0 (mg_appl g))) (snd (fst (mspec_confirm_all 0 mlog_empty (zcalls (mg_appl g))))) /\
        log_of (zcalls (mg_appl g)) (snd (fst (mspec_confirm_all 0 mlog_empty (zcalls (mg_appl g))))) /\
        mg_evs g = ev_spec 0 [] (mg_appl g).
    Proof.
      destruct (mt_refines_from_default _ h2b_calls_ok) as (m' & E' & R').
      rewrite wrap_zcalls in E' by (intros m Hm; exact (sent_ticks_small slot m (appl_in_sent m Hm))).
      pose proof (h2b_replay slot c Hc) as Hr. unfold replay_ok in Hr. destruct (cl_mticks c) as [m|]; [|destruct Hr; congruence].
      destruct Hr as (_ & bs & E & Ev). rewrite E' in E. inversion E; subst m bs. exists m'. split; [reflexivity|].
      rewrite mspec_max in R'. change 0%Z with (Z.of_N 0) in R'. rewrite lmax_z in R'. split; [exact R'|]. split.
      - exact (mspec_log _ [] 0%Z mlog_empty log_of_nil).
      - rewrite Ev. apply (fired_spec _ [] 0%Z mlog_empty 0 eq_refl log_of_nil).
    Qed.

    (* the log: tick -> number of mutate messages of that tick applied in this session *)
    Theorem h2b_log T :
      tm_received (snd (fst (mspec_confirm_all 0 mlog_empty (zcalls (mg_appl g)))) (Z.of_N T)) = N.of_nat (count_tick T (mg_appl g)).
    Proof. destruct h2b_refines as (_ & _ & _ & Hl & _). destruct (Hl (Z.of_N T)) as [Hr _]. rewrite Hr, calls_for_zcalls. reflexivity. Qed.

    (* the event of tick T has fired in this session exactly when a message completed the tick inside the window *)
    Theorem h2b_event_iff T :
      In T (mg_evs g) <->
      exists a1 m a2, mg_appl g = a1 ++ m :: a2 /\ m_tick m = T /\ N.of_nat (count_tick T a1) + 1 = m_count m /\ lmax 0 a1 < T + 64.
    Proof. destruct h2b_refines as (_ & _ & _ & _ & ->). rewrite ev_spec_iff. cbn [app]. reflexivity. Qed.

    Theorem h2b_event_once : NoDup (mg_evs g).
    Proof.
      destruct h2b_refines as (_ & _ & _ & _ & ->). apply ev_spec_nodup. cbn [app]. intros m1 m2 H1 H2 Ht.
      destruct (sent_count m1 (appl_in_sent m1 H1)) as (Q1 & _). destruct (sent_count m2 (appl_in_sent m2 H2)) as (Q2 & _). congruence.
    Qed.

    (* when it has fired, exactly the messages the server sent for that tick have been applied: none lost, none pending *)
    Theorem h2b_event_complete T : In T (mg_evs g) ->
      Permutation (filter (of_tick T) (mg_sent g)) (filter (of_tick T) (mg_appl g)) /\
      count_tick T (mg_appl g) = count_tick T (mg_sent g) /\ (1 <= count_tick T (mg_sent g))%nat /\
      forall m, In m (cl_buffered c ++ cl_inbox_mut c ++ lmut ++ mg_lost g) -> m_tick m <> T.
    Proof.
      intros Hin. apply h2b_event_iff in Hin. destruct Hin as (a1 & m & a2 & E & Ht & Hcnt & _).
      assert (Hm : In m (mg_appl g)) by (rewrite E; apply in_or_app; right; left; reflexivity).
      destruct (sent_count m (appl_in_sent m Hm)) as (Q1 & _). rewrite Ht in Q1.
      pose proof (count_split T) as Hs. set (rest := cl_buffered c ++ cl_inbox_mut c ++ lmut ++ mg_lost g) in *.
      rewrite E in Hs. change (m :: a2) with ([m] ++ a2) in Hs. rewrite !count_tick_app in Hs.
      assert (H1 : count_tick T [m] = 1%nat) by (unfold count_tick, of_tick; cbn [filter]; rewrite Ht, N.eqb_refl; reflexivity).
      rewrite H1 in Hs.
      assert (Hz : count_tick T rest = 0%nat) by lia. subst rest.
      split; [|split; [|split]].
      - pose proof (filter_perm (of_tick T) _ _ h2b_accounting) as Hp. rewrite filter_app in Hp.
        assert (Hnil : filter (of_tick T) (cl_buffered c ++ cl_inbox_mut c ++ lmut ++ mg_lost g) = []) by (apply length_zero_iff_nil; exact Hz).
        rewrite Hnil, app_nil_r in Hp. exact Hp.
      - rewrite E. change (m :: a2) with ([m] ++ a2). rewrite !count_tick_app, H1. lia.
      - lia.
      - intros m0 Hm0. exact (count_tick_zero_none T _ m0 Hz Hm0).
    Qed.

    (* a lost mutate message: the event of its tick does not fire (at any later moment of the session either: the
       statement holds at every reachable state and [mg_lost] only grows during a session) *)
    Theorem h2b_lost_never m : In m (mg_lost g) -> ~ In (m_tick m) (mg_evs g).
    Proof.
      intros Hm Hin. destruct (h2b_event_complete _ Hin) as (_ & _ & _ & Hnone). apply (Hnone m); [|reflexivity].
      apply in_or_app. right. apply in_or_app. right. apply in_or_app. right. exact Hm.
    Qed.

    (* ... and while a message of the tick is still pending (in flight, in the inbox or buffered) it has not fired *)
    Theorem h2b_pending_not_yet m : In m (cl_buffered c ++ cl_inbox_mut c ++ lmut) -> ~ In (m_tick m) (mg_evs g).
    Proof.
      intros Hm Hin. destruct (h2b_event_complete _ Hin) as (_ & _ & _ & Hnone). apply (Hnone m); [|reflexivity].
      rewrite !app_assoc. apply in_or_app. left. rewrite <- !app_assoc. exact Hm.
    Qed.
  End Live.
End Thm.

Theorem h2b_protocol_calls cfg0 nclients script y G :
  sessions_ok script = true -> parts_small script = true -> tick_frames script < 2 ^ 31 ->
  mrun (sys_init cfg0 nclients) mgs_empty script = Ok (y, G) ->
  forall slot c, al_get slot (y_clients y) = Some c -> mode_of script slot = MLive -> cl_status c = Connected ->
  cfg_track cfg0 = true ->
  sender_protocol (zcalls (mg_appl (G slot))) /\ mcalls_ok 0 mlog_empty (zcalls (mg_appl (G slot))).
Proof. intros. split; [eapply h2b_protocol|eapply h2b_calls_ok]; eassumption. Qed.

(* ================================================================== *)
(* 3. the events of one client frame                                  *)
(* ================================================================== *)

Theorem h2b_frame_events cfg0 nclients script y G slot c ops y' o :
  sessions_ok script = true -> parts_small script = true -> tick_frames script < 2 ^ 31 ->
  mrun (sys_init cfg0 nclients) mgs_empty script = Ok (y, G) ->
  al_get slot (y_clients y) = Some c -> mode_of script slot = MLive -> cl_status c = Connected -> cfg_track cfg0 = true ->
  sys_step y (StCFrame slot ops) = Ok (y', o) ->
  exists c' cfo, client_frame c ops = Ok (c', cfo) /\ o = OCFrame slot cfo (client_view c') /\
    mg_appl (mstep y G (StCFrame slot ops) slot) = mg_appl (G slot) ++ frame_applied c /\
    mg_evs (mstep y G (StCFrame slot ops) slot) = mg_evs (G slot) ++ cfo_tick_events cfo /\
    cfo_tick_events cfo = ev_spec (lmax 0 (mg_appl (G slot))) (mg_appl (G slot)) (frame_applied c) /\
    forall T, In T (cfo_tick_events cfo) <->
      exists a1 m a2, frame_applied c = a1 ++ m :: a2 /\ m_tick m = T /\
        N.of_nat (count_tick T (mg_appl (G slot) ++ a1)) + 1 = m_count m /\ lmax 0 (mg_appl (G slot) ++ a1) < T + 64.
Proof.
  intros Hs Hp Ht Hr Hc Hm Hst Htr H.
  assert (Hcf : exists c' cfo, client_frame c ops = Ok (c', cfo)).
  { cbn [sys_step] in H. rewrite Hc in H. destruct (client_frame c ops) as [[c' cfo]| |]; [eauto|discriminate|discriminate]. }
  destruct Hcf as (c' & cfo & Ef). exists c', cfo. split; [exact Ef|].
  destruct (cframe_shape y slot ops c c' cfo y' o Hc Ef H) as (_ & _ & _ & _ & _ & S5 & _ & So). split; [exact So|].
  set (st := StCFrame slot ops) in *.
  assert (Hr' : mrun (sys_init cfg0 nclients) mgs_empty (script ++ [st]) = Ok (y', mstep y G st)).
  { rewrite mrun_app, Hr. cbn [bind mrun]. rewrite H. reflexivity. }
  assert (Hs' : sessions_ok (script ++ [st]) = true) by (rewrite sessions_ok_snoc, Hs; reflexivity).
  assert (Hp' : parts_small (script ++ [st]) = true) by (unfold parts_small in *; rewrite forallb_app, Hp; reflexivity).
  assert (Ht' : tick_frames (script ++ [st]) < 2 ^ 31) by (rewrite tick_frames_snoc; exact Ht).
  assert (Hm' : mode_of (script ++ [st]) slot = MLive) by (rewrite mode_of_snoc, Hm; cbn [mode_step st]; rewrite N.eqb_refl; reflexivity).
  assert (Hc' : al_get slot (y_clients y') = Some c') by (rewrite S5; apply al_get_insert_same).
  destruct (frame_connected_mt c ops c' cfo Hst Ef) as (_ & Hst' & _).
  assert (Eg : mstep y G st slot = mkMG (mg_sent (G slot)) (mg_lost (G slot)) (mg_appl (G slot) ++ frame_applied c) (mg_evs (G slot) ++ cfo_tick_events cfo)).
  { unfold st. cbn [mstep]; unfold mg_add_sent, mg_clear_srv, mg_add_lost, mg_add_appl, mg_clear_cli. rewrite Hc, Hst, Ef. apply mg_upd_same. }
  rewrite Eg. cbn [mg_appl mg_evs]. split; [reflexivity|]. split; [reflexivity|].
  destruct (h2b_refines cfg0 nclients script y G Hs Hp Ht Hr slot c Hc Hm Hst Htr) as (_ & _ & _ & _ & Ev).
  destruct (h2b_refines cfg0 nclients _ y' _ Hs' Hp' Ht' Hr' slot c' Hc' Hm' Hst' Htr) as (_ & _ & _ & _ & Ev').
  rewrite Eg in Ev'. cbn [mg_appl mg_evs] in Ev'. rewrite ev_spec_app, <- Ev in Ev'. apply app_inv_head in Ev'. cbn [app] in Ev'.
  split; [exact Ev'|]. intros T. rewrite Ev', ev_spec_iff.
  split; intros (a1 & m & a2 & E1 & E2 & E3 & E4); exists a1, m, a2; (split; [exact E1|split; [exact E2|split; [exact E3|]]]).
  - rewrite lmax_app. exact E4.
  - rewrite lmax_app in E4. exact E4.
Qed.

(* ================================================================== *)
(* 4. H2 (a) at the level of one server frame of a run                *)
(* ================================================================== *)

Lemma server_frame_fo_tick c s tick dt (cleanup : bool) ops parts s' fo :
  server_frame c s tick dt cleanup ops parts = Ok (s', fo) -> fo_tick fo = sv_tick s'.
Proof.
  unfold server_frame. intros H. apply bind_ok in H. destruct H as [[[s4 outs] ran] [_ H]]. inversion H; subst. reflexivity.
Qed.

Theorem h2a_frame cfg0 nclients script y G tick dt cleanup ops parts y' o :
  sessions_ok script = true -> parts_small script = true -> tick_frames script < 2 ^ 31 ->
  mrun (sys_init cfg0 nclients) mgs_empty script = Ok (y, G) ->
  sys_step y (StSFrame tick dt cleanup ops parts) = Ok (y', o) ->
  exists fo vs, o = OSFrame fo vs /\
    forall slot m, In m (mutates_for slot (fo_clients fo)) ->
      m_tick m = fo_tick fo /\ m_count m <> 0 /\
      m_count m = (if cfg_track cfg0 then N.of_nat (length (mutates_for slot (fo_clients fo))) else 1).
Proof.
  intros Hs Hp Ht Hr H. pose proof (m_inv_run cfg0 nclients script y G Hs Hp Ht Hr) as [I1 I2 _ _ _ _ _].
  cbn [sys_step] in H. apply bind_ok in H. destruct H as [[s' fo] [Ef H]]. inversion H; subst y' o. clear H.
  eexists; eexists; split; [reflexivity|]. intros slot m Hm.
  destruct (server_frame_mt _ _ _ _ _ _ _ _ _ I2 Ef) as (_ & _ & _ & _ & _ & _ & M7).
  destruct (M7 slot m Hm) as (Q1 & Q2 & Q3 & _). rewrite (server_frame_fo_tick _ _ _ _ _ _ _ _ _ Ef), <- I1. auto.
Qed.
