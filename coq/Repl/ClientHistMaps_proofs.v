(* C03, client half, update messages WITH pre-spawn mappings: the history argument of
   Repl/ClientHist_proofs.v (an old mutate message cannot change the structure) and the client frame
   theorem, for update messages whose mappings are harmless when they are applied ([maps_ok] at
   [maps_pre], Repl/ClientStructSpec.v: after the despawn records of the message the server entity is
   unknown to the client, the pre-spawned entity is neither marked nor mapped) and concern entities sent in the changes array of the same message
   ([maps_in_changes]: the way the server uses `ClientEntityMap`, C16).  The invariant "pre-spawned
   entities are never mapped" (`pu`) of the versions without mappings is gone; that the client
   operations of a frame are harmless ([cops_safe]) becomes a hypothesis.
   Used by Repl/StructE2EMaps_proofs.v (C03 end to end with `SMap` operations). *)
From RV Require Import Lib.Res Repl.ClientTicks Repl.ClientTicks_proofs Repl.World Repl.Client
  Vis.Visibility Tick.RepliconTick Tick.RepliconTick_proofs Tick.ConfirmHistory Tick.MutateTicks
  Repl.Server Repl.ServerSpec Repl.Server_proofs Repl.StructSpec Repl.Struct_proofs
  Repl.Sys Repl.Client_proofs Repl.ClientEnt_proofs Repl.ClientMut_proofs Repl.ClientSys_proofs
  Repl.ClientStructSpec Repl.ClientStruct_proofs Repl.ClientHist_proofs Repl.ClientMaps_proofs
  Repl.StructE2EVis_proofs.
From Coq Require Import ZifyBool ZifyN.
Open Scope N_scope.
Ltac Zify.zify_post_hook ::= Z.div_mod_to_equations.
Arguments N.add : simpl never. Arguments N.mul : simpl never. Arguments N.pow : simpl never.
Arguments N.ltb : simpl never. Arguments N.leb : simpl never. Arguments N.div : simpl never.
Arguments N.modulo : simpl never. Arguments N.sub : simpl never. Arguments N.eqb : simpl never.

(* every mapped entity is sent (whole) in the same message *)
Definition maps_in_changes (u : update_msg) : Prop :=
  forall e, In e (map fst (u_maps u)) -> In e (map fst (u_changes u)).

(* the mappings of the messages of an inbox are harmless when they are applied (after the despawn records of their
   message: [maps_pre]), in order *)
Fixpoint inbox_maps_ok (c : client) (us : list update_msg) : Prop :=
  match us with
  | [] => True
  | u :: t => maps_ok (maps_pre c u) (u_maps u) /\
              forall c', apply_update_message c u = Ok c' -> inbox_maps_ok c' t
  end.

Lemma maps_in_changes_nil u : u_maps u = [] -> maps_in_changes u.
Proof. intros H e. rewrite H. intros []. Qed.

Lemma inbox_maps_ok_nomaps us : forall c, forallb no_maps us = true -> inbox_maps_ok c us.
Proof.
  induction us as [|u t IH]; intros c H; cbn [inbox_maps_ok]; [exact I|].
  cbn [forallb] in H. apply andb_prop in H. destruct H as [H1 H2]. unfold no_maps in H1.
  destruct (u_maps u); [|discriminate]. split; [exact I|]. intros c' _. apply IH. exact H2.
Qed.

(* ================================================================== *)
(* 1. one mapping, a list of mappings                                 *)
(* ================================================================== *)

Lemma mapping_props c e pc : cs_inv c -> map_step_ok c e pc -> hist_small c ->
  let c1 := apply_entity_mapping c e pc in
  cs_inv c1 /\ hist_small c1 /\ others_same [e] c c1.
Proof.
  intros Hinv Hok Hsm c1. destruct (map_step c e pc Hinv Hok) as (I1 & O1 & N1 & _). cbv zeta in I1, O1. fold c1 in I1, O1.
  destruct Hok as [Hun Htgt].
  destruct (mapping_cases c e pc) as [[E _]|(cid & x & Hin & Hp & Ha & Hf & E)].
  { unfold c1. rewrite E. split; [exact Hinv|]. split; [exact Hsm|apply others_same_refl]. }
  destruct (Htgt cid x Hf Ha) as [Hm Hc2s]. pose proof Hinv as [H1 H2 H3 H4].
  pose proof (al_get_in_nodup _ _ _ (proj1 H2) Hin) as Hx. change (get_cent c cid = Some x) in Hx.
  pose proof (proj1 (unmapped_iff c cid H1) Hc2s) as Hno.
  set (x' := mkCEnt true (ce_pre x) true (ce_hist x) (ce_comps x)) in *.
  assert (Ec1 : c1 = emap_insert (set_cent c cid x') e cid) by exact E.
  assert (Hs2c : cl_s2c c1 = al_insert e cid (cl_s2c c)) by (rewrite Ec1; reflexivity).
  assert (Hget : forall cid', get_cent c1 cid' = get_cent (set_cent c cid x') cid') by (rewrite Ec1; reflexivity).
  split; [exact I1|]. split.
  - intros cid0 x0 h0. rewrite Hget. destruct (N.eq_dec cid0 cid) as [->|Hne].
    + rewrite get_cent_set_cent_same. intros E0 Hh. inversion E0; subst x0. cbn in Hh. exact (Hsm cid x h0 Hx Hh).
    + rewrite get_cent_set_cent_other by exact Hne. apply Hsm.
  - apply others_same_intro; [exact I1| | |].
    + intros e' Hn. apply O1. exact (not_in_single e' e Hn).
    + intros e0 cid0 He0. rewrite Hs2c. rewrite al_get_insert_other; [exact He0|]. intros ->. congruence.
    + intros e0 cid0 y _ He0 Hy. rewrite Hget. rewrite get_cent_set_cent_other; [exact Hy|]. intros ->. exact (Hno e0 He0).
Qed.

Lemma mappings_props maps : forall c, cs_inv c -> maps_ok c maps -> hist_small c ->
  let c1 := fold_left (fun c m => apply_entity_mapping c (fst m) (snd m)) maps c in
  cs_inv c1 /\ hist_small c1 /\ others_same (map fst maps) c c1.
Proof.
  induction maps as [|[e pc] t IH]; intros c Hinv Hok Hsm; cbn [fold_left fst snd map].
  - cbv zeta. split; [exact Hinv|]. split; [exact Hsm|apply others_same_refl].
  - destruct Hok as [Hstep Hok]. destruct (mapping_props c e pc Hinv Hstep Hsm) as (I1 & S1 & O1). cbv zeta in I1, S1, O1.
    destruct (IH _ I1 Hok S1) as (I2 & S2 & O2). cbv zeta in I2, S2, O2. cbv zeta.
    split; [exact I2|]. split; [exact S2|]. change (e :: map fst t) with ([e] ++ map fst t).
    eapply others_same_trans; eassumption.
Qed.

(* ================================================================== *)
(* 2. one update message                                              *)
(* ================================================================== *)

Theorem update_message_maps_props c S u c' applied :
  cs_inv c -> srel c S -> hist_small c -> ent_hist_ok applied c ->
  (forall u0, In u0 applied -> u_tick u0 <= u_tick u) -> small_tick (u_tick u) ->
  maps_ok (maps_pre c u) (u_maps u) -> maps_in_changes u ->
  apply_update_message c u = Ok c' ->
  cs_inv c' /\ srel c' (abs_apply S u) /\ hist_small c' /\ ent_hist_ok (applied ++ [u]) c'.
Proof.
  intros Hinv Hrel Hsm Hok Hle HT Hmok Hch H.
  destruct (update_message_struct_maps c u c' Hinv Hmok Hch H) as (Hst & Hinv' & _).
  assert (Hrel' : srel c' (abs_apply S u)).
  { apply srel_struct_equiv; [exact (cs_inv_nodup c' Hinv')|]. eapply struct_equiv_trans; [exact Hst|].
    apply abs_apply_equiv. apply srel_struct_equiv; [exact (cs_inv_nodup c Hinv)|exact Hrel]. }
  unfold apply_update_message in H. cbv zeta in H. unfold maps_pre in Hmok.
  set (c0 := set_upd_tick c (u_tick u)) in *.
  assert (Hinv0 : cs_inv c0) by (revert Hinv; apply cs_inv_ext; reflexivity).
  assert (Hsm0 : hist_small c0) by (revert Hsm; apply hist_small_ext; reflexivity).
  destruct (despawns_struct (u_despawns u) c0 (client_struct c0) Hinv0 (srel_self c0 (cs_inv_nodup c0 Hinv0))) as [Hinv1 _].
  assert (Hsm1 : hist_small (fold_left apply_despawn (u_despawns u) c0)).
  { apply Client_proofs.fold_left_inv; [intros; apply hs_despawn; assumption|exact Hsm0]. }
  pose proof (others_same_despawns (u_despawns u) c0 Hinv0) as O1.
  set (c1 := fold_left apply_despawn (u_despawns u) c0) in *.
  destruct (mappings_props (u_maps u) c1 Hinv1 Hmok Hsm1) as (Hinv2 & Hsm2 & O0). cbv zeta in Hinv2, Hsm2, O0.
  assert (Epre : update_pre c u = fold_left (fun c m => apply_entity_mapping c (fst m) (snd m)) (u_maps u) c1) by reflexivity.
  rewrite <- Epre in Hinv2, Hsm2, O0, H.
  pose proof (srel_self _ (cs_inv_nodup _ Hinv2)) as Hrel2.
  apply bind_ok in H. destruct H as [r3 [E3 H]].
  destruct (removals_struct _ _ _ _ _ Hinv2 Hrel2 E3) as (c3 & -> & Hinv3 & Hrel3).
  pose proof (run_array_inv hist_small _ _ (fun c0 a r P E => hs_removals c0 _ _ _ r HT P E) _ _ Hsm2 E3) as Hsm3. cbn [sr_client] in Hsm3.
  pose proof (others_same_run_removals _ _ _ _ Hinv2 E3) as O2.
  apply bind_ok in H. destruct H as [r4 [E4 H]].
  destruct (changes_struct _ _ _ _ _ Hinv3 Hrel3 E4) as (c4 & -> & Hinv4 & Hrel4).
  pose proof (run_array_inv hist_small _ _ (fun c0 a r P E => hs_changes c0 _ _ _ r HT P E) _ _ Hsm3 E4) as Hsm4. cbn [sr_client] in Hsm4.
  pose proof (others_same_run_changes _ _ _ _ Hinv3 E4) as O3.
  inversion H; subst c'. clear H.
  split; [exact Hinv4|]. split; [exact Hrel'|]. split; [exact Hsm4|].
  assert (Hcomp : update_completes c u c4) by (exists c3; auto).
  intros e cid x' Hs Hx Hmk.
  assert (Htouched : (exists ks, In (e, ks) (u_removals u)) \/ (exists cs, In (e, cs) (u_changes u)) ->
            exists h a1 a2, ce_hist x' = Some h /\ applied ++ [u] = a1 ++ a2 /\
              (forall u0, In u0 a1 -> u_tick u0 <= h_last h) /\ (forall u0, In u0 a2 -> untouched e u0)).
  { intros Ht. destruct (update_changed_entities_confirmed c u c4 (proj2 (ci_ewf c Hinv)) Hcomp) as [Hr Hc].
    assert (Hcf : confirmed_at (u_tick u) c4 e) by (destruct Ht as [[ks Hin]|[cs Hin]]; [exact (Hr e ks Hin)|exact (Hc e cs Hin)]).
    destruct Hcf as (cid2 & x2 & Hs2 & Hx2 & (_ & _ & (h & Hh & Hl))).
    assert (cid2 = cid) by congruence. subst cid2. assert (x2 = x') by congruence. subst x2.
    exists h, (applied ++ [u]), []. split; [exact Hh|]. split; [rewrite app_nil_r; reflexivity|]. split; [|intros u0 []].
    intros u0 Hin. rewrite Hl. apply in_app_or in Hin. destruct Hin as [Hin|[<-|[]]]; [exact (Hle u0 Hin)|lia]. }
  destruct (in_dec N.eq_dec e (map fst (u_removals u))) as [Hr|Hnr].
  { apply Htouched. left. apply in_map_iff in Hr. destruct Hr as [[e' ks] [Ee Hin]]. cbn in Ee. subst e'. exists ks. exact Hin. }
  destruct (in_dec N.eq_dec e (map fst (u_changes u))) as [Hc|Hnc].
  { apply Htouched. right. apply in_map_iff in Hc. destruct Hc as [[e' cs] [Ee Hin]]. cbn in Ee. subst e'. exists cs. exact Hin. }
  destruct (O3 e cid x' Hnc Hs Hx Hmk) as [S3 X3]. destruct (O2 e cid x' Hnr S3 X3 Hmk) as [S2 X2].
  assert (Hnm : ~ In e (map fst (u_maps u))) by (intros Hin; exact (Hnc (Hch e Hin))).
  destruct (O0 e cid x' Hnm S2 X2 Hmk) as [S1 X1].
  destruct (in_dec N.eq_dec e (u_despawns u)) as [Hd|Hnd].
  { exfalso. unfold c1 in S1. rewrite (proj1 (despawns_unmapped_dead (u_despawns u) _ e Hd)) in S1. discriminate. }
  destruct (O1 e cid x' Hnd S1 X1 Hmk) as [S0 X0]. change (al_get e (cl_s2c c) = Some cid) in S0.
  change (get_cent c cid = Some x') in X0.
  destruct (Hok e cid x' S0 X0 Hmk) as (h & a1 & a2 & Hh & Ea & Ha1 & Ha2).
  exists h, a1, (a2 ++ [u]). split; [exact Hh|]. split; [rewrite Ea, app_assoc; reflexivity|]. split; [exact Ha1|].
  intros u0 Hin. apply in_app_or in Hin. destruct Hin as [Hin|[<-|[]]]; [exact (Ha2 u0 Hin)|]. unfold untouched. auto.
Qed.

(* ================================================================== *)
(* 3. the inbox, the client frame                                     *)
(* ================================================================== *)

Lemma inbox_fold_hist_maps us : forall c applied c1,
  cs_inv c -> srel c (fold_left abs_apply applied []) -> ent_hist_ok applied c -> hist_small c ->
  (forall u, In u us -> maps_in_changes u) -> inbox_maps_ok c us ->
  (forall u, In u us -> small_tick (u_tick u)) -> ticks_incr (applied ++ us) ->
  fold_left (res_step apply_update_message) us (Ok c) = Ok c1 ->
  cs_inv c1 /\ srel c1 (fold_left abs_apply (applied ++ us) []) /\ ent_hist_ok (applied ++ us) c1 /\ hist_small c1 /\
  same_buf c c1.
Proof.
  induction us as [|u t IH]; intros c applied c1 Hinv Hrel Hh Hsm Hch Hmok Hst Hincr H.
  - cbn in H. inversion H; subst. rewrite app_nil_r. split; [exact Hinv|]. split; [exact Hrel|]. split; [exact Hh|].
    split; [exact Hsm|split; reflexivity].
  - cbn [inbox_maps_ok] in Hmok. destruct Hmok as [Hm1 Hm2].
    apply fold_res_cons_ok in H. destruct H as [c2 [E H]].
    assert (Hle : forall u0, In u0 applied -> u_tick u0 <= u_tick u).
    { intros u0 Hin. apply N.lt_le_incl. apply (Hincr applied (u :: t) eq_refl); [exact Hin|left; reflexivity]. }
    destruct (update_message_maps_props c _ u c2 applied Hinv Hrel Hsm Hh Hle (Hst u (or_introl eq_refl)) Hm1
                (Hch u (or_introl eq_refl)) E) as (I2 & R2 & S2 & H2).
    assert (Eassoc : (applied ++ [u]) ++ t = applied ++ u :: t) by (rewrite <- app_assoc; reflexivity).
    destruct (IH c2 (applied ++ [u]) c1 I2) as (I1 & R1 & H1 & S1 & B1).
    + rewrite fold_left_app. exact R2.
    + exact H2.
    + exact S2.
    + intros u0 Hin. apply Hch. right. exact Hin.
    + exact (Hm2 c2 E).
    + intros u0 Hin. apply Hst. right. exact Hin.
    + rewrite Eassoc. exact Hincr.
    + exact H.
    + rewrite Eassoc in R1, H1. split; [exact I1|]. split; [exact R1|]. split; [exact H1|]. split; [exact S1|].
      destruct (same_buf_update c u c2 E) as [A1 A2]. destruct B1 as [B1 B2]. split; congruence.
Qed.

Record hist_pre_m (c : client) (applied lupd : list update_msg) : Prop := mkHistPreM {
  hm_inv : cs_inv c;
  hm_rel : srel c (fold_left abs_apply applied []);
  hm_hist : ent_hist_ok applied c;
  hm_small : hist_small c;
  hm_tick : applied <> [] -> cl_upd_tick c = u_tick (last applied dflt_upd);
  hm_incr : ticks_incr (applied ++ cl_inbox_upd c ++ lupd);
  hm_smallu : forall u, In u (applied ++ cl_inbox_upd c ++ lupd) -> small_tick (u_tick u);
  hm_mapch : forall u, In u (cl_inbox_upd c) -> maps_in_changes u;
  hm_mapsok : inbox_maps_ok c (cl_inbox_upd c);
  hm_muts : forall m, In m (cl_inbox_mut c ++ cl_buffered c) -> mmsg_ok (applied ++ cl_inbox_upd c ++ lupd) m
}.

Theorem frame_hist_maps c applied lupd ops c' out :
  hist_pre_m c applied lupd -> cl_status c = Connected ->
  (forall c2 out2, apply_replication c = Ok (c2, out2) -> cops_safe c2 ops = true) ->
  client_frame c ops = Ok (c', out) ->
  cs_inv c' /\ srel c' (fold_left abs_apply (applied ++ cl_inbox_upd c) []) /\
  ent_hist_ok (applied ++ cl_inbox_upd c) c' /\ hist_small c' /\
  (applied ++ cl_inbox_upd c <> [] -> cl_upd_tick c' = u_tick (last (applied ++ cl_inbox_upd c) dflt_upd)) /\
  cl_inbox_upd c' = [] /\ cl_inbox_mut c' = [] /\ cl_status c' = Connected /\
  (forall m, In m (cl_buffered c') -> In m (cl_inbox_mut c ++ cl_buffered c)).
Proof.
  intros [Hinv Hrel Hhist Hsm Htick Hincr Hsmu Hch Hmok Hmuts] Hc Hops H.
  destruct (frame_clears_inbox c ops c' out Hc H) as [Hi Hst].
  unfold client_frame in H. rewrite Hc, andb_false_r in H.
  apply bind_ok in H. destruct H as [[c2 out2] [E H]]. inversion H; subst c' out. clear H.
  pose proof (Hops c2 out2 E) as Hs.
  pose proof (replication_tick_is_last c c2 out2 E) as Tk.
  unfold apply_replication in E. apply bind_ok in E. destruct E as [c1 [E1 E]].
  change (fold_left (res_step apply_update_message) (cl_inbox_upd c) (Ok c) = Ok c1) in E1. fold (merge_mut_inbox c1) in E.
  set (applied' := applied ++ cl_inbox_upd c) in *.
  assert (Hincr' : ticks_incr (applied' ++ lupd)) by (unfold applied'; rewrite <- app_assoc; exact Hincr).
  assert (Hsmu' : forall u, In u (applied' ++ lupd) -> small_tick (u_tick u)) by (unfold applied'; rewrite <- app_assoc; exact Hsmu).
  destruct (inbox_fold_hist_maps _ c applied c1 Hinv Hrel Hhist Hsm Hch Hmok) as (I1 & R1 & H1 & S1 & [B1 B2]); [| |exact E1|].
  { intros u Hin. apply Hsmu. apply in_or_app. right. apply in_or_app. left. exact Hin. }
  { exact (ticks_incr_prefix _ lupd Hincr'). }
  fold applied' in R1, H1.
  assert (Tk1 : applied' <> [] -> cl_upd_tick c1 = u_tick (last applied' dflt_upd)).
  { intros Hne. rewrite (update_fold_tick _ _ _ E1). unfold applied' in *. destruct (cl_inbox_upd c) as [|u0 t0] eqn:Ei0.
    - cbn [map last]. rewrite app_nil_r in *. exact (Htick Hne).
    - rewrite last_app_ne by discriminate. apply last_map. discriminate. }
  set (cm := merge_mut_inbox c1) in *.
  assert (Im : cs_inv cm) by (revert I1; apply cs_inv_ext; reflexivity).
  assert (Rm : srel cm (fold_left abs_apply applied' [])) by (revert R1; apply srel_ext; reflexivity).
  assert (Hm' : ent_hist_ok applied' cm) by (revert H1; apply ent_hist_ok_ext; reflexivity).
  assert (Sm : hist_small cm) by (revert S1; apply hist_small_ext; reflexivity).
  assert (Mm : forall m, In m (cl_buffered cm) -> mmsg_ok (applied' ++ lupd) m).
  { intros m Hin. unfold cm, merge_mut_inbox in Hin. cbn in Hin. apply fold_buffer_insert_in in Hin. rewrite B1, B2 in Hin.
    unfold applied'. rewrite <- app_assoc. exact (Hmuts m Hin). }
  pose proof (history_mut_safe cm applied' lupd Im Rm Hm' Sm Hincr' Hsmu' Tk1 Mm) as Hsafe.
  destruct (mutate_messages_srel cm _ c2 out2 Im Rm Hsafe E) as (I2 & R2 & S2).
  destruct (mutate_messages_hist applied' cm c2 out2 (conj Im (conj Sm Hm')) (proj1 Hsafe) E) as (_ & _ & H2).
  destruct (cops_step ops c2 I2 Hs) as [I3 G3].
  destruct (cops_fields ops c2) as (K1 & K2 & K3 & K4).
  destruct (mutate_messages_kept_acks cm c2 out2 E) as [Kb _].
  split; [revert I3; apply cs_inv_ext; reflexivity|].
  split; [apply (srel_ext (fold_left apply_cop ops c2)); [reflexivity|reflexivity|exact (cops_srel ops c2 _ I2 Hs R2)]|].
  split; [apply (ent_hist_ok_ext _ (fold_left apply_cop ops c2)); [reflexivity|reflexivity|exact (ent_hist_cops _ ops c2 I2 Hs H2)]|].
  split; [apply (hist_small_ext (fold_left apply_cop ops c2)); [reflexivity|exact (hs_cops ops c2 S2)]|].
  split; [|split; [exact Hi|split; [|split; [exact Hst|]]]].
  - intros Hne. cbn [set_locals cl_upd_tick]. rewrite cops_keep_tick, (mutate_messages_keep_tick cm c2 out2 E).
    exact (Tk1 Hne).
  - cbn [set_locals cl_inbox_mut]. rewrite K2, (mutate_messages_keep_inbox_mut cm c2 out2 E). reflexivity.
  - intros m Hin. cbn [set_locals cl_buffered] in Hin. rewrite K3, Kb in Hin. apply filter_In in Hin. destruct Hin as [Hin _].
    unfold cm, merge_mut_inbox in Hin. cbn in Hin. apply fold_buffer_insert_in in Hin. rewrite B1, B2 in Hin. exact Hin.
Qed.

(* ================================================================== *)
(* 4. without the history argument (a client whose server was stopped) *)
(* ================================================================== *)

Lemma update_message_weak_maps c u c' :
  cs_inv c -> hist_small c -> small_tick (u_tick u) ->
  maps_ok (maps_pre c u) (u_maps u) -> maps_in_changes u ->
  apply_update_message c u = Ok c' -> cs_inv c' /\ hist_small c'.
Proof.
  intros Hinv Hsm HT Hmok Hch H.
  destruct (update_message_struct_maps c u c' Hinv Hmok Hch H) as (_ & Hinv' & _). split; [exact Hinv'|].
  unfold apply_update_message in H. cbv zeta in H. unfold maps_pre in Hmok.
  set (c0 := set_upd_tick c (u_tick u)) in *.
  assert (Hinv0 : cs_inv c0) by (revert Hinv; apply cs_inv_ext; reflexivity).
  assert (Hsm0 : hist_small c0) by (revert Hsm; apply hist_small_ext; reflexivity).
  destruct (despawns_struct (u_despawns u) c0 (client_struct c0) Hinv0 (srel_self c0 (cs_inv_nodup c0 Hinv0))) as [Hinv1 _].
  assert (Hsm1 : hist_small (fold_left apply_despawn (u_despawns u) c0)).
  { apply Client_proofs.fold_left_inv; [intros; apply hs_despawn; assumption|exact Hsm0]. }
  set (c1 := fold_left apply_despawn (u_despawns u) c0) in *.
  destruct (mappings_props (u_maps u) c1 Hinv1 Hmok Hsm1) as (_ & Hsm2 & _). cbv zeta in Hsm2.
  apply bind_ok in H. destruct H as [r3 [E3 H]].
  pose proof (run_array_inv hist_small _ _ (fun c0 a r P E => hs_removals c0 _ _ _ r HT P E) _ _ Hsm2 E3) as Hsm3.
  destruct r3 as [c3|c3]; cbn [sr_client] in Hsm3; [|inversion H; subst; exact Hsm3].
  apply bind_ok in H. destruct H as [r4 [E4 H]].
  pose proof (run_array_inv hist_small _ _ (fun c0 a r P E => hs_changes c0 _ _ _ r HT P E) _ _ Hsm3 E4) as Hsm4.
  destruct r4 as [c4|c4]; cbn [sr_client] in Hsm4; inversion H; subst; exact Hsm4.
Qed.

Lemma inbox_fold_weak_maps us : forall c c1, cs_inv c -> hist_small c ->
  (forall u, In u us -> maps_in_changes u) -> inbox_maps_ok c us -> (forall u, In u us -> small_tick (u_tick u)) ->
  fold_left (res_step apply_update_message) us (Ok c) = Ok c1 -> cs_inv c1 /\ hist_small c1 /\ same_buf c c1.
Proof.
  induction us as [|u t IH]; intros c c1 Hinv Hsm Hch Hmok Hst H.
  - cbn in H. inversion H; subst. split; [exact Hinv|]. split; [exact Hsm|split; reflexivity].
  - cbn [inbox_maps_ok] in Hmok. destruct Hmok as [Hm1 Hm2].
    apply fold_res_cons_ok in H. destruct H as [c2 [E H]].
    destruct (update_message_weak_maps c u c2 Hinv Hsm (Hst u (or_introl eq_refl)) Hm1 (Hch u (or_introl eq_refl)) E) as [I2 S2].
    destruct (IH c2 c1 I2 S2) as (I1 & S1 & B1).
    + intros u0 Hin. apply Hch. right. exact Hin.
    + exact (Hm2 c2 E).
    + intros u0 Hin. apply Hst. right. exact Hin.
    + exact H.
    + split; [exact I1|]. split; [exact S1|].
      destruct (same_buf_update c u c2 E) as [A1 A2]. destruct B1 as [B1 B2]. split; congruence.
Qed.

Theorem cframe_weak_maps c ops c' out :
  cs_inv c -> hist_small c -> cl_status c = Connected ->
  (forall u, In u (cl_inbox_upd c) -> maps_in_changes u) -> inbox_maps_ok c (cl_inbox_upd c) ->
  (forall u, In u (cl_inbox_upd c) -> small_tick (u_tick u)) ->
  (forall m, In m (cl_inbox_mut c ++ cl_buffered c) -> small_tick (m_tick m)) ->
  (forall c2 out2, apply_replication c = Ok (c2, out2) -> cops_safe c2 ops = true) ->
  client_frame c ops = Ok (c', out) ->
  cs_inv c' /\ hist_small c' /\ cl_status c' = Connected /\ cl_inbox_upd c' = [] /\ cl_inbox_mut c' = [] /\
  (forall m, In m (cl_buffered c') -> In m (cl_inbox_mut c ++ cl_buffered c)).
Proof.
  intros Hinv Hsm Hc Hch Hmok Hsmu Hsmm Hops H.
  destruct (frame_clears_inbox c ops c' out Hc H) as [Hi Hst].
  unfold client_frame in H. rewrite Hc, andb_false_r in H.
  apply bind_ok in H. destruct H as [[c2 out2] [E H]]. inversion H; subst c' out. clear H.
  pose proof (Hops c2 out2 E) as Hs.
  unfold apply_replication in E. apply bind_ok in E. destruct E as [c1 [E1 E]].
  change (fold_left (res_step apply_update_message) (cl_inbox_upd c) (Ok c) = Ok c1) in E1. fold (merge_mut_inbox c1) in E.
  destruct (inbox_fold_weak_maps _ c c1 Hinv Hsm Hch Hmok Hsmu E1) as (I1 & S1 & [B1 B2]).
  set (cm := merge_mut_inbox c1) in *.
  assert (Im : cs_inv cm) by (revert I1; apply cs_inv_ext; reflexivity).
  assert (Sm : hist_small cm) by (revert S1; apply hist_small_ext; reflexivity).
  assert (Mm : forall m, In m (cl_buffered cm) -> In m (cl_inbox_mut c ++ cl_buffered c)).
  { intros m Hin. unfold cm, merge_mut_inbox in Hin. cbn in Hin. apply fold_buffer_insert_in in Hin. rewrite B1, B2 in Hin. exact Hin. }
  assert (Hw : cs_inv c2 /\ hist_small c2) by exact (mutate_messages_weak cm c2 out2 Im Sm (fun m Hm => Hsmm m (Mm m Hm)) E).
  destruct Hw as [I2 S2].
  destruct (cops_step ops c2 I2 Hs) as [I3 G3].
  destruct (cops_fields ops c2) as (K1 & K2 & K3 & K4).
  destruct (mutate_messages_kept_acks cm c2 out2 E) as [Kb _].
  split; [revert I3; apply cs_inv_ext; reflexivity|].
  split; [apply (hist_small_ext (fold_left apply_cop ops c2)); [reflexivity|exact (hs_cops ops c2 S2)]|].
  split; [exact Hst|]. split; [exact Hi|]. split.
  - cbn [set_locals cl_inbox_mut]. rewrite K2, (mutate_messages_keep_inbox_mut cm c2 out2 E). reflexivity.
  - intros m Hin. cbn [set_locals cl_buffered] in Hin. rewrite K3, Kb in Hin. apply filter_In in Hin. destruct Hin as [Hin _].
    exact (Mm m Hin).
Qed.
