(* The server history invariant [srv_hist] (Repl/ValSpec.v) holds in every state of a whole-system run
   of a legal single-session script without SMap / SUnmark whose components are of kind 0 / 1 with `VNat`
   values ([hist_run]); a despawned entity stays despawned ([dead_step], [dead_run]).

   Structure: 1. sorted component lists; 2. what one game operation does to the entity table, the
   stamps and the despawn buffer ([apply_sop_cases]); 3. what a server frame does to the fields the
   record reads ([server_frame_core]); 4. steps that are not server frames; 5. the induction. *)
From RV Require Import Lib.Res Repl.ClientTicks Repl.ClientTicks_proofs Repl.World Vis.Visibility Tick.RepliconTick
  Tick.ConfirmHistory Tick.MutateTicks Repl.Server Repl.ServerSpec Repl.Server_proofs Repl.StructSpec Repl.Struct_proofs
  Repl.StructOps_proofs Repl.StructRun_proofs Repl.Client Repl.Sys Repl.ClientMut_proofs Repl.ClientStructSpec
  Repl.ClientStruct_proofs Repl.StructE2E_proofs Repl.StructE2EMut_proofs Repl.ValSpec Repl.ValSnap_proofs.
From Coq Require Import ZifyBool ZifyN.
Open Scope N_scope.
Ltac Zify.zify_post_hook ::= Z.div_mod_to_equations.
Arguments N.add : simpl never. Arguments N.mul : simpl never. Arguments N.pow : simpl never.
Arguments N.ltb : simpl never. Arguments N.leb : simpl never. Arguments N.div : simpl never.
Arguments N.modulo : simpl never. Arguments N.sub : simpl never. Arguments N.eqb : simpl never.

(* ================================================================== *)
(* 1. sorted component lists                                          *)
(* ================================================================== *)

Lemma keys_kinsert_inv {V} k (c : V) l k0 : In k0 (map fst (kinsert k c l)) -> k0 = k \/ In k0 (map fst l).
Proof.
  intros H. apply in_map_iff in H. destruct H as [[k1 c1] [E H]]. cbn [fst] in E. subst k1.
  apply In_kinsert in H. destruct H as [H | H]; [left; congruence|right]. apply in_map_iff. exists (k0, c1). auto.
Qed.

Lemma keys_al_remove_inv {V} k (l : list (N * V)) k0 : In k0 (map fst (al_remove k l)) -> In k0 (map fst l).
Proof.
  intros H. apply in_map_iff in H. destruct H as [[k1 c1] [E H]]. cbn [fst] in E. subst k1.
  apply In_al_remove in H. apply in_map_iff. exists (k0, c1). tauto.
Qed.

Lemma ksorted_kinsert {V} k (v : V) l : ksorted l -> ksorted (kinsert k v l).
Proof.
  induction l as [|[k0 v0] t IH]; cbn [kinsert ksorted].
  - intros _. split; [intros k' []|exact I].
  - intros [H1 H2]. destruct (k =? k0) eqn:E.
    + cbn [ksorted]. split; [|exact H2]. intros k' Hk. assert (k = k0) by lia. subst k. exact (H1 k' Hk).
    + destruct (k <? k0) eqn:E2; cbn [ksorted map fst].
      * split; [|split; assumption]. intros k' [<- | Hk]; [lia|]. specialize (H1 k' Hk). lia.
      * split; [|exact (IH H2)]. intros k' Hk. apply keys_kinsert_inv in Hk. destruct Hk as [-> | Hk]; [lia|exact (H1 k' Hk)].
Qed.

Lemma ksorted_al_remove {V} k (l : list (N * V)) : ksorted l -> ksorted (al_remove k l).
Proof.
  induction l as [|[k0 v0] t IH]; cbn [al_remove ksorted]; [auto|].
  intros [H1 H2]. destruct (k0 =? k); [exact (IH H2)|]. cbn [ksorted]. split; [|exact (IH H2)].
  intros k' Hk. apply keys_al_remove_inv in Hk. exact (H1 k' Hk).
Qed.

Lemma ksorted_nodup {V} (l : list (N * V)) : ksorted l -> NoDup (map fst l).
Proof.
  induction l as [|[k0 v0] t IH]; cbn [ksorted map fst]; [intros _; constructor|].
  intros [H1 H2]. constructor; [|exact (IH H2)]. intros Hin. specialize (H1 k0 Hin). lia.
Qed.

Lemma ksorted_In_get {V} (l : list (N * V)) k c : ksorted l -> (In (k, c) l <-> al_get k l = Some c).
Proof.
  intros H. split; [|apply al_get_In]. apply In_al_get_nodup. exact (ksorted_nodup l H).
Qed.

(* what the record says about the components of one entity *)
Definition comps_ok (now : N) (l : list (N * comp)) : Prop :=
  ksorted l /\
  forall k c, In (k, c) l -> kind01 k = true /\ val_nat (c_val c) = true /\ c_added c <= c_changed c /\ c_changed c <= now.

Lemma comps_ok_nil now : comps_ok now [].
Proof. split; [exact I|intros k c []]. Qed.

Lemma comps_ok_kinsert now k c l :
  comps_ok now l -> kind01 k = true -> val_nat (c_val c) = true -> c_added c <= c_changed c -> c_changed c <= now ->
  comps_ok now (kinsert k c l).
Proof.
  intros [H1 H2] A B C D. split; [apply ksorted_kinsert; exact H1|].
  intros k' c' Hin. apply In_kinsert in Hin. destruct Hin as [E | Hin]; [|exact (H2 k' c' Hin)].
  injection E as -> ->. auto.
Qed.

Lemma comps_ok_al_remove now k l : comps_ok now l -> comps_ok now (al_remove k l).
Proof.
  intros [H1 H2]. split; [apply ksorted_al_remove; exact H1|].
  intros k' c' Hin. apply In_al_remove in Hin. exact (H2 k' c' (proj1 Hin)).
Qed.

Lemma comps_ok_mono now now' l : now <= now' -> comps_ok now l -> comps_ok now' l.
Proof.
  intros Hle [H1 H2]. split; [exact H1|]. intros k c Hin. destruct (H2 k c Hin) as (A & B & C & D).
  repeat split; try assumption. lia.
Qed.

(* the components of a spawned entity *)
Lemma spawn_comps_ok (ok : val -> bool) now comps : forall acc,
  forallb (fun kv : N * val => kind01 (fst kv) && val_nat (snd kv)) comps = true ->
  comps_ok now acc -> (forall k c, In (k, c) acc -> c_changed c = now) ->
  let cs := fold_left (fun acc (kv : N * val) => if ok (snd kv) then kinsert (fst kv) (mkComp (snd kv) now now) acc else acc)
                      comps acc in
  comps_ok now cs /\ (forall k c, In (k, c) cs -> c_changed c = now).
Proof.
  induction comps as [|kv comps IH]; intros acc Hv Hacc Hst; cbn [fold_left]; [split; assumption|].
  cbn [forallb] in Hv. apply andb_prop in Hv. destruct Hv as [Hv1 Hv2]. apply andb_prop in Hv1. destruct Hv1 as [Hk Hn].
  apply IH; [exact Hv2| |].
  - destruct (ok (snd kv)); [|exact Hacc]. apply comps_ok_kinsert; cbn [c_val c_added c_changed]; try assumption; lia.
  - destruct (ok (snd kv)); [|exact Hst]. intros k c Hin. apply In_kinsert in Hin.
    destruct Hin as [E | Hin]; [injection E as _ ->; reflexivity|exact (Hst k c Hin)].
Qed.

(* without the value restriction: the stamps only *)
Lemma spawn_comps_changed (ok : val -> bool) now comps : forall acc k c,
  (forall k c, In (k, c) acc -> c_changed c = now) ->
  In (k, c) (fold_left (fun acc (kv : N * val) => if ok (snd kv) then kinsert (fst kv) (mkComp (snd kv) now now) acc else acc)
                       comps acc) -> c_changed c = now.
Proof.
  induction comps as [|kv comps IH]; intros acc k c Hacc; cbn [fold_left]; [apply Hacc|].
  apply IH. destruct (ok (snd kv)); [|exact Hacc].
  intros k' c' Hin. apply In_kinsert in Hin. destruct Hin as [H | H]; [|exact (Hacc _ _ H)].
  injection H as _ ->. reflexivity.
Qed.

(* ================================================================== *)
(* 2. one game operation                                              *)
(* ================================================================== *)

Lemma sv_despawn_buf_buffer_despawn s e :
  sv_despawn_buf (buffer_despawn s e) = sv_despawn_buf s \/ sv_despawn_buf (buffer_despawn s e) = sv_despawn_buf s ++ [e].
Proof. unfold buffer_despawn. destruct (sv_running s); [right|left]; reflexivity. Qed.

(* an operation either leaves the entity table and the despawn buffer alone, or it rewrites one entity [e]
   (not a despawned one) to [x']: every component record of [x'] is stamped now or was there before; under
   [sop_vals] the component list stays well formed; the despawn buffer grows at most by [e], and then [e] is
   dead afterwards *)
Lemma apply_sop_cases s op :
  let s' := apply_sop s op in
  (sv_ents s' = sv_ents s /\ sv_despawn_buf s' = sv_despawn_buf s) \/
  exists e x', sv_ents s' = sv_ents (set_ent s e x') /\
    (forall x, get_ent s e = Some x -> se_alive x = true) /\
    (forall k c, al_get k (se_comps x') = Some c ->
       c_changed c = sv_now s \/ exists x, get_ent s e = Some x /\ al_get k (se_comps x) = Some c) /\
    (sop_vals op = true -> (forall x, get_ent s e = Some x -> comps_ok (sv_now s) (se_comps x)) ->
       comps_ok (sv_now s) (se_comps x')) /\
    (sv_despawn_buf s' = sv_despawn_buf s \/
     (sv_despawn_buf s' = sv_despawn_buf s ++ [e] /\ (sop_vals op = true -> se_alive x' = false))).
Proof.
  cbv zeta.
  destruct op as [e marker comps|e|e k v|e k|e k v|e|e|slot e visible|slot e pc]; unfold apply_sop.
  - (* SSpawn *)
    destruct (get_ent s e) as [x0|] eqn:Eg; [left; auto|]. right.
    eexists e, _. split; [reflexivity|]. split; [intros x Hx; congruence|]. cbn [se_comps se_alive]. split; [|split; [|left; reflexivity]].
    + intros k c Hc. left. apply al_get_In in Hc. revert Hc. apply spawn_comps_changed. intros k0 c0 [].
    + intros Hv _. cbn [sop_vals] in Hv.
      exact (proj1 (spawn_comps_ok (val_ok s) (sv_now s) comps [] Hv (comps_ok_nil _) (fun k c (H : In (k, c) []) => match H with end))).
  - (* SDespawn *)
    destruct (get_ent s e) as [x|] eqn:Eg; [|left; auto]. destruct (se_alive x) eqn:Ea; [|left; auto]. right.
    exists e, (mkSEnt false None []). split; [destruct (se_marker x); [apply sv_ents_buffer_despawn|reflexivity]|].
    split; [intros x1 Hx1; congruence|]. cbn [se_comps se_alive]. split; [intros k c Hc; discriminate|]. split; [intros _ _; apply comps_ok_nil|].
    destruct (se_marker x); [|left; reflexivity].
    destruct (sv_despawn_buf_buffer_despawn (set_ent s e (mkSEnt false None [])) e) as [E | E]; rewrite E; [left; reflexivity|right].
    split; [reflexivity|intros _; reflexivity].
  - (* SInsert *)
    destruct (get_ent s e) as [x|] eqn:Eg; [|left; auto]. destruct (se_alive x && val_ok s v) eqn:Ea; [|left; auto]. right.
    apply andb_prop in Ea. destruct Ea as [Ea _].
    eexists e, _. split; [reflexivity|]. split; [intros x1 Hx1; congruence|]. cbn [se_comps se_alive]. split; [|split; [|left; reflexivity]].
    + intros k0 c Hc. destruct (N.eq_dec k0 k) as [-> | Hne].
      * rewrite kinsert_get_same in Hc. injection Hc as <-. left. destruct (al_get k (se_comps x)); reflexivity.
      * rewrite kinsert_get_other in Hc by exact Hne. right. exists x. auto.
    + intros Hv Hok. cbn [sop_vals] in Hv. apply andb_prop in Hv. destruct Hv as [Hk Hn]. specialize (Hok x Eg).
      destruct (al_get k (se_comps x)) as [old|] eqn:Eo.
      * apply al_get_In in Eo. destruct (proj2 Hok k old Eo) as (_ & _ & A & B).
        apply comps_ok_kinsert; cbn [c_val c_added c_changed]; try assumption; lia.
      * apply comps_ok_kinsert; cbn [c_val c_added c_changed]; try assumption; lia.
  - (* SRemove *)
    destruct (get_ent s e) as [x|] eqn:Eg; [|left; auto]. destruct (se_alive x) eqn:Ea; [|left; auto].
    destruct (al_get k (se_comps x)) as [old|] eqn:Eo; [|left; auto]. right.
    eexists e, _. split; [reflexivity|]. split; [intros x1 Hx1; congruence|]. cbn [se_comps se_alive]. split; [|split; [|left; reflexivity]].
    + intros k0 c Hc. rewrite al_get_remove in Hc. destruct (k0 =? k); [discriminate|]. right. exists x. auto.
    + intros _ Hok. apply comps_ok_al_remove. exact (Hok x Eg).
  - (* SMutate *)
    destruct (get_ent s e) as [x|] eqn:Eg; [|left; auto]. destruct (se_alive x && val_ok s v) eqn:Ea; [|left; auto].
    apply andb_prop in Ea. destruct Ea as [Ea _].
    destruct (al_get k (se_comps x)) as [old|] eqn:Eo; [|left; auto]. right.
    eexists e, _. split; [reflexivity|]. split; [intros x1 Hx1; congruence|]. cbn [se_comps se_alive]. split; [|split; [|left; reflexivity]].
    + intros k0 c Hc. destruct (N.eq_dec k0 k) as [-> | Hne].
      * rewrite kinsert_get_same in Hc. injection Hc as <-. left. reflexivity.
      * rewrite kinsert_get_other in Hc by exact Hne. right. exists x. auto.
    + intros Hv Hok. cbn [sop_vals] in Hv. apply andb_prop in Hv. destruct Hv as [Hk Hn]. specialize (Hok x Eg).
      apply al_get_In in Eo. destruct (proj2 Hok k old Eo) as (_ & _ & A & B).
      apply comps_ok_kinsert; cbn [c_val c_added c_changed]; try assumption; lia.
  - (* SMark *)
    destruct (get_ent s e) as [x|] eqn:Eg; [|left; auto]. destruct (se_alive x) eqn:Ea; [|left; auto].
    destruct (se_marker x); [left; auto|]. right.
    eexists e, _. split; [reflexivity|]. split; [intros x1 Hx1; congruence|]. cbn [se_comps se_alive]. split; [|split; [|left; reflexivity]].
    + intros k0 c Hc. right. exists x. auto.
    + intros _ Hok. exact (Hok x Eg).
  - (* SUnmark *)
    destruct (get_ent s e) as [x|] eqn:Eg; [|left; auto]. destruct (se_alive x) eqn:Ea; [|left; auto].
    destruct (se_marker x); [|left; auto]. right.
    exists e, (mkSEnt true None (se_comps x)). split; [apply sv_ents_buffer_despawn|]. split; [intros x1 Hx1; congruence|].
    cbn [se_comps se_alive]. split; [|split].
    + intros k0 c Hc. right. exists x. auto.
    + intros _ Hok. exact (Hok x Eg).
    + destruct (sv_despawn_buf_buffer_despawn (set_ent s e (mkSEnt true None (se_comps x))) e) as [E | E]; rewrite E; [left; reflexivity|right].
      split; [reflexivity|intros Hv; discriminate].
  - (* SVis *)
    left. destruct (find_client s slot) as [c0|]; [|auto]. destruct (get_ent s e); [|auto]. destruct (sc_vis c0); auto.
  - (* SMap *)
    left. destruct (find_client s slot) as [c0|]; [|auto]. destruct (get_ent s e); [|auto].
    destruct (sc_authorized c0 && existsb _ (sv_premap s)); auto.
Qed.

(* ---------- consequences ---------- *)

Definition ents_ok (s : server) : Prop := forall e x, get_ent s e = Some x -> comps_ok (sv_now s) (se_comps x).
Definition db_ok (s : server) : Prop := forall e, In e (sv_despawn_buf s) -> dead s e.
(* every component record of [s'] is stamped with the current stamp of [s] or is a record of [s] *)
Definition comp_step (s s' : server) : Prop :=
  forall e x' k c, get_ent s' e = Some x' -> al_get k (se_comps x') = Some c ->
    c_changed c = sv_now s \/ exists x, get_ent s e = Some x /\ al_get k (se_comps x) = Some c.

Lemma get_ent_ext s s' e : sv_ents s' = sv_ents s -> get_ent s' e = get_ent s e.
Proof. unfold get_ent. intros ->. reflexivity. Qed.

Lemma dead_ext s s' e : sv_ents s' = sv_ents s -> dead s e -> dead s' e.
Proof. intros E (x & Hx & Ha). exists x. rewrite (get_ent_ext s s' e E). auto. Qed.

Lemma keeps_ext r s1 s s' : sv_ents s' = sv_ents s -> keeps r s1 s -> keeps r s1 s'.
Proof. intros E H e x2 k c Hx. rewrite (get_ent_ext s s' e E) in Hx. exact (H e x2 k c Hx). Qed.

Lemma keeps_refl r s : keeps r s s.
Proof. intros e x2 k c Hx Hc _. exists x2. auto. Qed.

Lemma ents_ok_ext s s' : sv_ents s' = sv_ents s -> sv_now s <= sv_now s' -> ents_ok s -> ents_ok s'.
Proof.
  intros E Hn H e x Hx. rewrite (get_ent_ext s s' e E) in Hx. exact (comps_ok_mono _ _ _ Hn (H e x Hx)).
Qed.

Lemma apply_sop_now s op : sv_now (apply_sop s op) = sv_now s.
Proof. destruct (apply_sop_flags s op) as (_ & _ & _ & _ & H & _). exact H. Qed.

Lemma ops_now ops s : sv_now (fold_left apply_sop ops s) = sv_now s.
Proof. destruct (ops_flags ops s) as (_ & _ & _ & _ & H & _). exact H. Qed.

Lemma apply_sop_ents_ok s op : sop_vals op = true -> ents_ok s -> ents_ok (apply_sop s op).
Proof.
  intros Hv H e0 x0 Hx0. rewrite apply_sop_now.
  destruct (apply_sop_cases s op) as [[E _] | (e & x' & E & _ & _ & Hc & _)].
  - rewrite (get_ent_ext _ _ e0 E) in Hx0. exact (H e0 x0 Hx0).
  - rewrite (get_ent_ext _ _ e0 E), get_ent_set_ent in Hx0. destruct (e0 =? e) eqn:Ee.
    + injection Hx0 as <-. apply Hc; [exact Hv|]. intros x Hx. exact (H e x Hx).
    + exact (H e0 x0 Hx0).
Qed.

Lemma apply_sop_comp_step s op : comp_step s (apply_sop s op).
Proof.
  intros e0 x0 k c Hx0 Hc.
  destruct (apply_sop_cases s op) as [[E _] | (e & x' & E & _ & Hold & _)].
  - right. exists x0. rewrite (get_ent_ext _ _ e0 E) in Hx0. auto.
  - rewrite (get_ent_ext _ _ e0 E), get_ent_set_ent in Hx0. destruct (e0 =? e) eqn:Ee.
    + injection Hx0 as <-. assert (e0 = e) by lia. subst e0. exact (Hold k c Hc).
    + right. exists x0. auto.
Qed.

(* every operation on a despawned entity is a no-op, `SSpawn` never reuses an id *)
Lemma apply_sop_dead s op e0 : dead s e0 -> dead (apply_sop s op) e0.
Proof.
  intros (x & Hx & Ha).
  destruct (apply_sop_cases s op) as [[E _] | (e & x' & E & Hal & _)].
  - exists x. rewrite (get_ent_ext _ _ e0 E). auto.
  - destruct (e0 =? e) eqn:Ee.
    + assert (e0 = e) by lia. subst e0. specialize (Hal x Hx). congruence.
    + exists x. rewrite (get_ent_ext _ _ e0 E), get_ent_set_ent, Ee. auto.
Qed.

Lemma apply_sop_db s op : sop_vals op = true -> db_ok s -> db_ok (apply_sop s op).
Proof.
  intros Hv H e0 Hin.
  destruct (apply_sop_cases s op) as [[E Ed] | (e & x' & E & _ & _ & _ & [Ed | [Ed Hna]])]; rewrite Ed in Hin.
  - apply apply_sop_dead. exact (H e0 Hin).
  - apply apply_sop_dead. exact (H e0 Hin).
  - apply in_app_or in Hin. destruct Hin as [Hin | [<- | []]]; [apply apply_sop_dead; exact (H e0 Hin)|].
    exists x'. rewrite (get_ent_ext _ _ e E), get_ent_set_ent, N.eqb_refl. split; [reflexivity|exact (Hna Hv)].
Qed.

Lemma keeps_step r s1 s s' : keeps r s1 s -> comp_step s s' -> r < sv_now s -> keeps r s1 s'.
Proof.
  intros H Hs Hr e x2 k c Hx Hc Hle. destruct (Hs e x2 k c Hx Hc) as [E | (x & Hx' & Hc')]; [lia|].
  exact (H e x k c Hx' Hc' Hle).
Qed.

Lemma ops_ents_ok ops : forall s, forallb sop_vals ops = true -> ents_ok s -> ents_ok (fold_left apply_sop ops s).
Proof.
  induction ops as [|op t IH]; intros s Hv H; cbn [fold_left]; [exact H|].
  cbn [forallb] in Hv. apply andb_prop in Hv. destruct Hv as [H1 H2]. apply IH; [exact H2|]. apply apply_sop_ents_ok; assumption.
Qed.

Lemma ops_db ops : forall s, forallb sop_vals ops = true -> db_ok s -> db_ok (fold_left apply_sop ops s).
Proof.
  induction ops as [|op t IH]; intros s Hv H; cbn [fold_left]; [exact H|].
  cbn [forallb] in Hv. apply andb_prop in Hv. destruct Hv as [H1 H2]. apply IH; [exact H2|]. apply apply_sop_db; assumption.
Qed.

Lemma ops_dead ops e : forall s, dead s e -> dead (fold_left apply_sop ops s) e.
Proof.
  induction ops as [|op t IH]; intros s H; cbn [fold_left]; [exact H|]. apply IH. apply apply_sop_dead. exact H.
Qed.

Lemma ops_keeps r s1 ops : forall s, keeps r s1 s -> r < sv_now s -> keeps r s1 (fold_left apply_sop ops s).
Proof.
  induction ops as [|op t IH]; intros s H Hr; cbn [fold_left]; [exact H|].
  apply IH; [|rewrite apply_sop_now; exact Hr]. exact (keeps_step r s1 s _ H (apply_sop_comp_step s op) Hr).
Qed.

(* ================================================================== *)
(* 3. one server frame                                                *)
(* ================================================================== *)

Lemma server_frame_core c s tick dt (cleanup : bool) ops parts s' fo :
  server_frame c s tick dt cleanup ops parts = Ok (s', fo) ->
  exists s2,
    sv_ents s2 = sv_ents s /\ sv_now s2 = sv_now s /\ sv_despawn_buf s2 = sv_despawn_buf s /\
    sv_ents s' = sv_ents (fold_left apply_sop ops s2) /\
    ((fo_ran fo = true /\ sv_running s = true /\ sv_dirty s || tick = true /\
      sv_now s' = sv_now s + 1 /\ sv_last_run s' = sv_now s /\ sv_despawn_buf s' = []) \/
     (fo_ran fo = false /\ sv_now s' = sv_now s /\ sv_last_run s' = sv_last_run s /\
      forall e, In e (sv_despawn_buf s') -> In e (sv_despawn_buf (fold_left apply_sop ops s2)))).
Proof.
  intros H. unfold server_frame in H.
  set (s1 := with_time_tick s tick dt) in *.
  set (s2 := if sv_running s1 then (let r := receive_acks s1 in if cleanup then cleanup_acks c r else r) else s1) in *.
  assert (F2 : sv_ents s2 = sv_ents s /\ sv_now s2 = sv_now s /\ sv_despawn_buf s2 = sv_despawn_buf s /\
               sv_last_run s2 = sv_last_run s /\ sv_running s2 = sv_running s /\ sv_dirty s2 = sv_dirty s || tick).
  { unfold s2. destruct (sv_running s1) eqn:E; [|repeat split; reflexivity]. cbv zeta. destruct cleanup; repeat split; reflexivity. }
  destruct F2 as (A1 & A2 & A3 & A4 & A5 & A6). exists s2.
  split; [exact A1|]. split; [exact A2|]. split; [exact A3|].
  destruct (ops_flags ops s2) as (B1 & _ & B3 & _ & B5 & B6 & _). set (s3 := fold_left apply_sop ops s2) in *.
  destruct (sv_running s3) eqn:Er3.
  - change (sv_dirty (buffer_removals s3)) with (sv_dirty s3) in H. destruct (sv_dirty s3) eqn:Ed.
    + rewrite send_replication_eq in H. cbn [bind] in H. injection H as <- <-.
      split; [reflexivity|]. left. split; [reflexivity|]. split; [congruence|]. split; [congruence|].
      split; [|split; [|reflexivity]].
      * change (sv_now s3 + 1 = sv_now s + 1). congruence.
      * change (sv_now s3 = sv_now s). congruence.
    + cbn [bind] in H. injection H as <- <-. split; [reflexivity|]. right. split; [reflexivity|].
      split; [change (sv_now s3 = sv_now s); congruence|]. split; [change (sv_last_run s3 = sv_last_run s); congruence|].
      intros e He. exact He.
  - cbn [bind] in H. injection H as <- <-. split; [destruct (sv_last_running s3); reflexivity|]. right. split; [reflexivity|].
    split; [destruct (sv_last_running s3); change (sv_now s3 = sv_now s); congruence|].
    split; [destruct (sv_last_running s3); change (sv_last_run s3 = sv_last_run s); congruence|].
    intros e He. destruct (sv_last_running s3); [destruct He|exact He].
Qed.

Lemma sframe_step_inv y tick dt cu ops parts y' o :
  sys_step y (StSFrame tick dt cu ops parts) = Ok (y', o) ->
  exists fo vs, o = OSFrame fo vs /\ server_frame (y_cfg y) (y_server y) tick dt cu ops parts = Ok (y_server y', fo).
Proof.
  intros Hs. cbn [sys_step] in Hs.
  destruct (server_frame (y_cfg y) (y_server y) tick dt cu ops parts) as [[s' fo]| |] eqn:Ef; cbn [bind] in Hs; try discriminate.
  injection Hs as <- <-. eexists fo, _. split; [reflexivity|].
  destruct (enqueue_fields (fo_clients fo) (set_server y s')) as (_ & B & _). rewrite B. reflexivity.
Qed.

(* ================================================================== *)
(* 4. the other steps                                                 *)
(* ================================================================== *)

Definition is_sframe (st : step) : bool := match st with StSFrame _ _ _ _ _ => true | _ => false end.

Definition hist_same (s s' : server) : Prop :=
  sv_ents s' = sv_ents s /\ sv_now s' = sv_now s /\ sv_last_run s' = sv_last_run s /\ sv_tick s' = sv_tick s /\
  sv_dirty s' = sv_dirty s /\ sv_despawn_buf s' = sv_despawn_buf s.

Lemma hist_same_refl s : hist_same s s.
Proof. repeat split; reflexivity. Qed.

Lemma deliver_acks_same s slot idxs :
  hist_same s (deliver_acks s slot idxs) /\ sv_running (deliver_acks s slot idxs) = sv_running s.
Proof.
  unfold deliver_acks. destruct (sv_running s) eqn:E; [|split; [apply hist_same_refl|exact E]].
  destruct (find_client s slot); [|split; [apply hist_same_refl|exact E]]. split; [repeat split; reflexivity|first [reflexivity|exact E]].
Qed.

Lemma deliver_acks_fold_same slot picked : forall s,
  hist_same s (fold_left (fun s idxs => deliver_acks s slot idxs) picked s) /\
  sv_running (fold_left (fun s idxs => deliver_acks s slot idxs) picked s) = sv_running s.
Proof.
  induction picked as [|i t IH]; intros s; cbn [fold_left]; [split; [apply hist_same_refl|reflexivity]|].
  destruct (IH (deliver_acks s slot i)) as [(A1 & A2 & A3 & A4 & A5 & A6) A7].
  destruct (deliver_acks_same s slot i) as [(B1 & B2 & B3 & B4 & B5 & B6) B7].
  split; [repeat split|]; congruence.
Qed.

Lemma connect_client_same c s slot max :
  hist_same s (connect_client c s slot max) /\ sv_running (connect_client c s slot max) = sv_running s.
Proof.
  unfold connect_client. destruct (sv_running s) eqn:E; [|split; [apply hist_same_refl|exact E]].
  destruct (find_client s slot); [split; [apply hist_same_refl|exact E]|]. split; [repeat split; reflexivity|first [reflexivity|exact E]].
Qed.

Lemma authorize_client_same c s slot :
  hist_same s (authorize_client c s slot) /\ sv_running (authorize_client c s slot) = sv_running s.
Proof.
  unfold authorize_client. destruct (find_client s slot) as [cl|]; [|split; [apply hist_same_refl|reflexivity]].
  destruct (sc_authorized cl); split; try apply hist_same_refl; try reflexivity. repeat split; reflexivity.
Qed.

Lemma nonframe_fields y st y' o : sys_step y st = Ok (y', o) -> is_sframe st = false ->
  hist_same (y_server y) (y_server y') /\
  (st = StStart \/ st = StStop \/ sv_running (y_server y') = sv_running (y_server y)).
Proof.
  intros H Hnf.
  assert (Hnoop : hist_same (y_server y) (y_server y) /\
                  (st = StStart \/ st = StStop \/ sv_running (y_server y) = sv_running (y_server y)))
    by (split; [apply hist_same_refl|right; right; reflexivity]).
  destruct st as [| |slot max|slot|slot|tick dt cleanup ops parts|slot ops|slot s2c ch w|slot s2c ch w];
    try discriminate; cbn [sys_step] in H.
  - injection H as <- _. split; [repeat split; reflexivity|left; reflexivity].
  - injection H as <- _. split; [repeat split; reflexivity|right; left; reflexivity].
  - destruct (find_client (y_server y) slot); [injection H as <- _; exact Hnoop|].
    destruct (al_get slot (y_clients y)); [|injection H as <- _; exact Hnoop].
    destruct (sv_running (y_server y)) eqn:Er;
      [|injection H as <- _; split; [apply hist_same_refl|right; right; exact Er]].
    injection H as <- _. cbn [set_client set_server y_server].
    destruct (connect_client_same (y_cfg y) (y_server y) slot max) as [A B]. split; [exact A|right; right; congruence].
  - injection H as <- _. cbn [set_server y_server].
    destruct (authorize_client_same (y_cfg y) (y_server y) slot) as [A B]. split; [exact A|right; right; exact B].
  - destruct (al_get slot (y_clients y)); injection H as <- _; [|exact Hnoop].
    split; [repeat split; reflexivity|right; right; reflexivity].
  - destruct (al_get slot (y_clients y)) as [cl|]; [|injection H as <- _; exact Hnoop].
    destruct (client_frame cl ops) as [[cl' cfo]| |]; cbn [bind] in H; try discriminate.
    cbv zeta in H. injection H as <- _. cbn [set_server y_server].
    destruct (cfo_acks cfo); [|destruct (cl_status cl')]; (split; [repeat split; reflexivity|right; right; reflexivity]).
  - destruct (al_get slot (y_clients y)) as [cl|]; [|injection H as <- _; exact Hnoop].
    destruct s2c.
    + destruct (ch =? 0).
      * destruct (take w (l_upd (get_link y slot))) as [picked rest]. injection H as <- _. exact Hnoop.
      * destruct (ch =? 1); [|injection H as <- _; exact Hnoop].
        destruct (take w (l_mut (get_link y slot))) as [picked rest]. injection H as <- _. exact Hnoop.
    + destruct (ch =? 0); [|injection H as <- _; exact Hnoop].
      destruct (take w (l_ack (get_link y slot))) as [picked rest]. injection H as <- _. cbn [set_server y_server].
      destruct (deliver_acks_fold_same slot picked (y_server y)) as [A B]. split; [exact A|right; right; exact B].
  - destruct (al_get slot (y_clients y)) as [cl|]; [|injection H as <- _; exact Hnoop].
    destruct s2c.
    + destruct (ch =? 0).
      * destruct (take w (l_upd (get_link y slot))) as [picked rest]. injection H as <- _. exact Hnoop.
      * destruct (ch =? 1); [|injection H as <- _; exact Hnoop].
        destruct (take w (l_mut (get_link y slot))) as [picked rest]. injection H as <- _. exact Hnoop.
    + destruct (ch =? 0); [|injection H as <- _; exact Hnoop].
      destruct (take w (l_ack (get_link y slot))) as [picked rest]. injection H as <- _. exact Hnoop.
Qed.

(* a despawned entity stays despawned: every operation on it is a no-op, `SSpawn` never reuses an id *)
Lemma dead_step y st y' o e : sys_step y st = Ok (y', o) -> dead (y_server y) e -> dead (y_server y') e.
Proof.
  intros H Hd. destruct (is_sframe st) eqn:Esf.
  - destruct st as [| | | | |tick dt cleanup ops parts| | |]; try discriminate.
    destruct (sframe_step_inv _ _ _ _ _ _ _ _ H) as (fo & vs & _ & Ef).
    destruct (server_frame_core _ _ _ _ _ _ _ _ _ Ef) as (s2 & A1 & _ & _ & A4 & _).
    apply (dead_ext _ _ e A4). apply ops_dead. apply (dead_ext _ _ e A1). exact Hd.
  - destruct (nonframe_fields y st y' o H Esf) as [(E & _) _]. exact (dead_ext _ _ e E Hd).
Qed.

Lemma dead_run script : forall y y' e, run y script = Ok y' -> dead (y_server y) e -> dead (y_server y') e.
Proof.
  induction script as [|st t IH]; intros y y' e H Hd; cbn [run] in H; [injection H as <-; exact Hd|].
  destruct (sys_step y st) as [[y1 o]| |] eqn:E; cbn [bind] in H; try discriminate.
  exact (IH y1 y' e H (dead_step y st y1 o e E Hd)).
Qed.

(* ================================================================== *)
(* 5. the run                                                         *)
(* ================================================================== *)

Lemma pow31_val : 2 ^ 31 = 2147483648.
Proof. reflexivity. Qed.
Lemma pow32_val : 2 ^ 32 = 4294967296.
Proof. reflexivity. Qed.

(* a server without client records stays without them, except through a connect while it runs *)
Lemma apply_sop_noclients s op : sv_clients s = [] -> sv_clients (apply_sop s op) = [].
Proof.
  intros H0.
  assert (Hf : forall slot, find_client s slot = None) by (intros slot; unfold find_client; rewrite H0; reflexivity).
  destruct op as [e marker comps|e|e k v|e k|e k v|e|e|slot e visible|slot e pc]; unfold apply_sop.
  - destruct (get_ent s e); exact H0.
  - destruct (get_ent s e) as [x|]; [|exact H0]. destruct (se_alive x); [|exact H0].
    destruct (se_marker x); [rewrite sv_clients_buffer_despawn|]; exact H0.
  - destruct (get_ent s e) as [x|]; [|exact H0]. destruct (se_alive x && val_ok s v); exact H0.
  - destruct (get_ent s e) as [x|]; [|exact H0]. destruct (se_alive x); [|exact H0].
    destruct (al_get k (se_comps x)); exact H0.
  - destruct (get_ent s e) as [x|]; [|exact H0]. destruct (se_alive x && val_ok s v); [|exact H0].
    destruct (al_get k (se_comps x)); exact H0.
  - destruct (get_ent s e) as [x|]; [|exact H0]. destruct (se_alive x); [|exact H0].
    destruct (se_marker x); exact H0.
  - destruct (get_ent s e) as [x|]; [|exact H0]. destruct (se_alive x); [|exact H0].
    destruct (se_marker x); [rewrite sv_clients_buffer_despawn|]; exact H0.
  - rewrite Hf. exact H0.
  - rewrite Hf. exact H0.
Qed.

Lemma ops_noclients ops : forall s, sv_clients s = [] -> sv_clients (fold_left apply_sop ops s) = [].
Proof. induction ops as [|op t IH]; intros s H; cbn [fold_left]; [exact H|]. apply IH. apply apply_sop_noclients. exact H. Qed.

Lemma frame_noclients c s tick dt (cleanup : bool) ops parts s' fo :
  sv_clients s = [] -> server_frame c s tick dt cleanup ops parts = Ok (s', fo) -> sv_clients s' = [].
Proof.
  intros H0 H. unfold server_frame in H.
  set (s1 := with_time_tick s tick dt) in *.
  set (s2 := if sv_running s1 then (let r := receive_acks s1 in if cleanup then cleanup_acks c r else r) else s1) in *.
  assert (H2 : sv_clients s2 = []).
  { unfold s2. destruct (sv_running s1); [|exact H0]. cbv zeta.
    assert (Hr : sv_clients (receive_acks s1) = []).
    { unfold receive_acks. cbn [sv_clients]. change (sv_clients s1) with (sv_clients s). rewrite H0.
      induction (sv_inbox_acks s1) as [|[sl ix] r IH]; [reflexivity|exact IH]. }
    destruct cleanup; [|exact Hr]. unfold cleanup_acks, set_clients. cbn [sv_clients]. rewrite Hr. reflexivity. }
  pose proof (ops_noclients ops s2 H2) as H3. set (s3 := fold_left apply_sop ops s2) in *.
  destruct (sv_running s3).
  - change (sv_dirty (buffer_removals s3)) with (sv_dirty s3) in H. destruct (sv_dirty s3).
    + rewrite send_replication_eq in H. cbn [bind] in H. injection H as <- _. cbn [set_last_running set_after_send sv_clients].
      change (sv_clients (buffer_removals s3)) with (sv_clients s3). rewrite H3. reflexivity.
    + cbn [bind] in H. injection H as <- _. exact H3.
  - cbn [bind] in H. injection H as <- _. destruct (sv_last_running s3); [reflexivity|exact H3].
Qed.

Lemma nonframe_noclients y st y' o :
  sys_step y st = Ok (y', o) -> is_sframe st = false -> single_session_step st = true ->
  (forall slot max, st = StConnect slot max -> sv_running (y_server y) = false) ->
  sv_clients (y_server y) = [] -> sv_clients (y_server y') = [].
Proof.
  intros H Hnf Hss Hcon H0.
  destruct st as [| |slot max|slot|slot|tick dt cu ops parts|slot ops|slot s2c ch w|slot s2c ch w]; try discriminate; cbn [sys_step] in H.
  - injection H as <- _. exact H0.
  - rewrite (Hcon slot max eq_refl) in H. destruct (find_client (y_server y) slot), (al_get slot (y_clients y)); injection H as <- _; exact H0.
  - injection H as <- _. cbn [set_server y_server]. unfold authorize_client, find_client. rewrite H0. exact H0.
  - destruct (al_get slot (y_clients y)) as [cl|]; [|injection H as <- _; exact H0].
    destruct (client_frame cl ops) as [[cl' cfo]| |]; cbn [bind] in H; try discriminate. injection H as <- _. cbn [set_server y_server publish_pre sv_clients].
    destruct (cfo_acks cfo); [exact H0|]. destruct (cl_status cl'); exact H0.
  - destruct (al_get slot (y_clients y)) as [cl|]; [|injection H as <- _; exact H0]. destruct s2c.
    + destruct (ch =? 0); [destruct (take w (l_upd (get_link y slot))); injection H as <- _; exact H0|].
      destruct (ch =? 1); [destruct (take w (l_mut (get_link y slot))); injection H as <- _; exact H0|injection H as <- _; exact H0].
    + destruct (ch =? 0); [|injection H as <- _; exact H0]. destruct (take w (l_ack (get_link y slot))) as [picked rest]. injection H as <- _.
      cbn [set_server y_server]. clear -H0. revert H0. generalize (y_server y). induction picked as [|i t IH]; intros s0 H0; cbn [fold_left]; [exact H0|].
      apply IH. unfold deliver_acks. destruct (sv_running s0); [|exact H0]. destruct (find_client s0 slot); exact H0.
  - destruct (al_get slot (y_clients y)) as [cl|]; [|injection H as <- _; exact H0]. destruct s2c.
    + destruct (ch =? 0); [destruct (take w (l_upd (get_link y slot))); injection H as <- _; exact H0|].
      destruct (ch =? 1); [destruct (take w (l_mut (get_link y slot))); injection H as <- _; exact H0|injection H as <- _; exact H0].
    + destruct (ch =? 0); [|injection H as <- _; exact H0]. destruct (take w (l_ack (get_link y slot))) as [picked rest]. injection H as <- _. exact H0.
Qed.

Section HistRun.
  Variables (cfg0 : cfg) (nclients : N).
  Hypothesis Hpol : cfg_policy cfg0 = PAll.
  Local Notation init := (sys_init cfg0 nclients).
  Local Notation snap := (snap cfg0 nclients).
  Local Notation srv_hist := (srv_hist cfg0 nclients).

  Lemma hist_ents_ok script s : srv_hist script s -> ents_ok s.
  Proof.
    intros H e x Hx. split; [exact (sh_sorted _ _ _ _ H e x Hx)|].
    intros k c Hin. destruct (sh_nat _ _ _ _ H e x k c Hx Hin) as [A B].
    destruct (sh_stamp _ _ _ _ H e x k c Hx Hin) as [C D]. auto.
  Qed.

  Lemma hist_init : srv_hist [] (y_server init).
  Proof.
    cbn [sys_init y_server]. constructor.
    - exact server_init_wf.
    - intros e x k c Hx. discriminate.
    - intros e x Hx. discriminate.
    - intros e x k c Hx. discriminate.
    - cbn. lia.
    - reflexivity.
    - intros t r s1 Hs. destruct (snap_nil cfg0 nclients t r s1 Hs).
    - intros t1 r1 s1 t2 r2 s2 Hs. destruct (snap_nil cfg0 nclients t1 r1 s1 Hs).
    - intros t r s1 Hs. destruct (snap_nil cfg0 nclients t r s1 Hs).
    - intros t1 r1 s1 t2 r2 s2 Hs. destruct (snap_nil cfg0 nclients t1 r1 s1 Hs).
    - intros e [].
    - unfold t0_inv. cbn [fold_left]. split; [reflexivity|]. split; [reflexivity|]. split; [cbn; discriminate|]. split; [intros _; reflexivity|].
      intros t r s1. apply snap_nil.
  Qed.

  (* ---------- steps that are not server frames ---------- *)

  Lemma snap_snoc_nonframe script y st t r s1 :
    run init script = Ok y -> is_sframe st = false -> snap (script ++ [st]) t r s1 -> snap script t r s1.
  Proof.
    intros Hr Hnf H.
    destruct (snap_snoc_inv cfg0 nclients script y st t r s1 Hr H) as [H0 | (y1 & tk & dt & cu & ops & parts & fo & vs & E & _)];
      [exact H0|]. subst st. discriminate.
  Qed.

  Lemma hist_nonframe script y st y' o :
    run init script = Ok y -> sys_step y st = Ok (y', o) -> is_sframe st = false -> st <> StStop -> single_session_step st = true ->
    srv_hist script (y_server y) -> srv_hist (script ++ [st]) (y_server y').
  Proof.
    intros Hr Hs Hnf Hns Hss H. destruct (nonframe_fields y st y' o Hs Hnf) as [(E1 & E2 & E3 & E4 & E5 & E6) Hrun].
    set (s := y_server y) in *. set (s' := y_server y') in *.
    assert (Hsn : forall t r s1, snap (script ++ [st]) t r s1 -> snap script t r s1)
      by (intros t r s1; exact (snap_snoc_nonframe script y st t r s1 Hr Hnf)).
    assert (Hg : forall e, get_ent s' e = get_ent s e) by (intros e; apply get_ent_ext; exact E1).
    constructor.
    - exact (ents_wf_same s s' E1 (sh_wf _ _ _ _ H)).
    - intros e x k c Hx. rewrite Hg in Hx. exact (sh_nat _ _ _ _ H e x k c Hx).
    - intros e x Hx. rewrite Hg in Hx. exact (sh_sorted _ _ _ _ H e x Hx).
    - intros e x k c Hx. rewrite Hg in Hx. rewrite E2. exact (sh_stamp _ _ _ _ H e x k c Hx).
    - rewrite E2, E3. exact (sh_now _ _ _ _ H).
    - rewrite E4, tick_frames_snoc. replace (is_tick_frame st) with false by (destruct st; try reflexivity; discriminate).
      exact (sh_tick _ _ _ _ H).
    - intros t r s1 Hsnap. rewrite E3, E4, E5. exact (sh_bound _ _ _ _ H t r s1 (Hsn _ _ _ Hsnap)).
    - intros t1 r1 s1 t2 r2 s2 H1 H2. exact (sh_inj _ _ _ _ H t1 r1 s1 t2 r2 s2 (Hsn _ _ _ H1) (Hsn _ _ _ H2)).
    - intros t1 r1 s1 H1. apply (keeps_ext r1 s1 s s' E1). exact (sh_keep _ _ _ _ H t1 r1 s1 (Hsn _ _ _ H1)).
    - intros t1 r1 s1 t2 r2 s2 H1 H2. exact (sh_keep2 _ _ _ _ H t1 r1 s1 t2 r2 s2 (Hsn _ _ _ H1) (Hsn _ _ _ H2)).
    - intros e Hin. rewrite E6 in Hin. exact (dead_ext s s' e E1 (sh_db _ _ _ _ H e Hin)).
    - pose proof (sh_t0 _ _ _ _ H) as Ht. unfold t0_inv in *. rewrite fold_left_app. cbn [fold_left].
      destruct (fold_left t0_step script (T0A false false)) as [started connected| |].
      + destruct Ht as (T1 & T2 & T3 & T5 & T4).
        assert (Hc : sv_tick s' = 0 /\ sv_dirty s' = true /\ forall t r s1, ~ snap (script ++ [st]) t r s1).
        { rewrite E4, E5. split; [exact T1|]. split; [exact T2|]. intros t r s1 Hsnap. exact (T4 t r s1 (Hsn _ _ _ Hsnap)). }
        destruct Hc as (C1 & C2 & C3).
        assert (Hsame : st <> StStart -> sv_running s' = true -> started = true).
        { intros Hne Hr'. apply T3. destruct Hrun as [Hx | [Hx | Hx]]; [contradiction|contradiction|congruence]. }
        assert (Hnc : (forall slot max, st = StConnect slot max -> started = false) -> connected = false -> sv_clients s' = []).
        { intros Hcon Hcf. apply (nonframe_noclients y st y' o Hs Hnf Hss); [|exact (T5 Hcf)].
          intros slot max E. destruct (sv_running (y_server y)) eqn:Erun; [|reflexivity]. pose proof (T3 Erun). pose proof (Hcon slot max E). congruence. }
        destruct st; try discriminate Hnf; cbn [t0_step];
          (split; [exact C1|]; split; [exact C2|]; split; [|split; [|exact C3]]);
          try (apply Hsame; discriminate); try (apply Hnc; intros; discriminate).
        * intros _. reflexivity.
        * intros Hcf. apply orb_false_elim in Hcf. destruct Hcf as [Hcf Hst]. apply Hnc; [|exact Hcf]. intros; exact Hst.
      + cbn [t0_step]. destruct Ht as [Z1 Z2]. rewrite E4, E5. split; [exact Z1|].
        intros t r s1 Hsnap. exact (Z2 t r s1 (Hsn _ _ _ Hsnap)).
      + exact I.
  Qed.

  (* ---------- server frames ---------- *)

  Lemma snap_frame_inv script y tick dt cu ops parts y' fo vs t r s1 :
    run init script = Ok y -> sys_step y (StSFrame tick dt cu ops parts) = Ok (y', OSFrame fo vs) ->
    snap (script ++ [StSFrame tick dt cu ops parts]) t r s1 ->
    snap script t r s1 \/
    (fo_ran fo = true /\ s1 = y_server y' /\ t = sv_tick (y_server y') /\ r = sv_last_run (y_server y')).
  Proof.
    intros Hr Hs H.
    destruct (snap_snoc_inv cfg0 nclients script y _ t r s1 Hr H)
      as [H0 | (y1 & tk & dt0 & cu0 & ops0 & parts0 & fo0 & vs0 & E & Hs0 & Hran & A & B & C)]; [left; exact H0|right].
    rewrite Hs in Hs0. injection Hs0 as <- <- _. subst. auto.
  Qed.

  Lemma hist_frame script y tick dt cu ops parts y' o :
    run init script = Ok y -> sys_step y (StSFrame tick dt cu ops parts) = Ok (y', o) ->
    forallb sop_vals ops = true ->
    (sv_running (y_server y) = false -> sv_last_running (y_server y) = false) ->
    tick_frames (script ++ [StSFrame tick dt cu ops parts]) < 2 ^ 31 ->
    srv_hist script (y_server y) -> srv_hist (script ++ [StSFrame tick dt cu ops parts]) (y_server y').
  Proof.
    intros Hr Hs Hv Hlr Hb H.
    destruct (sframe_step_inv _ _ _ _ _ _ _ _ Hs) as (fo & vs & -> & Ef).
    set (s := y_server y) in *. set (s' := y_server y') in *.
    destruct (server_frame_ticks _ _ _ _ _ _ _ _ _ Hlr Ef) as (T & D & _ & R & _).
    destruct (server_frame_core _ _ _ _ _ _ _ _ _ Ef) as (s2 & A1 & A2 & A3 & A4 & Hcase).
    set (s3 := fold_left apply_sop ops s2) in *.
    pose proof (sh_tick _ _ _ _ H) as Htk. fold s in Htk.
    pose proof (sh_now _ _ _ _ H) as Hnow. fold s in Hnow.
    rewrite tick_frames_snoc in Hb.
    assert (Ht : sv_tick s' = if tick then sv_tick s + 1 else sv_tick s).
    { rewrite T. destruct tick; [|reflexivity]. cbn [is_tick_frame] in Hb. unfold tick_add. apply N.mod_small.
      rewrite pow32_val. rewrite pow31_val in Hb. lia. }
    assert (Hn3 : sv_now s3 = sv_now s) by (unfold s3; rewrite ops_now; exact A2).
    assert (Hnle : sv_now s <= sv_now s').
    { destruct Hcase as [(_ & _ & _ & N1 & _) | (_ & N1 & _)]; rewrite N1; lia. }
    assert (Hok3 : ents_ok s3).
    { apply ops_ents_ok; [exact Hv|]. apply (ents_ok_ext s s2 A1); [rewrite A2; lia|]. exact (hist_ents_ok script s H). }
    assert (Hok' : ents_ok s') by (apply (ents_ok_ext s3 s' A4); [rewrite Hn3; exact Hnle|exact Hok3]).
    assert (Hkeep : forall r s1, keeps r s1 s -> r < sv_now s -> keeps r s1 s').
    { intros r s1 Hk Hr1. apply (keeps_ext r s1 s3 s' A4). apply ops_keeps; [|rewrite A2; exact Hr1].
      exact (keeps_ext r s1 s s2 A1 Hk). }
    assert (Hdb3 : db_ok s3).
    { apply ops_db; [exact Hv|]. intros e Hin. rewrite A3 in Hin. exact (dead_ext s s2 e A1 (sh_db _ _ _ _ H e Hin)). }
    pose proof (sh_bound _ _ _ _ H) as Hold. fold s in Hold.
    pose proof (snap_frame_inv script y tick dt cu ops parts y' fo vs) as Hinv. fold s' in Hinv.
    (* the new snapshot is later than every old one, in both orders *)
    assert (Hnew : fo_ran fo = true ->
              sv_last_run s' = sv_now s /\ sv_running s = true /\ (sv_dirty s || tick = true) /\
              forall t1 r1 s1, snap script t1 r1 s1 -> r1 < sv_now s /\ t1 < sv_tick s').
    { intros Hran. destruct Hcase as [(_ & N0 & N1 & _ & N3 & _) | (N0 & _)]; [|congruence].
      split; [exact N3|]. split; [exact N0|]. split; [exact N1|]. intros t1 r1 s1 Hs1.
      destruct (Hold t1 r1 s1 Hs1) as (B1 & B2 & B3). split; [lia|]. rewrite Ht. destruct tick; [lia|].
      rewrite orb_false_r in N1. specialize (B3 N1). exact B3. }
    assert (Hlr' : sv_last_run s <= sv_last_run s').
    { destruct Hcase as [(_ & _ & _ & _ & N2 & _) | (_ & _ & N2 & _)]; rewrite N2; lia. }
    assert (Htle : sv_tick s <= sv_tick s') by (rewrite Ht; destruct tick; lia).
    constructor.
    - exact (server_frame_wf _ _ _ _ _ _ _ _ _ (sh_wf _ _ _ _ H) Ef).
    - intros e x k c Hx Hin. destruct (proj2 (Hok' e x Hx) k c Hin) as (P1 & P2 & _). auto.
    - intros e x Hx. exact (proj1 (Hok' e x Hx)).
    - intros e x k c Hx Hin. destruct (proj2 (Hok' e x Hx) k c Hin) as (_ & _ & P3 & P4). auto.
    - destruct Hcase as [(_ & _ & _ & N1 & N2 & _) | (_ & N1 & N2 & _)]; rewrite N1, N2; lia.
    - rewrite tick_frames_snoc, Ht, Htk. destruct tick; reflexivity.
    - intros t r s1 Hsn. rewrite D. destruct (Hinv t r s1 Hr Hs Hsn) as [Ho | (Hran & -> & -> & ->)].
      + destruct (Hold t r s1 Ho) as (B1 & B2 & _). split; [lia|]. split; [lia|discriminate].
      + split; [lia|]. split; [lia|discriminate].
    - intros t1 r1 s1 t2 r2 s2' Hs1 Hs2.
      destruct (Hinv t1 r1 s1 Hr Hs Hs1) as [Ho1 | (Hran1 & -> & -> & ->)];
        destruct (Hinv t2 r2 s2' Hr Hs Hs2) as [Ho2 | (Hran2 & -> & -> & ->)].
      + exact (sh_inj _ _ _ _ H t1 r1 s1 t2 r2 s2' Ho1 Ho2).
      + destruct (Hnew Hran2) as (L & _ & _ & Hlt). destruct (Hlt _ _ _ Ho1) as [L1 L2]. rewrite L.
        split; [intros; lia|intros _; exact L2].
      + destruct (Hnew Hran1) as (L & _ & _ & Hlt). destruct (Hlt _ _ _ Ho2) as [L1 L2]. rewrite L.
        split; intros; lia.
      + split; [auto|intros; lia].
    - intros t1 r1 s1 Hs1. destruct (Hinv t1 r1 s1 Hr Hs Hs1) as [Ho | (Hran & -> & -> & ->)]; [|apply keeps_refl].
      apply Hkeep; [exact (sh_keep _ _ _ _ H t1 r1 s1 Ho)|]. destruct (Hold t1 r1 s1 Ho) as (B1 & _). lia.
    - intros t1 r1 s1 t2 r2 s2' Hs1 Hs2 Hle.
      destruct (Hinv t1 r1 s1 Hr Hs Hs1) as [Ho1 | (Hran1 & -> & -> & ->)];
        destruct (Hinv t2 r2 s2' Hr Hs Hs2) as [Ho2 | (Hran2 & -> & -> & ->)].
      + exact (sh_keep2 _ _ _ _ H t1 r1 s1 t2 r2 s2' Ho1 Ho2 Hle).
      + apply Hkeep; [exact (sh_keep _ _ _ _ H t1 r1 s1 Ho1)|]. destruct (Hold t1 r1 s1 Ho1) as (B1 & _). lia.
      + exfalso. destruct (Hnew Hran1) as (L & _ & _ & Hlt). destruct (Hlt _ _ _ Ho2) as [L1 L2]. lia.
      + apply keeps_refl.
    - intros e Hin. destruct Hcase as [(_ & _ & _ & _ & _ & N3) | (_ & _ & _ & N3)].
      + rewrite N3 in Hin. destruct Hin.
      + apply (dead_ext s3 s' e A4). apply Hdb3. exact (N3 e Hin).
    - pose proof (sh_t0 _ _ _ _ H) as Ht0. unfold t0_inv in *. rewrite fold_left_app. cbn [fold_left]. fold s in Ht0.
      destruct (fold_left t0_step script (T0A false false)) as [started connected| |]; cbn [t0_step].
      + destruct Ht0 as (Z1 & Z2 & Z3 & Z5 & Z4). destruct tick.
        * split; [rewrite D; discriminate|]. intros t r s1 Hsn.
          destruct (Hinv t r s1 Hr Hs Hsn) as [Ho | (Hran & -> & -> & ->)]; [destruct (Z4 _ _ _ Ho)|]. left. rewrite Ht. lia.
        * destruct (started && connected) eqn:Esc; [exact I|]. split; [rewrite D; discriminate|]. intros t r s1 Hsn.
          destruct (Hinv t r s1 Hr Hs Hsn) as [Ho | (Hran & -> & _ & _)]; [destruct (Z4 _ _ _ Ho)|].
          destruct (Hnew Hran) as (_ & Hrun & _). specialize (Z3 Hrun). subst started. cbn [andb] in Esc. right.
          exact (frame_noclients _ _ _ _ _ _ _ _ _ (Z5 Esc) Ef).
      + destruct Ht0 as [Z1 Z2]. split; [rewrite D; discriminate|]. intros t r s1 Hsn.
        destruct (Hinv t r s1 Hr Hs Hsn) as [Ho | (Hran & -> & -> & ->)]; [exact (Z2 _ _ _ Ho)|]. left.
        destruct (Hnew Hran) as (_ & _ & Hd & _). rewrite Ht. destruct tick; [lia|].
        rewrite orb_false_r in Hd. exact (Z1 Hd).
      + exact I.
  Qed.

  (* ---------- the induction ---------- *)

  Theorem hist_run script : forall y,
    script_okm script = true -> script_vals script = true -> tick_frames script < 2 ^ 31 ->
    run init script = Ok y -> srv_hist script (y_server y).
  Proof.
    induction script as [|st t IH] using rev_ind; intros y Hok Hv Hb H.
    - cbn [run] in H. injection H as <-. exact hist_init.
    - pose proof Hok as Hok0. rewrite script_okm_app in Hok. apply andb_prop in Hok. destruct Hok as [Hok1 Hok2].
      rewrite script_vals_app in Hv. apply andb_prop in Hv. destruct Hv as [Hv1 Hv2].
      unfold script_okm in Hok2. unfold script_vals in Hv2. cbn [forallb] in Hok2, Hv2. rewrite andb_true_r in Hok2, Hv2.
      rewrite run_app in H. destruct (run init t) as [y1| |] eqn:E1; cbn [bind] in H; try discriminate.
      cbn [run] in H. destruct (sys_step y1 st) as [[y2 o]| |] eqn:E2; cbn [bind] in H; try discriminate.
      injection H as <-. pose proof (tick_frames_mono t st) as Hm.
      assert (Hb1 : tick_frames t < 2 ^ 31) by lia.
      pose proof (IH y1 Hok1 Hv1 Hb1 eq_refl) as IH1.
      destruct (is_sframe st) eqn:Esf.
      + destruct st as [| | | | |tick dt cleanup ops parts| | |]; try discriminate.
        destruct (run_erun t init [] y1 E1) as [gs1 Ee1].
        pose proof (m_run cfg0 nclients Hpol t y1 gs1 Hok1 Hb1 Ee1) as M1.
        apply (hist_frame t y1 tick dt cleanup ops parts y2 o E1 E2); [exact Hv2|exact (mi_lr _ _ _ _ _ M1)|exact Hb|exact IH1].
      + apply (hist_nonframe t y1 st y2 o E1 E2 Esf); [| |exact IH1].
        * intros ->. unfold step_okm in Hok2. cbn in Hok2. discriminate.
        * unfold step_okm in Hok2. apply andb_prop in Hok2. destruct Hok2 as [Hok2 _]. apply andb_prop in Hok2. exact (proj2 Hok2).
  Qed.
End HistRun.

(* ================================================================== *)
(* the stamp counter stays far below Bevy's MAX_CHANGE_AGE             *)
(* ================================================================== *)

Section NowBound.
  Variables (cfg0 : cfg) (nclients : N).
  Hypothesis Hpol : cfg_policy cfg0 = PAll.

  Theorem now_bound script : forall y,
    script_okm script = true -> tick_frames script < 2 ^ 31 -> run (sys_init cfg0 nclients) script = Ok y ->
    sv_now (y_server y) <= sv_tick (y_server y) + (if sv_dirty (y_server y) then 1 else 2).
  Proof.
    induction script as [|st t IH] using rev_ind; intros y Hok Hb H.
    - cbn [run] in H. injection H as <-. cbn. lia.
    - pose proof Hok as Hok0. rewrite script_okm_app in Hok. apply andb_prop in Hok. destruct Hok as [Hok1 Hok2].
      unfold script_okm in Hok2. cbn [forallb] in Hok2. rewrite andb_true_r in Hok2.
      rewrite run_app in H. destruct (run (sys_init cfg0 nclients) t) as [y1| |] eqn:E1; cbn [bind] in H; try discriminate.
      cbn [run] in H. destruct (sys_step y1 st) as [[y2 o]| |] eqn:E2; cbn [bind] in H; try discriminate.
      injection H as <-. pose proof (tick_frames_mono t st) as Hm.
      assert (Hb1 : tick_frames t < 2 ^ 31) by lia.
      pose proof (IH y1 Hok1 Hb1 eq_refl) as IH1.
      destruct (is_sframe st) eqn:Esf.
      + destruct st as [| | | | |tick dt cleanup ops parts| | |]; try discriminate.
        destruct (run_erun t (sys_init cfg0 nclients) [] y1 E1) as [gs1 Ee1].
        pose proof (m_run cfg0 nclients Hpol t y1 gs1 Hok1 Hb1 Ee1) as M1.
        destruct (sframe_step_inv _ _ _ _ _ _ _ _ E2) as (fo & vs & -> & Ef).
        destruct (server_frame_ticks _ _ _ _ _ _ _ _ _ (mi_lr _ _ _ _ _ M1) Ef) as (T & D & _ & _ & _).
        destruct (server_frame_core _ _ _ _ _ _ _ _ _ Ef) as (s2 & _ & _ & _ & _ & Hcase).
        pose proof (mi_tick _ _ _ _ _ M1) as Htk. rewrite tick_frames_snoc in Hb. cbn [is_tick_frame] in Hb.
        assert (Ht : sv_tick (y_server y2) = if tick then sv_tick (y_server y1) + 1 else sv_tick (y_server y1)).
        { rewrite T. destruct tick; [|reflexivity]. unfold tick_add. apply N.mod_small. rewrite pow32_val. rewrite pow31_val in Hb. lia. }
        rewrite D, Ht. destruct Hcase as [(_ & _ & Hd & N1 & _) | (_ & N1 & _)]; rewrite N1.
        * destruct (sv_dirty (y_server y1)); destruct tick; cbn in Hd; try discriminate; lia.
        * destruct (sv_dirty (y_server y1)); destruct tick; lia.
      + destruct (nonframe_fields y1 st y2 o E2 Esf) as [(_ & A & _ & B & C & _) _]. rewrite A, B, C. exact IH1.
  Qed.

  Lemma max_change_age_far : 2 ^ 31 + 2 < MAX_CHANGE_AGE.
  Proof. vm_compute. reflexivity. Qed.
End NowBound.
