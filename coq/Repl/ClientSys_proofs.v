(* Layer 1, system level facts about the client side: the consistency flag of the client view,
   the update channel is FIFO, a pre-spawn mapping concerns one client only. *)
From RV Require Import Lib.Res Repl.ClientTicks Repl.ClientTicks_proofs Repl.World Repl.Server Repl.Client Repl.Sys
  Repl.Client_proofs Repl.ClientEnt_proofs Vis.Visibility Tick.RepliconTick Tick.ConfirmHistory Tick.MutateTicks.
From Coq Require Import ZifyBool ZifyN.
Open Scope N_scope.
Ltac Zify.zify_post_hook ::= Z.div_mod_to_equations.
Arguments N.add : simpl never. Arguments N.mul : simpl never. Arguments N.pow : simpl never.
Arguments N.ltb : simpl never. Arguments N.leb : simpl never. Arguments N.div : simpl never.
Arguments N.modulo : simpl never. Arguments N.sub : simpl never. Arguments N.eqb : simpl never.

(* ================================================================== *)
(* N. the consistency flag                                            *)
(* ================================================================== *)

Lemma al_get_some_key {V} k (v : V) l : al_get k l = Some v -> In k (al_keys l).
Proof.
  intros H. destruct (in_dec N.eq_dec k (al_keys l)) as [Hin|Hn]; [exact Hin|].
  apply al_get_none_keys in Hn. congruence.
Qed.

Lemma maps_len_le (a b : list (N * N)) :
  NoDup (al_keys a) -> (forall s cid, al_get s a = Some cid -> al_get cid b = Some s) ->
  (length a <= length b)%nat.
Proof.
  intros Hnd Hinv.
  assert (Hnd2 : NoDup (map snd a)).
  { induction a as [|[s cid] t IH]; cbn [map snd]; [constructor|].
    unfold al_keys in Hnd. cbn [map fst] in Hnd. inversion Hnd as [|? ? Hnin Hnd']; subst.
    assert (Ht : forall s' cid', al_get s' t = Some cid' -> al_get cid' b = Some s').
    { intros s' cid' H. apply Hinv. cbn [al_get]. destruct (s =? s') eqn:E; [|exact H].
      assert (s = s') by lia; subst. exfalso. apply Hnin. exact (al_get_some_key _ _ _ H). }
    constructor; [|apply IH; assumption].
    intros Hin. apply in_map_iff in Hin. destruct Hin as [[s' cid'] [Hc Hin]]. cbn in Hc; subst cid'.
    pose proof (al_get_in_nodup _ _ _ Hnd' Hin) as Hg. apply Ht in Hg.
    assert (Hs : al_get cid b = Some s). { apply Hinv. cbn [al_get]. rewrite N.eqb_refl. reflexivity. }
    rewrite Hs in Hg. inversion Hg; subst s'. apply Hnin. unfold al_keys. apply in_map_iff. exists (s, cid). auto. }
  assert (Hincl : incl (map snd a) (al_keys b)).
  { intros cid Hin. apply in_map_iff in Hin. destruct Hin as [[s cid'] [Hc Hin]]. cbn in Hc; subst cid'.
    pose proof (al_get_in_nodup _ _ _ Hnd Hin) as Hg. apply Hinv in Hg. exact (al_get_some_key _ _ _ Hg). }
  pose proof (NoDup_incl_length Hnd2 Hincl) as Hle. unfold al_keys in Hle. rewrite !map_length in Hle. exact Hle.
Qed.

Theorem client_view_consistent c : emap_wf c -> cv_consistent (client_view c) = true.
Proof.
  intros (H1 & H2 & H3 & _). unfold client_view; cbn [cv_consistent]. apply andb_true_intro. split.
  - apply forallb_forall. intros [s cid] Hin. cbn [fst snd].
    pose proof (al_get_in_nodup _ _ _ H1 Hin) as Hg. apply H3 in Hg. rewrite Hg. apply N.eqb_refl.
  - apply Nat.eqb_eq. apply Nat.le_antisymm.
    + apply maps_len_le; [exact H1|]. intros s cid H. apply H3. exact H.
    + apply maps_len_le; [exact H2|]. intros cid s H. apply H3. exact H.
Qed.

(* ================================================================== *)
(* O. the update channel is first in, first out                       *)
(* ================================================================== *)

Definition inbox_of (y : sys) (slot : N) : list update_msg :=
  match al_get slot (y_clients y) with Some cl => cl_inbox_upd cl | None => [] end.

(* updates sent to a client and not yet applied by it, oldest first *)
Definition pending (y : sys) (slot : N) : list update_msg := inbox_of y slot ++ l_upd (get_link y slot).

Definition connected (y : sys) (slot : N) : Prop :=
  exists cl, al_get slot (y_clients y) = Some cl /\ cl_status cl = Connected.

Lemma take_app {A} w (q p r : list A) : w <> Last -> take w q = (p, r) -> p ++ r = q.
Proof.
  intros Hw. destruct w; [|congruence|]; cbn [take].
  - destruct q as [|x t]; intros H; inversion H; subst; reflexivity.
  - intros H; inversion H; subst. apply app_nil_r.
Qed.

Lemma deliver_updates_inbox p : forall cl, cl_status cl = Connected ->
  cl_inbox_upd (fold_left deliver_update p cl) = cl_inbox_upd cl ++ p /\
  cl_status (fold_left deliver_update p cl) = Connected.
Proof.
  induction p as [|u t IH]; intros cl Hc; cbn [fold_left]; [rewrite app_nil_r; auto|].
  assert (E : deliver_update cl u = mkCli (cl_status cl) (cl_last_connected cl) (cl_last_not_disconnected cl) (cl_upd_tick cl)
                (cl_s2c cl) (cl_c2s cl) (cl_ents cl) (cl_next cl) (cl_buffered cl) (cl_mticks cl) (cl_inbox_upd cl ++ [u]) (cl_inbox_mut cl)).
  { unfold deliver_update. rewrite Hc. reflexivity. }
  rewrite E. match goal with |- context [fold_left deliver_update t ?c2] => destruct (IH c2 Hc) as [H1 H2] end.
  cbn [cl_inbox_upd] in H1. rewrite H1, <- app_assoc. split; [reflexivity|exact H2].
Qed.

Lemma deliver_mutates_inbox p : forall cl,
  cl_inbox_upd (fold_left deliver_mutate p cl) = cl_inbox_upd cl /\
  cl_status (fold_left deliver_mutate p cl) = cl_status cl.
Proof.
  induction p as [|m t IH]; intros cl; cbn [fold_left]; [auto|].
  destruct (IH (deliver_mutate cl m)) as [H1 H2]. rewrite H1, H2. unfold deliver_mutate.
  destruct (cl_status cl) eqn:E; cbn; rewrite ?E; auto.
Qed.

Lemma get_link_set_link_same y slot l : get_link (set_link y slot l) slot = l.
Proof. unfold get_link, set_link; cbn. rewrite al_get_insert_same. reflexivity. Qed.
Lemma get_link_set_link_other y slot slot' l : slot' <> slot -> get_link (set_link y slot l) slot' = get_link y slot'.
Proof. intros H. unfold get_link, set_link; cbn. rewrite al_get_insert_other by exact H. reflexivity. Qed.

Definition transport_step (st : step) : bool :=
  match st with StDeliver _ _ _ _ | StDrop _ _ _ _ => true | _ => false end.

(* a legal delivery or drop on any channel of any client leaves "inbox ++ queue" of every connected
   client as it was: updates are only moved from the queue to the inbox, in order *)
Lemma transport_keeps_pending y st y' o slot :
  transport_step st = true -> legal_step st = true -> sys_step y st = Ok (y', o) ->
  connected y slot -> pending y' slot = pending y slot /\ connected y' slot.
Proof.
  intros Ht Hl H [cl [Hcl Hst]].
  assert (Hsame : pending y slot = pending y slot /\ connected y slot) by (split; [reflexivity|exists cl; auto]).
  destruct st as [| | | | | | |slot2 s2c ch w|slot2 s2c ch w]; try discriminate; cbn [sys_step] in H.
  - (* deliver *)
    destruct (al_get slot2 (y_clients y)) as [cl2|] eqn:E2; [|inversion H; subst; exact Hsame].
    destruct s2c.
    + destruct (ch =? 0) eqn:Ech.
      * cbn [legal_step] in Hl. rewrite Ech in Hl. assert (Hw : w <> Last) by (destruct w; congruence).
        destruct (take w (l_upd (get_link y slot2))) as [picked rest] eqn:Etk. inversion H; subst. clear H.
        apply take_app in Etk; [|exact Hw].
        destruct (N.eq_dec slot slot2) as [->|Hne].
        -- rewrite Hcl in E2. inversion E2; subst cl2. destruct (deliver_updates_inbox picked cl Hst) as [Hi Hs].
           split.
           ++ unfold pending, inbox_of. cbn [y_clients set_client]. rewrite al_get_insert_same.
              change (get_link (set_client ?a ?b ?c) slot2) with (get_link a slot2).
              rewrite get_link_set_link_same. cbn [l_upd]. rewrite Hcl, Hi, <- app_assoc, Etk. reflexivity.
           ++ eexists. split; [cbn; apply al_get_insert_same|exact Hs].
        -- split.
           ++ unfold pending, inbox_of. cbn [y_clients set_client]. rewrite al_get_insert_other by congruence.
              change (get_link (set_client ?a ?b ?c) slot) with (get_link a slot).
              rewrite get_link_set_link_other by congruence. reflexivity.
           ++ exists cl. split; [cbn; rewrite al_get_insert_other by congruence; exact Hcl|exact Hst].
      * destruct (ch =? 1); [|inversion H; subst; exact Hsame].
        destruct (take w (l_mut (get_link y slot2))) as [picked rest] eqn:Etk. inversion H; subst. clear H.
        destruct (N.eq_dec slot slot2) as [->|Hne].
        -- rewrite Hcl in E2. inversion E2; subst cl2. destruct (deliver_mutates_inbox picked cl) as [Hi Hs].
           split.
           ++ unfold pending, inbox_of. cbn [y_clients set_client]. rewrite al_get_insert_same.
              change (get_link (set_client ?a ?b ?c) slot2) with (get_link a slot2).
              rewrite get_link_set_link_same. cbn [l_upd]. rewrite Hcl, Hi. reflexivity.
           ++ eexists. split; [cbn; apply al_get_insert_same|rewrite Hs; exact Hst].
        -- split.
           ++ unfold pending, inbox_of. cbn [y_clients set_client]. rewrite al_get_insert_other by congruence.
              change (get_link (set_client ?a ?b ?c) slot) with (get_link a slot).
              rewrite get_link_set_link_other by congruence. reflexivity.
           ++ exists cl. split; [cbn; rewrite al_get_insert_other by congruence; exact Hcl|exact Hst].
    + destruct (ch =? 0); [|inversion H; subst; exact Hsame].
      destruct (take w (l_ack (get_link y slot2))) as [picked rest] eqn:Etk. inversion H; subst. clear H.
      split.
      * unfold pending, inbox_of. cbn [y_clients set_server set_link].
        change (get_link (set_server ?a ?b) slot) with (get_link a slot).
        destruct (N.eq_dec slot slot2) as [->|Hne];
          [rewrite get_link_set_link_same|rewrite get_link_set_link_other by congruence]; reflexivity.
      * exists cl. auto.
  - (* drop: only the mutation channel *)
    cbn [legal_step] in Hl. destruct s2c; [|discriminate].
    destruct (al_get slot2 (y_clients y)) as [cl2|] eqn:E2; [|inversion H; subst; exact Hsame].
    assert (Hch : ch = 1) by lia. subst ch. cbn in H.
    destruct (take w (l_mut (get_link y slot2))) as [picked rest] eqn:Etk. inversion H; subst. clear H.
    destruct (N.eq_dec slot slot2) as [->|Hne].
    + rewrite Hcl in E2. inversion E2; subst cl2. split.
      * unfold pending, inbox_of. cbn [y_clients set_client]. rewrite al_get_insert_same.
        change (get_link (set_client ?a ?b ?c) slot2) with (get_link a slot2).
        rewrite get_link_set_link_same. cbn [l_upd]. rewrite Hcl. reflexivity.
      * eexists. split; [cbn; apply al_get_insert_same|exact Hst].
    + split.
      * unfold pending, inbox_of. cbn [y_clients set_client]. rewrite al_get_insert_other by congruence.
        change (get_link (set_client ?a ?b ?c) slot) with (get_link a slot).
        rewrite get_link_set_link_other by congruence. reflexivity.
      * exists cl. split; [cbn; rewrite al_get_insert_other by congruence; exact Hcl|exact Hst].
Qed.

Lemma run_transport_keeps_pending script : forall y y' slot,
  forallb transport_step script = true -> legal script = true -> run y script = Ok y' ->
  connected y slot -> pending y' slot = pending y slot /\ connected y' slot.
Proof.
  induction script as [|st t IH]; intros y y' slot Ht Hl H Hc.
  - cbn in H. inversion H; subst. auto.
  - cbn [forallb] in Ht. unfold legal in Hl. cbn [forallb] in Hl.
    apply andb_prop in Ht. apply andb_prop in Hl. destruct Ht as [Ht1 Ht2], Hl as [Hl1 Hl2].
    cbn [run] in H. apply bind_ok in H. destruct H as [[y1 o] [E H]].
    destruct (transport_keeps_pending _ _ _ _ _ Ht1 Hl1 E Hc) as [P1 C1].
    destruct (IH y1 y' slot Ht2 Hl2 H C1) as [P2 C2]. split; [congruence|exact C2].
Qed.

(* the server's outputs are appended at the end, in the order the frame produced them *)
Definition updates_for (slot : N) (outs : list client_out) : list update_msg :=
  flat_map (fun o => if co_slot o =? slot then match co_update o with Some u => [u] | None => [] end else []) outs.

Lemma enqueue_appends outs : forall y slot,
  pending (enqueue_outputs y outs) slot = pending y slot ++ updates_for slot outs.
Proof.
  induction outs as [|o t IH]; intros y slot; [cbn; rewrite app_nil_r; reflexivity|].
  unfold enqueue_outputs in *. cbn [fold_left]. rewrite IH. cbn [updates_for flat_map].
  unfold pending at 1. unfold inbox_of. cbn [y_clients set_link].
  destruct (co_slot o =? slot) eqn:E.
  - assert (co_slot o = slot) by lia. subst slot. rewrite get_link_set_link_same. cbn [l_upd].
    unfold pending, inbox_of. rewrite <- !app_assoc. reflexivity.
  - rewrite get_link_set_link_other by lia. cbn [app]. reflexivity.
Qed.

(* a client frame consumes the whole inbox: what stays pending is exactly the queue *)
Definition same_inbox (a b : client) : Prop := cl_inbox_upd b = cl_inbox_upd a.

Lemma mutate_messages_keep_inbox c c' out : apply_mutate_messages c = Ok (c', out) -> cl_inbox_upd c' = cl_inbox_upd c.
Proof.
  intros H. refine (mutate_messages_rel same_inbox _ _ _ _ _ _ _ H); unfold same_inbox.
  - reflexivity.
  - intros; congruence.
  - intros c0 tick s comps r E. apply same_meta_mutations in E. destruct E as (_ & _ & _ & _ & _ & _ & Hi & _). exact Hi.
  - reflexivity.
Qed.

Lemma cop_keeps_inbox c op : cl_inbox_upd (apply_cop c op) = cl_inbox_upd c.
Proof.
  destruct op as [pc|pc]; cbn [apply_cop].
  - destruct (existsb _ (cl_ents c)); reflexivity.
  - destruct (find _ (cl_ents c)) as [[cid x]|]; [|reflexivity]. destruct (ce_alive x); reflexivity.
Qed.

Lemma frame_clears_inbox c ops c' out :
  cl_status c = Connected -> client_frame c ops = Ok (c', out) -> cl_inbox_upd c' = [] /\ cl_status c' = Connected.
Proof.
  intros Hc H. unfold client_frame in H. rewrite Hc in H. rewrite andb_false_r in H.
  apply bind_ok in H. destruct H as [[c2 out2] [E H]]. inversion H; subst. clear H. cbn [cl_inbox_upd set_locals cl_status].
  unfold apply_replication in E. apply bind_ok in E. destruct E as [c1 [E1 E]].
  pose proof (mutate_messages_keep_inbox _ _ _ E) as Hi. cbn in Hi.
  assert (Hs : cl_status c2 = Connected).
  { assert (Hs1 : cl_status c1 = cl_status c).
    { refine (fold_res_rel (fun a b => cl_status b = cl_status a) _ _ _ _ _ _ _ E1).
      - reflexivity.
      - intros; congruence.
      - intros c0 u c3 _ Hu.
        refine (update_message_rel (fun a b => cl_status b = cl_status a) _ _ _ _ _ _ _ _ _ _ Hu).
        + reflexivity.
        + intros; congruence.
        + reflexivity.
        + intros. apply (same_meta_mapping c4 s pc).
        + intros. apply (same_meta_despawn c4 s).
        + intros c4 tick s kinds r Hr. apply (same_meta_removals _ _ _ _ _ Hr).
        + intros c4 tick s comps r Hr. apply (same_meta_changes _ _ _ _ _ Hr). }
    assert (Hs2 : cl_status c2 = cl_status c1).
    { refine (mutate_messages_rel (fun a b => cl_status b = cl_status a) _ _ _ _ _ _ _ E).
      - reflexivity.
      - intros; congruence.
      - intros c0 tick s comps r Hr. apply (same_meta_mutations _ _ _ _ _ Hr).
      - reflexivity. }
    congruence. }
  assert (Hcops : forall ops c0, cl_inbox_upd (fold_left apply_cop ops c0) = cl_inbox_upd c0 /\
                                  cl_status (fold_left apply_cop ops c0) = cl_status c0).
  { induction ops0 as [|op t IH]; intros c0; cbn [fold_left]; [auto|]. destruct (IH (apply_cop c0 op)) as [A B].
    rewrite A, B, cop_keeps_inbox. split; [reflexivity|].
    destruct op as [pc|pc]; cbn [apply_cop].
    - destruct (existsb _ (cl_ents c0)); reflexivity.
    - destruct (find _ (cl_ents c0)) as [[cid x]|]; [|reflexivity]. destruct (ce_alive x); reflexivity. }
  destruct (Hcops ops c2) as [A B]. rewrite A, B, Hi. auto.
Qed.

Lemma cframe_consumes_inbox y slot ops y' o :
  connected y slot -> sys_step y (StCFrame slot ops) = Ok (y', o) ->
  pending y' slot = l_upd (get_link y slot) /\ connected y' slot.
Proof.
  intros [cl [Hcl Hst]] H. cbn [sys_step] in H. rewrite Hcl in H.
  apply bind_ok in H. destruct H as [[cl' cfo] [E H]]. inversion H; subst. clear H.
  destruct (frame_clears_inbox _ _ _ _ Hst E) as [Hi Hs].
  assert (G : forall y2, al_get slot (y_clients y2) = Some cl' -> l_upd (get_link y2 slot) = l_upd (get_link y slot) ->
              pending (set_server y2 (publish_pre (y_server y2) slot
                 (fold_right (fun kv acc => match ce_pre (snd kv) with Some p => p :: acc | None => acc end) [] (cl_ents cl')))) slot
              = l_upd (get_link y slot) /\
              connected (set_server y2 (publish_pre (y_server y2) slot
                 (fold_right (fun kv acc => match ce_pre (snd kv) with Some p => p :: acc | None => acc end) [] (cl_ents cl')))) slot).
  { intros y2 H1 H2. split.
    - unfold pending, inbox_of. cbn [y_clients set_server]. rewrite H1, Hi. cbn [app].
      change (get_link (set_server ?a ?b) slot) with (get_link a slot). exact H2.
    - exists cl'. split; [exact H1|exact Hs]. }
  destruct (cfo_acks cfo) as [|a acks].
  - apply G; [cbn; apply al_get_insert_same|reflexivity].
  - rewrite Hs. apply G; [cbn; apply al_get_insert_same|].
    change (get_link (set_link ?a slot ?l) slot) with (get_link (set_link a slot l) slot).
    rewrite get_link_set_link_same. reflexivity.
Qed.

(* the three facts together *)
Theorem update_queue_fifo :
  (forall outs y slot, pending (enqueue_outputs y outs) slot = pending y slot ++ updates_for slot outs) /\
  (forall script y y' slot, forallb transport_step script = true -> legal script = true -> run y script = Ok y' ->
     connected y slot -> pending y' slot = pending y slot /\ connected y' slot) /\
  (forall y slot ops y' o, connected y slot -> sys_step y (StCFrame slot ops) = Ok (y', o) ->
     pending y' slot = l_upd (get_link y slot) /\ connected y' slot) /\
  (forall slot ch w, legal_step (StDeliver slot true 0 Last) = false /\ legal_step (StDrop slot true 0 w) = false /\
     legal_step (StDrop slot false ch w) = false).
Proof.
  split; [exact enqueue_appends|]. split; [exact run_transport_keeps_pending|].
  split; [exact cframe_consumes_inbox|]. intros; repeat split; reflexivity.
Qed.

(* ================================================================== *)
(* P. a pre-spawn mapping concerns one client only (C16)              *)
(* ================================================================== *)

Lemma find_update_other cs slot slot' cnew :
  sc_slot cnew = slot -> slot' <> slot ->
  find (fun c => sc_slot c =? slot') (map (fun c' => if sc_slot c' =? slot then cnew else c') cs) =
  find (fun c => sc_slot c =? slot') cs.
Proof.
  intros Hn Hne. induction cs as [|a t IH]; cbn [map find]; [reflexivity|].
  destruct (sc_slot a =? slot) eqn:E.
  - rewrite Hn. destruct (slot =? slot') eqn:E1; [lia|]. destruct (sc_slot a =? slot') eqn:E2; [lia|]. exact IH.
  - destruct (sc_slot a =? slot'); [reflexivity|exact IH].
Qed.

Theorem mapping_other_clients_unaffected s slot e pc :
  let s' := apply_sop s (SMap slot e pc) in
  (forall slot', slot' <> slot -> find_client s' slot' = find_client s slot') /\
  (forall cl, In cl (sv_clients s) -> sc_slot cl <> slot -> In cl (sv_clients s')) /\
  map sc_slot (sv_clients s') = map sc_slot (sv_clients s) /\
  (forall cfg this_run cl p, send_for_client cfg s' this_run cl p = send_for_client cfg s this_run cl p) /\
  sv_ents s' = sv_ents s /\ sv_despawn_buf s' = sv_despawn_buf s /\ sv_removal_buf s' = sv_removal_buf s.
Proof.
  cbv zeta. cbn [apply_sop].
  assert (Hsame : (forall slot', slot' <> slot -> find_client s slot' = find_client s slot') /\
                  (forall cl, In cl (sv_clients s) -> sc_slot cl <> slot -> In cl (sv_clients s)) /\
                  map sc_slot (sv_clients s) = map sc_slot (sv_clients s) /\
                  (forall cfg this_run cl p, send_for_client cfg s this_run cl p = send_for_client cfg s this_run cl p) /\
                  sv_ents s = sv_ents s /\ sv_despawn_buf s = sv_despawn_buf s /\ sv_removal_buf s = sv_removal_buf s)
    by (repeat split; auto).
  destruct (find_client s slot) as [c|] eqn:Ef; [|exact Hsame].
  destruct (get_ent s e); [|exact Hsame].
  destruct (sc_authorized c && existsb _ (sv_premap s)); [|exact Hsame]. clear Hsame.
  assert (Hslot : sc_slot c = slot).
  { unfold find_client in Ef. apply find_some in Ef. destruct Ef as [_ Ef]. lia. }
  split; [|split; [|split; [|split; [|repeat split]]]].
  - intros slot' Hne. unfold find_client, update_client. cbn [sv_clients set_clients sc_slot].
    apply find_update_other; [reflexivity|]. rewrite Hslot. exact Hne.
  - intros cl Hin Hne. unfold update_client. cbn [sv_clients set_clients sc_slot]. apply in_map_iff. exists cl.
    split; [|exact Hin]. rewrite Hslot. destruct (sc_slot cl =? slot) eqn:E; [lia|reflexivity].
  - unfold update_client. cbn [sv_clients set_clients sc_slot]. rewrite map_map. apply map_ext_in.
    intros a _. destruct (sc_slot a =? sc_slot c) eqn:E; [cbn; lia|reflexivity].
  - intros cfg this_run cl p. reflexivity.
Qed.
