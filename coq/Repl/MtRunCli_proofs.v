(* C12 end to end, H2 (b), client half: what one client frame does to `ServerMutateTicks`, to the
   `MutateTickReceived` events and to the mutation buffer, in terms of the messages it applies
   ([frame_applied], Repl/MtRunSpec.v): the tracker makes exactly one `confirm` call per applied message, in
   order (`mt_confirm_all`), the events are the calls that returned true, and the buffer and the mutate inbox
   are split, without loss or duplication, into the applied messages and the ones kept. *)
From RV Require Import Lib.Res Repl.ClientTicks Repl.ClientTicks_proofs Repl.World Repl.Server Repl.Client Repl.Sys
  Tick.RepliconTick Tick.RepliconTick_proofs Tick.ConfirmHistory Tick.MutateTicks Tick.MutateTicks_proofs Tick.TickSpec
  Repl.Client_proofs Repl.ClientEnt_proofs Repl.ClientMut_proofs Repl.ClientSys_proofs Repl.ClientStructSpec Repl.ClientStruct_proofs
  Repl.ClientHist_proofs Repl.Session_proofs Repl.StructE2EMut_proofs Repl.MtRunSpec.
From Coq Require Import ZifyBool ZifyN Permutation.
Open Scope N_scope.
Ltac Zify.zify_post_hook ::= Z.div_mod_to_equations.
Arguments N.add : simpl never. Arguments N.mul : simpl never. Arguments N.pow : simpl never.
Arguments N.ltb : simpl never. Arguments N.leb : simpl never. Arguments N.div : simpl never.
Arguments N.modulo : simpl never. Arguments N.sub : simpl never. Arguments N.eqb : simpl never.

(* ================================================================== *)
(* 1. sequences of `confirm` calls                                    *)
(* ================================================================== *)

Lemma mt_confirm_all_app l1 : forall m l2,
  mt_confirm_all m (l1 ++ l2) =
  let* (m1, b1) := mt_confirm_all m l1 in let* (m2, b2) := mt_confirm_all m1 l2 in Ok (m2, b1 ++ b2).
Proof.
  induction l1 as [|[t c] r IH]; intros m l2; cbn [app mt_confirm_all bind].
  - destruct (mt_confirm_all m l2) as [[m2 b2]| |]; reflexivity.
  - destruct (mt_confirm m t c) as [[m' b]| |]; cbn [bind]; [|reflexivity|reflexivity].
    rewrite IH. destruct (mt_confirm_all m' r) as [[m1 b1]| |]; cbn [bind]; [|reflexivity|reflexivity].
    destruct (mt_confirm_all m1 l2) as [[m2 b2]| |]; reflexivity.
Qed.

Lemma mt_confirm_all_length l : forall m m' bs, mt_confirm_all m l = Ok (m', bs) -> length bs = length l.
Proof.
  induction l as [|[t c] r IH]; intros m m' bs H; cbn [mt_confirm_all] in H.
  - inversion H; reflexivity.
  - apply bind_ok in H. destruct H as [[m1 b] [_ H]]. apply bind_ok in H. destruct H as [[m2 bs2] [E2 H]].
    inversion H; subst. cbn [length]. rewrite (IH _ _ _ E2). reflexivity.
Qed.

Lemma mt_confirm_at_length l i c l' b : mt_confirm_at l i c = Ok (l', b) -> length l' = length l.
Proof.
  unfold mt_confirm_at. destruct (nth_error l i) as [e|]; [|discriminate]. intros H. apply bind_ok in H.
  destruct H as [[e' b'] [_ H]]. inversion H; subst. apply list_upd_length.
Qed.

Lemma mt_confirm_64 m t c m' b : mt_confirm m t c = Ok (m', b) -> length (mt_ticks m') = 64%nat.
Proof.
  unfold mt_confirm. destruct (N.of_nat (length (mt_ticks m)) =? 64) eqn:El; cbn [negb]; [|discriminate].
  assert (Hl : length (mt_ticks m) = 64%nat) by lia.
  destruct (tick_gtb t (mt_last m)).
  - intros H. apply bind_ok in H. destruct H as [[l' b'] [E H]]. inversion H; subst. cbn [mt_ticks].
    rewrite (mt_confirm_at_length _ _ _ _ _ E). destruct (N.of_nat (length (mt_ticks m)) <=? tick_sub t (mt_last m)) eqn:Ed.
    + apply repeat_length.
    + unfold mt_shift. rewrite firstn_length, app_length, repeat_length, Hl. lia.
  - destruct (tick_sub (mt_last m) t <? N.of_nat (length (mt_ticks m))).
    + intros H. apply bind_ok in H. destruct H as [[l' b'] [E H]]. inversion H; subst. cbn [mt_ticks].
      rewrite (mt_confirm_at_length _ _ _ _ _ E). exact Hl.
    + intros H. inversion H; subst. exact Hl.
Qed.

Lemma mt_confirm_all_64 l : forall m m' bs, length (mt_ticks m) = 64%nat -> mt_confirm_all m l = Ok (m', bs) ->
  length (mt_ticks m') = 64%nat.
Proof.
  induction l as [|[t c] r IH]; intros m m' bs Hl H; cbn [mt_confirm_all] in H.
  - inversion H; subst. exact Hl.
  - apply bind_ok in H. destruct H as [[m1 b] [E1 H]]. apply bind_ok in H. destruct H as [[m2 bs2] [E2 H]].
    inversion H; subst. exact (IH _ _ _ (mt_confirm_64 _ _ _ _ _ E1) E2).
Qed.

Lemma mt_default_64 : length (mt_ticks mt_default) = 64%nat.
Proof. reflexivity. Qed.

Lemma ncalls_app a b : ncalls (a ++ b) = ncalls a ++ ncalls b.
Proof. apply map_app. Qed.

Lemma fired_app l1 b1 l2 b2 : length b1 = length l1 -> fired (l1 ++ l2) (b1 ++ b2) = fired l1 b1 ++ fired l2 b2.
Proof.
  intros Hl. unfold fired. rewrite map_app.
  assert (E : forall (x1 : list N) (y1 : list bool) x2 y2, length y1 = length x1 -> combine (x1 ++ x2) (y1 ++ y2) = combine x1 y1 ++ combine x2 y2).
  { induction x1 as [|a t IH]; intros [|b y1] x2 y2 H; cbn in H; try discriminate; [reflexivity|].
    cbn [app combine]. rewrite IH by lia. reflexivity. }
  rewrite E by (rewrite map_length; exact Hl). rewrite filter_app, map_app. reflexivity.
Qed.

Lemma fired_nil l : fired l [] = [].
Proof. unfold fired. destruct (map m_tick l); reflexivity. Qed.

(* ================================================================== *)
(* 2. the fold of `apply_mutate_messages`                             *)
(* ================================================================== *)

Definition keep_mt (a b : client) : Prop := cl_mticks b = cl_mticks a.

Lemma run_mutations_keep_mt T l c r :
  run_array (fun c b => apply_mutations c T (fst b) (snd b)) l c = Ok r -> cl_mticks (sr_client r) = cl_mticks c.
Proof.
  refine (run_array_rel keep_mt _ l _ _ _ c r); unfold keep_mt.
  - reflexivity.
  - intros; congruence.
  - intros c0 a r0 _ E. apply same_meta_mutations in E. destruct E as (_ & _ & _ & _ & _ & Hm & _). exact Hm.
Qed.

Lemma mm_fold_replay upd l : forall c kept acks evs c' kept' acks' evs',
  fold_left (res_step (mm_step upd)) l (Ok (c, kept, acks, evs)) = Ok (c', kept', acks', evs') ->
  let applied := filter (fun m => negb (gated upd m)) l in
  match cl_mticks c with
  | Some m0 => exists m2 bs, mt_confirm_all m0 (ncalls applied) = Ok (m2, bs) /\ cl_mticks c' = Some m2 /\
                             evs' = evs ++ fired applied bs
  | None => cl_mticks c' = None /\ evs' = evs
  end.
Proof.
  induction l as [|m t IH]; intros c kept acks evs c' kept' acks' evs' H; cbv zeta.
  - cbn in H. inversion H; subst. cbn [filter]. destruct (cl_mticks c') as [m0|].
    + exists m0, []. split; [reflexivity|]. split; [reflexivity|]. rewrite app_nil_r. reflexivity.
    + auto.
  - apply fold_res_cons_ok in H. destruct H as [[[[c1 kept1] acks1] evs1] [E H]].
    specialize (IH _ _ _ _ _ _ _ _ H). cbv zeta in IH. cbn [mm_step] in E. cbn [filter].
    assert (Hg : gated upd m = tick_gtb (m_upd_tick m) upd) by reflexivity. rewrite Hg.
    destruct (tick_gtb (m_upd_tick m) upd) eqn:Eg; cbn [negb].
    + inversion E; subst. exact IH.
    + apply bind_ok in E. destruct E as [r [Er E]].
      change (match r with Continue ca => ca | Abort cb => cb end) with (sr_client r) in E.
      pose proof (run_mutations_keep_mt _ _ _ _ Er) as Hk. rewrite <- Hk.
      destruct (cl_mticks (sr_client r)) as [mtk|] eqn:Em.
      * apply bind_ok in E. destruct E as [[mtk' done] [Ec E]]. inversion E; subst c1 kept1 acks1 evs1. clear E.
        cbn [set_buffered cl_mticks] in IH. destruct IH as (m2 & bs & E2 & Hc' & He).
        exists m2, (done :: bs). cbn [ncalls map mt_confirm_all]. rewrite Ec. cbn [bind]. fold (ncalls (filter (fun m0 => negb (gated upd m0)) t)).
        rewrite E2. cbn [bind]. split; [reflexivity|]. split; [exact Hc'|]. rewrite He.
        unfold fired. cbn [map combine filter snd]. destruct done; cbn [map fst]; [rewrite <- app_assoc; reflexivity|reflexivity].
      * inversion E; subst c1 kept1 acks1 evs1. clear E. rewrite Em in IH. exact IH.
Qed.

(* ================================================================== *)
(* 3. permutations                                                    *)
(* ================================================================== *)

Lemma buffer_insert_perm m l : Permutation (m :: l) (buffer_insert m l).
Proof.
  induction l as [|o t IH]; cbn [buffer_insert]; [apply Permutation_refl|].
  destruct (tick_ltb (m_tick m) (m_tick o)); [|apply Permutation_refl].
  eapply Permutation_trans; [apply perm_swap|]. apply perm_skip. exact IH.
Qed.

Lemma fold_buffer_insert_perm inbox : forall buf,
  Permutation (inbox ++ buf) (fold_left (fun b m => buffer_insert m b) inbox buf).
Proof.
  induction inbox as [|m t IH]; intros buf; cbn [fold_left app]; [apply Permutation_refl|].
  eapply Permutation_trans; [|apply IH]. eapply Permutation_trans; [apply Permutation_middle|].
  apply Permutation_app_head. apply buffer_insert_perm.
Qed.

Lemma filter_split_perm {A} (p : A -> bool) l : Permutation l (filter (fun x => negb (p x)) l ++ filter p l).
Proof.
  induction l as [|a t IH]; cbn [filter]; [apply Permutation_refl|]. destruct (p a); cbn [negb app].
  - eapply Permutation_trans; [apply perm_skip; exact IH|]. apply Permutation_middle.
  - apply perm_skip. exact IH.
Qed.

Lemma take_perm {A} w (q p r : list A) : take w q = (p, r) -> Permutation q (p ++ r).
Proof.
  destruct w; cbn [take].
  - destruct q as [|x t]; intros H; inversion H; subst; apply Permutation_refl.
  - destruct (rev q) as [|x t] eqn:E; intros H; inversion H; subst.
    + assert (q = []) by (destruct q; [reflexivity|]; apply (f_equal (@length _)) in E; rewrite rev_length in E; discriminate).
      subst. apply Permutation_refl.
    + cbn [app]. eapply Permutation_trans; [apply Permutation_rev|]. rewrite E. apply perm_skip. apply Permutation_rev.
  - intros H; inversion H; subst. rewrite app_nil_r. apply Permutation_refl.
Qed.

(* ================================================================== *)
(* 4. one client frame                                                *)
(* ================================================================== *)

Lemma update_keep_mt c u c' : apply_update_message c u = Ok c' -> cl_mticks c' = cl_mticks c.
Proof.
  apply (update_message_rel keep_mt); unfold keep_mt.
  - reflexivity.
  - intros; congruence.
  - reflexivity.
  - intros c0 s pc. destruct (same_meta_mapping c0 s pc) as (_ & _ & _ & _ & _ & Hm & _). exact Hm.
  - intros c0 s. destruct (same_meta_despawn c0 s) as (_ & _ & _ & _ & _ & Hm & _). exact Hm.
  - intros c0 tick s kinds r H. destruct (same_meta_removals _ _ _ _ _ H) as (_ & _ & _ & _ & _ & Hm & _). exact Hm.
  - intros c0 tick s comps r H. destruct (same_meta_changes _ _ _ _ _ H) as (_ & _ & _ & _ & _ & Hm & _). exact Hm.
Qed.

Lemma inbox_fold_keep_mt us : forall c c1, fold_left (res_step apply_update_message) us (Ok c) = Ok c1 -> cl_mticks c1 = cl_mticks c.
Proof.
  induction us as [|u t IH]; intros c c1 H.
  - cbn in H. inversion H; reflexivity.
  - apply fold_res_cons_ok in H. destruct H as [c2 [E H]]. rewrite (IH c2 c1 H). exact (update_keep_mt c u c2 E).
Qed.

Lemma inbox_fold_same_buf_mt us : forall c c1, fold_left (res_step apply_update_message) us (Ok c) = Ok c1 ->
  cl_buffered c1 = cl_buffered c /\ cl_inbox_mut c1 = cl_inbox_mut c /\ cl_mticks c1 = cl_mticks c.
Proof.
  induction us as [|u t IH]; intros c c1 H.
  - cbn in H. inversion H; subst. auto.
  - apply fold_res_cons_ok in H. destruct H as [c2 [E H]]. destruct (same_buf_update c u c2 E) as [A1 A2].
    destruct (IH c2 c1 H) as (B1 & B2 & B3). rewrite B1, B2, B3, A1, A2, (update_keep_mt c u c2 E). auto.
Qed.

Lemma cops_keep_mt ops : forall c, cl_mticks (fold_left apply_cop ops c) = cl_mticks c /\
  cl_last_not_disconnected (fold_left apply_cop ops c) = cl_last_not_disconnected c.
Proof.
  induction ops as [|op t IH]; intros c; cbn [fold_left]; [auto|]. destruct (IH (apply_cop c op)) as [A B]. rewrite A, B.
  destruct op as [pc|pc]; cbn [apply_cop].
  - destruct (existsb _ (cl_ents c)); auto.
  - destruct (find _ (cl_ents c)) as [[cid x]|]; [|auto]. destruct (ce_alive x); auto.
Qed.

(* a frame of a connected client *)
Theorem frame_connected_mt c ops c' out :
  cl_status c = Connected -> client_frame c ops = Ok (c', out) ->
  match cl_mticks c with
  | Some m0 => exists m2 bs, mt_confirm_all m0 (ncalls (frame_applied c)) = Ok (m2, bs) /\ cl_mticks c' = Some m2 /\
                             cfo_tick_events out = fired (frame_applied c) bs
  | None => cl_mticks c' = None /\ cfo_tick_events out = []
  end /\
  cl_status c' = Connected /\ cl_last_not_disconnected c' = true /\ cl_inbox_mut c' = [] /\
  Permutation (cl_buffered c ++ cl_inbox_mut c) (frame_applied c ++ cl_buffered c').
Proof.
  intros Hc H. destruct (frame_clears_inbox c ops c' out Hc H) as [_ Hst].
  unfold client_frame in H. rewrite Hc, andb_false_r in H.
  apply bind_ok in H. destruct H as [[c2 out2] [E H]]. inversion H; subst c' out. clear H.
  unfold apply_replication in E. apply bind_ok in E. destruct E as [c1 [E1 E]].
  change (fold_left (res_step apply_update_message) (cl_inbox_upd c) (Ok c) = Ok c1) in E1. fold (merge_mut_inbox c1) in E.
  unfold frame_applied. rewrite E1. cbv zeta. set (cm := merge_mut_inbox c1) in *.
  destruct (inbox_fold_same_buf_mt (cl_inbox_upd c) c c1 E1) as (B1 & B2 & B3).
  destruct (mutate_messages_kept_acks cm c2 out2 E) as [Kb _].
  pose proof (mutate_messages_keep_inbox_mut cm c2 out2 E) as Kim.
  destruct (cops_fields ops c2) as (_ & K2 & K3 & _). destruct (cops_keep_mt ops c2) as [K5 _].
  split; [|split; [exact Hst|split; [cbn [set_locals cl_status] in Hst; cbn [set_locals cl_last_not_disconnected]; rewrite Hst; reflexivity|split]]].
  - rewrite apply_mutate_messages_eq in E. apply bind_ok in E. destruct E as [[[[c0 kept] acks] evs] [Ef E]].
    inversion E; subst c2 out2. clear E. pose proof (mm_fold_replay _ _ _ _ _ _ _ _ _ _ Ef) as Hr. cbv zeta in Hr.
    assert (Em : cl_mticks cm = cl_mticks c) by (cbn [cm merge_mut_inbox clear_inboxes set_buffered cl_mticks]; exact B3).
    rewrite Em in Hr. cbn [set_locals cl_mticks cfo_tick_events]. rewrite K5. cbn [set_buffered cl_mticks].
    destruct (cl_mticks c) as [m0|]; [|exact Hr]. destruct Hr as (m2 & bs & A1 & A2 & A3). exists m2, bs. auto.
  - cbn [set_locals cl_inbox_mut]. rewrite K2, Kim. reflexivity.
  - cbn [set_locals cl_buffered]. rewrite K3, Kb.
    assert (Hp : Permutation (cl_buffered c ++ cl_inbox_mut c) (cl_buffered cm)).
    { cbn [cm merge_mut_inbox clear_inboxes set_buffered cl_buffered]. rewrite B1, B2.
      eapply Permutation_trans; [apply Permutation_app_comm|]. apply fold_buffer_insert_perm. }
    eapply Permutation_trans; [exact Hp|]. apply filter_split_perm.
Qed.

(* a frame of a client that is not connected: `reset` when the previous frame saw it connected *)
Theorem frame_disconnected_mt c ops c' out :
  cl_status c = Disconnected -> client_frame c ops = Ok (c', out) ->
  out = mkCFO [] [] /\ cl_status c' = Disconnected /\ cl_last_not_disconnected c' = false /\
  cl_inbox_mut c' = cl_inbox_mut c /\
  (if cl_last_not_disconnected c then cl_buffered c' = [] /\ cl_mticks c' = option_map mt_clear (cl_mticks c)
   else cl_buffered c' = cl_buffered c /\ cl_mticks c' = cl_mticks c).
Proof.
  intros Hc H. unfold client_frame in H. rewrite Hc in H. cbn [negb bind] in H. rewrite andb_true_r in H.
  inversion H; subst c' out. clear H.
  set (c1 := if cl_last_not_disconnected c then client_reset c else c).
  destruct (cops_fields ops c1) as (K1 & K2 & K3 & _). destruct (cops_keep_mt ops c1) as [K5 _].
  split; [reflexivity|]. cbn [set_locals cl_status cl_last_not_disconnected cl_inbox_mut cl_buffered cl_mticks].
  rewrite K1, K2, K3, K5.
  assert (Hs1 : cl_status c1 = Disconnected) by (unfold c1; destruct (cl_last_not_disconnected c); exact Hc).
  rewrite Hs1. split; [reflexivity|]. split; [reflexivity|]. unfold c1. destruct (cl_last_not_disconnected c).
  - destruct (client_reset_fields c) as (_ & _ & _ & Eb & Em & _ & _ & _ & _ & _ & _ & Ei). rewrite Eb, Em, Ei. auto.
  - auto.
Qed.
