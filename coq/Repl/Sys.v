(* Layer 1: the whole system - one server, client slots, and the network between them as
   explicit per-client per-channel queues (channel 0 Updates: reliable ordered; channel 1
   Mutations: unreliable; client channel 0 MutationAcks: reliable ordered).  Every delivery,
   hold or drop is a script step; [legal] says which ones the channel contracts allow. *)
From RV Require Import Lib.Res Repl.ClientTicks Repl.World Repl.Server Repl.Client Vis.Visibility
  Tick.RepliconTick Tick.ConfirmHistory Tick.MutateTicks.
Open Scope N_scope.

Record link := mkLink {
  l_upd : list update_msg;
  l_mut : list mutate_msg;
  l_ack : list (list N)
}.
Definition link_empty : link := mkLink [] [] [].

Record sys := mkSys {
  y_cfg : cfg;
  y_server : server;
  y_clients : list (N * client);        (* slot -> client app *)
  y_links : list (N * link)
}.

Definition sys_init (c : cfg) (nclients : N) : sys :=
  let slots := map N.of_nat (seq 0 (N.to_nat nclients)) in
  mkSys c server_init (map (fun i => (i, client_init (cfg_track c))) slots) (map (fun i => (i, link_empty)) slots).

Inductive which := First | Last | All.

Inductive step :=
| StStart
| StStop
| StConnect (slot max : N)
| StAuthorize (slot : N)
| StDisconnect (slot : N)
| StSFrame (tick : bool) (dt : N) (cleanup : bool) (ops : list sop) (parts : list (N * partition))
| StCFrame (slot : N) (ops : list cop)
| StDeliver (slot : N) (s2c : bool) (ch : N) (w : which)
| StDrop (slot : N) (s2c : bool) (ch : N) (w : which).

(* ---------- observations ---------- *)

Record ent_view := mkEV {
  ev_server : N;
  ev_pre : option N;
  ev_alive : bool;
  ev_marker : bool;
  ev_hist : option (N * N);             (* last tick, mask *)
  ev_comps : list (N * (bool * option N * N))   (* kind -> (is_ref, referenced server entity, nat value) *)
}.

Record cview := mkCV {
  cv_upd_tick : N;
  cv_consistent : bool;
  cv_ents : list ent_view;
  cv_extra : list ent_view;             (* replicated entities nothing maps to *)
  cv_mticks : option (N * N)
}.

Inductive out :=
| ONone
| OSFrame (fo : frame_out) (views : list (N * list (N * list (N * val))))
| OCFrame (slot : N) (cfo : client_frame_out) (v : cview)
| OPanic.

Definition describe (c : client) (server_entity : N) (x : cent) : ent_view :=
  mkEV server_entity (ce_pre x) (ce_alive x) (ce_marker x)
       (match ce_hist x with Some h => Some (h_last h, h_mask h) | None => None end)
       (map (fun kv => (fst kv, match snd kv with
                                | CNat n => (false, None, n)
                                | CRef cid => (true, al_get cid (cl_c2s c), 0)
                                end)) (ce_comps x)).

Definition dead_view (server_entity : N) : ent_view := mkEV server_entity None false false None [].

Definition client_view (c : client) : cview :=
  let ents := map (fun sc => match get_cent c (snd sc) with
                             | Some x => describe c (fst sc) x
                             | None => dead_view (fst sc)
                             end) (sort_by_key (cl_s2c c)) in
  let consistent := forallb (fun sc => match al_get (snd sc) (cl_c2s c) with Some s => s =? fst sc | None => false end) (cl_s2c c)
                    && (length (cl_s2c c) =? length (cl_c2s c))%nat in
  let extra := fold_right (fun kv acc =>
                 let '(cid, x) := kv in
                 if ce_alive x && ce_marker x && match al_get cid (cl_c2s c) with None => true | Some _ => false end
                 then describe c 0 x :: acc else acc) [] (cl_ents c) in
  mkCV (cl_upd_tick c) consistent ents extra
       (match cl_mticks c with
        | Some m => Some (mt_last m, match mt_mask m with Ok x => x | _ => 0 end)
        | None => None
        end).

(* what the server currently replicates to a client: visible replicated entities with their components *)
Definition server_view (s : server) (cl : sclient) : list (N * list (N * val)) :=
  fold_right (fun exm acc =>
                let '(e, x, _) := exm in
                if vis_visible (sc_vis cl) e then (e, map (fun kc => (fst kc, c_val (snd kc))) (se_comps x)) :: acc else acc)
             [] (replicated_ents s).

Definition server_views (s : server) : list (N * list (N * list (N * val))) :=
  fold_right (fun cl acc => if sc_authorized cl then (sc_slot cl, server_view s cl) :: acc else acc) [] (sv_clients s).

(* ---------- queues ---------- *)

Definition get_link (y : sys) (slot : N) : link := match al_get slot (y_links y) with Some l => l | None => link_empty end.
Definition set_link (y : sys) (slot : N) (l : link) : sys :=
  mkSys (y_cfg y) (y_server y) (y_clients y) (al_insert slot l (y_links y)).
Definition set_server (y : sys) (s : server) : sys := mkSys (y_cfg y) s (y_clients y) (y_links y).
Definition set_client (y : sys) (slot : N) (c : client) : sys :=
  mkSys (y_cfg y) (y_server y) (al_insert slot c (y_clients y)) (y_links y).

Definition take {A : Type} (w : which) (q : list A) : list A * list A :=   (* picked, remaining *)
  match w with
  | First => match q with [] => ([], []) | x :: t => ([x], t) end
  | Last => match rev q with [] => ([], []) | x :: t => ([x], rev t) end
  | All => (q, [])
  end.

Definition enqueue_outputs (y : sys) (outs : list client_out) : sys :=
  fold_left (fun y o =>
               let l := get_link y (co_slot o) in
               set_link y (co_slot o)
                        (mkLink (l_upd l ++ match co_update o with Some u => [u] | None => [] end)
                                (l_mut l ++ co_mutates o) (l_ack l))) outs y.

Definition clear_link (y : sys) (slot : N) : sys := set_link y slot link_empty.

(* ---------- one step ---------- *)

Definition sys_step (y : sys) (st : step) : res (sys * out) :=
  let c := y_cfg y in
  match st with
  | StStart => Ok (set_server y (set_running (y_server y) true), ONone)
  | StStop =>
    let y1 := set_server y (set_running (y_server y) false) in
    Ok (mkSys c (y_server y1) (y_clients y1) (map (fun kv => (fst kv, link_empty)) (y_links y1)), ONone)
  | StConnect slot max =>
    match find_client (y_server y) slot, al_get slot (y_clients y) with
    | None, Some cl =>
      if sv_running (y_server y) then
        Ok (set_client (set_server y (connect_client c (y_server y) slot max)) slot (set_status cl Connected), ONone)
      else Ok (y, ONone)
    | _, _ => Ok (y, ONone)
    end
  | StAuthorize slot => Ok (set_server y (authorize_client c (y_server y) slot), ONone)
  | StDisconnect slot =>
    match al_get slot (y_clients y) with
    | Some cl =>
      Ok (clear_link (set_client (set_server y (disconnect_client (y_server y) slot)) slot (set_status cl Disconnected)) slot, ONone)
    | None => Ok (y, ONone)
    end
  | StSFrame tick dt cleanup ops parts =>
    let* (s', fo) := server_frame c (y_server y) tick dt cleanup ops parts in
    let y1 := enqueue_outputs (set_server y s') (fo_clients fo) in
    Ok (y1, OSFrame fo (if fo_ran fo then server_views s' else []))
  | StCFrame slot ops =>
    match al_get slot (y_clients y) with
    | Some cl =>
      let* (cl', cfo) := client_frame cl ops in
      let l := get_link y slot in
      let y1 := set_client y slot cl' in
      let y2 := match cfo_acks cfo with
                | [] => y1
                | acks => match cl_status cl' with
                          | Connected => set_link y1 slot (mkLink (l_upd l) (l_mut l) (l_ack l ++ [acks]))
                          | Disconnected => y1
                          end
                end in
      (* pre-spawned entities become nameable by the server-side script *)
      let pcs := fold_right (fun kv acc => match ce_pre (snd kv) with Some p => p :: acc | None => acc end) [] (cl_ents cl') in
      Ok (set_server y2 (publish_pre (y_server y2) slot pcs), OCFrame slot cfo (client_view cl'))
    | None => Ok (y, ONone)
    end
  | StDeliver slot s2c ch w | StDrop slot s2c ch w =>
    let deliver := match st with StDeliver _ _ _ _ => true | _ => false end in
    let l := get_link y slot in
    match al_get slot (y_clients y) with
    | None => Ok (y, ONone)
    | Some cl =>
      if s2c then
        if ch =? 0 then
          let '(picked, rest) := take w (l_upd l) in
          let cl' := if deliver then fold_left deliver_update picked cl else cl in
          Ok (set_client (set_link y slot (mkLink rest (l_mut l) (l_ack l))) slot cl', ONone)
        else if ch =? 1 then
          let '(picked, rest) := take w (l_mut l) in
          let cl' := if deliver then fold_left deliver_mutate picked cl else cl in
          Ok (set_client (set_link y slot (mkLink (l_upd l) rest (l_ack l))) slot cl', ONone)
        else Ok (y, ONone)
      else
        if ch =? 0 then
          let '(picked, rest) := take w (l_ack l) in
          let s' := if deliver then fold_left (fun s idxs => deliver_acks s slot idxs) picked (y_server y) else y_server y in
          Ok (set_server (set_link y slot (mkLink (l_upd l) (l_mut l) rest)) s', ONone)
        else Ok (y, ONone)
    end
  end.

(* a script is a list of steps; [run] stops at the first Panic/Err *)
Fixpoint run (y : sys) (script : list step) : res sys :=
  match script with
  | [] => Ok y
  | st :: rest => let* (y', _) := sys_step y st in run y' rest
  end.

(* deliveries the channel contracts allow: reliable ordered channels only in order and never dropped *)
Definition legal_step (st : step) : bool :=
  match st with
  | StDeliver _ true ch w => if ch =? 0 then match w with Last => false | _ => true end else true
  | StDeliver _ false _ w => match w with Last => false | _ => true end
  | StDrop _ true ch _ => ch =? 1
  | StDrop _ false _ _ => false
  | _ => true
  end.
Definition legal (script : list step) : bool := forallb legal_step script.
