(* C11 end to end: the invariant of whole-system runs that ties the ghost of Repl/AckRunSpec.v to the acknowledgement
   bookkeeping of every client record, and the run-level theorems
     R1  a component is not re-sent in a mutate message once the acknowledgement of a message that listed its entity
         has been processed, unless it changed after the run that sent that message (stamps, and ticks)
     R2  a visible every-tick component is sent by every run - in the update message or in exactly one mutate message -
         until an acknowledgement that covers its change has been processed or an update message re-based the stamp. *)
From RV Require Import Lib.Res Repl.ClientTicks Repl.ClientTicks_proofs Repl.World Vis.Visibility
  Tick.RepliconTick Tick.RepliconTick_proofs
  Repl.Server Repl.ServerSpec Repl.Server_proofs Wire.AckCodec Wire.AckCodec_proofs Repl.Ack_proofs
  Repl.StructSpec Repl.StructOps_proofs Repl.StructVisOps_proofs Repl.Client Repl.Sys Repl.Client_proofs Repl.ClientSys_proofs
  Repl.Session_proofs Repl.StructE2E_proofs Repl.StructE2EMut_proofs
  Repl.ValHist_proofs Repl.ValVisHist_proofs Repl.ValSettle_proofs Repl.MtRunSrv_proofs Repl.MtRun_proofs Repl.AckRunSpec Repl.AckRunSrv_proofs.
From Coq Require Import ZifyBool ZifyN.
Open Scope N_scope.
Ltac Zify.zify_post_hook ::= Z.div_mod_to_equations.
Arguments N.add : simpl never. Arguments N.mul : simpl never. Arguments N.pow : simpl never.
Arguments N.ltb : simpl never. Arguments N.leb : simpl never. Arguments N.div : simpl never.
Arguments N.modulo : simpl never. Arguments N.sub : simpl never. Arguments N.eqb : simpl never.

(* ================================================================== *)
(* 0. the run with its ghost                                          *)
(* ================================================================== *)

Lemma arun_app s1 : forall y G s2,
  arun y G (s1 ++ s2) = let* (y1, G1) := arun y G s1 in arun y1 G1 s2.
Proof.
  induction s1 as [|st t IH]; intros y G s2; cbn [app arun]; [reflexivity|].
  destruct (sys_step y st) as [[y1 o]| |]; cbn [bind]; [apply IH|reflexivity|reflexivity].
Qed.

Lemma arun_run script : forall y G y' G', arun y G script = Ok (y', G') -> run y script = Ok y'.
Proof.
  induction script as [|st t IH]; intros y G y' G' H; cbn [arun run] in *; [inversion H; reflexivity|].
  destruct (sys_step y st) as [[y1 o]| |]; cbn [bind] in *; try discriminate. exact (IH _ _ _ _ H).
Qed.

Lemma run_arun script : forall y G y', run y script = Ok y' -> exists G', arun y G script = Ok (y', G').
Proof.
  induction script as [|st t IH]; intros y G y' H; cbn [arun run] in *; [inversion H; eexists; reflexivity|].
  destruct (sys_step y st) as [[y1 o]| |]; cbn [bind] in *; try discriminate. exact (IH _ _ _ H).
Qed.

(* the ghost is computed slot by slot *)
Lemma astep_pointwise y G st k : astep y G st k = astep y (fun _ => G k) st k.
Proof.
  destruct st as [| |slot max|slot|slot|tick dt cleanup ops parts|slot ops|slot s2c ch w|slot s2c ch w]; cbn [astep]; try reflexivity.
  - destruct (al_get slot (y_clients y)); [|reflexivity]. unfold ag_upd. destruct (k =? slot); reflexivity.
  - destruct (server_frame (y_cfg y) (y_server y) tick dt cleanup ops parts) as [[s' fo]| |]; reflexivity.
Qed.

Lemma arun_arun1 script : forall y G y' G' k, arun y G script = Ok (y', G') -> arun1 y (G k) script k = Ok (y', G' k).
Proof.
  induction script as [|st t IH]; intros y G y' G' k H; cbn [arun arun1] in *; [inversion H; reflexivity|].
  destruct (sys_step y st) as [[y1 o]| |]; cbn [bind] in *; try discriminate.
  rewrite <- (astep_pointwise y G st k). exact (IH _ _ _ _ k H).
Qed.

(* ================================================================== *)
(* 1. change stamps never lie in the future                           *)
(* ================================================================== *)

Definition comps_le (s : server) : Prop :=
  forall e x k comp, In (e, x) (sv_ents s) -> In (k, comp) (se_comps x) -> c_changed comp <= sv_now s.

Lemma In_al_insert {V} k (v : V) l k' v' : In (k', v') (al_insert k v l) -> (k' = k /\ v' = v) \/ In (k', v') l.
Proof.
  induction l as [|[k0 v0] l IH]; cbn [al_insert]; intros H.
  - destruct H as [H|[]]. inversion H. auto.
  - destruct (k0 =? k).
    + destruct H as [H|H]; [inversion H; auto|right; right; exact H].
    + destruct H as [H|H]; [right; left; exact H|]. destruct (IH H) as [A|A]; [left; exact A|right; right; exact A].
Qed.

Lemma In_kinsert {V} k (v : V) l k' v' : In (k', v') (kinsert k v l) -> (k' = k /\ v' = v) \/ In (k', v') l.
Proof.
  induction l as [|[k0 v0] l IH]; cbn [kinsert]; intros H.
  - destruct H as [H|[]]. inversion H. auto.
  - destruct (k =? k0).
    + destruct H as [H|H]; [inversion H; auto|right; right; exact H].
    + destruct (k <? k0).
      * destruct H as [H|H]; [inversion H; auto|right; exact H].
      * destruct H as [H|H]; [right; left; exact H|]. destruct (IH H) as [A|A]; [left; exact A|right; right; exact A].
Qed.

Lemma In_al_remove {V} k (l : list (N * V)) k' v' : In (k', v') (al_remove k l) -> In (k', v') l.
Proof.
  induction l as [|[k0 v0] l IH]; cbn [al_remove]; intros H; [exact H|].
  destruct (k0 =? k); [right; exact (IH H)|]. destruct H as [H|H]; [left; exact H|right; exact (IH H)].
Qed.

Lemma comps_le_ext s s' : sv_ents s' = sv_ents s -> sv_now s <= sv_now s' -> comps_le s -> comps_le s'.
Proof. intros E Hn H e x k comp Hin Hc. rewrite E in Hin. pose proof (H e x k comp Hin Hc). lia. Qed.

Lemma comps_le_set_ent s e x' : comps_le s -> (forall k c, In (k, c) (se_comps x') -> c_changed c <= sv_now s) ->
  comps_le (set_ent s e x').
Proof.
  intros H Hx e0 x0 k comp Hin Hc. change (sv_now (set_ent s e x')) with (sv_now s). cbn [set_ent sv_ents] in Hin.
  destruct (In_al_insert _ _ _ _ _ Hin) as [[_ ->]|Hin']; [exact (Hx k comp Hc)|exact (H e0 x0 k comp Hin' Hc)].
Qed.

Lemma comps_le_get s e x k c : comps_le s -> get_ent s e = Some x -> In (k, c) (se_comps x) -> c_changed c <= sv_now s.
Proof. intros H Hg Hc. apply (H e x k c); [apply Server_proofs.al_get_In; exact Hg|exact Hc]. Qed.

Lemma apply_sop_comps_le s op : comps_le s -> comps_le (apply_sop s op).
Proof.
  intros H.
  assert (Hbd : forall s0 e0, comps_le s0 -> comps_le (buffer_despawn s0 e0)).
  { intros s0 e0 H0. apply (comps_le_ext s0); [apply sv_ents_buffer_despawn|unfold buffer_despawn; destruct (sv_running s0); cbn; lia|exact H0]. }
  destruct op as [e marker comps|e|e k v|e k|e k v|e|e|slot e visible|slot e pc]; unfold apply_sop.
  - destruct (get_ent s e); [exact H|]. apply comps_le_set_ent; [exact H|]. cbn [se_comps].
    apply (Server_proofs.fold_left_inv _ (fun acc => forall k c, In (k, c) acc -> c_changed c <= sv_now s)).
    + intros acc kv _ Hacc k c Hin. destruct (val_ok s (snd kv)); [|exact (Hacc k c Hin)].
      destruct (In_kinsert _ _ _ _ _ Hin) as [[_ ->]|Hin']; [cbn; lia|exact (Hacc k c Hin')].
    + intros k c [].
  - destruct (get_ent s e) as [x|] eqn:Ex; [|exact H]. destruct (se_alive x); [|exact H].
    assert (H1 : comps_le (set_ent s e (mkSEnt false None []))) by (apply comps_le_set_ent; [exact H|intros k c []]).
    destruct (se_marker x); [apply Hbd|]; exact H1.
  - destruct (get_ent s e) as [x|] eqn:Ex; [|exact H]. destruct (se_alive x && val_ok s v); [|exact H].
    cbv zeta. apply comps_le_set_ent; [exact H|]. cbn [se_comps]. intros k0 c1 Hin.
    destruct (In_kinsert _ _ _ _ _ Hin) as [[_ ->]|Hin']; [|exact (comps_le_get s e x k0 c1 H Ex Hin')].
    destruct (al_get k (se_comps x)); cbn; lia.
  - destruct (get_ent s e) as [x|] eqn:Ex; [|exact H]. destruct (se_alive x); [|exact H].
    destruct (al_get k (se_comps x)) as [old|]; [|exact H].
    apply (comps_le_ext (set_ent s e (mkSEnt true (se_marker x) (al_remove k (se_comps x))))); [reflexivity|cbn; lia|].
    apply comps_le_set_ent; [exact H|]. cbn [se_comps]. intros k0 c Hin. exact (comps_le_get s e x k0 c H Ex (In_al_remove _ _ _ _ Hin)).
  - destruct (get_ent s e) as [x|] eqn:Ex; [|exact H]. destruct (se_alive x && val_ok s v); [|exact H].
    destruct (al_get k (se_comps x)) as [old|]; [|exact H].
    apply comps_le_set_ent; [exact H|]. cbn [se_comps]. intros k0 c Hin.
    destruct (In_kinsert _ _ _ _ _ Hin) as [[_ ->]|Hin']; [cbn; lia|exact (comps_le_get s e x k0 c H Ex Hin')].
  - destruct (get_ent s e) as [x|] eqn:Ex; [|exact H]. destruct (se_alive x); [|exact H]. destruct (se_marker x); [exact H|].
    apply comps_le_set_ent; [exact H|]. cbn [se_comps]. intros k0 c Hin. exact (comps_le_get s e x k0 c H Ex Hin).
  - destruct (get_ent s e) as [x|] eqn:Ex; [|exact H]. destruct (se_alive x); [|exact H]. destruct (se_marker x); [|exact H].
    apply Hbd. apply comps_le_set_ent; [exact H|]. cbn [se_comps]. intros k0 c Hin. exact (comps_le_get s e x k0 c H Ex Hin).
  - destruct (find_client s slot) as [c0|]; [|exact H]. destruct (get_ent s e); [|exact H]. destruct (sc_vis c0); exact H.
  - destruct (find_client s slot) as [c0|]; [|exact H]. destruct (get_ent s e); [|exact H].
    destruct (sc_authorized c0 && existsb _ (sv_premap s)); exact H.
Qed.

Lemma ops_comps_le ops : forall s, comps_le s -> comps_le (fold_left apply_sop ops s).
Proof. induction ops as [|op t IH]; intros s H; cbn [fold_left]; [exact H|]. apply IH. apply apply_sop_comps_le. exact H. Qed.

(* ================================================================== *)
(* 2. the runs of a session: stamps and ticks                         *)
(* ================================================================== *)

Record runs_ok (s : server) (g : aghost) : Prop := mkRuns {
  ro_bnd : forall r t, In (r, t) (ag_runs g) -> r < sv_now s /\ (if sv_dirty s then t < sv_tick s else t <= sv_tick s);
  ro_mono : forall r1 t1 r2 t2, In (r1, t1) (ag_runs g) -> In (r2, t2) (ag_runs g) -> (r1 < r2 -> t1 < t2) /\ (r1 = r2 -> t1 = t2);
  ro_dense : forall r0 t0 r, In (r0, t0) (ag_runs g) -> r0 <= r -> r < sv_now s -> exists t, In (r, t) (ag_runs g);
  ro_sent : forall r m, In (r, m) (ag_sent g) -> In (r, m_tick m) (ag_runs g);
  ro_upds : forall r u, In (r, u) (ag_upds g) -> In (r, u_tick u) (ag_runs g)
}.

Lemma runs_ok_empty s : runs_ok s ag_empty.
Proof. constructor; cbn; intros; contradiction. Qed.

Lemma runs_ok_same s s' g : sv_now s' = sv_now s -> sv_tick s' = sv_tick s -> sv_dirty s' = sv_dirty s -> runs_ok s g -> runs_ok s' g.
Proof. intros E1 E2 E3 H. constructor; rewrite ?E1, ?E2, ?E3; apply H. Qed.

(* ================================================================== *)
(* 3. the invariant                                                   *)
(* ================================================================== *)

Record a_inv (script : list step) (y : sys) (G : aghosts) : Prop := mkAInv {
  ai_nodup : NoDup (slots_of (y_server y));
  ai_wf : ents_wf (y_server y);
  ai_tick : sv_tick (y_server y) <= tick_frames script;
  ai_now : sv_now (y_server y) <= tick_frames script + (if sv_dirty (y_server y) then 1 else 2);
  ai_stamps : comps_le (y_server y);
  ai_lr : sv_last_run (y_server y) <= sv_now (y_server y);
  ai_norec : forall k, find_client (y_server y) k = None -> G k = ag_empty;
  ai_tk : forall k cl, find_client (y_server y) k = Some cl -> tk_ok (G k) (sc_ticks cl) (sv_now (y_server y));
  ai_runs : forall k, runs_ok (y_server y) (G k)
}.

Lemma a_inv_init cfg0 n : a_inv [] (sys_init cfg0 n) ags_empty.
Proof.
  constructor; cbn.
  - constructor.
  - apply server_init_wf.
  - lia.
  - lia.
  - intros e x k comp [].
  - lia.
  - reflexivity.
  - intros k cl H. discriminate.
  - intros k. apply runs_ok_empty.
Qed.

Lemma pow31_lt_max : 2 ^ 31 + 2 < MAX_CHANGE_AGE.
Proof. vm_compute. reflexivity. Qed.

(* a record whose bookkeeping is reset keeps fitting the ghost *)
Lemma tk_ok_reset g ct now : tk_ok g ct now -> tk_ok g ct_default now.
Proof.
  intros H. constructor.
  - intros e a E. discriminate.
  - intros i info E. discriminate.
  - constructor.
  - intros i info e t _ _ E. discriminate.
  - intros i info E. discriminate.
  - exact (tk_ack _ _ _ H).
  - intros e t E. discriminate.
  - exact (tk_sent _ _ _ H).
  - exact (tk_upds _ _ _ H).
Qed.

(* ---------- steps other than server frames ---------- *)

Lemma a_inv_nonframe script st y G y' G' :
  a_inv script y G -> is_tick_frame st = false ->
  hist_same (y_server y) (y_server y') -> NoDup (slots_of (y_server y')) ->
  (forall k, match find_client (y_server y') k with
             | None => G' k = ag_empty
             | Some cl' => G' k = G k /\
                           (sc_ticks cl' = ct_default \/ exists cl, find_client (y_server y) k = Some cl /\ sc_ticks cl' = sc_ticks cl)
             end) ->
  a_inv (script ++ [st]) y' G'.
Proof.
  intros Hi Htf (E1 & E2 & E3 & E4 & E5 & E6) Hnd Hk.
  assert (Etf : tick_frames (script ++ [st]) = tick_frames script) by (rewrite tick_frames_snoc, Htf; reflexivity).
  constructor.
  - exact Hnd.
  - exact (ents_wf_same _ _ E1 (ai_wf _ _ _ Hi)).
  - rewrite Etf, E4. exact (ai_tick _ _ _ Hi).
  - rewrite Etf, E2, E5. exact (ai_now _ _ _ Hi).
  - apply (comps_le_ext (y_server y)); [exact E1|lia|exact (ai_stamps _ _ _ Hi)].
  - rewrite E2, E3. exact (ai_lr _ _ _ Hi).
  - intros k Hn. specialize (Hk k). rewrite Hn in Hk. exact Hk.
  - intros k cl' Hf. specialize (Hk k). rewrite Hf in Hk. destruct Hk as [-> Hc]. rewrite E2.
    destruct Hc as [Hd|(cl & Hcl & Et)].
    + rewrite Hd. destruct (find_client (y_server y) k) as [cl|] eqn:Ef.
      * exact (tk_ok_reset _ _ _ (ai_tk _ _ _ Hi k cl Ef)).
      * rewrite (ai_norec _ _ _ Hi k Ef). apply tk_ok_empty.
    + rewrite Et. exact (ai_tk _ _ _ Hi k cl Hcl).
  - intros k. specialize (Hk k). destruct (find_client (y_server y') k).
    + destruct Hk as [-> _]. exact (runs_ok_same _ _ _ E2 E4 E5 (ai_runs _ _ _ Hi k)).
    + rewrite Hk. apply runs_ok_empty.
Qed.

Lemma NoDup_app_snoc {A} (l : list A) x : NoDup l -> ~ In x l -> NoDup (l ++ [x]).
Proof.
  induction l as [|a l IH]; intros Hnd Hn; cbn [app]; [constructor; [intros []|constructor]|].
  inversion Hnd as [|? ? Ha Hl]; subst. constructor.
  - intros Hin. apply in_app_or in Hin. destruct Hin as [Hin|[->|[]]]; [exact (Ha Hin)|apply Hn; left; reflexivity].
  - apply IH; [exact Hl|]. intros Hin. apply Hn. right. exact Hin.
Qed.

Lemma find_app {A} (p : A -> bool) l x : find p (l ++ [x]) = match find p l with Some y => Some y | None => if p x then Some x else None end.
Proof. induction l as [|y l IH]; cbn [app find]; [reflexivity|]. destruct (p y); [reflexivity|exact IH]. Qed.

Lemma find_client_deliver_fold slot picked : forall s k,
  find_client (fold_left (fun s idxs => deliver_acks s slot idxs) picked s) k = find_client s k.
Proof.
  induction picked as [|i t IH]; intros s k; cbn [fold_left]; [reflexivity|]. rewrite IH.
  unfold deliver_acks. destruct (sv_running s); [|reflexivity]. destruct (find_client s slot); reflexivity.
Qed.

Lemma slots_deliver_fold slot picked : forall s, slots_of (fold_left (fun s idxs => deliver_acks s slot idxs) picked s) = slots_of s.
Proof.
  induction picked as [|i t IH]; intros s; cbn [fold_left]; [reflexivity|]. rewrite IH.
  unfold deliver_acks. destruct (sv_running s); [|reflexivity]. destruct (find_client s slot); reflexivity.
Qed.

Lemma find_filter_other {A} (p q : A -> bool) l : (forall x, p x = true -> q x = true) -> find p (filter q l) = find p l.
Proof.
  intros H. induction l as [|x l IH]; cbn [filter find]; [reflexivity|].
  destruct (q x) eqn:Eq; cbn [find]; [destruct (p x); [reflexivity|exact IH]|].
  destruct (p x) eqn:Ep; [rewrite (H x Ep) in Eq; discriminate|exact IH].
Qed.

Lemma find_filter_self {A} (p q : A -> bool) l : (forall x, p x = true -> q x = false) -> find p (filter q l) = None.
Proof.
  intros H. induction l as [|x l IH]; cbn [filter find]; [reflexivity|].
  destruct (q x) eqn:Eq; cbn [find]; [|exact IH]. destruct (p x) eqn:Ep; [rewrite (H x Ep) in Eq; discriminate|exact IH].
Qed.

Theorem a_inv_step_other script st y G y' o :
  a_inv script y G -> is_sframe st = false -> sys_step y st = Ok (y', o) -> a_inv (script ++ [st]) y' (astep y G st).
Proof.
  intros Hi Hnf H.
  assert (Htf : is_tick_frame st = false) by (destruct st; try reflexivity; discriminate).
  destruct (nonframe_fields y st y' o H Hnf) as [Hsame _].
  (* the steps that leave the records alone *)
  assert (Hkeep : astep y G st = G -> (forall k, find_client (y_server y') k = find_client (y_server y) k) ->
                  slots_of (y_server y') = slots_of (y_server y) -> a_inv (script ++ [st]) y' (astep y G st)).
  { intros EG Hf Hs. rewrite EG. apply (a_inv_nonframe script st y G y' G Hi Htf Hsame).
    - rewrite Hs. exact (ai_nodup _ _ _ Hi).
    - intros k. rewrite Hf. destruct (find_client (y_server y) k) as [cl|] eqn:E.
      + split; [reflexivity|right; exists cl; auto].
      + exact (ai_norec _ _ _ Hi k E). }
  assert (Hnoop : y' = y -> astep y G st = G -> a_inv (script ++ [st]) y' (astep y G st)).
  { intros -> EG. apply Hkeep; auto. }
  destruct st as [| |slot max|slot|slot|tick dt cleanup ops parts|slot ops|slot s2c ch w|slot s2c ch w];
    try discriminate; cbn [sys_step] in H.
  - injection H as <- _. apply Hkeep; reflexivity.
  - injection H as <- _. apply Hkeep; reflexivity.
  - (* connect *)
    destruct (find_client (y_server y) slot) as [c0|] eqn:Ef; [injection H as <- _; apply Hnoop; reflexivity|].
    destruct (al_get slot (y_clients y)); [|injection H as <- _; apply Hnoop; reflexivity].
    destruct (sv_running (y_server y)) eqn:Er; [|injection H as <- _; apply Hnoop; reflexivity].
    injection H as <- _. cbn [astep]. cbn [set_client set_server y_server] in *.
    assert (Hcc : sv_clients (connect_client (y_cfg y) (y_server y) slot max) =
                  sv_clients (y_server y) ++ [match cfg_auth (y_cfg y) with
                                              | AuthNone => authorized_client (y_cfg y) slot max
                                              | _ => mkSC slot false max ct_default None []
                                              end]).
    { unfold connect_client. rewrite Er, Ef. reflexivity. }
    match goal with |- a_inv _ ?y1 _ => apply (a_inv_nonframe script _ y G y1 G Hi Htf Hsame) end; cbn [set_client set_server y_server clear_link set_link].
    + unfold slots_of. rewrite Hcc, map_app. cbn [map].
      assert (Hsl : sc_slot (match cfg_auth (y_cfg y) with
                             | AuthNone => authorized_client (y_cfg y) slot max
                             | _ => mkSC slot false max ct_default None []
                             end) = slot) by (destruct (cfg_auth (y_cfg y)); reflexivity).
      rewrite Hsl. apply NoDup_app_snoc; [exact (ai_nodup _ _ _ Hi)|]. apply find_client_none_slots. exact Ef.
    + intros k. unfold find_client at 1. rewrite Hcc, find_app. fold (find_client (y_server y) k).
      destruct (find_client (y_server y) k) as [cl|] eqn:Ek; [split; [reflexivity|right; exists cl; auto]|].
      match goal with |- context [if ?b then _ else _] => destruct b end; [|exact (ai_norec _ _ _ Hi k Ek)].
      split; [reflexivity|left]. destruct (cfg_auth (y_cfg y)); reflexivity.
  - (* authorize *)
    injection H as <- _. cbn [astep]. cbn [set_server y_server] in *.
    match goal with |- a_inv _ ?y1 _ => apply (a_inv_nonframe script _ y G y1 G Hi Htf Hsame) end; cbn [set_client set_server y_server clear_link set_link].
    + rewrite authorize_slots. exact (ai_nodup _ _ _ Hi).
    + intros k. unfold authorize_client. destruct (find_client (y_server y) slot) as [c0|] eqn:Ef.
      * destruct (sc_authorized c0).
        -- destruct (find_client (y_server y) k) as [cl|] eqn:E; [split; [reflexivity|right; exists cl; auto]|exact (ai_norec _ _ _ Hi k E)].
        -- rewrite find_update_client_gen. destruct (find_client (y_server y) k) as [cl|] eqn:E; cbn [option_map]; [|exact (ai_norec _ _ _ Hi k E)].
           split; [reflexivity|]. destruct (sc_slot cl =? _); [left; reflexivity|right; exists cl; auto].
      * destruct (find_client (y_server y) k) as [cl|] eqn:E; [split; [reflexivity|right; exists cl; auto]|exact (ai_norec _ _ _ Hi k E)].
  - (* disconnect *)
    destruct (al_get slot (y_clients y)) as [c0|] eqn:Ec; [|injection H as <- _; apply Hnoop; [reflexivity|cbn [astep]; rewrite Ec; reflexivity]].
    injection H as <- _. cbn [astep]. rewrite Ec.
    match goal with |- a_inv _ ?y1 ?G1 => apply (a_inv_nonframe script _ y G y1 G1 Hi Htf Hsame) end; cbn [set_client set_server y_server clear_link set_link].
    + rewrite disconnect_slots. apply NoDup_filter. exact (ai_nodup _ _ _ Hi).
    + intros k. unfold find_client at 1, disconnect_client, ag_upd. cbn [sv_clients].
      destruct (k =? slot) eqn:E.
      * rewrite find_filter_self; [reflexivity|]. intros x Hx. assert (sc_slot x = slot) by lia. destruct (sc_slot x =? slot) eqn:E2; [reflexivity|lia].
      * rewrite find_filter_other by (intros x Hx; destruct (sc_slot x =? slot) eqn:E2; [lia|reflexivity]).
        fold (find_client (y_server y) k).
        destruct (find_client (y_server y) k) as [cl|] eqn:Ek; [split; [reflexivity|right; exists cl; auto]|exact (ai_norec _ _ _ Hi k Ek)].
  - (* client frame *)
    destruct (al_get slot (y_clients y)) as [cl|]; [|injection H as <- _; apply Hnoop; reflexivity].
    destruct (client_frame cl ops) as [[cl' cfo]| |]; cbn [bind] in H; try discriminate.
    cbv zeta in H. injection H as <- _. cbn [set_server y_server] in *.
    apply Hkeep; [reflexivity| |]; destruct (cfo_acks cfo); try destruct (cl_status cl'); reflexivity.
  - (* deliver *)
    destruct (al_get slot (y_clients y)) as [cl|]; [|injection H as <- _; apply Hnoop; reflexivity].
    destruct s2c.
    + destruct (ch =? 0).
      * destruct (take w (l_upd (get_link y slot))) as [picked rest]. injection H as <- _. apply Hkeep; reflexivity.
      * destruct (ch =? 1); [|injection H as <- _; apply Hnoop; reflexivity].
        destruct (take w (l_mut (get_link y slot))) as [picked rest]. injection H as <- _. apply Hkeep; reflexivity.
    + destruct (ch =? 0); [|injection H as <- _; apply Hnoop; reflexivity].
      destruct (take w (l_ack (get_link y slot))) as [picked rest]. injection H as <- _. cbn [set_server y_server] in *.
      apply Hkeep; [reflexivity|intros k; apply find_client_deliver_fold|apply slots_deliver_fold].
  - (* drop *)
    destruct (al_get slot (y_clients y)) as [cl|]; [|injection H as <- _; apply Hnoop; reflexivity].
    destruct s2c.
    + destruct (ch =? 0).
      * destruct (take w (l_upd (get_link y slot))) as [picked rest]. injection H as <- _. apply Hkeep; reflexivity.
      * destruct (ch =? 1); [|injection H as <- _; apply Hnoop; reflexivity].
        destruct (take w (l_mut (get_link y slot))) as [picked rest]. injection H as <- _. apply Hkeep; reflexivity.
    + destruct (ch =? 0); [|injection H as <- _; apply Hnoop; reflexivity].
      destruct (take w (l_ack (get_link y slot))) as [picked rest]. injection H as <- _. apply Hkeep; reflexivity.
Qed.

(* ---------- server frames ---------- *)

(* PreUpdate: the acknowledgements of the frame are added to the ghost *)
Lemma tk_ok_frame c s dt cleanup k cl g :
  sv_now s < MAX_CHANGE_AGE -> find_client s k = Some cl -> tk_ok g (sc_ticks cl) (sv_now s) ->
  tk_ok (ag_add_acked g (frame_acked s k)) (frame_ticks c s dt cleanup cl) (sv_now s).
Proof.
  intros Hmax Hf H. unfold frame_acked, frame_ticks. rewrite Hf. destruct (find_client_in _ _ _ Hf) as [_ Hk].
  destruct (sv_running s); [|rewrite ag_add_acked_nil; exact H].
  unfold ack_client. destruct (sc_authorized cl); cbn [sc_ticks].
  - rewrite Hk. cbv zeta. destruct cleanup; [apply tk_ok_cleanup|]; apply tk_ok_acks; assumption.
  - rewrite ag_add_acked_nil. cbv zeta. destruct cleanup; [apply tk_ok_cleanup|]; exact H.
Qed.

Lemma ag_frame_send g r fo k acked out :
  fo_ran fo = true -> mutates_for k (fo_clients fo) = co_mutates out ->
  updates_for k (fo_clients fo) = opt_list (co_update out) ->
  ag_frame g r fo k acked = ag_send (ag_add_acked g acked) r [(r, fo_tick fo)] out.
Proof. intros E1 E2 E3. unfold ag_frame, ag_send, ag_add_acked, opt_list in *. cbn. rewrite E1, E2, E3. reflexivity. Qed.

Lemma ag_frame_quiet g r fo k acked :
  mutates_for k (fo_clients fo) = [] -> updates_for k (fo_clients fo) = [] ->
  ag_frame g r fo k acked =
  mkAG (ag_runs (ag_add_acked g acked) ++ (if fo_ran fo then [(r, fo_tick fo)] else []))
       (ag_sent (ag_add_acked g acked)) (ag_upds (ag_add_acked g acked)) (ag_acked (ag_add_acked g acked)).
Proof. intros E2 E3. unfold ag_frame, ag_add_acked. cbn. rewrite E2, E3. cbn [map]. rewrite !app_nil_r. reflexivity. Qed.

Lemma tick_add_small t : t + 1 < 2 ^ 32 -> tick_add t 1 = t + 1.
Proof. intros H. unfold tick_add. apply N.mod_small. exact H. Qed.

Lemma pow31_32 : 2 ^ 31 < 2 ^ 32. Proof. reflexivity. Qed.

Theorem a_inv_step_frame script y G tick dt cleanup ops parts y' o :
  a_inv script y G -> tick_frames (script ++ [StSFrame tick dt cleanup ops parts]) < 2 ^ 31 ->
  sys_step y (StSFrame tick dt cleanup ops parts) = Ok (y', o) ->
  a_inv (script ++ [StSFrame tick dt cleanup ops parts]) y' (astep y G (StSFrame tick dt cleanup ops parts)).
Proof.
  intros Hi HB H. destruct (sframe_step_inv _ _ _ _ _ _ _ _ H) as (fo & vs & -> & Ef).
  set (s := y_server y) in *. set (s' := y_server y') in *. set (c := y_cfg y) in *.
  cbn [astep]. fold c s. rewrite Ef.
  rewrite tick_frames_snoc in HB. cbn [is_tick_frame] in HB.
  pose proof (ai_nodup _ _ _ Hi) as Hnd. fold s in Hnd.
  pose proof (ai_tick _ _ _ Hi) as Htk. fold s in Htk. pose proof (ai_now _ _ _ Hi) as Hnow. fold s in Hnow.
  assert (Hmax : sv_now s < MAX_CHANGE_AGE) by (pose proof pow31_lt_max; destruct (sv_dirty s); destruct tick; lia).
  destruct (server_frame_mt c s tick dt cleanup ops parts s' fo Hnd Ef) as (M1 & M2 & M3 & M4 & _ & _ & _).
  cbv zeta in M3.
  destruct (server_frame_cases _ _ _ _ _ _ _ _ _ Ef) as [Hft Hcase]. cbv zeta in Hcase.
  destruct (server_frame_core _ _ _ _ _ _ _ _ _ Ef) as (s2 & C1 & C2 & _ & C4 & _).
  assert (Ht1 : (if tick then tick_add (sv_tick s) 1 else sv_tick s) = sv_tick s + (if tick then 1 else 0)).
  { destruct tick; [|lia]. apply tick_add_small. pose proof pow31_32. lia. }
  assert (Hnow' : sv_now s' = sv_now s + (if fo_ran fo then 1 else 0) /\ (fo_ran fo = true -> sv_dirty s || tick = true)).
  { destruct Hcase as [(R1 & R2 & _ & _ & R5 & _)|(R1 & _ & R3 & _)]; rewrite R1.
    - split; [exact R5|intros _].
      destruct (server_frame_core _ _ _ _ _ _ _ _ _ Ef) as (_ & _ & _ & _ & _ & [(_ & _ & D & _)|(Q & _)]); [exact D|congruence].
    - split; [lia|discriminate]. }
  destruct Hnow' as [Hnow' Hdirty].
  constructor.
  - fold s'. destruct M4 as [->|[M4 _]]; [exact Hnd|unfold slots_of; rewrite M4; constructor].
  - exact (server_frame_wf _ _ _ _ _ _ _ _ _ (ai_wf _ _ _ Hi) Ef).
  - fold s'. rewrite tick_frames_snoc. cbn [is_tick_frame]. destruct M3 as [->|[-> _]]; [rewrite Ht1; destruct tick; lia|lia].
  - fold s'. rewrite tick_frames_snoc. cbn [is_tick_frame]. rewrite Hnow', M1. destruct (fo_ran fo) eqn:Er.
    + specialize (Hdirty eq_refl). destruct tick; [destruct (sv_dirty s); lia|]. rewrite orb_false_r in Hdirty. rewrite Hdirty in Hnow. lia.
    + destruct (sv_dirty s); destruct tick; lia.
  - fold s'. apply (comps_le_ext (fold_left apply_sop ops s2)); [exact C4|rewrite ops_now, C2, Hnow'; lia|].
    apply ops_comps_le. apply (comps_le_ext s); [exact C1|lia|exact (ai_stamps _ _ _ Hi)].
  - fold s'. pose proof (ai_lr _ _ _ Hi) as Hlr. fold s in Hlr.
    destruct (server_frame_core _ _ _ _ _ _ _ _ _ Ef) as (_ & _ & _ & _ & _ & [(_ & _ & _ & Q1 & Q2 & _)|(_ & Q1 & Q2 & _)]); lia.
  - intros k Hn. fold s' in Hn. rewrite Hn. reflexivity.
  - intros k cl' Hf. fold s' in Hf |- *. rewrite Hf.
    pose proof (frame_slot c s tick dt cleanup ops parts s' fo k Hnd Ef) as Hs. cbv zeta in Hs.
    destruct (find_client s k) as [cl|] eqn:Ek; [|destruct Hs as [Hs _]; congruence].
    destruct Hs as (clp & Ep & P1 & P2 & P3 & Hc).
    pose proof (tk_ok_frame c s dt cleanup k cl (G k) Hmax Ek (ai_tk _ _ _ Hi k cl Ek)) as Htk1. rewrite <- P3 in Htk1.
    destruct (frame_pre_fields c s tick dt cleanup ops) as (F1 & _). rewrite <- F1 in Htk1.
    destruct Hc as [(R1 & R2 & R3 & R4 & R5)|(R1 & R2 & R3 & R4)].
    + rewrite (ag_frame_send _ _ _ _ _ _ R1 R4 R5). rewrite R3 in Hf. inversion Hf; subst cl'.
      rewrite Hnow', R1. rewrite <- F1. apply tk_ok_send. exact Htk1.
    + rewrite (ag_frame_quiet _ _ _ _ _ R2 R3). destruct R4 as [R4|R4]; [|congruence]. rewrite R4 in Hf. inversion Hf; subst cl'.
      apply tk_ok_runs. apply (tk_ok_later _ _ (sv_now (frame_pre c s tick dt cleanup ops))); [rewrite F1, Hnow'; lia|exact Htk1].
  - intros k. fold s'. destruct (find_client s' k) as [cl'|] eqn:Hf; [|apply runs_ok_empty].
    pose proof (ai_runs _ _ _ Hi k) as Hr. fold s in Hr.
    assert (Hcl : sv_clients s' <> []) by (intros E; unfold find_client in Hf; rewrite E in Hf; discriminate).
    assert (Htick' : sv_tick s' = sv_tick s + (if tick then 1 else 0)).
    { destruct M3 as [->|(_ & E & _)]; [exact Ht1|contradiction]. }
    assert (Hout : forall m, In m (mutates_for k (fo_clients fo)) -> fo_ran fo = true /\ m_tick m = sv_tick s').
    { intros m Hm. destruct (mutates_for_in _ _ _ Hm) as (o & Ho & _ & Hmo).
      split; [|exact (proj2 (proj2 (server_frame_out_ticks _ _ _ _ _ _ _ _ _ Ef) o Ho) m Hmo)].
      destruct Hcase as [(R1 & _)|(_ & R2 & _)]; [exact R1|rewrite R2 in Ho; destruct Ho]. }
    assert (Hupd : forall u, In u (updates_for k (fo_clients fo)) -> fo_ran fo = true /\ u_tick u = sv_tick s').
    { intros u Hu. unfold updates_for in Hu. apply in_flat_map in Hu. destruct Hu as (o & Ho & Hu).
      destruct (co_slot o =? k); [|destruct Hu]. destruct (co_update o) as [u0|] eqn:Eu; [|destruct Hu]. destruct Hu as [<-|[]].
      split; [|exact (proj1 (proj2 (server_frame_out_ticks _ _ _ _ _ _ _ _ _ Ef) o Ho) u0 Eu)].
      destruct Hcase as [(R1 & _)|(_ & R2 & _)]; [exact R1|rewrite R2 in Ho; destruct Ho]. }
    assert (Hold : forall r t, In (r, t) (ag_runs (G k)) -> r < sv_now s /\ t <= sv_tick s /\ (sv_dirty s = true -> t < sv_tick s)).
    { intros r t Hin. destruct (ro_bnd _ _ Hr r t Hin) as [B1 B2]. destruct (sv_dirty s); (split; [exact B1|split; [lia|]]); [intros _; exact B2|discriminate]. }
    assert (Hnew : fo_ran fo = true -> forall r t, In (r, t) (ag_runs (G k)) -> t < sv_tick s').
    { intros Er r t Hin. destruct (Hold r t Hin) as (_ & B2 & B3). specialize (Hdirty Er). rewrite Htick'.
      destruct (sv_dirty s); [specialize (B3 eq_refl); lia|]. cbn [orb] in Hdirty. subst tick. lia. }
    unfold ag_frame. constructor; cbn [ag_runs ag_sent ag_upds].
    + intros r t Hin. rewrite M1, Hnow'. apply in_app_or in Hin. destruct Hin as [Hin|Hin].
      * destruct (Hold r t Hin) as (B1 & B2 & _). split; [lia|]. rewrite Htick'. lia.
      * destruct (fo_ran fo); [|destruct Hin]. destruct Hin as [Hin|[]]. inversion Hin; subst r t. split; [lia|]. rewrite Hft. fold s'. lia.
    + intros r1 t1 r2 t2 H1 H2. apply in_app_or in H1. apply in_app_or in H2.
      destruct H1 as [H1|H1], H2 as [H2|H2].
      * exact (ro_mono _ _ Hr r1 t1 r2 t2 H1 H2).
      * destruct (fo_ran fo) eqn:Er; [|destruct H2]. destruct H2 as [H2|[]]. inversion H2; subst r2 t2.
        destruct (Hold r1 t1 H1) as (B1 & _). pose proof (Hnew eq_refl r1 t1 H1). rewrite Hft. fold s'. split; intros; lia.
      * destruct (fo_ran fo) eqn:Er; [|destruct H1]. destruct H1 as [H1|[]]. inversion H1; subst r1 t1.
        destruct (Hold r2 t2 H2) as (B1 & _). split; intros; lia.
      * destruct (fo_ran fo); [|destruct H1]. destruct H1 as [H1|[]], H2 as [H2|[]]. inversion H1; inversion H2; subst. split; intros; [lia|reflexivity].
    + intros r0 t0 r Hin Hle Hlt. rewrite Hnow' in Hlt. apply in_app_or in Hin.
      destruct (N.lt_ge_cases r (sv_now s)) as [Hr1|Hr1].
      * destruct Hin as [Hin|Hin].
        -- destruct (ro_dense _ _ Hr r0 t0 r Hin Hle Hr1) as [t Ht]. exists t. apply in_or_app. left. exact Ht.
        -- destruct (fo_ran fo); [|destruct Hin]. destruct Hin as [Hin|[]]. inversion Hin; subst. lia.
      * destruct (fo_ran fo); [|lia]. exists (fo_tick fo). apply in_or_app. right. left. f_equal. lia.
    + intros r m Hin. apply in_app_or in Hin. destruct Hin as [Hin|Hin].
      * apply in_or_app. left. exact (ro_sent _ _ Hr r m Hin).
      * apply in_map_iff in Hin. destruct Hin as (m0 & E & Hm). inversion E; subst. destruct (Hout m Hm) as [Er Et].
        apply in_or_app. right. rewrite Er. left. rewrite Hft. fold s'. congruence.
    + intros r u Hin. apply in_app_or in Hin. destruct Hin as [Hin|Hin].
      * apply in_or_app. left. exact (ro_upds _ _ Hr r u Hin).
      * apply in_map_iff in Hin. destruct Hin as (u0 & E & Hu). inversion E; subst. destruct (Hupd u Hu) as [Er Et].
        apply in_or_app. right. rewrite Er. left. rewrite Hft. fold s'. congruence.
Qed.

(* ---------- the run ---------- *)

Theorem a_inv_step script st y G y' o :
  a_inv script y G -> tick_frames (script ++ [st]) < 2 ^ 31 -> sys_step y st = Ok (y', o) ->
  a_inv (script ++ [st]) y' (astep y G st).
Proof.
  intros Hi HB H. destruct (is_sframe st) eqn:Esf.
  - destruct st; try discriminate. exact (a_inv_step_frame _ _ _ _ _ _ _ _ _ _ Hi HB H).
  - exact (a_inv_step_other _ _ _ _ _ _ Hi Esf H).
Qed.

Theorem a_inv_run cfg0 n script : forall y G,
  tick_frames script < 2 ^ 31 -> arun (sys_init cfg0 n) ags_empty script = Ok (y, G) -> a_inv script y G.
Proof.
  induction script as [|st t IH] using rev_ind; intros y G HB H.
  - cbn in H. inversion H; subst. apply a_inv_init.
  - rewrite arun_app in H. apply bind_ok in H. destruct H as [[y1 G1] [E1 H]].
    cbn [arun] in H. apply bind_ok in H. destruct H as [[y2 o] [E2 H]]. cbn [arun] in H. inversion H; subst y G. clear H.
    assert (HB1 : tick_frames t < 2 ^ 31).
    { rewrite tick_frames_snoc in HB. destruct (is_tick_frame st); lia. }
    exact (a_inv_step t st y1 G1 y2 o (IH y1 G1 HB1 E1) HB E2).
Qed.

(* the invariant does not look at the acknowledgements waiting in the server's inbox: whatever a client (or
   anybody else) sends on the acknowledgement channel - duplicates, stale indices, indices never handed out -
   the theorems below apply to the next frame *)
Definition with_inbox (s : server) (ib : list (N * list N)) : server :=
  mkSrv (sv_running s) (sv_last_running s) (sv_now s) (sv_last_run s) (sv_tick s) (sv_dirty s) (sv_elapsed s)
        (sv_ents s) (sv_despawn_buf s) (sv_removal_buf s) (sv_removed_events s) (sv_clients s) ib (sv_premap s).

Theorem a_inv_any_inbox script y G ib : a_inv script y G -> a_inv script (set_server y (with_inbox (y_server y) ib)) G.
Proof.
  intros H. destruct H. constructor; try assumption.
  intros k. apply (runs_ok_same (y_server y)); [reflexivity..|apply ai_runs0].
Qed.

(* ================================================================== *)
(* 4. R1: not re-sent after the acknowledgement                       *)
(* ================================================================== *)

(* a processed acknowledgement is the acknowledgement of a mutate message of the session *)
Theorem acked_is_sent script y G k i info : a_inv script y G -> In (i, info) (ag_acked (G k)) ->
  exists m0, In (mit info, m0) (ag_sent (G k)) /\ m_idx m0 = i /\ map fst (m_body m0) = mi_entities info /\
             In (mit info, m_tick m0) (ag_runs (G k)).
Proof.
  intros Hi Hin. destruct (find_client (y_server y) k) as [cl|] eqn:Ef.
  - destruct (tk_ack _ _ _ (ai_tk _ _ _ Hi k cl Ef) i info Hin) as (m0 & H1 & H2 & H3).
    exists m0. split; [exact H1|]. split; [exact H2|]. split; [auto|]. exact (ro_sent _ _ (ai_runs _ _ _ Hi k) _ _ H1).
  - rewrite (ai_norec _ _ _ Hi k Ef) in Hin. destruct Hin.
Qed.

Lemma frame_pre_comps_le c s tick dt cleanup ops : comps_le s -> comps_le (frame_pre c s tick dt cleanup ops).
Proof.
  intros H. destruct (frame_acks_fields c s tick dt cleanup) as (A1 & _ & _ & A4). unfold frame_pre.
  apply (comps_le_ext (fold_left apply_sop ops (frame_acks c s tick dt cleanup))); [reflexivity|cbn; lia|].
  apply ops_comps_le. apply (comps_le_ext s); [exact A4|lia|exact H].
Qed.

Theorem r1_step script y G tick dt cleanup ops parts y' fo vs k i info e m vals kd v :
  a_inv script y G -> tick_frames (script ++ [StSFrame tick dt cleanup ops parts]) < 2 ^ 31 ->
  sys_step y (StSFrame tick dt cleanup ops parts) = Ok (y', OSFrame fo vs) ->
  In (i, info) (ag_acked (astep y G (StSFrame tick dt cleanup ops parts) k)) -> In e (mi_entities info) ->
  In m (mutates_for k (fo_clients fo)) -> In (e, vals) (m_body m) -> In (kd, v) vals ->
  exists x madd comp, In (e, x, madd) (replicated_ents (y_server y')) /\ In (kd, comp) (se_comps x) /\ v = c_val comp /\
    mit info < c_changed comp /\ c_changed comp <= sv_now (y_server y).
Proof.
  intros Hi HB H Hack He Hm Hb Hv. destruct (sframe_step_inv _ _ _ _ _ _ _ _ H) as (fo0 & vs0 & Eo & Ef). inversion Eo; subst fo0 vs0. clear Eo.
  set (s := y_server y) in *. set (s' := y_server y') in *. set (c := y_cfg y) in *.
  cbn [astep] in Hack. fold c s in Hack. rewrite Ef in Hack.
  pose proof (ai_nodup _ _ _ Hi) as Hnd. fold s in Hnd.
  assert (Hmax : sv_now s < MAX_CHANGE_AGE).
  { pose proof (ai_now _ _ _ Hi) as Hn. fold s in Hn. rewrite tick_frames_snoc in HB. pose proof pow31_lt_max.
    destruct (sv_dirty s); destruct (is_tick_frame _); lia. }
  pose proof (frame_slot c s tick dt cleanup ops parts s' fo k Hnd Ef) as Hs. cbv zeta in Hs.
  destruct (find_client s k) as [cl|] eqn:Ek; [|destruct Hs as (_ & Hs & _); rewrite Hs in Hm; destruct Hm].
  destruct Hs as (clp & Ep & P1 & P2 & P3 & Hc).
  pose proof (tk_ok_frame c s dt cleanup k cl (G k) Hmax Ek (ai_tk _ _ _ Hi k cl Ek)) as Htk1. rewrite <- P3 in Htk1.
  destruct (frame_pre_fields c s tick dt cleanup ops) as (F1 & _). rewrite <- F1 in Htk1.
  destruct Hc as [(R1 & R2 & R3 & R4 & R5)|(_ & R2 & _)]; [|rewrite R2 in Hm; destruct Hm].
  rewrite R3 in Hack. cbn [ag_frame ag_acked] in Hack. rewrite R4 in Hm. rewrite <- F1 in Hm.
  destruct (sfc_mutate_only_newer c _ clp _ _ m e vals kd v Htk1 Hm Hb Hv) as (x & madd & comp & Hl & Hcin & Hval & Hnew).
  exists x, madd, comp.
  destruct (server_frame_cases _ _ _ _ _ _ _ _ _ Ef) as [_ [(_ & _ & _ & _ & _ & Q6 & _)|(Q1 & _)]]; [|congruence].
  split; [rewrite (replicated_ents_ext _ _ Q6); exact Hl|]. split; [exact Hcin|]. split; [exact Hval|].
  split; [exact (Hnew i info Hack He)|].
  pose proof (frame_pre_comps_le c s tick dt cleanup ops (ai_stamps _ _ _ Hi)) as Hcl. rewrite <- F1.
  apply replicated_ents_In in Hl. exact (Hcl e x kd comp (proj1 Hl) Hcin).
Qed.

(* ... in ticks: the change that is re-sent was first collected by a run whose tick lies after the tick of the
   acknowledged message (and is at most the tick of this run) *)
Theorem r1_step_ticks script y G tick dt cleanup ops parts y' fo vs k i info e m vals kd v :
  a_inv script y G -> tick_frames (script ++ [StSFrame tick dt cleanup ops parts]) < 2 ^ 31 ->
  sys_step y (StSFrame tick dt cleanup ops parts) = Ok (y', OSFrame fo vs) ->
  let G' := astep y G (StSFrame tick dt cleanup ops parts) in
  In (i, info) (ag_acked (G' k)) -> In e (mi_entities info) ->
  In m (mutates_for k (fo_clients fo)) -> In (e, vals) (m_body m) -> In (kd, v) vals ->
  exists m0 x madd comp tc,
    In (mit info, m0) (ag_sent (G' k)) /\ m_idx m0 = i /\ map fst (m_body m0) = mi_entities info /\
    In (e, x, madd) (replicated_ents (y_server y')) /\ In (kd, comp) (se_comps x) /\ v = c_val comp /\
    In (c_changed comp, tc) (ag_runs (G' k)) /\ m_tick m0 < tc /\ tc <= m_tick m.
Proof.
  intros Hi HB H G' Hack He Hm Hb Hv.
  destruct (r1_step _ _ _ _ _ _ _ _ _ _ _ _ _ _ _ _ _ _ _ Hi HB H Hack He Hm Hb Hv) as (x & madd & comp & Hl & Hc & Hval & Hlt & Hle).
  pose proof (a_inv_step _ _ _ _ _ _ Hi HB H) as Hi'. fold G' in Hi'.
  destruct (acked_is_sent _ _ _ k i info Hi' Hack) as (m0 & S1 & S2 & S3 & S4).
  pose proof (ai_runs _ _ _ Hi' k) as Hr.
  (* this run *)
  destruct (sframe_step_inv _ _ _ _ _ _ _ _ H) as (fo0 & vs0 & Eo & Ef). inversion Eo; subst fo0 vs0. clear Eo.
  assert (Hmsent : In (sv_now (y_server y), m) (ag_sent (G' k))).
  { unfold G'. cbn [astep]. rewrite Ef. destruct (find_client (y_server y') k) eqn:Ef'.
    - cbn [ag_frame ag_sent]. apply in_or_app. right. apply in_map. exact Hm.
    - exfalso. unfold G' in Hack. cbn [astep] in Hack. rewrite Ef, Ef' in Hack. destruct Hack. }
  pose proof (ro_sent _ _ Hr _ _ Hmsent) as Hrun.
  destruct (ro_bnd _ _ Hr _ _ Hrun) as [Hb1 _].
  destruct (ro_dense _ _ Hr (mit info) (m_tick m0) (c_changed comp) S4) as [tc Htc]; [lia|lia|].
  exists m0, x, madd, comp, tc. repeat split; auto.
  - exact (proj1 (ro_mono _ _ Hr _ _ _ _ S4 Htc) Hlt).
  - destruct (N.eq_dec (c_changed comp) (sv_now (y_server y))) as [E|E].
    + pose proof (proj2 (ro_mono _ _ Hr _ _ _ _ Htc Hrun) E). lia.
    + assert (L : c_changed comp < sv_now (y_server y)) by lia. pose proof (proj1 (ro_mono _ _ Hr _ _ _ _ Htc Hrun) L). lia.
Qed.

(* ================================================================== *)
(* 5. R2: re-sent until the acknowledgement                           *)
(* ================================================================== *)

Lemma sfc_bodies_nodup c s cl p : ents_wf s ->
  NoDup (map fst (concat (map m_body (co_mutates (snd (sfc_pure c s (sv_now s) cl p)))))).
Proof.
  intros Hwf. pose proof (send_for_client_eq c s (sv_now s) cl p) as Heq.
  destruct (sfc_pure c s (sv_now s) cl p) as [cl' out] eqn:Ep. cbn [snd].
  destruct (co_bad_partition out) eqn:Eb.
  - destruct (bad_partition_fallback _ _ _ _ _ _ _ Heq Eb) as [Hm Hb]. cbv zeta in Hm, Hb. rewrite Hm.
    destruct (changed_mutated_nodup s (sv_now s) cl Hwf) as [_ Hnd]. pose proof (Hb Hnd) as Hb'.
    destruct (mutated_set s (sv_now s) cl) as [|a t] eqn:Em.
    + destruct (cfg_track c); cbn; constructor.
    + change (NoDup (map fst (mut_body (a :: t) (map fst (a :: t)) ++ []))). rewrite app_nil_r, Hb'. exact Hnd.
  - exact (proj1 (proj2 (mutations_partitioned _ _ _ _ _ _ _ Heq Eb))).
Qed.

Theorem r2_step script y G tick dt cleanup ops parts y' fo vs k clp e x madd kd comp :
  a_inv script y G -> tick_frames (script ++ [StSFrame tick dt cleanup ops parts]) < 2 ^ 31 ->
  sys_step y (StSFrame tick dt cleanup ops parts) = Ok (y', OSFrame fo vs) -> fo_ran fo = true ->
  let pre := frame_pre (y_cfg y) (y_server y) tick dt cleanup ops in
  let G' := astep y G (StSFrame tick dt cleanup ops parts) in
  find_client pre k = Some clp -> sc_authorized clp = true ->
  In (e, x, madd) (replicated_ents pre) -> vis_state_of (sfc_vis1 pre clp) e <> VHidden ->
  In (kd, comp) (se_comps x) -> rate_of kd = EveryTick ->
  (forall T, acked_at (G' k) e T -> T < c_changed comp) ->
  (forall T, rebased_at (G k) e T -> T < c_changed comp) ->
  ((exists u en, In u (updates_for k (fo_clients fo)) /\ In (e, en) (u_changes u) /\ In (kd, c_val comp) en) \/
   (exists m en, In m (mutates_for k (fo_clients fo)) /\ In (e, en) (m_body m) /\ In (kd, c_val comp) en)) /\
  NoDup (map fst (concat (map m_body (mutates_for k (fo_clients fo))))).
Proof.
  intros Hi HB H Hran pre G' Hp Hau Hl Hvis Hc Hrate Hack Hreb.
  destruct (sframe_step_inv _ _ _ _ _ _ _ _ H) as (fo0 & vs0 & Eo & Ef). inversion Eo; subst fo0 vs0. clear Eo.
  set (s := y_server y) in *. set (s' := y_server y') in *. set (c := y_cfg y) in *.
  pose proof (ai_nodup _ _ _ Hi) as Hnd. fold s in Hnd.
  assert (Hmax : sv_now s < MAX_CHANGE_AGE).
  { pose proof (ai_now _ _ _ Hi) as Hn. fold s in Hn. rewrite tick_frames_snoc in HB. pose proof pow31_lt_max.
    destruct (sv_dirty s); destruct (is_tick_frame _); lia. }
  pose proof (frame_slot c s tick dt cleanup ops parts s' fo k Hnd Ef) as Hs. cbv zeta in Hs. fold pre in Hs.
  pose proof (frame_pre_find c s tick dt cleanup ops k) as Hrec. unfold rec_of in Hrec. fold pre in Hrec.
  destruct (find_client s k) as [cl|] eqn:Ek; [|congruence].
  destruct Hs as (clp0 & Ep & P1 & P2 & P3 & Hcase). rewrite Hp in Ep. inversion Ep; subst clp0. clear Ep.
  pose proof (tk_ok_frame c s dt cleanup k cl (G k) Hmax Ek (ai_tk _ _ _ Hi k cl Ek)) as Htk1. rewrite <- P3 in Htk1.
  destruct (frame_pre_fields c s tick dt cleanup ops) as (F1 & _). fold pre in F1.
  destruct Hcase as [(R1 & R2 & R3 & R4 & R5)|([R1|R1] & _)]; [|congruence|congruence].
  assert (Hwf : ents_wf pre).
  { destruct (frame_acks_fields c s tick dt cleanup) as (_ & _ & _ & A4).
    unfold pre, frame_pre. apply (ents_wf_same (fold_left apply_sop ops (frame_acks c s tick dt cleanup))); [reflexivity|].
    apply (Server_proofs.fold_left_inv _ ents_wf); [intros a op _ Ha; apply apply_sop_wf; exact Ha|].
    exact (ents_wf_same _ _ A4 (ai_wf _ _ _ Hi)). }
  assert (HG' : G' k = ag_frame (G k) (sv_now s) fo k (frame_acked s k)).
  { unfold G'. cbn [astep]. fold c s. rewrite Ef. fold s'. rewrite R3. reflexivity. }
  assert (Hstamp : forall t, mutation_tick (sc_ticks clp) e = Some t -> t < c_changed comp).
  { intros t Ht. destruct (tk_org _ _ _ Htk1 e t Ht) as [(i & info & A1 & A2 & A3)|(u & B1 & B2)].
    - apply Hack. exists i, info. rewrite HG'. cbn [ag_frame ag_acked]. auto.
    - apply Hreb. exists u. split; [exact B1|exact B2]. }
  rewrite R4, R5. rewrite <- F1. split; [|apply sfc_bodies_nodup; exact Hwf].
  destruct (sfc_resend_unless_covered c pre clp (part_for parts clp) e x madd kd comp Hwf Hl Hvis Hc Hrate Hstamp)
    as [(u & en & U1 & U2 & U3)|(m & en & M1 & M2 & M3)].
  - left. exists u, en. rewrite U1. cbn [opt_list]. split; [left; reflexivity|auto].
  - right. exists m, en. auto.
Qed.

(* the invariant from any state that satisfies it *)
Theorem a_inv_arun t : forall script y G y' G',
  a_inv script y G -> tick_frames (script ++ t) < 2 ^ 31 -> arun y G t = Ok (y', G') -> a_inv (script ++ t) y' G'.
Proof.
  induction t as [|st t IH]; intros script y G y' G' Hi HB H.
  - cbn in H. inversion H; subst. rewrite app_nil_r. exact Hi.
  - cbn [arun] in H. apply bind_ok in H. destruct H as [[y1 o] [E1 H]].
    replace (script ++ st :: t) with ((script ++ [st]) ++ t) in * by (rewrite <- app_assoc; reflexivity).
    apply (IH _ y1 (astep y G st)); [|exact HB|exact H].
    apply (a_inv_step _ _ _ _ _ o Hi); [|exact E1].
    assert (L : forall a b, tick_frames a <= tick_frames (a ++ b)).
    { intros a b. induction b as [|x b IHb] using rev_ind; [rewrite app_nil_r; lia|].
      rewrite app_assoc, tick_frames_snoc. destruct (is_tick_frame x); lia. }
    pose proof (L (script ++ [st]) t). lia.
Qed.

(* ================================================================== *)
(* 6. the theorems over runs from the initial state                   *)
(* ================================================================== *)

Section Runs.
  Variables (cfg0 : cfg) (nclients : N).
  Notation init := (sys_init cfg0 nclients).

  Theorem r1_run script y G tick dt cleanup ops parts y' fo vs k i info e m vals kd v :
    let fr := StSFrame tick dt cleanup ops parts in
    tick_frames (script ++ [fr]) < 2 ^ 31 -> arun init ags_empty script = Ok (y, G) ->
    sys_step y fr = Ok (y', OSFrame fo vs) ->
    In (i, info) (ag_acked (astep y G fr k)) -> In e (mi_entities info) ->
    In m (mutates_for k (fo_clients fo)) -> In (e, vals) (m_body m) -> In (kd, v) vals ->
    exists x madd comp, In (e, x, madd) (replicated_ents (y_server y')) /\ In (kd, comp) (se_comps x) /\ v = c_val comp /\
      mit info < c_changed comp /\ c_changed comp <= sv_now (y_server y).
  Proof.
    intros fr HB Ha. apply (r1_step script y G); [|exact HB].
    apply (a_inv_run cfg0 nclients script y G); [|exact Ha].
    unfold fr in HB. rewrite tick_frames_snoc in HB. destruct (is_tick_frame _); lia.
  Qed.

  Theorem r1_run_ticks script y G tick dt cleanup ops parts y' fo vs k i info e m vals kd v :
    let fr := StSFrame tick dt cleanup ops parts in
    tick_frames (script ++ [fr]) < 2 ^ 31 -> arun init ags_empty script = Ok (y, G) ->
    sys_step y fr = Ok (y', OSFrame fo vs) ->
    let G' := astep y G fr in
    In (i, info) (ag_acked (G' k)) -> In e (mi_entities info) ->
    In m (mutates_for k (fo_clients fo)) -> In (e, vals) (m_body m) -> In (kd, v) vals ->
    exists m0 x madd comp tc,
      In (mit info, m0) (ag_sent (G' k)) /\ m_idx m0 = i /\ map fst (m_body m0) = mi_entities info /\
      In (e, x, madd) (replicated_ents (y_server y')) /\ In (kd, comp) (se_comps x) /\ v = c_val comp /\
      In (c_changed comp, tc) (ag_runs (G' k)) /\ m_tick m0 < tc /\ tc <= m_tick m.
  Proof.
    intros fr HB Ha. apply (r1_step_ticks script y G); [|exact HB].
    apply (a_inv_run cfg0 nclients script y G); [|exact Ha].
    unfold fr in HB. rewrite tick_frames_snoc in HB. destruct (is_tick_frame _); lia.
  Qed.

  Theorem r2_run script y G tick dt cleanup ops parts y' fo vs k clp e x madd kd comp :
    let fr := StSFrame tick dt cleanup ops parts in
    tick_frames (script ++ [fr]) < 2 ^ 31 -> arun init ags_empty script = Ok (y, G) ->
    sys_step y fr = Ok (y', OSFrame fo vs) -> fo_ran fo = true ->
    let pre := frame_pre (y_cfg y) (y_server y) tick dt cleanup ops in
    let G' := astep y G fr in
    find_client pre k = Some clp -> sc_authorized clp = true ->
    In (e, x, madd) (replicated_ents pre) -> vis_state_of (sfc_vis1 pre clp) e <> VHidden ->
    In (kd, comp) (se_comps x) -> rate_of kd = EveryTick ->
    (forall T, acked_at (G' k) e T -> T < c_changed comp) ->
    (forall T, rebased_at (G k) e T -> T < c_changed comp) ->
    ((exists u en, In u (updates_for k (fo_clients fo)) /\ In (e, en) (u_changes u) /\ In (kd, c_val comp) en) \/
     (exists m en, In m (mutates_for k (fo_clients fo)) /\ In (e, en) (m_body m) /\ In (kd, c_val comp) en)) /\
    NoDup (map fst (concat (map m_body (mutates_for k (fo_clients fo))))).
  Proof.
    intros fr HB Ha. apply (r2_step script y G); [|exact HB].
    apply (a_inv_run cfg0 nclients script y G); [|exact Ha].
    unfold fr in HB. rewrite tick_frames_snoc in HB. destruct (is_tick_frame _); lia.
  Qed.

  (* the entity stays in the world the client is sent: what the premises of R2 about the state before
     `send_replication` mean for the state after the frame *)
  Theorem r2_state y tick dt cleanup ops parts y' fo vs :
    sys_step y (StSFrame tick dt cleanup ops parts) = Ok (y', OSFrame fo vs) -> fo_ran fo = true ->
    replicated_ents (y_server y') = replicated_ents (frame_pre (y_cfg y) (y_server y) tick dt cleanup ops) /\
    sv_now (y_server y') = sv_now (y_server y) + 1 /\ sv_last_run (y_server y') = sv_now (y_server y).
  Proof.
    intros H Hr. destruct (sframe_step_inv _ _ _ _ _ _ _ _ H) as (fo0 & vs0 & Eo & Ef). inversion Eo; subst fo0 vs0.
    destruct (server_frame_cases _ _ _ _ _ _ _ _ _ Ef) as [_ [(_ & _ & _ & _ & Q5 & Q6 & Q7)|(Q1 & _)]]; [|congruence].
    split; [exact (replicated_ents_ext _ _ Q6)|auto].
  Qed.
End Runs.

(* a ticking frame of a running server runs `send_replication` *)
Theorem ticking_frame_runs c s dt (cleanup : bool) ops parts s' fo :
  sv_running s = true -> server_frame c s true dt cleanup ops parts = Ok (s', fo) -> fo_ran fo = true.
Proof.
  intros Hr H. unfold server_frame in H. fold (frame_acks c s true dt cleanup) in H.
  assert (F : sv_running (frame_acks c s true dt cleanup) = true /\ sv_dirty (frame_acks c s true dt cleanup) = true).
  { unfold frame_acks. cbn [with_time_tick sv_running]. rewrite Hr. cbv zeta. destruct cleanup; cbn; rewrite orb_true_r; auto. }
  destruct F as [F1 F2].
  destruct (ops_flags ops (frame_acks c s true dt cleanup)) as (B1 & _ & B3 & _).
  set (s3 := fold_left apply_sop ops (frame_acks c s true dt cleanup)) in *.
  rewrite B1, F1 in H. change (sv_dirty (buffer_removals s3)) with (sv_dirty s3) in H. rewrite B3, F2 in H.
  rewrite send_replication_eq in H. cbn [bind] in H. inversion H. reflexivity.
Qed.

(* the ghost of a slot only grows while the slot's record exists: a processed acknowledgement (a message sent) stays in
   it until the session ends *)
Theorem ghost_kept y G st y' o k :
  sys_step y st = Ok (y', o) -> find_client (y_server y') k <> None ->
  incl (ag_acked (G k)) (ag_acked (astep y G st k)) /\ incl (ag_sent (G k)) (ag_sent (astep y G st k)) /\
  incl (ag_upds (G k)) (ag_upds (astep y G st k)) /\ incl (ag_runs (G k)) (ag_runs (astep y G st k)).
Proof.
  intros H Hf.
  assert (Hsame : astep y G st k = G k -> incl (ag_acked (G k)) (ag_acked (astep y G st k)) /\ incl (ag_sent (G k)) (ag_sent (astep y G st k)) /\
                  incl (ag_upds (G k)) (ag_upds (astep y G st k)) /\ incl (ag_runs (G k)) (ag_runs (astep y G st k))).
  { intros ->. repeat split; apply incl_refl. }
  destruct st as [| |slot max|slot|slot|tick dt cleanup ops parts|slot ops|slot s2c ch w|slot s2c ch w]; try (apply Hsame; reflexivity).
  - cbn [astep]. cbn [sys_step] in H. destruct (al_get slot (y_clients y)) as [c0|]; [|repeat split; apply incl_refl].
    unfold ag_upd. destruct (k =? slot) eqn:E; [|repeat split; apply incl_refl].
    exfalso. injection H as <- _. apply Hf. cbn [clear_link set_link set_client set_server y_server].
    unfold find_client, disconnect_client. cbn [sv_clients]. apply find_filter_self.
    intros x Hx. assert (sc_slot x = slot) by lia. destruct (sc_slot x =? slot) eqn:E2; [reflexivity|lia].
  - destruct (sframe_step_inv _ _ _ _ _ _ _ _ H) as (fo & vs & _ & Ef). cbn [astep]. rewrite Ef.
    destruct (find_client (y_server y') k); [|congruence]. unfold ag_frame. cbn [ag_acked ag_sent ag_upds ag_runs].
    repeat split; apply incl_appl, incl_refl.
Qed.
