(* C07 over whole-system runs (`Sys.run` from `sys_init`): authorization.
     1. what a server frame does to the authorization of the records, whom its outputs are for
     2. the link invariant: the link of a slot without an authorized record holds no replication message
     3. runs: A1 (outputs only for authorized slots; an unauthorized connection is never sent anything and its
        client holds nothing), the first update message after authorization is the complete visible state
        (structure AND values)
     4. A3: a record becomes authorized only by an explicit step
   Pinned in Properties/C07E.v. *)
From Coq Require Import ZifyBool ZifyN Permutation.
From RV Require Import Lib.Res Repl.ClientTicks Repl.ClientTicks_proofs Repl.World Vis.Visibility Repl.Server Repl.ServerSpec Repl.Server_proofs
  Repl.Client Repl.Sys Repl.StructSpec Repl.StructOps_proofs Repl.StructRun_proofs Repl.StructVisSpec Repl.StructVis_proofs Repl.StructVisOps_proofs
  Repl.StructVisRun_proofs Repl.ClientSys_proofs Repl.StructE2E_proofs Repl.StructE2EMut_proofs Repl.StructE2EVis_proofs
  Repl.StructE2ESess_proofs Repl.Session_proofs Repl.MtRunSrv_proofs Repl.MtRunSpec Repl.MtRun_proofs Repl.MtRunThm_proofs.
Open Scope N_scope.
Ltac Zify.zify_post_hook ::= Z.div_mod_to_equations.
Arguments N.add : simpl never. Arguments N.mul : simpl never. Arguments N.pow : simpl never.
Arguments N.ltb : simpl never. Arguments N.leb : simpl never. Arguments N.div : simpl never.
Arguments N.modulo : simpl never. Arguments N.sub : simpl never. Arguments N.eqb : simpl never.

(* ================================================================== *)
(* 1. a server frame and the authorization of the records             *)
(* ================================================================== *)

Lemma ops_keep ops : forall s, NoDup (map sc_slot (sv_clients s)) ->
  Forall2 cl_keep (sv_clients s) (sv_clients (fold_left apply_sop ops s)).
Proof.
  induction ops as [|op t IH]; intros s Hnd; cbn [fold_left].
  - apply Forall2_same, cl_keep_refl.
  - pose proof (apply_sop_keep s op Hnd) as H1.
    eapply (Forall2_trans cl_keep cl_keep_trans); [exact H1|]. apply IH. rewrite (cl_keep_slots _ _ H1). exact Hnd.
Qed.

(* the records before `send_replication` / the reset of a frame: same slots, same authorization *)
Lemma frame_pre_keep c s tick dt (cleanup : bool) ops : NoDup (map sc_slot (sv_clients s)) ->
  let s1 := with_time_tick s tick dt in
  let s2 := if sv_running s1 then (let r := receive_acks s1 in if cleanup then cleanup_acks c r else r) else s1 in
  Forall2 cl_keep (sv_clients s) (sv_clients (fold_left apply_sop ops s2)).
Proof.
  intros Hnd s1 s2.
  assert (H12 : Forall2 cl_keep (sv_clients s) (sv_clients s2)).
  { unfold s2. destruct (sv_running s1); [|apply Forall2_same, cl_keep_refl]. cbv zeta. destruct cleanup.
    - eapply (Forall2_trans cl_keep cl_keep_trans); [apply (receive_acks_keep s1)|apply cleanup_acks_keep].
    - apply (receive_acks_keep s1). }
  eapply (Forall2_trans cl_keep cl_keep_trans); [exact H12|]. apply ops_keep. rewrite (cl_keep_slots _ _ H12). exact Hnd.
Qed.

Lemma has_auth_keep l l' slot : Forall2 cl_keep l l' ->
  ((exists cl, In cl l /\ sc_slot cl = slot /\ sc_authorized cl = true) <->
   (exists cl, In cl l' /\ sc_slot cl = slot /\ sc_authorized cl = true)).
Proof.
  intros H. split.
  - intros [cl [Hin [Hs Ha]]]. destruct (Forall2_In_l _ _ _ _ H Hin) as [cl' [Hin' [K1 [K2 _]]]].
    exists cl'. split; [exact Hin'|]. split; congruence.
  - intros [cl' [Hin' [Hs Ha]]]. destruct (Forall2_In_r _ _ _ _ H Hin') as [cl [Hin [K1 [K2 _]]]].
    exists cl. split; [exact Hin|]. split; congruence.
Qed.

(* one frame: the flags, the slots, the authorization of every slot, and whom the outputs are for *)
Theorem frame_auth c s tick dt (cleanup : bool) ops parts s' fo :
  NoDup (map sc_slot (sv_clients s)) -> server_frame c s tick dt cleanup ops parts = Ok (s', fo) ->
  sv_running s' = sv_running s /\
  NoDup (map sc_slot (sv_clients s')) /\
  (sv_running s = true -> forall slot, has_auth s slot <-> has_auth s' slot) /\
  (sv_running s = true -> forall slot, has_rec s slot <-> has_rec s' slot) /\
  (forall slot, has_auth s' slot -> has_auth s slot) /\
  (forall slot, has_rec s' slot -> has_rec s slot) /\
  (sv_running s = false -> fo_clients fo = [] /\ fo_ran fo = false) /\
  (forall o, In o (fo_clients fo) -> has_auth s (co_slot o) /\ has_auth s' (co_slot o)) /\
  (forall slot, has_rec s' slot -> (has_auth s slot <-> has_auth s' slot)).
Proof.
  intros Hnd H. pose proof (frame_pre_keep c s tick dt cleanup ops Hnd) as Hk. cbv zeta in Hk.
  pose proof (server_frame_ticks_v c s tick dt cleanup ops parts s' fo H) as (_ & Hrun & _).
  unfold server_frame in H.
  set (s1 := with_time_tick s tick dt) in *.
  set (s2 := if sv_running s1 then (let r := receive_acks s1 in if cleanup then cleanup_acks c r else r) else s1) in *.
  set (s3 := fold_left apply_sop ops s2) in *.
  assert (R3 : sv_running s3 = sv_running s).
  { destruct (fold_apply_sop_running ops s2) as [A _]. unfold s3. rewrite A. unfold s2.
    destruct (sv_running s1) eqn:E; [|reflexivity]. cbv zeta. destruct cleanup; reflexivity. }
  assert (Hnd3 : NoDup (map sc_slot (sv_clients s3))) by (rewrite (cl_keep_slots _ _ Hk); exact Hnd).
  split; [exact Hrun|].
  destruct (sv_running s3) eqn:Er3.
  - change (sv_dirty (buffer_removals s3)) with (sv_dirty s3) in H. destruct (sv_dirty s3).
    + destruct (send_replication c (buffer_removals s3) parts) as [[s4 outs]| |] eqn:Esr; cbn [bind] in H; try discriminate.
      injection H as <- <-. cbn [fo_clients fo_ran set_last_running sv_clients].
      destruct (send_replication_only_authorized _ _ _ _ _ Esr) as [Hauth H34].
      change (sv_clients (buffer_removals s3)) with (sv_clients s3) in Hauth, H34.
      assert (Hs4 : map sc_slot (sv_clients s4) = map sc_slot (sv_clients s3)).
      { clear - H34. induction H34 as [|a b l l' Hab _ IH]; cbn [map]; [reflexivity|]. destruct Hab as [-> _]. rewrite IH. reflexivity. }
      assert (Hfwd : forall slot, has_auth s slot -> (exists cl, In cl (sv_clients s4) /\ sc_slot cl = slot /\ sc_authorized cl = true)).
      { intros slot Ha. apply (has_auth_keep _ _ slot Hk) in Ha. destruct Ha as [cl [Hin [Hs Ha]]].
        destruct (Forall2_In_l _ _ _ _ H34 Hin) as [cl' [Hin' [K1 [_ K3]]]]. exists cl'. split; [exact Hin'|]. split; [congruence|auto]. }
      assert (Hbwd : forall slot, (exists cl, In cl (sv_clients s4) /\ sc_slot cl = slot /\ sc_authorized cl = true) -> has_auth s slot).
      { intros slot [cl' [Hin' [Hs Ha]]]. apply (has_auth_keep _ _ slot Hk).
        destruct (Forall2_In_r _ _ _ _ H34 Hin') as [cl [Hin [K1 [K2 _]]]]. exists cl. split; [exact Hin|]. split; [congruence|].
        destruct (sc_authorized cl) eqn:E; [reflexivity|]. rewrite (K2 eq_refl) in Ha. congruence. }
      assert (Hrec : forall slot, has_rec s slot <-> (exists cl, In cl (sv_clients s4) /\ sc_slot cl = slot)).
      { intros slot. rewrite has_rec_slots. rewrite <- (cl_keep_slots _ _ Hk), <- Hs4. rewrite in_map_iff.
        split; intros [cl [A B]]; exists cl; auto. }
      split; [rewrite Hs4; exact Hnd3|].
      split; [intros _ slot; split; [apply Hfwd|apply Hbwd]|].
      split; [intros _ slot; apply Hrec|].
      split; [exact Hbwd|]. split; [intros slot Hr; apply Hrec; exact Hr|].
      split; [intros Hr; congruence|].
      split; [|intros slot _; split; [apply Hfwd|apply Hbwd]].
      intros o Ho. destruct (Hauth o Ho) as [cl [Hin [Hs Ha]]].
      assert (Hbefore : has_auth s (co_slot o)) by (apply (has_auth_keep _ _ (co_slot o) Hk); exists cl; auto).
      split; [exact Hbefore|apply Hfwd; exact Hbefore].
    + cbn [bind] in H. injection H as <- <-. cbn [fo_clients fo_ran].
      assert (Hrs : forall slot, has_rec s slot <-> has_rec (set_last_running (buffer_removals s3)) slot).
      { intros slot. rewrite !has_rec_slots. change (sv_clients (set_last_running (buffer_removals s3))) with (sv_clients s3).
        rewrite (cl_keep_slots _ _ Hk). reflexivity. }
      split; [exact Hnd3|].
      split; [intros _ slot; apply (has_auth_keep _ _ slot Hk)|].
      split; [intros _ slot; apply Hrs|].
      split; [intros slot; apply (has_auth_keep _ _ slot Hk)|].
      split; [intros slot; apply Hrs|].
      split; [intros Hr; congruence|]. split; [intros o []|]. intros slot _. apply (has_auth_keep _ _ slot Hk).
  - cbn [bind] in H. injection H as <- <-. cbn [fo_clients fo_ran].
    assert (Hcl : sv_clients (set_last_running (clear_dirty (age_events (if sv_last_running s3 then reset s3 else s3))))
                  = if sv_last_running s3 then [] else sv_clients s3) by (destruct (sv_last_running s3); reflexivity).
    unfold has_auth, has_rec. rewrite Hcl.
    split; [destruct (sv_last_running s3); [constructor|exact Hnd3]|].
    split; [intros Hr; congruence|]. split; [intros Hr; congruence|].
    split; [intros slot Ha; destruct (sv_last_running s3); [destruct Ha as [? [[] _]]|apply (has_auth_keep _ _ slot Hk); exact Ha]|].
    split; [intros slot Ha; destruct (sv_last_running s3); [destruct Ha as [? [[] _]]|]|].
    { apply has_rec_slots. rewrite <- (cl_keep_slots _ _ Hk). apply has_rec_slots. exact Ha. }
    split; [auto|]. split; [intros o []|].
    intros slot Hr. destruct (sv_last_running s3); [destruct Hr as [? [[] _]]|apply (has_auth_keep _ _ slot Hk)].
Qed.

(* ================================================================== *)
(* 2. the link of a slot without an authorized record is quiet        *)
(* ================================================================== *)

(* no replication message (update or mutate) is queued for the slot *)
Definition quiet (y : sys) (slot : N) : Prop := l_upd (get_link y slot) = [] /\ l_mut (get_link y slot) = [].

Record link_inv (y : sys) : Prop := mkLinkInv {
  li_nodup : NoDup (map sc_slot (sv_clients (y_server y)));
  li_stopped : sv_running (y_server y) = false -> forall slot, quiet y slot;
  li_unauth : forall slot, ~ has_auth (y_server y) slot -> quiet y slot
}.

Lemma link_inv_transfer y y' :
  NoDup (map sc_slot (sv_clients (y_server y'))) ->
  (sv_running (y_server y') = false -> sv_running (y_server y) = false) ->
  (forall slot, has_auth (y_server y) slot -> has_auth (y_server y') slot) ->
  (forall slot, quiet y slot -> quiet y' slot) ->
  link_inv y -> link_inv y'.
Proof.
  intros Hnd Hr Ha Hq [I1 I2 I3]. split; [exact Hnd| |].
  - intros Hs slot. apply Hq, I2, Hr, Hs.
  - intros slot Hn. apply Hq, I3. intros H. apply Hn, Ha, H.
Qed.

Lemma updates_for_none slot outs : (forall o, In o outs -> co_slot o <> slot) ->
  updates_for slot outs = [] /\ mutates_for slot outs = [].
Proof.
  induction outs as [|o t IH]; intros H; [split; reflexivity|].
  unfold updates_for, mutates_for in *. cbn [flat_map].
  assert (E : (co_slot o =? slot) = false) by (pose proof (H o (or_introl eq_refl)); lia). rewrite E. cbn [app].
  apply IH. intros o' Ho'. apply H. right. exact Ho'.
Qed.

Lemma deliver_acks_fold_fields slot picked : forall s,
  sv_clients (fold_left (fun s idxs => deliver_acks s slot idxs) picked s) = sv_clients s /\
  sv_running (fold_left (fun s idxs => deliver_acks s slot idxs) picked s) = sv_running s.
Proof.
  induction picked as [|i t IH]; intros s; cbn [fold_left]; [auto|].
  destruct (IH (deliver_acks s slot i)) as [A B]. rewrite A, B. unfold deliver_acks.
  destruct (sv_running s) eqn:E; [|split; [reflexivity|exact E]]. destruct (find_client s slot); split; try reflexivity; exact E.
Qed.

Lemma NoDup_app_snoc {A} (l : list A) x : NoDup l -> ~ In x l -> NoDup (l ++ [x]).
Proof.
  intros Hl Hx. apply NoDup_rev in Hl. rewrite <- (rev_involutive (l ++ [x])). apply NoDup_rev.
  rewrite rev_app_distr. cbn [rev app]. constructor; [|exact Hl]. intros H. apply Hx. apply in_rev. exact H.
Qed.

Lemma find_none_not_rec s slot : find_client s slot = None -> ~ has_rec s slot.
Proof. intros H Hr. apply has_rec_find in Hr. congruence. Qed.

Lemma upd_client_slots s cnew : map sc_slot (sv_clients (update_client s cnew)) = map sc_slot (sv_clients s).
Proof.
  unfold update_client, set_clients. cbn [sv_clients]. rewrite map_map. apply map_ext. intros cl.
  destruct (sc_slot cl =? sc_slot cnew) eqn:E; [lia|reflexivity].
Qed.

Theorem link_step y st y' o : link_inv y -> sys_step y st = Ok (y', o) -> link_inv y'.
Proof.
  intros Hinv H. pose proof Hinv as [I1 I2 I3].
  destruct st as [| |slot max|slot|slot|tick dt cleanup ops parts|slot ops|slot s2c ch w|slot s2c ch w].
  - (* StStart *)
    cbn [sys_step] in H. inversion H; subst y' o. apply (link_inv_transfer y); try exact Hinv; auto. discriminate.
  - (* StStop *)
    destruct (stop_step y) as [y2 [E [Hs [_ [_ Hl]]]]]. rewrite E in H. inversion H; subst y2 o.
    assert (Hq : forall slot, quiet y' slot) by (intros slot; unfold quiet; rewrite Hl; split; reflexivity).
    split; [rewrite Hs; exact I1|intros _; exact Hq|intros slot _; apply Hq].
  - (* StConnect *)
    cbn [sys_step] in H.
    destruct (find_client (y_server y) slot) as [r|] eqn:Ef; [inversion H; subst; exact Hinv|].
    destruct (al_get slot (y_clients y)) as [cl|]; [|inversion H; subst; exact Hinv].
    destruct (sv_running (y_server y)) eqn:Er; [|inversion H; subst; exact Hinv].
    inversion H; subst y' o. clear H.
    assert (Ec : connect_client (y_cfg y) (y_server y) slot max =
                 set_clients (y_server y) (sv_clients (y_server y) ++
                   [match cfg_auth (y_cfg y) with AuthNone => authorized_client (y_cfg y) slot max | _ => mkSC slot false max ct_default None [] end])).
    { unfold connect_client. rewrite Er, Ef. reflexivity. }
    apply (link_inv_transfer y); try exact Hinv; cbn [set_client set_server y_server].
    + rewrite Ec. cbn [set_clients sv_clients]. rewrite map_app. cbn [map].
      assert (Hs : sc_slot (match cfg_auth (y_cfg y) with AuthNone => authorized_client (y_cfg y) slot max | _ => mkSC slot false max ct_default None [] end) = slot)
        by (destruct (cfg_auth (y_cfg y)); reflexivity).
      rewrite Hs. apply NoDup_app_snoc; [exact I1|]. intros Hin. apply (find_none_not_rec _ _ Ef). apply has_rec_slots. exact Hin.
    + rewrite Ec. cbn. congruence.
    + intros sl [r [Hin Hr]]. exists r. split; [|exact Hr]. rewrite Ec. cbn [set_clients sv_clients]. apply in_or_app. left. exact Hin.
    + auto.
  - (* StAuthorize *)
    cbn [sys_step] in H. inversion H; subst y' o. clear H.
    apply (link_inv_transfer y); try exact Hinv; cbn [set_server y_server]; unfold authorize_client.
    + destruct (find_client (y_server y) slot) as [r|]; [|exact I1]. destruct (sc_authorized r); [exact I1|].
      rewrite upd_client_slots. exact I1.
    + destruct (find_client (y_server y) slot) as [r|]; [|auto]. destruct (sc_authorized r); auto.
    + intros sl Ha. destruct (find_client (y_server y) slot) as [r|]; [|exact Ha]. destruct (sc_authorized r); [exact Ha|].
      destruct Ha as [r1 [Hin [Hs Ha]]]. unfold has_auth, update_client, set_clients. cbn [sv_clients].
      set (cnew := authorized_client (y_cfg y) slot (sc_max_size r)).
      exists (if sc_slot r1 =? sc_slot cnew then cnew else r1). split.
      * apply (in_map (fun c' => if sc_slot c' =? sc_slot cnew then cnew else c')). exact Hin.
      * change (sc_slot cnew) with slot. destruct (sc_slot r1 =? slot) eqn:E.
        -- split; [change (sc_slot cnew) with slot; lia|reflexivity].
        -- split; [exact Hs|exact Ha].
    + auto.
  - (* StDisconnect *)
    cbn [sys_step] in H. destruct (al_get slot (y_clients y)) as [cl|]; [|inversion H; subst; exact Hinv].
    inversion H; subst y' o. clear H. unfold clear_link.
    assert (Hq : forall sl, sl = slot \/ quiet y sl ->
              quiet (set_link (set_client (set_server y (disconnect_client (y_server y) slot)) slot (set_status cl Disconnected)) slot link_empty) sl).
    { intros sl Hc. unfold quiet. rewrite get_link_set_link. destruct (sl =? slot) eqn:E; [split; reflexivity|].
      destruct Hc as [->|Hc]; [lia|exact Hc]. }
    split; cbn [set_link set_client set_server y_server].
    + unfold disconnect_client. cbn [sv_clients]. apply NoDup_map_filter. exact I1.
    + intros Hr sl. apply Hq. right. apply I2. exact Hr.
    + intros sl Hn. apply Hq. destruct (N.eq_dec sl slot) as [->|Hne]; [left; reflexivity|right].
      apply I3. intros [r [Hin [Hs Ha]]]. apply Hn. exists r. split; [|auto].
      unfold disconnect_client. cbn [sv_clients]. apply filter_In. split; [exact Hin|]. apply negb_true_iff. lia.
  - (* StSFrame *)
    cbn [sys_step] in H.
    destruct (server_frame (y_cfg y) (y_server y) tick dt cleanup ops parts) as [[s' fo]| |] eqn:Ef; cbn [bind] in H; try discriminate.
    inversion H; subst y' o. clear H.
    destruct (frame_auth _ _ _ _ _ _ _ _ _ I1 Ef) as (F1 & F2 & F3 & _ & F5 & _ & F7 & F8 & _).
    assert (Hsrv : y_server (enqueue_outputs (set_server y s') (fo_clients fo)) = s')
      by (rewrite (proj1 (proj2 (enqueue_fields _ _))); reflexivity).
    assert (Hq : forall sl, quiet y sl -> (forall o, In o (fo_clients fo) -> co_slot o <> sl) ->
              quiet (enqueue_outputs (set_server y s') (fo_clients fo)) sl).
    { intros sl [Q1 Q2] Hno. destruct (updates_for_none sl _ Hno) as [U1 U2]. unfold quiet.
      rewrite enqueue_lupd, enqueue_lmut, U1, U2, !app_nil_r. split; [exact Q1|exact Q2]. }
    split; rewrite ?Hsrv.
    + exact F2.
    + intros Hr sl. rewrite F1 in Hr. apply Hq; [apply I2; exact Hr|]. rewrite (proj1 (F7 Hr)). intros o' [].
    + intros sl Hn. apply Hq.
      * destruct (sv_running (y_server y)) eqn:Er; [|apply I2; reflexivity]. apply I3. intros Ha. apply Hn, (F3 eq_refl), Ha.
      * intros o' Ho' E. apply Hn. rewrite <- E. apply F8. exact Ho'.
  - (* StCFrame *)
    cbn [sys_step] in H. destruct (al_get slot (y_clients y)) as [cl|]; [|inversion H; subst; exact Hinv].
    destruct (client_frame cl ops) as [[cl' cfo]| |]; cbn [bind] in H; try discriminate.
    inversion H; subst y' o. clear H.
    match goal with |- link_inv (set_server ?a _) => set (y2 := a) end.
    assert (Hy2 : y_server y2 = y_server y)
      by (unfold y2; destruct (cfo_acks cfo); [reflexivity|destruct (cl_status cl'); reflexivity]).
    assert (Hl2 : forall sl, l_upd (get_link y2 sl) = l_upd (get_link y sl) /\ l_mut (get_link y2 sl) = l_mut (get_link y sl)).
    { intros sl. unfold y2. destruct (cfo_acks cfo); [split; reflexivity|]. destruct (cl_status cl'); try (split; reflexivity).
      rewrite get_link_set_link. destruct (sl =? slot) eqn:E; [|split; reflexivity].
      assert (sl = slot) by lia. subst sl. split; reflexivity. }
    apply (link_inv_transfer y); try exact Hinv; cbn [set_server y_server].
    + cbn [publish_pre sv_clients]. rewrite Hy2. exact I1.
    + cbn [publish_pre sv_running]. rewrite Hy2. auto.
    + intros sl Ha. unfold has_auth in *. cbn [publish_pre sv_clients]. rewrite Hy2. exact Ha.
    + intros sl [Q1 Q2]. unfold quiet. change (get_link (set_server ?a ?b) sl) with (get_link a sl).
      destruct (Hl2 sl) as [-> ->]. auto.
  - (* StDeliver *)
    cbn [sys_step] in H. destruct (al_get slot (y_clients y)) as [cl|]; [|inversion H; subst; exact Hinv].
    destruct s2c.
    + destruct (ch =? 0).
      * destruct (take w (l_upd (get_link y slot))) as [picked rest] eqn:Et. inversion H; subst y' o. clear H.
        apply (link_inv_transfer y); try exact Hinv; auto.
        intros sl Hq. unfold quiet in *. change (get_link (set_client ?a ?b ?c) sl) with (get_link a sl). rewrite get_link_set_link.
        destruct (sl =? slot) eqn:E; [|exact Hq]. assert (sl = slot) by lia. subst sl. destruct Hq as [Q1 Q2]. cbn [l_upd l_mut].
        rewrite Q1, take_nil in Et. inversion Et; subst. auto.
      * destruct (ch =? 1); [|inversion H; subst; exact Hinv].
        destruct (take w (l_mut (get_link y slot))) as [picked rest] eqn:Et. inversion H; subst y' o. clear H.
        apply (link_inv_transfer y); try exact Hinv; auto.
        intros sl Hq. unfold quiet in *. change (get_link (set_client ?a ?b ?c) sl) with (get_link a sl). rewrite get_link_set_link.
        destruct (sl =? slot) eqn:E; [|exact Hq]. assert (sl = slot) by lia. subst sl. destruct Hq as [Q1 Q2]. cbn [l_upd l_mut].
        rewrite Q2, take_nil in Et. inversion Et; subst. auto.
    + destruct (ch =? 0); [|inversion H; subst; exact Hinv].
      destruct (take w (l_ack (get_link y slot))) as [picked rest] eqn:Et. inversion H; subst y' o. clear H.
      destruct (deliver_acks_fold_fields slot picked (y_server y)) as [A B].
      apply (link_inv_transfer y); try exact Hinv; cbn [set_server y_server].
      * rewrite A. exact I1.
      * rewrite B. auto.
      * intros sl Ha. unfold has_auth in *. rewrite A. exact Ha.
      * intros sl Hq. unfold quiet in *. change (get_link (set_server ?a ?b) sl) with (get_link a sl). rewrite get_link_set_link.
        destruct (sl =? slot) eqn:E; [|exact Hq]. assert (sl = slot) by lia. subst sl. exact Hq.
  - (* StDrop *)
    cbn [sys_step] in H. destruct (al_get slot (y_clients y)) as [cl|]; [|inversion H; subst; exact Hinv].
    destruct s2c.
    + destruct (ch =? 0).
      * destruct (take w (l_upd (get_link y slot))) as [picked rest] eqn:Et. inversion H; subst y' o. clear H.
        apply (link_inv_transfer y); try exact Hinv; auto.
        intros sl Hq. unfold quiet in *. change (get_link (set_client ?a ?b ?c) sl) with (get_link a sl). rewrite get_link_set_link.
        destruct (sl =? slot) eqn:E; [|exact Hq]. assert (sl = slot) by lia. subst sl. destruct Hq as [Q1 Q2]. cbn [l_upd l_mut].
        rewrite Q1, take_nil in Et. inversion Et; subst. auto.
      * destruct (ch =? 1); [|inversion H; subst; exact Hinv].
        destruct (take w (l_mut (get_link y slot))) as [picked rest] eqn:Et. inversion H; subst y' o. clear H.
        apply (link_inv_transfer y); try exact Hinv; auto.
        intros sl Hq. unfold quiet in *. change (get_link (set_client ?a ?b ?c) sl) with (get_link a sl). rewrite get_link_set_link.
        destruct (sl =? slot) eqn:E; [|exact Hq]. assert (sl = slot) by lia. subst sl. destruct Hq as [Q1 Q2]. cbn [l_upd l_mut].
        rewrite Q2, take_nil in Et. inversion Et; subst. auto.
    + destruct (ch =? 0); [|inversion H; subst; exact Hinv].
      destruct (take w (l_ack (get_link y slot))) as [picked rest] eqn:Et. inversion H; subst y' o. clear H.
      apply (link_inv_transfer y); try exact Hinv; auto.
      intros sl Hq. unfold quiet in *. change (get_link (set_server ?a ?b) sl) with (get_link a sl). rewrite get_link_set_link.
      destruct (sl =? slot) eqn:E; [|exact Hq]. assert (sl = slot) by lia. subst sl. exact Hq.
Qed.

(* ================================================================== *)
(* 3. runs                                                            *)
(* ================================================================== *)

Lemma has_auth_find s slot : NoDup (map sc_slot (sv_clients s)) ->
  (has_auth s slot <-> exists r, find_client s slot = Some r /\ sc_authorized r = true).
Proof.
  intros Hnd. split.
  - intros [r [Hin [Hs Ha]]]. exists r. split; [|exact Ha]. rewrite <- Hs. apply find_client_of_in; assumption.
  - intros [r [Hf Ha]]. destruct (find_client_in _ _ _ Hf) as [Hin Hs]. exists r. auto.
Qed.

Lemma not_auth_find s slot : NoDup (map sc_slot (sv_clients s)) ->
  (~ has_auth s slot <-> forall r, find_client s slot = Some r -> sc_authorized r = false).
Proof.
  intros Hnd. rewrite (has_auth_find s slot Hnd). split.
  - intros Hn r Hf. destruct (sc_authorized r) eqn:E; [|reflexivity]. exfalso. apply Hn. exists r. auto.
  - intros H [r [Hf Ha]]. rewrite (H r Hf) in Ha. discriminate.
Qed.

Lemma get_link_sys_init c n slot : get_link (sys_init c n) slot = link_empty.
Proof.
  unfold get_link, sys_init. cbn [y_links]. generalize (map N.of_nat (seq 0 (N.to_nat n))) as l.
  induction l as [|a t IH]; cbn [map al_get]; [reflexivity|]. destruct (a =? slot); [reflexivity|exact IH].
Qed.

Lemma link_init c n : link_inv (sys_init c n).
Proof.
  assert (Hq : forall slot, quiet (sys_init c n) slot) by (intros slot; unfold quiet; rewrite get_link_sys_init; split; reflexivity).
  split; [constructor|intros _; exact Hq|intros slot _; apply Hq].
Qed.

Theorem link_run script : forall y y', link_inv y -> run y script = Ok y' -> link_inv y'.
Proof.
  induction script as [|st t IH]; intros y y' Hinv H; cbn [run] in H.
  - inversion H; subst. exact Hinv.
  - destruct (sys_step y st) as [[y1 o]| |] eqn:E; cbn [bind] in H; try discriminate.
    exact (IH y1 y' (link_step y st y1 o Hinv E) H).
Qed.

Corollary link_run_init c n script y : run (sys_init c n) script = Ok y -> link_inv y.
Proof. apply link_run, link_init. Qed.

(* A1, first part: every update / mutate message in the output of a server frame of a run is addressed to a slot whose
   record is authorized, before the frame and after it; the queues of every other slot are left alone *)
Theorem run_frame_only_authorized c n script y tick dt (cleanup : bool) ops parts y' fo vs :
  run (sys_init c n) script = Ok y ->
  sys_step y (StSFrame tick dt cleanup ops parts) = Ok (y', OSFrame fo vs) ->
  (forall o, In o (fo_clients fo) ->
     exists r r', find_client (y_server y) (co_slot o) = Some r /\ sc_authorized r = true /\
                  find_client (y_server y') (co_slot o) = Some r' /\ sc_authorized r' = true) /\
  (forall slot, l_upd (get_link y' slot) = l_upd (get_link y slot) ++ updates_for slot (fo_clients fo) /\
                l_mut (get_link y' slot) = l_mut (get_link y slot) ++ mutates_for slot (fo_clients fo)) /\
  (forall slot, (forall r', find_client (y_server y') slot = Some r' -> sc_authorized r' = false) ->
     updates_for slot (fo_clients fo) = [] /\ mutates_for slot (fo_clients fo) = [] /\
     l_upd (get_link y' slot) = [] /\ l_mut (get_link y' slot) = []).
Proof.
  intros Hrun H. pose proof (link_run_init c n script y Hrun) as Hinv.
  pose proof (link_step y _ y' _ Hinv H) as Hinv'. destruct Hinv as [I1 _ _].
  cbn [sys_step] in H.
  destruct (server_frame (y_cfg y) (y_server y) tick dt cleanup ops parts) as [[s' fo0]| |] eqn:Ef; cbn [bind] in H; try discriminate.
  inversion H; subst y' fo0 vs. clear H.
  destruct (frame_auth _ _ _ _ _ _ _ _ _ I1 Ef) as (F1 & F2 & _ & _ & _ & _ & _ & F8 & _).
  assert (Hsrv : y_server (enqueue_outputs (set_server y s') (fo_clients fo)) = s')
    by (rewrite (proj1 (proj2 (enqueue_fields _ _))); reflexivity).
  rewrite Hsrv in *. split; [|split].
  - intros o Ho. destruct (F8 o Ho) as [A B]. apply (has_auth_find _ _ I1) in A. apply (has_auth_find _ _ F2) in B.
    destruct A as [r [A1 A2]]. destruct B as [r' [B1 B2]]. exists r, r'. auto.
  - intros slot. rewrite enqueue_lupd, enqueue_lmut. split; reflexivity.
  - intros slot Hn. apply (not_auth_find _ _ F2) in Hn.
    assert (Hno : forall o, In o (fo_clients fo) -> co_slot o <> slot).
    { intros o Ho E. apply Hn. rewrite <- E. apply F8. exact Ho. }
    destruct (updates_for_none slot _ Hno) as [U1 U2]. split; [exact U1|]. split; [exact U2|].
    apply (li_unauth _ Hinv'). rewrite Hsrv. exact Hn.
Qed.

(* A1, second part: at every moment of every run the link of a slot whose record is not authorized (or that has no
   record) holds no update and no mutate message - so no delivery step can hand it one, however long this lasts *)
Theorem run_unauthorized_link_quiet c n script y slot :
  run (sys_init c n) script = Ok y ->
  (forall r, find_client (y_server y) slot = Some r -> sc_authorized r = false) ->
  l_upd (get_link y slot) = [] /\ l_mut (get_link y slot) = [].
Proof.
  intros Hrun Hn. pose proof (link_run_init c n script y Hrun) as Hinv.
  apply (li_unauth _ Hinv). apply (not_auth_find _ _ (li_nodup _ Hinv)). exact Hn.
Qed.

(* ... and a delivery (or drop) step on such a link changes neither the link nor the client *)
Theorem run_unauthorized_delivery_noop c n script y slot ch w (deliver : bool) :
  run (sys_init c n) script = Ok y ->
  (forall r, find_client (y_server y) slot = Some r -> sc_authorized r = false) ->
  exists y', sys_step y (if deliver then StDeliver slot true ch w else StDrop slot true ch w) = Ok (y', ONone) /\
    y_server y' = y_server y /\ (forall sl, al_get sl (y_clients y') = al_get sl (y_clients y)) /\
    (forall sl, l_upd (get_link y' sl) = l_upd (get_link y sl) /\ l_mut (get_link y' sl) = l_mut (get_link y sl) /\
                l_ack (get_link y' sl) = l_ack (get_link y sl)).
Proof.
  intros Hrun Hn. destruct (run_unauthorized_link_quiet c n script y slot Hrun Hn) as [Q1 Q2].
  assert (Hsame : forall y0 cl0 lk, al_get slot (y_clients y) = Some cl0 -> y0 = set_client (set_link y slot lk) slot cl0 ->
            l_upd lk = l_upd (get_link y slot) -> l_mut lk = l_mut (get_link y slot) -> l_ack lk = l_ack (get_link y slot) ->
            y_server y0 = y_server y /\ (forall sl, al_get sl (y_clients y0) = al_get sl (y_clients y)) /\
            (forall sl, l_upd (get_link y0 sl) = l_upd (get_link y sl) /\ l_mut (get_link y0 sl) = l_mut (get_link y sl) /\
                        l_ack (get_link y0 sl) = l_ack (get_link y sl))).
  { intros y0 cl0 lk Hc -> E1 E2 E3. split; [reflexivity|]. split.
    - intros sl. cbn [set_client y_clients set_link]. destruct (N.eq_dec sl slot) as [->|Hne].
      + rewrite al_get_insert_same. symmetry. exact Hc.
      + rewrite al_get_insert_other by exact Hne. reflexivity.
    - intros sl. change (get_link (set_client ?a ?b ?c) sl) with (get_link a sl). rewrite get_link_set_link.
      destruct (sl =? slot) eqn:E; [|auto]. assert (sl = slot) by lia. subst sl. auto. }
  destruct deliver; cbn [sys_step]; destruct (al_get slot (y_clients y)) as [cl|] eqn:Ec;
    try (eexists; split; [reflexivity|]; split; [reflexivity|]; split; intros; auto; fail).
  - destruct (ch =? 0).
    + rewrite Q1, take_nil. eexists. split; [reflexivity|]. cbn [fold_left]. apply (Hsame _ cl _ eq_refl eq_refl); cbn; auto.
    + destruct (ch =? 1); [|eexists; split; [reflexivity|]; split; [reflexivity|]; split; intros; auto].
      rewrite Q2, take_nil. eexists. split; [reflexivity|]. cbn [fold_left]. apply (Hsame _ cl _ eq_refl eq_refl); cbn; auto.
  - destruct (ch =? 0).
    + rewrite Q1, take_nil. eexists. split; [reflexivity|]. apply (Hsame _ cl _ eq_refl eq_refl); cbn; auto.
    + destruct (ch =? 1); [|eexists; split; [reflexivity|]; split; [reflexivity|]; split; intros; auto].
      rewrite Q2, take_nil. eexists. split; [reflexivity|]. apply (Hsame _ cl _ eq_refl eq_refl); cbn; auto.
Qed.

(* ================================================================== *)
(* 4. the first update message: structure and values                  *)
(* ================================================================== *)

(* one frame in which `send_replication` runs: a replicated entity that is visible to the record after the frame
   and that the slot has not been sent (it is not in the ghost structure) is in this frame's update message with ALL
   its components and their current values *)
Theorem gframe_whole_v c g tick dt (cleanup : bool) ops parts s' fo :
  ginv_v g -> server_frame c (g_srv g) tick dt cleanup ops parts = Ok (s', fo) -> fo_ran fo = true ->
  forall cl', In cl' (sv_clients s') -> sc_authorized cl' = true ->
  forall e x, repl_get s' e = Some x -> al_get e (sent_of (sc_slot cl') (g_sent g)) = None ->
    vis_visible (sc_vis cl') e = true ->
    exists u, upd_for (sc_slot cl') (fo_clients fo) = Some u /\ In (e, all_comps x) (u_changes u).
Proof.
  intros [Hok Hnd Hidle Hcl Hdom] H Hran cl' Hin' Ha' e x Hr Hn Hv. set (s := g_srv g) in *. set (old := g_sent g) in *.
  unfold server_frame in H. change (sv_running (with_time_tick s tick dt)) with (sv_running s) in H.
  destruct (sv_running s) eqn:Erun.
  - destruct (frame_running_pre_v c s tick dt cleanup ops Hok Erun Hnd) as [Hok3 [Hev3 [Hrun3 [Hlr3 [Hsame3 Hp3]]]]].
    cbv zeta in Hok3, Hev3, Hrun3, Hlr3, Hsame3, Hp3.
    set (s3 := fold_left apply_sop ops
                 (if cleanup then cleanup_acks c (receive_acks (with_time_tick s tick dt))
                  else receive_acks (with_time_tick s tick dt))) in *.
    cbv zeta in H.
    replace (fold_left apply_sop ops
               (if cleanup then cleanup_acks c (receive_acks (with_time_tick s tick dt))
                else receive_acks (with_time_tick s tick dt))) with s3 in H by reflexivity.
    rewrite Hrun3 in H. set (s3' := buffer_removals s3) in *.
    assert (Hnd3 : NoDup (map sc_slot (sv_clients s3'))) by (rewrite (cl_keep_slots _ _ Hsame3); exact Hnd).
    assert (Hcl3 : forall cl3, In cl3 (sv_clients s3') -> sc_authorized cl3 = true ->
              pending_ok_v s3' cl3 (sent_of (sc_slot cl3) old)).
    { intros cl3 Hin Ha. destruct (Forall2_In_r _ _ _ _ Hsame3 Hin) as [cl [Hcl0 Hs]].
      apply (pending_ok_v_srv s); [exact Hp3|].
      exact (proj1 (client_inv_transfer_v s old cl cl3 (Hcl cl Hcl0) Hs Ha)). }
    destruct (sv_dirty s3') eqn:Ed.
    + rewrite send_replication_eq in H. cbn [bind] in H. injection H as <- <-. cbn [fo_ran fo_clients] in *.
      cbn [set_last_running set_after_send sv_clients] in Hin'. rewrite map_map in Hin'.
      apply in_map_iff in Hin'. destruct Hin' as [cl [Ecl Hin]].
      unfold client_result_pure in Ecl. destruct (sc_authorized cl) eqn:Ea; cbn [fst] in Ecl; [|subst cl'; congruence].
      pose proof (send_for_client_eq c s3' (sv_now s3') cl (part_for parts cl)) as Hs.
      destruct (sfc_pure c s3' (sv_now s3') cl (part_for parts cl)) as [cl2 out] eqn:Epure. cbn [fst] in Ecl. subst cl2.
      assert (Hslot : sc_slot cl' = sc_slot cl) by (apply (f_equal fst) in Epure; cbn [fst sfc_pure] in Epure; rewrite <- Epure; reflexivity).
      rewrite Hslot in Hn |- *.
      assert (Hr3 : repl_get s3' e = Some x) by exact Hr.
      destruct (unknown_visible_is_sent_whole c s3' (sv_now s3') cl (part_for parts cl) cl' out (sent_of (sc_slot cl) old) e x
                  (sb_wf _ (proj1 Hok3)) (Hcl3 cl Hin Ea) Hs Hr3 Hn Hv) as [u [Hu Hc]].
      exists u. split; [|exact Hc].
      change (sv_clients s3) with (sv_clients s3'). rewrite (upd_for_outs c s3' parts _ cl Hnd3 Hin Ea), Epure. exact Hu.
    + cbn [bind] in H. injection H as <- <-. cbn [fo_ran] in Hran. discriminate.
  - destruct (sv_running (fold_left apply_sop ops (with_time_tick s tick dt))) eqn:E3.
    + exfalso. destruct (fold_apply_sop_running ops (with_time_tick s tick dt)) as [A _]. rewrite A in E3. cbn in E3. congruence.
    + cbn [bind] in H. injection H as <- <-. cbn [fo_ran] in Hran. discriminate.
Qed.

(* the ghost of a run *)
Lemma erun_s_ginv c n script y gs : erun_s (sys_init c n) [] script = Ok (y, gs) -> ginv_v (mkG (y_server y) gs).
Proof. intros H. exact (grun_inv_v c _ ginit _ ginit_inv_v (erun_s_grun_init c n script y gs H)). Qed.

Lemma run_cfg script : forall y y', run y script = Ok y' -> y_cfg y' = y_cfg y.
Proof.
  induction script as [|st t IH]; intros y y' H; cbn [run] in H; [inversion H; reflexivity|].
  destruct (sys_step y st) as [[y1 o]| |] eqn:E; cbn [bind] in H; try discriminate.
  rewrite (IH y1 y' H). exact (sys_step_cfg y st y1 o E).
Qed.

(* a slot whose record is not authorized has not been sent anything in its session *)
Theorem run_unauthorized_ghost_empty c n script y gs slot :
  erun_s (sys_init c n) [] script = Ok (y, gs) ->
  (forall r, find_client (y_server y) slot = Some r -> sc_authorized r = false) -> sent_of slot gs = [].
Proof.
  intros H Hn. pose proof (erun_s_ginv c n script y gs H) as Hg.
  apply (sent_of_noauth_v (mkG (y_server y) gs) slot Hg). apply (not_auth_find _ _ (gv_slots _ Hg)). exact Hn.
Qed.

(* the update message of a step for a slot *)
Definition step_upd (o : out) (slot : N) : option update_msg :=
  match o with OSFrame fo _ => upd_for slot (fo_clients fo) | _ => None end.

(* how the ghost of a slot whose record is authorized after the step evolves: the update message of the step, if any,
   is applied to it; nothing else changes it *)
Theorem ghost_step_sent_of y gs st y' o slot :
  ginv_v (mkG (y_server y) gs) -> sys_step y st = Ok (y', o) -> has_auth (y_server y') slot ->
  sent_of slot (ghost_step_s y gs st) = abs_send (sent_of slot gs) (step_upd o slot).
Proof.
  intros Hg H Ha.
  pose proof (grun_inv_v (y_cfg y) _ _ _ Hg (step_grun_s y gs st y' o H)) as Hg'. pose proof (gv_slots _ Hg') as Hnd'. cbn [g_srv] in Hnd'.
  assert (Hsync : forall s' outs, s' = y_server y' -> (forall o0, In o0 outs -> co_slot o0 = slot -> has_auth s' slot) ->
            sent_of slot (sync_sent s' gs outs) = abs_send (sent_of slot gs) (upd_for slot outs)).
  { intros s' outs -> Ho. apply (sync_sent_of_slot_v (mkG (y_server y) gs) (y_server y') outs slot Hg Hnd'); [intros _; exact Ha|exact Ho]. }
  destruct st as [| |sl max|sl|sl|tick dt cleanup ops parts|sl ops|sl s2c ch w|sl s2c ch w];
    cbn [ghost_step_s ghost_step sys_step] in *.
  - inversion H; subst. reflexivity.
  - inversion H; subst. reflexivity.
  - destruct (find_client (y_server y) sl); [inversion H; subst; reflexivity|].
    destruct (al_get sl (y_clients y)); [|inversion H; subst; reflexivity].
    destruct (sv_running (y_server y)); inversion H; subst; [|reflexivity]. cbn [step_upd].
    apply Hsync; [reflexivity|intros o0 []].
  - inversion H; subst. cbn [step_upd]. apply Hsync; [reflexivity|intros o0 []].
  - destruct (al_get sl (y_clients y)); inversion H; subst; [|reflexivity]. cbn [step_upd].
    apply Hsync; [reflexivity|intros o0 []].
  - destruct (server_frame (y_cfg y) (y_server y) tick dt cleanup ops parts) as [[s' fo]| |] eqn:Ef; cbn [bind] in H; try discriminate.
    inversion H; subst y' o. cbn [step_upd].
    assert (Hsrv : y_server (enqueue_outputs (set_server y s') (fo_clients fo)) = s')
      by (rewrite (proj1 (proj2 (enqueue_fields _ _))); reflexivity).
    apply Hsync; [symmetry; exact Hsrv|]. intros o0 Ho0 E. rewrite Hsrv in Ha. exact Ha.
  - destruct (al_get sl (y_clients y)); [|inversion H; subst; reflexivity].
    destruct (client_frame c ops) as [[c' cfo]| |]; cbn [bind] in H; try discriminate. inversion H; subst. reflexivity.
  - destruct o; try reflexivity. exfalso.
    destruct (al_get sl (y_clients y)); [|inversion H]. destruct s2c; [destruct (ch =? 0); [|destruct (ch =? 1)]|destruct (ch =? 0)];
      try (inversion H; fail); destruct (take w _); inversion H.
  - destruct o; try reflexivity. exfalso.
    destruct (al_get sl (y_clients y)); [|inversion H]. destruct s2c; [destruct (ch =? 0); [|destruct (ch =? 1)]|destruct (ch =? 0)];
      try (inversion H; fail); destruct (take w _); inversion H.
Qed.

(* A1, third part: the first update message.  In a frame in which `send_replication` runs, a slot whose record is
   authorized after the frame and that has not been sent anything yet in its session (ghost = []: true from the
   authorization on, run_unauthorized_ghost_empty + ghost_step_sent_of) is sent the complete state visible to it:
   the update message builds exactly the visible structure, and it carries every visible replicated entity with
   all its components and their current values *)
Theorem run_first_update_complete c n script y gs tick dt (cleanup : bool) ops parts y' fo vs slot r' :
  erun_s (sys_init c n) [] script = Ok (y, gs) ->
  sys_step y (StSFrame tick dt cleanup ops parts) = Ok (y', OSFrame fo vs) -> fo_ran fo = true ->
  find_client (y_server y') slot = Some r' -> sc_authorized r' = true -> sent_of slot gs = [] ->
  struct_equiv (abs_send [] (upd_for slot (fo_clients fo))) (struct_vis (y_server y') r') /\
  (forall e x, repl_get (y_server y') e = Some x -> vis_visible (sc_vis r') e = true ->
     exists u, upd_for slot (fo_clients fo) = Some u /\ u_tick u = sv_tick (y_server y') /\ In (e, all_comps x) (u_changes u)).
Proof.
  intros Hrun H Hran Hf Ha Hs. pose proof (erun_s_ginv c n script y gs Hrun) as Hg.
  cbn [sys_step] in H.
  destruct (server_frame (y_cfg y) (y_server y) tick dt cleanup ops parts) as [[s' fo0]| |] eqn:Ef; cbn [bind] in H; try discriminate.
  inversion H; subst y' fo0 vs. clear H.
  assert (Hsrv : y_server (enqueue_outputs (set_server y s') (fo_clients fo)) = s')
    by (rewrite (proj1 (proj2 (enqueue_fields _ _))); reflexivity).
  rewrite Hsrv in *. destruct (find_client_in _ _ _ Hf) as [Hin Hsl]. subst slot.
  destruct (gframe_ok_v (y_cfg y) (mkG (y_server y) gs) tick dt cleanup ops parts s' fo Hg Ef) as [_ [G2 _]].
  split.
  - specialize (G2 Hran r' Hin Ha). cbn [g_sent] in G2. rewrite Hs in G2. exact G2.
  - intros e x Hr Hv.
    destruct (gframe_whole_v (y_cfg y) (mkG (y_server y) gs) tick dt cleanup ops parts s' fo Hg Ef Hran r' Hin Ha e x Hr) as [u [Hu Hc]];
      [cbn [g_sent]; rewrite Hs; reflexivity|exact Hv|].
    exists u. split; [exact Hu|]. split; [|exact Hc].
    destruct (upd_for_in _ _ _ Hu) as [o [Ho [_ Hou]]].
    unfold server_frame in Ef.
    destruct (sv_running (fold_left apply_sop ops _)); [destruct (sv_dirty _)|]; cbn [bind] in Ef.
    + destruct (send_replication _ _ parts) as [[s4 outs]| |] eqn:Esr; cbn [bind] in Ef; try discriminate.
      injection Ef as <- <-. cbn [fo_clients] in Ho. rewrite send_replication_eq in Esr. injection Esr as <- <-.
      unfold outs_of in Ho. apply in_flat_map in Ho. destruct Ho as [rr [Hrr Ho]]. apply in_map_iff in Hrr. destruct Hrr as [cl0 [<- _]].
      unfold client_result_pure in Ho. destruct (sc_authorized cl0); [|destruct Ho]. cbn [snd] in Ho. destruct Ho as [<- | []].
      cbn [sfc_pure snd co_update] in Hou. destruct (sfc_has_upd _ _ cl0); [|discriminate]. inversion Hou; subst u. reflexivity.
    + injection Ef as <- <-. destruct Ho.
    + injection Ef as <- <-. destruct Ho.
Qed.

(* ---------- between the authorization and the first update message ---------- *)

Definition not_sframe (st : step) : bool := match st with StSFrame _ _ _ _ _ => false | _ => true end.

Lemma step_out_frame y st y' fo vs : sys_step y st = Ok (y', OSFrame fo vs) -> not_sframe st = false.
Proof.
  intros H. destruct st as [| |sl max|sl|sl|tick dt cleanup ops parts|sl ops|sl s2c ch w|sl s2c ch w]; try reflexivity; exfalso;
    cbn [sys_step] in H.
  - inversion H.
  - inversion H.
  - destruct (find_client (y_server y) sl); [inversion H|]. destruct (al_get sl (y_clients y)); [|inversion H].
    destruct (sv_running (y_server y)); inversion H.
  - inversion H.
  - destruct (al_get sl (y_clients y)); inversion H.
  - destruct (al_get sl (y_clients y)); [|inversion H].
    destruct (client_frame c ops) as [[c' cfo]| |]; cbn [bind] in H; inversion H.
  - destruct (al_get sl (y_clients y)); [|inversion H]. destruct s2c; [destruct (ch =? 0); [|destruct (ch =? 1)]|destruct (ch =? 0)];
      try (inversion H; fail); destruct (take w _); inversion H.
  - destruct (al_get sl (y_clients y)); [|inversion H]. destruct s2c; [destruct (ch =? 0); [|destruct (ch =? 1)]|destruct (ch =? 0)];
      try (inversion H; fail); destruct (take w _); inversion H.
Qed.

Lemma has_auth_dec s slot : NoDup (map sc_slot (sv_clients s)) -> has_auth s slot \/ ~ has_auth s slot.
Proof.
  intros Hnd. destruct (find_client s slot) as [r|] eqn:E.
  - destruct (sc_authorized r) eqn:Ea; [left; apply (has_auth_find _ _ Hnd); exists r; auto|].
    right. apply (not_auth_find _ _ Hnd). intros r0 E0. congruence.
  - right. apply (not_auth_find _ _ Hnd). intros r0 E0. congruence.
Qed.

(* steps that are not server frames leave an empty ghost empty *)
Lemma ghost_stays_empty mid : forall y gs y2 gs2 slot,
  ginv_v (mkG (y_server y) gs) -> erun_s y gs mid = Ok (y2, gs2) -> forallb not_sframe mid = true ->
  sent_of slot gs = [] -> sent_of slot gs2 = [] /\ ginv_v (mkG (y_server y2) gs2).
Proof.
  induction mid as [|st t IH]; intros y gs y2 gs2 slot Hg H Hnf Hs; cbn [erun_s] in H.
  - inversion H; subst. auto.
  - destruct (sys_step y st) as [[y1 o]| |] eqn:E; cbn [bind] in H; try discriminate.
    cbn [forallb] in Hnf. apply andb_prop in Hnf. destruct Hnf as [N1 N2].
    pose proof (grun_inv_v (y_cfg y) _ _ _ Hg (step_grun_s y gs st y1 o E)) as Hg1.
    apply (IH y1 _ y2 gs2 slot Hg1 H N2).
    destruct (has_auth_dec (y_server y1) slot (gv_slots _ Hg1)) as [Ha|Hn].
    + rewrite (ghost_step_sent_of y gs st y1 o slot Hg E Ha), Hs.
      destruct o as [|fo vs| |]; try reflexivity. rewrite (step_out_frame y st y1 fo vs E) in N1. discriminate.
    + exact (sent_of_noauth_v _ slot Hg1 Hn).
Qed.

(* the same without a ghost: at some moment the slot has no authorized record (it is not connected, or connected and
   not authorized).  Whatever happens next short of a server frame (connect, `StAuthorize`, deliveries, client frames,
   acknowledgements, even a disconnect and a re-connect of the slot ...), the next server frame in which
   `send_replication` runs sends the slot, if its record is authorized then, the complete visible state *)
Theorem run_first_frame_after_unauthorized c n pre y0 slot mid y2 tick dt (cleanup : bool) ops parts y' fo vs r' :
  run (sys_init c n) pre = Ok y0 ->
  (forall r, find_client (y_server y0) slot = Some r -> sc_authorized r = false) ->
  run y0 mid = Ok y2 -> forallb not_sframe mid = true ->
  sys_step y2 (StSFrame tick dt cleanup ops parts) = Ok (y', OSFrame fo vs) -> fo_ran fo = true ->
  find_client (y_server y') slot = Some r' -> sc_authorized r' = true ->
  struct_equiv (abs_send [] (upd_for slot (fo_clients fo))) (struct_vis (y_server y') r') /\
  (forall e x, repl_get (y_server y') e = Some x -> vis_visible (sc_vis r') e = true ->
     exists u, upd_for slot (fo_clients fo) = Some u /\ u_tick u = sv_tick (y_server y') /\ In (e, all_comps x) (u_changes u)).
Proof.
  intros Hpre Hna Hmid Hnf Hstep Hran Hf' Ha'.
  destruct (run_erun_s pre (sys_init c n) [] y0 Hpre) as [gs0 E0].
  destruct (run_erun_s _ y0 gs0 y2 Hmid) as [gs2 E2].
  pose proof (run_unauthorized_ghost_empty c n pre y0 gs0 slot E0 Hna) as Hs0.
  destruct (ghost_stays_empty mid y0 gs0 y2 gs2 slot (erun_s_ginv c n pre y0 gs0 E0) E2 Hnf Hs0) as [Hs2 _].
  assert (E : erun_s (sys_init c n) [] (pre ++ mid) = Ok (y2, gs2)) by (rewrite erun_s_app, E0; exact E2).
  exact (run_first_update_complete c n _ y2 gs2 tick dt cleanup ops parts y' fo vs slot r' E Hstep Hran Hf' Ha' Hs2).
Qed.

(* in particular: the first such frame after the `StAuthorize` step that authorized the record *)
Corollary run_first_frame_after_authorize c n pre y0 slot r mid y2 tick dt (cleanup : bool) ops parts y' fo vs r' :
  run (sys_init c n) pre = Ok y0 ->
  find_client (y_server y0) slot = Some r -> sc_authorized r = false ->
  run y0 (StAuthorize slot :: mid) = Ok y2 -> forallb not_sframe mid = true ->
  sys_step y2 (StSFrame tick dt cleanup ops parts) = Ok (y', OSFrame fo vs) -> fo_ran fo = true ->
  find_client (y_server y') slot = Some r' -> sc_authorized r' = true ->
  struct_equiv (abs_send [] (upd_for slot (fo_clients fo))) (struct_vis (y_server y') r') /\
  (forall e x, repl_get (y_server y') e = Some x -> vis_visible (sc_vis r') e = true ->
     exists u, upd_for slot (fo_clients fo) = Some u /\ u_tick u = sv_tick (y_server y') /\ In (e, all_comps x) (u_changes u)).
Proof.
  intros Hpre Hf Hna Hmid Hnf. apply (run_first_frame_after_unauthorized c n pre y0 slot (StAuthorize slot :: mid) y2); try assumption.
  - intros r0 Hr0. congruence.
Qed.

(* ================================================================== *)
(* 5. the mutate messages of an unauthorized connection               *)
(* ================================================================== *)

Definition mg_quiet (s : server) (G : mghosts) : Prop :=
  forall slot, ~ has_auth s slot -> mg_sent (G slot) = [] /\ mg_lost (G slot) = [].

(* steps that are neither a disconnect nor a server frame keep every authorized record *)
Lemma step_auth_mono y st y' o : sys_step y st = Ok (y', o) ->
  match st with StDisconnect _ | StSFrame _ _ _ _ _ => False | _ => True end ->
  forall slot, has_auth (y_server y) slot -> has_auth (y_server y') slot.
Proof.
  intros H Hst slot Ha.
  destruct st as [| |sl max|sl|sl|tick dt cleanup ops parts|sl ops|sl s2c ch w|sl s2c ch w]; try destruct Hst; cbn [sys_step] in H.
  - inversion H; subst. exact Ha.
  - inversion H; subst. exact Ha.
  - destruct (find_client (y_server y) sl) eqn:Ef; [inversion H; subst; exact Ha|].
    destruct (al_get sl (y_clients y)); [|inversion H; subst; exact Ha].
    destruct (sv_running (y_server y)) eqn:Er; inversion H; subst; [|exact Ha]. cbn [set_client set_server y_server].
    unfold connect_client. rewrite Er, Ef. destruct Ha as [r [Hin Hr]]. exists r. split; [|exact Hr].
    cbn [set_clients sv_clients]. apply in_or_app. left. exact Hin.
  - inversion H; subst. cbn [set_server y_server]. unfold authorize_client.
    destruct (find_client (y_server y) sl) as [r|]; [|exact Ha]. destruct (sc_authorized r); [exact Ha|].
    destruct Ha as [r1 [Hin [Hs Ha]]]. unfold has_auth, update_client, set_clients. cbn [sv_clients].
    set (cnew := authorized_client (y_cfg y) sl (sc_max_size r)).
    exists (if sc_slot r1 =? sc_slot cnew then cnew else r1). split.
    + apply (in_map (fun c' => if sc_slot c' =? sc_slot cnew then cnew else c')). exact Hin.
    + change (sc_slot cnew) with sl. destruct (sc_slot r1 =? sl) eqn:E.
      * split; [change (sc_slot cnew) with sl; lia|reflexivity].
      * split; [exact Hs|exact Ha].
  - destruct (al_get sl (y_clients y)); [|inversion H; subst; exact Ha].
    destruct (client_frame c ops) as [[c' cfo]| |]; cbn [bind] in H; try discriminate. inversion H; subst.
    cbn [set_server y_server]. unfold has_auth in *. cbn [publish_pre sv_clients].
    destruct (cfo_acks cfo); [exact Ha|]. destruct (cl_status c'); exact Ha.
  - destruct (al_get sl (y_clients y)); [|inversion H; subst; exact Ha].
    destruct s2c; [destruct (ch =? 0); [|destruct (ch =? 1)]|destruct (ch =? 0)];
      try (inversion H; subst; exact Ha; fail); destruct (take w _) as [picked rest]; inversion H; subst; try exact Ha.
    cbn [set_server y_server]. unfold has_auth in *. rewrite (proj1 (deliver_acks_fold_fields sl picked (y_server y))). exact Ha.
  - destruct (al_get sl (y_clients y)); [|inversion H; subst; exact Ha].
    destruct s2c; [destruct (ch =? 0); [|destruct (ch =? 1)]|destruct (ch =? 0)];
      try (inversion H; subst; exact Ha; fail); destruct (take w _) as [picked rest]; inversion H; subst; exact Ha.
Qed.

Lemma mg_upd_same G slot g : mg_upd G slot g slot = g.
Proof. unfold mg_upd. rewrite N.eqb_refl. reflexivity. Qed.
Lemma mg_upd_other G slot g k : k <> slot -> mg_upd G slot g k = G k.
Proof. intros H. unfold mg_upd. destruct (k =? slot) eqn:E; [lia|reflexivity]. Qed.

Lemma mg_quiet_step y G st y' o : link_inv y -> mg_quiet (y_server y) G -> sys_step y st = Ok (y', o) ->
  mg_quiet (y_server y') (mstep y G st).
Proof.
  intros Hinv Hq H.
  assert (Hmono : match st with StDisconnect _ | StSFrame _ _ _ _ _ => False | _ => True end ->
                  forall G', (forall k, mg_sent (G' k) = mg_sent (G k) /\ mg_lost (G' k) = mg_lost (G k)) -> mg_quiet (y_server y') G').
  { intros Hst G' HG k Hn. destruct (HG k) as [-> ->]. apply Hq. intros Ha. apply Hn. exact (step_auth_mono y st y' o H Hst k Ha). }
  destruct st as [| |sl max|sl|sl|tick dt cleanup ops parts|sl ops|sl s2c ch w|sl s2c ch w]; cbn [mstep].
  - apply Hmono; auto.
  - apply Hmono; auto.
  - apply Hmono; auto.
  - apply Hmono; auto.
  - (* StDisconnect *)
    intros k Hn. destruct (N.eq_dec k sl) as [->|Hne]; [rewrite mg_upd_same; split; reflexivity|].
    rewrite (mg_upd_other _ _ _ _ Hne). apply Hq. intros [r [Hin [Hs Ha]]]. apply Hn.
    cbn [sys_step] in H. destruct (al_get sl (y_clients y)); inversion H; subst; [|exists r; auto].
    exists r. split; [|auto]. cbn [clear_link set_link set_client set_server y_server]. unfold disconnect_client. cbn [sv_clients].
    apply filter_In. split; [exact Hin|]. apply negb_true_iff. lia.
  - (* StSFrame *)
    cbn [sys_step] in H.
    destruct (server_frame (y_cfg y) (y_server y) tick dt cleanup ops parts) as [[s' fo]| |] eqn:Ef; cbn [bind] in H; try discriminate.
    inversion H; subst y' o. clear H.
    assert (Hsrv : y_server (enqueue_outputs (set_server y s') (fo_clients fo)) = s')
      by (rewrite (proj1 (proj2 (enqueue_fields _ _))); reflexivity).
    rewrite Hsrv. destruct (frame_auth _ _ _ _ _ _ _ _ _ (li_nodup _ Hinv) Ef) as (_ & _ & _ & _ & _ & _ & _ & F8 & F9).
    intros k Hn. destruct (find_client s' k) as [r|] eqn:Efk; [|split; reflexivity].
    assert (Hr : has_rec s' k) by (apply has_rec_find; congruence).
    destruct (Hq k) as [Q1 Q2]; [intros Ha; apply Hn, (F9 k Hr), Ha|].
    cbn [mg_add_sent mg_sent mg_lost]. rewrite Q1. split; [|exact Q2]. cbn [app].
    apply (updates_for_none k (fo_clients fo)). intros o' Ho' E. apply Hn. rewrite <- E. apply F8. exact Ho'.
  - (* StCFrame *)
    apply Hmono; [exact I|]. intros k. destruct (al_get sl (y_clients y)) as [c|]; [|auto].
    destruct (cl_status c).
    + destruct (cl_last_not_disconnected c); [|auto]. destruct (N.eq_dec k sl) as [->|Hne];
        [rewrite mg_upd_same; split; reflexivity|rewrite (mg_upd_other _ _ _ _ Hne); auto].
    + destruct (client_frame c ops) as [[c' out]| |]; [|auto|auto]. destruct (N.eq_dec k sl) as [->|Hne];
        [rewrite mg_upd_same; split; reflexivity|rewrite (mg_upd_other _ _ _ _ Hne); auto].
  - apply Hmono; auto.
  - (* StDrop *)
    destruct s2c; [|apply Hmono; auto]. destruct (al_get sl (y_clients y)) as [c|] eqn:Ec; [|apply Hmono; auto].
    destruct (ch =? 1) eqn:Ech; [|apply Hmono; auto].
    intros k Hn. assert (Hnk : ~ has_auth (y_server y) k).
    { intros Ha. apply Hn. exact (step_auth_mono y _ y' o H I k Ha). }
    destruct (Hq k Hnk) as [Q1 Q2]. destruct (N.eq_dec k sl) as [->|Hne]; [|rewrite (mg_upd_other _ _ _ _ Hne); auto].
    rewrite mg_upd_same. cbn [mg_add_lost mg_sent mg_lost]. split; [exact Q1|].
    rewrite (proj2 (li_unauth _ Hinv sl Hnk)), take_nil. cbn [fst]. rewrite app_nil_r. exact Q2.
Qed.

Lemma mg_quiet_run script : forall y G y' G', link_inv y -> mg_quiet (y_server y) G ->
  mrun y G script = Ok (y', G') -> mg_quiet (y_server y') G'.
Proof.
  induction script as [|st t IH]; intros y G y' G' Hinv Hq H; cbn [mrun] in H.
  - inversion H; subst. exact Hq.
  - destruct (sys_step y st) as [[y1 o]| |] eqn:E; cbn [bind] in H; try discriminate.
    exact (IH y1 _ y' G' (link_step y st y1 o Hinv E) (mg_quiet_step y G st y1 o Hinv Hq E) H).
Qed.

(* the mutate messages sent to (and dropped from the link of) a slot whose record is not authorized: none *)
Theorem run_unauthorized_mutate_ghost c n script y G slot :
  mrun (sys_init c n) mgs_empty script = Ok (y, G) ->
  (forall r, find_client (y_server y) slot = Some r -> sc_authorized r = false) ->
  mg_sent (G slot) = [] /\ mg_lost (G slot) = [].
Proof.
  intros H Hn. pose proof (link_run_init c n script y (mrun_run _ _ _ _ _ H)) as Hinv.
  apply (mg_quiet_run script (sys_init c n) mgs_empty y G (link_init c n)); [intros k _; split; reflexivity|exact H|].
  apply (not_auth_find _ _ (li_nodup _ Hinv)). exact Hn.
Qed.

(* A1, the client side of the unauthorized period.  For a script with the premises of C03F / C12E: a connected client
   whose server-side record is not authorized holds the replication state of a client that was never sent anything:
   nothing received, nothing buffered, nothing applied (empty structure), nothing on its way *)
Theorem run_unauthorized_client_untouched c n script y slot cl :
  script_okf script = true -> parts_small script = true -> tick_frames script < 2 ^ 31 ->
  run (sys_init c n) script = Ok y -> al_get slot (y_clients y) = Some cl ->
  mode_of script slot = MLive -> cl_status cl = Connected ->
  (forall r, find_client (y_server y) slot = Some r -> sc_authorized r = false) ->
  cl_inbox_upd cl = [] /\ cl_inbox_mut cl = [] /\ cl_buffered cl = [] /\
  struct_equiv (ClientStructSpec.client_struct cl) [] /\
  l_upd (get_link y slot) = [] /\ l_mut (get_link y slot) = [].
Proof.
  intros Hok Hps Hb Hrun Hc Hm Hs Hn.
  destruct (run_unauthorized_link_quiet c n script y slot Hrun Hn) as [Q1 Q2].
  destruct (run_erun_s script (sys_init c n) [] y Hrun) as [gs He].
  pose proof (f_run c n script y gs Hok Hb He) as [_ Hg _ _ Hslots].
  destruct (Hslots slot cl Hc) as [O1 _ _ O4]. rewrite Hm in O4. cbn [mode_inv] in O4. destruct O4 as (_ & _ & C).
  destruct (C Hs) as [_ [applied [[C1 _ _ _ _ _ _ _] [_ _ _ _ L5 _]]]].
  assert (Hna : ~ has_auth (y_server y) slot) by (apply (not_auth_find _ _ (gv_slots _ Hg)); exact Hn).
  assert (Hnil : applied ++ cl_inbox_upd cl ++ l_upd (get_link y slot) = []).
  { destruct (applied ++ cl_inbox_upd cl ++ l_upd (get_link y slot)) eqn:E; [reflexivity|]. exfalso. apply Hna, L5. discriminate. }
  apply app_eq_nil in Hnil. destruct Hnil as [N1 N2]. apply app_eq_nil in N2. destruct N2 as [N2 _]. subst applied.
  destruct (run_mrun script (sys_init c n) mgs_empty y Hrun) as [G HG].
  assert (Hsess : sessions_ok script = true) by (unfold script_okf in Hok; apply andb_prop in Hok; exact (proj2 Hok)).
  pose proof (h2b_accounting c n script y G Hsess Hps Hb HG slot cl Hc Hm Hs) as Hperm. unfold live_ok in Hperm.
  destruct (run_unauthorized_mutate_ghost c n script y G slot HG Hn) as [M1 _]. rewrite M1 in Hperm.
  apply Permutation_nil in Hperm. apply app_eq_nil in Hperm. destruct Hperm as [_ P]. apply app_eq_nil in P. destruct P as [P1 P].
  apply app_eq_nil in P. destruct P as [P2 _].
  split; [exact N2|]. split; [exact P2|]. split; [exact P1|].
  split; [apply ClientStruct_proofs.srel_struct_equiv; [exact (ClientStruct_proofs.cs_inv_nodup cl O1)|exact C1]|]. auto.
Qed.

(* ================================================================== *)
(* 6. A3: a record becomes authorized only by an explicit step        *)
(* ================================================================== *)

Theorem authorized_only_by_step y st y' o slot :
  NoDup (map sc_slot (sv_clients (y_server y))) -> sys_step y st = Ok (y', o) ->
  ~ has_auth (y_server y) slot -> has_auth (y_server y') slot ->
  (st = StAuthorize slot /\ exists r, find_client (y_server y) slot = Some r /\ sc_authorized r = false) \/
  (exists max, st = StConnect slot max /\ cfg_auth (y_cfg y) = AuthNone /\ find_client (y_server y) slot = None).
Proof.
  intros Hnd H Hn Ha.
  destruct st as [| |sl max|sl|sl|tick dt cleanup ops parts|sl ops|sl s2c ch w|sl s2c ch w].
  - exfalso. cbn [sys_step] in H. inversion H; subst. exact (Hn Ha).
  - exfalso. cbn [sys_step] in H. inversion H; subst. exact (Hn Ha).
  - right. cbn [sys_step] in H.
    destruct (find_client (y_server y) sl) eqn:Ef; [exfalso; inversion H; subst; exact (Hn Ha)|].
    destruct (al_get sl (y_clients y)); [|exfalso; inversion H; subst; exact (Hn Ha)].
    destruct (sv_running (y_server y)) eqn:Er; [|exfalso; inversion H; subst; exact (Hn Ha)].
    inversion H; subst y' o. cbn [set_client set_server y_server] in Ha. unfold connect_client in Ha. rewrite Er, Ef in Ha.
    destruct Ha as [r [Hin [Hs Hr]]]. cbn [set_clients sv_clients] in Hin. apply in_app_or in Hin. destruct Hin as [Hin|[<-|[]]].
    + exfalso. apply Hn. exists r. auto.
    + destruct (cfg_auth (y_cfg y)) eqn:Eau; cbn in Hs, Hr; try discriminate. subst sl. exists max. auto.
  - left. cbn [sys_step] in H. inversion H; subst y' o. cbn [set_server y_server] in Ha. unfold authorize_client in Ha.
    destruct (find_client (y_server y) sl) as [r|] eqn:Ef; [|exfalso; exact (Hn Ha)].
    destruct (sc_authorized r) eqn:Ear; [exfalso; exact (Hn Ha)|].
    destruct Ha as [r1 [Hin [Hs Hr]]]. unfold update_client, set_clients in Hin. cbn [sv_clients] in Hin.
    apply in_map_iff in Hin. destruct Hin as [r0 [E0 Hin0]].
    destruct (sc_slot r0 =? sc_slot (authorized_client (y_cfg y) sl (sc_max_size r))) eqn:E.
    + subst r1. cbn in Hs. subst sl. split; [reflexivity|]. exists r. auto.
    + subst r1. exfalso. apply Hn. exists r0. auto.
  - exfalso. cbn [sys_step] in H. destruct (al_get sl (y_clients y)); inversion H; subst; [|exact (Hn Ha)].
    cbn [clear_link set_link set_client set_server y_server] in Ha. destruct Ha as [r [Hin Hr]].
    unfold disconnect_client in Hin. cbn [sv_clients] in Hin. apply filter_In in Hin. apply Hn. exists r. tauto.
  - exfalso. cbn [sys_step] in H.
    destruct (server_frame (y_cfg y) (y_server y) tick dt cleanup ops parts) as [[s' fo]| |] eqn:Ef; cbn [bind] in H; try discriminate.
    inversion H; subst y' o. rewrite (proj1 (proj2 (enqueue_fields _ _))) in Ha. cbn [set_server y_server] in Ha.
    destruct (frame_auth _ _ _ _ _ _ _ _ _ Hnd Ef) as (_ & _ & _ & _ & F5 & _). exact (Hn (F5 slot Ha)).
  - exfalso. cbn [sys_step] in H. destruct (al_get sl (y_clients y)); [|inversion H; subst; exact (Hn Ha)].
    destruct (client_frame c ops) as [[c' cfo]| |]; cbn [bind] in H; try discriminate. inversion H; subst.
    cbn [set_server y_server] in Ha. unfold has_auth in *. cbn [publish_pre sv_clients] in Ha.
    apply Hn. destruct (cfo_acks cfo); [exact Ha|]. destruct (cl_status c'); exact Ha.
  - exfalso. cbn [sys_step] in H. destruct (al_get sl (y_clients y)); [|inversion H; subst; exact (Hn Ha)].
    destruct s2c; [destruct (ch =? 0); [|destruct (ch =? 1)]|destruct (ch =? 0)];
      try (inversion H; subst; exact (Hn Ha); fail); destruct (take w _) as [picked rest]; inversion H; subst; try exact (Hn Ha).
    cbn [set_server y_server] in Ha. unfold has_auth in *. rewrite (proj1 (deliver_acks_fold_fields sl picked (y_server y))) in Ha. exact (Hn Ha).
  - exfalso. cbn [sys_step] in H. destruct (al_get sl (y_clients y)); [|inversion H; subst; exact (Hn Ha)].
    destruct s2c; [destruct (ch =? 0); [|destruct (ch =? 1)]|destruct (ch =? 0)];
      try (inversion H; subst; exact (Hn Ha); fail); destruct (take w _) as [picked rest]; inversion H; subst; exact (Hn Ha).
Qed.

(* over runs, with an authorization step configured (`AuthCustom` / `AuthProto`): a slot whose record is authorized was
   authorized by a `StAuthorize slot` step of the script that found its record not authorized *)
Theorem run_authorized_by_step c n script : forall y slot,
  cfg_auth c <> AuthNone -> run (sys_init c n) script = Ok y -> has_auth (y_server y) slot ->
  exists pre post y0 r, script = pre ++ StAuthorize slot :: post /\ run (sys_init c n) pre = Ok y0 /\
    find_client (y_server y0) slot = Some r /\ sc_authorized r = false.
Proof.
  induction script as [|st t IH] using rev_ind; intros y slot Hc H Ha.
  - cbn in H. inversion H; subst. destruct Ha as [r [[] _]].
  - rewrite run_app in H. destruct (run (sys_init c n) t) as [y1| |] eqn:E1; cbn [bind] in H; try discriminate.
    cbn [run] in H. destruct (sys_step y1 st) as [[y2 o]| |] eqn:E2; cbn [bind] in H; try discriminate. inversion H; subst y.
    pose proof (link_run_init c n t y1 E1) as Hinv.
    destruct (has_auth_dec (y_server y1) slot (li_nodup _ Hinv)) as [Hb|Hn].
    + destruct (IH y1 slot Hc eq_refl Hb) as (pre & post & y0 & r & -> & R & F & A).
      exists pre, (post ++ [st]), y0, r. rewrite <- app_assoc. auto.
    + destruct (authorized_only_by_step y1 st y2 o slot (li_nodup _ Hinv) E2 Hn Ha) as [[-> [r [F A]]]|[max [_ [Hau _]]]].
      * exists t, [], y1, r. auto.
      * exfalso. apply Hc. rewrite <- Hau, (run_cfg t _ y1 E1). reflexivity.
Qed.
