(* C02I: the history of the server over whole-system runs ([srv_histo], Repl/ValOnceSpec.v) for scripts whose components
   are of any kind but 4 (`Periodic`) and hold any value.  Port of Repl/ValRefHist_proofs.v with [comps_oko] instead of
   [comps_okr]; new: the history keeps the INSTANCES of the components ([keeps_added]). *)
From RV Require Import Lib.Res Repl.ClientTicks Repl.ClientTicks_proofs Repl.World Vis.Visibility
  Tick.RepliconTick Tick.RepliconTick_proofs Tick.ConfirmHistory Tick.MutateTicks
  Repl.Server Repl.ServerSpec Repl.Server_proofs Repl.StructSpec Repl.Struct_proofs
  Repl.StructOps_proofs Repl.StructRun_proofs
  Repl.Client Repl.Sys Repl.Client_proofs Repl.ClientSys_proofs Repl.ClientMut_proofs
  Repl.ClientStructSpec Repl.ClientStruct_proofs Repl.StructE2E_proofs Repl.StructE2EMut_proofs Repl.StructE2ESess_proofs
  Repl.ValSpec Repl.ValSnap_proofs Repl.ValHist_proofs Repl.ValVisSpec Repl.ValVisHist_proofs Repl.ValRefSpec Repl.ValRefHist_proofs
  Repl.ValOnceSpec.
From Coq Require Import ZifyBool ZifyN.
Open Scope N_scope.
Ltac Zify.zify_post_hook ::= Z.div_mod_to_equations.
Arguments N.add : simpl never. Arguments N.mul : simpl never. Arguments N.pow : simpl never.
Arguments N.ltb : simpl never. Arguments N.leb : simpl never. Arguments N.div : simpl never.
Arguments N.modulo : simpl never. Arguments N.sub : simpl never. Arguments N.eqb : simpl never.

(* ================================================================== *)
(* 1. scripts                                                         *)
(* ================================================================== *)

Lemma kind_et_ok k : kind_et k = true -> kind_ok k = true.
Proof. unfold kind_et, kind_ok. lia. Qed.

Lemma kind_ok_cases k : kind_ok k = true -> k = 2 \/ kind_et k = true.
Proof. unfold kind_et, kind_ok. lia. Qed.

Lemma script_valso_app a b : script_valso (a ++ b) = script_valso a && script_valso b.
Proof. unfold script_valso. apply forallb_app. Qed.

(* the scripts of Properties/C02G.v are in scope *)
Lemma script_valsr_valso script : script_valsr script = true -> script_valso script = true.
Proof.
  unfold script_valsr, script_valso. intros H. rewrite forallb_forall in *. intros st Hin. specialize (H st Hin).
  destruct st; try reflexivity. cbn [step_valsr step_valso] in *. rewrite forallb_forall in *. intros op Hop. specialize (H op Hop).
  destruct op; try reflexivity; cbn [sop_valsr sop_valso] in *.
  - rewrite forallb_forall in *. intros kv Hkv. exact (kind_et_ok _ (H kv Hkv)).
  - exact (kind_et_ok _ H).
  - exact (kind_et_ok _ H).
Qed.

(* ================================================================== *)
(* 1b. the instances of the components                                *)
(* ================================================================== *)

Lemma keeps_added_ext r s1 s s' : sv_ents s' = sv_ents s -> keeps_added r s1 s -> keeps_added r s1 s'.
Proof. intros E H e x2 k c Hx. rewrite (get_ent_ext s s' e E) in Hx. exact (H e x2 k c Hx). Qed.

Lemma keeps_added_refl r s : keeps_added r s s.
Proof. intros e x2 k c Hx Hc _. exists x2, c. auto. Qed.

(* every component record of [s'] was added at the current stamp of [s] or is an instance of [s] *)
Definition added_step (s s' : server) : Prop :=
  forall e x' k c, get_ent s' e = Some x' -> al_get k (se_comps x') = Some c ->
    c_added c = sv_now s \/ exists x c1, get_ent s e = Some x /\ al_get k (se_comps x) = Some c1 /\ c_added c1 = c_added c.

Lemma spawn_comps_added (ok : val -> bool) now comps : forall acc k c,
  (forall k c, In (k, c) acc -> c_added c = now) ->
  In (k, c) (fold_left (fun acc (kv : N * val) => if ok (snd kv) then kinsert (fst kv) (mkComp (snd kv) now now) acc else acc)
                       comps acc) -> c_added c = now.
Proof.
  induction comps as [|kv comps IH]; intros acc k c Hacc; cbn [fold_left]; [apply Hacc|].
  apply IH. destruct (ok (snd kv)); [|exact Hacc].
  intros k' c' Hin. apply In_kinsert in Hin. destruct Hin as [H | H]; [|exact (Hacc _ _ H)].
  injection H as _ ->. reflexivity.
Qed.

Lemma apply_sop_added s op :
  let s' := apply_sop s op in
  sv_ents s' = sv_ents s \/
  exists e x', sv_ents s' = sv_ents (set_ent s e x') /\
    forall k c, al_get k (se_comps x') = Some c ->
      c_added c = sv_now s \/ exists x c1, get_ent s e = Some x /\ al_get k (se_comps x) = Some c1 /\ c_added c1 = c_added c.
Proof.
  cbv zeta.
  destruct op as [e marker comps|e|e k v|e k|e k v|e|e|slot e visible|slot e pc]; unfold apply_sop.
  - destruct (get_ent s e) as [x0|] eqn:Eg; [left; auto|]. right.
    eexists e, _. split; [reflexivity|]. cbn [se_comps]. intros k c Hc. left. apply al_get_In in Hc. revert Hc.
    apply spawn_comps_added. intros k0 c0 [].
  - destruct (get_ent s e) as [x|] eqn:Eg; [|left; auto]. destruct (se_alive x) eqn:Ea; [|left; auto]. right.
    exists e, (mkSEnt false None []). split; [destruct (se_marker x); [apply sv_ents_buffer_despawn|reflexivity]|].
    cbn [se_comps]. intros k c Hc. discriminate.
  - destruct (get_ent s e) as [x|] eqn:Eg; [|left; auto]. destruct (se_alive x && val_ok s v) eqn:Ea; [|left; auto]. right.
    eexists e, _. split; [reflexivity|]. cbn [se_comps]. intros k0 c Hc. destruct (N.eq_dec k0 k) as [-> | Hne].
    + rewrite kinsert_get_same in Hc. injection Hc as <-. destruct (al_get k (se_comps x)) as [old|] eqn:Eo; [|left; reflexivity].
      right. exists x, old. auto.
    + rewrite kinsert_get_other in Hc by exact Hne. right. exists x, c. auto.
  - destruct (get_ent s e) as [x|] eqn:Eg; [|left; auto]. destruct (se_alive x) eqn:Ea; [|left; auto].
    destruct (al_get k (se_comps x)) as [old|] eqn:Eo; [|left; auto]. right.
    eexists e, _. split; [reflexivity|]. cbn [se_comps]. intros k0 c Hc. rewrite al_get_remove in Hc.
    destruct (k0 =? k); [discriminate|]. right. exists x, c. auto.
  - destruct (get_ent s e) as [x|] eqn:Eg; [|left; auto]. destruct (se_alive x && val_ok s v) eqn:Ea; [|left; auto].
    destruct (al_get k (se_comps x)) as [old|] eqn:Eo; [|left; auto]. right.
    eexists e, _. split; [reflexivity|]. cbn [se_comps]. intros k0 c Hc. destruct (N.eq_dec k0 k) as [-> | Hne].
    + rewrite kinsert_get_same in Hc. injection Hc as <-. right. exists x, old. auto.
    + rewrite kinsert_get_other in Hc by exact Hne. right. exists x, c. auto.
  - destruct (get_ent s e) as [x|] eqn:Eg; [|left; auto]. destruct (se_alive x) eqn:Ea; [|left; auto].
    destruct (se_marker x); [left; auto|]. right.
    eexists e, _. split; [reflexivity|]. cbn [se_comps]. intros k0 c Hc. right. exists x, c. auto.
  - destruct (get_ent s e) as [x|] eqn:Eg; [|left; auto]. destruct (se_alive x) eqn:Ea; [|left; auto].
    destruct (se_marker x); [|left; auto]. right.
    exists e, (mkSEnt true None (se_comps x)). split; [apply sv_ents_buffer_despawn|].
    cbn [se_comps]. intros k0 c Hc. right. exists x, c. auto.
  - left. destruct (find_client s slot) as [c0|]; [|auto]. destruct (get_ent s e); [|auto]. destruct (sc_vis c0); auto.
  - left. destruct (find_client s slot) as [c0|]; [|auto]. destruct (get_ent s e); [|auto].
    destruct (sc_authorized c0 && existsb _ (sv_premap s)); auto.
Qed.

Lemma apply_sop_added_step s op : added_step s (apply_sop s op).
Proof.
  intros e0 x0 k c Hx0 Hc.
  destruct (apply_sop_added s op) as [E | (e & x' & E & Hold)].
  - right. exists x0, c. rewrite (get_ent_ext _ _ e0 E) in Hx0. auto.
  - rewrite (get_ent_ext _ _ e0 E), get_ent_set_ent in Hx0. destruct (e0 =? e) eqn:Ee.
    + injection Hx0 as <-. assert (e0 = e) by lia. subst e0. exact (Hold k c Hc).
    + right. exists x0, c. auto.
Qed.

Lemma keeps_added_step r s1 s s' : keeps_added r s1 s -> added_step s s' -> r < sv_now s -> keeps_added r s1 s'.
Proof.
  intros H Hs Hr e x2 k c Hx Hc Hle. destruct (Hs e x2 k c Hx Hc) as [E | (x & c1 & Hx' & Hc' & Ea)]; [lia|].
  destruct (H e x k c1 Hx' Hc') as (x1 & c2 & A & B & C); [lia|]. exists x1, c2. split; [exact A|]. split; [exact B|congruence].
Qed.

Lemma ops_keeps_added r s1 ops : forall s, keeps_added r s1 s -> r < sv_now s -> keeps_added r s1 (fold_left apply_sop ops s).
Proof.
  induction ops as [|op t IH]; intros s H Hr; cbn [fold_left]; [exact H|].
  apply IH; [|rewrite apply_sop_now; exact Hr]. exact (keeps_added_step r s1 s _ H (apply_sop_added_step s op) Hr).
Qed.

Lemma keepso_ext r s1 s s' : sv_ents s' = sv_ents s -> keepso r s1 s -> keepso r s1 s'.
Proof. intros E [A B]. split; [exact (keeps_ext r s1 s s' E A)|exact (keeps_added_ext r s1 s s' E B)]. Qed.

Lemma keepso_refl r s : keepso r s s.
Proof. split; [apply keeps_refl|apply keeps_added_refl]. Qed.

Lemma ops_keepso r s1 ops s : keepso r s1 s -> r < sv_now s -> keepso r s1 (fold_left apply_sop ops s).
Proof. intros [A B] Hr. split; [exact (ops_keeps r s1 ops s A Hr)|exact (ops_keeps_added r s1 ops s B Hr)]. Qed.

(* 2. component records                                               *)
(* ================================================================== *)

Lemma comps_oko_nil now : comps_oko now [].
Proof. split; [exact I|intros k c []]. Qed.

Lemma comps_oko_kinsert now k c l :
  comps_oko now l -> kind_ok k = true -> c_added c <= c_changed c -> c_changed c <= now ->
  comps_oko now (kinsert k c l).
Proof.
  intros [H1 H2] A C D. split; [apply ksorted_kinsert; exact H1|].
  intros k' c' Hin. apply In_kinsert in Hin. destruct Hin as [E | Hin]; [|exact (H2 k' c' Hin)].
  injection E as -> ->. auto.
Qed.

Lemma comps_oko_al_remove now k l : comps_oko now l -> comps_oko now (al_remove k l).
Proof.
  intros [H1 H2]. split; [apply ksorted_al_remove; exact H1|].
  intros k' c' Hin. apply In_al_remove in Hin. exact (H2 k' c' (proj1 Hin)).
Qed.

Lemma comps_oko_mono now now' l : now <= now' -> comps_oko now l -> comps_oko now' l.
Proof.
  intros Hle [H1 H2]. split; [exact H1|]. intros k c Hin. destruct (H2 k c Hin) as (A & C & D).
  repeat split; try assumption. lia.
Qed.

Lemma spawn_comps_oko (ok : val -> bool) now comps : forall acc,
  forallb (fun kv : N * val => kind_ok (fst kv)) comps = true ->
  comps_oko now acc ->
  comps_oko now (fold_left (fun acc (kv : N * val) => if ok (snd kv) then kinsert (fst kv) (mkComp (snd kv) now now) acc else acc)
                                comps acc).
Proof.
  induction comps as [|kv comps IH]; intros acc Hv Hacc; cbn [fold_left]; [assumption|].
  cbn [forallb] in Hv. apply andb_prop in Hv. destruct Hv as [Hk Hv2].
  apply IH; [exact Hv2|].
  destruct (ok (snd kv)); [|exact Hacc]. apply comps_oko_kinsert; cbn [c_val c_added c_changed]; try assumption; lia.
Qed.

Lemma ents_oko_ext s s' : sv_ents s' = sv_ents s -> sv_now s <= sv_now s' -> ents_oko s -> ents_oko s'.
Proof.
  intros E Hn H e x Hx. rewrite (get_ent_ext s s' e E) in Hx. exact (comps_oko_mono _ _ _ Hn (H e x Hx)).
Qed.

Lemma ents_oko_set s e x' : ents_oko s -> comps_oko (sv_now s) (se_comps x') -> ents_oko (set_ent s e x').
Proof.
  intros H Hx e0 x0 H0. change (sv_now (set_ent s e x')) with (sv_now s). rewrite get_ent_set_ent in H0.
  destruct (e0 =? e); [injection H0 as <-; exact Hx|exact (H e0 x0 H0)].
Qed.

Lemma apply_sop_ents_oko s op : sop_valso op = true -> ents_oko s -> ents_oko (apply_sop s op).
Proof.
  intros Hv H.
  assert (Hbd : forall s0 e, ents_oko s0 -> ents_oko (buffer_despawn s0 e)).
  { intros s0 e H0. apply (ents_oko_ext s0); [apply sv_ents_buffer_despawn| |exact H0].
    unfold buffer_despawn. destruct (sv_running s0); cbn; lia. }
  destruct op as [e marker comps|e|e k v|e k|e k v|e|e|slot e visible|slot e pc]; unfold apply_sop.
  - destruct (get_ent s e) as [x0|] eqn:Eg; [exact H|]. apply ents_oko_set; [exact H|]. cbn [se_comps sop_valso] in *.
    apply spawn_comps_oko; [exact Hv|apply comps_oko_nil].
  - destruct (get_ent s e) as [x|] eqn:Eg; [|exact H]. destruct (se_alive x); [|exact H].
    assert (H1 : ents_oko (set_ent s e (mkSEnt false None []))) by (apply ents_oko_set; [exact H|apply comps_oko_nil]).
    destruct (se_marker x); [apply Hbd; exact H1|exact H1].
  - destruct (get_ent s e) as [x|] eqn:Eg; [|exact H]. destruct (se_alive x && val_ok s v); [|exact H].
    cbn [sop_valso] in Hv. pose proof Hv as Hk. pose proof (H e x Eg) as Hx.
    apply ents_oko_set; [exact H|]. cbn [se_comps].
    destruct (al_get k (se_comps x)) as [old|] eqn:Eo.
    + apply al_get_In in Eo. destruct (proj2 Hx k old Eo) as (_ & A & B).
      apply comps_oko_kinsert; cbn [c_val c_added c_changed]; try assumption; lia.
    + apply comps_oko_kinsert; cbn [c_val c_added c_changed]; try assumption; lia.
  - destruct (get_ent s e) as [x|] eqn:Eg; [|exact H]. destruct (se_alive x); [|exact H].
    destruct (al_get k (se_comps x)) as [old|] eqn:Eo; [|exact H].
    assert (H1 : ents_oko (set_ent s e (mkSEnt true (se_marker x) (al_remove k (se_comps x))))).
    { apply ents_oko_set; [exact H|]. cbn [se_comps]. apply comps_oko_al_remove. exact (H e x Eg). }
    intros e0 x0 H0. exact (H1 e0 x0 H0).
  - destruct (get_ent s e) as [x|] eqn:Eg; [|exact H]. destruct (se_alive x && val_ok s v); [|exact H].
    destruct (al_get k (se_comps x)) as [old|] eqn:Eo; [|exact H].
    cbn [sop_valso] in Hv. pose proof Hv as Hk. pose proof (H e x Eg) as Hx.
    apply ents_oko_set; [exact H|]. cbn [se_comps].
    apply al_get_In in Eo. destruct (proj2 Hx k old Eo) as (_ & A & B).
    apply comps_oko_kinsert; cbn [c_val c_added c_changed]; try assumption; lia.
  - destruct (get_ent s e) as [x|] eqn:Eg; [|exact H]. destruct (se_alive x); [|exact H].
    destruct (se_marker x); [exact H|]. apply ents_oko_set; [exact H|]. exact (H e x Eg).
  - destruct (get_ent s e) as [x|] eqn:Eg; [|exact H]. destruct (se_alive x); [|exact H].
    destruct (se_marker x); [|exact H]. apply Hbd. apply ents_oko_set; [exact H|]. exact (H e x Eg).
  - destruct (find_client s slot) as [c0|]; [|exact H]. destruct (get_ent s e); [|exact H]. destruct (sc_vis c0); exact H.
  - destruct (find_client s slot) as [c0|]; [|exact H]. destruct (get_ent s e); [|exact H].
    destruct (sc_authorized c0 && existsb _ (sv_premap s)); exact H.
Qed.

Lemma ops_ents_oko ops : forall s, forallb sop_valso ops = true -> ents_oko s -> ents_oko (fold_left apply_sop ops s).
Proof.
  induction ops as [|op t IH]; intros s Hv Hok; cbn [fold_left]; [exact Hok|].
  cbn [forallb] in Hv. apply andb_prop in Hv. destruct Hv as [H1 H2]. apply IH; [exact H2|]. apply apply_sop_ents_oko; assumption.
Qed.

Section HistRunO.
  Variables (cfg0 : cfg) (nclients : N).
  Local Notation init := (sys_init cfg0 nclients).
  Local Notation snap := (snap cfg0 nclients).
  Local Notation esnap := (esnap cfg0 nclients).
  Local Notation srv_histo := (srv_histo cfg0 nclients).

  Lemma histo_init : srv_histo [] (y_server init).
  Proof.
    cbn [sys_init y_server]. constructor.
    - exact server_init_wf.
    - intros e x Hx. discriminate.
    - cbn. lia.
    - cbn. lia.
    - intros t r s1 Hs. destruct (snap_nil cfg0 nclients t r s1 Hs).
    - intros t1 r1 s1 t2 r2 s2 Hs. destruct (snap_nil cfg0 nclients t1 r1 s1 Hs).
    - intros t r s1 Hs. destruct (snap_nil cfg0 nclients t r s1 Hs).
    - intros t1 r1 s1 t2 r2 s2 Hs. destruct (snap_nil cfg0 nclients t1 r1 s1 Hs).
    - intros (t & r & s1 & Hs). destruct (snap_nil cfg0 nclients t r s1 (su_snap _ _ _ _ _ _ _ Hs)).
    - intros t r s1 Hs. destruct (snap_nil cfg0 nclients t r s1 (su_snap _ _ _ _ _ _ _ Hs)).
    - intros t1 r1 s1 t2 r2 s2 Hs. destruct (snap_nil cfg0 nclients t1 r1 s1 (su_snap _ _ _ _ _ _ _ Hs)).
    - unfold t0_invv. cbn [fold_left]. split; [reflexivity|]. split; [reflexivity|]. split; [cbn; discriminate|]. split; [intros _; reflexivity|].
      intros t r s1. apply snap_nil.
  Qed.

  Lemma histo_nonframe script y st y' o :
    run init script = Ok y -> sys_step y st = Ok (y', o) -> is_sframe st = false ->
    srv_histo script (y_server y) -> srv_histo (script ++ [st]) (y_server y').
  Proof.
    intros Hr Hs Hnf H. destruct (nonframe_fields y st y' o Hs Hnf) as [(E1 & E2 & E3 & E4 & E5 & E6) Hrun].
    set (s := y_server y) in *. set (s' := y_server y') in *.
    assert (Hsn : forall t r s1, snap (script ++ [st]) t r s1 -> snap script t r s1)
      by (intros t r s1; exact (snap_snoc_nonframe cfg0 nclients script y st t r s1 Hr Hnf)).
    assert (Hes : forall t r s1, esnap (script ++ [st]) t r s1 -> is_stop st = false /\ esnap script t r s1)
      by (intros t r s1; exact (su_nonframe cfg0 nclients is_stop script y st t r s1 Hr Hnf)).
    assert (Hg : forall e, get_ent s' e = get_ent s e) by (intros e; apply get_ent_ext; exact E1).
    constructor.
    - exact (ents_wf_same s s' E1 (ho_wf _ _ _ _ H)).
    - intros e x Hx. rewrite Hg in Hx. rewrite E2. exact (ho_ents _ _ _ _ H e x Hx).
    - rewrite E2, E3. exact (ho_now _ _ _ _ H).
    - rewrite E4, tick_frames_snoc. replace (is_tick_frame st) with false by (destruct st; try reflexivity; discriminate).
      exact (ho_tick _ _ _ _ H).
    - intros t r s1 Hsnap. rewrite E3. exact (ho_r _ _ _ _ H t r s1 (Hsn _ _ _ Hsnap)).
    - intros t1 r1 s1 t2 r2 s2 H1 H2. exact (ho_rinj _ _ _ _ H t1 r1 s1 t2 r2 s2 (Hsn _ _ _ H1) (Hsn _ _ _ H2)).
    - intros t1 r1 s1 H1. apply (keepso_ext r1 s1 s s' E1). exact (ho_keep _ _ _ _ H t1 r1 s1 (Hsn _ _ _ H1)).
    - intros t1 r1 s1 t2 r2 s2 H1 H2. exact (ho_keep2 _ _ _ _ H t1 r1 s1 t2 r2 s2 (Hsn _ _ _ H1) (Hsn _ _ _ H2)).
    - intros (t & r & s1 & Hsnap). destruct (Hes _ _ _ Hsnap) as [Hst He].
      pose proof (ho_run _ _ _ _ H (ex_intro _ t (ex_intro _ r (ex_intro _ s1 He)))) as Hrn. fold s in Hrn.
      destruct Hrun as [->|[->|Hx]]; [cbn [sys_step] in Hs; injection Hs as <- _; reflexivity|discriminate|congruence].
    - intros t r s1 Hsnap. destruct (Hes _ _ _ Hsnap) as [_ He]. rewrite E4, E5. exact (ho_bound _ _ _ _ H t r s1 He).
    - intros t1 r1 s1 t2 r2 s2 H1 H2. exact (ho_inj _ _ _ _ H t1 r1 s1 t2 r2 s2 (proj2 (Hes _ _ _ H1)) (proj2 (Hes _ _ _ H2))).
    - pose proof (ho_t0 _ _ _ _ H) as Ht. unfold t0_invv in *. rewrite fold_left_app. cbn [fold_left].
      destruct (fold_left t0_step script (T0A false false)) as [started connected| |].
      + destruct Ht as (T1 & T2 & T3 & T5 & T4).
        assert (Hc : sv_tick s' = 0 /\ sv_dirty s' = true /\ forall t r s1, ~ snap (script ++ [st]) t r s1).
        { rewrite E4, E5. split; [exact T1|]. split; [exact T2|]. intros t r s1 Hsnap. exact (T4 t r s1 (Hsn _ _ _ Hsnap)). }
        destruct Hc as (C1 & C2 & C3).
        assert (Hsame : st <> StStart -> sv_running s' = true -> started = true).
        { intros Hne Hr'. apply T3. destruct Hrun as [Hx | [Hx | Hx]]; [contradiction| |congruence].
          subst st. cbn [sys_step] in Hs. injection Hs as <- _. unfold s' in Hr'. cbn in Hr'. discriminate. }
        assert (Hnc : (forall slot max, st = StConnect slot max -> started = false) -> connected = false -> sv_clients s' = []).
        { intros Hcon Hcf. apply (nonframe_noclients_any y st y' o Hs Hnf); [|exact (T5 Hcf)].
          intros slot max E. destruct (sv_running (y_server y)) eqn:Erun; [|reflexivity]. pose proof (T3 Erun). pose proof (Hcon slot max E). congruence. }
        destruct st; try discriminate Hnf; cbn [t0_step];
          (split; [exact C1|]; split; [exact C2|]; split; [|split; [|exact C3]]);
          try (apply Hsame; discriminate); try (apply Hnc; intros; discriminate).
        * intros _. reflexivity.
        * intros Hcf. apply orb_false_elim in Hcf. destruct Hcf as [Hcf Hst]. apply Hnc; [|exact Hcf]. intros; exact Hst.
      + cbn [t0_step]. destruct Ht as [Z1 Z2]. rewrite E4, E5. split; [exact Z1|].
        intros t r s1 Hsnap. exact (Z2 t r s1 (Hsn _ _ _ Hsnap)).
      + exact I.
  Qed.

  (* ---------- server frames ---------- *)

  Lemma histo_frame script y tick dt cu ops parts y' o :
    run init script = Ok y -> sys_step y (StSFrame tick dt cu ops parts) = Ok (y', o) ->
    forallb sop_valso ops = true ->
    tick_frames (script ++ [StSFrame tick dt cu ops parts]) < 2 ^ 31 ->
    srv_histo script (y_server y) -> srv_histo (script ++ [StSFrame tick dt cu ops parts]) (y_server y').
  Proof.
    intros Hr Hs Hv Hb H.
    destruct (sframe_step_inv _ _ _ _ _ _ _ _ Hs) as (fo & vs & -> & Ef).
    set (s := y_server y) in *. set (s' := y_server y') in *.
    destruct (server_frame_flags _ _ _ _ _ _ _ _ _ Ef) as (R & LR & D & Hrunning & Hstopped).
    destruct (server_frame_core _ _ _ _ _ _ _ _ _ Ef) as (s2 & A1 & A2 & A3 & A4 & Hcase).
    set (s3 := fold_left apply_sop ops s2) in *.
    pose proof (ho_tick _ _ _ _ H) as Htk. fold s in Htk.
    pose proof (ho_now _ _ _ _ H) as Hnow. fold s in Hnow.
    rewrite tick_frames_snoc in Hb.
    assert (Htadd : tick_add (sv_tick s) 1 = sv_tick s + 1).
    { unfold tick_add. apply N.mod_small. rewrite pow32_val. rewrite pow31_val in Hb. destruct (is_tick_frame (StSFrame tick dt cu ops parts)); lia. }
    assert (Ht' : sv_tick s' <= (if tick then sv_tick s + 1 else sv_tick s)).
    { destruct (sv_running s) eqn:Er.
      - rewrite (proj1 (Hrunning eq_refl)), Htadd. lia.
      - rewrite (proj2 (Hstopped eq_refl)), Htadd. destruct (sv_last_running s); destruct tick; lia. }
    assert (Hn3 : sv_now s3 = sv_now s) by (unfold s3; rewrite ops_now; exact A2).
    assert (Hnle : sv_now s <= sv_now s').
    { destruct Hcase as [(_ & _ & _ & N1 & _) | (_ & N1 & _)]; rewrite N1; lia. }
    assert (Hok3 : ents_oko s3).
    { apply (ops_ents_oko); [exact Hv|]. apply (ents_oko_ext s s2 A1); [rewrite A2; lia|]. exact (ho_ents _ _ _ _ H). }
    assert (Hok' : ents_oko s') by (apply (ents_oko_ext s3 s' A4); [rewrite Hn3; exact Hnle|exact Hok3]).
    assert (Hkeep : forall r s1, keepso r s1 s -> r < sv_now s -> keepso r s1 s').
    { intros r s1 Hk Hr1. apply (keepso_ext r s1 s3 s' A4). apply ops_keepso; [|rewrite A2; exact Hr1].
      exact (keepso_ext r s1 s s2 A1 Hk). }
    pose proof (snap_frame_inv cfg0 nclients script y tick dt cu ops parts y' fo vs) as Hinv. fold s' in Hinv.
    pose proof (su_frame_inv cfg0 nclients is_stop script y tick dt cu ops parts y' fo vs) as Hinve. fold s' in Hinve.
    assert (Hwf' : ents_wf s') by exact (server_frame_wf _ _ _ _ _ _ _ _ _ (ho_wf _ _ _ _ H) Ef).
    (* the new snapshot *)
    assert (Hnew : fo_ran fo = true ->
              sv_last_run s' = sv_now s /\ sv_running s = true /\ (sv_dirty s || tick = true) /\
              sv_tick s' = (if tick then sv_tick s + 1 else sv_tick s)).
    { intros Hran. destruct Hcase as [(_ & N0 & N1 & _ & N3 & _) | (N0 & _)]; [|congruence].
      split; [exact N3|]. split; [exact N0|]. split; [exact N1|]. rewrite (proj1 (Hrunning N0)), Htadd. reflexivity. }
    assert (Hlr' : sv_last_run s <= sv_last_run s').
    { destruct Hcase as [(_ & _ & _ & _ & N2 & _) | (_ & _ & N2 & _)]; rewrite N2; lia. }
    assert (Holdr : forall t1 r1 s1, snap script t1 r1 s1 -> r1 < sv_now s).
    { intros t1 r1 s1 H1. destruct (ho_r _ _ _ _ H t1 r1 s1 H1) as (B1 & _). fold s in B1. lia. }
    constructor.
    - exact Hwf'.
    - exact Hok'.
    - destruct Hcase as [(_ & _ & _ & N1 & N2 & _) | (_ & N1 & N2 & _)]; rewrite N1, N2; lia.
    - rewrite tick_frames_snoc. cbn [is_tick_frame]. destruct tick; lia.
    - intros t r s1 Hsn. destruct (Hinv t r s1 Hr Hs Hsn) as [Ho | (Hran & -> & -> & ->)].
      + destruct (ho_r _ _ _ _ H t r s1 Ho) as (B1 & B2 & B3). fold s in B1. split; [lia|]. split; [exact B2|exact B3].
      + split; [lia|]. split; [|exact Hwf']. cbn [is_tick_frame] in Hb. destruct tick; lia.
    - intros t1 r1 s1 t2 r2 s2' Hs1 Hs2.
      destruct (Hinv t1 r1 s1 Hr Hs Hs1) as [Ho1 | (Hran1 & -> & -> & ->)];
        destruct (Hinv t2 r2 s2' Hr Hs Hs2) as [Ho2 | (Hran2 & -> & -> & ->)].
      + exact (ho_rinj _ _ _ _ H t1 r1 s1 t2 r2 s2' Ho1 Ho2).
      + destruct (Hnew Hran2) as (L & _). pose proof (Holdr _ _ _ Ho1). intros E. lia.
      + destruct (Hnew Hran1) as (L & _). pose proof (Holdr _ _ _ Ho2). intros E. lia.
      + auto.
    - intros t1 r1 s1 Hs1. destruct (Hinv t1 r1 s1 Hr Hs Hs1) as [Ho | (Hran & -> & -> & ->)]; [|apply keepso_refl].
      apply Hkeep; [exact (ho_keep _ _ _ _ H t1 r1 s1 Ho)|exact (Holdr _ _ _ Ho)].
    - intros t1 r1 s1 t2 r2 s2' Hs1 Hs2 Hle.
      destruct (Hinv t1 r1 s1 Hr Hs Hs1) as [Ho1 | (Hran1 & -> & -> & ->)];
        destruct (Hinv t2 r2 s2' Hr Hs Hs2) as [Ho2 | (Hran2 & -> & -> & ->)].
      + exact (ho_keep2 _ _ _ _ H t1 r1 s1 t2 r2 s2' Ho1 Ho2 Hle).
      + apply Hkeep; [exact (ho_keep _ _ _ _ H t1 r1 s1 Ho1)|exact (Holdr _ _ _ Ho1)].
      + exfalso. destruct (Hnew Hran1) as (L & _). pose proof (Holdr _ _ _ Ho2). lia.
      + apply keepso_refl.
    - intros (t & r & s1 & Hsn). rewrite R. destruct (Hinve t r s1 Hr Hs Hsn) as [[_ Ho] | (Hran & _)].
      + exact (ho_run _ _ _ _ H (ex_intro _ t (ex_intro _ r (ex_intro _ s1 Ho)))).
      + exact (proj1 (proj2 (Hnew Hran))).
    - intros t r s1 Hsn. rewrite D. destruct (Hinve t r s1 Hr Hs Hsn) as [[_ Ho] | (Hran & -> & -> & ->)].
      + pose proof (ho_run _ _ _ _ H (ex_intro _ t (ex_intro _ r (ex_intro _ s1 Ho)))) as Hrn. fold s in Hrn.
        destruct (ho_bound _ _ _ _ H t r s1 Ho) as (B1 & _). fold s in B1.
        rewrite (proj1 (Hrunning Hrn)), Htadd. split; [destruct tick; lia|discriminate].
      + split; [lia|discriminate].
    - intros t1 r1 s1 t2 r2 s2' Hs1 Hs2 Hlt.
      destruct (Hinve t1 r1 s1 Hr Hs Hs1) as [[_ Ho1] | (Hran1 & -> & -> & ->)];
        destruct (Hinve t2 r2 s2' Hr Hs Hs2) as [[_ Ho2] | (Hran2 & -> & -> & ->)].
      + exact (ho_inj _ _ _ _ H t1 r1 s1 t2 r2 s2' Ho1 Ho2 Hlt).
      + destruct (Hnew Hran2) as (_ & _ & Hd & Et). destruct (ho_bound _ _ _ _ H t1 r1 s1 Ho1) as (B1 & B2). fold s in B1, B2.
        rewrite Et. destruct tick; [lia|]. rewrite orb_false_r in Hd. exact (B2 Hd).
      + exfalso. destruct (Hnew Hran1) as (L & _). pose proof (Holdr _ _ _ (su_snap _ _ _ _ _ _ _ Ho2)). lia.
      + lia.
    - pose proof (ho_t0 _ _ _ _ H) as Ht0. unfold t0_invv in *. rewrite fold_left_app. cbn [fold_left]. fold s in Ht0.
      destruct (fold_left t0_step script (T0A false false)) as [started connected| |]; cbn [t0_step].
      + destruct Ht0 as (Z1 & Z2 & Z3 & Z5 & Z4). destruct tick.
        * split; [rewrite D; discriminate|]. intros t r s1 Hsn.
          destruct (Hinv t r s1 Hr Hs Hsn) as [Ho | (Hran & -> & -> & ->)]; [destruct (Z4 _ _ _ Ho)|]. left.
          destruct (Hnew Hran) as (_ & _ & _ & Et). rewrite Et. lia.
        * destruct (started && connected) eqn:Esc; [exact I|]. split; [rewrite D; discriminate|]. intros t r s1 Hsn.
          destruct (Hinv t r s1 Hr Hs Hsn) as [Ho | (Hran & -> & _ & _)]; [destruct (Z4 _ _ _ Ho)|].
          destruct (Hnew Hran) as (_ & Hrun & _). specialize (Z3 Hrun). subst started. cbn [andb] in Esc. right.
          exact (frame_noclients _ _ _ _ _ _ _ _ _ (Z5 Esc) Ef).
      + destruct Ht0 as [Z1 Z2]. split; [rewrite D; discriminate|]. intros t r s1 Hsn.
        destruct (Hinv t r s1 Hr Hs Hsn) as [Ho | (Hran & -> & -> & ->)]; [exact (Z2 _ _ _ Ho)|]. left.
        destruct (Hnew Hran) as (_ & _ & Hd & Et). rewrite Et. destruct tick; [lia|].
        rewrite orb_false_r in Hd. exact (Z1 Hd).
      + exact I.
  Qed.

  (* ---------- the induction ---------- *)

  Theorem histo_run script : forall y,
    script_valso script = true -> tick_frames script < 2 ^ 31 ->
    run init script = Ok y -> srv_histo script (y_server y).
  Proof.
    induction script as [|st t IH] using rev_ind; intros y Hv Hb H.
    - cbn [run] in H. injection H as <-. exact histo_init.
    - rewrite script_valso_app in Hv. apply andb_prop in Hv. destruct Hv as [Hv1 Hv2].
      unfold script_valso in Hv2. cbn [forallb] in Hv2. rewrite andb_true_r in Hv2.
      rewrite run_app in H. destruct (run init t) as [y1| |] eqn:E1; cbn [bind] in H; try discriminate.
      cbn [run] in H. destruct (sys_step y1 st) as [[y2 o]| |] eqn:E2; cbn [bind] in H; try discriminate.
      injection H as <-.
      assert (Hb1 : tick_frames t < 2 ^ 31) by (rewrite tick_frames_snoc in Hb; destruct (is_tick_frame st); lia).
      pose proof (IH y1 Hv1 Hb1 eq_refl) as IH1.
      destruct (is_sframe st) eqn:Esf.
      + destruct st as [| | | | |tick dt cleanup ops parts| | |]; try discriminate.
        exact (histo_frame t y1 tick dt cleanup ops parts y2 o E1 E2 Hv2 Hb IH1).
      + exact (histo_nonframe t y1 st y2 o E1 E2 Esf IH1).
  Qed.

  (* ---------- what the client half needs of the snapshots of a session ---------- *)

  Lemma snaps_factso slot script s : srv_histo script s ->
    (forall t1 r1 s1 t2 r2 s2, snaps cfg0 nclients slot script t1 r1 s1 -> snaps cfg0 nclients slot script t2 r2 s2 ->
       (r1 = r2 -> t1 = t2 /\ s1 = s2) /\ (r1 < r2 -> t1 < t2)) /\
    (forall t1 r1 s1 t2 r2 s2, snaps cfg0 nclients slot script t1 r1 s1 -> snaps cfg0 nclients slot script t2 r2 s2 ->
       r1 <= r2 -> keepso r1 s1 s2) /\
    (forall t r s1, snaps cfg0 nclients slot script t r s1 -> small_tick t) /\
    (forall t r s1, snaps cfg0 nclients slot script t r s1 -> ents_wf s1).
  Proof.
    intros Hh.
    assert (Hs : forall t r s1, snaps cfg0 nclients slot script t r s1 -> snap script t r s1)
      by (intros t r s1; apply su_snap).
    split; [|split; [|split]].
    - intros t1 r1 s1 t2 r2 s2 H1 H2. split.
      + exact (ho_rinj _ _ _ _ Hh _ _ _ _ _ _ (Hs _ _ _ H1) (Hs _ _ _ H2)).
      + exact (ho_inj _ _ _ _ Hh _ _ _ _ _ _ (snaps_esnap _ _ _ _ _ _ _ H1) (snaps_esnap _ _ _ _ _ _ _ H2)).
    - intros t1 r1 s1 t2 r2 s2 H1 H2. exact (ho_keep2 _ _ _ _ Hh _ _ _ _ _ _ (Hs _ _ _ H1) (Hs _ _ _ H2)).
    - intros t r s1 H1. exact (proj1 (proj2 (ho_r _ _ _ _ Hh t r s1 (Hs _ _ _ H1)))).
    - intros t r s1 H1. exact (proj2 (proj2 (ho_r _ _ _ _ Hh t r s1 (Hs _ _ _ H1)))).
  Qed.

End HistRunO.
