(* C03, server half, all visibility policies: the invariant between two ticks is preserved by every
   game operation (including `SVis`), by `buffer_removals`, by acknowledgements.
   Method: the PAll lemmas of Repl/StructOps_proofs.v talk about a server whose clients carry no
   ClientVisibility; they apply to [strip s] (the server without its clients), and every step that
   does not read the clients commutes with [strip].  The client records are followed separately
   through [cl_keep].  Definitions: Repl/StructVisSpec.v. *)
From RV Require Import Lib.Res Repl.ClientTicks Repl.ClientTicks_proofs Repl.World Vis.Visibility Vis.VisSpec
  Vis.Visibility_proofs Tick.RepliconTick Repl.Server Repl.ServerSpec Repl.Server_proofs Repl.StructSpec
  Repl.Struct_proofs Repl.StructOps_proofs Repl.StructRun_proofs Repl.StructVisSpec Repl.StructVis_proofs.
From Coq Require Import ZifyBool ZifyN.
Open Scope N_scope.
Ltac Zify.zify_post_hook ::= Z.div_mod_to_equations.
Arguments N.add : simpl never. Arguments N.mul : simpl never. Arguments N.pow : simpl never.
Arguments N.ltb : simpl never. Arguments N.leb : simpl never. Arguments N.div : simpl never.
Arguments N.modulo : simpl never. Arguments N.sub : simpl never. Arguments N.eqb : simpl never.

(* ================= 1. steps that do not read the clients commute with [strip] ================= *)

Lemma strip_buffer_despawn s e : strip (buffer_despawn s e) = buffer_despawn (strip s) e.
Proof. unfold buffer_despawn. cbn [strip set_clients sv_running]. destruct (sv_running s); reflexivity. Qed.

Lemma strip_set_ent s e x : strip (set_ent s e x) = set_ent (strip s) e x.
Proof. reflexivity. Qed.

Lemma get_ent_strip s e : get_ent (strip s) e = get_ent s e.
Proof. reflexivity. Qed.

Lemma strip_update_client s c0 : strip (update_client s c0) = strip s.
Proof. reflexivity. Qed.

Lemma apply_sop_strip s op : strip (apply_sop s op) = apply_sop (strip s) op.
Proof.
  destruct op as [e marker comps|e|e k v|e k|e k v|e|e|slot e visible|slot e pc]; unfold apply_sop;
    rewrite ?get_ent_strip.
  - destruct (get_ent s e); reflexivity.
  - destruct (get_ent s e) as [x|]; [|reflexivity]. destruct (se_alive x); [|reflexivity].
    destruct (se_marker x); [|reflexivity]. rewrite strip_buffer_despawn. reflexivity.
  - destruct (get_ent s e) as [x|]; [|reflexivity].
    change (val_ok (strip s) v) with (val_ok s v). destruct (se_alive x && val_ok s v); reflexivity.
  - destruct (get_ent s e) as [x|]; [|reflexivity]. destruct (se_alive x); [|reflexivity].
    destruct (al_get k (se_comps x)); reflexivity.
  - destruct (get_ent s e) as [x|]; [|reflexivity].
    change (val_ok (strip s) v) with (val_ok s v). destruct (se_alive x && val_ok s v); [|reflexivity].
    destruct (al_get k (se_comps x)); reflexivity.
  - destruct (get_ent s e) as [x|]; [|reflexivity]. destruct (se_alive x); [|reflexivity].
    destruct (se_marker x); reflexivity.
  - destruct (get_ent s e) as [x|]; [|reflexivity]. destruct (se_alive x); [|reflexivity].
    destruct (se_marker x); [|reflexivity]. rewrite strip_buffer_despawn. reflexivity.
  - change (find_client (strip s) slot) with (@None sclient).
    destruct (find_client s slot) as [c0|]; [|reflexivity]. destruct (get_ent s e); [|reflexivity].
    destruct (sc_vis c0); reflexivity.
  - change (find_client (strip s) slot) with (@None sclient).
    destruct (find_client s slot) as [c0|]; [|reflexivity]. destruct (get_ent s e); [|reflexivity].
    destruct (sc_authorized c0 && existsb _ (sv_premap s)); reflexivity.
Qed.

Lemma strip_buffer_removals s : strip (buffer_removals s) = buffer_removals (strip s).
Proof. reflexivity. Qed.

Lemma rb_repl_strip s : rb_repl s <-> rb_repl (strip s).
Proof. reflexivity. Qed.

(* ================= 2. every game operation, `buffer_removals`, stopped frames ================= *)

Theorem apply_sop_preserves_base_v s op : srv_base_v s -> srv_base_v (apply_sop s op).
Proof.
  intros Hb. apply srv_base_strip. rewrite apply_sop_strip. apply apply_sop_preserves_base.
  apply srv_base_strip. exact Hb.
Qed.

Theorem apply_sop_preserves_srv_ok_v s op : srv_ok_v s -> sv_running s = true -> srv_ok_v (apply_sop s op).
Proof.
  intros Hok Hrun. apply srv_ok_strip. rewrite apply_sop_strip.
  apply apply_sop_preserves_srv_ok; [apply srv_ok_strip; exact Hok|exact Hrun].
Qed.

(* THEOREM 1: also `SVis`, whatever the ClientVisibility of the clients *)
Theorem apply_sop_preserves_pending_v s op t st :
  srv_base_v s -> sv_running s = true -> pending_ok s t st -> pending_ok (apply_sop s op) t st.
Proof.
  intros Hb Hrun Hp. apply (proj2 (pending_ok_strip _ _ _)). rewrite apply_sop_strip.
  apply apply_sop_preserves_pending; [apply srv_base_strip; exact Hb|exact Hrun|].
  apply (proj1 (pending_ok_strip _ _ _)). exact Hp.
Qed.

(* THEOREM 2 *)
Theorem buffer_removals_ok_v s : srv_base_v s ->
  srv_base_v (buffer_removals s) /\ (rb_repl s -> rb_repl (buffer_removals s)) /\
  (forall t st, pending_ok s t st -> pending_ok (buffer_removals s) t st) /\
  sv_removed_events (buffer_removals s) = [].
Proof.
  intros Hb. destruct (buffer_removals_ok (strip s) (proj1 (srv_base_strip s) Hb)) as [H1 [H2 [H3 H4]]].
  split; [apply srv_base_strip; exact H1|]. split; [exact H2|]. split; [|exact H4].
  intros t st Hp. apply (proj2 (pending_ok_strip _ _ _)). apply H3. apply (proj1 (pending_ok_strip _ _ _)). exact Hp.
Qed.

Lemma age_events_base_v s : srv_base_v s -> srv_base_v (age_events s).
Proof. intros Hb. apply srv_base_strip. apply (age_events_base (strip s)). apply srv_base_strip. exact Hb. Qed.

Lemma reset_ok_v s : srv_base_v s -> srv_ok_v (reset s).
Proof. intros Hb. apply srv_ok_strip. apply (reset_ok (strip s)). apply srv_base_strip. exact Hb. Qed.

Lemma srv_base_v_ext s s' :
  sv_ents s' = sv_ents s -> sv_removal_buf s' = sv_removal_buf s ->
  sv_removed_events s' = sv_removed_events s -> sv_last_run s' = sv_last_run s -> sv_now s' = sv_now s ->
  srv_base_v s -> srv_base_v s'.
Proof.
  intros He Hr Hv Hl Hn Hb. apply srv_base_strip. apply (srv_base_ext (strip s)); try assumption.
  - intros cl [].
  - apply srv_base_strip. exact Hb.
Qed.

Lemma srv_ok_v_ext s s' :
  sv_ents s' = sv_ents s -> sv_removal_buf s' = sv_removal_buf s ->
  sv_removed_events s' = sv_removed_events s -> sv_last_run s' = sv_last_run s -> sv_now s' = sv_now s ->
  srv_ok_v s -> srv_ok_v s'.
Proof.
  intros He Hr Hv Hl Hn [Hb Hrb]. split; [apply (srv_base_v_ext s); assumption|apply (rb_repl_ext s); assumption].
Qed.

(* ================= 3. the client records ================= *)

Lemma cl_keep_refl cl : cl_keep cl cl.
Proof. unfold cl_keep. repeat split; auto. Qed.

Lemma cl_keep_trans a b c : cl_keep a b -> cl_keep b c -> cl_keep a c.
Proof.
  intros [A1 [A2 [A3 A4]]] [B1 [B2 [B3 B4]]]. unfold cl_keep. repeat split; try congruence.
  - intros H. apply A3, B3, H.
  - intros H. apply B3, A3, H.
  - intros st H. apply B4, A4, H.
Qed.

Lemma cl_same_keep a b : cl_same a b -> cl_keep a b.
Proof. intros [S1 [S2 [S3 S4]]]. unfold cl_keep. repeat split; try assumption; try apply S4. rewrite S3. auto. Qed.

Lemma Forall2_impl2 {A} (P Q : A -> A -> Prop) l l' : (forall a b, P a b -> Q a b) -> Forall2 P l l' -> Forall2 Q l l'.
Proof. intros H. induction 1; constructor; auto. Qed.

Lemma receive_acks_keep s : Forall2 cl_keep (sv_clients s) (sv_clients (receive_acks s)).
Proof. apply (Forall2_impl2 cl_same); [apply cl_same_keep|apply receive_acks_same]. Qed.

Lemma cleanup_acks_keep c s : Forall2 cl_keep (sv_clients s) (sv_clients (cleanup_acks c s)).
Proof. apply (Forall2_impl2 cl_same); [apply cl_same_keep|apply cleanup_acks_same]. Qed.

Lemma cl_keep_slots l l' : Forall2 cl_keep l l' -> map sc_slot l' = map sc_slot l.
Proof. induction 1 as [|a b l l' H _ IH]; cbn [map]; [reflexivity|]. destruct H as [-> _]. rewrite IH. reflexivity. Qed.

Lemma update_client_keep s c0 cnew : NoDup (map sc_slot (sv_clients s)) ->
  In c0 (sv_clients s) -> cl_keep c0 cnew ->
  Forall2 cl_keep (sv_clients s) (sv_clients (update_client s cnew)).
Proof.
  intros Hnd Hc0 Hs. unfold update_client, set_clients. cbn [sv_clients].
  assert (H : forall l, (forall cl, In cl l -> In cl (sv_clients s)) ->
            Forall2 cl_keep l (map (fun c' => if sc_slot c' =? sc_slot cnew then cnew else c') l)).
  { induction l as [|cl l IH]; intros Hl; cbn [map]; constructor.
    - destruct (sc_slot cl =? sc_slot cnew) eqn:E; [|apply cl_keep_refl].
      assert (cl = c0); [|subst cl; exact Hs].
      apply (nodup_slot_eq (sv_clients s)); [exact Hnd|apply Hl; left; reflexivity|exact Hc0|].
      destruct Hs as [S1 _]. lia.
    - apply IH. intros c1 H1. apply Hl. right. exact H1. }
  apply H. auto.
Qed.

(* `set_visibility` keeps the visibility part of the invariant, whatever has been sent *)
Lemma vis_ok_set_visibility v e b st : vis_ok (Some v) st -> vis_ok (Some (set_visibility v e b)) st.
Proof.
  intros [Hl Hp]. destruct (set_visibility_legal v e b Hl) as [Hl' Hp']. split; [exact Hl'|].
  intros e' H. rewrite Hp'. apply Hp. exact H.
Qed.

Lemma apply_sop_keep s op : NoDup (map sc_slot (sv_clients s)) ->
  Forall2 cl_keep (sv_clients s) (sv_clients (apply_sop s op)).
Proof.
  intros Hnd.
  assert (Hid : Forall2 cl_keep (sv_clients s) (sv_clients s)) by (apply Forall2_same, cl_keep_refl).
  destruct op as [e marker comps|e|e k v|e k|e k v|e|e|slot e visible|slot e pc]; unfold apply_sop.
  - destruct (get_ent s e); exact Hid.
  - destruct (get_ent s e) as [x|]; [|exact Hid]. destruct (se_alive x); [|exact Hid].
    destruct (se_marker x); [rewrite sv_clients_buffer_despawn|]; exact Hid.
  - destruct (get_ent s e) as [x|]; [|exact Hid]. destruct (se_alive x && val_ok s v); exact Hid.
  - destruct (get_ent s e) as [x|]; [|exact Hid]. destruct (se_alive x); [|exact Hid].
    destruct (al_get k (se_comps x)); exact Hid.
  - destruct (get_ent s e) as [x|]; [|exact Hid]. destruct (se_alive x && val_ok s v); [|exact Hid].
    destruct (al_get k (se_comps x)); exact Hid.
  - destruct (get_ent s e) as [x|]; [|exact Hid]. destruct (se_alive x); [|exact Hid].
    destruct (se_marker x); exact Hid.
  - destruct (get_ent s e) as [x|]; [|exact Hid]. destruct (se_alive x); [|exact Hid].
    destruct (se_marker x); [rewrite sv_clients_buffer_despawn|]; exact Hid.
  - destruct (find_client s slot) as [c0|] eqn:Ef; [|exact Hid]. destruct (get_ent s e); [|exact Hid].
    destruct (sc_vis c0) as [v|] eqn:Ev; [|exact Hid].
    unfold find_client in Ef. apply find_some in Ef. destruct Ef as [Hc0 _].
    apply (update_client_keep s c0); [exact Hnd|exact Hc0|].
    unfold cl_keep. cbn [sc_slot sc_authorized sc_vis sc_ticks].
    split; [reflexivity|]. split; [reflexivity|]. split; [tauto|].
    intros st. rewrite Ev. apply vis_ok_set_visibility.
  - destruct (find_client s slot) as [c0|] eqn:Ef; [|exact Hid]. destruct (get_ent s e); [|exact Hid].
    destruct (sc_authorized c0 && existsb _ (sv_premap s)) eqn:Ec; [|exact Hid].
    apply andb_prop in Ec. destruct Ec as [Ha _].
    unfold find_client in Ef. apply find_some in Ef. destruct Ef as [Hc0 _].
    apply (update_client_keep s c0); [exact Hnd|exact Hc0|].
    unfold cl_keep. cbn [sc_slot sc_authorized sc_vis sc_ticks]. repeat split; auto.
Qed.

(* the operations that do not touch the client records *)
Lemma apply_sop_clients s op :
  match op with SVis _ _ _ | SMap _ _ _ => True | _ => sv_clients (apply_sop s op) = sv_clients s end.
Proof.
  destruct op as [e marker comps|e|e k v|e k|e k v|e|e|slot e visible|slot e pc]; try exact I; unfold apply_sop.
  - destruct (get_ent s e); reflexivity.
  - destruct (get_ent s e) as [x|]; [|reflexivity]. destruct (se_alive x); [|reflexivity].
    destruct (se_marker x); [rewrite sv_clients_buffer_despawn|]; reflexivity.
  - destruct (get_ent s e) as [x|]; [|reflexivity]. destruct (se_alive x && val_ok s v); reflexivity.
  - destruct (get_ent s e) as [x|]; [|reflexivity]. destruct (se_alive x); [|reflexivity].
    destruct (al_get k (se_comps x)); reflexivity.
  - destruct (get_ent s e) as [x|]; [|reflexivity]. destruct (se_alive x && val_ok s v); [|reflexivity].
    destruct (al_get k (se_comps x)); reflexivity.
  - destruct (get_ent s e) as [x|]; [|reflexivity]. destruct (se_alive x); [|reflexivity].
    destruct (se_marker x); reflexivity.
  - destruct (get_ent s e) as [x|]; [|reflexivity]. destruct (se_alive x); [|reflexivity].
    destruct (se_marker x); [rewrite sv_clients_buffer_despawn|]; reflexivity.
Qed.

(* the invariant of a client is carried along [cl_keep] *)
Lemma pending_ok_v_keep s cl cl' st : cl_keep cl cl' -> pending_ok_v s cl st -> pending_ok_v s cl' st.
Proof.
  intros [_ [_ [K3 K4]]] [Hp Hv]. split; [|apply K4; exact Hv].
  apply (pending_ok_ticks s (sc_ticks cl)); [exact K3|exact Hp].
Qed.

Lemma pending_ok_v_srv s s' cl st :
  (forall t st0, pending_ok s t st0 -> pending_ok s' t st0) -> pending_ok_v s cl st -> pending_ok_v s' cl st.
Proof. intros H [Hp Hv]. split; [apply H; exact Hp|exact Hv]. Qed.

Lemma pending_ok_v_ext s s' cl st :
  sv_ents s' = sv_ents s -> sv_despawn_buf s' = sv_despawn_buf s -> sv_removal_buf s' = sv_removal_buf s ->
  sv_removed_events s' = sv_removed_events s -> sv_last_run s' = sv_last_run s ->
  pending_ok_v s cl st -> pending_ok_v s' cl st.
Proof. intros He Hd Hr Hv Hl. apply pending_ok_v_srv. intros t st0. apply pending_ok_ext; assumption. Qed.

(* a client that was sent nothing fits every world, whatever its (legal) visibility *)
Lemma vis_ok_nil vo : match vo with Some v => vis_legal v | None => True end -> vis_ok vo [].
Proof. destruct vo as [v|]; [|auto]. intros Hl. split; [exact Hl|]. intros e H. cbn in H. congruence. Qed.

Lemma vis_ok_legal vo st : vis_ok vo st -> vis_ok vo [].
Proof. destruct vo as [v|]; [|auto]. intros [Hl _]. apply (vis_ok_nil (Some v)). exact Hl. Qed.

Lemma pending_ok_v_fresh s cl : fresh_ticks (sc_ticks cl) -> vis_ok (sc_vis cl) [] -> pending_ok_v s cl [].
Proof. intros Hf Hv. split; [apply pending_ok_fresh; exact Hf|exact Hv]. Qed.

Lemma struct_equiv_dom a b e : struct_equiv a b -> (al_get e b <> None <-> al_get e a <> None).
Proof. intros He. specialize (He e). destruct (al_get e a), (al_get e b); try contradiction; split; congruence. Qed.

Lemma pending_ok_v_equiv s cl a b : struct_equiv a b -> pending_ok_v s cl a -> pending_ok_v s cl b.
Proof.
  intros He [Hp Hv]. split; [apply (pending_ok_equiv s _ a b He Hp)|].
  destruct (sc_vis cl) as [v|]; [|exact I]. destruct Hv as [Hl Hpr]. split; [exact Hl|].
  intros e H. apply Hpr. apply (struct_equiv_dom a b e He). exact H.
Qed.
