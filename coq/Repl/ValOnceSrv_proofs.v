(* C02I: the invariants of Repl/ValOnceSpec.v ([cli_invo], and [srv_slot_invr] of Repl/ValRefSpec.v, which is kept as it
   is) under the server's actions: more snapshots, acknowledgements, cleanup, and `send_for_client` - with the `Once`
   kind.  Port of Repl/ValRefSrv_proofs.v.  What is new: a component of kind 2 that an incremental entry leaves out
   was ADDED at or before the stamp the client has acknowledged ([once_known], kept by the send: [sendo_known]); the
   stamps cover the every-tick kinds ([sendo_covered]). *)
From RV Require Import Lib.Res Repl.ClientTicks Repl.ClientTicks_proofs Repl.World Vis.Visibility Vis.VisSpec Vis.Visibility_proofs
  Tick.RepliconTick Tick.RepliconTick_proofs Tick.ConfirmHistory Tick.MutateTicks
  Repl.Server Repl.ServerSpec Repl.Server_proofs Wire.AckCodec Wire.AckCodec_proofs Repl.Ack_proofs Repl.StructSpec Repl.Struct_proofs
  Repl.StructOps_proofs Repl.StructRun_proofs
  Repl.StructVisSpec Repl.StructVis_proofs Repl.StructVisOps_proofs Repl.StructVisRun_proofs
  Repl.Client Repl.Sys Repl.Client_proofs Repl.ClientEnt_proofs Repl.ClientMut_proofs Repl.ClientSys_proofs
  Repl.ClientStructSpec Repl.ClientStruct_proofs Repl.ClientHist_proofs Repl.StructE2E_proofs Repl.StructE2EMut_proofs
  Repl.ValSpec Repl.ValSnap_proofs Repl.ValHist_proofs Repl.ValClient_proofs Repl.ValServer_proofs Repl.ValCli_proofs
  Repl.ValSrv_proofs Repl.ValVisSpec Repl.ValVisCli_proofs Repl.ValVisSrv_proofs
  Repl.ValRefSpec Repl.ValRefHist_proofs Repl.ValRefClient_proofs Repl.ValRefCli_proofs Repl.ValRefSrv_proofs
  Repl.ValOnceSpec Repl.ValOnceHist_proofs Repl.ValOnceCli_proofs.
From Coq Require Import ZifyBool ZifyN.
Open Scope N_scope.
Ltac Zify.zify_post_hook ::= Z.div_mod_to_equations.
Arguments N.add : simpl never. Arguments N.mul : simpl never. Arguments N.pow : simpl never.
Arguments N.ltb : simpl never. Arguments N.leb : simpl never. Arguments N.div : simpl never.
Arguments N.modulo : simpl never. Arguments N.sub : simpl never. Arguments N.eqb : simpl never.

(* ================================================================== *)
(* 1. more snapshots, more messages on their way                      *)
(* ================================================================== *)

Section GrowR.
  Variable slot : N.
  Variables SN SN' : N -> N -> server -> Prop.
  Hypothesis Hsn : forall t r s1, SN t r s1 -> SN' t r s1.
  Variables (c : client) (pend extra : list update_msg).
  (* the new messages are newer than every snapshot so far *)
  Hypothesis Hnew : forall t r s1 u, SN t r s1 -> In u extra -> t < u_tick u.

  Lemma cgo_grow g g' e t : g <= g' -> (forall u, In u extra -> t <= u_tick u) -> cgr c pend g e t -> cgr c (pend ++ extra) g' e t.
  Proof.
    intros Hg Ht [(u & Hu & Hlt & Hm & Hle)|[Hh|(Hn & Hno)]].
    - left. exists u. split; [apply in_or_app; left; exact Hu|]. split; [lia|auto].
    - right. left. exact Hh.
    - right. right. split; [exact Hn|]. intros u Hu Hm. apply in_app_or in Hu.
      destruct Hu as [Hu|Hu]; [exact (Hno u Hu Hm)|exact (Ht u Hu)].
  Qed.

  Lemma conf_sinceo_grow g g' e a : g <= g' -> conf_sincer SN c pend g e a -> conf_sincer SN' c (pend ++ extra) g' e a.
  Proof.
    intros Hg (t_a & s_a & H1 & H2). exists t_a, s_a. split; [exact (Hsn _ _ _ H1)|].
    apply (cgo_grow g g' e t_a Hg); [|exact H2]. intros u Hu. pose proof (Hnew _ _ _ u H1 Hu). lia.
  Qed.

  Lemma upd_oko_grow u : upd_oko SN c pend u -> upd_oko SN' c (pend ++ extra) u.
  Proof.
    intros (Hsh & r & s1 & H1 & Hp). split; [exact Hsh|]. exists r, s1. split; [exact (Hsn _ _ _ H1)|].
    intros e Hm. destruct (Hp e Hm) as [Hv Hc]. split; [exact Hv|]. destruct Hc as [Hf|(a & Hs & Hcs)]; [left; exact Hf|right].
    exists a. split; [exact Hs|]. apply (conf_sinceo_grow (u_tick u)); [lia|exact Hcs].
  Qed.

  (* (a new snapshot is newer than all the old ones) *)
  Lemma mut_oko_grow m : (forall t r s0, SN' t r s0 -> SN t r s0 \/ forall t0 r0 s00, SN t0 r0 s00 -> r0 < r) ->
    mut_oko slot SN c pend m -> mut_oko slot SN' c (pend ++ extra) m.
  Proof.
    intros Hsn' (Hle & Hgap & r & s1 & H1 & Hp). split; [exact Hle|]. split.
    { intros u Hu. apply in_app_or in Hu. destruct Hu as [Hu|Hu]; [exact (Hgap u Hu)|right; exact (Hnew _ _ _ u H1 Hu)]. }
    exists r, s1. split; [exact (Hsn _ _ _ H1)|].
    intros e vals Hin. destruct (Hp e vals Hin) as (Hv & a & Hs & Hcs & Hks). split; [exact Hv|]. exists a. split; [exact Hs|].
    split; [apply (conf_sinceo_grow (m_upd_tick m + 1)); [lia|exact Hcs]|].
    intros t0 r0 s0 H0 Ha Hr. destruct (Hsn' _ _ _ H0) as [Hold|Hnewer]; [exact (Hks t0 r0 s0 Hold Ha Hr)|].
    pose proof (Hnewer _ _ _ H1). lia.
  Qed.
End GrowR.

(* the new snapshots are not older than the message *)
Lemma desp_fresh_grow_o slot (SN SN' : N -> N -> server -> Prop) u :
  (forall t r s0, SN' t r s0 -> SN t r s0 \/ u_tick u <= t) -> desp_fresh slot SN u -> desp_fresh slot SN' u.
Proof. intros H Hd d Hin t r s0 Hs Hlt. destruct (H t r s0 Hs) as [Ho|Hle]; [exact (Hd d Hin t r s0 Ho Hlt)|lia]. Qed.

Lemma agreeo_grow slot (SN SN' : N -> N -> server -> Prop) : (forall t r s1, SN t r s1 -> SN' t r s1) ->
  forall c e r cc sc, agreeo slot SN c e r cc sc -> agreeo slot SN' c e r cc sc.
Proof.
  intros Hsn c e r cc sc H k cv c0 A B. pose proof (H k cv c0 A B) as G. destruct (k =? 2); [|exact G].
  destruct G as (t0 & r0 & s0 & x0 & c00 & G1 & G2). exists t0, r0, s0, x0, c00. split; [exact (Hsn _ _ _ G1)|exact G2].
Qed.

(* more snapshots, the same messages *)
Lemma clio_srv slot (SN SN' : N -> N -> server -> Prop) c pend muts :
  (forall t r s1, SN t r s1 -> SN' t r s1) ->
  (forall t r s0, SN' t r s0 -> SN t r s0 \/ forall t0 r0 s00, SN t0 r0 s00 -> r0 < r) ->
  (forall t r s0, SN' t r s0 -> SN t r s0 \/ forall u, In u pend -> u_tick u <= t) ->
  cli_invo slot SN c pend muts -> cli_invo slot SN' c pend muts.
Proof.
  intros Hsn Hsn' Hsnt [H1 H2 H3 H4 H5 H6 H7 H8 H9 H10 H11 H12].
  constructor; try assumption.
  - intros e x h Hh. destruct (H4 e x h Hh) as (r & s1 & x1 & A & B1 & B2 & B3). exists r, s1, x1. split; [exact (Hsn _ _ _ A)|].
    split; [exact B1|]. split; [exact (agreeo_grow slot SN SN' Hsn _ _ _ _ _ B2)|exact B3].
  - destruct H5 as [H5|(r & s1 & H5)]; [left; exact H5|right; exists r, s1; exact (Hsn _ _ _ H5)].
  - intros u Hu. rewrite <- (app_nil_r pend). apply (upd_oko_grow SN SN' Hsn c pend []); [intros t r s1 u0 _ []|exact (H9 u Hu)].
  - intros m Hm. rewrite <- (app_nil_r pend). apply (mut_oko_grow slot SN SN' Hsn c pend []); [intros t r s1 u0 _ []|exact Hsn'|exact (H10 m Hm)].
  - intros p u q E. destruct (H11 p u q E) as (r & s1 & A & B). exists r, s1. split; [exact (Hsn _ _ _ A)|exact B].
  - intros u Hu. apply (desp_fresh_grow_o slot SN SN'); [|exact (H12 u Hu)].
    intros t r s0 Hs. destruct (Hsnt t r s0 Hs) as [Ho|Hle]; [left; exact Ho|right; exact (Hle u Hu)].
Qed.

Lemma srv_sloto_srv slot (SN SN' : N -> N -> server -> Prop) s s' cl c pend muts acks :
  (forall t r s1, SN t r s1 -> SN' t r s1) ->
  (forall e a t r s0, mutation_tick (sc_ticks cl) e = Some a -> SN' t r s0 -> a <= r -> SN t r s0) ->
  sv_tick s <= sv_tick s' -> sv_now s <= sv_now s' ->
  srv_slot_invr slot SN s cl c pend muts acks -> srv_slot_invr slot SN' s' cl c pend muts acks.
Proof.
  intros Hsn Hback Ht Hn [H1 H2 H3 H4 H5 H6 H7 H8 H9 H10 H11 H12].
  assert (G : forall g g' e a, g <= g' -> conf_sincer SN c pend g e a -> conf_sincer SN' c pend g' e a).
  { intros g g' e a Hg Hc. rewrite <- (app_nil_r pend).
    apply (conf_sinceo_grow SN SN' Hsn c pend [] (fun t r s1 u0 _ (F : In u0 []) => match F with end) g g' e a Hg Hc). }
  constructor; try assumption.
  - intros e a Hst. apply (G (sv_tick s + 1)); [lia|exact (H1 e a Hst)].
  - intros i info e Hi Hinfo He. apply (G 0); [lia|exact (H2 i info e Hi Hinfo He)].
  - intros m info Hm Hinfo. destruct (H3 m info Hm Hinfo) as [[s1 A] B]. split; [exists s1; exact (Hsn _ _ _ A)|exact B].
  - lia.
  - intros e a Hst t r s0 Hs0 Hle. exact (H9 e a Hst t r s0 (Hback e a t r s0 Hst Hs0 Hle) Hle).
  - destruct H10 as [A B]. split; [intros e a Hst; pose proof (A e a Hst); lia|intros i info Hi; pose proof (B i info Hi); lia].
Qed.

(* ================================================================== *)
(* 2. acknowledgements and cleanup                                    *)
(* ================================================================== *)

Lemma srv_sloto_ack slot (SN : N -> N -> server -> Prop) s cl c pend muts i acks :
  sv_now s < MAX_CHANGE_AGE ->
  srv_slot_invr slot SN s cl c pend muts (i :: acks) ->
  srv_slot_invr slot SN s (with_ticks cl (ack_mutate_message (sc_ticks cl) (sv_now s) i)) c pend muts acks.
Proof.
  intros Hmax [H1 H2 H3 H4 H5 H6 H7 H8 H9 [H10a H10b] H11 H12]. set (now := sv_now s) in *.
  destruct (ack_frame (sc_ticks cl) now i) as (F1 & F2 & F3 & F4). cbv zeta in F1, F2, F3, F4.
  assert (Hget : forall j info, al_get j (ct_mutations (ack_mutate_message (sc_ticks cl) now i)) = Some info ->
            al_get j (ct_mutations (sc_ticks cl)) = Some info).
  { intros j info Hj. rewrite F4 in Hj. destruct (N.eq_dec j i) as [->|Hne]; [rewrite al_get_remove_same in Hj; discriminate|].
    rewrite al_get_remove_other in Hj by exact Hne. exact Hj. }
  (* the stamps only grow *)
  assert (Hmono : forall e a', mutation_tick (ack_mutate_message (sc_ticks cl) now i) e = Some a' ->
            exists a, mutation_tick (sc_ticks cl) e = Some a /\ a <= a' /\ a' < now).
  { intros e a' Hst. rewrite ack_stamps in Hst. destruct (al_get i (ct_mutations (sc_ticks cl))) as [info|] eqn:Ei.
    - destruct (existsb (N.eqb e) (mi_entities info)).
      + destruct (mutation_tick (sc_ticks cl) e) as [a|] eqn:Ea; [|discriminate]. cbn [option_map] in Hst. inversion Hst; subst a'.
        pose proof (H10a e a Ea). pose proof (H10b i info Ei). exists a. split; [reflexivity|].
        rewrite (ack_stamp_max (ClientTicks.mi_tick info) now a) by lia. lia.
      + exists a'. split; [exact Hst|]. pose proof (H10a e a' Hst). lia.
    - exists a'. split; [exact Hst|]. pose proof (H10a e a' Hst). lia. }
  constructor; cbn [with_ticks sc_ticks].
  - intros e a Hst. destruct (ack_bounded_by_message_tick (sc_ticks cl) now i e) as [E|(info & old & Hinfo & Hin & _ & E)].
    + rewrite E in Hst. exact (H1 e a Hst).
    + rewrite E in Hst. inversion Hst; subst a. destruct (H2 i info e (or_introl eq_refl) Hinfo Hin) as (t_a & s_a & A & B).
      exists t_a, s_a. split; [exact A|]. destruct B as [(u & _ & Hlt & _)|B]; [lia|right; exact B].
  - intros j info e Hj Hinfo He. exact (H2 j info e (or_intror Hj) (Hget j info Hinfo) He).
  - intros m info Hm Hinfo. exact (H3 m info Hm (Hget _ info Hinfo)).
  - intros m Hm. rewrite F2. exact (H4 m Hm).
  - intros j Hj. rewrite F2. exact (H5 j (or_intror Hj)).
  - rewrite F1. exact H6.
  - intros u Hu. rewrite F1. exact (H7 u Hu).
  - rewrite F4. apply al_remove_nodup. exact H8.
  - intros e a' Hst t r s0 Hs0 Hle. destruct (Hmono e a' Hst) as (a & Ha & Hle' & _). apply (H9 e a Ha t r s0 Hs0). lia.
  - split.
    + intros e a' Hst. destruct (Hmono e a' Hst) as (_ & _ & _ & Hlt). exact Hlt.
    + intros j info Hj. exact (H10b j info (Hget j info Hj)).
  - intros m Hm. rewrite F1. exact (H11 m Hm).
  - rewrite F1. exact H12.
Qed.

Lemma srv_sloto_ack_all slot (SN : N -> N -> server -> Prop) s c pend muts idxs : sv_now s < MAX_CHANGE_AGE -> forall cl acks,
  srv_slot_invr slot SN s cl c pend muts (idxs ++ acks) ->
  srv_slot_invr slot SN s (with_ticks cl (ack_all (sc_ticks cl) (sv_now s) idxs)) c pend muts acks.
Proof.
  intros Hmax. induction idxs as [|i t IH]; intros cl acks H.
  - unfold ack_all. cbn [fold_left]. rewrite with_ticks_same. exact H.
  - rewrite ack_all_cons. cbn [app] in H. apply (srv_sloto_ack slot SN s cl c pend muts i (t ++ acks) Hmax) in H.
    apply IH in H. cbn [with_ticks sc_ticks] in H. exact H.
Qed.

Lemma srv_sloto_cleanup slot (SN : N -> N -> server -> Prop) s cl c pend muts acks min_ts :
  srv_slot_invr slot SN s cl c pend muts acks ->
  srv_slot_invr slot SN s (with_ticks cl (cleanup_older_mutations (sc_ticks cl) min_ts)) c pend muts acks.
Proof.
  intros [H1 H2 H3 H4 H5 H6 H7 H8 H9 [H10a H10b] H11 H12].
  assert (Hget : forall j info, al_get j (ct_mutations (cleanup_older_mutations (sc_ticks cl) min_ts)) = Some info ->
            al_get j (ct_mutations (sc_ticks cl)) = Some info).
  { intros j info Hj. cbn [cleanup_older_mutations ct_mutations] in Hj. rewrite (al_get_filter (fun info => negb (mi_timestamp info <? min_ts))) in Hj by exact H8.
    destruct (al_get j (ct_mutations (sc_ticks cl))) as [v|]; [|discriminate].
    destruct (negb (mi_timestamp v <? min_ts)); [exact Hj|discriminate]. }
  constructor; cbn [with_ticks sc_ticks].
  - exact H1.
  - intros j info e Hj Hinfo He. exact (H2 j info e Hj (Hget j info Hinfo) He).
  - intros m info Hm Hinfo. exact (H3 m info Hm (Hget _ info Hinfo)).
  - exact H4.
  - exact H5.
  - exact H6.
  - exact H7.
  - cbn [cleanup_older_mutations ct_mutations]. apply al_filter_nodup. exact H8.
  - exact H9.
  - split; [exact H10a|]. intros j info Hj. exact (H10b j info (Hget j info Hj)).
  - exact H11.
  - exact H12.
Qed.

(* the parts of [srv_slot_invr] only read the acknowledgement bookkeeping of the record *)
Lemma srv_sloto_ticks slot (SN : N -> N -> server -> Prop) s cl cl' c pend muts acks :
  sc_ticks cl' = sc_ticks cl -> srv_slot_invr slot SN s cl c pend muts acks -> srv_slot_invr slot SN s cl' c pend muts acks.
Proof. intros E [H1 H2 H3 H4 H5 H6 H7 H8 H9 H10 H11 H12]. constructor; rewrite E; assumption. Qed.

Lemma srv_sloto_sub slot (SN : N -> N -> server -> Prop) s cl c pend muts acks muts' acks' :
  (forall m, In m muts' -> In m muts) -> (forall i, In i acks' -> In i acks) ->
  srv_slot_invr slot SN s cl c pend muts acks -> srv_slot_invr slot SN s cl c pend muts' acks'.
Proof.
  intros Hm Ha [H1 H2 H3 H4 H5 H6 H7 H8 H9 H10 H11 H12]. constructor; try assumption.
  - intros i info e Hi. apply H2. apply Ha. exact Hi.
  - intros m info Hin. apply H3. apply Hm. exact Hin.
  - intros m Hin. apply H4. apply Hm. exact Hin.
  - intros i Hi. apply H5. apply Ha. exact Hi.
  - intros m Hin. apply H11. apply Hm. exact Hin.
Qed.

Lemma srv_sloto_default slot (SN : N -> N -> server -> Prop) s cl c : sc_ticks cl = ct_default -> cl_upd_tick c = 0 ->
  srv_slot_invr slot SN s cl c [] [] [].
Proof.
  intros E E0. constructor; rewrite E.
  - intros e a H. discriminate.
  - intros i info e [].
  - intros m info [].
  - intros m [].
  - intros i [].
  - cbn. lia.
  - intros u [].
  - constructor.
  - intros e a H. discriminate.
  - split; [intros e a H; discriminate|intros i info H; discriminate].
  - intros m [].
  - cbn. symmetry. exact E0.
Qed.

(* ---------- [once_known] under acknowledgements, cleanup and game operations ---------- *)

Lemma once_known_ticks s cl cl' :
  (forall e a', mutation_tick (sc_ticks cl') e = Some a' -> exists a, mutation_tick (sc_ticks cl) e = Some a /\ a <= a') ->
  once_known s cl -> once_known s cl'.
Proof. intros H Hk e a' x k cc Hst Hg Hc Hle. destruct (H e a' Hst) as (a & Ha & Hle'). pose proof (Hk e a x k cc Ha Hg Hc Hle). lia. Qed.

Lemma once_known_default s cl : sc_ticks cl = ct_default -> once_known s cl.
Proof. intros E e a x k cc Hst. rewrite E in Hst. discriminate. Qed.

Lemma once_known_srv s s' cl : keeps_added (sv_last_run s') s s' -> sv_last_run s' <= sv_last_run s -> once_known s cl -> once_known s' cl.
Proof.
  intros Hka Hlr Hk e a x k cc Hst Hg Hc Hle. destruct (Hka e x k cc Hg Hc Hle) as (x1 & c1 & Hg1 & Hc1 & Ea).
  rewrite <- Ea. apply (Hk e a x1 k c1 Hst Hg1 Hc1). lia.
Qed.

Lemma once_known_ack slot (SN : N -> N -> server -> Prop) s cl c pend muts i acks :
  sv_now s < MAX_CHANGE_AGE ->
  srv_slot_invr slot SN s cl c pend muts (i :: acks) -> once_known s cl ->
  once_known s (with_ticks cl (ack_mutate_message (sc_ticks cl) (sv_now s) i)).
Proof.
  intros Hmax [H1 H2 H3 H4 H5 H6 H7 H8 H9 [H10a H10b] H11 H12]. set (now := sv_now s) in *.
  apply once_known_ticks. cbn [with_ticks sc_ticks]. intros e a' Hst. rewrite ack_stamps in Hst.
  destruct (al_get i (ct_mutations (sc_ticks cl))) as [info|] eqn:Ei; [|exists a'; split; [exact Hst|lia]].
  destruct (existsb (N.eqb e) (mi_entities info)); [|exists a'; split; [exact Hst|lia]].
  destruct (mutation_tick (sc_ticks cl) e) as [a|] eqn:Ea; [|discriminate]. cbn [option_map] in Hst. inversion Hst; subst a'.
  pose proof (H10a e a Ea). pose proof (H10b i info Ei). exists a. split; [reflexivity|].
  rewrite (ack_stamp_max (ClientTicks.mi_tick info) now a) by lia. lia.
Qed.

Lemma once_known_ack_all slot (SN : N -> N -> server -> Prop) s c pend muts idxs : sv_now s < MAX_CHANGE_AGE -> forall cl acks,
  srv_slot_invr slot SN s cl c pend muts (idxs ++ acks) -> once_known s cl ->
  once_known s (with_ticks cl (ack_all (sc_ticks cl) (sv_now s) idxs)).
Proof.
  intros Hmax. induction idxs as [|i t IH]; intros cl acks H Hk.
  - unfold ack_all. cbn [fold_left]. rewrite with_ticks_same. exact Hk.
  - rewrite ack_all_cons. cbn [app] in H. pose proof (once_known_ack slot SN s cl c pend muts i (t ++ acks) Hmax H Hk) as Hk1.
    apply (srv_slotr_ack slot SN s cl c pend muts i (t ++ acks) Hmax) in H.
    pose proof (IH _ acks H Hk1) as G. cbn [with_ticks sc_ticks] in G. exact G.
Qed.

Lemma once_known_cleanup s cl min_ts : once_known s cl -> once_known s (with_ticks cl (cleanup_older_mutations (sc_ticks cl) min_ts)).
Proof. apply once_known_ticks. intros e a' Hst. exists a'. split; [exact Hst|lia]. Qed.

(* ================================================================== *)
(* 3. collect_entity for a visible entity of a client that knows it   *)
(* ================================================================== *)

Lemma sm_kind_ok k tick : kind_ok k = true -> (k =? 2) = false -> sm k tick = true.
Proof. intros H H2. apply sm_kind_et. unfold kind_et, kind_ok in *. lia. Qed.

(* an inserted component makes `collect_entity` set the stamp of the entity *)
Lemma cep_ins_bump last_run tick rb mt st e x madd k c :
  is_hidden st = false -> In (k, c) (se_comps x) -> (last_run <? c_added c) = true ->
  ec_bump (cep last_run tick rb mt st e x madd) = true.
Proof.
  intros Hh Hin Hlt. unfold cep. rewrite Hh.
  assert (Hi : In (val_of (k, c)) (map val_of (filter (comp_is_ins last_run (last_run <? madd) st mt) (se_comps x)))).
  { apply in_map. apply filter_In. split; [exact Hin|]. unfold comp_is_ins, incremental. cbn [snd]. destruct mt; [|reflexivity].
    rewrite Hlt. cbn [negb]. rewrite andb_false_r. reflexivity. }
  destruct (map val_of (filter (comp_is_ins last_run (last_run <? madd) st mt) (se_comps x))) as [|i0 it]; [destruct Hi|].
  rewrite orb_true_r. cbn [orb app]. reflexivity.
Qed.

(* an entity that still has a stamp after `collect_despawns` is known to the client, replicated and visible *)
Lemma stamp1_visible s cl S e a : srv_ok_v s -> pending_ok_v s cl S -> mutation_tick (sfc_ticks1 s cl) e = Some a ->
  vis_state_of (sfc_vis1 s cl) e = VVisible /\ mutation_tick (sc_ticks cl) e = Some a /\ exists x madd, In (e, x, madd) (replicated_ents s).
Proof.
  intros Hok [Hp Hv] Hst. pose proof (sb_wf s (proj1 Hok)) as Hwf.
  assert (H3 : vis_state_of (sfc_vis1 s cl) e = VVisible /\ ~ In e (sv_despawn_buf s) /\ al_get e S <> None /\
               mutation_tick (sc_ticks cl) e = Some a).
  { destruct (sc_vis cl) as [v|] eqn:Hvis.
    - cbn [vis_ok] in Hv. destruct Hv as [Hleg Hprev].
      destruct (ent_facts s cl S v Hvis Hp Hleg Hprev e) as (F1 & F2 & F3 & F4 & F5).
      assert (Hk : al_get e S <> None) by (intros Hn; rewrite (F4 Hn) in Hst; discriminate).
      destruct (mem_N e (sfc_despawns s cl)) eqn:Ed; [rewrite (F3 eq_refl) in Hst; discriminate|].
      destruct (F5 Hk eq_refl) as (G1 & _ & G3 & G4). rewrite (sv_vis1 s cl v Hvis). cbn [vis_state_of].
      split; [exact G1|]. split; [exact G3|]. split; [exact Hk|]. rewrite <- G4. exact Hst.
    - rewrite (nv_vis1 s cl Hvis). cbn [vis_state_of]. split; [reflexivity|].
      rewrite (nv_ticks1 s cl Hvis), remove_fold_tick in Hst. destruct (mem_N e (sv_despawn_buf s)) eqn:Eb; [discriminate|].
      split; [intros Hin; apply mem_N_In in Hin; congruence|]. split; [|exact Hst].
      apply (proj1 (pk_known _ _ _ Hp e)). rewrite Hst. discriminate. }
  destruct H3 as (A & B & C & D). split; [exact A|]. split; [exact D|].
  destruct (repl_get s e) as [x|] eqn:Er; [|exfalso; exact (B (pk_gone _ _ _ Hp e C Er))].
  apply (repl_get_spec s e x Hwf) in Er. destruct Er as [madd Hin]. exists x, madd. exact Hin.
Qed.

Section CepKnownR.
  Variables (last_run tick : N) (rb : list (N * list N)) (a e : N) (x : sent) (madd : N).
  Hypothesis Hma : (last_run <? madd) = false.
  Hypothesis Hk : forall k c, In (k, c) (se_comps x) -> kind_ok k = true.
  Hypothesis HJ : forall k c, In (k, c) (se_comps x) -> c_added c <= last_run -> c_added c <= a.
  Hypothesis Hnd : NoDup (map fst (se_comps x)).

  Let ec := cep last_run tick rb (Some a) VVisible e x madd.
  Let ins := map val_of (filter (comp_is_ins last_run (last_run <? madd) VVisible (Some a)) (se_comps x)).
  Let muts := map val_of (filter (comp_is_mut last_run tick (last_run <? madd) VVisible (Some a)) (se_comps x)).

  (* every component is in what is sent, or not newer than the acknowledged stamp *)
  Lemma cep_known_cover_o k c : In (k, c) (se_comps x) ->
    In k (map fst (ec_vals ec)) \/ (if k =? 2 then c_added c <= a else c_changed c <= a).
  Proof.
    intros Hin.
    assert (Hv : In k (map fst (ins ++ muts)) \/ In k (map fst muts) \/ (if k =? 2 then c_added c <= a else c_changed c <= a)).
    { destruct (comp_is_ins last_run (last_run <? madd) VVisible (Some a) (k, c)) eqn:Ei.
      - left. rewrite map_app. apply in_or_app. left. unfold ins. rewrite vs_keys_val_of. apply in_map_iff. exists (k, c).
        split; [reflexivity|]. apply filter_In. auto.
      - destruct (comp_is_mut last_run tick (last_run <? madd) VVisible (Some a) (k, c)) eqn:Em.
        + right. left. unfold muts. rewrite vs_keys_val_of. apply in_map_iff. exists (k, c). split; [reflexivity|]. apply filter_In. auto.
        + right. right. unfold comp_is_ins, comp_is_mut in Ei, Em. cbn [snd fst] in Ei, Em.
          destruct (incremental last_run (last_run <? madd) VVisible (Some a) c) as [t|] eqn:Einc; [|discriminate].
          unfold incremental in Einc. destruct (negb (last_run <? madd) && negb (is_gained VVisible) && negb (last_run <? c_added c)) eqn:Ec; [|discriminate].
          inversion Einc; subst t. destruct (k =? 2) eqn:E2.
          * apply (HJ k c Hin). apply andb_prop in Ec. destruct Ec as [_ Ec]. lia.
          * rewrite (sm_kind_ok k tick (Hk k c Hin) E2), andb_true_r in Em. lia. }
    unfold ec, ins, muts in *.
    destruct (cep_known_shape last_run tick rb a e x madd Hma) as [(E & _)|(E & _)]; rewrite E.
    - destruct Hv as [H|[H|H]]; [left; exact H| |right; exact H]. left. rewrite map_app. apply in_or_app. right. exact H.
    - destruct Hv as [H|[H|H]]; [|left; exact H|right; exact H].
      destruct (cep_known_shape last_run tick rb a e x madd Hma) as [(E2 & _)|(_ & _ & _ & _ & Ei & _)].
      + left. rewrite E2 in E. rewrite <- E. exact H.
      + rewrite Ei in H. cbn [app] in H. left. exact H.
  Qed.
End CepKnownR.

(* ================================================================== *)
(* 4. send_for_client                                                 *)
(* ================================================================== *)

Section SendR.
  Variable slot : N.
  Variables SN SN' : N -> N -> server -> Prop.
  Variables (c : cfg) (s3 s' : server) (cl3 : sclient) (p : partition) (cli : client)
            (pend : list update_msg) (muts : list mutate_msg) (acks : list N).
  Hypothesis Hsn : forall t r s1, SN t r s1 -> SN' t r s1.
  Hypothesis Hnewsnap : SN' (sv_tick s3) (sv_now s3) s'.
  Hypothesis Hbound : forall t r s1, SN t r s1 -> t < sv_tick s3.
  Hypothesis Hpos : 1 <= sv_tick s3.
  Hypothesis Hents' : sv_ents s' = sv_ents s3.
  Hypothesis Htick' : sv_tick s' = sv_tick s3.
  Hypothesis Hok : srv_ok_v s3.
  Hypothesis Hev : sv_removed_events s3 = [].
  Hypothesis Hpm : sc_pending_map cl3 = [].
  Hypothesis Heok : ents_oko s3.
  Hypothesis HJ : once_known s3 cl3.
  Hypothesis Hlr' : sv_last_run s' = sv_now s3.
  Hypothesis Hcli : cli_invo slot SN cli pend muts.
  Hypothesis Hslot : srv_slot_invr slot SN s3 cl3 cli pend muts acks.
  Hypothesis Hboundr : forall t r s1, SN t r s1 -> r < sv_now s3.
  Hypothesis Hsn' : forall t r s0, SN' t r s0 -> SN t r s0 \/ (t = sv_tick s3 /\ r = sv_now s3 /\ s0 = s').
  Hypothesis Hnow' : sv_now s' = sv_now s3 + 1.
  Hypothesis Hp3 : pending_ok_v s3 cl3 (fold_left abs_apply pend (client_struct cli)).
  (* the despawn records of this send name no entity referenced, visibly to the slot, in a snapshot so far *)
  Hypothesis Hdf : forall d, In d (sfc_despawns s3 cl3) -> forall t r s0, SN t r s0 -> ~ refd slot s0 d.

  Local Notation S0 := (fold_left abs_apply pend (client_struct cli)).
  Local Notation run := (sv_now s3).
  Local Notation P := (sfc_pure c s3 (sv_now s3) cl3 p).
  Local Notation upd := (sfc_upd s3 (sv_now s3) cl3).
  Local Notation vis1 := (sfc_vis1 s3 cl3).
  Local Notation mt1 e := (mutation_tick (sfc_ticks1 s3 cl3) e).
  Local Notation st1 e := (vis_state_of (sfc_vis1 s3 cl3) e).
  Local Notation ecof e x madd :=
    (cep (sv_last_run s3) (sv_tick s3) (sv_removal_buf s3) (mutation_tick (sfc_ticks1 s3 cl3) e)
         (vis_state_of (sfc_vis1 s3 cl3) e) e x madd).

  (* the record of the slot in the new snapshot is the one `send_for_client` returns *)
  Hypothesis Hfind' : find_client s' slot = Some (fst P).
  Hypothesis Hnowrap : ct_mutate_index (sc_ticks cl3) + N.of_nat (length (co_mutates (snd P))) < 2 ^ 16.

  Let Hwf : ents_wf s3 := sb_wf s3 (proj1 Hok).

  Lemma rv_send_eq_o : send_for_client c s3 run cl3 p = Ok (fst P, snd P).
  Proof. apply sfc_send_eq. Qed.

  Lemma rv_ecs_o : sfc_ecs s3 run cl3 = map (fun exm => (ent_id exm, ecof (ent_id exm) (snd (fst exm)) (snd exm))) (replicated_ents s3).
  Proof. exact (sfc_ecs_nodup s3 run cl3 Hwf). Qed.

  Lemma rv_ec_in_o e x madd : In (e, x, madd) (replicated_ents s3) -> In (e, ecof e x madd) (sfc_ecs s3 run cl3).
  Proof. intros Hin. rewrite rv_ecs_o. apply in_map_iff. exists (e, x, madd). split; [reflexivity|exact Hin]. Qed.

  Lemma rv_ec_of_o e ec : In (e, ec) (sfc_ecs s3 run cl3) -> exists x madd, In (e, x, madd) (replicated_ents s3) /\ ec = ecof e x madd.
  Proof.
    rewrite rv_ecs_o. intros Hin. apply in_map_iff in Hin. destruct Hin as [[[e1 x] madd] [Eq Hin]].
    cbn [ent_id fst snd] in Eq. inversion Eq; subst e1 ec. exists x, madd. auto.
  Qed.

  (* a stamp kept by `collect_despawns` is the old one, and the entity gets no despawn record *)
  Lemma rv_mt1_some_o e a : mt1 e = Some a -> mutation_tick (sc_ticks cl3) e = Some a /\ ~ In e (sfc_despawns s3 cl3).
  Proof. intros H. destruct (sfc_mt1_cases s3 cl3 e) as [E|[E Hn]]; [congruence|]. split; [congruence|exact Hn]. Qed.

  (* the stamps after the send *)
  Lemma rv_stamp_afteo e :
    mutation_tick (sc_ticks (fst P)) e =
    if existsb (fun eec => (fst eec =? e) && ec_bump (snd eec)) (sfc_ecs s3 run cl3) then Some run else mt1 e.
  Proof.
    rewrite (sfc_ticks_final c s3 cl3 p). unfold mutation_tick.
    destruct (mut_ticks_fields run (sv_elapsed s3) (sfc_parts c s3 run cl3 p) (sfc_ticks3 s3 run cl3)) as (M1 & _). rewrite M1.
    destruct (sfc_ticks3_fields s3 run cl3) as (T1 & _). rewrite T1.
    destruct (sfc_ticks2_fields s3 run cl3) as (_ & _ & _ & T4). exact (T4 e).
  Qed.

  Lemma rv_stamp_bumped_o e x madd : In (e, x, madd) (replicated_ents s3) -> ec_bump (ecof e x madd) = true ->
    mutation_tick (sc_ticks (fst P)) e = Some run.
  Proof.
    intros Hin Hb. rewrite rv_stamp_afteo.
    replace (existsb (fun eec => (fst eec =? e) && ec_bump (snd eec)) (sfc_ecs s3 run cl3)) with true; [reflexivity|].
    symmetry. apply existsb_exists. exists (e, ecof e x madd). split; [exact (rv_ec_in_o e x madd Hin)|].
    cbn [fst snd]. rewrite N.eqb_refl, Hb. reflexivity.
  Qed.

  Lemma rv_stamp_kept_o e :
    (forall x madd, In (e, x, madd) (replicated_ents s3) -> ec_bump (ecof e x madd) = false) ->
    mutation_tick (sc_ticks (fst P)) e = mt1 e.
  Proof.
    intros H. rewrite rv_stamp_afteo.
    replace (existsb (fun eec => (fst eec =? e) && ec_bump (snd eec)) (sfc_ecs s3 run cl3)) with false; [reflexivity|].
    symmetry. apply not_true_is_false. intros Hex. apply existsb_exists in Hex. destruct Hex as [[e' ec] [Hin Hb]].
    cbn [fst snd] in Hb. apply andb_prop in Hb. destruct Hb as [He Hb]. assert (e' = e) by lia. subst e'.
    destruct (rv_ec_of_o e ec Hin) as (x & madd & Hr & ->). rewrite (H x madd Hr) in Hb. discriminate.
  Qed.

  (* a replicated entity *)
  Lemma rv_repl_o e x madd : In (e, x, madd) (replicated_ents s3) ->
    get_ent s3 e = Some x /\ get_ent s' e = Some x /\ comps_oko (sv_now s3) (se_comps x) /\ se_marker x = Some madd.
  Proof.
    intros Hin. destruct (replicated_ents_get s3 e x madd Hwf Hin) as (Hg & Hm & Ha).
    split; [exact Hg|]. split; [unfold get_ent; rewrite Hents'; exact Hg|]. split; [exact (Heok e x Hg)|exact Hm].
  Qed.

  Lemma comps_in_geto (x : sent) k cc : comps_oko (sv_now s3) (se_comps x) -> (In (k, cc) (se_comps x) <-> al_get k (se_comps x) = Some cc).
  Proof. intros [Hs _]. apply ksorted_In_get. exact Hs. Qed.

  (* what a visible entity contributes, and what it promises *)
  Lemma rv_ent_o e x madd : In (e, x, madd) (replicated_ents s3) -> st1 e <> VHidden ->
    let ec := ecof e x madd in
    entry_valsr s' e (ec_vals ec) /\
    ((ec_entry ec = Some (ec_vals ec) /\ ec_bump ec = true /\ entry_full s' e (ec_vals ec)) \/
     exists a, mt1 e = Some a /\ entry_sinceo s' e (ec_vals ec) a /\
       ((ec_bump ec = true /\ ec_muts ec = [] /\ (ec_entry ec = None -> ec_vals ec = [] /\ al_get e (sv_removal_buf s3) <> None)) \/
        (ec_bump ec = false /\ ec_entry ec = None /\ ec_muts ec = ec_vals ec /\ al_get e (sv_removal_buf s3) = None))).
  Proof.
    intros Hin Hnh. cbv zeta. destruct (rv_repl_o e x madd Hin) as (Hg & Hg' & Hcok & Hmk).
    pose proof Hcok as [Hsorted Hall].
    assert (Hnodup : NoDup (map fst (se_comps x))) by exact (ksorted_nodup _ Hsorted).
    assert (Hsub : forall vals, NoDup (map fst vals) ->
              (forall k v, In (k, v) vals -> exists cc, In (k, cc) (se_comps x) /\ v = c_val cc) -> entry_valsr s' e vals).
    { intros vals Hn Hv. split; [exact Hn|]. exists x. split; [exact Hg'|]. intros k v Hkv. destruct (Hv k v Hkv) as (cc & Hcc & ->).
      exists cc. split; [apply comps_in_geto; assumption|reflexivity]. }
    (* a new entity for the client: everything is sent *)
    assert (Hfull : mt1 e = None \/ st1 e = VGained \/ (sv_last_run s3 <? madd) = true ->
              entry_valsr s' e (ec_vals (ecof e x madd)) /\
              (ec_entry (ecof e x madd) = Some (ec_vals (ecof e x madd)) /\ ec_bump (ecof e x madd) = true /\
               entry_full s' e (ec_vals (ecof e x madd)))).
    { intros Hnew. rewrite (cep_full (sv_last_run s3) (sv_tick s3) (sv_removal_buf s3) (mt1 e) (st1 e) e x madd Hnh Hnew).
      unfold ec_vals. cbn [ec_entry ec_bump]. split.
      - apply Hsub; [unfold all_comps; rewrite vs_keys_val_of; exact Hnodup|]. intros k v Hkv. unfold all_comps in Hkv.
        apply in_map_iff in Hkv. destruct Hkv as [[k0 cc] [E Hkc]]. unfold val_of in E. cbn in E. inversion E; subst k0 v. exists cc. auto.
      - split; [reflexivity|]. split; [reflexivity|]. intros x1 k cc Hx1 Hk. rewrite Hg' in Hx1. inversion Hx1; subst x1.
        unfold all_comps. rewrite vs_keys_val_of. apply in_map_iff. exists (k, cc). split; [reflexivity|]. apply comps_in_geto; assumption. }
    destruct (mt1 e) as [a|] eqn:Emt.
    2:{ destruct (Hfull (or_introl eq_refl)) as [A B]. split; [exact A|left; exact B]. }
    destruct (sv_last_run s3 <? madd) eqn:Ema.
    { destruct (Hfull (or_intror (or_intror eq_refl))) as [A B]. split; [exact A|left; exact B]. }
    destruct (st1 e) eqn:Est; [congruence| |].
    { destruct (Hfull (or_intror (or_introl eq_refl))) as [A B]. split; [exact A|left; exact B]. }
    assert (Hk01 : forall k cc, In (k, cc) (se_comps x) -> kind_ok k = true) by (intros k cc Hkc; exact (proj1 (Hall k cc Hkc))).
    assert (HJ1 : forall k cc, In (k, cc) (se_comps x) -> c_added cc <= sv_last_run s3 -> c_added cc <= a).
    { intros k cc Hkc. exact (HJ e a x k cc (proj1 (rv_mt1_some_o e a Emt)) Hg (proj1 (comps_in_geto x k cc Hcok) Hkc)). }
    destruct (cep_known_vals (sv_last_run s3) (sv_tick s3) (sv_removal_buf s3) a e x madd Ema Hnodup) as [Hn Hv].
    split; [apply Hsub; assumption|]. right. exists a. split; [reflexivity|]. split.
    - intros x1 k cc Hx1 Hk. rewrite Hg' in Hx1. inversion Hx1; subst x1.
      apply (cep_known_cover_o (sv_last_run s3) (sv_tick s3) (sv_removal_buf s3) a e x madd Ema Hk01 HJ1 k cc). apply comps_in_geto; assumption.
    - destruct (cep_known_shape (sv_last_run s3) (sv_tick s3) (sv_removal_buf s3) a e x madd Ema) as [(E1 & E2 & E3)|(E1 & E2 & E3 & E4 & E5 & E6)].
      + left. split; [exact E2|]. split; [exact E3|]. intros Hnone. unfold ec_vals. rewrite Hnone, E3. split; [reflexivity|].
        (* no entry although bumped: only a pending removal can be the reason *)
        unfold cep in Hnone, E2 |- *. cbn [is_hidden] in *. rewrite Ema in *. cbn [orb is_gained] in *.
        destruct (al_get e (sv_removal_buf s3)); [discriminate|]. exfalso.
        match type of Hnone with ec_entry (if ?b then _ else _) = None => destruct b eqn:Eb end; [|cbn in E2; discriminate].
        match type of Eb with (match ?l with [] => false | _ :: _ => true end || false) = true => destruct l eqn:El end; [discriminate|].
        cbn [app] in Hnone. discriminate.
      + right. split; [exact E3|]. split; [exact E2|]. split; [rewrite E4, E1; reflexivity|exact E6].
  Qed.

  (* ---------- the update message ---------- *)

  Lemma rv_upd_fields_o :
    u_tick upd = sv_tick s3 /\ u_maps upd = [] /\ u_despawns upd = sfc_despawns s3 cl3 /\
    u_removals upd = sfc_removals s3 cl3 /\ u_changes upd = changed_set s3 run cl3.
  Proof. unfold sfc_upd. cbn [u_tick u_maps u_despawns u_removals u_changes]. rewrite Hpm. repeat split; reflexivity. Qed.

  Lemma rv_removal_in_o e : In e (map fst (sfc_removals s3 cl3)) <-> (al_get e (sv_removal_buf s3) <> None /\ vis_visible vis1 e = true).
  Proof.
    unfold sfc_removals, collect_removals. rewrite keys_sort_by_key. split.
    - intros H. apply in_map_iff in H. destruct H as [[e' ks] [E Hin]]. cbn in E. subst e'. apply filter_In in Hin. destruct Hin as [Hin Hv].
      split; [|exact Hv]. apply al_get_keys_In. apply (in_map fst) in Hin. exact Hin.
    - intros [Hg Hv]. destruct (al_get e (sv_removal_buf s3)) as [ks|] eqn:E; [|congruence].
      apply in_map_iff. exists (e, ks). split; [reflexivity|]. apply filter_In. split; [apply Server_proofs.al_get_In; exact E|exact Hv].
  Qed.

  Lemma rv_changes_get_o e x madd : In (e, x, madd) (replicated_ents s3) ->
    al_get e (changed_set s3 run cl3) = ec_entry (ecof e x madd).
  Proof.
    intros Hin. pose proof (proj1 (changed_mutated_nodup s3 run cl3 Hwf)) as Hnd.
    destruct (ec_entry (ecof e x madd)) as [en|] eqn:Een.
    - apply In_al_get_nodup; [exact Hnd|]. apply (changed_entry_any s3 cl3 run e x madd en Hwf Hin). exact Een.
    - destruct (al_get e (changed_set s3 run cl3)) as [en|] eqn:Eg; [|reflexivity]. apply Server_proofs.al_get_In in Eg.
      apply (changed_entry_any s3 cl3 run e x madd en Hwf Hin) in Eg. congruence.
  Qed.

  (* an entity the message mentions is replicated and visible to the client *)
  Lemma rv_mentions_repl_o e : mentions upd e -> exists x madd, In (e, x, madd) (replicated_ents s3) /\ st1 e <> VHidden.
  Proof.
    destruct rv_upd_fields_o as (_ & _ & _ & Er & Ec). unfold mentions. rewrite Er, Ec. intros [H|H].
    - apply rv_removal_in_o in H. destruct H as [Hg Hv]. pose proof (proj2 Hok e Hg) as Hr.
      destruct (repl_get s3 e) as [x|] eqn:Ex; [|congruence].
      apply (repl_get_spec s3 e x Hwf) in Ex. destruct Ex as [madd Hin]. exists x, madd. split; [exact Hin|].
      apply vis_visible_state. exact Hv.
    - assert (Hk : In e (map ent_id (replicated_ents s3))).
      { rewrite changed_set_eq in H. apply entries_of_keys_incl in H. rewrite sfc_ecs_ids in H. exact H. }
      apply in_map_iff in Hk. destruct Hk as [[[e1 x] madd] [E Hin]]. cbn [ent_id fst] in E. subst e1. exists x, madd. split; [exact Hin|].
      apply al_get_keys_iff in H. rewrite (rv_changes_get_o e x madd Hin) in H. intros Hh. rewrite Hh in H. apply H. reflexivity.
  Qed.

  Lemma rv_mentions_o e : mentions upd e ->
    exists x madd, In (e, x, madd) (replicated_ents s3) /\ st1 e <> VHidden /\
                   al_dflt e (u_changes upd) = ec_vals (ecof e x madd) /\ ec_bump (ecof e x madd) = true.
  Proof.
    intros Hm. destruct (rv_mentions_repl_o e Hm) as (x & madd & Hin & Hnh). exists x, madd. split; [exact Hin|]. split; [exact Hnh|].
    destruct rv_upd_fields_o as (_ & _ & _ & Er & Ec). unfold al_dflt. rewrite Ec, (rv_changes_get_o e x madd Hin).
    destruct (ec_entry (ecof e x madd)) as [en|] eqn:Een.
    - split; [unfold ec_vals; rewrite Een; reflexivity|]. exact (cep_entry_bump _ _ _ _ _ _ _ _ _ Een).
    - destruct (rv_ent_o e x madd Hin Hnh) as (_ & [(E & _)|(a & _ & _ & [(B & M & F)|(B & _ & _ & R)])]); [congruence| |].
      + destruct (F Een) as [Ev _]. rewrite Ev. auto.
      + exfalso. destruct Hm as [Hm|Hm].
        * rewrite Er in Hm. apply rv_removal_in_o in Hm. destruct Hm as [Hm _]. congruence.
        * rewrite Ec in Hm. apply al_get_keys_iff in Hm. rewrite (rv_changes_get_o e x madd Hin), Een in Hm. congruence.
  Qed.

  (* an entity whose contribution is bumped is mentioned *)
  Lemma rv_bump_mentions_o e x madd : In (e, x, madd) (replicated_ents s3) -> ec_bump (ecof e x madd) = true -> mentions upd e.
  Proof.
    intros Hin Hb. destruct rv_upd_fields_o as (_ & _ & _ & Er & Ec). unfold mentions. rewrite Er, Ec.
    assert (Hnh : st1 e <> VHidden) by (intros Hh; rewrite Hh, cep_hidden in Hb; discriminate).
    destruct (ec_entry (ecof e x madd)) as [en|] eqn:Een.
    - right. apply al_get_keys_iff. rewrite (rv_changes_get_o e x madd Hin), Een. discriminate.
    - left. apply rv_removal_in_o. split; [|apply vis_visible_state; exact Hnh].
      destruct (rv_ent_o e x madd Hin Hnh) as (_ & [(E & _)|(a0 & _ & _ & [(_ & _ & F)|(B & _)])]); [congruence| |congruence].
      exact (proj2 (F Een)).
  Qed.

  Lemma rv_shape_o : upd_shaper upd.
  Proof.
    destruct rv_upd_fields_o as (_ & Em & _ & Er & Ec). split; [exact Em|]. split.
    - rewrite Er. unfold sfc_removals, collect_removals. apply nodup_sort_by_key. apply vs_nodup_filter. exact (sb_rb_nodup s3 (proj1 Hok)).
    - rewrite Ec. exact (proj1 (changed_mutated_nodup s3 run cl3 Hwf)).
  Qed.

  Lemma rv_has_upd_o e : mentions upd e -> sfc_has_upd s3 run cl3 = true.
  Proof.
    intros [H|H]; unfold sfc_has_upd, update_is_empty.
    - destruct (u_removals upd); [destruct H|]. destruct (u_maps upd), (u_despawns upd); reflexivity.
    - destruct (u_changes upd); [destruct H|]. destruct (u_maps upd), (u_despawns upd), (u_removals upd); reflexivity.
  Qed.

  Lemma rv_pend_lt_o u : In u pend -> u_tick u < sv_tick s3.
  Proof. intros Hu. destruct (co_pend _ _ _ _ _ Hcli u Hu) as (_ & r & s1 & H1 & _). exact (Hbound _ _ _ H1). Qed.

  (* a stamp the server held before this run is still backed, whatever is appended at the tick of this run *)
  Lemma rv_conf_old_o extra g e a : (forall u, In u extra -> u_tick u = sv_tick s3) ->
    mutation_tick (sc_ticks cl3) e = Some a ->
    (forall u, In u pend -> u_tick u < g) ->
    conf_sincer SN' cli (pend ++ extra) g e a.
  Proof.
    intros Hex Hst Hlt. destruct (sr_K _ _ _ _ _ _ _ _ Hslot e a Hst) as (t_a & s_a & A & B).
    exists t_a, s_a. split; [exact (Hsn _ _ _ A)|]. destruct B as [(u & Hu & _ & Hm & Hle)|[B|(Hn & Hno)]].
    - left. exists u. split; [apply in_or_app; left; exact Hu|]. split; [exact (Hlt u Hu)|auto].
    - right. left. exact B.
    - right. right. split; [exact Hn|]. intros u Hu Hm. apply in_app_or in Hu. destruct Hu as [Hu|Hu]; [exact (Hno u Hu Hm)|].
      rewrite (Hex u Hu). pose proof (Hbound _ _ _ A). lia.
  Qed.

  Lemma rv_upd_ok_o extra : (forall u, In u extra -> u = upd) -> upd_oko SN' cli (pend ++ extra) upd.
  Proof.
    intros Hex. split; [exact rv_shape_o|]. destruct rv_upd_fields_o as (Et & _). exists run, s'. split; [rewrite Et; exact Hnewsnap|].
    intros e Hm. destruct (rv_mentions_o e Hm) as (x & madd & Hr & Hnh & Ed & Hb). rewrite Ed.
    destruct (rv_ent_o e x madd Hr Hnh) as (Hv & Hc). split; [exact Hv|].
    destruct Hc as [(_ & _ & Hf)|(a & Hst & Hs & _)]; [left; exact Hf|right]. exists a. split; [exact Hs|]. rewrite Et.
    apply rv_conf_old_o; [intros u Hu; rewrite (Hex u Hu); exact Et|exact (proj1 (rv_mt1_some_o e a Hst))|exact rv_pend_lt_o].
  Qed.

  (* ---------- the structure ---------- *)

  Lemma rv_vstruct'_o : vstruct slot s' = struct_vis s3 (fst P).
  Proof. unfold vstruct. rewrite Hfind'. apply struct_vis_ext. exact Hents'. Qed.

  Lemma rv_diff_o : struct_equiv (abs_send S0 (co_update (snd P))) (vstruct slot s').
  Proof.
    rewrite rv_vstruct'_o.
    exact (proj1 (tick_sends_diff_any c s3 run cl3 p (fst P) (snd P) S0 [] Hok Hev Hp3 rv_send_eq_o)).
  Qed.

  Lemma rv_S_untouched_o e : ~ mentions upd e -> ~ In e (sfc_despawns s3 cl3) ->
    al_get e (abs_send S0 (co_update (snd P))) = al_get e S0.
  Proof.
    intros Hnm Hnd. rewrite (sfc_update_out c s3 cl3 p). destruct (sfc_has_upd s3 run cl3); [|reflexivity]. cbn [abs_send].
    apply untouched_get. destruct rv_upd_fields_o as (_ & _ & Ed & _). unfold untouched. rewrite Ed.
    split; [exact Hnd|]. unfold mentions in Hnm. tauto.
  Qed.

  Lemma rv_new_o t r s0 : SN' t r s0 -> SN t r s0 \/ forall t0 r0 s00, SN t0 r0 s00 -> r0 < r.
  Proof. intros H. destruct (Hsn' t r s0 H) as [Ho|(_ & -> & _)]; [left; exact Ho|right]. intros t0 r0 s00 H0. exact (Hboundr _ _ _ H0). Qed.

  (* an entity whose stamp is kept and that the update message does not mention: same visible kinds since that stamp, up to
     the new snapshot *)
  Lemma rv_kstable_o e a : mutation_tick (sc_ticks cl3) e = Some a -> ~ mentions upd e -> ~ In e (sfc_despawns s3 cl3) ->
    forall t r s0, SN' t r s0 -> a <= r ->
      opt_equiv (al_get e (vstruct slot s0)) (al_get e (abs_send S0 (co_update (snd P)))) /\
      opt_equiv (al_get e (vstruct slot s0)) (al_get e (vstruct slot s')).
  Proof.
    intros Hst Hnm Hnd t r s0 Hs0 Ha.
    assert (Hd : opt_equiv (al_get e (abs_send S0 (co_update (snd P)))) (al_get e (vstruct slot s'))) by exact (proj1 (struct_equiv_pointwise _ _) rv_diff_o e).
    destruct (Hsn' t r s0 Hs0) as [Ho|(_ & _ & ->)].
    - pose proof (sr_SK _ _ _ _ _ _ _ _ Hslot e a Hst t r s0 Ho Ha) as H1. rewrite <- (rv_S_untouched_o e Hnm Hnd) in H1.
      split; [exact H1|exact (opt_equiv_trans _ _ _ H1 Hd)].
    - split; [apply opt_equiv_sym; exact Hd|apply opt_equiv_refl].
  Qed.

  (* ---------- the mutate messages ---------- *)

  (* the entries of the mutate messages *)
  Lemma rv_mut_entry_o m e vals : In m (co_mutates (snd P)) -> In (e, vals) (m_body m) ->
    exists x madd, In (e, x, madd) (replicated_ents s3) /\ ec_muts (ecof e x madd) = vals /\ vals <> [] /\
                   st1 e <> VHidden /\ ec_entry (ecof e x madd) = None /\ ec_bump (ecof e x madd) = false.
  Proof.
    intros Hm Hb. destruct (sfc_body_entry _ _ _ _ _ _ _ m e vals rv_send_eq_o Hm Hb) as [Hin _].
    rewrite mutated_set_eq, In_muts_of in Hin. destruct Hin as (ec & Hec & Em & Hne).
    destruct (rv_ec_of_o e ec Hec) as (x & madd & Hin & ->). exists x, madd. split; [exact Hin|]. split; [exact Em|]. split; [exact Hne|].
    destruct vals as [|[k0 v0] r0]; [congruence|].
    assert (H0 : In (k0, v0) (ec_muts (ecof e x madd))) by (rewrite Em; left; reflexivity).
    apply cep_muts_sound in H0. destruct H0 as (Z & A & B & _). auto.
  Qed.

  Lemma rv_mut_ok_o extra m : (forall u, In u extra -> u = upd /\ sfc_has_upd s3 run cl3 = true) ->
    In m (co_mutates (snd P)) -> mut_oko slot SN' cli (pend ++ extra) m.
  Proof.
    intros Hex Hm. destruct (sfc_mut_header c s3 cl3 p m Hm) as [Ht Hu]. destruct rv_upd_fields_o as (Et & _).
    assert (Hle : m_upd_tick m <= sv_tick s3).
    { rewrite Hu. destruct (sfc_has_upd s3 run cl3); [lia|exact (sr_ut _ _ _ _ _ _ _ _ Hslot)]. }
    split; [rewrite Ht; exact Hle|]. split.
    { intros u0 Hu0. left. apply in_app_or in Hu0. destruct Hu0 as [Hu0|Hu0].
      - rewrite Hu. destruct (sfc_has_upd s3 run cl3); [pose proof (rv_pend_lt_o u0 Hu0); lia|exact (sr_utp _ _ _ _ _ _ _ _ Hslot u0 Hu0)].
      - destruct (Hex u0 Hu0) as [-> Eh]. rewrite Hu, Eh, Et. lia. }
    exists run, s'. split; [rewrite Ht; exact Hnewsnap|].
    intros e vals Hb. destruct (rv_mut_entry_o m e vals Hm Hb) as (x & madd & Hr & Emu & Hne & Hnh & Een & Ebump).
    destruct (rv_ent_o e x madd Hr Hnh) as (Hv & [(_ & B & _)|(a & Hst & Hs & [(B & _)|(_ & _ & Ev & Erb)])]); [congruence|congruence|].
    rewrite Emu in Ev. rewrite <- Ev in Hv, Hs. split; [exact Hv|]. exists a. split; [exact Hs|].
    destruct (rv_mt1_some_o e a Hst) as [Hst0 Hnd].
    assert (Hnm : ~ mentions upd e).
    { destruct rv_upd_fields_o as (_ & _ & _ & Er & Ec). unfold mentions. rewrite Er, Ec. intros [Hm0|Hm0].
      - apply rv_removal_in_o in Hm0. destruct Hm0 as [Hm0 _]. congruence.
      - apply al_get_keys_iff in Hm0. rewrite (rv_changes_get_o e x madd Hr), Een in Hm0. congruence. }
    split.
    - apply rv_conf_old_o; [intros u0 Hu0; rewrite (proj1 (Hex u0 Hu0)); exact Et|exact Hst0|].
      intros u0 Hu0. rewrite Hu. destruct (sfc_has_upd s3 run cl3).
      + pose proof (rv_pend_lt_o u0 Hu0). lia.
      + pose proof (sr_utp _ _ _ _ _ _ _ _ Hslot u0 Hu0). lia.
    - intros t r s0 Hs0 Ha _. exact (proj2 (rv_kstable_o e a Hst0 Hnm Hnd t r s0 Hs0 Ha)).
  Qed.

  (* ---------- the invariants after the send ---------- *)

  Definition sendo_extra : list update_msg := if sfc_has_upd s3 run cl3 then [upd] else [].

  Lemma sendo_extra_out : sendo_extra = match co_update (snd P) with Some u => [u] | None => [] end.
  Proof. unfold sendo_extra. rewrite (sfc_update_out c s3 cl3 p). destruct (sfc_has_upd s3 run cl3); reflexivity. Qed.

  Lemma sendo_extra_in u : In u sendo_extra -> u = upd /\ sfc_has_upd s3 run cl3 = true.
  Proof. unfold sendo_extra. destruct (sfc_has_upd s3 run cl3); [intros [<-|[]]; auto|intros []]. Qed.

  Lemma sendo_new t r s1 u : SN t r s1 -> In u sendo_extra -> t < u_tick u.
  Proof. intros H Hu. rewrite (proj1 (sendo_extra_in u Hu)), (proj1 rv_upd_fields_o). exact (Hbound _ _ _ H). Qed.

  Lemma sendo_case (p0 : list update_msg) u q : pend ++ sendo_extra = p0 ++ u :: q ->
    (exists q', q = q' ++ sendo_extra /\ pend = p0 ++ u :: q') \/ (q = [] /\ In u sendo_extra /\ p0 = pend).
  Proof.
    intros E. unfold sendo_extra in *. destruct (sfc_has_upd s3 run cl3).
    - symmetry in E. apply app_snoc_split in E. destruct E as [[E1 E2]|[q' [E1 E2]]]; [discriminate|].
      destruct q' as [|f q'']; cbn [app] in E1.
      + injection E1 as Eu Eq. right. rewrite app_nil_r in E2. split; [exact Eq|]. split; [left; symmetry; exact Eu|symmetry; exact E2].
      + injection E1 as Eu Eq. left. exists q''. split; [exact Eq|]. rewrite Eu. exact E2.
    - rewrite app_nil_r in E. left. exists q. split; [rewrite app_nil_r; reflexivity|exact E].
  Qed.

  Theorem sendo_cli : cli_invo slot SN' cli (pend ++ sendo_extra) (muts ++ co_mutates (snd P)).
  Proof.
    pose proof Hcli as [H1 H2 H3 H4 H5 H6 H7 H8 H9 H10 H11 H12]. destruct rv_upd_fields_o as (Et & _ & Ed & _).
    constructor; try assumption.
    - intros e x h Hh. destruct (H4 e x h Hh) as (r & s1 & x1 & A & B1 & B2 & B3). exists r, s1, x1. split; [exact (Hsn _ _ _ A)|].
      split; [exact B1|]. split; [exact (agreeo_grow slot SN SN' Hsn _ _ _ _ _ B2)|exact B3].
    - destruct H5 as [H5|(r & s1 & H5)]; [left; exact H5|right; exists r, s1; exact (Hsn _ _ _ H5)].
    - intros u Hu. apply in_app_or in Hu. destruct Hu as [Hu|Hu]; [exact (H6 u Hu)|].
      rewrite (proj1 (sendo_extra_in u Hu)), Et. destruct H5 as [->|(r & s1 & H5)]; [lia|exact (Hbound _ _ _ H5)].
    - unfold sendo_extra. destruct (sfc_has_upd s3 run cl3); [|rewrite app_nil_r; exact H7].
      apply ticks_incr_snoc; [exact H7|]. intros a Ha. rewrite Et. exact (rv_pend_lt_o a Ha).
    - intros e x h Hh u Hu. apply in_app_or in Hu. destruct Hu as [Hu|Hu]; [exact (H8 e x h Hh u Hu)|].
      destruct (H4 e x h Hh) as (r & s1 & _ & A & _). exact (sendo_new _ _ _ u A Hu).
    - intros u Hu. apply in_app_or in Hu. destruct Hu as [Hu|Hu].
      + apply (upd_oko_grow SN SN' Hsn cli pend sendo_extra sendo_new). exact (H9 u Hu).
      + destruct (sendo_extra_in u Hu) as [-> _]. apply rv_upd_ok_o. intros u0 Hu0. exact (proj1 (sendo_extra_in u0 Hu0)).
    - intros m Hm. apply in_app_or in Hm. destruct Hm as [Hm|Hm].
      + apply (mut_oko_grow slot SN SN' Hsn cli pend sendo_extra sendo_new); [exact rv_new_o|exact (H10 m Hm)].
      + apply rv_mut_ok_o; [exact sendo_extra_in|exact Hm].
    - intros p0 u q E. destruct (sendo_case p0 u q E) as [(q' & _ & Ep)|(_ & Hu & ->)].
      + destruct (H11 p0 u q' Ep) as (r & s1 & A & B). exists r, s1. split; [exact (Hsn _ _ _ A)|exact B].
      + destruct (sendo_extra_in u Hu) as [-> Hhas]. exists run, s'. split; [rewrite Et; exact Hnewsnap|].
        rewrite fold_left_app. cbn [fold_left]. pose proof rv_diff_o as Hd. rewrite (sfc_update_out c s3 cl3 p), Hhas in Hd. exact Hd.
    - intros u Hu. apply in_app_or in Hu. destruct Hu as [Hu|Hu].
      + apply (desp_fresh_grow_o slot SN SN'); [|exact (H12 u Hu)]. intros t r s0 Hs.
        destruct (Hsn' t r s0 Hs) as [Ho|(-> & _)]; [left; exact Ho|right]. pose proof (rv_pend_lt_o u Hu). lia.
      + destruct (sendo_extra_in u Hu) as [-> _]. intros d Hd t r s0 Hs Hlt. rewrite Ed in Hd.
        destruct (Hsn' t r s0 Hs) as [Ho|(-> & _)]; [exact (Hdf d Hd t r s0 Ho)|]. rewrite Et in Hlt. lia.
  Qed.

  Theorem sendo_slot : srv_slot_invr slot SN' s' (fst P) cli (pend ++ sendo_extra) (muts ++ co_mutates (snd P)) acks.
  Proof.
    pose proof Hslot as [K1 K2 K3 K4 K5 K6 K7 K8 K9 [K10a K10b] K11 K12]. destruct rv_upd_fields_o as (Et & _).
    destruct (sfc_regs c s3 cl3 p Hnowrap) as (R1 & R2 & R3). cbv zeta in R1, R2, R3.
    assert (Hut' : ct_update_tick (sc_ticks (fst P)) = if sfc_has_upd s3 run cl3 then sv_tick s3 else ct_update_tick (sc_ticks cl3)).
    { rewrite (sfc_ticks_final c s3 cl3 p). rewrite (proj1 (proj2 (mut_ticks_fields run (sv_elapsed s3) _ _))).
      exact (proj2 (proj2 (proj2 (sfc_ticks3_fields s3 run cl3)))). }
    (* an entity whose stamp is not from this run: the stamp is the old one, no despawn record, not mentioned *)
    assert (Hkeptcase : forall e a, mutation_tick (sc_ticks (fst P)) e = Some a ->
              (forall x madd, In (e, x, madd) (replicated_ents s3) -> ec_bump (ecof e x madd) = false) ->
              mutation_tick (sc_ticks cl3) e = Some a /\ ~ In e (sfc_despawns s3 cl3) /\ ~ mentions upd e).
    { intros e a Hst Hnb. rewrite (rv_stamp_kept_o e Hnb) in Hst. destruct (rv_mt1_some_o e a Hst) as [A B]. split; [exact A|]. split; [exact B|].
      intros Hm. destruct (rv_mentions_o e Hm) as (x & madd & Hin & _ & _ & Hb). rewrite (Hnb x madd Hin) in Hb. discriminate. }
    assert (Hcases : forall e, (exists x madd, In (e, x, madd) (replicated_ents s3) /\ ec_bump (ecof e x madd) = true) \/
                               (forall x madd, In (e, x, madd) (replicated_ents s3) -> ec_bump (ecof e x madd) = false)).
    { intros e. destruct (repl_get s3 e) as [x|] eqn:Ex.
      - apply (repl_get_spec s3 e x Hwf) in Ex. destruct Ex as [madd Hin]. destruct (ec_bump (ecof e x madd)) eqn:Eb.
        + left. exists x, madd. auto.
        + right. intros x' madd' Hin'. destruct (repl_ents_unique s3 e x madd x' madd' Hwf Hin Hin') as [-> ->]. exact Eb.
      - right. intros x madd Hin. exfalso. assert (repl_get s3 e = Some x) by (apply repl_get_spec; [exact Hwf|exists madd; exact Hin]). congruence. }
    constructor.
    - (* K *)
      intros e a Hst. rewrite Htick'. destruct (Hcases e) as [(x & madd & Hin & Eb)|Hnb].
      + rewrite (rv_stamp_bumped_o e x madd Hin Eb) in Hst. inversion Hst; subst a.
        exists (sv_tick s3), s'. split; [exact Hnewsnap|]. left.
        pose proof (rv_bump_mentions_o e x madd Hin Eb) as Hm.
        exists upd. split; [apply in_or_app; right; unfold sendo_extra; rewrite (rv_has_upd_o e Hm); left; reflexivity|].
        split; [lia|]. split; [exact Hm|lia].
      + destruct (Hkeptcase e a Hst Hnb) as (Hst0 & _ & _).
        apply (conf_sinceo_grow SN SN' Hsn cli pend sendo_extra sendo_new (sv_tick s3 + 1)); [lia|exact (K1 e a Hst0)].
    - (* acknowledgements on their way *)
      intros i info e Hi Hinfo He. rewrite (R3 i (K5 i Hi)) in Hinfo.
      apply (conf_sinceo_grow SN SN' Hsn cli pend sendo_extra sendo_new 0); [lia|exact (K2 i info e Hi Hinfo He)].
    - (* registered messages *)
      intros m info Hm Hinfo. apply in_app_or in Hm. destruct Hm as [Hm|Hm].
      + rewrite (R3 (m_idx m) (K4 m Hm)) in Hinfo. destruct (K3 m info Hm Hinfo) as [[s1 A] B]. split; [exists s1; exact (Hsn _ _ _ A)|exact B].
      + destruct (R2 m Hm) as (_ & Hreg). rewrite Hreg in Hinfo. inversion Hinfo; subst info. cbn [ClientTicks.mi_tick mi_entities].
        split; [|reflexivity]. exists s'. rewrite (proj1 (sfc_mut_header c s3 cl3 p m Hm)). exact Hnewsnap.
    - intros m Hm. apply in_app_or in Hm. destruct Hm as [Hm|Hm]; [pose proof (K4 m Hm); lia|exact (proj2 (proj1 (R2 m Hm)))].
    - intros i Hi. pose proof (K5 i Hi). lia.
    - rewrite Hut', Htick'. destruct (sfc_has_upd s3 run cl3); [lia|exact K6].
    - intros u Hu. rewrite Hut'. apply in_app_or in Hu. destruct Hu as [Hu|Hu].
      + destruct (sfc_has_upd s3 run cl3); [pose proof (rv_pend_lt_o u Hu); lia|exact (K7 u Hu)].
      + destruct (sendo_extra_in u Hu) as [-> ->]. lia.
    - rewrite (sfc_ticks_final c s3 cl3 p). apply mut_ticks_nodup. rewrite (proj1 (proj2 (sfc_ticks3_fields s3 run cl3))). exact K8.
    - (* kinds since the acknowledged stamp *)
      intros e a Hst t r s0 Hs0 Ha.
      assert (Efold : fold_left abs_apply (pend ++ sendo_extra) (client_struct cli) = abs_send S0 (co_update (snd P))).
      { rewrite fold_left_app, sendo_extra_out. destruct (co_update (snd P)); reflexivity. }
      rewrite Efold. destruct (Hcases e) as [(x & madd & Hin & Eb)|Hnb].
      + rewrite (rv_stamp_bumped_o e x madd Hin Eb) in Hst. inversion Hst; subst a.
        destruct (Hsn' t r s0 Hs0) as [Ho|(_ & _ & ->)]; [pose proof (Hboundr _ _ _ Ho); lia|].
        apply opt_equiv_sym. exact (proj1 (struct_equiv_pointwise _ _) rv_diff_o e).
      + destruct (Hkeptcase e a Hst Hnb) as (Hst0 & Hnd & Hnm). exact (proj1 (rv_kstable_o e a Hst0 Hnm Hnd t r s0 Hs0 Ha)).
    - (* stamps below the counter *)
      rewrite Hnow'. split.
      + intros e a Hst. rewrite (rv_stamp_afteo e) in Hst.
        destruct (existsb _ (sfc_ecs s3 run cl3)); [inversion Hst; lia|]. destruct (rv_mt1_some_o e a Hst) as [Hst0 _].
        pose proof (K10a e a Hst0). lia.
      + intros i info Hi. destruct (N.lt_ge_cases i (ct_mutate_index (sc_ticks cl3))) as [Hlt|Hge].
        * rewrite (R3 i Hlt) in Hi. pose proof (K10b i info Hi). lia.
        * rewrite (sfc_ticks_final c s3 cl3 p) in Hi.
          destruct (mut_ticks_entry run (sv_elapsed s3) (sfc_parts c s3 run cl3 p) (sfc_ticks3 s3 run cl3) i info Hi) as [Hold|Hnew].
          -- rewrite (proj1 (proj2 (sfc_ticks3_fields s3 run cl3))) in Hold. pose proof (K10b i info Hold). lia.
          -- rewrite Hnew. lia.
    - intros m Hm. rewrite Hut'. apply in_app_or in Hm. destruct Hm as [Hm|Hm].
      + pose proof (K11 m Hm). destruct (sfc_has_upd s3 run cl3); lia.
      + rewrite (proj2 (sfc_mut_header c s3 cl3 p m Hm)). lia.
    - rewrite Hut'. unfold sendo_extra. destruct (sfc_has_upd s3 run cl3).
      + rewrite map_app. cbn [map]. rewrite last_snoc. exact (eq_sym Et).
      + rewrite app_nil_r. exact K12.
  Qed.

  (* ---------- the instances known to the client after the send ---------- *)

  Theorem sendo_known : once_known s' (fst P).
  Proof.
    intros e a x k cc Hst Hg Hget Hle. rewrite Hlr' in Hle. pose proof (Server_proofs.al_get_In _ _ _ Hget) as Hin.
    assert (Hg3 : get_ent s3 e = Some x) by (unfold get_ent in *; rewrite <- Hents'; exact Hg).
    destruct (proj2 (Heok e x Hg3) k cc Hin) as (_ & A & B).
    rewrite rv_stamp_afteo in Hst.
    destruct (existsb (fun eec => (fst eec =? e) && ec_bump (snd eec)) (sfc_ecs s3 run cl3)) eqn:Eb; [inversion Hst; subst a; lia|].
    destruct (rv_mt1_some_o e a Hst) as [Hst0 Hnd].
    destruct (N.le_gt_cases (c_added cc) (sv_last_run s3)) as [Hold|Hnew]; [exact (HJ e a x k cc Hst0 Hg3 Hget Hold)|].
    exfalso. destruct (stamp1_visible s3 cl3 S0 e a Hok Hp3 Hst) as (Hvis & _ & x0 & madd & Hr).
    destruct (replicated_ents_get s3 e x0 madd Hwf Hr) as (Hg0 & _). assert (x0 = x) by congruence. subst x0.
    assert (Hbump : ec_bump (ecof e x madd) = true).
    { apply (cep_ins_bump _ _ _ _ _ e x madd k cc); [rewrite Hvis; reflexivity|exact Hin|lia]. }
    apply (f_equal negb) in Eb. cbn [negb] in Eb. apply Bool.negb_true_iff in Eb.
    assert (Hex : existsb (fun eec => (fst eec =? e) && ec_bump (snd eec)) (sfc_ecs s3 run cl3) = true).
    { apply existsb_exists. exists (e, ecof e x madd). split; [exact (rv_ec_in_o e x madd Hr)|]. cbn [fst snd]. rewrite N.eqb_refl, Hbump. reflexivity. }
    congruence.
  Qed.

  (* ---------- after the send, every replicated entity visible to the client is covered ---------- *)

  (* its acknowledged stamp is not older than any of its components, or a mutate message of this run that is
     registered under its index carries it *)
  Lemma sendo_covered e x madd : In (e, x, madd) (replicated_ents s3) -> st1 e <> VHidden ->
    (exists a, mutation_tick (sc_ticks (fst P)) e = Some a /\ forall k cc, In (k, cc) (se_comps x) -> kind_et k = true -> c_changed cc <= a) \/
    (mutation_tick (sc_ticks (fst P)) e <> None /\
     exists m, In m (co_mutates (snd P)) /\ In e (map fst (m_body m)) /\
       al_get (m_idx m) (ct_mutations (sc_ticks (fst P))) = Some (mkMI run (sv_elapsed s3) (map fst (m_body m))) /\
       forall k cc, In (k, cc) (se_comps x) -> c_changed cc <= run).
  Proof.
    intros Hin Hnh. destruct (rv_repl_o e x madd Hin) as (Hg & Hg' & Hcok & _).
    assert (Hle : forall k cc, In (k, cc) (se_comps x) -> c_changed cc <= run).
    { intros k cc Hk. exact (proj2 (proj2 (proj2 Hcok k cc Hk))). }
    destruct (ec_bump (ecof e x madd)) eqn:Eb.
    - left. exists run. split; [exact (rv_stamp_bumped_o e x madd Hin Eb)|intros k cc Hk _; exact (Hle k cc Hk)].
    - assert (Hkept : mutation_tick (sc_ticks (fst P)) e = mt1 e).
      { apply rv_stamp_kept_o. intros x' madd' Hin'. destruct (repl_ents_unique s3 e x madd x' madd' Hwf Hin Hin') as [-> ->]. exact Eb. }
      destruct (rv_ent_o e x madd Hin Hnh) as (_ & [(_ & B & _)|(a & Hst & Hs & [(B & _)|(_ & Een & Ev & _)])]); [congruence|congruence|].
      destruct (ec_muts (ecof e x madd)) as [|kv0 r0] eqn:Em.
      + left. exists a. split; [rewrite Hkept; exact Hst|]. intros k cc Hk Het.
        destruct (Hs x k cc Hg' (proj1 (comps_in_geto x k cc Hcok) Hk)) as [Hi|Hc];
          [|replace (k =? 2) with false in Hc by (unfold kind_et in Het; lia); exact Hc].
        rewrite <- Ev in Hi. destruct Hi.
      + right. split; [rewrite Hkept, Hst; discriminate|].
        assert (Hms : In e (map fst (mutated_set s3 run cl3))).
        { apply in_map_iff. exists (e, kv0 :: r0). split; [reflexivity|]. rewrite mutated_set_eq, In_muts_of.
          exists (ecof e x madd). split; [exact (rv_ec_in_o e x madd Hin)|split; [exact Em|discriminate]]. }
        destruct (sfc_mut_covered c s3 cl3 p e Hms) as (m & Hm & Hem). exists m. split; [exact Hm|]. split; [exact Hem|].
        split; [exact (proj2 (proj1 (proj2 (sfc_regs c s3 cl3 p Hnowrap)) m Hm))|exact Hle].
  Qed.
End SendR.
