(* C02E, client side: what applying update and mutate messages does to the client entity that
   stands for a server entity ([centof], Repl/ValSpec.v), when all values are `VNat`. *)
From RV Require Import Lib.Res Repl.ClientTicks Repl.ClientTicks_proofs Repl.World Vis.Visibility
  Tick.RepliconTick Tick.RepliconTick_proofs Tick.ConfirmHistory Tick.MutateTicks
  Repl.Server Repl.ServerSpec Repl.StructSpec
  Repl.Client Repl.Sys Repl.Client_proofs Repl.ClientEnt_proofs Repl.ClientMut_proofs Repl.ClientSys_proofs
  Repl.ClientStructSpec Repl.ClientStruct_proofs Repl.ClientHist_proofs Repl.StructE2E_proofs Repl.StructE2EMut_proofs
  Repl.ValSpec.
From Coq Require Import ZifyBool ZifyN.
Open Scope N_scope.
Ltac Zify.zify_post_hook ::= Z.div_mod_to_equations.
Arguments N.add : simpl never. Arguments N.mul : simpl never. Arguments N.pow : simpl never.
Arguments N.ltb : simpl never. Arguments N.leb : simpl never. Arguments N.div : simpl never.
Arguments N.modulo : simpl never. Arguments N.sub : simpl never. Arguments N.eqb : simpl never.

(* ================================================================== *)
(* 1. writing values without references                               *)
(* ================================================================== *)

Lemma vals_nat_refs c vals : vals_nat vals -> refs_mapped c vals.
Proof. intros H k t Hin. specialize (H k (VRef t) Hin). discriminate. Qed.

Lemma vals_nat_tail kv vals : vals_nat (kv :: vals) -> vals_nat vals.
Proof. intros H k v Hin. apply (H k v). right. exact Hin. Qed.

Lemma cval_of_nat s2c v : val_nat v = true -> cval_of s2c v = cv_nat v.
Proof. destruct v; [reflexivity|discriminate]. Qed.

Lemma pure_write_fields s2c vals : forall x, vals_nat vals ->
  ce_alive (pure_write s2c x vals) = ce_alive x /\ ce_pre (pure_write s2c x vals) = ce_pre x /\
  ce_marker (pure_write s2c x vals) = ce_marker x /\ ce_hist (pure_write s2c x vals) = ce_hist x /\
  ce_comps (pure_write s2c x vals) = wr_comps vals (ce_comps x).
Proof.
  unfold pure_write, wr_comps. induction vals as [|[k v] t IH]; intros x Hn; cbn [fold_left]; [auto 6|].
  destruct (IH (mkCEnt (ce_alive x) (ce_pre x) (ce_marker x) (ce_hist x) (kinsert k (cval_of s2c v) (ce_comps x)))
               (vals_nat_tail _ _ Hn)) as (A & B & C & D & E).
  cbn [ce_alive ce_pre ce_marker ce_hist ce_comps fst snd] in *.
  rewrite A, B, C, D, E. rewrite (cval_of_nat s2c v) by (apply (Hn k v); left; reflexivity). auto 6.
Qed.

Lemma wr_comps_get vals : forall base k, NoDup (map fst vals) ->
  al_get k (wr_comps vals base) = match al_get k vals with Some v => Some (cv_nat v) | None => al_get k base end.
Proof.
  unfold wr_comps. induction vals as [|[k0 v0] t IH]; intros base k Hnd; cbn [fold_left al_get]; [reflexivity|].
  cbn [map fst] in Hnd. inversion Hnd as [|? ? Hni Hnd']; subst. rewrite IH by exact Hnd'. cbn [fst snd].
  destruct (k0 =? k) eqn:E.
  - assert (k0 = k) by lia. subst k0.
    assert (Hn : al_get k t = None) by (apply al_get_none_keys; exact Hni). rewrite Hn. apply kinsert_get_same.
  - destruct (al_get k t); [reflexivity|]. apply kinsert_get_other. lia.
Qed.

Lemma rm_comps_get ks l k : al_get k (rm_comps ks l) = if mem_N k ks then None else al_get k l.
Proof.
  unfold rm_comps. induction l as [|[k0 v0] t IH]; cbn [filter al_get fst]; [destruct (mem_N k ks); reflexivity|].
  destruct (mem_N k0 ks) eqn:Em; cbn [negb al_get].
  - rewrite IH. destruct (k0 =? k) eqn:E; [|reflexivity]. assert (k0 = k) by lia. subst k0. rewrite Em. reflexivity.
  - rewrite IH. destruct (k0 =? k) eqn:E; [|reflexivity]. assert (k0 = k) by lia. subst k0. rewrite Em. reflexivity.
Qed.

(* ================================================================== *)
(* 2. [centof] under the primitive steps                              *)
(* ================================================================== *)

Definition fresh_cent : cent := mkCEnt true None true None [].

Lemma centof_ext c c' e : cl_s2c c' = cl_s2c c -> cl_ents c' = cl_ents c -> centof c' e = centof c e.
Proof. intros E1 E2. unfold centof, get_cent. rewrite E1, E2. reflexivity. Qed.

Lemma centof_mapped c e cid : al_get e (cl_s2c c) = Some cid -> centof c e = get_cent c cid.
Proof. unfold centof. intros ->. reflexivity. Qed.

Lemma centof_some_mapped c e x : centof c e = Some x -> exists cid, al_get e (cl_s2c c) = Some cid /\ get_cent c cid = Some x.
Proof. unfold centof. destruct (al_get e (cl_s2c c)) as [cid|]; [|discriminate]. intros H. exists cid. auto. Qed.

Lemma centof_none c e : cs_inv c -> centof c e = None -> al_get e (cl_s2c c) = None.
Proof.
  intros Hinv H. unfold centof in H. destruct (al_get e (cl_s2c c)) as [cid|] eqn:E; [|reflexivity].
  destruct (ci_mapped c Hinv e cid E) as [x [Hx _]]. congruence.
Qed.

Lemma centof_alive c e x : cs_inv c -> centof c e = Some x -> ce_alive x = true.
Proof.
  intros Hinv H. destruct (centof_some_mapped c e x H) as [cid [E Hx]].
  destruct (ci_mapped c Hinv e cid E) as [x0 [Hx0 Ha]]. congruence.
Qed.

(* replacing the client entity of [e0] *)
Lemma centof_set_cent c e0 cid0 x' e : cs_inv c -> al_get e0 (cl_s2c c) = Some cid0 ->
  centof (set_cent c cid0 x') e = if e =? e0 then Some x' else centof c e.
Proof.
  intros Hinv He0. unfold centof. cbn [set_cent cl_s2c]. destruct (e =? e0) eqn:E.
  - assert (e = e0) by lia. subst e. rewrite He0. apply get_cent_set_cent_same.
  - destruct (al_get e (cl_s2c c)) as [cid|] eqn:Ee; [|reflexivity].
    apply get_cent_set_cent_other. intros ->. assert (e = e0) by exact (s2c_inj c e e0 cid0 (ci_emap c Hinv) Ee He0). lia.
Qed.

Lemma centof_despawn c d e : cs_inv c ->
  centof (apply_despawn c d) e = if e =? d then None else centof c e.
Proof.
  intros Hinv. destruct (al_get d (cl_s2c c)) as [cid|] eqn:Ed.
  - destruct (ci_mapped c Hinv d cid Ed) as [x [Hx Ha]]. rewrite (despawn_mapped c d cid x Ed Hx Ha).
    unfold centof. cbn [set_cent set_maps cl_s2c]. destruct (e =? d) eqn:E.
    + assert (e = d) by lia. subst e. rewrite al_get_remove_same. reflexivity.
    + rewrite al_get_remove_other by lia. destruct (al_get e (cl_s2c c)) as [cid'|] eqn:Ee; [|reflexivity].
      rewrite get_cent_set_cent_other.
      * unfold get_cent. reflexivity.
      * intros ->. assert (e = d) by exact (s2c_inj c e d cid (ci_emap c Hinv) Ee Ed). lia.
  - rewrite (despawn_unmapped c d Ed). destruct (e =? d) eqn:E; [|reflexivity].
    assert (e = d) by lia. subst e. unfold centof. rewrite Ed. reflexivity.
Qed.

Lemma centof_despawns ds : forall c e, cs_inv c ->
  cs_inv (fold_left apply_despawn ds c) /\
  centof (fold_left apply_despawn ds c) e = if mem_N e ds then None else centof c e.
Proof.
  induction ds as [|d t IH]; intros c e Hinv; cbn [fold_left]; [auto|].
  assert (Hinv1 : cs_inv (apply_despawn c d)) by exact (proj1 (despawn_step c _ d Hinv (srel_self c (cs_inv_nodup c Hinv)))).
  destruct (IH (apply_despawn c d) e Hinv1) as [A B]. split; [exact A|]. rewrite B, centof_despawn by exact Hinv.
  unfold mem_N. cbn [existsb]. fold (mem_N e t). destruct (e =? d); cbn [orb]; [destruct (mem_N e t); reflexivity|reflexivity].
Qed.

(* the entry lookup: an unknown entity gets a fresh replica *)
Lemma entry_view c e0 c1 cid0 : cs_inv c -> entry_entity c e0 = Some (c1, cid0) ->
  cs_inv c1 /\ al_get e0 (cl_s2c c1) = Some cid0 /\
  (forall e, e <> e0 -> centof c1 e = centof c e) /\
  centof c1 e0 = Some (match centof c e0 with Some x => x | None => fresh_cent end).
Proof.
  intros Hinv H. destruct (entry_props c e0 Hinv) as (c1' & cid' & x' & E & I1 & _). rewrite E in H. inversion H; subst c1' cid'. clear H.
  split; [exact I1|]. split; [exact (entry_maps c e0 c1 cid0 E)|].
  unfold entry_entity in E. destruct (al_get e0 (cl_s2c c)) as [cid|] eqn:Ee.
  - destruct (alive c cid); [|discriminate]. inversion E; subst c1 cid0. split; [auto|].
    unfold centof. rewrite Ee. destruct (ci_mapped c Hinv e0 cid Ee) as [x [Hx _]]. rewrite Hx. reflexivity.
  - cbn in E. inversion E; subst c1 cid0. clear E. split.
    + intros e Hne. unfold centof. cbn [emap_vacant_insert set_maps spawn_cent fst cl_s2c]. rewrite al_get_insert_other by exact Hne.
      destruct (al_get e (cl_s2c c)) as [cid|] eqn:E1; [|reflexivity].
      destruct (ci_mapped c Hinv e cid E1) as [x [Hx _]]. rewrite Hx. unfold get_cent in *. cbn [cl_ents].
      apply al_get_app_some. exact Hx.
    + unfold centof at 2. rewrite Ee. unfold centof. cbn [emap_vacant_insert set_maps spawn_cent fst cl_s2c]. rewrite al_get_insert_same.
      exact (spawn_get_new c None true (proj2 (ci_ewf c Hinv))).
Qed.

(* one element of the removals array *)
Lemma removal_view c T e0 ks r : cs_inv c -> apply_removals c T e0 ks = Ok r ->
  exists c', r = Continue c' /\ cs_inv c' /\
    (forall e, e <> e0 -> centof c' e = centof c e) /\
    (forall x h, centof c e0 = Some x -> ce_hist x = Some h -> tick_geb T (h_last h) = true) /\
    exists x', centof c' e0 = Some x' /\ live_at T x' /\ ce_comps x' = rm_comps ks (comps_of (centof c e0)).
Proof.
  intros Hinv H.
  destruct (removal_step c _ T (e0, ks) r Hinv (srel_self c (cs_inv_nodup c Hinv)) H) as (c' & -> & Hinv' & _).
  exists c'. split; [reflexivity|]. split; [exact Hinv'|].
  unfold apply_removals in H. destruct (entry_entity c e0) as [[c1 cid0]|] eqn:Ee; [|discriminate].
  destruct (entry_view c e0 c1 cid0 Hinv Ee) as (I1 & M1 & O1 & V1).
  rewrite (centof_mapped c1 e0 cid0 M1) in V1. rewrite V1 in H.
  set (x0 := match centof c e0 with Some x => x | None => fresh_cent end) in *.
  apply bind_ok in H. destruct H as [x1 [Ec H]]. inversion H; subst c'. clear H.
  destruct (confirm_tick_fields _ _ _ Ec) as (A & B & C & D & h' & Hh' & Hl' & Hge).
  split; [|split].
  - intros e Hne. rewrite (centof_set_cent c1 e0 cid0 _ e I1 M1). replace (e =? e0) with false by lia. apply O1. exact Hne.
  - intros x h Hx Hh. apply Hge. unfold x0. rewrite Hx. cbn. exact Hh.
  - eexists. split; [rewrite (centof_set_cent c1 e0 cid0 _ e0 I1 M1); rewrite N.eqb_refl; reflexivity|].
    cbn [ce_alive ce_marker ce_hist ce_comps]. split.
    + split; [|split; [|exists h'; auto]].
      * rewrite A. cbn. unfold x0. destruct (centof c e0) as [x|] eqn:Ex; [exact (centof_alive c e0 x Hinv Ex)|reflexivity].
      * rewrite C. reflexivity.
    + rewrite D. cbn [with_marker ce_comps]. unfold x0, comps_of, rm_comps. destruct (centof c e0); reflexivity.
Qed.

(* one element of the changes array *)
Lemma change_view c T e0 vals r : cs_inv c -> vals_nat vals -> apply_changes c T e0 vals = Ok r ->
  exists c', r = Continue c' /\ cs_inv c' /\
    (forall e, e <> e0 -> centof c' e = centof c e) /\
    (forall x h, centof c e0 = Some x -> ce_hist x = Some h -> tick_geb T (h_last h) = true) /\
    exists x', centof c' e0 = Some x' /\ live_at T x' /\ ce_comps x' = wr_comps vals (comps_of (centof c e0)).
Proof.
  intros Hinv Hn H.
  destruct (change_step c _ T (e0, vals) r Hinv (srel_self c (cs_inv_nodup c Hinv)) H) as (c' & -> & Hinv' & _).
  exists c'. split; [reflexivity|]. split; [exact Hinv'|].
  unfold apply_changes in H. destruct (entry_entity c e0) as [[c1 cid0]|] eqn:Ee; [|discriminate].
  destruct (entry_view c e0 c1 cid0 Hinv Ee) as (I1 & M1 & O1 & V1).
  rewrite (centof_mapped c1 e0 cid0 M1) in V1. rewrite V1 in H.
  set (x0 := match centof c e0 with Some x => x | None => fresh_cent end) in *.
  apply bind_ok in H. destruct H as [x1 [Ec H]].
  rewrite (write_comps_pure vals c1 cid0 x1 (vals_nat_refs c1 vals Hn)) in H. inversion H; subst c'. clear H.
  destruct (confirm_tick_fields _ _ _ Ec) as (A & B & C & D & h' & Hh' & Hl' & Hge).
  destruct (pure_write_fields (cl_s2c c1) vals x1 Hn) as (P1 & P2 & P3 & P4 & P5).
  split; [|split].
  - intros e Hne. rewrite (centof_set_cent c1 e0 cid0 _ e I1 M1). replace (e =? e0) with false by lia. apply O1. exact Hne.
  - intros x h Hx Hh. apply Hge. unfold x0. rewrite Hx. cbn. exact Hh.
  - eexists. split; [rewrite (centof_set_cent c1 e0 cid0 _ e0 I1 M1); rewrite N.eqb_refl; reflexivity|]. split.
    + split; [|split; [|exists h'; rewrite P4; auto]].
      * rewrite P1, A. cbn. unfold x0. destruct (centof c e0) as [x|] eqn:Ex; [exact (centof_alive c e0 x Hinv Ex)|reflexivity].
      * rewrite P3, C. reflexivity.
    + rewrite P5, D. cbn [with_marker ce_comps]. unfold x0, comps_of. destruct (centof c e0); reflexivity.
Qed.

(* ================================================================== *)
(* 3. the arrays of an update message                                 *)
(* ================================================================== *)

Lemma rm_comps_nil l : rm_comps [] l = l.
Proof.
  unfold rm_comps. induction l as [|a t IH]; cbn [filter]; [reflexivity|].
  change (mem_N (fst a) []) with false. cbn [negb]. f_equal. exact IH.
Qed.

Lemma wr_comps_nil l : wr_comps [] l = l.
Proof. reflexivity. Qed.

Definition geb_hist (T : N) (o : option cent) : Prop :=
  forall x h, o = Some x -> ce_hist x = Some h -> tick_geb T (h_last h) = true.

Lemma run_removals_view T l : forall c c', cs_inv c -> NoDup (map fst l) ->
  run_array (fun c r => apply_removals c T (fst r) (snd r)) l c = Ok (Continue c') ->
  cs_inv c' /\ forall e,
    match al_get e l with
    | None => centof c' e = centof c e
    | Some ks => geb_hist T (centof c e) /\
                 exists x', centof c' e = Some x' /\ live_at T x' /\ ce_comps x' = rm_comps ks (comps_of (centof c e))
    end.
Proof.
  induction l as [|[e0 ks] t IH]; intros c c' Hinv Hnd H.
  - rewrite run_array_nil in H. inversion H; subst c'. split; [exact Hinv|]. intros e. reflexivity.
  - rewrite run_array_cons in H. cbn [fst snd] in H.
    destruct (apply_removals c T e0 ks) as [r| |] eqn:E0; try discriminate.
    destruct (removal_view c T e0 ks r Hinv E0) as (c1 & -> & I1 & O1 & G1 & x1 & V1 & L1 & C1).
    cbn [map fst] in Hnd. inversion Hnd as [|? ? Hni Hnd']; subst.
    destruct (IH c1 c' I1 Hnd' H) as [I' V']. split; [exact I'|]. intros e. cbn [al_get]. specialize (V' e).
    destruct (e0 =? e) eqn:Ee.
    + assert (e0 = e) by lia. subst e0. assert (Hn : al_get e t = None) by (apply al_get_none_keys; exact Hni).
      rewrite Hn in V'. split; [exact G1|]. exists x1. rewrite V'. auto.
    + assert (Hne : e <> e0) by lia. rewrite (O1 e Hne) in V'. exact V'.
Qed.

Lemma run_changes_view T l : forall c c', cs_inv c -> NoDup (map fst l) ->
  (forall e vals, In (e, vals) l -> vals_nat vals) ->
  run_array (fun c ch => apply_changes c T (fst ch) (snd ch)) l c = Ok (Continue c') ->
  cs_inv c' /\ forall e,
    match al_get e l with
    | None => centof c' e = centof c e
    | Some vals => geb_hist T (centof c e) /\
                   exists x', centof c' e = Some x' /\ live_at T x' /\ ce_comps x' = wr_comps vals (comps_of (centof c e))
    end.
Proof.
  induction l as [|[e0 vals] t IH]; intros c c' Hinv Hnd Hn H.
  - rewrite run_array_nil in H. inversion H; subst c'. split; [exact Hinv|]. intros e. reflexivity.
  - rewrite run_array_cons in H. cbn [fst snd] in H.
    destruct (apply_changes c T e0 vals) as [r| |] eqn:E0; try discriminate.
    destruct (change_view c T e0 vals r Hinv (Hn e0 vals (or_introl eq_refl)) E0) as (c1 & -> & I1 & O1 & G1 & x1 & V1 & L1 & C1).
    cbn [map fst] in Hnd. inversion Hnd as [|? ? Hni Hnd']; subst.
    destruct (IH c1 c' I1 Hnd' (fun e v Hin => Hn e v (or_intror Hin)) H) as [I' V']. split; [exact I'|]. intros e. cbn [al_get]. specialize (V' e).
    destruct (e0 =? e) eqn:Ee.
    + assert (e0 = e) by lia. subst e0. assert (Hnone : al_get e t = None) by (apply al_get_none_keys; exact Hni).
      rewrite Hnone in V'. split; [exact G1|]. exists x1. rewrite V'. auto.
    + assert (Hne : e <> e0) by lia. rewrite (O1 e Hne) in V'. exact V'.
Qed.

(* ================================================================== *)
(* 4. a whole update message                                          *)
(* ================================================================== *)

Definition touched (u : update_msg) (e : N) : bool :=
  match al_get e (u_removals u), al_get e (u_changes u) with None, None => false | _, _ => true end.

Lemma al_get_keys_iff {V} k (l : list (N * V)) : al_get k l <> None <-> In k (map fst l).
Proof.
  split.
  - intros H. destruct (in_dec N.eq_dec k (map fst l)) as [Hin|Hn]; [exact Hin|]. apply al_get_none_keys in Hn. congruence.
  - intros Hin Hn. apply al_get_none_keys in Hn. exact (Hn Hin).
Qed.

Lemma touched_mentions u e : touched u e = true <-> mentions u e.
Proof.
  unfold touched, mentions. rewrite <- !al_get_keys_iff.
  destruct (al_get e (u_removals u)), (al_get e (u_changes u)); split; intros H; try reflexivity; try discriminate.
  - left; discriminate.
  - left; discriminate.
  - right; discriminate.
  - destruct H as [H|H]; congruence.
Qed.

Theorem update_view c u c' : cs_inv c -> upd_shape u -> apply_update_message c u = Ok c' ->
  cs_inv c' /\ cl_upd_tick c' = u_tick u /\
  forall e,
    let o1 := if mem_N e (u_despawns u) then None else centof c e in
    if touched u e then
      geb_hist (u_tick u) o1 /\
      exists x', centof c' e = Some x' /\ live_at (u_tick u) x' /\
                 ce_comps x' = wr_comps (al_dflt e (u_changes u)) (rm_comps (al_dflt e (u_removals u)) (comps_of o1))
    else centof c' e = o1.
Proof.
  intros Hinv (Hm & Hndr & Hndc & Hnat) H.
  destruct (update_message_srel c (client_struct c) u c' Hinv (srel_self c (cs_inv_nodup c Hinv)) Hm H) as (_ & Hinv' & Htk & Hcomp).
  split; [exact Hinv'|]. split; [exact Htk|].
  destruct Hcomp as [c3 [E3 E4]].
  assert (Epre : update_pre c u = fold_left apply_despawn (u_despawns u) (set_upd_tick c (u_tick u))).
  { unfold update_pre. rewrite Hm. reflexivity. }
  assert (Hinv0 : cs_inv (set_upd_tick c (u_tick u))) by (revert Hinv; apply cs_inv_ext; reflexivity).
  rewrite Epre in E3.
  intros e.
  destruct (centof_despawns (u_despawns u) (set_upd_tick c (u_tick u)) e Hinv0) as [Ip Vp].
  rewrite (centof_ext c (set_upd_tick c (u_tick u)) e eq_refl eq_refl) in Vp.
  destruct (run_removals_view _ _ _ _ Ip Hndr E3) as [I3 V3]. specialize (V3 e).
  destruct (run_changes_view _ _ _ _ I3 Hndc Hnat E4) as [I4 V4]. specialize (V4 e).
  cbv zeta. unfold touched, al_dflt.
  set (o1 := if mem_N e (u_despawns u) then None else centof c e) in *. rewrite Vp in V3.
  destruct (al_get e (u_removals u)) as [ks|] eqn:Er; destruct (al_get e (u_changes u)) as [vals|] eqn:Ec.
  - destruct V3 as (G3 & x3 & X3 & L3 & C3). destruct V4 as (G4 & x4 & X4 & L4 & C4).
    split; [exact G3|]. exists x4. split; [exact X4|]. split; [exact L4|]. rewrite C4, X3. cbn [comps_of]. rewrite C3. reflexivity.
  - destruct V3 as (G3 & x3 & X3 & L3 & C3). split; [exact G3|]. exists x3. rewrite V4. split; [exact X3|]. split; [exact L3|].
    rewrite wr_comps_nil. exact C3.
  - destruct V4 as (G4 & x4 & X4 & L4 & C4). rewrite V3 in G4, C4. split; [exact G4|]. exists x4. split; [exact X4|]. split; [exact L4|].
    rewrite rm_comps_nil. exact C4.
  - rewrite V4, V3. reflexivity.
Qed.

(* ================================================================== *)
(* 5. one entry of a mutate message                                   *)
(* ================================================================== *)

Lemma has_mapped c e x h : has c e x h -> exists cid, al_get e (cl_s2c c) = Some cid /\ get_cent c cid = Some x.
Proof. intros [H _]. exact (centof_some_mapped c e x H). Qed.

Lemma mutation_view c T e0 vals r : cs_inv c -> mapped_ok c -> vals_nat vals -> apply_mutations c T e0 vals = Ok r ->
  exists c', r = Continue c' /\ cs_inv c' /\ cl_s2c c' = cl_s2c c /\
    (forall e, e <> e0 -> centof c' e = centof c e) /\
    match centof c e0 with
    | None => c' = c
    | Some x => exists h, ce_hist x = Some h /\
        if tick_gtb T (h_last h) then
          tick_geb T (h_last h) = true /\
          exists x', centof c' e0 = Some x' /\ live_at T x' /\ ce_comps x' = wr_comps vals (ce_comps x)
        else c' = c
    end.
Proof.
  intros Hinv Hmo Hn H. unfold apply_mutations in H.
  destruct (al_get e0 (cl_s2c c)) as [cid|] eqn:Ee.
  2:{ inversion H; subst r. exists c. split; [reflexivity|]. split; [exact Hinv|]. split; [reflexivity|]. split; [intros; reflexivity|]. unfold centof. rewrite Ee. reflexivity. }
  destruct (Hmo e0 cid Ee) as (x & h & Hc & Ha & Hmk & Hh). assert (Hc0 : centof c e0 = Some x) by exact Hc. unfold centof in Hc. rewrite Ee in Hc. rewrite Hc in H.
  rewrite Ha, Hh in H. cbn [negb] in H.
  destruct (tick_gtb T (h_last h)) eqn:Eg.
  2:{ inversion H; subst r. exists c. split; [reflexivity|]. split; [exact Hinv|]. split; [reflexivity|]. split; [intros; reflexivity|].
      rewrite Hc0. exists h. split; [exact Hh|]. rewrite Eg. reflexivity. }
  apply bind_ok in H. destruct H as [h' [Eh' H]].
  destruct (hist_set_last_tick_ok _ _ _ Eh') as [Hl' Hge].
  set (x1 := mkCEnt true (ce_pre x) (ce_marker x) (Some h') (ce_comps x)) in *.
  rewrite (write_comps_pure vals c cid x1 (vals_nat_refs c vals Hn)) in H. inversion H; subst r. clear H.
  destruct (pure_write_fields (cl_s2c c) vals x1 Hn) as (P1 & P2 & P3 & P4 & P5).
  eexists. split; [reflexivity|]. split.
  { apply (cs_inv_set_cent c cid x); [exact Hinv|exact Hc|rewrite P1; reflexivity|]. rewrite P3. cbn. congruence. }
  split; [reflexivity|]. split.
  { intros e Hne. rewrite (centof_set_cent c e0 cid _ e Hinv Ee). replace (e =? e0) with false by lia. reflexivity. }
  rewrite Hc0. exists h. split; [exact Hh|]. rewrite Eg. split; [exact Hge|].
  eexists. split; [rewrite (centof_set_cent c e0 cid _ e0 Hinv Ee), N.eqb_refl; reflexivity|]. split.
  - split; [rewrite P1; reflexivity|]. split; [rewrite P3; exact Hmk|]. exists h'. rewrite P4. auto.
  - rewrite P5. reflexivity.
Qed.
