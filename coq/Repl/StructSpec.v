(* C03, server half: the update messages sent to a client are the structural diffs of the
   server world between consecutive ticks (visibility policy PAll).  Definitions only;
   the lemmas are in Repl/Struct_proofs.v, the pinned statements in Properties/C03S.v.

   structure        entity -> component kinds, an association list read as a finite map
   struct_of s      what the server replicates NOW (alive entities with the marker)
   abs_apply S u    the structural effect of an update message on a client that holds S,
                    in the order the client applies it: despawns, removals, changes
   pending_ok       the invariant between two ticks: what the client has been sent (S),
                    the current world and the three buffers explain each other
   gstate / gstep   a run of the server that carries, per authorized client slot, the
                    structure obtained by applying every update message sent so far *)
From RV Require Import Lib.Res Repl.ClientTicks Repl.World Vis.Visibility Tick.RepliconTick
  Repl.Server Repl.ServerSpec.
Open Scope N_scope.

(* ---------- structures ---------- *)

Definition structure : Type := list (N * list N).

Definition kinds_equiv (a b : list N) : Prop := forall k, mem_N k a = mem_N k b.

(* extensional equality: same entities, per entity the same set of kinds *)
Definition struct_equiv (S1 S2 : structure) : Prop :=
  forall e, match al_get e S1, al_get e S2 with
            | Some a, Some b => kinds_equiv a b
            | None, None => True
            | _, _ => False
            end.

(* what is replicated now (policy PAll: to every authorized client) *)
Definition struct_of (s : server) : structure :=
  map (fun exm => (ent_id exm, map fst (se_comps (snd (fst exm))))) (replicated_ents s).

(* ---------- the structural effect of an update message ---------- *)

Definition kinds_of (S : structure) (e : N) : list N :=
  match al_get e S with Some ks => ks | None => [] end.

Definition kinds_remove (ks old : list N) : list N := filter (fun k => negb (mem_N k ks)) old.

(* (1) a despawned entity disappears *)
Definition abs_despawn (S : structure) (e : N) : structure := al_remove e S.
(* (2) a removal: the entity exists afterwards (created empty when unknown), the kinds are gone *)
Definition abs_removal (S : structure) (r : N * list N) : structure :=
  al_insert (fst r) (kinds_remove (snd r) (kinds_of S (fst r))) S.
(* (3) a change entry: the entity exists afterwards, the kinds are present *)
Definition abs_change (S : structure) (c : N * list (N * val)) : structure :=
  al_insert (fst c) (kinds_of S (fst c) ++ map fst (snd c)) S.

Definition abs_apply (S : structure) (u : update_msg) : structure :=
  fold_left abs_change (u_changes u)
    (fold_left abs_removal (u_removals u)
       (fold_left abs_despawn (u_despawns u) S)).

Definition abs_send (S : structure) (o : option update_msg) : structure :=
  match o with Some u => abs_apply S u | None => S end.

(* ---------- the invariant between two ticks ---------- *)

(* policy PAll: no client carries a ClientVisibility *)
Definition no_vis (s : server) : Prop := forall cl, In cl (sv_clients s) -> sc_vis cl = None.

(* the record of a replicated entity (alive, with the marker); with unique entity keys this is
   membership in [replicated_ents], see Struct_proofs.repl_get_spec *)
Definition has_marker (x : sent) : bool := match se_marker x with Some _ => true | None => false end.
Definition repl_get (s : server) (e : N) : option sent :=
  match get_ent s e with
  | Some x => if se_alive x && has_marker x then Some x else None
  | None => None
  end.

(* kind k of entity e is recorded as removed since the last tick: buffered, or still an event *)
Definition rem_buffered (s : server) (e k : N) : Prop :=
  exists ks, al_get e (sv_removal_buf s) = Some ks /\ mem_N k ks = true.
Definition rem_event (s : server) (e k : N) : Prop := exists a, In (e, k, a) (sv_removed_events s).
Definition rem_listed (s : server) (e k : N) : Prop := rem_buffered s e k \/ rem_event s e k.

(* [t] is the client's acknowledgement bookkeeping, [S] what the client has been sent so far *)
Record pending_ok (s : server) (t : client_ticks) (S : structure) : Prop := mkPending {
  (* (a) the entities the client knows are those with a mutation tick *)
  pk_known : forall e, mutation_tick t e <> None <-> al_get e S <> None;
  (* (b) a known entity that is no longer replicated is in the despawn buffer *)
  pk_gone : forall e, al_get e S <> None -> repl_get s e = None -> In e (sv_despawn_buf s);
  (* (c1) known, replicated, not in the despawn buffer: a kind the client has and the entity
          lost is recorded as removed *)
  pk_lost : forall e ks x, al_get e S = Some ks -> repl_get s e = Some x -> ~ In e (sv_despawn_buf s) ->
            forall k, mem_N k ks = true -> ~ In k (map fst (se_comps x)) -> rem_listed s e k;
  (* (c2) ... a kind the entity has and the client does not was added after the last tick *)
  pk_new : forall e ks x, al_get e S = Some ks -> repl_get s e = Some x -> ~ In e (sv_despawn_buf s) ->
           forall k c, In (k, c) (se_comps x) -> mem_N k ks = false -> sv_last_run s < c_added c
}.

(* server-wide facts used with it: [srv_base] holds in every state of a run, the last clause
   of [srv_ok] only between frames and while the server is running (`buffer_despawns` is
   a no-op while it is stopped) *)
Record srv_base (s : server) : Prop := mkSrvBase {
  so_wf : ents_wf s;
  so_novis : no_vis s;
  so_stamp : sv_last_run s < sv_now s;
  (* a removed-and-reinserted kind: the component was (re)added after the last tick *)
  so_fresh : forall e k x c, rem_listed s e k -> get_ent s e = Some x -> In (k, c) (se_comps x) ->
             sv_last_run s < c_added c;
  so_rb_nodup : NoDup (al_keys (sv_removal_buf s))
}.
(* the removal buffer only mentions replicated entities *)
Definition rb_repl (s : server) : Prop :=
  forall e, al_get e (sv_removal_buf s) <> None -> repl_get s e <> None.
Definition srv_ok (s : server) : Prop := srv_base s /\ rb_repl s.

(* a client that was never sent anything *)
Definition fresh_ticks (t : client_ticks) : Prop := forall e, mutation_tick t e = None.

(* proof vocabulary: one step of the fold of `buffer_removals` *)
Definition bstep (s : server) (evs : list (N * N * N)) (rb : list (N * list N)) (e : N) : list (N * list N) :=
  match get_ent s e with
  | Some x =>
    if se_alive x && match se_marker x with Some _ => true | None => false end then
      let ks := removed_kinds evs e in
      match ks with
      | [] => rb
      | _ => match al_get e rb with
             | Some old => al_insert e (merge_kinds old ks) rb
             | None => al_insert e ks rb
             end
      end
    else rb
  | None => rb
  end.

(* proof vocabulary: two records of the same client that agree on everything the invariant reads *)
Definition cl_same (cl cl' : sclient) : Prop :=
  sc_slot cl' = sc_slot cl /\ sc_authorized cl' = sc_authorized cl /\ sc_vis cl' = sc_vis cl /\
  forall e, mutation_tick (sc_ticks cl') e <> None <-> mutation_tick (sc_ticks cl) e <> None.

(* proof vocabulary: the common shape of a removal / a change entry *)
Definition abs_upd {A} (upd : A -> list N -> list N) (st : structure) (r : N * A) : structure :=
  al_insert (fst r) (upd (snd r) (kinds_of st (fst r))) st.

(* proof vocabulary: `collect_entity` for one replicated entity of a client without visibility *)
Definition nv_ec (s : server) (cl : sclient) (exm : N * sent * N) : ent_changes :=
  cep (sv_last_run s) (sv_tick s) (sv_removal_buf s) (mutation_tick (sfc_ticks1 s cl) (ent_id exm))
      VVisible (ent_id exm) (snd (fst exm)) (snd exm).

(* proof vocabulary: what an operation s -> s' guarantees *)
Definition op_ok (s s' : server) : Prop :=
  srv_base s' /\
  (sv_running s = true ->
   (rb_repl s -> rb_repl s') /\ forall t st, pending_ok s t st -> pending_ok s' t st).

(* proof vocabulary: kind k of entity e is in a removal buffer *)
Definition buffered_in (rb : list (N * list N)) (e k : N) : Prop :=
  exists ks, al_get e rb = Some ks /\ mem_N k ks = true.

(* proof vocabulary: fields no game operation touches *)
Definition flags_same (s s' : server) : Prop :=
  sv_running s' = sv_running s /\ sv_last_running s' = sv_last_running s /\ sv_dirty s' = sv_dirty s /\
  sv_tick s' = sv_tick s /\ sv_now s' = sv_now s /\ sv_last_run s' = sv_last_run s /\
  (sv_running s = false -> sv_removal_buf s' = sv_removal_buf s).

(* ---------- a run that carries what every client has been sent ---------- *)

Record gstate := mkG {
  g_srv : server;
  g_sent : list (N * structure)               (* slot -> structure sent so far *)
}.

Definition ginit : gstate := mkG server_init [].

(* the update message a frame produced for a slot *)
Definition upd_for (slot : N) (outs : list client_out) : option update_msg :=
  match find (fun o => co_slot o =? slot) outs with
  | Some o => co_update o
  | None => None
  end.

Definition sent_of (slot : N) (old : list (N * structure)) : structure :=
  match al_get slot old with Some st => st | None => [] end.

(* the ghost after a step: exactly the authorized clients of the new server state; a client
   that was not there before starts with the empty structure; every update message of [outs]
   is applied; clients that left (disconnect, reset) are dropped *)
Definition sync_sent (s' : server) (old : list (N * structure)) (outs : list client_out) : list (N * structure) :=
  map (fun cl => (sc_slot cl, abs_send (sent_of (sc_slot cl) old) (upd_for (sc_slot cl) outs)))
      (filter sc_authorized (sv_clients s')).

Inductive gop :=
| GStart
| GStop
| GConnect (slot max : N)
| GAuthorize (slot : N)
| GDisconnect (slot : N)
| GAcks (slot : N) (idxs : list N)
| GPublish (slot : N) (pcs : list N)
| GFrame (tick : bool) (dt : N) (cleanup : bool) (ops : list sop) (parts : list (N * partition)).

Definition gstep (c : cfg) (g : gstate) (o : gop) : res gstate :=
  let s := g_srv g in
  match o with
  | GStart => Ok (mkG (set_running s true) (g_sent g))
  | GStop => Ok (mkG (set_running s false) (g_sent g))
  | GConnect slot max => let s' := connect_client c s slot max in Ok (mkG s' (sync_sent s' (g_sent g) []))
  | GAuthorize slot => let s' := authorize_client c s slot in Ok (mkG s' (sync_sent s' (g_sent g) []))
  | GDisconnect slot => let s' := disconnect_client s slot in Ok (mkG s' (sync_sent s' (g_sent g) []))
  | GAcks slot idxs => Ok (mkG (deliver_acks s slot idxs) (g_sent g))
  | GPublish slot pcs => Ok (mkG (publish_pre s slot pcs) (g_sent g))
  | GFrame tick dt cleanup ops parts =>
    let* (s', fo) := server_frame c s tick dt cleanup ops parts in
    Ok (mkG s' (sync_sent s' (g_sent g) (fo_clients fo)))
  end.

Fixpoint grun (c : cfg) (g : gstate) (l : list gop) : res gstate :=
  match l with
  | [] => Ok g
  | o :: r => let* g' := gstep c g o in grun c g' r
  end.

(* ---------- the invariant of a run ---------- *)

Definition client_inv (s : server) (sent : list (N * structure)) (cl : sclient) : Prop :=
  sc_authorized cl = true ->
  pending_ok s (sc_ticks cl) (sent_of (sc_slot cl) sent) /\
  (* no running frame since the last reset: nobody has been sent anything *)
  (sv_last_running s = false -> sent_of (sc_slot cl) sent = [] /\ fresh_ticks (sc_ticks cl)).

Record ginv (g : gstate) : Prop := mkGInv {
  gi_srv : srv_ok (g_srv g);
  gi_slots : NoDup (map sc_slot (sv_clients (g_srv g)));
  gi_idle : sv_last_running (g_srv g) = false -> sv_removal_buf (g_srv g) = [];
  gi_clients : forall cl, In cl (sv_clients (g_srv g)) -> client_inv (g_srv g) (g_sent g) cl;
  gi_dom : forall slot, al_get slot (g_sent g) <> None ->
           exists cl, In cl (sv_clients (g_srv g)) /\ sc_slot cl = slot /\ sc_authorized cl = true
}.

(* decidable version of struct_equiv for the examples: same key sets, same kind sets *)
Definition kinds_eqb (a b : list N) : bool :=
  forallb (fun k => mem_N k b) a && forallb (fun k => mem_N k a) b.
Definition struct_eqb (S1 S2 : structure) : bool :=
  forallb (fun ek => match al_get (fst ek) S2 with Some b => kinds_eqb (kinds_of S1 (fst ek)) b | None => false end) S1
  && forallb (fun ek => match al_get (fst ek) S1 with Some a => kinds_eqb a (kinds_of S2 (fst ek)) | None => false end) S2.

(* every authorized client of the state has been sent exactly the current structure *)
Definition all_synced (g : gstate) : bool :=
  forallb (fun cl => negb (sc_authorized cl) ||
                     struct_eqb (sent_of (sc_slot cl) (g_sent g)) (struct_of (g_srv g)))
          (sv_clients (g_srv g)).
