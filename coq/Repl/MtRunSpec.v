(* C12 end to end, H2: specification vocabulary (definitions only, not extracted).
   Per client slot a ghost of the mutate messages of the current session:
     mg_sent   every mutate message the server has sent to the slot since the slot's record was created
               (`StConnect` taking effect); emptied when the record goes (`StDisconnect`, `reset` of a stopped server)
     mg_lost   the messages dropped from the slot's link (`StDrop .. true 1 ..`) since then
     mg_appl   the mutate messages the client has applied (taken out of its buffer by `apply_mutate_messages`, in
               order) since its last `reset` (`client_just_disconnected`)
     mg_evs    the `MutateTickReceived` events the client has emitted since its last `reset`, in order
   The ghost reads the model's own functions; nothing of the model is copied. *)
From RV Require Import Lib.Res Repl.ClientTicks Repl.World Repl.Server Repl.Client Repl.Sys
  Tick.RepliconTick Tick.ConfirmHistory Tick.MutateTicks Tick.TickSpec
  Repl.Client_proofs Repl.ClientMut_proofs Repl.ClientStructSpec Repl.StructE2EMut_proofs.
From Coq Require Import Permutation.
Open Scope N_scope.

Record mghost := mkMG {
  mg_sent : list mutate_msg;
  mg_lost : list mutate_msg;
  mg_appl : list mutate_msg;
  mg_evs : list N
}.
Definition mg_empty : mghost := mkMG [] [] [] [].
Definition mghosts := N -> mghost.
Definition mgs_empty : mghosts := fun _ => mg_empty.
Definition mg_upd (G : mghosts) (slot : N) (g : mghost) : mghosts := fun k => if k =? slot then g else G k.

(* the mutate messages a frame of a connected client applies, in order: the update messages of the inbox are applied
   first, the mutate inbox is merged into the buffer, and every buffered message whose update tick has been reached
   is taken out (Client_proofs.mm_step, ClientMut_proofs.gated) *)
Definition frame_applied (c : client) : list mutate_msg :=
  match fold_left (res_step apply_update_message) (cl_inbox_upd c) (Ok c) with
  | Ok c1 => let cm := merge_mut_inbox c1 in filter (fun m => negb (gated (cl_upd_tick cm) m)) (cl_buffered cm)
  | _ => []
  end.

(* the five ways a step changes the ghost of a slot (each reads the old ghost once: `vm_compute` friendly) *)
Definition mg_add_sent (g : mghost) (new : list mutate_msg) : mghost := mkMG (mg_sent g ++ new) (mg_lost g) (mg_appl g) (mg_evs g).
Definition mg_clear_srv (g : mghost) : mghost := mkMG [] [] (mg_appl g) (mg_evs g).
Definition mg_add_lost (g : mghost) (p : list mutate_msg) : mghost := mkMG (mg_sent g) (mg_lost g ++ p) (mg_appl g) (mg_evs g).
Definition mg_add_appl (g : mghost) (fa : list mutate_msg) (evs : list N) : mghost :=
  mkMG (mg_sent g) (mg_lost g) (mg_appl g ++ fa) (mg_evs g ++ evs).
Definition mg_clear_cli (g : mghost) : mghost := mkMG (mg_sent g) (mg_lost g) [] [].

Definition mstep (y : sys) (G : mghosts) (st : step) : mghosts :=
  match st with
  | StSFrame tick dt cleanup ops parts =>
    match server_frame (y_cfg y) (y_server y) tick dt cleanup ops parts with
    | Ok (s', fo) =>
      fun k => match find_client s' k with
               | Some _ => mg_add_sent (G k) (mutates_for k (fo_clients fo))
               | None => mg_clear_srv (G k)
               end
    | _ => G
    end
  | StDisconnect slot => mg_upd G slot (mg_clear_srv (G slot))
  | StCFrame slot ops =>
    match al_get slot (y_clients y) with
    | Some c =>
      match cl_status c with
      | Connected =>
        match client_frame c ops with
        | Ok (_, out) => mg_upd G slot (mg_add_appl (G slot) (frame_applied c) (cfo_tick_events out))
        | _ => G
        end
      | Disconnected =>
        if cl_last_not_disconnected c then mg_upd G slot (mg_clear_cli (G slot)) else G
      end
    | None => G
    end
  | StDrop slot true ch w =>
    match al_get slot (y_clients y) with
    | Some _ => if ch =? 1 then mg_upd G slot (mg_add_lost (G slot) (fst (take w (l_mut (get_link y slot))))) else G
    | None => G
    end
  | _ => G
  end.

Fixpoint mrun (y : sys) (G : mghosts) (script : list step) : res (sys * mghosts) :=
  match script with
  | [] => Ok (y, G)
  | st :: rest => let* (y', _) := sys_step y st in mrun y' (mstep y G st) rest
  end.

(* ---------- what the ghost is compared with ---------- *)

(* the calls of `ServerMutateTicks::confirm` made for a list of applied messages *)
Definition ncalls (l : list mutate_msg) : list (N * N) := map (fun m => (m_tick m, m_count m)) l.
Definition zcalls (l : list mutate_msg) : list (Z * N) := map (fun m => (Z.of_N (m_tick m), m_count m)) l.

(* the ticks for which the flag returned by `confirm` was true *)
Definition fired (l : list mutate_msg) (bs : list bool) : list N :=
  map fst (filter snd (combine (map m_tick l) bs)).

(* number of messages of tick [T] *)
Definition of_tick (T : N) (m : mutate_msg) : bool := m_tick m =? T.
Definition count_tick (T : N) (l : list mutate_msg) : nat := length (filter (of_tick T) l).

(* the largest tick of a list of messages, starting from [L] *)
Definition lmax (L : N) (l : list mutate_msg) : N := fold_left N.max (map m_tick l) L.

(* the events, from the applied messages alone: the message completes its tick (it is the `m_count`-th of that tick)
   and the tick is still inside the 64-tick window ending at the largest tick applied so far *)
Fixpoint ev_spec (L : N) (pre l : list mutate_msg) : list N :=
  match l with
  | [] => []
  | m :: r =>
    (if (L <? m_tick m + 64) && (N.of_nat (count_tick (m_tick m) pre) + 1 =? m_count m) then [m_tick m] else [])
    ++ ev_spec (N.max L (m_tick m)) (pre ++ [m]) r
  end.

(* H2 (a) over a session: every message the server sent carries a nonzero count that fits a usize, and, with
   tracking, the number of messages sent for its tick *)
Definition srv_proto (track : bool) (sent : list mutate_msg) : Prop :=
  forall m, In m sent ->
    m_count m <> 0 /\ m_count m < 2 ^ 64 /\
    m_count m = (if track then N.of_nat (count_tick (m_tick m) sent) else 1).

(* every partition the script proposes has fewer than 2^64 parts (`m_count` is a usize) *)
Definition parts_small_step (st : step) : bool :=
  match st with
  | StSFrame _ _ _ _ parts => forallb (fun kp => N.of_nat (length (snd kp)) <? 2 ^ 64) parts
  | _ => true
  end.
Definition parts_small (script : list step) : bool := forallb parts_small_step script.

(* `ServerMutateTicks` is the replay, from `default()`, of one `confirm` call per applied message, and the events
   are the calls that returned true *)
Definition replay_ok (track : bool) (c : client) (g : mghost) : Prop :=
  match cl_mticks c with
  | Some m => track = true /\ exists bs, mt_confirm_all mt_default (ncalls (mg_appl g)) = Ok (m, bs) /\ mg_evs g = fired (mg_appl g) bs
  | None => track = false /\ mg_evs g = []
  end.

(* a client that has not run a frame while connected since its last reset holds nothing *)
Definition fresh_ok (c : client) (g : mghost) : Prop :=
  cl_last_not_disconnected c = false -> cl_buffered c = [] /\ mg_appl g = [] /\ mg_evs g = [].

(* a slot in a session: everything sent is applied, buffered, in the inbox, in flight, or lost - exactly once *)
Definition live_ok (g : mghost) (c : client) (lmut : list mutate_msg) : Prop :=
  Permutation (mg_sent g) (mg_appl g ++ cl_buffered c ++ cl_inbox_mut c ++ lmut ++ mg_lost g).
