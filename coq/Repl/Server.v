(* Layer 1, server side: src/server.rs (`send_replication` with its five collectors,
   `receive_acks`, `buffer_despawns`, `buffer_removals`, `reset`, connection handling)
   on top of Repl.ClientTicks (acknowledgement bookkeeping) and Vis.Visibility.

   Orders that depend on Bevy's archetype / hash-map iteration are not modelled:
   - arrays inside an update message are produced in ascending entity order
     (observations are compared sorted);
   - the way a tick's mutated entities are distributed over mutate messages is an
     ORACLE input ([partition], taken from the observed run and validated by
     [partition_ok]); Layer 0 (Pack.Packing) proves what the real split loop guarantees. *)
From RV Require Import Lib.Res Repl.ClientTicks Repl.World Vis.Visibility Tick.RepliconTick.
Open Scope N_scope.

Inductive policy := PAll | PBlack | PWhite.
Inductive auth := AuthNone | AuthCustom | AuthProto.

Record cfg := mkCfg {
  cfg_policy : policy;
  cfg_auth : auth;
  cfg_track : bool;
  cfg_timeout : N                            (* mutations_timeout in ms *)
}.

Record sclient := mkSC {
  sc_slot : N;
  sc_authorized : bool;
  sc_max_size : N;
  sc_ticks : client_ticks;
  sc_vis : option vis;
  sc_pending_map : list (N * N)              (* ClientEntityMap: server entity, pre-spawned id *)
}.

Record server := mkSrv {
  sv_running : bool;
  sv_last_running : bool;                    (* `Local` of `server_just_stopped` *)
  sv_now : N;                                (* change-stamp counter *)
  sv_last_run : N;                           (* `last_run` of `send_replication` *)
  sv_tick : N;                               (* ServerTick *)
  sv_dirty : bool;                           (* `resource_changed::<ServerTick>` not yet consumed *)
  sv_elapsed : N;                            (* Time::elapsed, ms *)
  sv_ents : list (N * sent);
  sv_despawn_buf : list N;
  sv_removal_buf : list (N * list N);
  sv_removed_events : list (N * N * N);      (* entity, kind, age in frames *)
  sv_clients : list sclient;
  sv_inbox_acks : list (N * list N);         (* slot, decoded indices *)
  sv_premap : list (N * N)                   (* pre-spawned client entities the script may name *)
}.

Definition server_init : server :=
  mkSrv false false 1 0 0 true 0 [] [] [] [] [] [] [].

(* ---------- small accessors ---------- *)

Definition get_ent (s : server) (e : N) : option sent := al_get e (sv_ents s).
Definition set_ent (s : server) (e : N) (x : sent) : server :=
  mkSrv (sv_running s) (sv_last_running s) (sv_now s) (sv_last_run s) (sv_tick s) (sv_dirty s) (sv_elapsed s)
        (al_insert e x (sv_ents s)) (sv_despawn_buf s) (sv_removal_buf s) (sv_removed_events s)
        (sv_clients s) (sv_inbox_acks s) (sv_premap s).
Definition set_bufs (s : server) (d : list N) (r : list (N * list N)) (ev : list (N * N * N)) : server :=
  mkSrv (sv_running s) (sv_last_running s) (sv_now s) (sv_last_run s) (sv_tick s) (sv_dirty s) (sv_elapsed s)
        (sv_ents s) d r ev (sv_clients s) (sv_inbox_acks s) (sv_premap s).
Definition set_clients (s : server) (cs : list sclient) : server :=
  mkSrv (sv_running s) (sv_last_running s) (sv_now s) (sv_last_run s) (sv_tick s) (sv_dirty s) (sv_elapsed s)
        (sv_ents s) (sv_despawn_buf s) (sv_removal_buf s) (sv_removed_events s) cs (sv_inbox_acks s) (sv_premap s).

Definition find_client (s : server) (slot : N) : option sclient :=
  find (fun c => sc_slot c =? slot) (sv_clients s).
Definition update_client (s : server) (c : sclient) : server :=
  set_clients s (map (fun c' => if sc_slot c' =? sc_slot c then c else c') (sv_clients s)).

(* ---------- game-level operations (executed in `Update`) ---------- *)

Inductive sop :=
| SSpawn (e : N) (marker : bool) (comps : list (N * val))
| SDespawn (e : N)
| SInsert (e : N) (k : N) (v : val)
| SRemove (e : N) (k : N)
| SMutate (e : N) (k : N) (v : val)
| SMark (e : N)
| SUnmark (e : N)
| SVis (slot e : N) (visible : bool)
| SMap (slot e pc : N).

(* a reference can only be written when its target was ever spawned (the harness resolves
   script ids through its entity table and skips the write otherwise) *)
Definition val_ok (s : server) (v : val) : bool :=
  match v with VNat _ => true | VRef t => match get_ent s t with Some _ => true | None => false end end.

(* `OnRemove Replicated` observer `buffer_despawns` *)
Definition buffer_despawn (s : server) (e : N) : server :=
  if sv_running s then set_bufs s (sv_despawn_buf s ++ [e]) (al_remove e (sv_removal_buf s)) (sv_removed_events s)
  else s.

Definition apply_sop (s : server) (op : sop) : server :=
  let now := sv_now s in
  match op with
  | SSpawn e marker comps =>
    match get_ent s e with
    | Some _ => s
    | None =>
      let cs := fold_left (fun acc kv => if val_ok s (snd kv) then kinsert (fst kv) (mkComp (snd kv) now now) acc else acc) comps [] in
      set_ent s e (mkSEnt true (if marker then Some now else None) cs)
    end
  | SDespawn e =>
    match get_ent s e with
    | Some x =>
      if se_alive x then
        let s' := set_ent s e (mkSEnt false None []) in
        match se_marker x with Some _ => buffer_despawn s' e | None => s' end
      else s
    | None => s
    end
  | SInsert e k v =>
    match get_ent s e with
    | Some x =>
      if se_alive x && val_ok s v then
        let c := match al_get k (se_comps x) with
                 | Some old => mkComp v (c_added old) now
                 | None => mkComp v now now
                 end in
        set_ent s e (mkSEnt true (se_marker x) (kinsert k c (se_comps x)))
      else s
    | None => s
    end
  | SMutate e k v =>
    match get_ent s e with
    | Some x =>
      if se_alive x && val_ok s v then
        match al_get k (se_comps x) with
        | Some old => set_ent s e (mkSEnt true (se_marker x) (kinsert k (mkComp v (c_added old) now) (se_comps x)))
        | None => s
        end
      else s
    | None => s
    end
  | SRemove e k =>
    match get_ent s e with
    | Some x =>
      if se_alive x then
        match al_get k (se_comps x) with
        | Some _ =>
          let s' := set_ent s e (mkSEnt true (se_marker x) (al_remove k (se_comps x))) in
          set_bufs s' (sv_despawn_buf s') (sv_removal_buf s') (sv_removed_events s' ++ [(e, k, 0)])
        | None => s
        end
      else s
    | None => s
    end
  | SMark e =>
    match get_ent s e with
    | Some x =>
      if se_alive x then
        match se_marker x with
        | Some _ => s
        | None => set_ent s e (mkSEnt true (Some now) (se_comps x))
        end
      else s
    | None => s
    end
  | SUnmark e =>
    match get_ent s e with
    | Some x =>
      if se_alive x then
        match se_marker x with
        | Some _ => buffer_despawn (set_ent s e (mkSEnt true None (se_comps x))) e
        | None => s
        end
      else s
    | None => s
    end
  | SVis slot e visible =>
    match find_client s slot, get_ent s e with
    | Some c, Some _ =>
      match sc_vis c with
      | Some v => update_client s (mkSC (sc_slot c) (sc_authorized c) (sc_max_size c) (sc_ticks c)
                                        (Some (set_visibility v e visible)) (sc_pending_map c))
      | None => s
      end
    | _, _ => s
    end
  | SMap slot e pc =>
    match find_client s slot, get_ent s e with
    | Some c, Some _ =>
      if sc_authorized c && existsb (fun p => (fst p =? slot) && (snd p =? pc)) (sv_premap s) then
        update_client s (mkSC (sc_slot c) true (sc_max_size c) (sc_ticks c) (sc_vis c) (sc_pending_map c ++ [(e, pc)]))
      else s
    | _, _ => s
    end
  end.

(* ---------- `buffer_removals` (every running frame) ---------- *)

(* kinds of [evs] removed from entity [e], in rule (= kind) order, without duplicates *)
Definition removed_kinds (evs : list (N * N * N)) (e : N) : list N :=
  sort_N (fold_left (fun acc ev => let '(e', k, _) := ev in
                                   if (e' =? e) && negb (mem_N k acc) then k :: acc else acc) evs []).

Definition merge_kinds (old new : list N) : list N :=
  fold_left (fun acc k => if mem_N k acc then acc else acc ++ [k]) new old.

Definition event_entities (evs : list (N * N * N)) : list N :=
  fold_left (fun acc ev => let '(e, _, _) := ev in if mem_N e acc then acc else acc ++ [e]) evs [].

Definition buffer_removals (s : server) : server :=
  let evs := sv_removed_events s in
  let rb := fold_left (fun rb e =>
              match get_ent s e with
              | Some x =>
                if se_alive x && match se_marker x with Some _ => true | None => false end then
                  let ks := removed_kinds evs e in
                  match ks with
                  | [] => rb
                  | _ => match al_get e rb with
                         | Some old => al_insert e (merge_kinds old ks) rb
                         | None => al_insert e ks rb
                         end
                  end
                else rb
              | None => rb
              end) (event_entities evs) (sv_removal_buf s) in
  set_bufs s (sv_despawn_buf s) rb [].

(* removal events not read by a running frame survive one more frame *)
Definition age_events (s : server) : server :=
  set_bufs s (sv_despawn_buf s) (sv_removal_buf s)
           (fold_right (fun ev acc => let '(e, k, a) := ev in if a =? 0 then (e, k, 1) :: acc else acc) [] (sv_removed_events s)).

(* ---------- send_replication, per client ---------- *)

Definition vis_state_of (v : option vis) (e : N) : vstate :=
  match v with None => VVisible | Some v => state v e end.
Definition vis_visible (v : option vis) (e : N) : bool :=
  match v with None => true | Some v => is_visible v e end.
Definition is_hidden (st : vstate) : bool := match st with VHidden => true | _ => false end.
Definition is_gained (st : vstate) : bool := match st with VGained => true | _ => false end.

(* collect_despawns *)
Definition collect_despawns (buf : list N) (ticks : client_ticks) (v : option vis)
  : list N * client_ticks * option vis :=
  let '(lost, v1) := match v with
                     | Some vv => let '(vv', l) := drain_lost vv in (sort_N l, Some vv')
                     | None => ([], None)
                     end in
  let ticks1 := fold_left remove_entity lost ticks in
  fold_left (fun acc e =>
               let '(des, t, vo) := acc in
               match vo with
               | Some vv =>
                 let des' := if is_visible vv e then des ++ [e] else des in
                 (des', remove_entity t e, Some (remove_despawned vv e))
               | None => (des ++ [e], remove_entity t e, None)
               end) buf (lost, ticks1, v1).

(* collect_removals *)
Definition collect_removals (rb : list (N * list N)) (v : option vis) : list (N * list N) :=
  filter (fun r => vis_visible v (fst r)) rb.

(* the per entity / per client part of collect_changes *)
Record ent_changes := mkEC {
  ec_entry : option (list (N * val));        (* entry in the update message's changes array *)
  ec_muts : list (N * val);                  (* left for a mutate message *)
  ec_bump : bool                             (* set_mutation_tick(entity, this_run) *)
}.

Definition collect_entity (last_run tick : N) (rb : list (N * list N)) (ticks : client_ticks)
  (st : vstate) (e : N) (x : sent) (madd : N) : res ent_changes :=
  if is_hidden st then Ok (mkEC None [] false) else
  let marker_added := last_run <? madd in
  let mt := mutation_tick ticks e in
  let* (ins, muts) :=
    fold_left (fun acc kc =>
      let* (ins, muts) := acc in
      let '(k, c) := kc in
      let incremental :=
        match mt with
        | Some t => if negb marker_added && negb (is_gained st) && negb (last_run <? c_added c) then Some t else None
        | None => None
        end in
      match incremental with
      | Some t =>
        let* sm := send_mutations (rate_of k) tick in
        if (t <? c_changed c) && sm then Ok (ins, muts ++ [(k, c_val c)]) else Ok (ins, muts)
      | None => Ok (ins ++ [(k, c_val c)], muts)
      end) (se_comps x) (Ok ([], [])) in
  let new_entity := marker_added || is_gained st || match mt with None => true | Some _ => false end in
  let has_removal := match al_get e rb with Some _ => true | None => false end in
  let has_ins := match ins with [] => false | _ => true end in
  if new_entity || has_ins || has_removal then
    let entry := ins ++ muts in
    match entry with
    | [] => Ok (mkEC (if new_entity then Some [] else None) [] true)
    | _ => Ok (mkEC (Some entry) [] true)
    end
  else Ok (mkEC None muts false).

Fixpoint insert_ent (x : N * sent * N) (l : list (N * sent * N)) : list (N * sent * N) :=
  match l with
  | [] => [x]
  | y :: t => if fst (fst x) <=? fst (fst y) then x :: y :: t else y :: insert_ent x t
  end.

(* entities with the `Replicated` marker, ascending (see the header about orders) *)
Definition replicated_ents (s : server) : list (N * sent * N) :=
  fold_right (fun ex acc =>
                let '(e, x) := ex in
                match se_marker x with
                | Some madd => if se_alive x then insert_ent (e, x, madd) acc else acc
                | None => acc
                end) [] (sv_ents s).

Fixpoint insert_by_key {V : Type} (k : N) (v : V) (l : list (N * V)) : list (N * V) :=
  match l with
  | [] => [(k, v)]
  | (k', v') :: t => if k <=? k' then (k, v) :: (k', v') :: t else (k', v') :: insert_by_key k v t
  end.
Definition sort_by_key {V : Type} (l : list (N * V)) : list (N * V) :=
  fold_right (fun kv acc => insert_by_key (fst kv) (snd kv) acc) [] l.

(* the oracle: entities of each mutate message, in order *)
Definition partition := list (list N).

Definition partition_ok (track : bool) (muts : list (N * list (N * val))) (p : partition) : bool :=
  let flat := concat p in
  (length flat =? length muts)%nat
  && forallb (fun e => match al_get e muts with Some _ => true | None => false end) flat
  && forallb (fun e => (length (filter (N.eqb e) flat) =? 1)%nat) flat
  && match muts with
     | [] => if track then match p with [[]] => true | _ => false end else match p with [] => true | _ => false end
     | _ =>
       (* only the LAST message of a tick may have an empty body: the split loop also walks over relation
          groups without mutated entities (empty chunks); a split at such a chunk starts a message that
          stays empty when nothing but empty chunks follows *)
       match rev p with
       | [] => false
       | _ :: front => forallb (fun m => match m with [] => false | _ => true end) front
       end
     end.

Record client_out := mkCO {
  co_slot : N;
  co_update : option update_msg;
  co_mutates : list mutate_msg;
  co_bad_partition : bool
}.

Definition send_for_client (c : cfg) (s : server) (this_run : N) (cl : sclient) (p : partition)
  : res (sclient * client_out) :=
  let tick := sv_tick s in
  let maps := sort_by_key (sc_pending_map cl) in
  let '(despawns, ticks1, vis1) := collect_despawns (sv_despawn_buf s) (sc_ticks cl) (sc_vis cl) in
  let removals := sort_by_key (collect_removals (sv_removal_buf s) vis1) in
  let* (changes, muts, ticks2) :=
    fold_left (fun acc exm =>
      let* (changes, muts, ticks) := acc in
      let '(e, x, madd) := exm in
      let* ec := collect_entity (sv_last_run s) tick (sv_removal_buf s) ticks (vis_state_of vis1 e) e x madd in
      let changes' := match ec_entry ec with Some en => changes ++ [(e, en)] | None => changes end in
      let muts' := match ec_muts ec with [] => muts | m => muts ++ [(e, m)] end in
      let ticks' := if ec_bump ec then set_mutation_tick ticks e this_run else ticks in
      Ok (changes', muts', ticks')) (replicated_ents s) (Ok ([], [], ticks1)) in
  let upd := mkUpd tick maps despawns removals changes in
  let has_upd := negb (update_is_empty upd) in
  let ticks3 := if has_upd then set_update_tick ticks2 tick else ticks2 in
  let send_muts := match muts with [] => cfg_track c | _ => true end in
  let bad := negb (partition_ok (cfg_track c) muts p) in
  let p' := if bad then (match muts with [] => if cfg_track c then [[]] else [] | _ => [map fst muts] end) else p in
  let count := N.of_nat (length p') in
  let '(ticks4, msgs) :=
    if send_muts then
      fold_left (fun acc ents =>
        let '(t, msgs) := acc in
        let '(t', idx) := register_mutate_message t this_run (sv_elapsed s) in
        let t'' := add_entities t' idx ents in
        let body := map (fun e => (e, match al_get e muts with Some m => m | None => [] end)) ents in
        (t'', msgs ++ [mkMut (ct_update_tick ticks3) tick (if cfg_track c then count else 1) idx body]))
        p' (ticks3, [])
    else (ticks3, []) in
  let vis2 := match vis1 with Some v => Some (update v) | None => None end in
  Ok (mkSC (sc_slot cl) true (sc_max_size cl) ticks4 vis2 [],
      mkCO (sc_slot cl) (if has_upd then Some upd else None) msgs bad).

(* ---------- send_replication ---------- *)

Definition set_after_send (s : server) (cls : list sclient) (this_run : N) : server :=
  mkSrv (sv_running s) (sv_last_running s) (this_run + 1) this_run (sv_tick s) false (sv_elapsed s)
        (sv_ents s) [] [] (sv_removed_events s) cls (sv_inbox_acks s) (sv_premap s).

Definition send_replication (c : cfg) (s : server) (parts : list (N * partition))
  : res (server * list client_out) :=
  let this_run := sv_now s in
  let* (cls, outs) :=
    fold_left (fun acc cl =>
      let* (cls, outs) := acc in
      if sc_authorized cl then
        let p := match al_get (sc_slot cl) parts with Some p => p | None => [] end in
        let* (cl', out) := send_for_client c s this_run cl p in
        Ok (cls ++ [cl'], outs ++ [out])
      else Ok (cls ++ [cl], outs)) (sv_clients s) (Ok ([], [])) in
  Ok (set_after_send s cls this_run, outs).

(* ---------- receive_acks ---------- *)

Definition receive_acks (s : server) : server :=
  let this_run := sv_now s in
  let cls := fold_left (fun cls msg =>
    let '(slot, idxs) := msg in
    map (fun cl => if (sc_slot cl =? slot) && sc_authorized cl then
                     mkSC (sc_slot cl) true (sc_max_size cl)
                          (fold_left (fun t i => ack_mutate_message t this_run i) idxs (sc_ticks cl))
                          (sc_vis cl) (sc_pending_map cl)
                   else cl) cls) (sv_inbox_acks s) (sv_clients s) in
  mkSrv (sv_running s) (sv_last_running s) (sv_now s) (sv_last_run s) (sv_tick s) (sv_dirty s) (sv_elapsed s)
        (sv_ents s) (sv_despawn_buf s) (sv_removal_buf s) (sv_removed_events s) cls [] (sv_premap s).

(* `cleanup_acks`: runs when its repeating timer (period = timeout) finished in this frame *)
Definition cleanup_acks (c : cfg) (s : server) : server :=
  let min_ts := sv_elapsed s - cfg_timeout c in        (* saturating_sub *)
  set_clients s (map (fun cl => mkSC (sc_slot cl) (sc_authorized cl) (sc_max_size cl)
                                     (cleanup_older_mutations (sc_ticks cl) min_ts) (sc_vis cl) (sc_pending_map cl))
                     (sv_clients s)).

(* ---------- connections and sessions ---------- *)

Definition new_vis (c : cfg) : option vis :=
  match cfg_policy c with PAll => None | PBlack => Some blacklist | PWhite => Some whitelist end.

Definition authorized_client (c : cfg) (slot max : N) : sclient :=
  mkSC slot true max ct_default (new_vis c) [].

Definition connect_client (c : cfg) (s : server) (slot max : N) : server :=
  if sv_running s then
    match find_client s slot with
    | Some _ => s
    | None =>
      let cl := match cfg_auth c with
                | AuthNone => authorized_client c slot max
                | _ => mkSC slot false max ct_default None []
                end in
      set_clients s (sv_clients s ++ [cl])
    end
  else s.

Definition authorize_client (c : cfg) (s : server) (slot : N) : server :=
  match find_client s slot with
  | Some cl => if sc_authorized cl then s else update_client s (authorized_client c slot (sc_max_size cl))
  | None => s
  end.

Definition disconnect_client (s : server) (slot : N) : server :=
  mkSrv (sv_running s) (sv_last_running s) (sv_now s) (sv_last_run s) (sv_tick s) (sv_dirty s) (sv_elapsed s)
        (sv_ents s) (sv_despawn_buf s) (sv_removal_buf s) (sv_removed_events s)
        (filter (fun cl => negb (sc_slot cl =? slot)) (sv_clients s))
        (filter (fun m => negb (fst m =? slot)) (sv_inbox_acks s)) (sv_premap s).

Definition set_running (s : server) (r : bool) : server :=
  mkSrv r (sv_last_running s) (sv_now s) (sv_last_run s) (sv_tick s) (sv_dirty s) (sv_elapsed s)
        (sv_ents s) (sv_despawn_buf s) (sv_removal_buf s) (sv_removed_events s) (sv_clients s)
        (if r then sv_inbox_acks s else []) (sv_premap s).

(* `reset` (PostUpdate, `server_just_stopped`) *)
Definition reset (s : server) : server :=
  mkSrv (sv_running s) (sv_last_running s) (sv_now s) (sv_last_run s) 0 true (sv_elapsed s)
        (sv_ents s) [] [] (sv_removed_events s) [] [] (sv_premap s).

Definition deliver_acks (s : server) (slot : N) (idxs : list N) : server :=
  if sv_running s then
    match find_client s slot with
    | Some _ =>
      mkSrv (sv_running s) (sv_last_running s) (sv_now s) (sv_last_run s) (sv_tick s) (sv_dirty s) (sv_elapsed s)
            (sv_ents s) (sv_despawn_buf s) (sv_removal_buf s) (sv_removed_events s) (sv_clients s)
            (sv_inbox_acks s ++ [(slot, idxs)]) (sv_premap s)
    | None => s
    end
  else s.

Definition publish_pre (s : server) (slot : N) (pcs : list N) : server :=
  mkSrv (sv_running s) (sv_last_running s) (sv_now s) (sv_last_run s) (sv_tick s) (sv_dirty s) (sv_elapsed s)
        (sv_ents s) (sv_despawn_buf s) (sv_removal_buf s) (sv_removed_events s) (sv_clients s) (sv_inbox_acks s)
        (fold_left (fun acc pc => if existsb (fun p => (fst p =? slot) && (snd p =? pc)) acc then acc else acc ++ [(slot, pc)])
                   pcs (sv_premap s)).

(* ---------- one server frame ---------- *)

Record frame_out := mkFO {
  fo_tick : N;
  fo_ran : bool;
  fo_clients : list client_out
}.

Definition with_time_tick (s : server) (tick : bool) (dt : N) : server :=
  mkSrv (sv_running s) (sv_last_running s) (sv_now s) (sv_last_run s)
        (if tick then tick_add (sv_tick s) 1 else sv_tick s) (sv_dirty s || tick) (sv_elapsed s + dt)
        (sv_ents s) (sv_despawn_buf s) (sv_removal_buf s) (sv_removed_events s) (sv_clients s)
        (sv_inbox_acks s) (sv_premap s).

Definition set_last_running (s : server) : server :=
  mkSrv (sv_running s) (sv_running s) (sv_now s) (sv_last_run s) (sv_tick s) (sv_dirty s) (sv_elapsed s)
        (sv_ents s) (sv_despawn_buf s) (sv_removal_buf s) (sv_removed_events s) (sv_clients s)
        (sv_inbox_acks s) (sv_premap s).

Definition clear_dirty (s : server) : server :=
  mkSrv (sv_running s) (sv_last_running s) (sv_now s) (sv_last_run s) (sv_tick s) false (sv_elapsed s)
        (sv_ents s) (sv_despawn_buf s) (sv_removal_buf s) (sv_removed_events s) (sv_clients s)
        (sv_inbox_acks s) (sv_premap s).

Definition server_frame (c : cfg) (s : server) (tick : bool) (dt : N) (cleanup : bool) (ops : list sop)
  (parts : list (N * partition)) : res (server * frame_out) :=
  let s1 := with_time_tick s tick dt in
  (* PreUpdate *)
  let s2 := if sv_running s1 then (let r := receive_acks s1 in if cleanup then cleanup_acks c r else r) else s1 in
  (* Update *)
  let s3 := fold_left apply_sop ops s2 in
  (* PostUpdate *)
  let* (s4, outs, ran) :=
    if sv_running s3 then
      let s3' := buffer_removals s3 in
      if sv_dirty s3' then
        let* (s4, outs) := send_replication c s3' parts in Ok (s4, outs, true)
      else Ok (s3', [], false)
    else
      (* the run condition `resource_changed::<ServerTick>` of send_replication is a system condition:
         Bevy evaluates it every frame, also while the set condition `server_running` is false, so a
         pending change (an increment while stopped, or the one made by `reset` earlier in this frame)
         is consumed here *)
      let s3' := if sv_last_running s3 then reset s3 else s3 in
      Ok (clear_dirty (age_events s3'), [], false) in
  Ok (set_last_running s4, mkFO (sv_tick s4) ran outs).
