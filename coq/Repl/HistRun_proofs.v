(* C12 end to end, H1, over whole-system runs: along every run of `Sys.run (sys_init cfg n) script` with fewer than
   2^31 ticking server frames, every alive client entity carrying a confirm history [h] satisfies
   [hist_R h (h_last h) S] for its ghost set [S] (Repl/HistRunSpec.v: the ticks of the applied update messages that
   had an entry for it and of the applied mutate messages that confirmed it), [h_last h] being the maximum of [S].
   No other premise: not even legality of the script, sessions or the absence of `SMap` operations are needed,
   because the invariant is local to the client and only needs ticks that have not wrapped. *)
From RV Require Import Lib.Res Repl.ClientTicks Repl.ClientTicks_proofs Repl.World Vis.Visibility Repl.Server Repl.ServerSpec
  Repl.Server_proofs Repl.Client Repl.Sys
  Tick.RepliconTick Tick.RepliconTick_proofs Tick.ConfirmHistory Tick.ConfirmHistory_proofs Tick.MutateTicks Tick.TickSpec
  Repl.Client_proofs Repl.ClientEnt_proofs Repl.ClientMut_proofs Repl.ClientSys_proofs Repl.ClientStructSpec Repl.ClientStruct_proofs
  Repl.ClientHist_proofs Repl.Session_proofs Repl.StructE2EMut_proofs Repl.MtRunSrv_proofs Repl.HistRunSpec Repl.HistRunCli_proofs.
From Coq Require Import ZifyBool ZifyN.
Open Scope N_scope.
Ltac Zify.zify_post_hook ::= Z.div_mod_to_equations.
Arguments N.add : simpl never. Arguments N.mul : simpl never. Arguments N.pow : simpl never.
Arguments N.ltb : simpl never. Arguments N.leb : simpl never. Arguments N.div : simpl never.
Arguments N.modulo : simpl never. Arguments N.sub : simpl never. Arguments N.eqb : simpl never.

(* ================================================================== *)
(* 1. the run with its ghost                                          *)
(* ================================================================== *)

Lemma hrun_app s1 : forall y G s2,
  hrun y G (s1 ++ s2) = let* (y1, G1) := hrun y G s1 in hrun y1 G1 s2.
Proof.
  induction s1 as [|st t IH]; intros y G s2; cbn [app hrun bind]; [reflexivity|].
  destruct (sys_step y st) as [[y' o]| |]; cbn [bind]; [apply IH|reflexivity|reflexivity].
Qed.

Lemma hrun_run script : forall y G y' G', hrun y G script = Ok (y', G') -> run y script = Ok y'.
Proof.
  induction script as [|st t IH]; intros y G y' G' H; cbn [hrun run] in *.
  - inversion H; reflexivity.
  - destruct (sys_step y st) as [[y1 o]| |]; cbn [bind] in *; try discriminate. exact (IH _ _ _ _ H).
Qed.

Lemma run_hrun script : forall y G y', run y script = Ok y' -> exists G', hrun y G script = Ok (y', G').
Proof.
  induction script as [|st t IH]; intros y G y' H; cbn [hrun run] in *.
  - inversion H; subst. eexists; reflexivity.
  - destruct (sys_step y st) as [[y1 o]| |]; cbn [bind] in *; try discriminate. exact (IH _ _ _ H).
Qed.

Lemma hstep_le y G st slot : hg_le (G slot) (hstep y G st slot).
Proof.
  destruct st; cbn [hstep]; try apply hg_le_refl.
  destruct (al_get slot0 (y_clients y)); [|apply hg_le_refl]. destruct (slot =? slot0); [apply hg_le_frame|apply hg_le_refl].
Qed.

Lemma hrun_le script : forall y G y' G' slot, hrun y G script = Ok (y', G') -> hg_le (G slot) (G' slot).
Proof.
  induction script as [|st t IH]; intros y G y' G' slot H; cbn [hrun] in H.
  - inversion H; subst. apply hg_le_refl.
  - destruct (sys_step y st) as [[y1 o]| |]; cbn [bind] in H; try discriminate.
    eapply hg_le_trans; [apply hstep_le|exact (IH _ _ _ _ slot H)].
Qed.

(* ================================================================== *)
(* 2. small facts about the queues                                    *)
(* ================================================================== *)

Lemma enqueue_lupd outs : forall y slot,
  l_upd (get_link (enqueue_outputs y outs) slot) = l_upd (get_link y slot) ++ updates_for slot outs.
Proof.
  induction outs as [|o t IH]; intros y slot; [cbn; rewrite app_nil_r; reflexivity|].
  unfold enqueue_outputs in *. cbn [fold_left]. rewrite IH. cbn [updates_for flat_map].
  destruct (co_slot o =? slot) eqn:E.
  - assert (co_slot o = slot) by lia. subst slot. rewrite get_link_set_link_same. cbn [l_upd].
    rewrite <- !app_assoc. reflexivity.
  - rewrite get_link_set_link_other by lia. cbn [app]. reflexivity.
Qed.

Lemma enqueue_fields outs : forall y,
  y_clients (enqueue_outputs y outs) = y_clients y /\ y_server (enqueue_outputs y outs) = y_server y /\
  y_cfg (enqueue_outputs y outs) = y_cfg y.
Proof.
  induction outs as [|o t IH]; intros y; [auto|]. unfold enqueue_outputs in *. cbn [fold_left].
  destruct (IH (set_link y (co_slot o)
                  (mkLink (l_upd (get_link y (co_slot o)) ++ match co_update o with Some u => [u] | None => [] end)
                          (l_mut (get_link y (co_slot o)) ++ co_mutates o) (l_ack (get_link y (co_slot o)))))) as (A & B & C).
  rewrite A, B, C. auto.
Qed.

Lemma updates_for_in slot outs u : In u (updates_for slot outs) -> exists o, In o outs /\ co_slot o = slot /\ co_update o = Some u.
Proof.
  unfold updates_for. intros H. apply in_flat_map in H. destruct H as [o [Ho Hu]].
  destruct (co_slot o =? slot) eqn:E; [|destruct Hu]. exists o. split; [exact Ho|]. split; [lia|].
  destruct (co_update o) as [u0|]; [|destruct Hu]. destruct Hu as [->|[]]. reflexivity.
Qed.

Lemma deliver_update_fields cl u :
  cl_ents (deliver_update cl u) = cl_ents cl /\ cl_next (deliver_update cl u) = cl_next cl /\
  cl_inbox_mut (deliver_update cl u) = cl_inbox_mut cl /\ cl_buffered (deliver_update cl u) = cl_buffered cl /\
  (forall x, In x (cl_inbox_upd (deliver_update cl u)) -> In x (cl_inbox_upd cl) \/ x = u).
Proof.
  unfold deliver_update. destruct (cl_status cl); cbn; repeat split; auto.
  intros x Hx. apply in_app_or in Hx. destruct Hx as [Hx|[<-|[]]]; auto.
Qed.

Lemma deliver_mutate_fields cl m :
  cl_ents (deliver_mutate cl m) = cl_ents cl /\ cl_next (deliver_mutate cl m) = cl_next cl /\
  cl_inbox_upd (deliver_mutate cl m) = cl_inbox_upd cl /\ cl_buffered (deliver_mutate cl m) = cl_buffered cl /\
  (forall x, In x (cl_inbox_mut (deliver_mutate cl m)) -> In x (cl_inbox_mut cl) \/ x = m).
Proof.
  unfold deliver_mutate. destruct (cl_status cl); cbn; repeat split; auto.
  intros x Hx. apply in_app_or in Hx. destruct Hx as [Hx|[<-|[]]]; auto.
Qed.

Lemma deliver_updates_fields p : forall cl,
  cl_ents (fold_left deliver_update p cl) = cl_ents cl /\ cl_next (fold_left deliver_update p cl) = cl_next cl /\
  cl_inbox_mut (fold_left deliver_update p cl) = cl_inbox_mut cl /\ cl_buffered (fold_left deliver_update p cl) = cl_buffered cl /\
  (forall x, In x (cl_inbox_upd (fold_left deliver_update p cl)) -> In x (cl_inbox_upd cl) \/ In x p).
Proof.
  induction p as [|u t IH]; intros cl; cbn [fold_left]; [repeat split; auto|].
  destruct (IH (deliver_update cl u)) as (A & B & C & D & E). destruct (deliver_update_fields cl u) as (A1 & B1 & C1 & D1 & E1).
  rewrite A, B, C, D. repeat split; try assumption. intros x Hx. destruct (E x Hx) as [H|H]; [|right; right; exact H].
  destruct (E1 x H) as [H1| ->]; [left; exact H1|right; left; reflexivity].
Qed.

Lemma deliver_mutates_fields p : forall cl,
  cl_ents (fold_left deliver_mutate p cl) = cl_ents cl /\ cl_next (fold_left deliver_mutate p cl) = cl_next cl /\
  cl_inbox_upd (fold_left deliver_mutate p cl) = cl_inbox_upd cl /\ cl_buffered (fold_left deliver_mutate p cl) = cl_buffered cl /\
  (forall x, In x (cl_inbox_mut (fold_left deliver_mutate p cl)) -> In x (cl_inbox_mut cl) \/ In x p).
Proof.
  induction p as [|u t IH]; intros cl; cbn [fold_left]; [repeat split; auto|].
  destruct (IH (deliver_mutate cl u)) as (A & B & C & D & E). destruct (deliver_mutate_fields cl u) as (A1 & B1 & C1 & D1 & E1).
  rewrite A, B, C, D. repeat split; try assumption. intros x Hx. destruct (E x Hx) as [H|H]; [|right; right; exact H].
  destruct (E1 x H) as [H1| ->]; [left; exact H1|right; left; reflexivity].
Qed.

Lemma cl_ticks_le_mono B B' c : B <= B' -> cl_ticks_le B c -> cl_ticks_le B' c.
Proof. intros Hle [H1 H2]. split; [intros u Hu; specialize (H1 u Hu); lia|intros m Hm; specialize (H2 m Hm); lia]. Qed.

Lemma sys_ticks_le_mono B B' y : B <= B' -> sys_ticks_le B y -> sys_ticks_le B' y.
Proof.
  intros Hle (H1 & H2 & H3). split; [lia|]. split.
  - intros slot. destruct (H2 slot) as [A1 A2]. split; [intros u Hu; specialize (A1 u Hu); lia|intros m Hm; specialize (A2 m Hm); lia].
  - intros slot c Hc. exact (cl_ticks_le_mono B B' c Hle (H3 slot c Hc)).
Qed.

Lemma cl_ticks_le_set_status B c st : cl_ticks_le B c -> cl_ticks_le B (set_status c st).
Proof.
  intros [H1 H2]. unfold set_status, cl_ticks_le. cbn [cl_inbox_upd cl_inbox_mut cl_buffered].
  destruct (cl_status c), st; cbn; split; auto; try (intros u []).
  intros m Hm. apply H2. apply in_or_app. right. exact Hm.
Qed.

(* ================================================================== *)
(* 3. the invariant of a run                                          *)
(* ================================================================== *)

Definition SInv (B : N) (y : sys) (G : hghosts) : Prop :=
  sys_ticks_le B y /\ forall slot c, al_get slot (y_clients y) = Some c -> HInv c (G slot).

Lemma sinv_init cfg0 n : SInv 0 (sys_init cfg0 n) hgs_empty.
Proof.
  split.
  - split; [cbn; lia|]. split.
    + intros slot. unfold get_link, sys_init. cbn [y_links].
      assert (E : forall l : list N, match al_get slot (map (fun i => (i, link_empty)) l) with Some l0 => l0 | None => link_empty end = link_empty).
      { induction l as [|a t IH]; cbn [map al_get]; [reflexivity|]. destruct (a =? slot); [reflexivity|exact IH]. }
      rewrite E. split; intros ? [].
    + intros slot c Hc. unfold sys_init in Hc. cbn [y_clients] in Hc.
      assert (E : forall l : list N, al_get slot (map (fun i => (i, client_init (cfg_track cfg0))) l) = Some c -> c = client_init (cfg_track cfg0)).
      { induction l as [|a t IH]; cbn [map al_get]; [discriminate|]. destruct (a =? slot); [intros H; inversion H; reflexivity|exact IH]. }
      rewrite (E _ Hc). split; intros ? [].
  - intros slot c Hc. unfold sys_init in Hc. cbn [y_clients] in Hc.
    assert (E : forall l : list N, al_get slot (map (fun i => (i, client_init (cfg_track cfg0))) l) = Some c -> c = client_init (cfg_track cfg0)).
    { induction l as [|a t IH]; cbn [map al_get]; [discriminate|]. destruct (a =? slot); [intros H; inversion H; reflexivity|exact IH]. }
    rewrite (E _ Hc). apply hinv_init.
Qed.

Lemma al_get_insert_cases {V} k k' (v : V) l x : al_get k' (al_insert k v l) = Some x ->
  (k' = k /\ x = v) \/ (k' <> k /\ al_get k' l = Some x).
Proof.
  destruct (N.eq_dec k' k) as [->|Hne].
  - rewrite al_get_insert_same. intros H; inversion H. left; auto.
  - rewrite al_get_insert_other by exact Hne. intros H. right; auto.
Qed.

Theorem sinv_step B y G st y' o :
  SInv B y G -> (if is_tick_frame st then B + 1 else B) < 2 ^ 31 -> sys_step y st = Ok (y', o) ->
  SInv (if is_tick_frame st then B + 1 else B) y' (hstep y G st).
Proof.
  intros [(Ht & Hl & Hc) Hh] HB H.
  destruct st as [| |slot max|slot|slot|tick dt cleanup ops parts|slot ops|slot s2c ch w|slot s2c ch w];
    cbn [is_tick_frame] in *; cbn [sys_step] in H.
  - (* StStart *) inversion H; subst. cbn [hstep]. split; [|exact Hh]. split; [exact Ht|]. split; [exact Hl|exact Hc].
  - (* StStop *) inversion H; subst. cbn [hstep]. split; [|exact Hh]. split; [exact Ht|]. split; [|exact Hc].
    intros slot. unfold get_link. cbn [y_links set_server]. rewrite get_link_map_empty. split; intros ? [].
  - (* StConnect *) cbn [hstep].
    destruct (find_client (y_server y) slot); [inversion H; subst; split; [split; [exact Ht|split; [exact Hl|exact Hc]]|exact Hh]|].
    destruct (al_get slot (y_clients y)) as [cl|] eqn:Ecl; [|inversion H; subst; split; [split; [exact Ht|split; [exact Hl|exact Hc]]|exact Hh]].
    destruct (sv_running (y_server y)); [|inversion H; subst; split; [split; [exact Ht|split; [exact Hl|exact Hc]]|exact Hh]].
    inversion H; subst. clear H. split.
    + split; [unfold connect_client; cbn [set_client set_server y_server]; destruct (sv_running (y_server y)); [|exact Ht];
              destruct (find_client (y_server y) slot); [exact Ht|]; exact Ht|].
      split; [exact Hl|]. intros sl c Hs. cbn [set_client set_server y_clients] in Hs.
      apply al_get_insert_cases in Hs. destruct Hs as [[-> ->]|[_ Hs]]; [|exact (Hc sl c Hs)].
      apply cl_ticks_le_set_status. exact (Hc slot cl Ecl).
    + intros sl c Hs. cbn [set_client set_server y_clients] in Hs.
      apply al_get_insert_cases in Hs. destruct Hs as [[-> ->]|[_ Hs]]; [|exact (Hh sl c Hs)].
      generalize (Hh slot cl Ecl). apply hinv_ext; reflexivity.
  - (* StAuthorize *) inversion H; subst. cbn [hstep]. split; [|exact Hh]. split; [|split; [exact Hl|exact Hc]].
    cbn [set_server y_server]. unfold authorize_client. destruct (find_client (y_server y) slot) as [cl|]; [|exact Ht].
    destruct (sc_authorized cl); exact Ht.
  - (* StDisconnect *) cbn [hstep].
    destruct (al_get slot (y_clients y)) as [cl|] eqn:Ecl; [|inversion H; subst; split; [split; [exact Ht|split; [exact Hl|exact Hc]]|exact Hh]].
    inversion H; subst. clear H. split.
    + split; [exact Ht|]. split.
      * intros sl. unfold clear_link. destruct (N.eq_dec sl slot) as [->|Hne].
        -- rewrite get_link_set_link_same. split; intros ? [].
        -- rewrite get_link_set_link_other by exact Hne. exact (Hl sl).
      * intros sl c Hs. cbn [clear_link set_link set_client set_server y_clients] in Hs.
        apply al_get_insert_cases in Hs. destruct Hs as [[-> ->]|[_ Hs]]; [|exact (Hc sl c Hs)].
        apply cl_ticks_le_set_status. exact (Hc slot cl Ecl).
    + intros sl c Hs. cbn [clear_link set_link set_client set_server y_clients] in Hs.
      apply al_get_insert_cases in Hs. destruct Hs as [[-> ->]|[_ Hs]]; [|exact (Hh sl c Hs)].
      generalize (Hh slot cl Ecl). apply hinv_ext; reflexivity.
  - (* StSFrame *) cbn [hstep].
    assert (Eb : (if (if tick then true else false) then B + 1 else B) = (if tick then B + 1 else B)) by (destruct tick; reflexivity).
    rewrite Eb in *. clear Eb.
    apply bind_ok in H. destruct H as [[s' fo] [Ef H]]. inversion H; subst y' o. clear H.
    destruct (server_frame_out_ticks _ _ _ _ _ _ _ _ _ Ef) as [Hts Houts].
    destruct (enqueue_fields (fo_clients fo) (set_server y s')) as (Ec & Es & _).
    set (B' := if tick then B + 1 else B) in *.
    assert (Hle : B <= B') by (unfold B'; destruct tick; lia).
    assert (Hts' : sv_tick s' <= B') by (unfold B'; destruct tick; lia).
    split.
    + split; [rewrite Es; exact Hts'|]. split.
      * intros sl. rewrite enqueue_lupd, enqueue_lmut. change (get_link (set_server y s') sl) with (get_link y sl).
        destruct (Hl sl) as [A1 A2]. split.
        -- intros u Hu. apply in_app_or in Hu. destruct Hu as [Hu|Hu]; [specialize (A1 u Hu); lia|].
           destruct (updates_for_in sl _ u Hu) as (o & Ho & _ & Eu). rewrite (proj1 (Houts o Ho) u Eu). exact Hts'.
        -- intros m Hm. apply in_app_or in Hm. destruct Hm as [Hm|Hm]; [specialize (A2 m Hm); lia|].
           destruct (mutates_for_in sl _ m Hm) as (o & Ho & _ & Em). rewrite (proj2 (Houts o Ho) m Em). exact Hts'.
      * intros sl c Hs. rewrite Ec in Hs. exact (cl_ticks_le_mono B B' c Hle (Hc sl c Hs)).
    + intros sl c Hs. rewrite Ec in Hs. exact (Hh sl c Hs).
  - (* StCFrame *) cbn [hstep].
    destruct (al_get slot (y_clients y)) as [cl|] eqn:Ecl; [|inversion H; subst; split; [split; [exact Ht|split; [exact Hl|exact Hc]]|exact Hh]].
    apply bind_ok in H. destruct H as [[cl' cfo] [Ef H]]. inversion H; subst y' o. clear H.
    destruct (hinv_frame B cl (G slot) ops cl' cfo HB (Hh slot cl Ecl) (Hc slot cl Ecl) Ef) as [H1 H2].
    set (y1 := set_client y slot cl').
    set (y2 := match cfo_acks cfo with
               | [] => y1
               | a :: t => match cl_status cl' with
                           | Connected => set_link y1 slot (mkLink (l_upd (get_link y slot)) (l_mut (get_link y slot)) (l_ack (get_link y slot) ++ [a :: t]))
                           | Disconnected => y1
                           end
               end).
    assert (F2 : y_clients y2 = y_clients y1 /\ sv_tick (y_server y2) = sv_tick (y_server y) /\
                 forall sl, l_upd (get_link y2 sl) = l_upd (get_link y sl) /\ l_mut (get_link y2 sl) = l_mut (get_link y sl)).
    { unfold y2. destruct (cfo_acks cfo) as [|a t]; [repeat split; reflexivity|]. destruct (cl_status cl'); [repeat split; reflexivity|].
      split; [reflexivity|]. split; [reflexivity|]. intros sl. destruct (N.eq_dec sl slot) as [->|Hne].
      - rewrite get_link_set_link_same. split; reflexivity.
      - rewrite get_link_set_link_other by exact Hne. split; reflexivity. }
    destruct F2 as (F1 & F3 & F4).
    match goal with |- SInv _ (set_server ?Y (publish_pre _ _ ?P)) _ => change Y with y2 end.
    split.
    + split; [cbn [set_server y_server publish_pre sv_tick]; rewrite F3; exact Ht|]. split.
      * intros sl. change (get_link (set_server y2 (publish_pre (y_server y2) slot
            (fold_right (fun kv acc => match ce_pre (snd kv) with Some p => p :: acc | None => acc end) [] (cl_ents cl')))) sl)
          with (get_link y2 sl). destruct (F4 sl) as [-> ->]. exact (Hl sl).
      * intros sl c Hs. cbn [set_server y_clients] in Hs. rewrite F1 in Hs. cbn [y1 set_client y_clients] in Hs.
        apply al_get_insert_cases in Hs. destruct Hs as [[-> ->]|[_ Hs]]; [exact H2|exact (Hc sl c Hs)].
    + intros sl c Hs. cbn [set_server y_clients] in Hs. rewrite F1 in Hs. cbn [y1 set_client y_clients] in Hs.
      apply al_get_insert_cases in Hs. destruct Hs as [[-> ->]|[Hne Hs]].
      * rewrite N.eqb_refl. exact H1.
      * destruct (sl =? slot) eqn:E; [lia|]. exact (Hh sl c Hs).
  - (* StDeliver *) cbn [hstep].
    destruct (al_get slot (y_clients y)) as [cl|] eqn:Ecl; [|inversion H; subst; split; [split; [exact Ht|split; [exact Hl|exact Hc]]|exact Hh]].
    destruct (Hl slot) as [L1 L2]. destruct (Hc slot cl Ecl) as [C1 C2].
    destruct s2c; [destruct (ch =? 0); [|destruct (ch =? 1)]|destruct (ch =? 0)].
    + destruct (take w (l_upd (get_link y slot))) as [picked rest] eqn:Et. inversion H; subst y' o. clear H.
      destruct (deliver_updates_fields picked cl) as (A & B0 & C & D & E). split.
      * split; [exact Ht|]. split.
        -- intros sl. cbn [set_client]. change (get_link (set_client (set_link y slot (mkLink rest (l_mut (get_link y slot)) (l_ack (get_link y slot)))) slot (fold_left deliver_update picked cl)) sl)
             with (get_link (set_link y slot (mkLink rest (l_mut (get_link y slot)) (l_ack (get_link y slot)))) sl).
           destruct (N.eq_dec sl slot) as [->|Hne]; [rewrite get_link_set_link_same|rewrite get_link_set_link_other by exact Hne; exact (Hl sl)].
           cbn [l_upd l_mut]. split; [|exact L2]. intros u Hu. apply L1. exact (take_in w _ picked rest u Et (or_intror Hu)).
        -- intros sl c Hs. cbn [set_client set_link y_clients] in Hs. apply al_get_insert_cases in Hs.
           destruct Hs as [[-> ->]|[_ Hs]]; [|exact (Hc sl c Hs)]. split.
           ++ intros u Hu. destruct (E u Hu) as [Hu1|Hu1]; [exact (C1 u Hu1)|]. apply L1. exact (take_in w _ picked rest u Et (or_introl Hu1)).
           ++ rewrite C, D. exact C2.
      * intros sl c Hs. cbn [set_client set_link y_clients] in Hs. apply al_get_insert_cases in Hs.
        destruct Hs as [[-> ->]|[_ Hs]]; [|exact (Hh sl c Hs)]. generalize (Hh slot cl Ecl). apply hinv_ext; assumption.
    + destruct (take w (l_mut (get_link y slot))) as [picked rest] eqn:Et. inversion H; subst y' o. clear H.
      destruct (deliver_mutates_fields picked cl) as (A & B0 & C & D & E). split.
      * split; [exact Ht|]. split.
        -- intros sl. change (get_link (set_client (set_link y slot (mkLink (l_upd (get_link y slot)) rest (l_ack (get_link y slot)))) slot (fold_left deliver_mutate picked cl)) sl)
             with (get_link (set_link y slot (mkLink (l_upd (get_link y slot)) rest (l_ack (get_link y slot)))) sl).
           destruct (N.eq_dec sl slot) as [->|Hne]; [rewrite get_link_set_link_same|rewrite get_link_set_link_other by exact Hne; exact (Hl sl)].
           cbn [l_upd l_mut]. split; [exact L1|]. intros m Hm. apply L2. exact (take_in w _ picked rest m Et (or_intror Hm)).
        -- intros sl c Hs. cbn [set_client set_link y_clients] in Hs. apply al_get_insert_cases in Hs.
           destruct Hs as [[-> ->]|[_ Hs]]; [|exact (Hc sl c Hs)]. split.
           ++ rewrite C. exact C1.
           ++ intros m Hm. rewrite D in Hm. apply in_app_or in Hm. destruct Hm as [Hm|Hm]; [|apply C2; apply in_or_app; right; exact Hm].
              destruct (E m Hm) as [Hm1|Hm1]; [apply C2; apply in_or_app; left; exact Hm1|].
              apply L2. exact (take_in w _ picked rest m Et (or_introl Hm1)).
      * intros sl c Hs. cbn [set_client set_link y_clients] in Hs. apply al_get_insert_cases in Hs.
        destruct Hs as [[-> ->]|[_ Hs]]; [|exact (Hh sl c Hs)]. generalize (Hh slot cl Ecl). apply hinv_ext; assumption.
    + inversion H; subst. split; [split; [exact Ht|split; [exact Hl|exact Hc]]|exact Hh].
    + destruct (take w (l_ack (get_link y slot))) as [picked rest] eqn:Et. inversion H; subst y' o. clear H. split.
      * split.
        -- cbn [set_server y_server]. clear Et. revert Ht. generalize (y_server y) as s0. induction picked as [|a t IH]; intros s0 Hs0; cbn [fold_left]; [exact Hs0|].
           apply IH. unfold deliver_acks. destruct (sv_running s0); [|exact Hs0]. destruct (find_client s0 slot); exact Hs0.
        -- split.
           ++ intros sl. change (get_link (set_server (set_link y slot (mkLink (l_upd (get_link y slot)) (l_mut (get_link y slot)) rest))
                                   (fold_left (fun s idxs => deliver_acks s slot idxs) picked (y_server y))) sl)
                with (get_link (set_link y slot (mkLink (l_upd (get_link y slot)) (l_mut (get_link y slot)) rest)) sl).
              destruct (N.eq_dec sl slot) as [->|Hne]; [rewrite get_link_set_link_same; exact (Hl slot)|rewrite get_link_set_link_other by exact Hne; exact (Hl sl)].
           ++ exact Hc.
      * exact Hh.
    + inversion H; subst. split; [split; [exact Ht|split; [exact Hl|exact Hc]]|exact Hh].
  - (* StDrop *) cbn [hstep].
    destruct (al_get slot (y_clients y)) as [cl|] eqn:Ecl; [|inversion H; subst; split; [split; [exact Ht|split; [exact Hl|exact Hc]]|exact Hh]].
    destruct (Hl slot) as [L1 L2].
    assert (Hsame : forall c0, al_get slot (y_clients y) = Some c0 -> forall sl c, al_get sl (al_insert slot c0 (y_clients y)) = Some c -> al_get sl (y_clients y) = Some c).
    { intros c0 E0 sl c Hs. apply al_get_insert_cases in Hs. destruct Hs as [[-> ->]|[_ Hs]]; [exact E0|exact Hs]. }
    destruct s2c; [destruct (ch =? 0); [|destruct (ch =? 1)]|destruct (ch =? 0)].
    + destruct (take w (l_upd (get_link y slot))) as [picked rest] eqn:Et. inversion H; subst y' o. clear H. split.
      * split; [exact Ht|]. split.
        -- intros sl. change (get_link (set_client (set_link y slot (mkLink rest (l_mut (get_link y slot)) (l_ack (get_link y slot)))) slot cl) sl)
             with (get_link (set_link y slot (mkLink rest (l_mut (get_link y slot)) (l_ack (get_link y slot)))) sl).
           destruct (N.eq_dec sl slot) as [->|Hne]; [rewrite get_link_set_link_same|rewrite get_link_set_link_other by exact Hne; exact (Hl sl)].
           cbn [l_upd l_mut]. split; [|exact L2]. intros u Hu. apply L1. exact (take_in w _ picked rest u Et (or_intror Hu)).
        -- intros sl c Hs. cbn [set_client set_link y_clients] in Hs. exact (Hc sl c (Hsame cl Ecl sl c Hs)).
      * intros sl c Hs. cbn [set_client set_link y_clients] in Hs. exact (Hh sl c (Hsame cl Ecl sl c Hs)).
    + destruct (take w (l_mut (get_link y slot))) as [picked rest] eqn:Et. inversion H; subst y' o. clear H. split.
      * split; [exact Ht|]. split.
        -- intros sl. change (get_link (set_client (set_link y slot (mkLink (l_upd (get_link y slot)) rest (l_ack (get_link y slot)))) slot cl) sl)
             with (get_link (set_link y slot (mkLink (l_upd (get_link y slot)) rest (l_ack (get_link y slot)))) sl).
           destruct (N.eq_dec sl slot) as [->|Hne]; [rewrite get_link_set_link_same|rewrite get_link_set_link_other by exact Hne; exact (Hl sl)].
           cbn [l_upd l_mut]. split; [exact L1|]. intros m Hm. apply L2. exact (take_in w _ picked rest m Et (or_intror Hm)).
        -- intros sl c Hs. cbn [set_client set_link y_clients] in Hs. exact (Hc sl c (Hsame cl Ecl sl c Hs)).
      * intros sl c Hs. cbn [set_client set_link y_clients] in Hs. exact (Hh sl c (Hsame cl Ecl sl c Hs)).
    + inversion H; subst. split; [split; [exact Ht|split; [exact Hl|exact Hc]]|exact Hh].
    + destruct (take w (l_ack (get_link y slot))) as [picked rest] eqn:Et. inversion H; subst y' o. clear H. split.
      * split; [exact Ht|]. split; [|exact Hc].
        intros sl. change (get_link (set_server (set_link y slot (mkLink (l_upd (get_link y slot)) (l_mut (get_link y slot)) rest)) (y_server y)) sl)
          with (get_link (set_link y slot (mkLink (l_upd (get_link y slot)) (l_mut (get_link y slot)) rest)) sl).
        destruct (N.eq_dec sl slot) as [->|Hne]; [rewrite get_link_set_link_same; exact (Hl slot)|rewrite get_link_set_link_other by exact Hne; exact (Hl sl)].
      * exact Hh.
    + inversion H; subst. split; [split; [exact Ht|split; [exact Hl|exact Hc]]|exact Hh].
Qed.

Theorem sinv_run cfg0 n script : forall y G,
  tick_frames script < 2 ^ 31 -> hrun (sys_init cfg0 n) hgs_empty script = Ok (y, G) -> SInv (tick_frames script) y G.
Proof.
  induction script as [|st t IH] using rev_ind; intros y G HB H.
  - cbn in H. inversion H; subst. apply sinv_init.
  - rewrite hrun_app in H. apply bind_ok in H. destruct H as [[y1 G1] [E1 H]].
    cbn [hrun] in H. apply bind_ok in H. destruct H as [[y2 o] [E2 H]]. cbn [hrun] in H. inversion H; subst y G. clear H.
    rewrite tick_frames_snoc in HB |- *.
    assert (HB1 : tick_frames t < 2 ^ 31) by (destruct (is_tick_frame st); lia).
    exact (sinv_step _ y1 G1 st y2 o (IH y1 G1 HB1 E1) HB E2).
Qed.

(* ================================================================== *)
(* 4. H1                                                              *)
(* ================================================================== *)

Theorem h1_entity cfg0 n script y G slot c cid x h :
  tick_frames script < 2 ^ 31 -> hrun (sys_init cfg0 n) hgs_empty script = Ok (y, G) ->
  al_get slot (y_clients y) = Some c -> get_cent c cid = Some x -> ce_alive x = true -> ce_hist x = Some h ->
  hgood h (G slot cid).
Proof.
  intros HB H Hc Hx Ha Hh. destruct (sinv_run cfg0 n script y G HB H) as [_ Hall].
  destruct (Hall slot c Hc) as (_ & _ & He). pose proof (He cid x Hx Ha) as Hok. rewrite Hh in Hok. exact Hok.
Qed.

(* an alive entity without history has never been confirmed *)
Theorem h1_no_history cfg0 n script y G slot c cid x :
  tick_frames script < 2 ^ 31 -> hrun (sys_init cfg0 n) hgs_empty script = Ok (y, G) ->
  al_get slot (y_clients y) = Some c -> get_cent c cid = Some x -> ce_alive x = true -> ce_hist x = None ->
  G slot cid = [].
Proof.
  intros HB H Hc Hx Ha Hh. destruct (sinv_run cfg0 n script y G HB H) as [_ Hall].
  destruct (Hall slot c Hc) as (_ & _ & He). pose proof (He cid x Hx Ha) as Hok. rewrite Hh in Hok. exact Hok.
Qed.

Lemma mem_zticks t S : mem (Z.of_N t) (zticks S) = true <-> In t S.
Proof.
  unfold mem, zticks. rewrite existsb_exists. split.
  - intros [z [Hz E]]. apply in_map_iff in Hz. destruct Hz as [a [<- Ha]]. assert (t = a) by lia. subst. exact Ha.
  - intros Hin. exists (Z.of_N t). split; [apply in_map; exact Hin|lia].
Qed.

Lemma mem_windowed L S z :
  mem z (zticks (windowed L S)) = mem z (zticks S) && (Z.of_N L <? z + 64)%Z.
Proof.
  induction S as [|a t IH]; [reflexivity|]. unfold windowed in *. cbn [filter]. unfold in_window at 1.
  change (zticks (a :: t)) with (Z.of_N a :: zticks t). rewrite mem_cons.
  destruct (N.ltb_spec L (a + 64)) as [Hw|Hw].
  - change (zticks (a :: filter (in_window L) t)) with (Z.of_N a :: zticks (filter (in_window L) t)).
    rewrite mem_cons, IH. destruct (Z.eqb_spec z (Z.of_N a)) as [->|Hne]; cbn [orb]; [|reflexivity].
    destruct (Z.ltb_spec (Z.of_N L) (Z.of_N a + 64)); [reflexivity|lia].
  - rewrite IH. destruct (Z.eqb_spec z (Z.of_N a)) as [->|Hne]; cbn [orb]; [|reflexivity].
    destruct (Z.ltb_spec (Z.of_N L) (Z.of_N a + 64)); [lia|]. rewrite andb_false_r. reflexivity.
Qed.

(* the statement of the brief: the history refines the ghost set restricted to the window ending at its maximum *)
Lemma hgood_windowed h S : hgood h S -> hist_R h (Z.of_N (h_last h)) (zticks (windowed (h_last h) S)).
Proof.
  intros (_ & _ & _ & (H1 & H2 & H3 & H4)). split; [exact H1|]. split; [exact H2|]. split.
  - intros i Hi. rewrite (H3 i Hi), mem_windowed. destruct (Z.ltb_spec (Z.of_N (h_last h)) (Z.of_N (h_last h) - i + 64)); [|lia].
    rewrite andb_true_r. reflexivity.
  - intros t Ht. rewrite mem_windowed in Ht. apply andb_prop in Ht. exact (H4 t (proj1 Ht)).
Qed.

Lemma spec_contains_windowed L S t :
  spec_contains (Z.of_N L) (zticks (windowed L S)) t = spec_contains (Z.of_N L) (zticks S) t.
Proof.
  unfold spec_contains. rewrite mem_windowed.
  destruct (Z.leb_spec t (Z.of_N L)); cbn [andb]; [|reflexivity].
  destruct (Z.leb_spec 64 (Z.of_N L - t)); cbn [orb]; [reflexivity|].
  destruct (Z.ltb_spec (Z.of_N L) (t + 64)); [|lia]. rewrite andb_true_r. reflexivity.
Qed.

Section Queries.
  Variables (h : hist) (S : list N).
  Hypothesis Hg : hgood h S.
  Local Notation L := (Z.of_N (h_last h)).

  Lemma hq_near t : small_tick t -> (Z.abs (Z.of_N t - L) < 2 ^ 31)%Z.
  Proof. destruct Hg as (Hs & _). unfold small_tick in *. intros Ht. pose proof Npow31. rewrite Zpow31. lia. Qed.

  Theorem hq_contains t : small_tick t -> hist_contains h t = spec_contains L (zticks S) (Z.of_N t).
  Proof.
    intros Ht. pose proof Npow31. pose proof Npow32. unfold small_tick in Ht.
    rewrite <- (hist_contains_spec h L (zticks S) (Z.of_N t) (proj2 (proj2 (proj2 Hg))) (hq_near t Ht)).
    rewrite wrap_of_N by lia. reflexivity.
  Qed.

  Theorem hq_contains_windowed t : small_tick t ->
    hist_contains h t = spec_contains L (zticks (windowed (h_last h) S)) (Z.of_N t).
  Proof. intros Ht. rewrite spec_contains_windowed. apply hq_contains. exact Ht. Qed.

  Theorem hq_contains_any a b : small_tick a -> small_tick b -> a <= b ->
    hist_contains_any h a b = Ok (existsb_range (Z.of_N a) (Z.of_N b) (spec_contains L (zticks S))).
  Proof.
    intros Ha Hb Hab. pose proof Npow31. pose proof Npow32. pose proof Zpow31. unfold small_tick in *.
    rewrite <- (hist_contains_any_spec h L (zticks S) (Z.of_N a) (Z.of_N b) (proj2 (proj2 (proj2 Hg)))); [|lia|lia|exact (hq_near a Ha)].
    rewrite !wrap_of_N by lia. reflexivity.
  Qed.

  (* never forgets a confirmed tick ... *)
  Theorem hq_never_forgets t : In t S -> hist_contains h t = true.
  Proof.
    intros Hin. destruct Hg as (Hs & _ & Hmax & _). pose proof (Hmax t Hin) as Hle.
    rewrite hq_contains by (unfold small_tick in *; lia). unfold spec_contains.
    destruct (Z.leb_spec (Z.of_N t) L); [|lia]. cbn [andb].
    rewrite (proj2 (mem_zticks t S) Hin). apply orb_true_r.
  Qed.

  (* ... and never reports, inside the window, a tick that was not confirmed *)
  Theorem hq_never_invents t : small_tick t -> hist_contains h t = true -> h_last h < t + 64 -> In t S.
  Proof.
    intros Ht Hc Hw. rewrite hq_contains in Hc by exact Ht. unfold spec_contains in Hc.
    apply andb_prop in Hc. destruct Hc as [_ Hc]. apply orb_prop in Hc. destruct Hc as [Hc|Hc].
    - lia.
    - apply mem_zticks. exact Hc.
  Qed.

  (* a tick that is reported confirmed is not above the last one *)
  Lemma hq_contains_le t : small_tick t -> hist_contains h t = true -> t <= h_last h.
  Proof.
    intros Ht Hc. rewrite hq_contains in Hc by exact Ht. unfold spec_contains in Hc.
    apply andb_prop in Hc. destruct Hc as [Hc _]. lia.
  Qed.
End Queries.

(* the frame-by-frame corollary: what a history reports confirmed it still reports after any later steps, as long as
   the entity is alive (a despawned client entity never comes back; a re-spawn gets a new client entity) *)
Theorem h1_persist cfg0 n pre post y1 G1 y2 G2 slot c1 c2 cid x1 x2 h1 h2 t :
  tick_frames (pre ++ post) < 2 ^ 31 ->
  hrun (sys_init cfg0 n) hgs_empty pre = Ok (y1, G1) -> hrun y1 G1 post = Ok (y2, G2) ->
  al_get slot (y_clients y1) = Some c1 -> get_cent c1 cid = Some x1 -> ce_alive x1 = true -> ce_hist x1 = Some h1 ->
  al_get slot (y_clients y2) = Some c2 -> get_cent c2 cid = Some x2 -> ce_alive x2 = true -> ce_hist x2 = Some h2 ->
  small_tick t -> hist_contains h1 t = true -> hist_contains h2 t = true.
Proof.
  intros HB E1 E2 Hc1 Hx1 Ha1 Hh1 Hc2 Hx2 Ha2 Hh2 Ht Hc.
  assert (HB1 : tick_frames pre < 2 ^ 31).
  { clear -HB. induction post as [|st r IH] using rev_ind; [rewrite app_nil_r in HB; exact HB|].
    rewrite app_assoc, tick_frames_snoc in HB. apply IH. destruct (is_tick_frame st); lia. }
  assert (E12 : hrun (sys_init cfg0 n) hgs_empty (pre ++ post) = Ok (y2, G2)) by (rewrite hrun_app, E1; exact E2).
  pose proof (h1_entity cfg0 n pre y1 G1 slot c1 cid x1 h1 HB1 E1 Hc1 Hx1 Ha1 Hh1) as Hg1.
  pose proof (h1_entity cfg0 n _ y2 G2 slot c2 cid x2 h2 HB E12 Hc2 Hx2 Ha2 Hh2) as Hg2.
  destruct (hrun_le post y1 G1 y2 G2 slot E2 cid) as [l El].
  assert (Hsub : forall a, In a (G1 slot cid) -> In a (G2 slot cid)) by (intros a Ha; rewrite El; apply in_or_app; right; exact Ha).
  pose proof Hg1 as (_ & Hin1 & _ & _). pose proof Hg2 as (_ & _ & Hmax2 & _).
  pose proof (Hmax2 _ (Hsub _ Hin1)) as HL.
  pose proof (hq_contains_le h1 _ Hg1 t Ht Hc) as Hle.
  destruct (N.ltb_spec (h_last h1) (t + 64)) as [Hw|Hw].
  - apply (hq_never_forgets h2 _ Hg2). apply Hsub. exact (hq_never_invents h1 _ Hg1 t Ht Hc Hw).
  - rewrite (hq_contains h2 _ Hg2 t Ht). unfold spec_contains.
    destruct (Z.leb_spec (Z.of_N t) (Z.of_N (h_last h2))); [|lia]. cbn [andb].
    destruct (Z.leb_spec 64 (Z.of_N (h_last h2) - Z.of_N t)); [reflexivity|lia].
Qed.

(* the ghost of an entity only grows, and its elements are ticks the server has reached *)
Theorem h1_ghost_grows post y1 G1 y2 G2 slot cid : hrun y1 G1 post = Ok (y2, G2) -> exists l, G2 slot cid = l ++ G1 slot cid.
Proof. intros H. exact (hrun_le post y1 G1 y2 G2 slot H cid). Qed.

(* H1 in the words of the brief: the mask + last tick refine the ghost set restricted to the 64-tick window ending
   at its maximum [h_last h] *)
Theorem h1_windowed cfg0 n script y G slot c cid x h :
  tick_frames script < 2 ^ 31 -> hrun (sys_init cfg0 n) hgs_empty script = Ok (y, G) ->
  al_get slot (y_clients y) = Some c -> get_cent c cid = Some x -> ce_alive x = true -> ce_hist x = Some h ->
  hist_R h (Z.of_N (h_last h)) (zticks (windowed (h_last h) (G slot cid))) /\
  In (h_last h) (G slot cid) /\ (forall t, In t (G slot cid) -> t <= h_last h).
Proof.
  intros HB H Hc Hx Ha Hh. pose proof (h1_entity cfg0 n script y G slot c cid x h HB H Hc Hx Ha Hh) as Hg.
  split; [exact (hgood_windowed h _ Hg)|]. destruct Hg as (_ & H1 & H2 & _). auto.
Qed.
