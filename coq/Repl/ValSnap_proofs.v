(* Basic facts about [snap] (Repl/ValSpec.v): snapshots of a script are those of its prefixes plus,
   possibly, the one taken by the last step. *)
From RV Require Import Lib.Res Repl.ClientTicks Repl.World Vis.Visibility Tick.RepliconTick Tick.ConfirmHistory
  Tick.MutateTicks Repl.Server Repl.ServerSpec Repl.StructSpec Repl.Client Repl.Sys Repl.ClientStructSpec
  Repl.ClientStruct_proofs Repl.StructE2E_proofs Repl.StructE2EMut_proofs Repl.ValSpec.
From Coq Require Import ZifyBool ZifyN.
Open Scope N_scope.
Ltac Zify.zify_post_hook ::= Z.div_mod_to_equations.
Arguments N.add : simpl never. Arguments N.mul : simpl never. Arguments N.pow : simpl never.
Arguments N.ltb : simpl never. Arguments N.leb : simpl never. Arguments N.div : simpl never.
Arguments N.modulo : simpl never. Arguments N.sub : simpl never. Arguments N.eqb : simpl never.

Section SnapFacts.
  Variables (cfg0 : cfg) (nclients : N).
  Local Notation init := (sys_init cfg0 nclients).
  Local Notation snap := (snap cfg0 nclients).

  Lemma snap_mono script st t r s1 : snap script t r s1 -> snap (script ++ [st]) t r s1.
  Proof.
    intros (pre & post & y0 & y1 & tk & dt & cu & ops & parts & fo & vs & E & H).
    exists pre, (post ++ [st]), y0, y1, tk, dt, cu, ops, parts, fo, vs. split; [|exact H].
    rewrite E, <- app_assoc. reflexivity.
  Qed.

  Lemma snap_mono_app script post t r s1 : snap script t r s1 -> snap (script ++ post) t r s1.
  Proof.
    induction post as [|st p IH] using rev_ind; intros H; [rewrite app_nil_r; exact H|].
    rewrite app_assoc. apply snap_mono. apply IH. exact H.
  Qed.

  (* the step that took the snapshot *)
  Definition snap_step (y : sys) (st : step) (t r : N) (s1 : server) : Prop :=
    exists y1 tk dt cu ops parts fo vs,
      st = StSFrame tk dt cu ops parts /\ sys_step y st = Ok (y1, OSFrame fo vs) /\ fo_ran fo = true /\
      y_server y1 = s1 /\ sv_tick s1 = t /\ sv_last_run s1 = r.

  Lemma snap_last script y st t r s1 :
    run init script = Ok y -> snap_step y st t r s1 -> snap (script ++ [st]) t r s1.
  Proof.
    intros Hr (y1 & tk & dt & cu & ops & parts & fo & vs & -> & H).
    exists script, [], y, y1, tk, dt, cu, ops, parts, fo, vs. split; [reflexivity|]. split; [exact Hr|exact H].
  Qed.

  Lemma snap_snoc_inv script y st t r s1 :
    run init script = Ok y -> snap (script ++ [st]) t r s1 -> snap script t r s1 \/ snap_step y st t r s1.
  Proof.
    intros Hr (pre & post & y0 & y1 & tk & dt & cu & ops & parts & fo & vs & E & R0 & H).
    symmetry in E. apply app_snoc_split in E. destruct E as [[E _]|[q' [E1 E2]]]; [discriminate|].
    destruct q' as [|f q''].
    - cbn in E1. inversion E1; subst st post. rewrite app_nil_r in E2. subst pre.
      right. assert (y0 = y) by congruence. subst y0.
      exists y1, tk, dt, cu, ops, parts, fo, vs. split; [reflexivity|exact H].
    - cbn in E1. inversion E1; subst f post. left.
      exists pre, q'', y0, y1, tk, dt, cu, ops, parts, fo, vs. split; [exact E2|]. split; [exact R0|exact H].
  Qed.

  Lemma snap_nil t r s1 : ~ snap [] t r s1.
  Proof. intros (pre & post & y0 & y1 & tk & dt & cu & ops & parts & fo & vs & E & _). destruct pre; discriminate. Qed.

  (* a snapshot is the state after a prefix of the script *)
  Lemma snap_reached script t r s1 : snap script t r s1 ->
    exists pre post y1, script = pre ++ post /\ run init pre = Ok y1 /\ y_server y1 = s1 /\
                        sv_tick s1 = t /\ sv_last_run s1 = r.
  Proof.
    intros (pre & post & y0 & y1 & tk & dt & cu & ops & parts & fo & vs & E & R0 & S & _ & A & B & C).
    exists (pre ++ [StSFrame tk dt cu ops parts]), post, y1. split; [rewrite E, <- app_assoc; reflexivity|].
    split; [|auto]. rewrite run_app, R0. cbn [bind run]. rewrite S. reflexivity.
  Qed.

  (* prefixes *)
  Lemma script_okm_app a b : script_okm (a ++ b) = script_okm a && script_okm b.
  Proof. unfold script_okm. apply forallb_app. Qed.

  Lemma script_vals_app a b : script_vals (a ++ b) = script_vals a && script_vals b.
  Proof. unfold script_vals. apply forallb_app. Qed.

  Lemma tick_frames_app_le a b : tick_frames a <= tick_frames (a ++ b).
  Proof.
    induction b as [|st p IH] using rev_ind; [rewrite app_nil_r; lia|].
    rewrite app_assoc. pose proof (tick_frames_mono (a ++ p) st). lia.
  Qed.

  Lemma no_tick0_prefix a b : no_tick0 (a ++ b) = true -> no_tick0 a = true.
  Proof.
    unfold no_tick0. rewrite fold_left_app. destruct (fold_left t0_step a (T0A false false)) eqn:E; try reflexivity.
    intros H. exfalso. assert (G : forall l, fold_left t0_step l T0bad = T0bad) by (induction l; [reflexivity|exact IHl]).
    rewrite G in H. discriminate.
  Qed.

  Lemma regs_of_app a : forall y b slot,
    regs_of y (a ++ b) slot =
    match run y a with Ok y1 => regs_of y a slot + regs_of y1 b slot | _ => regs_of y a slot end.
  Proof.
    induction a as [|st t IH]; intros y b slot; cbn [app regs_of run]; [lia|].
    destruct (sys_step y st) as [[y' o]| |]; cbn [bind]; [|reflexivity|reflexivity].
    rewrite IH. destruct (run y' t); lia.
  Qed.
End SnapFacts.

Lemma mutates_for_length slot outs : (length (mutates_for slot outs) <= length (flat_map co_mutates outs))%nat.
Proof.
  unfold mutates_for. induction outs as [|o t IH]; cbn [flat_map]; [lia|]. rewrite !app_length.
  destruct (co_slot o =? slot); cbn [length]; lia.
Qed.

Lemma regs_of_le_all script : forall y slot, regs_of y script slot <= regs_all y script.
Proof.
  induction script as [|st t IH]; intros y slot; cbn [regs_of regs_all]; [lia|].
  destruct (sys_step y st) as [[y' o]| |]; [|lia|lia]. specialize (IH y' slot).
  assert (H : regs_step y st slot <= regs_all_step y st).
  { unfold regs_step, regs_all_step. destruct st; try lia.
    destruct (server_frame (y_cfg y) (y_server y) tick dt cleanup ops parts) as [[s' fo]| |]; [|lia|lia].
    pose proof (mutates_for_length slot (fo_clients fo)). lia. }
  lia.
Qed.
