(* C03 / C08, independence of the clients: what one client gains or loses through its ClientVisibility
   never shows in the messages of another client.  Two servers that agree on everything except the
   record of the client in one slot ([same_but]) stay so under every step, whatever visibility settings
   are made for that slot, and every frame produces identical outputs for every other slot.
   Definitions: Repl/StructVisSpec.v. *)
From RV Require Import Lib.Res Repl.ClientTicks Repl.ClientTicks_proofs Repl.World Vis.Visibility
  Tick.RepliconTick Repl.Server Repl.ServerSpec Repl.Server_proofs Repl.StructSpec
  Repl.Struct_proofs Repl.StructOps_proofs Repl.StructRun_proofs Repl.StructVisSpec Repl.StructVis_proofs
  Repl.StructVisOps_proofs.
From Coq Require Import ZifyBool ZifyN.
Open Scope N_scope.
Ltac Zify.zify_post_hook ::= Z.div_mod_to_equations.
Arguments N.add : simpl never. Arguments N.mul : simpl never. Arguments N.pow : simpl never.
Arguments N.ltb : simpl never. Arguments N.leb : simpl never. Arguments N.div : simpl never.
Arguments N.modulo : simpl never. Arguments N.sub : simpl never. Arguments N.eqb : simpl never.

(* ================= 1. the relation ================= *)

Lemma cl_sim_refl slot c : cl_sim slot c c.
Proof. split; auto. Qed.

Lemma cl_sim_sym slot a b : cl_sim slot a b -> cl_sim slot b a.
Proof. intros [H1 H2]. split; [congruence|]. intros H. symmetry. apply H2. congruence. Qed.

Lemma cl_sim_trans slot a b c : cl_sim slot a b -> cl_sim slot b c -> cl_sim slot a c.
Proof.
  intros [A1 A2] [B1 B2]. split; [congruence|]. intros H. rewrite (A2 H). apply B2. rewrite <- A1. exact H.
Qed.

Lemma Forall2_sym {A} (P : A -> A -> Prop) : (forall a b, P a b -> P b a) ->
  forall l l', Forall2 P l l' -> Forall2 P l' l.
Proof. intros Hs l l'. induction 1; constructor; auto. Qed.

Lemma same_but_refl slot s : same_but slot s s.
Proof. split; [reflexivity|apply Forall2_same, cl_sim_refl]. Qed.

Lemma same_but_sym slot a b : same_but slot a b -> same_but slot b a.
Proof. intros [H1 H2]. split; [congruence|apply (Forall2_sym _ (cl_sim_sym slot)); exact H2]. Qed.

Lemma same_but_trans slot a b c : same_but slot a b -> same_but slot b c -> same_but slot a c.
Proof.
  intros [A1 A2] [B1 B2]. split; [congruence|]. eapply (Forall2_trans _ (cl_sim_trans slot)); eassumption.
Qed.

(* a common world, then related client lists *)
Lemma same_but_intro slot s1 s2 : strip s1 = strip s2 -> Forall2 (cl_sim slot) (sv_clients s1) (sv_clients s2) ->
  same_but slot s1 s2.
Proof. intros H1 H2. split; assumption. Qed.

Lemma strip_get_ent s1 s2 e : strip s1 = strip s2 -> get_ent s1 e = get_ent s2 e.
Proof. intros H. change (get_ent (strip s1) e = get_ent (strip s2) e). rewrite H. reflexivity. Qed.

(* ---------- lists of client records ---------- *)

Lemma find_sim slot sl l1 l2 : Forall2 (cl_sim slot) l1 l2 ->
  match find (fun c => sc_slot c =? sl) l1, find (fun c => sc_slot c =? sl) l2 with
  | Some c1, Some c2 => cl_sim slot c1 c2 /\ sc_slot c1 = sl
  | None, None => True
  | _, _ => False
  end.
Proof.
  induction 1 as [|x y l l' H HF IH]; cbn [find]; [exact I|].
  pose proof H as [H1 _]. rewrite <- H1. destruct (sc_slot x =? sl) eqn:E; [|exact IH].
  split; [exact H|lia].
Qed.

Lemma map_sim2 slot (f1 f2 : sclient -> sclient) l1 l2 :
  (forall c, sc_slot (f1 c) = sc_slot c) -> (forall c, sc_slot (f2 c) = sc_slot c) ->
  (forall c, sc_slot c <> slot -> f1 c = f2 c) ->
  Forall2 (cl_sim slot) l1 l2 -> Forall2 (cl_sim slot) (map f1 l1) (map f2 l2).
Proof.
  intros H1 H2 H12. induction 1 as [|x y l l' [E Hxy] HF IH]; cbn [map]; constructor; [|exact IH].
  split; [rewrite H1, H2; exact E|]. rewrite H1. intros Hne. rewrite <- (Hxy Hne). apply H12. exact Hne.
Qed.

Lemma map_sim slot (f : sclient -> sclient) l1 l2 : (forall c, sc_slot (f c) = sc_slot c) ->
  Forall2 (cl_sim slot) l1 l2 -> Forall2 (cl_sim slot) (map f l1) (map f l2).
Proof. intros H. apply map_sim2; auto. Qed.

(* `update_client` with a record of the distinguished slot *)
Lemma map_update_one slot l n : sc_slot n = slot ->
  Forall2 (cl_sim slot) (map (fun c' => if sc_slot c' =? sc_slot n then n else c') l) l.
Proof.
  intros Hn. induction l as [|x l IH]; cbn [map]; constructor; [|exact IH].
  destruct (sc_slot x =? sc_slot n) eqn:E; [|apply cl_sim_refl].
  split; [lia|]. intros H. congruence.
Qed.

Lemma update_client_one slot s n : sc_slot n = slot -> same_but slot (update_client s n) s.
Proof. intros Hn. split; [reflexivity|]. apply map_update_one. exact Hn. Qed.

(* `update_client` with the same record on both sides *)
Lemma update_client_both slot s1 s2 n : same_but slot s1 s2 -> same_but slot (update_client s1 n) (update_client s2 n).
Proof.
  intros [H1 H2]. split; [exact H1|]. cbn [update_client set_clients sv_clients].
  apply map_sim; [|exact H2]. intros c. destruct (sc_slot c =? sc_slot n) eqn:E; [lia|reflexivity].
Qed.

Lemma find_client_sim slot sl s1 s2 : same_but slot s1 s2 ->
  match find_client s1 sl, find_client s2 sl with
  | Some c1, Some c2 => cl_sim slot c1 c2 /\ sc_slot c1 = sl
  | None, None => True
  | _, _ => False
  end.
Proof. intros [_ H]. apply find_sim. exact H. Qed.

(* ================= 2. game operations ================= *)

(* a visibility setting for the slot is invisible to the relation *)
Lemma svis_same_but s slot e b : same_but slot (apply_sop s (SVis slot e b)) s.
Proof.
  unfold apply_sop. destruct (find_client s slot) as [c0|] eqn:Ef; [|apply same_but_refl].
  destruct (get_ent s e); [|apply same_but_refl]. destruct (sc_vis c0); [|apply same_but_refl].
  apply update_client_one. cbn [sc_slot]. unfold find_client in Ef. apply find_some in Ef. destruct Ef as [_ E]. cbn in E. lia.
Qed.

(* an operation that only rewrites the record of one slot *)
Lemma client_op_sim slot sl s1 s2 s1' s2' :
  same_but slot s1 s2 ->
  (s1' = s1 \/ exists n, sc_slot n = sl /\ s1' = update_client s1 n) ->
  (s2' = s2 \/ exists n, sc_slot n = sl /\ s2' = update_client s2 n) ->
  (sl <> slot -> s1' = s1 /\ s2' = s2 \/ exists n, s1' = update_client s1 n /\ s2' = update_client s2 n) ->
  same_but slot s1' s2'.
Proof.
  intros Hs H1 H2 Hne. destruct (N.eq_dec sl slot) as [-> | Hd].
  - assert (A1 : same_but slot s1' s1) by (destruct H1 as [-> | [n [Hn ->]]]; [apply same_but_refl|apply update_client_one; exact Hn]).
    assert (A2 : same_but slot s2' s2) by (destruct H2 as [-> | [n [Hn ->]]]; [apply same_but_refl|apply update_client_one; exact Hn]).
    eapply same_but_trans; [exact A1|]. eapply same_but_trans; [exact Hs|]. apply same_but_sym. exact A2.
  - destruct (Hne Hd) as [[-> ->] | [n [-> ->]]]; [exact Hs|apply update_client_both; exact Hs].
Qed.

Lemma apply_sop_sim slot s1 s2 op : same_but slot s1 s2 -> same_but slot (apply_sop s1 op) (apply_sop s2 op).
Proof.
  intros Hs. pose proof Hs as [Hw Hc].
  assert (Hstrip : strip (apply_sop s1 op) = strip (apply_sop s2 op)) by (rewrite !apply_sop_strip, Hw; reflexivity).
  pose proof (apply_sop_clients s1 op) as C1. pose proof (apply_sop_clients s2 op) as C2.
  destruct op as [e marker comps|e|e k v|e k|e k v|e|e|sl e visible|sl e pc];
    try (split; [exact Hstrip|rewrite C1, C2; exact Hc]).
  - (* SVis *)
    clear Hstrip C1 C2. unfold apply_sop. rewrite (strip_get_ent s1 s2 e Hw).
    pose proof (find_client_sim slot sl s1 s2 Hs) as Hf.
    destruct (find_client s1 sl) as [c1|], (find_client s2 sl) as [c2|]; try contradiction; [|exact Hs].
    destruct Hf as [[E12 Heq] Hsl]. destruct (get_ent s2 e); [|exact Hs].
    apply (client_op_sim slot sl s1 s2); [exact Hs| | |].
    + destruct (sc_vis c1); [right; eexists; split; [|reflexivity]; exact Hsl|left; reflexivity].
    + destruct (sc_vis c2); [right; eexists; split; [|reflexivity]; cbn [sc_slot]; congruence|left; reflexivity].
    + intros Hne. assert (c1 = c2) by (apply Heq; congruence). subst c2.
      destruct (sc_vis c1); [right; eexists; split; reflexivity|left; split; reflexivity].
  - (* SMap *)
    clear Hstrip C1 C2. unfold apply_sop. rewrite (strip_get_ent s1 s2 e Hw).
    assert (Hpm : sv_premap s1 = sv_premap s2) by (change (sv_premap (strip s1) = sv_premap (strip s2)); rewrite Hw; reflexivity).
    rewrite Hpm.
    pose proof (find_client_sim slot sl s1 s2 Hs) as Hf.
    destruct (find_client s1 sl) as [c1|], (find_client s2 sl) as [c2|]; try contradiction; [|exact Hs].
    destruct Hf as [[E12 Heq] Hsl]. destruct (get_ent s2 e); [|exact Hs].
    apply (client_op_sim slot sl s1 s2); [exact Hs| | |].
    + destruct (sc_authorized c1 && _); [right; eexists; split; [|reflexivity]; exact Hsl|left; reflexivity].
    + destruct (sc_authorized c2 && _); [right; eexists; split; [|reflexivity]; cbn [sc_slot]; congruence|left; reflexivity].
    + intros Hne. assert (c1 = c2) by (apply Heq; congruence). subst c2.
      destruct (sc_authorized c1 && _); [right; eexists; split; reflexivity|left; split; reflexivity].
Qed.

Lemma not_vis_of_false slot op : not_vis_of slot op = false -> exists e b, op = SVis slot e b.
Proof.
  destruct op; cbn [not_vis_of]; try discriminate. intros H. assert (slot0 = slot) by lia. subst. eauto.
Qed.

Lemma fold_sim_filter slot ops : forall s1 s2, same_but slot s1 s2 ->
  same_but slot (fold_left apply_sop ops s1) (fold_left apply_sop (filter (not_vis_of slot) ops) s2).
Proof.
  induction ops as [|op ops IH]; intros s1 s2 Hs; cbn [fold_left filter]; [exact Hs|].
  destruct (not_vis_of slot op) eqn:E; cbn [fold_left].
  - apply IH. apply apply_sop_sim. exact Hs.
  - apply IH. destruct (not_vis_of_false slot op E) as [e [b ->]].
    eapply same_but_trans; [apply svis_same_but|exact Hs].
Qed.

Lemma fold_sim slot ops1 ops2 s1 s2 : same_but slot s1 s2 ->
  filter (not_vis_of slot) ops1 = filter (not_vis_of slot) ops2 ->
  same_but slot (fold_left apply_sop ops1 s1) (fold_left apply_sop ops2 s2).
Proof.
  intros Hs Hf. eapply same_but_trans; [apply (fold_sim_filter slot ops1 s1 s2 Hs)|]. rewrite Hf.
  apply same_but_sym. apply fold_sim_filter. apply same_but_refl.
Qed.

(* ================= 3. the other parts of a frame ================= *)

Lemma receive_acks_clients_nil msgs now :
  fold_left (fun cls (msg : N * list N) => let '(slot, idxs) := msg in
     map (fun cl => if (sc_slot cl =? slot) && sc_authorized cl then
                      mkSC (sc_slot cl) true (sc_max_size cl)
                           (fold_left (fun t i => ack_mutate_message t now i) idxs (sc_ticks cl))
                           (sc_vis cl) (sc_pending_map cl)
                    else cl) cls) msgs [] = [].
Proof. induction msgs as [|[sl idxs] msgs IH]; cbn [fold_left map]; [reflexivity|exact IH]. Qed.

Lemma strip_receive_acks s : strip (receive_acks s) = receive_acks (strip s).
Proof.
  unfold receive_acks at 2. cbn [strip set_clients sv_clients sv_inbox_acks sv_now].
  rewrite receive_acks_clients_nil. reflexivity.
Qed.

Lemma receive_acks_sim slot s1 s2 : same_but slot s1 s2 -> same_but slot (receive_acks s1) (receive_acks s2).
Proof.
  intros [Hw Hc]. split; [rewrite !strip_receive_acks, Hw; reflexivity|].
  assert (Hi : sv_inbox_acks s1 = sv_inbox_acks s2) by (change (sv_inbox_acks (strip s1) = sv_inbox_acks (strip s2)); rewrite Hw; reflexivity).
  assert (Hn : sv_now s1 = sv_now s2) by (change (sv_now (strip s1) = sv_now (strip s2)); rewrite Hw; reflexivity).
  unfold receive_acks. cbn [sv_clients]. rewrite Hi, Hn. clear Hi Hn Hw.
  revert Hc. generalize (sv_clients s1) (sv_clients s2). induction (sv_inbox_acks s2) as [|[sl idxs] msgs IH]; intros l1 l2 Hc; cbn [fold_left]; [exact Hc|].
  apply IH. apply map_sim; [|exact Hc]. intros c. destruct ((sc_slot c =? sl) && sc_authorized c); reflexivity.
Qed.

Lemma cleanup_acks_sim slot c s1 s2 : same_but slot s1 s2 -> same_but slot (cleanup_acks c s1) (cleanup_acks c s2).
Proof.
  intros [Hw Hc]. split.
  - change (cleanup_acks c (strip s1) = cleanup_acks c (strip s2)). rewrite Hw. reflexivity.
  - assert (He : sv_elapsed s1 = sv_elapsed s2) by (change (sv_elapsed (strip s1) = sv_elapsed (strip s2)); rewrite Hw; reflexivity).
    unfold cleanup_acks, set_clients. cbn [sv_clients]. rewrite He. apply map_sim; [|exact Hc]. reflexivity.
Qed.

(* steps that keep the client list and act on the world alone *)
Lemma world_step_sim slot (f : server -> server) s1 s2 :
  (forall s, strip (f s) = f (strip s)) -> (forall s, sv_clients (f s) = sv_clients s) ->
  same_but slot s1 s2 -> same_but slot (f s1) (f s2).
Proof. intros Hf Hcl [Hw Hc]. split; [rewrite !Hf, Hw; reflexivity|rewrite !Hcl; exact Hc]. Qed.

Lemma strip_field {A} (f : server -> A) s1 s2 : (forall s, f (strip s) = f s) -> strip s1 = strip s2 -> f s1 = f s2.
Proof. intros Hf H. rewrite <- (Hf s1), <- (Hf s2), H. reflexivity. Qed.

(* ---------- send_replication ---------- *)

Lemma Ok_inj {A} (a b : A) : Ok a = Ok b -> a = b.
Proof. intros H. injection H. auto. Qed.

Lemma sfc_pure_sim c s1 s2 run cl p : strip s1 = strip s2 -> sfc_pure c s1 run cl p = sfc_pure c s2 run cl p.
Proof.
  intros Hw. apply Ok_inj.
  rewrite <- !send_for_client_eq. rewrite <- (sfc_strip c s1), <- (sfc_strip c s2), Hw. reflexivity.
Qed.

Lemma client_result_pure_slot c s parts cl : sc_slot (fst (client_result_pure c s parts cl)) = sc_slot cl.
Proof. unfold client_result_pure. destruct (sc_authorized cl); reflexivity. Qed.

Lemma client_result_pure_out c s parts cl o : snd (client_result_pure c s parts cl) = Some o -> co_slot o = sc_slot cl.
Proof.
  unfold client_result_pure. destruct (sc_authorized cl); cbn [snd]; [|discriminate]. intros H. injection H as <-. reflexivity.
Qed.

Lemma find_app' {A} (f : A -> bool) l1 l2 :
  find f (l1 ++ l2) = match find f l1 with Some x => Some x | None => find f l2 end.
Proof. induction l1 as [|a l1 IH]; cbn [app find]; [reflexivity|]. destruct (f a); [reflexivity|exact IH]. Qed.

Lemma outs_sim c slot s1 s2 parts l1 l2 sl : strip s1 = strip s2 -> Forall2 (cl_sim slot) l1 l2 -> sl <> slot ->
  out_for sl (outs_of (map (client_result_pure c s1 parts) l1)) = out_for sl (outs_of (map (client_result_pure c s2 parts) l2)).
Proof.
  intros Hw HF Hne.
  assert (Hn : sv_now s1 = sv_now s2) by (apply (strip_field sv_now); [reflexivity|exact Hw]).
  induction HF as [|x y l l' [E Hxy] HF IH]; [reflexivity|]. cbn [map].
  change (outs_of (client_result_pure c s1 parts x :: map (client_result_pure c s1 parts) l))
    with ((match snd (client_result_pure c s1 parts x) with Some o => [o] | None => [] end)
          ++ outs_of (map (client_result_pure c s1 parts) l)).
  change (outs_of (client_result_pure c s2 parts y :: map (client_result_pure c s2 parts) l'))
    with ((match snd (client_result_pure c s2 parts y) with Some o => [o] | None => [] end)
          ++ outs_of (map (client_result_pure c s2 parts) l')).
  destruct (N.eq_dec (sc_slot x) slot) as [Hx | Hx].
  - (* the distinguished client: its output, if any, is not for [sl] *)
    assert (Hskip : forall s z, sc_slot z = slot ->
              forall rest, out_for sl ((match snd (client_result_pure c s parts z) with Some o => [o] | None => [] end) ++ rest)
                           = out_for sl rest).
    { intros s z Hz rest. pose proof (client_result_pure_out c s parts z) as Ho.
      destruct (snd (client_result_pure c s parts z)) as [o|]; [|reflexivity].
      cbn [app]. unfold out_for. cbn [find]. rewrite (Ho o eq_refl), Hz. replace (slot =? sl) with false by lia. reflexivity. }
    rewrite (Hskip s1 x Hx), (Hskip s2 y (eq_trans (eq_sym E) Hx)). exact IH.
  - rewrite <- (Hxy Hx).
    assert (Hsame : client_result_pure c s1 parts x = client_result_pure c s2 parts x).
    { unfold client_result_pure. rewrite Hn, (sfc_pure_sim c s1 s2 _ x _ Hw). reflexivity. }
    rewrite Hsame. unfold out_for in *. rewrite !find_app', IH. reflexivity.
Qed.

Lemma send_clients_sim c slot s1 s2 parts : same_but slot s1 s2 ->
  Forall2 (cl_sim slot) (map fst (map (client_result_pure c s1 parts) (sv_clients s1)))
                        (map fst (map (client_result_pure c s2 parts) (sv_clients s2))).
Proof.
  intros [Hw Hc]. rewrite !map_map.
  assert (Hn : sv_now s1 = sv_now s2) by (apply (strip_field sv_now); [reflexivity|exact Hw]).
  apply map_sim2; [intros; apply client_result_pure_slot|intros; apply client_result_pure_slot| |exact Hc].
  intros x _. unfold client_result_pure. rewrite Hn, (sfc_pure_sim c s1 s2 _ x _ Hw). reflexivity.
Qed.

(* ================= 4. one frame ================= *)

Theorem frame_independent c slot s1 s2 tick dt (cleanup : bool) ops1 ops2 parts s1' fo1 s2' fo2 :
  same_but slot s1 s2 ->
  filter (not_vis_of slot) ops1 = filter (not_vis_of slot) ops2 ->
  server_frame c s1 tick dt cleanup ops1 parts = Ok (s1', fo1) ->
  server_frame c s2 tick dt cleanup ops2 parts = Ok (s2', fo2) ->
  same_but slot s1' s2' /\ fo_tick fo1 = fo_tick fo2 /\ fo_ran fo1 = fo_ran fo2 /\
  forall sl, sl <> slot -> out_for sl (fo_clients fo1) = out_for sl (fo_clients fo2).
Proof.
  intros Hs Hf H1 H2. unfold server_frame in H1, H2.
  assert (Hs1 : same_but slot (with_time_tick s1 tick dt) (with_time_tick s2 tick dt))
    by (apply (world_step_sim slot (fun s => with_time_tick s tick dt)); [reflexivity|reflexivity|exact Hs]).
  set (a1 := with_time_tick s1 tick dt) in *. set (a2 := with_time_tick s2 tick dt) in *.
  assert (Hrun : sv_running a1 = sv_running a2) by (apply (strip_field sv_running); [reflexivity|apply Hs1]).
  set (b1 := if sv_running a1 then (let r := receive_acks a1 in if cleanup then cleanup_acks c r else r) else a1) in *.
  set (b2 := if sv_running a2 then (let r := receive_acks a2 in if cleanup then cleanup_acks c r else r) else a2) in *.
  assert (Hs2 : same_but slot b1 b2).
  { unfold b1, b2. rewrite <- Hrun. destruct (sv_running a1); [|exact Hs1]. cbv zeta.
    destruct cleanup; [apply cleanup_acks_sim|]; apply receive_acks_sim; exact Hs1. }
  pose proof (fold_sim slot ops1 ops2 b1 b2 Hs2 Hf) as Hs3.
  set (d1 := fold_left apply_sop ops1 b1) in *. set (d2 := fold_left apply_sop ops2 b2) in *.
  assert (Hrun3 : sv_running d1 = sv_running d2) by (apply (strip_field sv_running); [reflexivity|apply Hs3]).
  rewrite <- Hrun3 in H2. destruct (sv_running d1).
  - (* running *)
    assert (Hs4 : same_but slot (buffer_removals d1) (buffer_removals d2))
      by (apply (world_step_sim slot buffer_removals); [reflexivity|reflexivity|exact Hs3]).
    set (e1 := buffer_removals d1) in *. set (e2 := buffer_removals d2) in *.
    assert (Hd : sv_dirty e1 = sv_dirty e2) by (apply (strip_field sv_dirty); [reflexivity|apply Hs4]).
    rewrite <- Hd in H2. destruct (sv_dirty e1).
    + rewrite send_replication_eq in H1, H2. cbn [bind] in H1, H2. injection H1 as <- <-. injection H2 as <- <-.
      cbn [fo_tick fo_ran fo_clients]. destruct Hs4 as [Hw4 Hc4].
      assert (Hn : sv_now e1 = sv_now e2) by (apply (strip_field sv_now); [reflexivity|exact Hw4]).
      split; [|split; [|split; [reflexivity|]]].
      * split.
        -- change (set_last_running (set_after_send (strip e1) [] (sv_now e1))
                   = set_last_running (set_after_send (strip e2) [] (sv_now e2))).
           rewrite Hw4, Hn. reflexivity.
        -- apply (send_clients_sim c slot e1 e2 parts). split; assumption.
      * change (sv_tick e1 = sv_tick e2). apply (strip_field sv_tick); [reflexivity|exact Hw4].
      * intros sl Hne. apply (outs_sim c slot); assumption.
    + cbn [bind] in H1, H2. injection H1 as <- <-. injection H2 as <- <-. cbn [fo_tick fo_ran fo_clients].
      split; [|split; [|split; [reflexivity|reflexivity]]].
      * apply (world_step_sim slot set_last_running); [reflexivity|reflexivity|exact Hs4].
      * change (sv_tick e1 = sv_tick e2). apply (strip_field sv_tick); [reflexivity|apply Hs4].
  - (* stopped *)
    assert (Hlr : sv_last_running d1 = sv_last_running d2) by (apply (strip_field sv_last_running); [reflexivity|apply Hs3]).
    rewrite <- Hlr in H2. cbn [bind] in H1, H2. injection H1 as <- <-. injection H2 as <- <-. cbn [fo_tick fo_ran fo_clients].
    assert (Hs5 : same_but slot (if sv_last_running d1 then reset d1 else d1) (if sv_last_running d1 then reset d2 else d2)).
    { destruct (sv_last_running d1); [|exact Hs3]. destruct Hs3 as [Hw3 _]. split; [|constructor].
      change (reset (strip d1) = reset (strip d2)). rewrite Hw3. reflexivity. }
    assert (Hs6 : same_but slot (set_last_running (clear_dirty (age_events (if sv_last_running d1 then reset d1 else d1))))
                                (set_last_running (clear_dirty (age_events (if sv_last_running d1 then reset d2 else d2))))).
    { apply (world_step_sim slot (fun s => set_last_running (clear_dirty (age_events s)))); [reflexivity|reflexivity|exact Hs5]. }
    split; [exact Hs6|]. split; [|split; [reflexivity|reflexivity]].
    cbn. apply (strip_field sv_tick); [reflexivity|]. apply Hs5.
Qed.

(* ================= 5. connections ================= *)

Lemma find_client_none_sim slot sl s1 s2 : same_but slot s1 s2 ->
  (find_client s1 sl = None <-> find_client s2 sl = None).
Proof.
  intros Hs. pose proof (find_client_sim slot sl s1 s2 Hs) as H.
  destruct (find_client s1 sl), (find_client s2 sl); try contradiction; split; congruence.
Qed.

Lemma Forall2_snoc {A} (P : A -> A -> Prop) l l' x y : Forall2 P l l' -> P x y -> Forall2 P (l ++ [x]) (l' ++ [y]).
Proof. intros H Hxy. apply Forall2_app; [exact H|constructor; [exact Hxy|constructor]]. Qed.

Lemma connect_sim c slot s1 s2 sl max : same_but slot s1 s2 ->
  same_but slot (connect_client c s1 sl max) (connect_client c s2 sl max).
Proof.
  intros Hs. pose proof Hs as [Hw Hc]. unfold connect_client.
  rewrite <- (strip_field sv_running s1 s2 (fun _ => eq_refl) Hw). destruct (sv_running s1); [|exact Hs].
  pose proof (find_client_sim slot sl s1 s2 Hs) as Hf.
  destruct (find_client s1 sl), (find_client s2 sl); try contradiction; [exact Hs|].
  split; [exact Hw|]. cbn [set_clients sv_clients]. apply Forall2_snoc; [exact Hc|apply cl_sim_refl].
Qed.

Lemma authorize_sim c slot s1 s2 sl : same_but slot s1 s2 ->
  same_but slot (authorize_client c s1 sl) (authorize_client c s2 sl).
Proof.
  intros Hs. unfold authorize_client. pose proof (find_client_sim slot sl s1 s2 Hs) as Hf.
  destruct (find_client s1 sl) as [c1|], (find_client s2 sl) as [c2|]; try contradiction; [|exact Hs].
  destruct Hf as [[E12 Heq] Hsl].
  apply (client_op_sim slot sl s1 s2); [exact Hs| | |].
  - destruct (sc_authorized c1); [left; reflexivity|right; eexists; split; [|reflexivity]; reflexivity].
  - destruct (sc_authorized c2); [left; reflexivity|right; eexists; split; [|reflexivity]; reflexivity].
  - intros Hne. assert (c1 = c2) by (apply Heq; congruence). subst c2.
    destruct (sc_authorized c1); [left; split; reflexivity|right; eexists; split; reflexivity].
Qed.

Lemma filter_sim slot sl l1 l2 : Forall2 (cl_sim slot) l1 l2 ->
  Forall2 (cl_sim slot) (filter (fun cl => negb (sc_slot cl =? sl)) l1) (filter (fun cl => negb (sc_slot cl =? sl)) l2).
Proof.
  induction 1 as [|x y l l' H HF IH]; cbn [filter]; [constructor|]. pose proof H as [E _]. rewrite <- E.
  destruct (negb (sc_slot x =? sl)); [constructor; assumption|exact IH].
Qed.

Lemma disconnect_sim slot s1 s2 sl : same_but slot s1 s2 ->
  same_but slot (disconnect_client s1 sl) (disconnect_client s2 sl).
Proof.
  intros [Hw Hc]. split.
  - change (disconnect_client (strip s1) sl = disconnect_client (strip s2) sl). rewrite Hw. reflexivity.
  - cbn [disconnect_client sv_clients]. apply filter_sim. exact Hc.
Qed.

Lemma deliver_acks_sim slot s1 s2 sl idxs : same_but slot s1 s2 ->
  same_but slot (deliver_acks s1 sl idxs) (deliver_acks s2 sl idxs).
Proof.
  intros Hs. pose proof Hs as [Hw Hc]. unfold deliver_acks.
  rewrite <- (strip_field sv_running s1 s2 (fun _ => eq_refl) Hw). destruct (sv_running s1); [|exact Hs].
  pose proof (find_client_sim slot sl s1 s2 Hs) as Hf.
  destruct (find_client s1 sl), (find_client s2 sl); try contradiction; [|exact Hs].
  set (f := fun s => mkSrv true (sv_last_running s) (sv_now s) (sv_last_run s) (sv_tick s)
           (sv_dirty s) (sv_elapsed s) (sv_ents s) (sv_despawn_buf s) (sv_removal_buf s) (sv_removed_events s)
           (sv_clients s) (sv_inbox_acks s ++ [(sl, idxs)]) (sv_premap s)).
  change (same_but slot (f s1) (f s2)). apply (world_step_sim slot f s1 s2); [reflexivity|reflexivity|exact Hs].
Qed.

(* ================= 6. the ghost ================= *)

Lemma sync_sent_of_any s' old outs sl :
  sent_of sl (sync_sent s' old outs) =
  if existsb (fun cl => sc_authorized cl && (sc_slot cl =? sl)) (sv_clients s')
  then abs_send (sent_of sl old) (upd_for sl outs) else [].
Proof.
  unfold sent_of at 1, sync_sent. induction (sv_clients s') as [|cl l IH]; cbn [filter map al_get existsb]; [reflexivity|].
  destruct (sc_authorized cl); cbn [andb orb map al_get fst snd]; [|exact IH].
  destruct (sc_slot cl =? sl) eqn:E; cbn [orb]; [|exact IH].
  assert (sc_slot cl = sl) by lia. subst sl. reflexivity.
Qed.

Lemma existsb_sim slot sl l1 l2 : Forall2 (cl_sim slot) l1 l2 -> sl <> slot ->
  existsb (fun cl => sc_authorized cl && (sc_slot cl =? sl)) l1 = existsb (fun cl => sc_authorized cl && (sc_slot cl =? sl)) l2.
Proof.
  intros HF Hne. induction HF as [|x y l l' [E Hxy] HF IH]; cbn [existsb]; [reflexivity|]. rewrite IH. f_equal.
  destruct (N.eq_dec (sc_slot x) slot) as [Hx | Hx].
  - rewrite <- E, Hx. replace (slot =? sl) with false by lia. rewrite !andb_false_r. reflexivity.
  - rewrite (Hxy Hx). reflexivity.
Qed.

Lemma upd_for_out sl outs : upd_for sl outs = match out_for sl outs with Some o => co_update o | None => None end.
Proof. reflexivity. Qed.

(* the relation on ghost states: the servers agree except for the slot, and every other slot has been
   sent the same structure *)
Definition gsim (slot : N) (g1 g2 : gstate) : Prop :=
  same_but slot (g_srv g1) (g_srv g2) /\ forall sl, sl <> slot -> sent_of sl (g_sent g1) = sent_of sl (g_sent g2).

Lemma gsim_sync slot s1 s2 old1 old2 outs1 outs2 :
  same_but slot s1 s2 -> (forall sl, sl <> slot -> sent_of sl old1 = sent_of sl old2) ->
  (forall sl, sl <> slot -> out_for sl outs1 = out_for sl outs2) ->
  gsim slot (mkG s1 (sync_sent s1 old1 outs1)) (mkG s2 (sync_sent s2 old2 outs2)).
Proof.
  intros Hs Hold Houts. split; [exact Hs|]. intros sl Hne. cbn [g_sent].
  rewrite !sync_sent_of_any, (existsb_sim slot sl _ _ (proj2 Hs) Hne), (Hold sl Hne), !upd_for_out, (Houts sl Hne).
  reflexivity.
Qed.

Theorem gstep_independent c slot g1 g2 o1 o2 g1' g2' :
  gsim slot g1 g2 -> gop_sim slot o1 o2 -> gstep c g1 o1 = Ok g1' -> gstep c g2 o2 = Ok g2' -> gsim slot g1' g2'.
Proof.
  intros [Hs Hsent] Ho H1 H2. destruct Ho as [o | tick dt cleanup ops1 ops2 parts Hf].
  - destruct o; cbn [gstep] in H1, H2.
    + injection H1 as <-. injection H2 as <-. split; [|exact Hsent].
      apply (world_step_sim slot (fun s => set_running s true)); [reflexivity|reflexivity|exact Hs].
    + injection H1 as <-. injection H2 as <-. split; [|exact Hsent].
      apply (world_step_sim slot (fun s => set_running s false)); [reflexivity|reflexivity|exact Hs].
    + injection H1 as <-. injection H2 as <-. apply gsim_sync; [apply connect_sim; exact Hs|exact Hsent|reflexivity].
    + injection H1 as <-. injection H2 as <-. apply gsim_sync; [apply authorize_sim; exact Hs|exact Hsent|reflexivity].
    + injection H1 as <-. injection H2 as <-. apply gsim_sync; [apply disconnect_sim; exact Hs|exact Hsent|reflexivity].
    + injection H1 as <-. injection H2 as <-. split; [|exact Hsent]. apply deliver_acks_sim. exact Hs.
    + injection H1 as <-. injection H2 as <-. split; [|exact Hsent].
      apply (world_step_sim slot (fun s => publish_pre s slot0 pcs)); [reflexivity|reflexivity|exact Hs].
    + destruct (server_frame c (g_srv g1) tick dt cleanup ops parts) as [[s1' fo1]| |] eqn:E1; cbn [bind] in H1; try discriminate.
      destruct (server_frame c (g_srv g2) tick dt cleanup ops parts) as [[s2' fo2]| |] eqn:E2; cbn [bind] in H2; try discriminate.
      injection H1 as <-. injection H2 as <-.
      destruct (frame_independent c slot _ _ tick dt cleanup ops ops parts s1' fo1 s2' fo2 Hs eq_refl E1 E2) as [Hs' [_ [_ Ho]]].
      apply gsim_sync; assumption.
  - cbn [gstep] in H1, H2.
    destruct (server_frame c (g_srv g1) tick dt cleanup ops1 parts) as [[s1' fo1]| |] eqn:E1; cbn [bind] in H1; try discriminate.
    destruct (server_frame c (g_srv g2) tick dt cleanup ops2 parts) as [[s2' fo2]| |] eqn:E2; cbn [bind] in H2; try discriminate.
    injection H1 as <-. injection H2 as <-.
    destruct (frame_independent c slot _ _ tick dt cleanup ops1 ops2 parts s1' fo1 s2' fo2 Hs Hf E1 E2) as [Hs' [_ [_ Ho]]].
    apply gsim_sync; assumption.
Qed.

(* a step never fails (send_for_client is total), so the two runs proceed together *)
Lemma gstep_total c g o : exists g', gstep c g o = Ok g'.
Proof.
  destruct o; cbn [gstep]; eauto. unfold server_frame.
  destruct (sv_running (fold_left apply_sop ops _)).
  - destruct (sv_dirty _); [rewrite send_replication_eq|]; cbn [bind]; eauto.
  - cbn [bind]. eauto.
Qed.

Theorem grun_independent c slot l1 l2 : Forall2 (gop_sim slot) l1 l2 ->
  forall g1 g2 g1' g2', gsim slot g1 g2 -> grun c g1 l1 = Ok g1' -> grun c g2 l2 = Ok g2' -> gsim slot g1' g2'.
Proof.
  induction 1 as [|o1 o2 l1 l2 Ho HF IH]; intros g1 g2 g1' g2' Hg H1 H2; cbn [grun] in H1, H2.
  - injection H1 as <-. injection H2 as <-. exact Hg.
  - destruct (gstep c g1 o1) as [a1| |] eqn:E1; cbn [bind] in H1; try discriminate.
    destruct (gstep c g2 o2) as [a2| |] eqn:E2; cbn [bind] in H2; try discriminate.
    apply (IH a1 a2 g1' g2'); [|exact H1|exact H2]. exact (gstep_independent c slot g1 g2 o1 o2 a1 a2 Hg Ho E1 E2).
Qed.

Theorem run_independent c slot l1 l2 g1 g2 :
  Forall2 (gop_sim slot) l1 l2 ->
  grun c ginit l1 = Ok g1 -> grun c ginit l2 = Ok g2 ->
  same_but slot (g_srv g1) (g_srv g2) /\
  forall sl, sl <> slot -> sent_of sl (g_sent g1) = sent_of sl (g_sent g2).
Proof.
  intros HF H1 H2. apply (grun_independent c slot l1 l2 HF ginit ginit g1 g2); [|exact H1|exact H2].
  split; [apply same_but_refl|reflexivity].
Qed.
