(* Lemmas about the Layer 1 client model (Repl/Client.v): entity map invariant, update tick,
   marker / confirm history, pre-spawn mappings, mutate messages, the mutation buffer. *)
From RV Require Import Lib.Res Repl.ClientTicks Repl.ClientTicks_proofs Repl.World Repl.Client
  Tick.RepliconTick Tick.RepliconTick_proofs Tick.ConfirmHistory Tick.MutateTicks.
From Coq Require Import ZifyBool ZifyN.
Open Scope N_scope.
Ltac Zify.zify_post_hook ::= Z.div_mod_to_equations.
Arguments N.add : simpl never. Arguments N.mul : simpl never. Arguments N.pow : simpl never.
Arguments N.ltb : simpl never. Arguments N.leb : simpl never. Arguments N.div : simpl never.
Arguments N.modulo : simpl never. Arguments N.sub : simpl never. Arguments N.eqb : simpl never.

(* ================================================================== *)
(* A. generic: bind, folds with [res] accumulators, run_array          *)
(* ================================================================== *)

Lemma bind_ok {A B} (r : res A) (f : A -> res B) b :
  bind r f = Ok b -> exists a, r = Ok a /\ f a = Ok b.
Proof. destruct r as [a| |]; cbn [bind]; intros H; [exists a; auto|discriminate|discriminate]. Qed.

Definition sr_client (r : step_result) : client := match r with Continue c => c | Abort c => c end.

Definition ra_step {A} (f : client -> A -> res step_result) :=
  fun (acc : res step_result) (item : A) =>
    let* r := acc in match r with Continue c => f c item | Abort c => Ok (Abort c) end.

Lemma ra_stuck_abort {A} (f : client -> A -> res step_result) l c :
  fold_left (ra_step f) l (Ok (Abort c)) = Ok (Abort c).
Proof. induction l as [|a t IH]; cbn [fold_left]; [reflexivity|exact IH]. Qed.
Lemma ra_stuck_err {A} (f : client -> A -> res step_result) l : fold_left (ra_step f) l Err = Err.
Proof. induction l as [|a t IH]; cbn [fold_left]; [reflexivity|exact IH]. Qed.
Lemma ra_stuck_panic {A} (f : client -> A -> res step_result) l : fold_left (ra_step f) l Panic = Panic.
Proof. induction l as [|a t IH]; cbn [fold_left]; [reflexivity|exact IH]. Qed.

Lemma run_array_nil {A} (f : client -> A -> res step_result) c : run_array f [] c = Ok (Continue c).
Proof. reflexivity. Qed.

Lemma run_array_cons {A} (f : client -> A -> res step_result) a l c :
  run_array f (a :: l) c =
  match f c a with
  | Ok (Continue c1) => run_array f l c1
  | Ok (Abort c1) => Ok (Abort c1)
  | Err => Err
  | Panic => Panic
  end.
Proof.
  unfold run_array. change (fun acc item => let* r := acc in match r with Continue c0 => f c0 item | Abort c0 => Ok (Abort c0) end)
    with (ra_step f).
  cbn [fold_left]. unfold ra_step at 2. cbn [bind].
  destruct (f c a) as [[c1|c1]| |]; [reflexivity|apply ra_stuck_abort|apply ra_stuck_err|apply ra_stuck_panic].
Qed.

(* a reflexive transitive relation kept by every element step is kept by the whole array *)
Lemma run_array_rel {A} (R : client -> client -> Prop) (f : client -> A -> res step_result) l :
  (forall c, R c c) -> (forall a b c, R a b -> R b c -> R a c) ->
  (forall c a r, In a l -> f c a = Ok r -> R c (sr_client r)) ->
  forall c r, run_array f l c = Ok r -> R c (sr_client r).
Proof.
  intros Hrefl Htrans. induction l as [|a t IH]; intros Hstep c r H.
  - rewrite run_array_nil in H. inversion H; subst. apply Hrefl.
  - rewrite run_array_cons in H. destruct (f c a) as [[c1|c1]| |] eqn:E; try discriminate.
    + apply Htrans with c1.
      * exact (Hstep c a (Continue c1) (or_introl eq_refl) E).
      * apply IH; [|exact H]. intros c0 a0 r0 Hin. apply Hstep. right; exact Hin.
    + inversion H; subst. exact (Hstep c a (Abort c1) (or_introl eq_refl) E).
Qed.

(* an array that ran to its end ran every element with [Continue] *)
Lemma run_array_continue_app {A} (f : client -> A -> res step_result) l1 l2 c c' :
  run_array f (l1 ++ l2) c = Ok (Continue c') ->
  exists c1, run_array f l1 c = Ok (Continue c1) /\ run_array f l2 c1 = Ok (Continue c').
Proof.
  revert c; induction l1 as [|a t IH]; intros c H; cbn [app] in H.
  - exists c. split; [reflexivity|exact H].
  - rewrite run_array_cons in H |- *. destruct (f c a) as [[c1|c1]| |] eqn:E; try discriminate.
    apply IH. exact H.
Qed.

Definition res_step {S A} (g : S -> A -> res S) := fun (acc : res S) (u : A) => let* c := acc in g c u.

Lemma fold_res_err {S A} (g : S -> A -> res S) l : fold_left (res_step g) l Err = Err.
Proof. induction l as [|a t IH]; cbn [fold_left]; [reflexivity|exact IH]. Qed.
Lemma fold_res_panic {S A} (g : S -> A -> res S) l : fold_left (res_step g) l Panic = Panic.
Proof. induction l as [|a t IH]; cbn [fold_left]; [reflexivity|exact IH]. Qed.

Lemma fold_res_cons_ok {S A} (g : S -> A -> res S) a l c r :
  fold_left (res_step g) (a :: l) (Ok c) = Ok r ->
  exists c1, g c a = Ok c1 /\ fold_left (res_step g) l (Ok c1) = Ok r.
Proof.
  cbn [fold_left]. unfold res_step at 2. cbn [bind]. destruct (g c a) as [c1| |] eqn:E.
  - intros H. exists c1. auto.
  - rewrite fold_res_err. discriminate.
  - rewrite fold_res_panic. discriminate.
Qed.

Lemma fold_res_rel {S A} (R : S -> S -> Prop) (g : S -> A -> res S) l :
  (forall c, R c c) -> (forall a b c, R a b -> R b c -> R a c) ->
  (forall c a c1, In a l -> g c a = Ok c1 -> R c c1) ->
  forall c r, fold_left (res_step g) l (Ok c) = Ok r -> R c r.
Proof.
  intros Hrefl Htrans. induction l as [|a t IH]; intros Hstep c r H.
  - cbn in H. inversion H; subst. apply Hrefl.
  - apply fold_res_cons_ok in H. destruct H as [c1 [E H]].
    apply Htrans with c1; [exact (Hstep c a c1 (or_introl eq_refl) E)|].
    apply IH; [|exact H]. intros c0 a0 c2 Hin. apply Hstep. right; exact Hin.
Qed.

Lemma fold_left_rel {S A} (R : S -> S -> Prop) (g : S -> A -> S) l :
  (forall c, R c c) -> (forall a b c, R a b -> R b c -> R a c) ->
  (forall c a, In a l -> R c (g c a)) ->
  forall c, R c (fold_left g l c).
Proof.
  intros Hrefl Htrans. induction l as [|a t IH]; intros Hstep c; cbn [fold_left]; [apply Hrefl|].
  apply Htrans with (g c a); [apply Hstep; left; reflexivity|].
  apply IH. intros c0 a0 Hin. apply Hstep. right; exact Hin.
Qed.

(* ================================================================== *)
(* B. fields no replication step touches                              *)
(* ================================================================== *)

Definition same_meta (c c' : client) : Prop :=
  cl_status c' = cl_status c /\ cl_last_connected c' = cl_last_connected c /\
  cl_last_not_disconnected c' = cl_last_not_disconnected c /\ cl_upd_tick c' = cl_upd_tick c /\
  cl_buffered c' = cl_buffered c /\ cl_mticks c' = cl_mticks c /\
  cl_inbox_upd c' = cl_inbox_upd c /\ cl_inbox_mut c' = cl_inbox_mut c.

Lemma same_meta_refl c : same_meta c c.
Proof. unfold same_meta; repeat split; reflexivity. Qed.
Lemma same_meta_trans a b c : same_meta a b -> same_meta b c -> same_meta a c.
Proof.
  unfold same_meta. intros (A1 & A2 & A3 & A4 & A5 & A6 & A7 & A8) (B1 & B2 & B3 & B4 & B5 & B6 & B7 & B8).
  repeat split; congruence.
Qed.

Ltac meta := unfold same_meta; cbn; repeat split; reflexivity.

Lemma same_meta_set_cent c cid x : same_meta c (set_cent c cid x).
Proof. meta. Qed.
Lemma same_meta_set_maps c a b : same_meta c (set_maps c a b).
Proof. meta. Qed.
Lemma same_meta_spawn c p m : same_meta c (fst (spawn_cent c p m)).
Proof. meta. Qed.
Lemma same_meta_emap_insert c s cid : same_meta c (emap_insert c s cid).
Proof. meta. Qed.
Lemma same_meta_vacant c s cid : same_meta c (emap_vacant_insert c s cid).
Proof. meta. Qed.
Lemma same_meta_remove_server c s : same_meta c (fst (emap_remove_server c s)).
Proof. unfold emap_remove_server. destruct (al_get s (cl_s2c c)); meta. Qed.

Lemma same_meta_mapping c s pc : same_meta c (apply_entity_mapping c s pc).
Proof.
  unfold apply_entity_mapping. destruct (find _ (cl_ents c)) as [[cid x]|]; [|apply same_meta_refl].
  destruct (ce_alive x); [meta|apply same_meta_refl].
Qed.

Lemma same_meta_despawn c s : same_meta c (apply_despawn c s).
Proof.
  unfold apply_despawn, emap_remove_server. destruct (al_get s (cl_s2c c)) as [cid|]; [|apply same_meta_refl].
  destruct (get_cent _ cid) as [x|]; [|meta]. destruct (ce_alive x); meta.
Qed.

Lemma same_meta_entry c s c1 cid : entry_entity c s = Some (c1, cid) -> same_meta c c1.
Proof.
  unfold entry_entity. destruct (al_get s (cl_s2c c)) as [cid0|].
  - destruct (alive c cid0); [|discriminate]. intros H; inversion H; subst. apply same_meta_refl.
  - cbn. intros H; inversion H; subst. meta.
Qed.

Lemma same_meta_map_value c v : same_meta c (fst (map_value c v)).
Proof.
  unfold map_value. destruct v as [n|t]; [apply same_meta_refl|].
  destruct (al_get t (cl_s2c c)); [apply same_meta_refl|meta].
Qed.

Definition write_one (cid : N) (c : client) (kv : N * val) : client :=
  let '(c1, cv) := map_value c (snd kv) in
  match get_cent c1 cid with
  | Some x => set_cent c1 cid (mkCEnt (ce_alive x) (ce_pre x) (ce_marker x) (ce_hist x) (kinsert (fst kv) cv (ce_comps x)))
  | None => c1
  end.

Lemma write_comps_fold c cid comps : write_comps c cid comps = fold_left (write_one cid) comps c.
Proof. reflexivity. Qed.

Lemma write_comps_cons c cid kv comps : write_comps c cid (kv :: comps) = write_comps (write_one cid c kv) cid comps.
Proof. reflexivity. Qed.

Lemma write_one_eq cid c kv :
  write_one cid c kv =
  match get_cent (fst (map_value c (snd kv))) cid with
  | Some x => set_cent (fst (map_value c (snd kv))) cid
                (mkCEnt (ce_alive x) (ce_pre x) (ce_marker x) (ce_hist x) (kinsert (fst kv) (snd (map_value c (snd kv))) (ce_comps x)))
  | None => fst (map_value c (snd kv))
  end.
Proof. unfold write_one. destruct (map_value c (snd kv)) as [c1 cv]. reflexivity. Qed.

Lemma same_meta_write_one cid c kv : same_meta c (write_one cid c kv).
Proof.
  rewrite write_one_eq. pose proof (same_meta_map_value c (snd kv)) as H.
  destruct (get_cent _ cid); [|exact H]. eapply same_meta_trans; [exact H|apply same_meta_set_cent].
Qed.

Lemma same_meta_write_comps c cid comps : same_meta c (write_comps c cid comps).
Proof.
  rewrite write_comps_fold. apply fold_left_rel; [apply same_meta_refl|apply same_meta_trans|].
  intros; apply same_meta_write_one.
Qed.

Lemma same_meta_removals c tick s kinds r : apply_removals c tick s kinds = Ok r -> same_meta c (sr_client r).
Proof.
  unfold apply_removals. destruct (entry_entity c s) as [[c1 cid]|] eqn:E.
  - pose proof (same_meta_entry _ _ _ _ E) as H1. destruct (get_cent c1 cid) as [x|].
    + intros H. apply bind_ok in H. destruct H as [x1 [_ H]]. inversion H; subst. cbn [sr_client].
      eapply same_meta_trans; [exact H1|apply same_meta_set_cent].
    + intros H; inversion H; subst. exact H1.
  - intros H; inversion H; subst. apply same_meta_refl.
Qed.

Lemma same_meta_changes c tick s comps r : apply_changes c tick s comps = Ok r -> same_meta c (sr_client r).
Proof.
  unfold apply_changes. destruct (entry_entity c s) as [[c1 cid]|] eqn:E.
  - pose proof (same_meta_entry _ _ _ _ E) as H1. destruct (get_cent c1 cid) as [x|].
    + intros H. apply bind_ok in H. destruct H as [x1 [_ H]]. inversion H; subst. cbn [sr_client].
      eapply same_meta_trans; [exact H1|]. eapply same_meta_trans; [apply same_meta_set_cent|apply same_meta_write_comps].
    + intros H; inversion H; subst. exact H1.
  - intros H; inversion H; subst. apply same_meta_refl.
Qed.

Lemma same_meta_mutations c tick s comps r : apply_mutations c tick s comps = Ok r -> same_meta c (sr_client r).
Proof.
  unfold apply_mutations. destruct (al_get s (cl_s2c c)) as [cid|]; [|intros H; inversion H; apply same_meta_refl].
  destruct (get_cent c cid) as [x|]; [|intros H; inversion H; apply same_meta_refl].
  destruct (negb (ce_alive x)); [intros H; inversion H; apply same_meta_refl|].
  destruct (ce_hist x) as [h|]; [|intros H; inversion H; apply same_meta_refl].
  destruct (tick_gtb tick (h_last h)); [|intros H; inversion H; apply same_meta_refl].
  intros H. apply bind_ok in H. destruct H as [h' [_ H]]. inversion H; subst. cbn [sr_client].
  eapply same_meta_trans; [apply same_meta_set_cent|apply same_meta_write_comps].
Qed.

Lemma same_meta_run_array {A} (f : client -> A -> res step_result) l :
  (forall c a r, f c a = Ok r -> same_meta c (sr_client r)) ->
  forall c r, run_array f l c = Ok r -> same_meta c (sr_client r).
Proof.
  intros Hf. apply run_array_rel; [apply same_meta_refl|apply same_meta_trans|].
  intros c a r _. apply Hf.
Qed.

(* ================================================================== *)
(* C. the entity map invariant                                        *)
(* ================================================================== *)

Definition maps_wf (s2c c2s : list (N * N)) (next : N) : Prop :=
  NoDup (al_keys s2c) /\ NoDup (al_keys c2s) /\
  (forall s cid, al_get s s2c = Some cid <-> al_get cid c2s = Some s) /\
  (forall s cid, al_get s s2c = Some cid -> cid < next).

Definition emap_wf (c : client) : Prop := maps_wf (cl_s2c c) (cl_c2s c) (cl_next c).

Lemma maps_wf_nil n : maps_wf [] [] n.
Proof.
  unfold maps_wf, al_keys; cbn. repeat split; try constructor; try discriminate.
Qed.

Lemma maps_wf_mono s2c c2s n n' : n <= n' -> maps_wf s2c c2s n -> maps_wf s2c c2s n'.
Proof.
  intros Hle (H1 & H2 & H3 & H4). repeat split; try assumption; try apply H3.
  intros s cid H. specialize (H4 s cid H). lia.
Qed.

Ltac al_simpl :=
  repeat (first
    [ rewrite al_get_insert_same in *
    | rewrite al_get_remove_same in *
    | rewrite al_get_insert_other in * by (congruence || lia)
    | rewrite al_get_remove_other in * by (congruence || lia) ]).

(* VacantEntityEntry::insert with a client entity nothing maps to *)
Lemma maps_wf_vacant s2c c2s n s cid :
  maps_wf s2c c2s n -> al_get s s2c = None -> al_get cid c2s = None -> cid < n ->
  maps_wf (al_insert s cid s2c) (al_insert cid s c2s) n.
Proof.
  intros (H1 & H2 & H3 & H4) Hs Hc Hlt. repeat split.
  - apply al_insert_nodup; exact H1.
  - apply al_insert_nodup; exact H2.
  - destruct (N.eq_dec s0 s) as [->|Hne]; destruct (N.eq_dec cid0 cid) as [->|Hne2]; al_simpl; intros H.
    + reflexivity.
    + inversion H; congruence.
    + apply H3 in H. congruence.
    + apply H3. exact H.
  - destruct (N.eq_dec s0 s) as [->|Hne]; destruct (N.eq_dec cid0 cid) as [->|Hne2]; al_simpl; intros H.
    + reflexivity.
    + apply H3 in H. congruence.
    + inversion H; congruence.
    + apply H3. exact H.
  - intros s0 cid0. destruct (N.eq_dec s0 s) as [->|Hne]; al_simpl; intros H.
    + inversion H; subst; exact Hlt.
    + exact (H4 _ _ H).
Qed.

Lemma maps_wf_remove s2c c2s n s cid :
  maps_wf s2c c2s n -> al_get s s2c = Some cid ->
  maps_wf (al_remove s s2c) (al_remove cid c2s) n.
Proof.
  intros (H1 & H2 & H3 & H4) Hs. repeat split.
  - apply al_remove_nodup; exact H1.
  - apply al_remove_nodup; exact H2.
  - destruct (N.eq_dec s0 s) as [->|Hne]; destruct (N.eq_dec cid0 cid) as [->|Hne2]; al_simpl; intros H;
      try discriminate.
    + apply H3 in H. apply H3 in Hs. congruence.
    + apply H3. exact H.
  - destruct (N.eq_dec s0 s) as [->|Hne]; destruct (N.eq_dec cid0 cid) as [->|Hne2]; al_simpl; intros H;
      try discriminate.
    + apply H3 in H. congruence.
    + apply H3. exact H.
  - intros s0 cid0. destruct (N.eq_dec s0 s) as [->|Hne]; al_simpl; intros H; [discriminate|].
    exact (H4 _ _ H).
Qed.

(* ServerEntityMap::insert.  The hypothesis: the client entity is not already the image of a
   different server entity. *)
Lemma maps_wf_insert s2c c2s n s cid :
  maps_wf s2c c2s n -> cid < n ->
  (forall s0, al_get cid c2s = Some s0 -> s0 = s) ->
  maps_wf (al_insert s cid s2c)
          (al_insert cid s (match al_get s s2c with
                            | Some existing => if existing =? cid then c2s else al_remove existing c2s
                            | None => c2s
                            end)) n.
Proof.
  intros Hwf Hlt Honly. destruct (al_get s s2c) as [existing|] eqn:Es.
  - destruct (existing =? cid) eqn:Ee.
    + assert (existing = cid) by lia; subst existing. clear Ee.
      destruct Hwf as (H1 & H2 & H3 & H4). pose proof (proj1 (H3 _ _) Es) as Ec. repeat split.
      * apply al_insert_nodup; exact H1.
      * apply al_insert_nodup; exact H2.
      * destruct (N.eq_dec s0 s) as [->|Hne]; destruct (N.eq_dec cid0 cid) as [->|Hne2]; al_simpl; intros H.
        -- reflexivity.
        -- inversion H; congruence.
        -- apply H3 in H. congruence.
        -- apply H3. exact H.
      * destruct (N.eq_dec s0 s) as [->|Hne]; destruct (N.eq_dec cid0 cid) as [->|Hne2]; al_simpl; intros H.
        -- reflexivity.
        -- apply H3 in H. congruence.
        -- inversion H; congruence.
        -- apply H3. exact H.
      * intros s0 cid0. destruct (N.eq_dec s0 s) as [->|Hne]; al_simpl; intros H.
        -- inversion H; subst; exact Hlt.
        -- exact (H4 _ _ H).
    + assert (Hne0 : existing <> cid) by lia. clear Ee.
      assert (Hcn : al_get cid c2s = None).
      { destruct (al_get cid c2s) as [s0|] eqn:Ec; [|reflexivity].
        pose proof (Honly _ eq_refl); subst s0. destruct Hwf as (_ & _ & H3 & _). apply H3 in Ec. congruence. }
      destruct Hwf as (H1 & H2 & H3 & H4). pose proof (proj1 (H3 _ _) Es) as Ec. repeat split.
      * apply al_insert_nodup; exact H1.
      * apply al_insert_nodup. apply al_remove_nodup. exact H2.
      * destruct (N.eq_dec s0 s) as [->|Hne]; destruct (N.eq_dec cid0 cid) as [->|Hne2]; al_simpl; intros H.
        -- reflexivity.
        -- inversion H; congruence.
        -- apply H3 in H. congruence.
        -- destruct (N.eq_dec cid0 existing) as [->|Hne3]; al_simpl.
           ++ apply H3 in H. congruence.
           ++ apply H3. exact H.
      * destruct (N.eq_dec s0 s) as [->|Hne]; destruct (N.eq_dec cid0 cid) as [->|Hne2]; al_simpl; intros H.
        -- reflexivity.
        -- destruct (N.eq_dec cid0 existing) as [->|Hne3]; al_simpl; [discriminate|].
           apply H3 in H. congruence.
        -- inversion H; congruence.
        -- destruct (N.eq_dec cid0 existing) as [->|Hne3]; al_simpl; [discriminate|]. apply H3. exact H.
      * intros s0 cid0. destruct (N.eq_dec s0 s) as [->|Hne]; al_simpl; intros H.
        -- inversion H; subst; exact Hlt.
        -- exact (H4 _ _ H).
  - apply maps_wf_vacant; try assumption.
    destruct (al_get cid c2s) as [s0|] eqn:Ec; [|reflexivity].
    pose proof (Honly _ eq_refl); subst s0. destruct Hwf as (_ & _ & H3 & _). apply H3 in Ec. congruence.
Qed.

(* ---- client level ---- *)

Lemma emap_wf_init track : emap_wf (client_init track).
Proof. unfold emap_wf, client_init; cbn. apply maps_wf_nil. Qed.

(* the invariant only reads the two maps and the allocation counter *)
Lemma emap_wf_ext c c' :
  cl_s2c c' = cl_s2c c -> cl_c2s c' = cl_c2s c -> cl_next c <= cl_next c' -> emap_wf c -> emap_wf c'.
Proof. unfold emap_wf. intros -> -> Hle. apply maps_wf_mono; exact Hle. Qed.

Lemma emap_wf_set_cent c cid x : emap_wf c -> emap_wf (set_cent c cid x).
Proof. apply emap_wf_ext; cbn; (reflexivity || lia). Qed.

Lemma emap_wf_spawn c p m : emap_wf c -> emap_wf (fst (spawn_cent c p m)).
Proof. apply emap_wf_ext; cbn; (reflexivity || lia). Qed.

Lemma emap_wf_unmapped_fresh c cid : emap_wf c -> cl_next c <= cid -> al_get cid (cl_c2s c) = None.
Proof.
  intros (_ & _ & H3 & H4) Hle. destruct (al_get cid (cl_c2s c)) as [s|] eqn:E; [|reflexivity].
  apply H3 in E. apply H4 in E. lia.
Qed.

(* VacantEntityEntry::insert on a vacant server entity with an allocated, unmapped client entity *)
Lemma emap_wf_vacant_insert c s cid :
  emap_wf c -> al_get s (cl_s2c c) = None -> al_get cid (cl_c2s c) = None -> cid < cl_next c ->
  emap_wf (emap_vacant_insert c s cid).
Proof. unfold emap_wf, emap_vacant_insert; cbn. apply maps_wf_vacant. Qed.

(* the way the model uses it: the entity was spawned just before *)
Lemma emap_wf_spawn_vacant c s p m :
  emap_wf c -> al_get s (cl_s2c c) = None ->
  emap_wf (emap_vacant_insert (fst (spawn_cent c p m)) s (snd (spawn_cent c p m))).
Proof.
  intros Hwf Hs. apply emap_wf_vacant_insert.
  - apply emap_wf_spawn; exact Hwf.
  - exact Hs.
  - cbn. apply emap_wf_unmapped_fresh; [exact Hwf|lia].
  - cbn. lia.
Qed.

Lemma emap_wf_remove_server c s : emap_wf c -> emap_wf (fst (emap_remove_server c s)).
Proof.
  unfold emap_remove_server. intros Hwf. destruct (al_get s (cl_s2c c)) as [cid|] eqn:E; [|exact Hwf].
  unfold emap_wf; cbn. apply maps_wf_remove; assumption.
Qed.

(* ServerEntityMap::insert *)
Lemma emap_wf_insert c s cid :
  emap_wf c -> cid < cl_next c ->
  (forall s0, al_get cid (cl_c2s c) = Some s0 -> s0 = s) ->
  emap_wf (emap_insert c s cid).
Proof. unfold emap_wf, emap_insert; cbn. apply maps_wf_insert. Qed.

Lemma emap_wf_despawn c s : emap_wf c -> emap_wf (apply_despawn c s).
Proof.
  intros Hwf. unfold apply_despawn. pose proof (emap_wf_remove_server c s Hwf) as H.
  destruct (emap_remove_server c s) as [c1 [cid|]]; cbn [fst] in H; [|exact H].
  destruct (get_cent c1 cid) as [x|]; [|exact H]. destruct (ce_alive x); [|exact H].
  apply emap_wf_set_cent; exact H.
Qed.

Lemma emap_wf_entry c s c1 cid : emap_wf c -> entry_entity c s = Some (c1, cid) -> emap_wf c1.
Proof.
  intros Hwf. unfold entry_entity. destruct (al_get s (cl_s2c c)) as [cid0|] eqn:E.
  - destruct (alive c cid0); [|discriminate]. intros H; inversion H; subst; exact Hwf.
  - intros H. pose proof (emap_wf_spawn_vacant c s None true Hwf E) as H1.
    cbn [spawn_cent fst snd] in H1. cbn in H. inversion H; subst. exact H1.
Qed.

Lemma emap_wf_map_value c v : emap_wf c -> emap_wf (fst (map_value c v)).
Proof.
  intros Hwf. unfold map_value. destruct v as [n|t]; [exact Hwf|].
  destruct (al_get t (cl_s2c c)) eqn:E; [exact Hwf|].
  exact (emap_wf_spawn_vacant c t None false Hwf E).
Qed.

Lemma emap_wf_write_one cid c kv : emap_wf c -> emap_wf (write_one cid c kv).
Proof.
  intros Hwf. rewrite write_one_eq. pose proof (emap_wf_map_value c (snd kv) Hwf) as H.
  destruct (get_cent _ cid); [apply emap_wf_set_cent|]; exact H.
Qed.

Lemma emap_wf_write_comps c cid comps : emap_wf c -> emap_wf (write_comps c cid comps).
Proof.
  rewrite write_comps_fold. revert c. induction comps as [|kv t IH]; intros c Hwf; cbn [fold_left]; [exact Hwf|].
  apply IH. apply emap_wf_write_one. exact Hwf.
Qed.

Lemma emap_wf_removals c tick s kinds r : emap_wf c -> apply_removals c tick s kinds = Ok r -> emap_wf (sr_client r).
Proof.
  intros Hwf. unfold apply_removals. destruct (entry_entity c s) as [[c1 cid]|] eqn:E.
  - pose proof (emap_wf_entry _ _ _ _ Hwf E) as H1. destruct (get_cent c1 cid) as [x|].
    + intros H. apply bind_ok in H. destruct H as [x1 [_ H]]. inversion H; subst. cbn [sr_client].
      apply emap_wf_set_cent; exact H1.
    + intros H; inversion H; subst. exact H1.
  - intros H; inversion H; subst. exact Hwf.
Qed.

Lemma emap_wf_changes c tick s comps r : emap_wf c -> apply_changes c tick s comps = Ok r -> emap_wf (sr_client r).
Proof.
  intros Hwf. unfold apply_changes. destruct (entry_entity c s) as [[c1 cid]|] eqn:E.
  - pose proof (emap_wf_entry _ _ _ _ Hwf E) as H1. destruct (get_cent c1 cid) as [x|].
    + intros H. apply bind_ok in H. destruct H as [x1 [_ H]]. inversion H; subst. cbn [sr_client].
      apply emap_wf_write_comps. apply emap_wf_set_cent; exact H1.
    + intros H; inversion H; subst. exact H1.
  - intros H; inversion H; subst. exact Hwf.
Qed.

Lemma emap_wf_mutations c tick s comps r : emap_wf c -> apply_mutations c tick s comps = Ok r -> emap_wf (sr_client r).
Proof.
  intros Hwf. unfold apply_mutations. destruct (al_get s (cl_s2c c)) as [cid|]; [|intros H; inversion H; exact Hwf].
  destruct (get_cent c cid) as [x|]; [|intros H; inversion H; exact Hwf].
  destruct (negb (ce_alive x)); [intros H; inversion H; exact Hwf|].
  destruct (ce_hist x) as [h|]; [|intros H; inversion H; exact Hwf].
  destruct (tick_gtb tick (h_last h)); [|intros H; inversion H; exact Hwf].
  intros H. apply bind_ok in H. destruct H as [h' [_ H]]. inversion H; subst. cbn [sr_client].
  apply emap_wf_write_comps. apply emap_wf_set_cent; exact Hwf.
Qed.

Lemma run_array_inv {A} (P : client -> Prop) (f : client -> A -> res step_result) l :
  (forall c a r, P c -> f c a = Ok r -> P (sr_client r)) ->
  forall c r, P c -> run_array f l c = Ok r -> P (sr_client r).
Proof.
  intros Hf c r Hc H.
  refine (run_array_rel (fun a b => P a -> P b) f l _ _ _ c r H Hc); auto.
  intros c0 a r0 _ E Hp. exact (Hf _ _ _ Hp E).
Qed.

Lemma fold_left_inv {S A} (P : S -> Prop) (g : S -> A -> S) l :
  (forall c a, P c -> P (g c a)) -> forall c, P c -> P (fold_left g l c).
Proof. intros Hg. induction l as [|a t IH]; intros c Hc; cbn [fold_left]; auto. Qed.

Lemma emap_wf_set_upd_tick c t : emap_wf c -> emap_wf (set_upd_tick c t).
Proof. apply emap_wf_ext; cbn; (reflexivity || lia). Qed.

(* an update message without pre-spawn mappings keeps the invariant, aborted or not *)
Lemma emap_wf_update_nomaps c u c' :
  emap_wf c -> u_maps u = [] -> apply_update_message c u = Ok c' -> emap_wf c'.
Proof.
  intros Hwf Hm. unfold apply_update_message. rewrite Hm. cbn [fold_left].
  intros H. apply bind_ok in H. destruct H as [r3 [E3 H]].
  assert (H2 : emap_wf (fold_left apply_despawn (u_despawns u) (set_upd_tick c (u_tick u)))).
  { apply fold_left_inv; [intros; apply emap_wf_despawn; assumption|]. apply emap_wf_set_upd_tick; exact Hwf. }
  pose proof (run_array_inv emap_wf _ _ (fun c0 a r P E => emap_wf_removals c0 _ _ _ r P E) _ _ H2 E3) as H3.
  destruct r3 as [c3|c3]; cbn [sr_client] in H3; [|inversion H; subst; exact H3].
  apply bind_ok in H. destruct H as [r4 [E4 H]].
  pose proof (run_array_inv emap_wf _ _ (fun c0 a r P E => emap_wf_changes c0 _ _ _ r P E) _ _ H3 E4) as H4.
  destruct r4 as [c4|c4]; cbn [sr_client] in H4; inversion H; subst; exact H4.
Qed.

Lemma emap_wf_reset c : emap_wf (client_reset c).
Proof. unfold emap_wf, client_reset; cbn. apply maps_wf_nil. Qed.

Lemma emap_wf_cop c op : emap_wf c -> emap_wf (apply_cop c op).
Proof.
  intros Hwf. destruct op as [pc|pc]; cbn [apply_cop].
  - destruct (existsb _ (cl_ents c)); [exact Hwf|]. apply emap_wf_spawn; exact Hwf.
  - destruct (find _ (cl_ents c)) as [[cid x]|]; [|exact Hwf]. destruct (ce_alive x); [|exact Hwf].
    apply emap_wf_set_cent; exact Hwf.
Qed.

(* ================================================================== *)
(* D. composite functions: one generic lemma per function             *)
(* ================================================================== *)

Definition mm_state : Type := client * list mutate_msg * list N * list N.

Definition mm_step (upd : N) (st : mm_state) (m : mutate_msg) : res mm_state :=
  let '(c, kept, acks, evs) := st in
  if tick_gtb (m_upd_tick m) upd then Ok (c, kept ++ [m], acks, evs)
  else
    let* r := run_array (fun c b => apply_mutations c (m_tick m) (fst b) (snd b)) (m_body m) c in
    let c1 := match r with Continue c1 => c1 | Abort c1 => c1 end in
    match cl_mticks c1 with
    | Some mtk =>
      let* (mtk', done) := mt_confirm mtk (m_tick m) (m_count m) in
      Ok (set_buffered c1 (cl_buffered c1) (Some mtk'), kept, acks ++ [m_idx m], if done then evs ++ [m_tick m] else evs)
    | None => Ok (c1, kept, acks ++ [m_idx m], evs)
    end.

Lemma apply_mutate_messages_eq c :
  apply_mutate_messages c =
  let* st := fold_left (res_step (mm_step (cl_upd_tick c))) (cl_buffered c) (Ok (c, [], [], [])) in
  let '(c', kept, acks, evs) := st in Ok (set_buffered c' kept (cl_mticks c'), mkCFO acks evs).
Proof. reflexivity. Qed.

Definition mm_client (st : mm_state) : client := fst (fst (fst st)).

Section Composite.
  Variable R : client -> client -> Prop.
  Hypothesis R_refl : forall c, R c c.
  Hypothesis R_trans : forall a b c, R a b -> R b c -> R a c.

  Lemma mutate_messages_rel :
    (forall c tick s comps r, apply_mutations c tick s comps = Ok r -> R c (sr_client r)) ->
    (forall c b m, R c (set_buffered c b m)) ->
    forall c c' out, apply_mutate_messages c = Ok (c', out) -> R c c'.
  Proof.
    intros Hmut Hbuf c c' out H. rewrite apply_mutate_messages_eq in H.
    apply bind_ok in H. destruct H as [st [E H]].
    assert (Hst : R c (mm_client st)).
    { refine (fold_res_rel (fun a b => R (mm_client a) (mm_client b)) _ _ _ _ _ _ _ E).
      - intros x; apply R_refl.
      - intros x y z; apply R_trans.
      - intros [[[c0 kept] acks] evs] m st1 _ Hs. unfold mm_client; cbn [fst]. cbn [mm_step] in Hs.
        destruct (tick_gtb (m_upd_tick m) (cl_upd_tick c)).
        + inversion Hs; subst; cbn [fst]. apply R_refl.
        + apply bind_ok in Hs. destruct Hs as [r [Er Hs]].
          assert (H1 : R c0 (sr_client r)).
          { refine (run_array_rel R _ _ R_refl R_trans _ _ _ Er). intros c1 b r1 _. apply Hmut. }
          change (match r with Continue c1 => c1 | Abort c1 => c1 end) with (sr_client r) in Hs.
          destruct (cl_mticks (sr_client r)) as [mtk|].
          * apply bind_ok in Hs. destruct Hs as [[mtk' done] [_ Hs]]. inversion Hs; subst; cbn [fst].
            eapply R_trans; [exact H1|apply Hbuf].
          * inversion Hs; subst; cbn [fst]. exact H1. }
    destruct st as [[[c0 kept] acks] evs]. inversion H; subst. unfold mm_client in Hst; cbn [fst] in Hst.
    eapply R_trans; [exact Hst|apply Hbuf].
  Qed.

  Lemma update_message_rel :
    (forall c t, R c (set_upd_tick c t)) ->
    (forall c s pc, R c (apply_entity_mapping c s pc)) ->
    (forall c s, R c (apply_despawn c s)) ->
    (forall c tick s kinds r, apply_removals c tick s kinds = Ok r -> R c (sr_client r)) ->
    (forall c tick s comps r, apply_changes c tick s comps = Ok r -> R c (sr_client r)) ->
    forall c u c', apply_update_message c u = Ok c' -> R c c'.
  Proof.
    intros Htick Hmap Hdes Hrem Hchg c u c' H. unfold apply_update_message in H. cbv zeta in H.
    set (c0 := set_upd_tick c (u_tick u)) in *.
    set (c1 := fold_left apply_despawn (u_despawns u) c0) in *.
    set (c2 := fold_left (fun c m => apply_entity_mapping c (fst m) (snd m)) (u_maps u) c1) in *.
    apply bind_ok in H. destruct H as [r3 [E3 H]].
    assert (H0 : R c c0) by apply Htick.
    assert (H1 : R c0 c1).
    { exact (fold_left_rel R _ _ R_refl R_trans (fun c4 a _ => Hdes c4 a) c0). }
    assert (H2 : R c1 c2).
    { exact (fold_left_rel R _ _ R_refl R_trans (fun c4 a _ => Hmap c4 (fst a) (snd a)) c1). }
    assert (H3 : R c2 (sr_client r3)).
    { refine (run_array_rel R _ _ R_refl R_trans _ _ _ E3). intros c4 a r _. apply Hrem. }
    assert (H03 : R c (sr_client r3)) by eauto.
    destruct r3 as [c3|c3]; cbn [sr_client] in *; [|inversion H; subst; exact H03].
    apply bind_ok in H. destruct H as [r4 [E4 H]].
    assert (H4 : R c3 (sr_client r4)).
    { refine (run_array_rel R _ _ R_refl R_trans _ _ _ E4). intros c4 a r _. apply Hchg. }
    destruct r4 as [c4|c4]; cbn [sr_client] in *; inversion H; subst; eauto.
  Qed.

  Lemma replication_rel :
    (forall c u c', apply_update_message c u = Ok c' -> R c c') ->
    (forall c b m, R c (set_buffered c b m)) ->
    (forall c, R c (clear_inboxes c)) ->
    (forall c c' out, apply_mutate_messages c = Ok (c', out) -> R c c') ->
    forall c c' out, apply_replication c = Ok (c', out) -> R c c'.
  Proof.
    intros Hupd Hbuf Hclr Hmm c c' out H. unfold apply_replication in H.
    apply bind_ok in H. destruct H as [c1 [E1 H]].
    assert (H1 : R c c1).
    { refine (fold_res_rel R _ _ R_refl R_trans _ _ _ E1). intros c0 u c2 _. apply Hupd. }
    apply Hmm in H. eapply R_trans; [exact H1|]. eapply R_trans; [apply Hbuf|].
    eapply R_trans; [apply Hclr|exact H].
  Qed.

  Lemma frame_rel :
    (forall c, R c (client_reset c)) ->
    (forall c c' out, apply_replication c = Ok (c', out) -> R c c') ->
    (forall c op, R c (apply_cop c op)) ->
    (forall c, R c (set_locals c)) ->
    forall c ops c' out, client_frame c ops = Ok (c', out) -> R c c'.
  Proof.
    intros Hreset Hrep Hcop Hloc c ops c' out H. unfold client_frame in H.
    apply bind_ok in H. destruct H as [[c2 out2] [E2 H]]. inversion H; subst. clear H.
    set (c1 := if cl_last_not_disconnected c && negb match cl_status c with Connected => true | Disconnected => false end
               then client_reset c else c) in *.
    assert (H1 : R c c1). { unfold c1. destruct (_ && _); auto. }
    assert (H2 : R c1 c2).
    { destruct (cl_status c); [inversion E2; subst; apply R_refl|exact (Hrep _ _ _ E2)]. }
    assert (H3 : R c2 (fold_left apply_cop ops c2)). { apply fold_left_rel; auto. }
    eauto.
  Qed.
End Composite.

Lemma emap_wf_set_buffered c b m : emap_wf c -> emap_wf (set_buffered c b m).
Proof. apply emap_wf_ext; cbn; (reflexivity || lia). Qed.

Lemma emap_wf_mutate_messages c c' out : emap_wf c -> apply_mutate_messages c = Ok (c', out) -> emap_wf c'.
Proof.
  intros Hwf H.
  refine (mutate_messages_rel (fun a b => emap_wf a -> emap_wf b) _ _ _ _ _ _ _ H Hwf).
  - auto.
  - auto.
  - intros c0 tick s comps r E P. exact (emap_wf_mutations _ _ _ _ _ P E).
  - intros c0 b m. apply emap_wf_set_buffered.
Qed.

(* ================================================================== *)
(* E. the update tick                                                  *)
(* ================================================================== *)

Lemma update_tick_follows_messages c u c' : apply_update_message c u = Ok c' -> cl_upd_tick c' = u_tick u.
Proof.
  intros H. unfold apply_update_message in H. cbv zeta in H.
  set (c0 := set_upd_tick c (u_tick u)) in *.
  set (c1 := fold_left apply_despawn (u_despawns u) c0) in *.
  set (c2 := fold_left (fun c m => apply_entity_mapping c (fst m) (snd m)) (u_maps u) c1) in *.
  assert (Hm : same_meta c0 c').
  { apply bind_ok in H. destruct H as [r3 [E3 H]].
    assert (H1 : same_meta c0 c1).
    { exact (fold_left_rel same_meta _ _ same_meta_refl same_meta_trans (fun c4 a _ => same_meta_despawn c4 a) c0). }
    assert (H2 : same_meta c1 c2).
    { exact (fold_left_rel same_meta _ _ same_meta_refl same_meta_trans (fun c4 a _ => same_meta_mapping c4 (fst a) (snd a)) c1). }
    assert (H3 : same_meta c2 (sr_client r3)).
    { refine (same_meta_run_array _ _ _ _ _ E3). intros c3 a r. apply same_meta_removals. }
    assert (H03 : same_meta c0 (sr_client r3)) by (eauto using same_meta_trans).
    destruct r3 as [c3|c3]; cbn [sr_client] in *; [|inversion H; subst; exact H03].
    apply bind_ok in H. destruct H as [r4 [E4 H]].
    assert (H4 : same_meta c3 (sr_client r4)).
    { refine (same_meta_run_array _ _ _ _ _ E4). intros c4 a r. apply same_meta_changes. }
    destruct r4 as [c4|c4]; cbn [sr_client] in *; inversion H; subst; eauto using same_meta_trans. }
  destruct Hm as (_ & _ & _ & Ht & _). rewrite Ht. reflexivity.
Qed.

Definition same_tick (c c' : client) : Prop := cl_upd_tick c' = cl_upd_tick c.

Lemma mutate_messages_keep_tick c c' out : apply_mutate_messages c = Ok (c', out) -> cl_upd_tick c' = cl_upd_tick c.
Proof.
  intros H. refine (mutate_messages_rel same_tick _ _ _ _ _ _ _ H); unfold same_tick.
  - reflexivity.
  - intros; congruence.
  - intros c0 tick s comps r E. apply same_meta_mutations in E. destruct E as (_ & _ & _ & Ht & _). exact Ht.
  - reflexivity.
Qed.

Lemma cop_keeps_tick c op : cl_upd_tick (apply_cop c op) = cl_upd_tick c.
Proof.
  destruct op as [pc|pc]; cbn [apply_cop].
  - destruct (existsb _ (cl_ents c)); reflexivity.
  - destruct (find _ (cl_ents c)) as [[cid x]|]; [|reflexivity]. destruct (ce_alive x); reflexivity.
Qed.

Lemma cops_keep_tick ops c : cl_upd_tick (fold_left apply_cop ops c) = cl_upd_tick c.
Proof. revert c; induction ops as [|op t IH]; intros c; cbn [fold_left]; [reflexivity|]. rewrite IH. apply cop_keeps_tick. Qed.

Lemma last_cons_indep {A} (l : list A) a d d' : last (a :: l) d = last (a :: l) d'.
Proof. revert a; induction l as [|b r IH]; intros a; [reflexivity|]. exact (IH b). Qed.

(* the inbox loop: the tick afterwards is the tick of the last update message (or unchanged) *)
Lemma update_fold_tick us c c1 :
  fold_left (res_step apply_update_message) us (Ok c) = Ok c1 ->
  cl_upd_tick c1 = last (map u_tick us) (cl_upd_tick c).
Proof.
  revert c; induction us as [|u t IH]; intros c H.
  - cbn in H. inversion H; subst. reflexivity.
  - apply fold_res_cons_ok in H. destruct H as [c2 [E H]]. apply IH in H. rewrite H.
    apply update_tick_follows_messages in E. rewrite E. cbn [map].
    destruct (map u_tick t) as [|n l]; [reflexivity|]. cbn [last]. apply last_cons_indep.
Qed.

Lemma replication_tick_is_last c c' out :
  apply_replication c = Ok (c', out) ->
  cl_upd_tick c' = last (map u_tick (cl_inbox_upd c)) (cl_upd_tick c).
Proof.
  intros H. unfold apply_replication in H. apply bind_ok in H. destruct H as [c1 [E1 H]].
  apply mutate_messages_keep_tick in H. cbn in H. rewrite H. exact (update_fold_tick _ _ _ E1).
Qed.

(* ticks of the frame's prefix states: every state the client goes through while draining the
   inbox reports the tick of the last message applied so far *)
Lemma update_fold_prefix_tick us1 us2 c c1 :
  fold_left (res_step apply_update_message) (us1 ++ us2) (Ok c) = Ok c1 ->
  exists cm, fold_left (res_step apply_update_message) us1 (Ok c) = Ok cm /\
             cl_upd_tick cm = last (map u_tick us1) (cl_upd_tick c) /\
             fold_left (res_step apply_update_message) us2 (Ok cm) = Ok c1.
Proof.
  rewrite fold_left_app. intros H.
  destruct (fold_left (res_step apply_update_message) us1 (Ok c)) as [cm| |] eqn:E.
  - exists cm. split; [reflexivity|]. split; [exact (update_fold_tick _ _ _ E)|exact H].
  - rewrite fold_res_err in H. discriminate.
  - rewrite fold_res_panic in H. discriminate.
Qed.

(* monotonicity, for ticks given as unbounded counters less than half the range apart:
   a strictly increasing inbox whose first tick is above the current one never lowers the tick *)
Fixpoint increasing_from (t : Z) (ts : list Z) : Prop :=
  match ts with
  | [] => True
  | a :: r => (t < a)%Z /\ increasing_from a r
  end.

(* what the implementation compares: wrapped ticks with tick_ltb / tick_gtb *)
Fixpoint increasing_from_w (t : N) (ts : list N) : Prop :=
  match ts with
  | [] => True
  | a :: r => tick_gtb a t = true /\ increasing_from_w a r
  end.

Lemma increasing_from_wrap t ts :
  increasing_from t ts -> (forall a, In a ts -> (a - t < 2 ^ 31)%Z) ->
  increasing_from_w (wrap t) (map wrap ts).
Proof.
  revert t; induction ts as [|a r IH]; intros t Hinc Hwin; cbn [map increasing_from_w]; [exact I|].
  destruct Hinc as [Hlt Hinc]. split.
  - rewrite tick_gtb_spec; [lia|]. pose proof (Hwin a (or_introl eq_refl)). lia.
  - apply IH; [exact Hinc|]. intros b Hb. pose proof (Hwin b (or_intror Hb)). lia.
Qed.

Lemma increasing_last_ge t ts : increasing_from t ts -> (t <= last ts t)%Z.
Proof.
  revert t; induction ts as [|a r IH]; intros t H; cbn [last]; [lia|].
  destruct H as [Hlt H]. destruct r as [|b r']; [lia|].
  specialize (IH a H). change (last (a :: b :: r') t) with (last (b :: r') t).
  rewrite (last_cons_indep r' b t a). lia.
Qed.

Lemma increasing_prefix t ts1 ts2 : increasing_from t (ts1 ++ ts2) -> increasing_from t ts1.
Proof.
  revert t; induction ts1 as [|a r IH]; intros t H; cbn [app increasing_from] in *; [exact I|].
  destruct H as [Hlt H]. split; [exact Hlt|apply IH; exact H].
Qed.

Lemma last_map_wrap ts t : last (map wrap ts) (wrap t) = wrap (last ts t).
Proof. induction ts as [|a r IH]; cbn [map last]; [reflexivity|]. destruct r; [reflexivity|exact IH]. Qed.

(* at every point of the frame (after any prefix of the inbox) the tick is not below the tick the
   frame started with, in the unbounded order and hence, within half the range, in the wrapping one *)
Lemma update_tick_monotone c t ts us1 us2 c1 :
  cl_upd_tick c = wrap t -> map u_tick (us1 ++ us2) = map wrap ts -> increasing_from t ts ->
  fold_left (res_step apply_update_message) (us1 ++ us2) (Ok c) = Ok c1 ->
  exists cm t', fold_left (res_step apply_update_message) us1 (Ok c) = Ok cm /\
                cl_upd_tick cm = wrap t' /\ (t <= t')%Z /\
                ((t' - t < 2 ^ 31)%Z -> tick_geb (cl_upd_tick cm) (cl_upd_tick c) = true).
Proof.
  intros Ht Hts Hinc H. apply update_fold_prefix_tick in H. destruct H as [cm [E [Hl _]]].
  rewrite map_app in Hts.
  assert (Hsplit : exists ts1 ts2, ts = ts1 ++ ts2 /\ map u_tick us1 = map wrap ts1).
  { exists (firstn (length us1) ts), (skipn (length us1) ts). split; [symmetry; apply firstn_skipn|].
    rewrite <- firstn_map, <- Hts. rewrite <- (map_length u_tick us1) at 1. rewrite firstn_app.
    rewrite Nat.sub_diag, firstn_O, app_nil_r, firstn_all. reflexivity. }
  destruct Hsplit as [ts1 [ts2 [-> Hm1]]].
  exists cm, (last ts1 t). split; [exact E|]. rewrite Hl, Hm1, Ht, last_map_wrap. split; [reflexivity|].
  pose proof (increasing_last_ge t ts1 (increasing_prefix _ _ _ Hinc)) as Hge. split; [exact Hge|].
  intros Hw. rewrite tick_geb_spec; [lia|lia].
Qed.
