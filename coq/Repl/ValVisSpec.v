(* C02 / C01 end to end at the value level, for EVERY visibility policy, SEVERAL sessions and re-replication of an
   entity id (`SVis` hide / show, `SUnmark` / `SMark`): definitions.  Generalises Repl/ValSpec.v (policy PAll, one
   session, an entity id replicated during at most one interval).

   What changes with respect to Repl/ValSpec.v:
     vstruct / vrepl   the structure / the replicated entity VISIBLE to the record of a slot in a server state
                       (`struct_vis` of Repl/StructVisSpec.v; the record is the one AFTER that frame's `send_for_client`)
     snaps             the snapshots of the CURRENT session of a slot: server frames that ran `send_replication` and
                       after which the script contains no `StStop` / `StDisconnect slot`
     absent            replaces `gone` (dead for good): the client does not hold the entity and every update message on
                       its way that mentions it is not older than tick t.  An entity a client lost (despawn record from
                       `drain_lost`, `SUnmark`) can be gained again as a NEW entity; a mutate message of the earlier
                       interval is then "late": it finds the entity unknown, or confirmed at a later tick
     mut_okv           a mutate message additionally promises that no update message on its way has a tick between its
                       required update tick and its own tick
     cli_invv          no server state any more (nothing is dead for good); new part cv_hl: a replica is confirmed
                       below the tick of every update message on its way
     script_valsu      kinds 0 / 1 holding `VNat`; `SUnmark` allowed
   Lemmas: Repl/ValVisHist_proofs.v (server history with stops and restarts), Repl/ValVisCli_proofs.v (client half),
   Repl/ValVisSrv_proofs.v + Repl/ValVisFrame_proofs.v (server half), Repl/ValVisE2E_proofs.v (whole-system runs);
   pinned statements: Properties/C02F.v, Properties/C01F.v. *)
From RV Require Import Lib.Res Repl.ClientTicks Repl.World Vis.Visibility Tick.RepliconTick Tick.ConfirmHistory
  Tick.MutateTicks Repl.Server Repl.ServerSpec Repl.StructSpec Repl.StructVisSpec Repl.Client Repl.Sys Repl.ClientStructSpec
  Repl.ClientStruct_proofs Repl.StructE2E_proofs Repl.StructE2EMut_proofs Repl.StructE2ESess_proofs Repl.ValSpec.
Open Scope N_scope.

(* ================================================================== *)
(* 1. scripts                                                         *)
(* ================================================================== *)

(* kinds 0 / 1 holding `VNat`; unlike [sop_vals], `SUnmark` is allowed *)
Definition sop_valsu (op : sop) : bool :=
  match op with
  | SSpawn _ _ comps => forallb (fun kv => kind01 (fst kv) && val_nat (snd kv)) comps
  | SInsert _ k v => kind01 k && val_nat v
  | SMutate _ k v => kind01 k && val_nat v
  | _ => true
  end.
Definition step_valsu (st : step) : bool :=
  match st with StSFrame _ _ _ ops _ => forallb sop_valsu ops | _ => true end.
Definition script_valsu (script : list step) : bool := forallb step_valsu script.

(* ================================================================== *)
(* 2. what a slot sees of a server state                              *)
(* ================================================================== *)

Definition vstruct (slot : N) (s : server) : structure :=
  match find_client s slot with Some cl => struct_vis s cl | None => [] end.

Definition vrepl (slot : N) (s : server) (e : N) : option sent :=
  match find_client s slot with
  | Some cl => if vis_visible (sc_vis cl) e then repl_get s e else None
  | None => None
  end.

(* the value the server replicates to the slot for component [k] of entity [e] *)
Definition sviewv (slot : N) (s : server) (e k : N) : option val :=
  match vrepl slot s e with
  | Some x => option_map c_val (al_get k (se_comps x))
  | None => None
  end.

Section Snaps.
  Variables (cfg0 : cfg) (nclients : N).

  (* [s1] is the server right after a frame of the script that ran `send_replication` at replicon tick [t] with
     run stamp [r], and no step [stop] follows it in the script *)
  Definition snap_until (stop : step -> bool) (script : list step) (t r : N) (s1 : server) : Prop :=
    exists pre post y0 y1 tk dt cu ops parts fo vs,
      script = pre ++ StSFrame tk dt cu ops parts :: post /\
      run (sys_init cfg0 nclients) pre = Ok y0 /\
      sys_step y0 (StSFrame tk dt cu ops parts) = Ok (y1, OSFrame fo vs) /\ fo_ran fo = true /\
      y_server y1 = s1 /\ sv_tick s1 = t /\ sv_last_run s1 = r /\
      forallb (fun st => negb (stop st)) post = true.

  (* the snapshots since the server was last stopped *)
  Definition is_stop (st : step) : bool := match st with StStop => true | _ => false end.
  Definition esnap : list step -> N -> N -> server -> Prop := snap_until is_stop.

  (* the snapshots of the current session of a slot *)
  Definition snaps (slot : N) : list step -> N -> N -> server -> Prop := snap_until (ends_session slot).
End Snaps.

(* ================================================================== *)
(* 3. server history, with stops and restarts                         *)
(* ================================================================== *)

(* sorted component lists of kinds 0 / 1 holding `VNat`, stamped below the counter *)
Definition comps_okv (now : N) (l : list (N * comp)) : Prop :=
  ksorted l /\
  forall k c, In (k, c) l -> kind01 k = true /\ val_nat (c_val c) = true /\ c_added c <= c_changed c /\ c_changed c <= now.
Definition ents_okv (s : server) : Prop := forall e x, get_ent s e = Some x -> comps_okv (sv_now s) (se_comps x).

Section HistV.
  Variables (cfg0 : cfg) (nclients : N).

  (* what the scan of [no_tick0] knows about the server (as [t0_inv], over scripts with stops) *)
  Definition t0_invv (script : list step) (s : server) : Prop :=
    match fold_left t0_step script (T0A false false) with
    | T0A started connected =>
      sv_tick s = 0 /\ sv_dirty s = true /\ (sv_running s = true -> started = true) /\
      (connected = false -> sv_clients s = []) /\
      (forall t r s1, ~ snap cfg0 nclients script t r s1)
    | T0ok => (sv_dirty s = true -> 1 <= sv_tick s) /\
              (forall t r s1, snap cfg0 nclients script t r s1 -> 1 <= t \/ sv_clients s1 = [])
    | T0bad => True
    end.

  Record srv_histv (script : list step) (s : server) : Prop := mkSrvHistV {
    hv_wf : ents_wf s;
    hv_ents : ents_okv s;
    hv_now : sv_last_run s < sv_now s;
    hv_tick : sv_tick s <= tick_frames script;
    (* every snapshot of the run *)
    hv_r : forall t r s1, snap cfg0 nclients script t r s1 -> r <= sv_last_run s /\ t < 2 ^ 31 /\ ents_wf s1;
    hv_rinj : forall t1 r1 s1 t2 r2 s2, snap cfg0 nclients script t1 r1 s1 -> snap cfg0 nclients script t2 r2 s2 ->
              r1 = r2 -> t1 = t2 /\ s1 = s2;
    hv_keep : forall t1 r1 s1, snap cfg0 nclients script t1 r1 s1 -> keeps r1 s1 s;
    hv_keep2 : forall t1 r1 s1 t2 r2 s2, snap cfg0 nclients script t1 r1 s1 -> snap cfg0 nclients script t2 r2 s2 ->
               r1 <= r2 -> keeps r1 s1 s2;
    (* the snapshots since the last stop: ticks and stamps are ordered alike *)
    hv_run : (exists t r s1, esnap cfg0 nclients script t r s1) -> sv_running s = true;
    hv_bound : forall t r s1, esnap cfg0 nclients script t r s1 ->
               t <= sv_tick s /\ (sv_dirty s = true -> t < sv_tick s);
    hv_inj : forall t1 r1 s1 t2 r2 s2, esnap cfg0 nclients script t1 r1 s1 -> esnap cfg0 nclients script t2 r2 s2 ->
             r1 < r2 -> t1 < t2;
    hv_t0 : t0_invv script s
  }.
End HistV.

(* ================================================================== *)
(* 4. the client side                                                 *)
(* ================================================================== *)

(* the client does not hold [e], and every update message on its way that mentions [e] is not older than tick [t] *)
Definition absent (c : client) (pend : list update_msg) (e t : N) : Prop :=
  centof c e = None /\ forall u, In u pend -> mentions u e -> t <= u_tick u.

Definition cgv (c : client) (pend : list update_msg) (g e t : N) : Prop :=
  will_conf pend g e t \/ has_conf c e t \/ absent c pend e t.

Section InvV.
  Variable slot : N.
  (* the snapshots of the current session of the slot: tick, run stamp, server state *)
  Variable SN : N -> N -> server -> Prop.

  Definition conf_sincev (c : client) (pend : list update_msg) (g e a : N) : Prop :=
    exists t_a s_a, SN t_a a s_a /\ cgv c pend g e t_a.

  Definition ent_promisev (c : client) (pend : list update_msg) (g : N) (s1 : server) (e : N)
             (vals : list (N * val)) : Prop :=
    entry_vals s1 e vals /\
    (entry_full s1 e vals \/ exists a, entry_since s1 e vals a /\ conf_sincev c pend g e a).

  Definition upd_okv (c : client) (pend : list update_msg) (u : update_msg) : Prop :=
    upd_shape u /\
    exists r s1, SN (u_tick u) r s1 /\
      forall e, mentions u e -> ent_promisev c pend (u_tick u) s1 e (al_dflt e (u_changes u)).

  (* entity [e] has been visible to the slot with the same component kinds in every snapshot from run stamp [a] up to
     the snapshot [s1] of run [r1] *)
  Definition kstablev (r1 : N) (s1 : server) (e a : N) : Prop :=
    forall t r s0, SN t r s0 -> a <= r -> r <= r1 ->
      ClientStruct_proofs.opt_equiv (al_get e (vstruct slot s0)) (al_get e (vstruct slot s1)).

  Definition mut_okv (c : client) (pend : list update_msg) (m : mutate_msg) : Prop :=
    m_upd_tick m <= m_tick m /\
    (forall u, In u pend -> u_tick u <= m_upd_tick m \/ m_tick m < u_tick u) /\
    exists r s1, SN (m_tick m) r s1 /\
      forall e vals, In (e, vals) (m_body m) ->
        entry_vals s1 e vals /\
        exists a, entry_since s1 e vals a /\ conf_sincev c pend (m_upd_tick m + 1) e a /\ kstablev r s1 e a.

  Record cli_invv (c : client) (pend : list update_msg) (muts : list mutate_msg) : Prop := mkCliInvV {
    cw_cs : cs_inv c;
    cw_pu : ClientStruct_proofs.pu c;
    cw_mo : mapped_ok c;
    (* T: a replica has the component kinds and carries the values the entity had, visible to the slot, in the
       snapshot of its confirmed tick *)
    cw_T : forall e x h, has c e x h ->
           exists r s1 x1, SN (h_last h) r s1 /\ vrepl slot s1 e = Some x1 /\ agree (ce_comps x) (se_comps x1) /\
                           kinds_equiv (map fst (ce_comps x)) (map fst (se_comps x1));
    cw_ut : cl_upd_tick c = 0 \/ exists r s1, SN (cl_upd_tick c) r s1;
    cw_lt : forall u, In u pend -> cl_upd_tick c < u_tick u;
    cw_incr : ticks_incr pend;
    cw_hl : forall e x h, has c e x h -> forall u, In u pend -> h_last h < u_tick u;
    cw_pend : forall u, In u pend -> upd_okv c pend u;
    cw_muts : forall m, In m muts -> mut_okv c pend m;
    cw_struct : forall p u q, pend = p ++ u :: q ->
                exists r s1, SN (u_tick u) r s1 /\
                  struct_equiv (fold_left abs_apply (p ++ [u]) (client_struct c)) (vstruct slot s1)
  }.

  Record srv_slot_invv (s : server) (cl : sclient) (c : client) (pend : list update_msg) (muts : list mutate_msg)
         (acks : list N) : Prop := mkSrvSlotV {
    (* K: an acknowledged stamp is backed by the client *)
    sw_K : forall e a, mutation_tick (sc_ticks cl) e = Some a -> conf_sincev c pend (sv_tick s + 1) e a;
    sw_ack : forall i info e, In i acks -> al_get i (ct_mutations (sc_ticks cl)) = Some info -> In e (mi_entities info) ->
             conf_sincev c pend 0 e (ClientTicks.mi_tick info);
    sw_reg : forall m info, In m muts -> al_get (m_idx m) (ct_mutations (sc_ticks cl)) = Some info ->
             (exists s1, SN (m_tick m) (ClientTicks.mi_tick info) s1) /\ mi_entities info = map fst (m_body m);
    sw_midx : forall m, In m muts -> m_idx m < ct_mutate_index (sc_ticks cl);
    sw_aidx : forall i, In i acks -> i < ct_mutate_index (sc_ticks cl);
    sw_ut : ct_update_tick (sc_ticks cl) <= sv_tick s;
    sw_utp : forall u, In u pend -> u_tick u <= ct_update_tick (sc_ticks cl);
    sw_nd : NoDup (al_keys (ct_mutations (sc_ticks cl)));
    sw_SK : forall e a, mutation_tick (sc_ticks cl) e = Some a -> forall t r s0, SN t r s0 -> a <= r ->
            ClientStruct_proofs.opt_equiv (al_get e (vstruct slot s0)) (al_get e (fold_left abs_apply pend (client_struct c)));
    sw_le : (forall e a, mutation_tick (sc_ticks cl) e = Some a -> a < sv_now s) /\
            (forall i info, al_get i (ct_mutations (sc_ticks cl)) = Some info -> ClientTicks.mi_tick info < sv_now s);
    sw_mupd : forall m, In m muts -> m_upd_tick m <= ct_update_tick (sc_ticks cl);
    sw_last : ct_update_tick (sc_ticks cl) = last (map u_tick pend) (cl_upd_tick c)
  }.
End InvV.
