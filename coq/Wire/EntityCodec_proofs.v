From RV Require Import Lib.Res Wire.Varint Wire.Varint_proofs Wire.EntityCodec.
From Coq Require Import ZifyBool ZifyN.
Open Scope N_scope.
Ltac Zify.zify_post_hook ::= Z.div_mod_to_equations.
Arguments N.add : simpl never. Arguments N.mul : simpl never. Arguments N.pow : simpl never.
Arguments N.ltb : simpl never. Arguments N.leb : simpl never. Arguments N.div : simpl never.
Arguments N.modulo : simpl never. Arguments N.sub : simpl never. Arguments N.eqb : simpl never.

Lemma pow32 : 2 ^ 32 = 4294967296. Proof. reflexivity. Qed.
Lemma pow31 : 2 ^ 31 = 2147483648. Proof. reflexivity. Qed.
Lemma pow64 : 2 ^ 64 = 18446744073709551616. Proof. reflexivity. Qed.

Lemma valid_entity_spec e : valid_entity e <-> e_index e < 2 ^ 32 /\ 1 <= e_gen e < 2 ^ 31.
Proof. unfold valid_entity, valid_entityb. rewrite pow32, pow31. lia. Qed.

Lemma deserialize_entity_total bs : deserialize_entity bs <> Panic.
Proof.
  unfold deserialize_entity, bind, vdec_u64, vdec_u32, try_from_parts.
  pose proof (vdec_never_panics 10 1 bs) as H.
  destruct (vdec 10 1 bs) as [[fi r]| |]; try discriminate; [|congruence].
  destruct (2 ^ 32 <=? fi / 2); [discriminate|].
  destruct (fi mod 2 =? 1).
  - pose proof (vdec_never_panics 5 4 r) as H2.
    destruct (vdec 5 4 r) as [[g r']| |]; try discriminate; [|congruence].
    destruct (2 ^ 32 <=? g + 1); [discriminate|].
    destruct ((g + 1 =? 0) || (2 ^ 31 <=? g + 1)); discriminate.
  - destruct ((1 =? 0) || (2 ^ 31 <=? 1)); discriminate.
Qed.

Lemma deserialize_entity_valid bs e rest : deserialize_entity bs = Ok (e, rest) ->
  valid_entity e /\ exists used, bs = used ++ rest /\ used <> [].
Proof.
  unfold deserialize_entity, bind, vdec_u64, vdec_u32, try_from_parts.
  destruct (vdec 10 1 bs) as [[fi r]| |] eqn:E1; try discriminate.
  destruct (2 ^ 32 <=? fi / 2) eqn:Ei; [discriminate|].
  destruct (vdec_suffix _ _ _ _ _ E1) as [u1 [-> Hu1]].
  destruct (fi mod 2 =? 1).
  - destruct (vdec 5 4 r) as [[g r']| |] eqn:E2; try discriminate.
    destruct (2 ^ 32 <=? g + 1) eqn:Eg; [discriminate|].
    destruct ((g + 1 =? 0) || (2 ^ 31 <=? g + 1)) eqn:Ev; [discriminate|].
    intros H; injection H as <- <-.
    destruct (vdec_suffix _ _ _ _ _ E2) as [u2 [-> Hu2]].
    split.
    + apply valid_entity_spec; cbn [e_index e_gen]. rewrite pow32, pow31 in *. lia.
    + exists (u1 ++ u2). rewrite app_assoc. split; [reflexivity|]. destruct u1; [congruence|discriminate].
  - destruct ((1 =? 0) || (2 ^ 31 <=? 1)) eqn:Ev; [discriminate|].
    intros H; injection H as <- <-. split.
    + apply valid_entity_spec; cbn [e_index e_gen]. rewrite pow32, pow31 in *. lia.
    + exists u1. split; [reflexivity|assumption].
Qed.

Lemma deserialize_serialize e rest : valid_entity e ->
  deserialize_entity (serialize_entity e ++ rest) = Ok (e, rest).
Proof.
  intros Hv. apply valid_entity_spec in Hv. destruct e as [i g]; cbn [e_index e_gen] in *.
  rewrite pow32, pow31 in Hv.
  unfold deserialize_entity, serialize_entity, bind, vdec_u64, vdec_u32, venc_u64, venc_u32, try_from_parts.
  cbn [e_index e_gen]. rewrite <- app_assoc.
  rewrite (vdec_venc 10 1); [|lia|lia|].
  2:{ unfold vbits. change (7 * (N.of_nat 10 - 1) + 1) with 64. rewrite pow64. destruct (1 <? g); lia. }
  destruct (1 <? g) eqn:Eg.
  - replace ((2 * i + 1) mod 2 =? 1) with true by lia.
    replace ((2 * i + 1) / 2) with i by lia.
    destruct (2 ^ 32 <=? i) eqn:Ei; [rewrite pow32 in Ei; lia|].
    rewrite (vdec_venc 5 4); [|lia|lia|].
    2:{ unfold vbits. change (7 * (N.of_nat 5 - 1) + 4) with 32. rewrite pow32. lia. }
    replace (g - 1 + 1) with g by lia.
    destruct (2 ^ 32 <=? g) eqn:E32; [rewrite pow32 in E32; lia|].
    destruct ((g =? 0) || (2 ^ 31 <=? g)) eqn:Ev; [rewrite pow31 in Ev; lia|]. reflexivity.
  - replace ((2 * i + 0) mod 2 =? 1) with false by lia.
    replace ((2 * i + 0) / 2) with i by lia.
    destruct (2 ^ 32 <=? i) eqn:Ei; [rewrite pow32 in Ei; lia|].
    cbn [app]. assert (g = 1) as -> by lia. reflexivity.
Qed.

Lemma serialize_entity_bytes_ok e : bytes_ok (serialize_entity e).
Proof.
  unfold serialize_entity, bytes_ok. apply Forall_app; split; [apply venc_bytes_ok|].
  destruct (1 <? e_gen e); [apply venc_bytes_ok|constructor].
Qed.

Lemma serialize_entity_length e : (length (serialize_entity e) <= 15)%nat.
Proof.
  unfold serialize_entity. rewrite app_length.
  pose proof (venc_length 10 (2 * e_index e + (if 1 <? e_gen e then 1 else 0))).
  destruct (1 <? e_gen e); [pose proof (venc_length 5 (e_gen e - 1))|]; cbn [length]; unfold venc_u64, venc_u32; lia.
Qed.
