(* Payload codecs of the harness' client event types, instantiating the abstract payload codec of
   Wire.TriggerCodec: CE0(u32), CT(u32): one postcard varint; CEM(u32, Entity): a varint followed by
   the entity's bits as a varint u64 checked by Entity::try_from_bits (serde impl of Entity). *)
From RV Require Import Lib.Res Wire.Varint Wire.EntityCodec Wire.TriggerCodec.
Open Scope N_scope.

Definition pdec_u32 (bs : list N) : res (N * list N) := vdec_u32 bs.
Definition penc_u32 (v : N) : list N := venc_u32 v.

Definition pdec_cem (bs : list N) : res ((N * entity) * list N) :=
  let* (seq, r) := vdec_u32 bs in
  let* (bits, r') := vdec_u64 r in
  let* e := try_from_parts (bits mod 2 ^ 32) (bits / 2 ^ 32) in
  Ok ((seq, e), r').

(* what server logic observes for a message on each client channel: the last target (triggers are
   observed per target; the harness names one), the sequence number, the entity *)
Definition decode_ce0 (bs : list N) : res N := event_deserialize pdec_u32 bs.
Definition decode_cem (bs : list N) : res (N * entity) := event_deserialize pdec_cem bs.
Definition decode_ct (bs : list N) : res (list entity * N) * list N := trigger_deserialize pdec_u32 bs.
