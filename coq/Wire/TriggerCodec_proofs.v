From RV Require Import Lib.Res Wire.Varint Wire.Varint_proofs Wire.EntityCodec Wire.EntityCodec_proofs Wire.TriggerCodec.
From Coq Require Import ZifyBool ZifyN.
Open Scope N_scope.
Ltac Zify.zify_post_hook ::= Z.div_mod_to_equations.
Arguments N.add : simpl never. Arguments N.mul : simpl never. Arguments N.pow : simpl never.
Arguments N.ltb : simpl never. Arguments N.leb : simpl never. Arguments N.div : simpl never.
Arguments N.modulo : simpl never. Arguments N.sub : simpl never. Arguments N.eqb : simpl never.

(* ---------- the target loop ---------- *)

(* fuel above the number of remaining bytes is never exhausted *)
Lemma read_targets_total fuel len bs : (length bs < fuel)%nat -> read_targets fuel len bs <> Panic.
Proof.
  revert len bs; induction fuel as [|f IH]; intros len bs Hf; [lia|].
  cbn [read_targets]. destruct (len =? 0); [discriminate|].
  unfold bind. pose proof (deserialize_entity_total bs) as Ht.
  destruct (deserialize_entity bs) as [[e r]| |] eqn:Ed; [|discriminate|congruence].
  destruct (deserialize_entity_valid _ _ _ Ed) as (_ & used & -> & Hne).
  assert (length r < f)%nat as Hr.
  { rewrite app_length in Hf. destruct used; [congruence|cbn [length] in Hf; lia]. }
  specialize (IH (len - 1) r Hr).
  destruct (read_targets f (len - 1) r) as [[es r']| |]; [discriminate|discriminate|congruence].
Qed.

(* a successful run read exactly [len] valid entities, each from at least one byte *)
Lemma read_targets_ok fuel len bs es r : read_targets fuel len bs = Ok (es, r) ->
  N.of_nat (length es) = len /\ Forall valid_entity es /\
  exists used, bs = used ++ r /\ (length es <= length used)%nat.
Proof.
  revert len bs es r; induction fuel as [|f IH]; intros len bs es r; cbn [read_targets].
  - destruct (len =? 0) eqn:E0; [|discriminate]. intros H; injection H as <- <-.
    split; [cbn; lia|]. split; [constructor|]. exists []. split; [reflexivity|cbn; lia].
  - destruct (len =? 0) eqn:E0.
    + intros H; injection H as <- <-.
      split; [cbn; lia|]. split; [constructor|]. exists []. split; [reflexivity|cbn; lia].
    + unfold bind. destruct (deserialize_entity bs) as [[e r1]| |] eqn:Ed; try discriminate.
      destruct (read_targets f (len - 1) r1) as [[es1 r2]| |] eqn:Er; try discriminate.
      intros H; injection H as <- <-.
      destruct (deserialize_entity_valid _ _ _ Ed) as (Hv & u1 & -> & Hne).
      destruct (IH _ _ _ _ Er) as (Hl & Hvs & u2 & -> & Hlen).
      split; [cbn [length]; lia|]. split; [constructor; assumption|].
      exists (u1 ++ u2). split; [rewrite app_assoc; reflexivity|].
      rewrite app_length. destruct u1; [congruence|cbn [length]; lia].
Qed.

(* the result does not depend on the fuel once it exceeds the number of bytes *)
Lemma read_targets_fuel_irrelevant f1 f2 len bs : (length bs < f1)%nat -> (length bs < f2)%nat ->
  read_targets f1 len bs = read_targets f2 len bs.
Proof.
  revert f2 len bs; induction f1 as [|f1 IH]; intros f2 len bs H1 H2; [lia|].
  destruct f2 as [|f2]; [lia|]. cbn [read_targets]. destruct (len =? 0); [reflexivity|].
  unfold bind. destruct (deserialize_entity bs) as [[e r]| |] eqn:Ed; try reflexivity.
  destruct (deserialize_entity_valid _ _ _ Ed) as (_ & used & -> & Hne).
  rewrite app_length in H1, H2.
  rewrite (IH f2) by (destruct used; [congruence|cbn [length] in *; lia]). reflexivity.
Qed.

Lemma venc_nonempty n v : (1 <= length (venc (S n) v))%nat.
Proof. cbn [venc]. destruct (v <? 128); cbn [length]; lia. Qed.

Lemma serialize_entity_nonempty e : (1 <= length (serialize_entity e))%nat.
Proof.
  unfold serialize_entity, venc_u64. rewrite app_length.
  pose proof (venc_nonempty 9 (2 * e_index e + (if 1 <? e_gen e then 1 else 0))). lia.
Qed.

Lemma serialize_entities_length ts : (length ts <= length (concat (map serialize_entity ts)))%nat.
Proof.
  induction ts as [|e t IH]; cbn [map concat length]; [lia|].
  rewrite app_length. pose proof (serialize_entity_nonempty e). lia.
Qed.

Lemma read_targets_roundtrip fuel ts rest : Forall valid_entity ts -> (length ts <= fuel)%nat ->
  read_targets fuel (N.of_nat (length ts)) (concat (map serialize_entity ts) ++ rest) = Ok (ts, rest).
Proof.
  revert fuel; induction ts as [|e t IH]; intros fuel Hv Hf.
  - destruct fuel; reflexivity.
  - destruct fuel as [|f]; [cbn [length] in Hf; lia|].
    inversion Hv as [|? ? He Ht]; subst.
    cbn [read_targets]. destruct (N.of_nat (length (e :: t)) =? 0) eqn:E0; [cbn [length] in E0; lia|].
    cbn [map concat]. rewrite <- app_assoc. unfold bind.
    rewrite deserialize_serialize by exact He.
    replace (N.of_nat (length (e :: t)) - 1) with (N.of_nat (length t)) by (cbn [length]; lia).
    rewrite IH; [reflexivity|exact Ht|cbn [length] in Hf; lia].
Qed.

(* ---------- generic receive loop ---------- *)

Lemma receive_event_messages_spec {A} (dec : list N -> res A) msgs events :
  (forall b, dec b <> Panic) ->
  receive_event_messages dec msgs events = Ok (events ++ flat_map (delivered dec) msgs).
Proof.
  intros Ht. revert events; induction msgs as [|[client message] t IH]; intros events.
  - cbn. rewrite app_nil_r. reflexivity.
  - cbn [receive_event_messages flat_map]. unfold delivered at 1. cbn [fst snd].
    specialize (Ht message). destruct (dec message) as [ev| |]; [| |congruence].
    + rewrite IH, <- app_assoc. reflexivity.
    + rewrite IH. reflexivity.
Qed.

Lemma receive_event_messages_app {A} (dec : list N -> res A) m1 m2 events :
  receive_event_messages dec (m1 ++ m2) events =
  (let* ev1 := receive_event_messages dec m1 events in receive_event_messages dec m2 ev1).
Proof.
  revert events; induction m1 as [|[client message] t IH]; intros events; [reflexivity|].
  cbn [app receive_event_messages]. destruct (dec message); [apply IH|apply IH|reflexivity].
Qed.

(* a message that fails to decode is as if it had never been sent *)
Lemma receive_event_messages_drop {A} (dec : list N -> res A) pre m post events :
  dec (snd m) = Err ->
  receive_event_messages dec (pre ++ m :: post) events = receive_event_messages dec (pre ++ post) events.
Proof.
  intros He. rewrite !receive_event_messages_app. destruct m as [client message]. cbn [snd] in He.
  cbn [receive_event_messages]. rewrite He. reflexivity.
Qed.

(* ---------- triggers and plain events over an abstract payload codec ---------- *)

Section Decode.
  Context {E : Type}.
  Variable pdec : list N -> res (E * list N).
  (* every allocation request is bounded by the length of the message (in elements, 8 bytes each) *)
  Lemma trigger_alloc_bounded bytes :
    Forall (fun n => n <= N.of_nat (length bytes)) (snd (trigger_deserialize pdec bytes)).
  Proof.
    unfold trigger_deserialize, vdec_u64.
    destruct (vdec 10 1 bytes) as [[len r]| |] eqn:Ev; cbn [snd]; try constructor; [|constructor].
    destruct (vdec_suffix _ _ _ _ _ Ev) as (used & -> & _). rewrite app_length. lia.
  Qed.

  (* ... and the reserved capacity is never outgrown: `push` does not reallocate *)
  Lemma trigger_no_realloc bytes ts ev : fst (trigger_deserialize pdec bytes) = Ok (ts, ev) ->
    exists capacity, snd (trigger_deserialize pdec bytes) = [capacity] /\ N.of_nat (length ts) <= capacity.
  Proof.
    unfold trigger_deserialize, vdec_u64.
    destruct (vdec 10 1 bytes) as [[len r]| |]; cbn [fst snd]; try discriminate.
    unfold bind. destruct (read_targets (S (length r)) len r) as [[ts1 r']| |] eqn:Er; try discriminate.
    destruct (pdec r') as [[ev1 r2]| |]; try discriminate.
    intros H; injection H as <- <-. eexists; split; [reflexivity|].
    destruct (read_targets_ok _ _ _ _ _ Er) as (Hl & _ & used & -> & Hu). rewrite app_length. lia.
  Qed.

  Lemma trigger_targets_valid bytes ts ev : fst (trigger_deserialize pdec bytes) = Ok (ts, ev) ->
    Forall valid_entity ts /\ (length ts <= length bytes)%nat.
  Proof.
    unfold trigger_deserialize, vdec_u64.
    destruct (vdec 10 1 bytes) as [[len r]| |] eqn:Ev; cbn [fst]; try discriminate.
    unfold bind. destruct (read_targets (S (length r)) len r) as [[ts1 r']| |] eqn:Er; try discriminate.
    destruct (pdec r') as [[ev1 r2]| |]; try discriminate.
    intros H; injection H as <- <-.
    destruct (read_targets_ok _ _ _ _ _ Er) as (_ & Hv & used & -> & Hu).
    destruct (vdec_suffix _ _ _ _ _ Ev) as (u0 & -> & _). split; [exact Hv|]. rewrite !app_length. lia.
  Qed.

  Hypothesis pdec_total : forall b, pdec b <> Panic.

  Lemma trigger_deserialize_total bytes : fst (trigger_deserialize pdec bytes) <> Panic.
  Proof.
    unfold trigger_deserialize, vdec_u64. pose proof (vdec_never_panics 10 1 bytes) as Hv.
    destruct (vdec 10 1 bytes) as [[len r]| |]; cbn [fst]; [|discriminate|congruence].
    unfold bind. pose proof (read_targets_total (S (length r)) len r (Nat.lt_succ_diag_r _)) as Hr.
    destruct (read_targets (S (length r)) len r) as [[ts r']| |]; [|discriminate|congruence].
    pose proof (pdec_total r') as Hp. destruct (pdec r') as [[ev r2]| |]; [discriminate|discriminate|congruence].
  Qed.

  Lemma event_deserialize_total bytes : event_deserialize pdec bytes <> Panic.
  Proof.
    unfold event_deserialize, bind. pose proof (pdec_total bytes) as Hp.
    destruct (pdec bytes) as [[ev r]| |]; [discriminate|discriminate|congruence].
  Qed.

End Decode.

Section Roundtrip.
  Context {E : Type}.
  Variable penc : E -> list N.
  Variable pdec : list N -> res (E * list N).
  Hypothesis pdec_penc : forall v r, pdec (penc v ++ r) = Ok (v, r).

  Lemma trigger_roundtrip ts ev rest : Forall valid_entity ts -> N.of_nat (length ts) < 2 ^ 64 ->
    fst (trigger_deserialize pdec (trigger_serialize penc ts ev ++ rest)) = Ok (ts, ev).
  Proof.
    intros Hv Hlen. unfold trigger_deserialize, trigger_serialize, vdec_u64, venc_u64.
    rewrite <- !app_assoc. rewrite (vdec_venc 10 1); [|lia|lia|].
    2:{ unfold vbits. change (7 * (N.of_nat 10 - 1) + 1) with 64. exact Hlen. }
    cbn [fst]. rewrite read_targets_roundtrip; [|exact Hv|].
    2:{ rewrite app_length. pose proof (serialize_entities_length ts). lia. }
    unfold bind. rewrite pdec_penc. reflexivity.
  Qed.

  (* the capacity requested for a well formed message is exactly the number of targets *)
  Lemma trigger_roundtrip_alloc ts ev rest : N.of_nat (length ts) < 2 ^ 64 ->
    snd (trigger_deserialize pdec (trigger_serialize penc ts ev ++ rest)) = [N.of_nat (length ts)].
  Proof.
    intros Hlen. unfold trigger_deserialize, trigger_serialize, vdec_u64, venc_u64.
    rewrite <- !app_assoc. rewrite (vdec_venc 10 1); [|lia|lia|].
    2:{ unfold vbits. change (7 * (N.of_nat 10 - 1) + 1) with 64. exact Hlen. }
    cbn [snd]. f_equal. rewrite app_length. pose proof (serialize_entities_length ts). lia.
  Qed.

  Lemma event_roundtrip ev rest : event_deserialize pdec (event_serialize penc ev ++ rest) = Ok ev.
  Proof. unfold event_deserialize, event_serialize, bind. rewrite pdec_penc. reflexivity. Qed.
End Roundtrip.

(* ---------- batches ---------- *)

Lemma receive_trigger_messages_isolation {E} (pdec : list N -> res (E * list N)) :
  (forall b, pdec b <> Panic) -> forall msgs events,
  receive_trigger_messages pdec msgs events =
  Ok (events ++ flat_map (delivered (fun b => fst (trigger_deserialize pdec b))) msgs).
Proof.
  intros Ht msgs events. unfold receive_trigger_messages. apply receive_event_messages_spec.
  intros b. apply trigger_deserialize_total. exact Ht.
Qed.

Lemma receive_plain_messages_isolation {E} (pdec : list N -> res (E * list N)) :
  (forall b, pdec b <> Panic) -> forall msgs events,
  receive_plain_messages pdec msgs events =
  Ok (events ++ flat_map (delivered (event_deserialize pdec)) msgs).
Proof.
  intros Ht msgs events. unfold receive_plain_messages. apply receive_event_messages_spec.
  intros b. apply event_deserialize_total. exact Ht.
Qed.

Lemma receive_trigger_messages_drop {E} (pdec : list N -> res (E * list N)) pre m post events :
  fst (trigger_deserialize pdec (snd m)) = Err ->
  receive_trigger_messages pdec (pre ++ m :: post) events = receive_trigger_messages pdec (pre ++ post) events.
Proof. intros H. unfold receive_trigger_messages. apply receive_event_messages_drop. exact H. Qed.

(* the one byte payload codec satisfies the section hypotheses *)
Lemma byte_pdec_total b : byte_pdec b <> Panic.
Proof. destruct b; discriminate. Qed.
Lemma byte_pdec_penc v r : byte_pdec (byte_penc v ++ r) = Ok (v, r).
Proof. reflexivity. Qed.
