(* src/shared/entity_serde.rs: serialize_entity / deserialize_entity, with Bevy 0.16
   Entity validity (index < 2^32, 1 <= generation < 2^31; the top bit of the high
   word is the identifier kind and must be clear, Entity::try_from_bits). *)
From RV Require Import Lib.Res Wire.Varint.
Open Scope N_scope.

Record entity := mkEnt { e_index : N; e_gen : N }.

Definition valid_entityb (e : entity) : bool :=
  (e_index e <? 2 ^ 32) && (1 <=? e_gen e) && (e_gen e <? 2 ^ 31).
Definition valid_entity (e : entity) : Prop := valid_entityb e = true.

Definition serialize_entity (e : entity) : list N :=
  let flag := 1 <? e_gen e in
  let flagged_index := 2 * e_index e + (if flag then 1 else 0) in
  venc_u64 flagged_index ++ (if flag then venc_u32 (e_gen e - 1) else []).

(* Entity::try_from_bits on (generation << 32) | index, index already < 2^32. *)
Definition try_from_parts (index generation : N) : res entity :=
  if (generation =? 0) || (2 ^ 31 <=? generation) then Err else Ok (mkEnt index generation).

Definition deserialize_entity (bs : list N) : res (entity * list N) :=
  let* (flagged_index, r) := vdec_u64 bs in
  let has_generation := flagged_index mod 2 =? 1 in
  let index := flagged_index / 2 in
  if 2 ^ 32 <=? index then Err                       (* u32::try_from *)
  else if has_generation then
    let* (g, r') := vdec_u32 r in
    if 2 ^ 32 <=? g + 1 then Err                     (* checked_add *)
    else let* e := try_from_parts index (g + 1) in Ok (e, r')
  else let* e := try_from_parts index 1 in Ok (e, r).
