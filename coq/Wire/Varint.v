(* postcard 1.1.3 varints (src/varint.rs, src/de/deserializer.rs try_take_varint_uN)
   and the fixed little-endian u16 used for the mutate index.
   The decoder is written arithmetically (b mod 128, b / 128); the Rust loop uses
   masks and shifts -- the correspondence check ties the two. *)
From RV Require Import Lib.Res.
Open Scope N_scope.

(* [n] = bytes still allowed (varint_max), [k] = number of payload bits allowed in the
   last byte (max_of_last_byte = 2^k - 1). *)
Fixpoint vdec (n : nat) (k : N) (bs : list N) : res (N * list N) :=
  match n with
  | O => Err                                    (* DeserializeBadVarint *)
  | S n' =>
    match bs with
    | [] => Err                                 (* DeserializeUnexpectedEnd *)
    | b :: r =>
      if b <? 128 then
        (match n' with
         | O => if 2 ^ k <=? b then Err else Ok (b, r)
         | S _ => Ok (b, r)
         end)
      else
        match vdec n' k r with
        | Ok (v, r') => Ok (b - 128 + 128 * v, r')
        | Err => Err
        | Panic => Panic
        end
    end
  end.

Fixpoint venc (n : nat) (v : N) : list N :=
  match n with
  | O => []
  | S n' => if v <? 128 then [v] else (v mod 128 + 128) :: venc n' (v / 128)
  end.

Definition vdec_u16 := vdec 3 2.
Definition vdec_u32 := vdec 5 4.
Definition vdec_u64 := vdec 10 1.
Definition venc_u16 := venc 3.
Definition venc_u32 := venc 5.
Definition venc_u64 := venc 10.

(* bits representable with n bytes and k bits in the last one *)
Definition vbits (n : nat) (k : N) : N := 7 * (N.of_nat n - 1) + k.

(* postcard fixint::le for u16: serde reads a 2-tuple of u8, one pop per byte.
   On failure the bytes already popped stay consumed, so the remaining buffer is
   returned in both cases (the ack loop continues after an error). *)
Definition fix16_dec (bs : list N) : res N * list N :=
  match bs with
  | [] => (Err, [])
  | [b0] => (Err, [])
  | b0 :: b1 :: r => (Ok (b0 + 256 * b1), r)
  end.
Definition fix16_enc (v : N) : list N := [v mod 256; (v / 256) mod 256].
