From RV Require Import Lib.Res Wire.Varint Wire.Varint_proofs Repl.ClientTicks Repl.ClientTicks_proofs Wire.AckCodec.
From Coq Require Import ZifyBool ZifyN.
Open Scope N_scope.
Ltac Zify.zify_post_hook ::= Z.div_mod_to_equations.
Arguments N.add : simpl never. Arguments N.mul : simpl never. Arguments N.pow : simpl never.
Arguments N.ltb : simpl never. Arguments N.leb : simpl never. Arguments N.div : simpl never.
Arguments N.modulo : simpl never. Arguments N.sub : simpl never. Arguments N.eqb : simpl never.

(* ---------- progress / termination of the `while message.has_remaining()` loop ---------- *)

(* one iteration on a non-empty buffer leaves a strictly shorter buffer, whether the read
   succeeds or fails (a failing read with one byte left has consumed it) *)
Lemma ack_iteration_progress bs : bs <> [] -> (length (snd (fix16_dec bs)) < length bs)%nat.
Proof. exact (fix16_consumes bs). Qed.

Lemma fix16_dec_never_panics bs : fst (fix16_dec bs) <> Panic.
Proof. destruct bs as [|a [|b r]]; cbn; discriminate. Qed.

(* With fuel >= the number of bytes the loop never hits the out-of-fuel branch, and it computes
   exactly "acknowledge every complete little endian pair, in order". *)
Lemma ack_loop_fuel fuel ct this_run bs : (length bs <= fuel)%nat ->
  ack_loop fuel ct this_run bs = Ok (ack_all ct this_run (ack_indices bs)).
Proof.
  revert ct bs; induction fuel as [|f IH]; intros ct bs Hlen.
  - destruct bs; [reflexivity|cbn in Hlen; lia].
  - destruct bs as [|b0 [|b1 r]].
    + reflexivity.
    + cbn [ack_loop fix16_dec ack_indices]. destruct f; reflexivity.
    + cbn [ack_loop fix16_dec ack_indices]. rewrite IH by (cbn [length] in Hlen; lia). reflexivity.
Qed.

(* the amount of fuel is irrelevant once it covers the message *)
Lemma ack_loop_fuel_irrelevant fuel ct this_run bs : (length bs <= fuel)%nat ->
  ack_loop fuel ct this_run bs = ack_loop (length bs) ct this_run bs.
Proof. intros H. rewrite !ack_loop_fuel by lia. reflexivity. Qed.

(* number of iterations that acknowledge something *)
Lemma ack_indices_length bs : (2 * length (ack_indices bs) <= length bs)%nat.
Proof.
  assert (forall n bs, (length bs <= n)%nat -> (2 * length (ack_indices bs) <= length bs)%nat) as H.
  { induction n as [|n IH]; intros l Hl; destruct l as [|a [|b r]]; cbn [ack_indices length] in *; try lia.
    specialize (IH r). lia. }
  exact (H _ _ (le_n _)).
Qed.

Lemma ack_indices_u16 bs : bytes_ok bs -> Forall (fun i => i < 2 ^ 16) (ack_indices bs).
Proof.
  assert (forall n bs, (length bs <= n)%nat -> bytes_ok bs -> Forall (fun i => i < 2 ^ 16) (ack_indices bs)) as H.
  { induction n as [|n IH]; intros l Hl Hb; destruct l as [|a [|b r]]; cbn [ack_indices length] in *; try constructor; try lia.
    - inversion Hb as [|? ? Ha Hb']; subst. inversion Hb' as [|? ? Hb1 Hr]; subst.
      unfold byte_ok in *. change (2 ^ 16) with 65536. lia.
    - apply IH; [lia|]. inversion Hb as [|? ? Ha Hb']; subst. inversion Hb'; subst. assumption. }
  intros Hb. exact (H _ _ (le_n _) Hb).
Qed.

(* ---------- a whole message ---------- *)

Lemma receive_acks_message_spec ct this_run bytes :
  receive_acks_message ct this_run bytes =
  Ok (option_map (fun c => ack_all c this_run (ack_indices bytes)) ct).
Proof.
  unfold receive_acks_message. destruct ct as [c|]; [|reflexivity].
  rewrite ack_loop_fuel by lia. reflexivity.
Qed.

Lemma receive_acks_total ct this_run bytes : receive_acks_message ct this_run bytes <> Panic.
Proof. rewrite receive_acks_message_spec. discriminate. Qed.

Lemma receive_acks_unauthorized this_run bytes : receive_acks_message None this_run bytes = Ok None.
Proof. reflexivity. Qed.

Lemma receive_acks_short ct this_run bytes : (length bytes < 2)%nat ->
  receive_acks_message ct this_run bytes = Ok ct.
Proof.
  intros H. rewrite receive_acks_message_spec. destruct bytes as [|a [|b r]]; cbn [length] in H; try lia;
  destruct ct; reflexivity.
Qed.

(* ---------- effect of a sequence of acknowledgements ---------- *)

Lemma ack_all_cons ct this_run i idxs :
  ack_all ct this_run (i :: idxs) = ack_all (ack_mutate_message ct this_run i) this_run idxs.
Proof. reflexivity. Qed.

(* indices that are not in flight change nothing *)
Lemma ack_all_unknown_identity ct this_run idxs :
  Forall (fun i => al_get i (ct_mutations ct) = None) idxs -> ack_all ct this_run idxs = ct.
Proof.
  induction idxs as [|i t IH]; intros H; [reflexivity|].
  inversion H as [|? ? Hi Ht]; subst. rewrite ack_all_cons, ack_unknown_identity by exact Hi. exact (IH Ht).
Qed.

Lemma ack_all_frame ct this_run idxs :
  let ct' := ack_all ct this_run idxs in
  ct_update_tick ct' = ct_update_tick ct /\
  ct_mutate_index ct' = ct_mutate_index ct /\
  al_keys (ct_mutation_ticks ct') = al_keys (ct_mutation_ticks ct) /\
  (forall i, al_get i (ct_mutations ct') = if existsb (N.eqb i) idxs then None else al_get i (ct_mutations ct)).
Proof.
  revert ct; induction idxs as [|j t IH]; intros ct.
  - cbn. auto.
  - rewrite ack_all_cons. destruct (IH (ack_mutate_message ct this_run j)) as (E1 & E2 & E3 & E4).
    destruct (ack_frame ct this_run j) as (F1 & F2 & F3 & F4).
    cbv zeta. rewrite E1, E2, E3, F1, F2, F3. repeat split; auto.
    intros i. rewrite E4. cbn [existsb]. destruct (i =? j) eqn:E; cbn [orb].
    + assert (i = j) by lia; subst. rewrite ack_entry_removed. destruct (existsb _ t); reflexivity.
    + rewrite ack_other_entries by lia. reflexivity.
Qed.

Lemma ack_all_monotone ct this_run idxs e :
  match mutation_tick ct e with
  | None => mutation_tick (ack_all ct this_run idxs) e = None
  | Some t => exists t', mutation_tick (ack_all ct this_run idxs) e = Some t' /\
                         tick_age this_run t' <= tick_age this_run t /\
                         tick_is_newer_than t t' this_run = false
  end.
Proof.
  revert ct; induction idxs as [|j l IH]; intros ct.
  - cbn [ack_all fold_left]. destruct (mutation_tick ct e) as [t|]; [|reflexivity].
    exists t. split; [reflexivity|]. split; [lia|apply tick_is_newer_than_irrefl].
  - rewrite ack_all_cons. pose proof (ack_monotone ct this_run j e) as H1.
    specialize (IH (ack_mutate_message ct this_run j)).
    destruct (mutation_tick ct e) as [t|].
    + destruct H1 as (t1 & E1 & A1 & _). rewrite E1 in IH. destruct IH as (t2 & E2 & A2 & _).
      exists t2. split; [exact E2|]. split; [lia|]. unfold tick_is_newer_than. lia.
    + rewrite H1 in IH. exact IH.
Qed.

Lemma ack_all_wf ct this_run idxs : ct_wf ct -> ct_wf (ack_all ct this_run idxs).
Proof.
  revert ct; induction idxs as [|j l IH]; intros ct H; [exact H|].
  rewrite ack_all_cons. apply IH, ack_wf, H.
Qed.

(* Message level summary for a client that has ClientTicks. *)
Lemma receive_acks_message_effect c this_run bytes :
  exists c', receive_acks_message (Some c) this_run bytes = Ok (Some c') /\
    ct_update_tick c' = ct_update_tick c /\
    ct_mutate_index c' = ct_mutate_index c /\
    al_keys (ct_mutation_ticks c') = al_keys (ct_mutation_ticks c) /\
    (forall i, al_get i (ct_mutations c') = None \/ al_get i (ct_mutations c') = al_get i (ct_mutations c)) /\
    (forall e, match mutation_tick c e with
               | None => mutation_tick c' e = None
               | Some t => exists t', mutation_tick c' e = Some t' /\ tick_age this_run t' <= tick_age this_run t
               end) /\
    (ct_wf c -> ct_wf c').
Proof.
  exists (ack_all c this_run (ack_indices bytes)). rewrite receive_acks_message_spec. cbn [option_map].
  destruct (ack_all_frame c this_run (ack_indices bytes)) as (E1 & E2 & E3 & E4).
  split; [reflexivity|]. split; [exact E1|]. split; [exact E2|]. split; [exact E3|]. split; [|split].
  - intros i. rewrite E4. destruct (existsb _ _); auto.
  - intros e. pose proof (ack_all_monotone c this_run (ack_indices bytes) e) as H.
    destruct (mutation_tick c e); [|exact H]. destruct H as (t' & Ht & Ha & _). exists t'. auto.
  - apply ack_all_wf.
Qed.

(* a message whose indices are all unknown (not in flight) changes nothing at all *)
Lemma receive_acks_unknown_identity c this_run bytes :
  Forall (fun i => al_get i (ct_mutations c) = None) (ack_indices bytes) ->
  receive_acks_message (Some c) this_run bytes = Ok (Some c).
Proof. intros H. rewrite receive_acks_message_spec. cbn [option_map]. rewrite ack_all_unknown_identity by exact H. reflexivity. Qed.

(* ---------- the system over all messages of a frame ---------- *)

Lemma receive_acks_isolated clients this_run msgs :
  exists clients', receive_acks clients this_run msgs = Ok clients' /\
    al_keys clients' = al_keys clients /\
    (forall c, ~ In c (map fst msgs) -> al_get c clients' = al_get c clients).
Proof.
  revert clients; induction msgs as [|[client message] t IH]; intros clients.
  - exists clients. cbn. auto.
  - cbn [receive_acks]. rewrite receive_acks_message_spec.
    destruct (al_get client clients) as [c0|] eqn:Eg; cbn [option_map].
    + destruct (IH (al_insert client (ack_all c0 this_run (ack_indices message)) clients)) as (cl' & E & K & O).
      exists cl'. split; [exact E|]. split.
      * rewrite K. eapply al_keys_insert_present. exact Eg.
      * intros c Hc. cbn [map fst In] in Hc. rewrite O by tauto. apply al_get_insert_other. intros ->. tauto.
    + destruct (IH clients) as (cl' & E & K & O). exists cl'. split; [exact E|]. split; [exact K|].
      intros c Hc. cbn [map fst In] in Hc. apply O. tauto.
Qed.

Lemma receive_acks_system_total clients this_run msgs : receive_acks clients this_run msgs <> Panic.
Proof. destruct (receive_acks_isolated clients this_run msgs) as (cl' & -> & _). discriminate. Qed.
