From RV Require Import Lib.Res Wire.Varint.
From Coq Require Import ZifyBool ZifyN.
Open Scope N_scope.
Ltac Zify.zify_post_hook ::= Z.div_mod_to_equations.
Arguments N.add : simpl never. Arguments N.mul : simpl never. Arguments N.pow : simpl never.
Arguments N.ltb : simpl never. Arguments N.leb : simpl never. Arguments N.div : simpl never.
Arguments N.modulo : simpl never. Arguments N.sub : simpl never.

Lemma vdec_never_panics n k bs : vdec n k bs <> Panic.
Proof.
  revert bs; induction n as [|n IH]; intros bs; cbn [vdec]; [discriminate|].
  destruct bs as [|b r]; [discriminate|].
  destruct (b <? 128).
  - destruct n; [destruct (2 ^ k <=? b)|]; discriminate.
  - specialize (IH r). destruct (vdec n k r) as [[v r']| |]; try discriminate. congruence.
Qed.

(* decoding consumes a prefix *)
Lemma vdec_suffix n k bs v r : vdec n k bs = Ok (v, r) -> exists used, bs = used ++ r /\ used <> [].
Proof.
  revert bs v r; induction n as [|n IH]; intros bs v r; cbn [vdec]; [discriminate|].
  destruct bs as [|b t]; [discriminate|].
  destruct (b <? 128).
  - intros H. assert (Ok (b, t) = Ok (v, r)) as E by (destruct n; [destruct (2 ^ k <=? b); [discriminate|]|]; exact H).
    injection E as Hv Hr; subst v r. exists [b]; split; [reflexivity|discriminate].
  - destruct (vdec n k t) as [[v' r']| |] eqn:E; try discriminate.
    intros H; inversion H; subst. destruct (IH _ _ _ E) as [u [-> _]].
    exists (b :: u); split; [reflexivity|discriminate].
Qed.

Lemma vdec_bound n k bs v r : 0 < k <= 7 -> bytes_ok bs -> vdec n k bs = Ok (v, r) -> v < 2 ^ vbits n k.
Proof.
  intros Hk. revert bs v r; induction n as [|n IH]; intros bs v r Hb; cbn [vdec]; [discriminate|].
  destruct bs as [|b t]; [discriminate|].
  inversion Hb as [|? ? Hb0 Hbt]; subst. unfold byte_ok in Hb0.
  destruct (b <? 128) eqn:Eb.
  - destruct n as [|n].
    + destruct (2 ^ k <=? b) eqn:E2; [discriminate|]. intros H; inversion H; subst.
      unfold vbits. replace (7 * (N.of_nat 1 - 1) + k) with k by lia. lia.
    + intros H; inversion H; subst. unfold vbits.
      replace (7 * (N.of_nat (S (S n)) - 1) + k) with (7 + (7 * N.of_nat n + k)) by lia.
      rewrite N.pow_add_r. assert (1 <= 2 ^ (7 * N.of_nat n + k)) by (apply N.lt_pred_le, N.neq_0_lt_0, N.pow_nonzero; lia).
      change (2^7) with 128. nia.
  - destruct (vdec n k t) as [[v' r']| |] eqn:E; try discriminate.
    intros H; inversion H; subst. specialize (IH _ _ _ Hbt E).
    destruct n as [|n]; [cbn in E; discriminate|].
    unfold vbits in *.
    replace (7 * (N.of_nat (S (S n)) - 1) + k) with (7 + (7 * (N.of_nat (S n) - 1) + k)) by lia.
    rewrite N.pow_add_r. change (2^7) with 128. lia.
Qed.

Lemma venc_bytes_ok n v : bytes_ok (venc n v).
Proof.
  revert v; induction n as [|n IH]; intros v; cbn [venc]; [constructor|].
  destruct (v <? 128) eqn:E.
  - constructor; [unfold byte_ok; lia|constructor].
  - constructor; [unfold byte_ok; lia|apply IH].
Qed.

Lemma venc_length n v : (length (venc n v) <= n)%nat.
Proof.
  revert v; induction n as [|n IH]; intros v; cbn [venc]; [cbn; lia|].
  destruct (v <? 128); cbn [length]; [lia|]. specialize (IH (v / 128)). lia.
Qed.

(* Round trip: any value below 2^(bits) survives, whatever follows in the buffer. *)
Lemma vdec_venc n k v rest : 0 < k <= 7 -> (0 < n)%nat -> v < 2 ^ vbits n k ->
  vdec n k (venc n v ++ rest) = Ok (v, rest).
Proof.
  intros Hk. revert v; induction n as [|n IH]; intros v Hn Hv; [lia|].
  cbn [venc]. destruct (v <? 128) eqn:E.
  - cbn [app vdec]. rewrite E. destruct n as [|n]; [|reflexivity].
    unfold vbits in Hv. replace (7 * (N.of_nat 1 - 1) + k) with k in Hv by lia.
    destruct (2 ^ k <=? v) eqn:E2; [lia|reflexivity].
  - cbn [app vdec]. destruct (v mod 128 + 128 <? 128) eqn:E3; [lia|].
    destruct n as [|n].
    + unfold vbits in Hv. replace (7 * (N.of_nat 1 - 1) + k) with k in Hv by lia.
      assert (2 ^ k <= 2 ^ 7) by (apply N.pow_le_mono_r; lia). change (2^7) with 128 in *. lia.
    + rewrite IH; [|lia|].
      * f_equal. f_equal. lia.
      * unfold vbits in *.
        replace (7 * (N.of_nat (S (S n)) - 1) + k) with (7 + (7 * (N.of_nat (S n) - 1) + k)) in Hv by lia.
        rewrite N.pow_add_r in Hv. change (2^7) with 128 in Hv. lia.
Qed.

Lemma fix16_roundtrip v rest : v < 65536 -> fix16_dec (fix16_enc v ++ rest) = (Ok v, rest).
Proof. intros H. unfold fix16_enc, fix16_dec. cbn [app]. f_equal. f_equal. lia. Qed.

Lemma fix16_consumes bs : bs <> [] -> (length (snd (fix16_dec bs)) < length bs)%nat.
Proof. destruct bs as [|a [|b r]]; cbn; intros; try congruence; lia. Qed.
