(* Server side decoding of client events and client triggers:
     src/shared/event/client_trigger.rs  trigger_serialize / trigger_deserialize
     src/shared/event/client_event.rs    default_serialize(_mapped) / default_deserialize / receive_typed
     src/shared/event/ctx.rs             ServerReceiveCtx

   `ServerReceiveCtx` holds only the type registry: it is NOT an `EntityMapper`, the server
   never maps entities received from a client.  Mapping (client entity -> server entity) is done
   by the client before sending (`ClientSendCtx::get_mapped` in `trigger_serialize`,
   `default_serialize_mapped` for payloads); `add_mapped_client_event/trigger` register the very
   same `default_deserialize` on the server side as the unmapped variants.  Hence the model of
   the server side depends only on the payload codec, and [trigger_serialize] takes the
   already mapped target list.

   The payload codec of the user's event type [E] (serde + postcard on the user type, or the
   user supplied functions of `add_client_event_with`) is abstract: [penc] / [pdec].
   [pdec] returns the unread rest of the message; `receive_typed` drops it (trailing bytes are
   ignored).

   Allocation: the only allocation the replicon code itself requests while decoding is
   `Vec::with_capacity(len.min(message.len()))` (elements of 8 bytes); it is reported in the
   second component of [trigger_deserialize].  `usize` is 64 bits (postcard reads a u64 varint). *)
From RV Require Import Lib.Res Wire.Varint Wire.EntityCodec.
Open Scope N_scope.

(* `for _ in 0..len { targets.push(deserialize_entity(message)?) }`.
   [len] comes from the wire and may be 2^64 - 1, so the loop is not unrolled on [len]:
   every successful iteration consumes at least one byte, fuel [S (length bs)] is enough
   (TriggerCodec_proofs.read_targets_fuel); out of fuel = a loop that does not end = [Panic]. *)
Fixpoint read_targets (fuel : nat) (len : N) (bs : list N) : res (list entity * list N) :=
  if len =? 0 then Ok ([], bs)
  else match fuel with
       | O => Panic                                            (* unreachable *)
       | S fuel' =>
         let* (e, r) := deserialize_entity bs in
         let* (es, r') := read_targets fuel' (len - 1) r in
         Ok (e :: es, r')
       end.

Section Payload.
  Context {E : Type}.
  Variable penc : E -> list N.
  Variable pdec : list N -> res (E * list N).

  (* client side; [targets] are already mapped to server entities *)
  Definition trigger_serialize (targets : list entity) (ev : E) : list N :=
    venc_u64 (N.of_nat (length targets)) ++ concat (map serialize_entity targets) ++ penc ev.

  (* result, allocation requests (in elements) *)
  Definition trigger_deserialize (bytes : list N) : res (list entity * E) * list N :=
    match vdec_u64 bytes with                                  (* let len: usize = from_buf(message)? *)
    | Ok (len, r) =>
      let capacity := N.min len (N.of_nat (length r)) in       (* len.min(message.len()) *)
      (let* (targets, r') := read_targets (S (length r)) len r in
       let* (ev, _) := pdec r' in                              (* (deserialize)(ctx, message)? *)
       Ok (targets, ev),
       [capacity])
    | Err => (Err, [])
    | Panic => (Panic, [])
    end.

  (* plain client event: default outer function, `default_deserialize` *)
  Definition event_serialize (ev : E) : list N := penc ev.
  Definition event_deserialize (bytes : list N) : res E :=
    let* (ev, _) := pdec bytes in Ok ev.
End Payload.

(* `ClientEvent::receive_typed`: [events] is `Events<FromClient<E>>` (sender, event),
   [msgs] what `server.receive(channel)` yields, in order. *)
Fixpoint receive_event_messages {A : Type} (dec : list N -> res A)
         (msgs : list (N * list N)) (events : list (N * A)) : res (list (N * A)) :=
  match msgs with
  | [] => Ok events
  | (client, message) :: t =>
    match dec message with
    | Ok ev => receive_event_messages dec t (events ++ [(client, ev)])    (* client_events.send *)
    | Err => receive_event_messages dec t events                         (* "ignoring event ..." *)
    | Panic => Panic
    end
  end.

(* what one message contributes *)
Definition delivered {A : Type} (dec : list N -> res A) (m : N * list N) : list (N * A) :=
  match dec (snd m) with Ok ev => [(fst m, ev)] | _ => [] end.

Definition receive_trigger_messages {E : Type} (pdec : list N -> res (E * list N)) :=
  receive_event_messages (fun b => fst (trigger_deserialize pdec b)).
Definition receive_plain_messages {E : Type} (pdec : list N -> res (E * list N)) :=
  receive_event_messages (event_deserialize pdec).

(* A trivial payload codec (one byte), used for tests and non-vacuity examples. *)
Definition byte_penc (v : N) : list N := [v].
Definition byte_pdec (bs : list N) : res (N * list N) :=
  match bs with [] => Err | b :: r => Ok (b, r) end.
