(* src/server.rs `receive_acks`: the server side of ClientChannel::MutationAcks.
   A message is a sequence of `MutateIndex` values (postcard `fixint::le` u16, 2 bytes each,
   see [fix16_dec]).  The Rust loop is

     let Ok(mut ticks) = clients.get_mut(client) else { continue };   // no ClientTicks: ignored
     while message.has_remaining() {
         match from_buf(&mut message) { Ok(i) => ticks.ack_mutate_message(.., this_run, i), Err(_) => log }
     }

   A failing read with one byte left has popped that byte, so every iteration consumes at
   least one byte: the fuel [length bytes] is never exhausted (AckCodec_proofs.ack_loop_fuel).
   Running out of fuel would be a server that spins forever on one message; it is reported
   as [Panic] so that the totality theorem excludes it as well. *)
From RV Require Import Lib.Res Wire.Varint Repl.ClientTicks.
Open Scope N_scope.

Fixpoint ack_loop (fuel : nat) (ct : client_ticks) (this_run : N) (bs : list N) : res client_ticks :=
  match bs with
  | [] => Ok ct                                   (* !message.has_remaining() *)
  | _ :: _ =>
    match fuel with
    | O => Panic                                  (* no progress: unreachable *)
    | S fuel' =>
      match fix16_dec bs with
      | (Ok mutate_index, r) => ack_loop fuel' (ack_mutate_message ct this_run mutate_index) this_run r
      | (Err, r) => ack_loop fuel' ct this_run r  (* "unable to deserialize mutate index" *)
      | (Panic, _) => Panic
      end
    end
  end.

(* [ct = None]: the sender has no `ClientTicks` component (not authorized). *)
Definition receive_acks_message (ct : option client_ticks) (this_run : N) (bytes : list N)
  : res (option client_ticks) :=
  match ct with
  | None => Ok None                               (* "ignoring acknowledgements from unauthorized client" *)
  | Some c => let* c' := ack_loop (length bytes) c this_run bytes in Ok (Some c')
  end.

(* The whole system: `for (client, message) in server.receive(MutationAcks)`.
   [clients] maps a client entity to its `ClientTicks` (only clients that have one). *)
Fixpoint receive_acks (clients : list (N * client_ticks)) (this_run : N) (msgs : list (N * list N))
  : res (list (N * client_ticks)) :=
  match msgs with
  | [] => Ok clients
  | (client, message) :: t =>
    match receive_acks_message (al_get client clients) this_run message with
    | Ok (Some c') => receive_acks (al_insert client c' clients) this_run t
    | Ok None => receive_acks clients this_run t
    | Err => Err
    | Panic => Panic
    end
  end.

(* Specification side: the indices a message acknowledges (pairs of bytes, little endian;
   a trailing odd byte is dropped). *)
Fixpoint ack_indices (bs : list N) : list N :=
  match bs with
  | b0 :: b1 :: r => (b0 + 256 * b1) :: ack_indices r
  | _ => []
  end.

Definition ack_all (ct : client_ticks) (this_run : N) (idxs : list N) : client_ticks :=
  fold_left (fun c i => ack_mutate_message c this_run i) idxs ct.
