From RV Require Import Lib.Res Rules.Rules Rules.Rules_proofs Rules.Scene.
From Coq Require Import ZifyBool ZifyN ZifyNat.
Open Scope N_scope.
Ltac Zify.zify_post_hook ::= Z.div_mod_to_equations.
Arguments N.add : simpl never. Arguments N.mul : simpl never. Arguments N.pow : simpl never.
Arguments N.ltb : simpl never. Arguments N.leb : simpl never. Arguments N.div : simpl never.
Arguments N.modulo : simpl never. Arguments N.sub : simpl never. Arguments N.eqb : simpl never.

(* ---------- association lists (map_lookup / map_update lemmas are in Rules_proofs) ---------- *)
Lemma map_insert_fresh {V} k (v : V) m : ~ In k (map fst m) -> map_insert k v m = m ++ [(k, v)].
Proof.
  induction m as [|[k' v'] m IH]; cbn [map_insert map fst In app]; intros H; [reflexivity|].
  replace (k' =? k) with false by (destruct (N.eqb_spec k' k); [exfalso; apply H; left; assumption|reflexivity]).
  f_equal. apply IH. tauto.
Qed.

Lemma map_collect_aux {V} (l : list (N * V)) : forall m, NoDup (map fst (m ++ l)) ->
  fold_left (fun m kv => map_insert (fst kv) (snd kv) m) l m = m ++ l.
Proof.
  induction l as [|[k v] l IH]; intros m Hnd; cbn [fold_left fst snd]; [symmetry; apply app_nil_r|].
  rewrite map_insert_fresh.
  - rewrite IH; rewrite <- app_assoc; [reflexivity|exact Hnd].
  - rewrite map_app in Hnd. cbn [map fst] in Hnd. apply NoDup_remove_2 in Hnd.
    intros H; apply Hnd, in_or_app; left; exact H.
Qed.

(* with distinct entity ids, collecting into the hash map loses nothing *)
Lemma map_collect_NoDup {V} (l : list (N * V)) : NoDup (map fst l) -> map_collect l = l.
Proof. intros H. unfold map_collect. rewrite map_collect_aux; [reflexivity|exact H]. Qed.

(* ---------- list helpers ---------- *)
Lemma filter_filter_and {A} (f g : A -> bool) l : filter f (filter g l) = filter (fun x => g x && f x) l.
Proof.
  induction l as [|a l IH]; cbn [filter]; [reflexivity|].
  destruct (g a); cbn [andb filter]; [destruct (f a); [f_equal|]; exact IH|exact IH].
Qed.

Lemma filter_ext_in' {A} (f g : A -> bool) l : (forall x, In x l -> f x = g x) -> filter f l = filter g l.
Proof.
  induction l as [|a l IH]; intros H; cbn [filter]; [reflexivity|].
  rewrite (H a (or_introl eq_refl)), IH; [reflexivity|]. intros x Hx; apply H; right; exact Hx.
Qed.

Lemma NoDup_app_iff {A} (l1 l2 : list A) :
  NoDup (l1 ++ l2) <-> NoDup l1 /\ NoDup l2 /\ (forall x, In x l1 -> ~ In x l2).
Proof.
  induction l1 as [|a l1 IH]; cbn [app].
  - split; [intros H; split; [constructor|split; [exact H|intros x []]]|intros [_ [H _]]; exact H].
  - split.
    + intros H. inversion H as [|? ? Ha Hl]; subst. apply IH in Hl. destruct Hl as [Hl1 [Hl2 Hl3]].
      split; [|split; [exact Hl2|]].
      * constructor; [|exact Hl1]. intros Hc; apply Ha, in_or_app; left; exact Hc.
      * intros k [<- | Hk]; [intros Hc; apply Ha, in_or_app; right; exact Hc|apply Hl3; exact Hk].
    + intros [H1 [H2 H3]]. inversion H1 as [|? ? Ha Hl]; subst. constructor.
      * intros Hc. apply in_app_or in Hc. destruct Hc as [Hc | Hc]; [contradiction|].
        apply (H3 a); [left; reflexivity|exact Hc].
      * apply IH. split; [exact Hl|split; [exact H2|]]. intros k Hk; apply H3; right; exact Hk.
Qed.

Lemma NoDup_kinds_filter (f : N * N -> bool) l : NoDup (kinds l) -> NoDup (kinds (filter f l)).
Proof.
  unfold kinds. induction l as [|a l IH]; cbn [filter map]; intros H; [constructor|].
  inversion H as [|? ? Ha Hl]; subst. destruct (f a); [|apply IH; exact Hl].
  cbn [map]. constructor; [|apply IH; exact Hl].
  intros Hc. apply Ha. apply in_map_iff in Hc. destruct Hc as [x [Hx Hin]]. apply filter_In in Hin.
  apply in_map_iff. exists x. tauto.
Qed.

(* ---------- one entity: what is exported ---------- *)
Lemma vals_kinds wc ks : (forall k, In k ks -> In k (kinds wc)) -> kinds (vals wc ks) = ks.
Proof.
  induction ks as [|k ks IH]; intros H; cbn [vals flat_map]; [reflexivity|]. fold (vals wc).
  destruct (map_lookup k wc) as [v|] eqn:E.
  - cbn [app]. unfold kinds in *. cbn [map fst]. f_equal. apply IH. intros k' Hk'; apply H; right; exact Hk'.
  - exfalso. apply map_lookup_None in E. apply E, H. left; reflexivity.
Qed.

Lemma vals_In wc ks k v : In (k, v) (vals wc ks) <-> In k ks /\ map_lookup k wc = Some v.
Proof.
  unfold vals. rewrite in_flat_map. split.
  - intros [k' [Hk' Hin]]. destruct (map_lookup k' wc) as [v'|] eqn:E; [|destruct Hin].
    destruct Hin as [Heq | []]. inversion Heq; subst. split; assumption.
  - intros [Hk Hl]. exists k. split; [exact Hk|]. rewrite Hl. left; reflexivity.
Qed.

Lemma vals_kinds_incl wc ks k : In k (kinds (vals wc ks)) -> In k ks.
Proof.
  unfold kinds. intros H. apply in_map_iff in H. destruct H as [[k' v] [<- Hin]].
  apply vals_In in Hin. tauto.
Qed.

Lemma vals_cons wc k ks :
  vals wc (k :: ks) = match map_lookup k wc with Some v => [(k, v)] | None => [] end ++ vals wc ks.
Proof. reflexivity. Qed.

(* the loop over the components of the matching rules, started with exported_ids = ids and the
   scene entity's list = comps: the list loses every kind that gets pushed, then come the pushes *)
Lemma export_fold reflectable wc cs : forall ids comps,
  let new := vals wc (filter (fun k => mem k reflectable) (news ids cs)) in
  fold_left (export_component reflectable wc) cs (ids, comps) =
  (fold_left push_new cs ids, keep_unexported new comps ++ new).
Proof.
  induction cs as [|c cs IH]; intros ids comps; cbn zeta; cbn [fold_left news].
  - cbn [filter vals flat_map kinds map]. unfold keep_unexported. cbn [kinds map mem existsb negb].
    rewrite app_nil_r, filter_all_true; [reflexivity|intros x _; reflexivity].
  - unfold export_component at 2, push_new at 2. destruct (mem c ids) eqn:Ei; [apply IH|].
    cbn [filter]. destruct (mem c reflectable) eqn:Er; [|apply IH].
    rewrite vals_cons. destruct (map_lookup c wc) as [v|] eqn:El; [|cbn [app]; apply IH].
    rewrite IH. cbn zeta. f_equal.
    set (new' := vals wc (filter (fun k => mem k reflectable) (news (ids ++ [c]) cs))).
    assert (Hc : ~ In c (kinds new')).
    { intros H. apply vals_kinds_incl, filter_In in H. destruct H as [H _]. apply news_In in H.
      destruct H as [_ H]. apply H, in_or_app. right; left; reflexivity. }
    unfold keep_unexported. rewrite filter_app. cbn [filter fst app].
    apply mem_false_iff in Hc. rewrite Hc. cbn [negb]. rewrite <- app_assoc. cbn [app]. f_equal.
    unfold retain_other. rewrite filter_filter_and. apply filter_ext_in'. intros [k w] _. cbn [fst kinds map].
    unfold mem at 2. cbn [existsb]. fold (mem k (kinds new')).
    rewrite negb_orb. rewrite (N.eqb_sym k c). reflexivity.
Qed.

(* the export of one replicated entity into its scene entity: the components whose kind is not
   exported stay (in their order), then the exported ones *)
Theorem export_entity_spec rules reflectable e old :
  export_entity rules reflectable e old =
  keep_unexported (exported rules reflectable e) old ++ exported rules reflectable e.
Proof.
  unfold export_entity. rewrite fold_left_flat_map, export_fold. cbn [snd].
  unfold exported. rewrite select_components_news. reflexivity.
Qed.

(* the kinds exported for an entity: the server's selection restricted to reflectable kinds,
   in the server's order *)
Theorem exported_kinds rules reflectable e :
  kinds (exported rules reflectable e) =
  filter (fun k => mem k reflectable) (select_components rules (kinds (w_comps e))).
Proof.
  unfold exported. apply vals_kinds.
  intros k Hk. apply filter_In in Hk. destruct Hk as [Hk _].
  eapply select_components_incl; exact Hk.
Qed.

Theorem exported_NoDup rules reflectable e : NoDup (kinds (exported rules reflectable e)).
Proof. rewrite exported_kinds. apply NoDup_filter, select_components_NoDup. Qed.

(* each exported component carries the entity's current value *)
Theorem exported_values rules reflectable e k v :
  In (k, v) (exported rules reflectable e) -> map_lookup k (w_comps e) = Some v /\ In (k, v) (w_comps e).
Proof.
  unfold exported. rewrite vals_In. intros [_ H]. split; [exact H|apply map_lookup_Some_In; exact H].
Qed.

(* exported kinds = kinds the server replicates for this entity, restricted to reflectable ones *)
Theorem scene_select_agrees_with_replication rules reflectable e k :
  In k (kinds (exported rules reflectable e)) <->
  In k (select_components rules (kinds (w_comps e))) /\ mem k reflectable = true.
Proof. rewrite exported_kinds, filter_In. reflexivity. Qed.

(* nothing else is exported: an exported kind is a component of the entity named by a matching rule *)
Theorem exported_only_selected rules reflectable e k :
  In k (kinds (exported rules reflectable e)) ->
  In k (kinds (w_comps e)) /\ In k reflectable /\
  exists r, In r rules /\ rule_matches r (kinds (w_comps e)) = true /\ In k (r_comps r).
Proof.
  intros H. apply scene_select_agrees_with_replication in H. destruct H as [Hs Hr].
  split; [eapply select_components_incl; exact Hs|].
  split; [apply mem_true_iff; exact Hr|apply select_components_In; exact Hs].
Qed.

(* the marker (as a kind, see Scene.with_marker) is exported iff some rule names it
   (all components of that rule present) and it is reflectable; with the usual rule sets: never *)
Theorem marker_not_exported marker rules reflectable e :
  (forall r, In r rules -> ~ In marker (r_comps r)) ->
  ~ In marker (kinds (exported rules reflectable (with_marker marker e))).
Proof.
  intros H Hin. apply exported_only_selected in Hin.
  destruct Hin as [_ [_ [r [Hr [_ Hk]]]]]. exact (H r Hr Hk).
Qed.

Theorem marker_exported_by_marker_rule marker rules reflectable e p :
  In (mkRule p [marker]) rules -> In marker reflectable -> w_marked e = true ->
  In marker (kinds (exported rules reflectable (with_marker marker e))).
Proof.
  intros Hr Hrefl Hm. apply scene_select_agrees_with_replication. split; [|apply mem_true_iff; exact Hrefl].
  apply select_components_In. exists (mkRule p [marker]). split; [exact Hr|]. split; [|left; reflexivity].
  apply rule_matches_iff. intros c [<- | []]. unfold with_marker. rewrite Hm. left; reflexivity.
Qed.

(* kept and exported kinds are disjoint; the result has a kind twice only if a kept kind was twice *)
Lemma keep_unexported_kinds new old k :
  In k (kinds (keep_unexported new old)) <-> In k (kinds old) /\ ~ In k (kinds new).
Proof.
  split.
  - intros H. unfold kinds in H. apply in_map_iff in H. destruct H as [x [<- Hx]].
    unfold keep_unexported in Hx. apply filter_In in Hx. destruct Hx as [Hx Hf].
    split; [apply in_map; exact Hx|].
    apply mem_false_iff. destruct (mem (fst x) (kinds new)); [discriminate|reflexivity].
  - intros [H Hn]. unfold kinds in H. apply in_map_iff in H. destruct H as [x [<- Hx]].
    apply in_map. apply filter_In. split; [exact Hx|].
    apply mem_false_iff in Hn. rewrite Hn. reflexivity.
Qed.

Lemma export_result_NoDup_iff new old : NoDup (kinds new) ->
  (NoDup (kinds (keep_unexported new old ++ new)) <-> NoDup (kinds (keep_unexported new old))).
Proof.
  intros Hn. unfold kinds at 1. rewrite map_app. fold (kinds (keep_unexported new old)) (kinds new).
  rewrite NoDup_app_iff. split; [tauto|]. intros H. split; [exact H|split; [exact Hn|]].
  intros k Hk. apply keep_unexported_kinds in Hk. tauto.
Qed.

(* exporting again changes nothing *)
Lemma keep_unexported_idem new old :
  keep_unexported new (keep_unexported new old ++ new) = keep_unexported new old.
Proof.
  unfold keep_unexported. rewrite filter_app, filter_filter_and.
  rewrite (filter_all_false _ new).
  - rewrite app_nil_r. apply filter_ext_in'. intros x _. apply andb_diag.
  - intros x Hx. assert (In (fst x) (kinds new)) as H by (apply in_map; exact Hx).
    apply mem_true_iff in H. rewrite H. reflexivity.
Qed.

Theorem export_entity_idem rules reflectable e old :
  export_entity rules reflectable e (export_entity rules reflectable e old) = export_entity rules reflectable e old.
Proof. rewrite !export_entity_spec, keep_unexported_idem. reflexivity. Qed.

(* ---------- one entity: the map ---------- *)
Lemma entry_or_default_lookup_same id m :
  map_lookup id (entry_or_default id m) = Some (scene_comps (map_lookup id m)).
Proof.
  unfold entry_or_default. destruct (map_lookup id m) as [cs|] eqn:E; [exact E|].
  rewrite map_lookup_app, E. cbn [map_lookup scene_comps]. rewrite N.eqb_refl. reflexivity.
Qed.

Lemma entry_or_default_lookup_other id id2 m : id2 <> id ->
  map_lookup id2 (entry_or_default id m) = map_lookup id2 m.
Proof.
  intros Hne. unfold entry_or_default. destruct (map_lookup id m); [reflexivity|].
  rewrite map_lookup_app. destruct (map_lookup id2 m); [reflexivity|].
  cbn [map_lookup]. replace (id =? id2) with false by lia. reflexivity.
Qed.

Lemma entry_or_default_keys id m :
  map fst (entry_or_default id m) = map fst m ++ (if mem id (map fst m) then [] else [id]).
Proof.
  unfold entry_or_default. destruct (map_lookup id m) eqn:E.
  - assert (In id (map fst m)) as Hin.
    { destruct (in_dec N.eq_dec id (map fst m)) as [H | H]; [exact H|].
      apply map_lookup_None in H. congruence. }
    apply mem_true_iff in Hin. rewrite Hin, app_nil_r. reflexivity.
  - apply map_lookup_None, mem_false_iff in E. rewrite E, map_app. reflexivity.
Qed.

Lemma replicate_entity_lookup_same rules reflectable m e : w_marked e = true ->
  map_lookup (w_id e) (replicate_entity rules reflectable m e) =
  Some (export_entity rules reflectable e (scene_comps (map_lookup (w_id e) m))).
Proof.
  intros Hm. unfold replicate_entity. rewrite Hm, map_lookup_update_same, entry_or_default_lookup_same.
  reflexivity.
Qed.

Lemma replicate_entity_lookup_other rules reflectable m e id :
  (w_marked e = true -> id <> w_id e) ->
  map_lookup id (replicate_entity rules reflectable m e) = map_lookup id m.
Proof.
  intros H. unfold replicate_entity. destruct (w_marked e); [|reflexivity].
  specialize (H eq_refl). rewrite map_lookup_update_other, entry_or_default_lookup_other; auto.
Qed.

Lemma replicate_entity_keys rules reflectable m e :
  map fst (replicate_entity rules reflectable m e) =
  map fst m ++ (if w_marked e && negb (mem (w_id e) (map fst m)) then [w_id e] else []).
Proof.
  unfold replicate_entity. destruct (w_marked e); cbn [andb]; [|symmetry; apply app_nil_r].
  rewrite map_update_keys, entry_or_default_keys. destruct (mem (w_id e) (map fst m)); reflexivity.
Qed.

(* ---------- the whole world ---------- *)
Lemma fold_replicate_lookup_other rules reflectable world : forall m id,
  ~ marked_id world id ->
  map_lookup id (fold_left (replicate_entity rules reflectable) world m) = map_lookup id m.
Proof.
  induction world as [|e world IH]; intros m id Hn; cbn [fold_left]; [reflexivity|].
  rewrite IH.
  - apply replicate_entity_lookup_other. intros Hm Heq. apply Hn. exists e.
    split; [left; reflexivity|split; [exact Hm|symmetry; exact Heq]].
  - intros [e' [Hin H]]. apply Hn. exists e'. split; [right; exact Hin|exact H].
Qed.

Lemma fold_replicate_lookup_marked rules reflectable world : forall m e,
  NoDup (map w_id world) -> In e world -> w_marked e = true ->
  map_lookup (w_id e) (fold_left (replicate_entity rules reflectable) world m) =
  Some (export_entity rules reflectable e (scene_comps (map_lookup (w_id e) m))).
Proof.
  induction world as [|e0 world IH]; intros m e Hnd Hin Hm; cbn [fold_left]; [destruct Hin|].
  cbn [map] in Hnd. inversion Hnd as [|? ? Hnotin Hnd']; subst.
  destruct Hin as [-> | Hin].
  - rewrite fold_replicate_lookup_other.
    + apply replicate_entity_lookup_same; exact Hm.
    + intros [e' [Hin' [_ Heq]]]. apply Hnotin. rewrite <- Heq. apply in_map; exact Hin'.
  - rewrite (IH _ e Hnd' Hin Hm). rewrite replicate_entity_lookup_other; [reflexivity|].
    intros _ Heq. apply Hnotin. rewrite <- Heq. apply in_map; exact Hin.
Qed.

Lemma fold_replicate_keys rules reflectable world : forall m, NoDup (map fst m) ->
  let r := fold_left (replicate_entity rules reflectable) world m in
  NoDup (map fst r) /\ (forall id, In id (map fst r) <-> In id (map fst m) \/ marked_id world id).
Proof.
  induction world as [|e world IH]; intros m Hnd; cbn [fold_left].
  - split; [exact Hnd|]. intros id. split; [left; assumption|intros [H | [e [[] _]]]; exact H].
  - pose proof (replicate_entity_keys rules reflectable m e) as Hk.
    set (m1 := replicate_entity rules reflectable m e) in *.
    assert (Hnd1 : NoDup (map fst m1)).
    { rewrite Hk. destruct (w_marked e && negb (mem (w_id e) (map fst m))) eqn:E; [|rewrite app_nil_r; exact Hnd].
      apply NoDup_snoc; [exact Hnd|]. apply mem_false_iff. destruct (mem (w_id e) (map fst m)); [|reflexivity].
      rewrite andb_false_r in E. discriminate. }
    destruct (IH m1 Hnd1) as [H1 H2]. split; [exact H1|].
    intros id. rewrite H2, Hk. split.
    + intros [H | [e' [Hin H]]].
      * apply in_app_or in H. destruct H as [H | H]; [left; exact H|].
        destruct (w_marked e && negb (mem (w_id e) (map fst m))) eqn:E; [|destruct H].
        destruct H as [<- | []]. right. exists e. apply andb_true_iff in E. destruct E as [E _].
        split; [left; reflexivity|split; [exact E|reflexivity]].
      * right. exists e'. split; [right; exact Hin|exact H].
    + intros [H | [e' [[<- | Hin] [Hm Hid]]]].
      * left. apply in_or_app. left; exact H.
      * left. apply in_or_app. rewrite Hm. cbn [andb]. destruct (mem (w_id e) (map fst m)) eqn:E; cbn [negb].
        -- left. apply mem_true_iff in E. rewrite <- Hid. exact E.
        -- right. left. exact Hid.
      * right. exists e'. split; [exact Hin|split; assumption].
Qed.

(* when every replicated entity already has its scene entity, no entity is added *)
Lemma fold_replicate_keys_same rules reflectable world : forall m,
  (forall id, marked_id world id -> In id (map fst m)) ->
  map fst (fold_left (replicate_entity rules reflectable) world m) = map fst m.
Proof.
  induction world as [|e world IH]; intros m H; cbn [fold_left]; [reflexivity|].
  assert (Hk : map fst (replicate_entity rules reflectable m e) = map fst m).
  { rewrite replicate_entity_keys. destruct (w_marked e) eqn:Em; cbn [andb]; [|apply app_nil_r].
    assert (In (w_id e) (map fst m)) as Hin.
    { apply H. exists e. split; [left; reflexivity|split; [exact Em|reflexivity]]. }
    apply mem_true_iff in Hin. rewrite Hin. apply app_nil_r. }
  rewrite IH, Hk; [reflexivity|]. rewrite Hk. intros id [e' [Hin Hr]]. apply H. exists e'. split; [right; exact Hin|exact Hr].
Qed.

Lemma assoc_ext {V} (m1 m2 : list (N * V)) :
  map fst m1 = map fst m2 -> NoDup (map fst m1) ->
  (forall k, map_lookup k m1 = map_lookup k m2) -> m1 = m2.
Proof.
  revert m2; induction m1 as [|[k v] m1 IH]; intros [|[k2 v2] m2] Hk Hnd Hl; cbn [map fst] in *; try discriminate; [reflexivity|].
  inversion Hk as [[Hk1 Hk2]]; subst k2. inversion Hnd as [|? ? Hnotin Hnd']; subst.
  pose proof (Hl k) as Hlk. cbn [map_lookup] in Hlk. rewrite N.eqb_refl in Hlk. inversion Hlk; subst v2.
  f_equal. apply IH; [exact Hk2|exact Hnd'|].
  intros k'. specialize (Hl k'). cbn [map_lookup] in Hl. destruct (k =? k') eqn:E; [|exact Hl].
  assert (k = k') by lia. subst k'.
  assert (map_lookup k m1 = None) as -> by (apply map_lookup_None; exact Hnotin).
  symmetry. apply map_lookup_None. rewrite <- Hk2. exact Hnotin.
Qed.

(* ---------- replicate_into ---------- *)
Section ReplicateInto.
  Variables (rules : list rule) (reflectable : list N) (scene0 : scene) (world : list went).
  Hypothesis Hscene : NoDup (map fst scene0).
  Let result := replicate_into rules reflectable scene0 world.

  (* exactly one scene entity per pre-existing entity and per replicated entity *)
  Theorem replicate_into_entities :
    NoDup (map fst result) /\
    forall id, In id (map fst result) <-> In id (map fst scene0) \/ marked_id world id.
  Proof.
    unfold result, replicate_into. rewrite (map_collect_NoDup scene0 Hscene).
    apply fold_replicate_keys. exact Hscene.
  Qed.

  (* a replicated entity without components is present too (with what the scene already had) *)
  Theorem replicate_into_lookup_marked e : NoDup (map w_id world) -> In e world -> w_marked e = true ->
    let new := exported rules reflectable e in
    map_lookup (w_id e) result =
    Some (keep_unexported new (scene_comps (map_lookup (w_id e) scene0)) ++ new).
  Proof.
    intros Hw Hin Hm new. unfold result, replicate_into. rewrite (map_collect_NoDup scene0 Hscene).
    rewrite fold_replicate_lookup_marked by assumption. rewrite export_entity_spec. reflexivity.
  Qed.

  Theorem replicate_into_lookup_other id : ~ marked_id world id ->
    map_lookup id result = map_lookup id scene0.
  Proof.
    intros Hn. unfold result, replicate_into. rewrite (map_collect_NoDup scene0 Hscene).
    apply fold_replicate_lookup_other; exact Hn.
  Qed.

  (* components: the existing ones of a kind that is not exported first (their copies of exported
     kinds are dropped), then exactly the selected reflectable kinds, each once, in selection order,
     with the current values *)
  Theorem replicate_into_components e : NoDup (map w_id world) -> In e world -> w_marked e = true ->
    exists new,
      map_lookup (w_id e) result =
        Some (keep_unexported new (scene_comps (map_lookup (w_id e) scene0)) ++ new) /\
      kinds new = filter (fun k => mem k reflectable) (select_components rules (kinds (w_comps e))) /\
      NoDup (kinds new) /\
      (forall k v, In (k, v) new -> In (k, v) (w_comps e)) /\
      (forall k, In k (kinds new) ->
                 exists r, In r rules /\ rule_matches r (kinds (w_comps e)) = true /\ In k (r_comps r)).
  Proof.
    intros Hw Hin Hm. exists (exported rules reflectable e).
    split; [apply replicate_into_lookup_marked; assumption|].
    split; [apply exported_kinds|]. split; [apply exported_NoDup|]. split.
    - intros k v H. apply exported_values in H. tauto.
    - intros k H. apply exported_only_selected in H. tauto.
  Qed.

  (* "holds no component twice": exactly when the kept (not exported) part had none twice *)
  Theorem replicate_into_NoDup_iff e : NoDup (map w_id world) -> In e world -> w_marked e = true ->
    exists cs, map_lookup (w_id e) result = Some cs /\
    (NoDup (kinds cs) <->
     NoDup (kinds (keep_unexported (exported rules reflectable e) (scene_comps (map_lookup (w_id e) scene0))))).
  Proof.
    intros Hw Hin Hm. eexists. split; [apply replicate_into_lookup_marked; assumption|].
    apply export_result_NoDup_iff, exported_NoDup.
  Qed.

  (* ... in particular whenever the given scene held no kind twice for that entity
     (no side condition about the exported kinds: copies already present are replaced) *)
  Theorem replicate_into_no_duplicates e : NoDup (map w_id world) -> In e world -> w_marked e = true ->
    NoDup (kinds (scene_comps (map_lookup (w_id e) scene0))) ->
    exists cs, map_lookup (w_id e) result = Some cs /\ NoDup (kinds cs).
  Proof.
    intros Hw Hin Hm Hold. destruct (replicate_into_NoDup_iff e Hw Hin Hm) as [cs [Hl Hiff]].
    exists cs. split; [exact Hl|]. apply Hiff. apply NoDup_kinds_filter. exact Hold.
  Qed.

  (* a kind the scene already holds for a replicated entity and that is exported is REPLACED:
     it occurs exactly once in the result, with the entity's current value, even if the given
     scene held it several times *)
  Theorem replicate_into_replaces e k : NoDup (map w_id world) -> In e world -> w_marked e = true ->
    In k (select_components rules (kinds (w_comps e))) -> mem k reflectable = true ->
    exists cs v, map_lookup (w_id e) result = Some cs /\ count_occ N.eq_dec (kinds cs) k = 1%nat /\
                 map_lookup k (w_comps e) = Some v /\ (forall v', In (k, v') cs -> v' = v).
  Proof.
    intros Hw Hin Hm Hsel Hr. set (new := exported rules reflectable e).
    assert (Hnew : In k (kinds new)) by (apply scene_select_agrees_with_replication; split; assumption).
    pose proof (exported_NoDup rules reflectable e) as Hnd. fold new in Hnd.
    assert (Hv : exists v, In (k, v) new).
    { unfold kinds in Hnew. apply in_map_iff in Hnew. destruct Hnew as [[k' v] [Hk Hx]]. cbn [fst] in Hk. subst k'. exists v; exact Hx. }
    destruct Hv as [v Hv]. pose proof (exported_values _ _ _ _ _ Hv) as [Hlv _].
    eexists _, v. split; [apply replicate_into_lookup_marked; assumption|]. fold new. split; [|split; [exact Hlv|]].
    - unfold kinds at 1. rewrite map_app, count_occ_app. fold (kinds new).
      assert (count_occ N.eq_dec (map fst (keep_unexported new (scene_comps (map_lookup (w_id e) scene0)))) k = 0%nat) as ->.
      { apply count_occ_not_In. intros Hc. apply keep_unexported_kinds in Hc. tauto. }
      apply (proj1 (NoDup_count_occ' N.eq_dec (kinds new)) Hnd k Hnew).
    - intros v' Hin'. apply in_app_or in Hin'. destruct Hin' as [Hin' | Hin'].
      + exfalso. assert (In k (kinds (keep_unexported new (scene_comps (map_lookup (w_id e) scene0))))) as Hc
          by (apply (in_map fst) in Hin'; exact Hin').
        apply keep_unexported_kinds in Hc. tauto.
      + apply exported_values in Hin'. destruct Hin' as [Hl' _]. congruence.
  Qed.
End ReplicateInto.

(* whole-scene form of "holds no component twice" *)
Theorem replicate_into_scene_NoDup rules reflectable scene0 world :
  NoDup (map fst scene0) -> NoDup (map w_id world) ->
  (forall id cs, In (id, cs) scene0 -> NoDup (kinds cs)) ->
  forall id cs, In (id, cs) (replicate_into rules reflectable scene0 world) -> NoDup (kinds cs).
Proof.
  intros Hs Hw Hold id cs Hin.
  destruct (replicate_into_entities rules reflectable scene0 world Hs) as [Hnd _].
  apply (In_map_lookup _ _ _ Hnd) in Hin.
  destruct (in_dec N.eq_dec id (map w_id (filter w_marked world))) as [Hm | Hm].
  - apply in_map_iff in Hm. destruct Hm as [e [Hid He]]. apply filter_In in He. destruct He as [He Hmk]. subst id.
    assert (Ho : NoDup (kinds (scene_comps (map_lookup (w_id e) scene0)))).
    { destruct (map_lookup (w_id e) scene0) as [cs0|] eqn:E; [|constructor].
      apply map_lookup_Some_In in E. eapply Hold; exact E. }
    destruct (replicate_into_no_duplicates rules reflectable scene0 world Hs e Hw He Hmk Ho) as [cs' [Hl Hn]].
    rewrite Hin in Hl. inversion Hl; subst. exact Hn.
  - rewrite replicate_into_lookup_other in Hin; [|exact Hs|].
    + apply map_lookup_Some_In in Hin. eapply Hold; exact Hin.
    + intros [e [He [Hmk Hid]]]. apply Hm. apply in_map_iff. exists e. split; [exact Hid|].
      apply filter_In. split; assumption.
Qed.

(* exporting a second time (same world, same rules) gives back the very same scene *)
Theorem replicate_into_idempotent rules reflectable scene0 world :
  NoDup (map fst scene0) -> NoDup (map w_id world) ->
  replicate_into rules reflectable (replicate_into rules reflectable scene0 world) world =
  replicate_into rules reflectable scene0 world.
Proof.
  intros Hs Hw. set (r1 := replicate_into rules reflectable scene0 world).
  destruct (replicate_into_entities rules reflectable scene0 world Hs) as [Hnd1 Hin1]. fold r1 in Hnd1, Hin1.
  destruct (replicate_into_entities rules reflectable r1 world Hnd1) as [Hnd2 _].
  apply assoc_ext; [| exact Hnd2 |].
  - unfold replicate_into at 1. rewrite (map_collect_NoDup r1 Hnd1).
    apply fold_replicate_keys_same. intros id H. apply Hin1. right; exact H.
  - intros id. destruct (in_dec N.eq_dec id (map w_id (filter w_marked world))) as [Hm | Hm].
    + apply in_map_iff in Hm. destruct Hm as [e [Hid He]]. apply filter_In in He. destruct He as [He Hmk]. subst id.
      rewrite (replicate_into_lookup_marked rules reflectable r1 world Hnd1 e Hw He Hmk).
      unfold r1 at 1 2. rewrite (replicate_into_lookup_marked rules reflectable scene0 world Hs e Hw He Hmk).
      cbn [scene_comps]. rewrite keep_unexported_idem. reflexivity.
    + apply replicate_into_lookup_other; [exact Hnd1|].
      intros [e [He [Hmk Hid]]]. apply Hm. apply in_map_iff. exists e. split; [exact Hid|].
      apply filter_In. split; assumption.
Qed.

(* ---------- the component loop never panics on the main path ---------- *)
Lemma fold_res_flat_map {A B C} (g : A -> C -> res A) (h : B -> list C) (l : list B) : forall a,
  fold_res (fun acc b => fold_res g (h b) acc) l a = fold_res g (flat_map h l) a.
Proof.
  induction l as [|b l IH]; intros a; cbn [fold_res flat_map]; [reflexivity|].
  assert (Happ : forall l1 l2 a0, fold_res g (l1 ++ l2) a0 = (let* a' := fold_res g l1 a0 in fold_res g l2 a')).
  { induction l1 as [|c l1 IH1]; intros l2 a0; cbn [fold_res app bind]; [reflexivity|].
    destruct (g a0 c); cbn [bind]; [apply IH1|reflexivity|reflexivity]. }
  rewrite Happ. destruct (fold_res g (h b) a); cbn [bind]; [apply IH|reflexivity|reflexivity].
Qed.

Lemma export_fold_res reflectable nfr wc cs : forall st,
  (forall c, In c cs -> mem c reflectable = true -> ~ In c nfr /\ In c (kinds wc)) ->
  fold_res (export_component_res reflectable nfr wc) cs st =
  Ok (fold_left (export_component reflectable wc) cs st).
Proof.
  induction cs as [|c cs IH]; intros [ids out] H; cbn [fold_res fold_left]; [reflexivity|].
  assert (IH' : forall st, fold_res (export_component_res reflectable nfr wc) cs st =
                           Ok (fold_left (export_component reflectable wc) cs st)).
  { intros st. apply IH. intros c' Hc'; apply H; right; exact Hc'. }
  unfold export_component_res at 1, export_component at 2.
  destruct (mem c ids); cbn [bind]; [apply IH'|].
  destruct (mem c reflectable) eqn:Er; cbn [bind]; [|apply IH'].
  destruct (H c (or_introl eq_refl) Er) as [Hn Hk].
  apply mem_false_iff in Hn. rewrite Hn.
  destruct (map_lookup c wc) eqn:El; cbn [bind]; [apply IH'|].
  apply map_lookup_None in El. contradiction.
Qed.

Lemma map_update_const {V} k (f : V -> V) m v : map_lookup k m = Some v ->
  map_update k (fun _ => f v) m = map_update k f m.
Proof.
  induction m as [|[k' v'] m IH]; cbn [map_lookup map_update]; [discriminate|].
  destruct (k' =? k); [intros H; inversion H; reflexivity|intros H; f_equal; apply IH; exact H].
Qed.

(* if every exported kind of every replicated entity reflects FromReflect, the version with the
   panics of the Rust loop returns the result of the pure model *)
Theorem replicate_into_res_ok rules reflectable nfr scene0 world :
  (forall e k, In e world -> w_marked e = true ->
               In k (selected_from rules (kinds (w_comps e))) -> mem k reflectable = true -> ~ In k nfr) ->
  replicate_into_res rules reflectable nfr scene0 world = Ok (replicate_into rules reflectable scene0 world).
Proof.
  unfold replicate_into_res, replicate_into. generalize (map_collect scene0).
  induction world as [|e world IH]; intros m H; cbn [fold_res fold_left]; [reflexivity|].
  assert (He : replicate_entity_res rules reflectable nfr m e = Ok (replicate_entity rules reflectable m e)).
  { unfold replicate_entity_res, replicate_entity. destruct (w_marked e) eqn:Em; [|reflexivity].
    pose proof (entry_or_default_lookup_same (w_id e) m) as Hl. rewrite Hl.
    unfold export_entity_res. rewrite fold_res_flat_map, export_fold_res.
    - cbn [bind]. f_equal. rewrite <- (map_update_const _ (export_entity rules reflectable e) _ _ Hl).
      unfold export_entity. rewrite fold_left_flat_map. reflexivity.
    - intros c Hc Hr. split; [apply (H e c); auto; left; reflexivity|].
      unfold matching_rules in Hc. apply in_flat_map in Hc. destruct Hc as [r [Hr' Hc]].
      apply filter_In in Hr'. destruct Hr' as [_ Hr'].
      apply (proj1 (rule_matches_iff r _) Hr' c Hc). }
  rewrite He. cbn [bind]. apply IH. intros e' k Hin; apply H; right; exact Hin.
Qed.
