(* src/shared/replication/replication_rules.rs: ReplicationRule::{new, matches, matches_removals},
   ReplicationRules::insert (with core::slice::binary_search_by of the std used by the crate,
   edition 2024, i.e. the branch-free loop without early exit on Equal);
   src/server/server_world.rs: component selection of `new_archetype`;
   src/server/removal_buffer.rs: RemovalBuffer::update.

   Component kinds (ComponentId) are `N`.  A ComponentRule is reduced to its component id:
   `fns_id` and `send_rate` are carried along by the Rust code but never inspected by any
   function modelled here.  An archetype is the list of its component kinds. *)
From RV Require Import Lib.Res.
Open Scope N_scope.

Record rule := mkRule { r_priority : N; r_comps : list N }.

(* ReplicationRule::new: priority = number of components *)
Definition rule_new (comps : list N) : rule := mkRule (N.of_nat (length comps)) comps.

(* `contains` on an archetype / HashSet / Vec of ids *)
Definition mem (k : N) (l : list N) : bool := existsb (N.eqb k) l.

(* ---------- core::slice::binary_search_by ---------- *)
Inductive search_result := Found (i : nat) | NotFound (i : nat).

(* `f(get_unchecked(i))`; the None case is unreachable (Rules_proofs.bs_loop_in_bounds) *)
Definition cmp_at {A} (f : A -> comparison) (l : list A) (i : nat) : comparison :=
  match nth_error l i with Some x => f x | None => Gt end.

(* while size > 1 { half = size / 2; mid = base + half;
                    base = if cmp == Greater { base } else { mid }; size -= half; }
   fuel = initial size is enough since size strictly decreases. *)
Fixpoint bs_loop {A} (f : A -> comparison) (l : list A) (fuel size base : nat) : nat :=
  match fuel with
  | O => base
  | S fuel' =>
    if (size <=? 1)%nat then base
    else
      let half := (size / 2)%nat in
      let mid := (base + half)%nat in
      let base' := match cmp_at f l mid with Gt => base | _ => mid end in
      bs_loop f l fuel' (size - half)%nat base'
  end.

Definition binary_search_by {A} (f : A -> comparison) (l : list A) : search_result :=
  let size := length l in
  if (size =? 0)%nat then NotFound 0
  else
    let base := bs_loop f l size size 0 in
    match cmp_at f l base with
    | Eq => Found base
    | Lt => NotFound (base + 1)        (* base + (cmp == Less) as usize *)
    | Gt => NotFound base
    end.

(* Iterator::position *)
Fixpoint position {A} (p : A -> bool) (l : list A) : option nat :=
  match l with
  | [] => None
  | x :: l' => if p x then Some O else option_map S (position p l')
  end.

(* Vec::insert: panics if index > len *)
Definition vec_insert {A} (i : nat) (x : A) (l : list A) : res (list A) :=
  if (i <=? length l)%nat then Ok (firstn i l ++ x :: skipn i l) else Panic.

(* binary_search_by_key(&Reverse(p), |rule| Reverse(rule.priority)):
   the comparator is Reverse(rule.priority).cmp(&Reverse(p)) = p.cmp(&rule.priority) *)
Definition rule_cmp (p : N) (r : rule) : comparison := N.compare p (r_priority r).

(* the `Ok(index)` arm of ReplicationRules::insert:
   skip(index + 1).position(|other| other.priority != rule.priority).unwrap_or_default() *)
Definition insert_found (rules : list rule) (r : rule) (index : nat) : res (list rule) :=
  let last_priority_index :=
    match position (fun other => negb (r_priority other =? r_priority r)) (skipn (index + 1) rules) with
    | Some k => k
    | None => O
    end in
  vec_insert (index + last_priority_index + 1) r rules.

(* ReplicationRules::insert *)
Definition rules_insert (rules : list rule) (r : rule) : res (list rule) :=
  match binary_search_by (rule_cmp (r_priority r)) rules with
  | Found index => insert_found rules r index
  | NotFound index => vec_insert index r rules
  end.

(* registering several rules one after the other (App::replicate_with ...) *)
Fixpoint rules_insert_all (rules : list rule) (new : list rule) : res (list rule) :=
  match new with
  | [] => Ok rules
  | r :: new' => let* rules' := rules_insert rules r in rules_insert_all rules' new'
  end.

(* ---------- matching ---------- *)
(* ReplicationRule::matches: every rule component is in the archetype *)
Definition rule_matches (r : rule) (archetype : list N) : bool :=
  forallb (fun c => mem c archetype) (r_comps r).

(* ReplicationRule::matches_removals (loop with early `return false`) *)
Fixpoint matches_removals_loop (cs post removed : list N) (matches : bool) : bool :=
  match cs with
  | [] => matches
  | c :: cs' =>
    if mem c removed then matches_removals_loop cs' post removed true
    else if negb (mem c post) then false
    else matches_removals_loop cs' post removed matches
  end.
Definition rule_matches_removals (r : rule) (post_removal_archetype removed_components : list N) : bool :=
  matches_removals_loop (r_comps r) post_removal_archetype removed_components false.

(* ---------- server_world.rs new_archetype: component selection ---------- *)
(* `if components.iter().any(|e| e.id == component.id) { continue } components.push(component)` *)
Definition push_new (acc : list N) (c : N) : list N := if mem c acc then acc else acc ++ [c].

Definition matching_rules (rules : list rule) (archetype : list N) : list rule :=
  filter (fun r => rule_matches r archetype) rules.

(* ReplicatedArchetype::components (ids only), in push order *)
Definition select_components (rules : list rule) (archetype : list N) : list N :=
  fold_left (fun acc r => fold_left push_new (r_comps r) acc) (matching_rules rules archetype) [].

(* ---------- removal_buffer.rs RemovalBuffer::update ---------- *)
(* `removals : EntityHashMap<Vec<(ComponentId, FnsId)>>` as an association list entity -> ids
   (entity order is unspecified in the real hash map); `ids_buffer` only recycles empty Vecs
   (every Vec pushed there has been cleared/drained) and is not modelled. *)
Definition removal_push (removed_components : list N) (removed_ids : list N) (c : N) : list N :=
  if negb (mem c removed_ids) && mem c removed_components then removed_ids ++ [c] else removed_ids.

Definition removal_ids (rules : list rule) (archetype removed_components : list N) : list N :=
  fold_left (fun ids r => fold_left (removal_push removed_components) (r_comps r) ids)
            (filter (fun r => rule_matches_removals r archetype removed_components) rules) [].

Fixpoint map_lookup {V} (k : N) (m : list (N * V)) : option V :=
  match m with
  | [] => None
  | (k', v) :: m' => if k' =? k then Some v else map_lookup k m'
  end.

(* apply `f` to the value stored under `k` (HashMap::get_mut + mutation); no-op if absent *)
Fixpoint map_update {V} (k : N) (f : V -> V) (m : list (N * V)) : list (N * V) :=
  match m with
  | [] => []
  | (k', v) :: m' => if k' =? k then (k', f v) :: m' else (k', v) :: map_update k f m'
  end.

Definition removal_update (removals : list (N * list N)) (rules : list rule)
           (archetype : list N) (entity : N) (removed_components : list N) : list (N * list N) :=
  let removed_ids := removal_ids rules archetype removed_components in
  match removed_ids with
  | [] => removals
  | _ =>
    match map_lookup entity removals with
    | Some _ => map_update entity (fun buffered_ids => fold_left push_new removed_ids buffered_ids) removals
    | None => removals ++ [(entity, removed_ids)]
    end
  end.

(* ---------- specification vocabulary (used by Rules_proofs / Properties) ---------- *)
(* sorted by descending priority *)
Fixpoint sorted_desc (l : list rule) : Prop :=
  match l with
  | [] => True
  | a :: l' => (forall b, In b l' -> r_priority b <= r_priority a) /\ sorted_desc l'
  end.

Definition prio_ge (p : N) (r : rule) : bool := p <=? r_priority r.
Definition prio_lt (p : N) (r : rule) : bool := r_priority r <? p.

(* kinds newly pushed by a run of `push_new` over cs starting from acc *)
Fixpoint news (acc cs : list N) : list N :=
  match cs with
  | [] => []
  | c :: cs' => if mem c acc then news acc cs' else c :: news (acc ++ [c]) cs'
  end.

(* all component ids of the matching rules, in rule order, duplicates included *)
Definition selected_from (rules : list rule) (archetype : list N) : list N :=
  flat_map r_comps (matching_rules rules archetype).
