(* src/scene.rs: replicate_into.

   World: a list of entities with distinct ids; `w_marked` = has the `Replicated` marker;
   `w_comps` = the other components as (kind, current value), kinds distinct.  The marker is not
   a kind of the model (so no rule can name it; see the report for that restriction).
   Since ReplicationRule::matches only looks at the component set of the archetype, the
   archetype loop of the Rust code is modelled entity by entity (an archetype without
   entities contributes nothing, except for the FromReflect panic, see replicate_into_res).
   Scene: list of (entity id, components as (kind, value)).  The Rust code goes through an
   EntityHashMap, so the order of ENTITIES in the result is unspecified; the model keeps an
   association list (existing entries keep their place, new ones are appended) and the
   theorems speak about `map_lookup` / membership only.  The order of components inside an
   entity is deterministic and modelled exactly.
   Type registry: `reflectable` = kinds registered in the AppTypeRegistry WITH
   `#[reflect(Component)]`; all other kinds are skipped (both `continue` branches). *)
From RV Require Import Lib.Res Rules.Rules.
Open Scope N_scope.

Record went := mkWent { w_id : N; w_marked : bool; w_comps : list (N * N) }.
Definition scene := list (N * list (N * N)).

Definition kinds (cs : list (N * N)) : list N := map fst cs.

(* HashMap::insert: replaces the value of an existing key *)
Fixpoint map_insert {V} (k : N) (v : V) (m : list (N * V)) : list (N * V) :=
  match m with
  | [] => [(k, v)]
  | (k', v') :: m' => if k' =? k then (k', v) :: m' else (k', v') :: map_insert k v m'
  end.

(* scene.entities.drain(..).map(..).collect::<EntityHashMap<_>>() *)
Definition map_collect {V} (l : list (N * V)) : list (N * V) :=
  fold_left (fun m kv => map_insert (fst kv) (snd kv) m) l [].

(* entities.entry(id).or_default() *)
Definition entry_or_default (id : N) (m : scene) : scene :=
  match map_lookup id m with Some _ => m | None => m ++ [(id, [])] end.

(* `components.retain(|existing| type of existing != type_id)`: every component of the model has a
   kind (`get_represented_type_info` is Some), so this drops all entries of kind c *)
Definition retain_other (c : N) (components : list (N * N)) : list (N * N) :=
  filter (fun kv => negb (fst kv =? c)) components.

(* One iteration of `for component in &rule.components` for one entity.
   State = (exported_ids, the scene entity's component list).
   An exported kind first removes the copies the scene entity already holds, then is pushed at the end.
   `map_lookup c wc = None` is the panic "entity should have ..." of the Rust code; it is
   unreachable because the rule matches (Scene_proofs.replicate_into_res_ok); the pure model skips. *)
Definition export_component (reflectable : list N) (wc : list (N * N))
           (st : list N * list (N * N)) (c : N) : list N * list (N * N) :=
  let '(exported_ids, components) := st in
  if mem c exported_ids then st
  else
    let exported_ids' := exported_ids ++ [c] in
    if mem c reflectable then
      match map_lookup c wc with
      | Some v => (exported_ids', retain_other c components ++ [(c, v)])
      | None => (exported_ids', components)
      end
    else (exported_ids', components).

(* the component list of the scene entity of one replicated entity after the export *)
Definition export_entity (rules : list rule) (reflectable : list N) (e : went)
           (components : list (N * N)) : list (N * N) :=
  snd (fold_left (fun st r => fold_left (export_component reflectable (w_comps e)) (r_comps r) st)
                 (matching_rules rules (kinds (w_comps e))) ([], components)).

Definition replicate_entity (rules : list rule) (reflectable : list N) (m : scene) (e : went) : scene :=
  if w_marked e
  then map_update (w_id e) (export_entity rules reflectable e) (entry_or_default (w_id e) m)
  else m.

Definition replicate_into (rules : list rule) (reflectable : list N) (scene0 : scene) (world : list went) : scene :=
  fold_left (replicate_entity rules reflectable) world (map_collect scene0).

(* The `Replicated` marker as a component kind.  In the plain model above the marker is only the
   flag `w_marked`, so no rule can name it.  The public API does allow a rule on `Replicated`
   itself (`replicate_with(RuleFns::<Replicated>::new(..))`), and `Replicated` is registered with
   `#[reflect(Component)]`; to cover that case give the marker a kind (its value is the unit
   struct, written 0) and add it to the components of marked entities. *)
Definition with_marker (marker : N) (e : went) : went :=
  mkWent (w_id e) (w_marked e) (if w_marked e then (marker, 0) :: w_comps e else w_comps e).

Definition replicate_into_m (marker : N) (rules : list rule) (reflectable : list N)
           (scene0 : scene) (world : list went) : scene :=
  replicate_into rules reflectable scene0 (map (with_marker marker) world).

(* ---------- the same with the panics of the component loop ---------- *)
(* `no_from_reflect`: reflectable kinds whose registration lacks ReflectFromReflect
   ("should reflect `FromReflect`").  Divergence: the Rust code raises this panic per archetype,
   i.e. also for a replicated archetype that currently has no entity. *)
Definition export_component_res (reflectable no_from_reflect : list N) (wc : list (N * N))
           (st : list N * list (N * N)) (c : N) : res (list N * list (N * N)) :=
  let '(exported_ids, components) := st in
  if mem c exported_ids then Ok st
  else
    let exported_ids' := exported_ids ++ [c] in
    if mem c reflectable then
      if mem c no_from_reflect then Panic
      else
        match map_lookup c wc with
        | Some v => Ok (exported_ids', retain_other c components ++ [(c, v)])
        | None => Panic
        end
    else Ok (exported_ids', components).

Fixpoint fold_res {A B} (f : A -> B -> res A) (l : list B) (a : A) : res A :=
  match l with
  | [] => Ok a
  | b :: l' => let* a' := f a b in fold_res f l' a'
  end.

Definition export_entity_res (rules : list rule) (reflectable nfr : list N) (e : went)
           (components : list (N * N)) : res (list (N * N)) :=
  let* st := fold_res (fun st r => fold_res (export_component_res reflectable nfr (w_comps e)) (r_comps r) st)
                      (matching_rules rules (kinds (w_comps e))) ([], components) in
  Ok (snd st).

Definition replicate_entity_res (rules : list rule) (reflectable nfr : list N) (m : scene) (e : went) : res scene :=
  if w_marked e
  then
    let m1 := entry_or_default (w_id e) m in
    match map_lookup (w_id e) m1 with
    | Some components =>
      let* components' := export_entity_res rules reflectable nfr e components in
      Ok (map_update (w_id e) (fun _ => components') m1)
    | None => Panic                    (* "all entities should be populated ahead of time" *)
    end
  else Ok m.

Definition replicate_into_res (rules : list rule) (reflectable nfr : list N) (scene0 : scene) (world : list went) : res scene :=
  fold_res (replicate_entity_res rules reflectable nfr) world (map_collect scene0).

(* ---------- specification vocabulary (used by Scene_proofs / Properties) ---------- *)
(* values of the listed kinds, taken from the entity's components *)
Definition vals (wc : list (N * N)) (ks : list N) : list (N * N) :=
  flat_map (fun k => match map_lookup k wc with Some v => [(k, v)] | None => [] end) ks.

(* what the export pushes for one replicated entity: the kinds the server selects
   (select_components = server_world.rs new_archetype) that are reflectable, in that order,
   with the entity's current values *)
Definition exported (rules : list rule) (reflectable : list N) (e : went) : list (N * N) :=
  vals (w_comps e) (filter (fun k => mem k reflectable) (select_components rules (kinds (w_comps e)))).

(* the components of a scene entity that survive the export: those whose kind is not exported *)
Definition keep_unexported (new old : list (N * N)) : list (N * N) :=
  filter (fun kv => negb (mem (fst kv) (kinds new))) old.

Definition scene_comps (o : option (list (N * N))) : list (N * N) :=
  match o with Some cs => cs | None => [] end.

Definition marked_id (world : list went) (id : N) : Prop :=
  exists e, In e world /\ w_marked e = true /\ w_id e = id.
