From RV Require Import Lib.Res Rules.Rules.
From RV Require Generated.Params.
From Coq Require Import ZifyBool ZifyN ZifyNat.
Open Scope N_scope.
Ltac Zify.zify_post_hook ::= Z.div_mod_to_equations.
Arguments N.add : simpl never. Arguments N.mul : simpl never. Arguments N.pow : simpl never.
Arguments N.ltb : simpl never. Arguments N.leb : simpl never. Arguments N.div : simpl never.
Arguments N.modulo : simpl never. Arguments N.sub : simpl never. Arguments N.eqb : simpl never.
Arguments Nat.div : simpl never. Arguments Nat.leb : simpl never. Arguments Nat.eqb : simpl never.
Arguments Nat.sub : simpl never. Arguments Nat.add : simpl never.

(* ---------- mem ---------- *)
Lemma mem_true_iff k l : mem k l = true <-> In k l.
Proof.
  unfold mem. rewrite existsb_exists. split.
  - intros [x [Hin Heq]]. apply N.eqb_eq in Heq. subst; exact Hin.
  - intros H. exists k. split; [exact H|apply N.eqb_refl].
Qed.

Lemma mem_false_iff k l : mem k l = false <-> ~ In k l.
Proof.
  rewrite <- mem_true_iff. destruct (mem k l); split; intros H; try reflexivity; try discriminate.
  exfalso; apply H; reflexivity.
Qed.

Lemma mem_app k l1 l2 : mem k (l1 ++ l2) = mem k l1 || mem k l2.
Proof. unfold mem. apply existsb_app. Qed.

Lemma NoDup_snoc {A} (x : A) l : NoDup l -> ~ In x l -> NoDup (l ++ [x]).
Proof.
  induction l as [|a l IH]; intros Hnd Hx; cbn [app].
  - constructor; [intros []|constructor].
  - inversion Hnd as [|? ? Ha Hl]; subst. constructor.
    + intros Hin. apply in_app_or in Hin. destruct Hin as [Hin | [<- | []]]; [contradiction|apply Hx; left; reflexivity].
    + apply IH; [exact Hl|]. intros H; apply Hx; right; exact H.
Qed.

(* ---------- sortedness ---------- *)

Lemma sorted_desc_app l1 l2 :
  sorted_desc (l1 ++ l2) <->
  sorted_desc l1 /\ sorted_desc l2 /\ (forall a b, In a l1 -> In b l2 -> r_priority b <= r_priority a).
Proof.
  induction l1 as [|x l1 IH]; cbn [app sorted_desc].
  - split; [intros H; repeat split; auto; intros a b []|intros [_ [H _]]; exact H].
  - rewrite IH. split.
    + intros [Hx [H1 [H2 H12]]]. repeat split; auto.
      * intros b Hb. apply Hx, in_or_app; left; exact Hb.
      * intros a b [<- | Ha] Hb; [apply Hx, in_or_app; right; exact Hb|apply H12; assumption].
    + intros [[Hx H1] [H2 H12]]. repeat split; auto.
      * intros b Hb. apply in_app_or in Hb. destruct Hb as [Hb | Hb]; [apply Hx; exact Hb|apply H12; [left; reflexivity|exact Hb]].
      * intros a b Ha Hb. apply H12; [right; exact Ha|exact Hb].
Qed.

Lemma filter_all_true {A} (f : A -> bool) l : (forall x, In x l -> f x = true) -> filter f l = l.
Proof.
  induction l as [|a l IH]; intros H; cbn [filter]; [reflexivity|].
  rewrite (H a (or_introl eq_refl)). f_equal. apply IH. intros x Hx; apply H; right; exact Hx.
Qed.

Lemma filter_all_false {A} (f : A -> bool) l : (forall x, In x l -> f x = false) -> filter f l = [].
Proof.
  induction l as [|a l IH]; intros H; cbn [filter]; [reflexivity|].
  rewrite (H a (or_introl eq_refl)). apply IH. intros x Hx; apply H; right; exact Hx.
Qed.


(* a list sorted by descending priority is its ">= p" part followed by its "< p" part *)
Lemma sorted_desc_split p l : sorted_desc l -> l = filter (prio_ge p) l ++ filter (prio_lt p) l.
Proof.
  induction l as [|a l IH]; intros Hs; [reflexivity|].
  destruct Hs as [Ha Hs]. cbn [filter]. unfold prio_ge at 1, prio_lt at 1.
  destruct (p <=? r_priority a) eqn:E.
  - replace (r_priority a <? p) with false by lia. cbn [app]. f_equal. apply IH; exact Hs.
  - replace (r_priority a <? p) with true by lia.
    rewrite (filter_all_false (prio_ge p) l), (filter_all_true (prio_lt p) l); [reflexivity| |].
    + intros x Hx. specialize (Ha x Hx). unfold prio_lt. lia.
    + intros x Hx. specialize (Ha x Hx). unfold prio_ge. lia.
Qed.

(* ---------- binary search ---------- *)
Lemma bs_loop_in_bounds {A} (f : A -> comparison) l fuel : forall size base,
  (1 <= size)%nat -> (base + size <= length l)%nat ->
  (bs_loop f l fuel size base < length l)%nat.
Proof.
  induction fuel as [|fuel IH]; intros size base H1 H2; cbn [bs_loop]; [lia|].
  destruct (size <=? 1)%nat eqn:E; [lia|].
  apply IH; [lia|]. destruct (cmp_at f l (base + size / 2)); lia.
Qed.

(* Specification against a partition point n: elements below n compare Less/Equal,
   elements from n on compare Greater.  The loop ends on n - 1 (or 0). *)
Lemma bs_loop_spec {A} (f : A -> comparison) l n :
  (forall i, (i < length l)%nat -> (cmp_at f l i = Gt <-> (n <= i)%nat)) ->
  forall fuel size base,
    (1 <= size)%nat -> (size <= S fuel)%nat -> (base + size <= length l)%nat ->
    (base = 0 \/ base < n)%nat -> (n <= base + size)%nat ->
    bs_loop f l fuel size base = (n - 1)%nat.
Proof.
  intros Hpart. induction fuel as [|fuel IH]; intros size base H1 Hf H2 Hb Hn; cbn [bs_loop]; [lia|].
  destruct (size <=? 1)%nat eqn:E; [lia|].
  assert (Hmid : (base + size / 2 < length l)%nat) by lia.
  specialize (Hpart _ Hmid).
  destruct (cmp_at f l (base + size / 2)) eqn:Ec.
  - apply IH; try lia. right. destruct (Nat.le_gt_cases n (base + size / 2)) as [Hle | Hgt]; [|lia].
    apply Hpart in Hle. discriminate.
  - apply IH; try lia. right. destruct (Nat.le_gt_cases n (base + size / 2)) as [Hle | Hgt]; [|lia].
    apply Hpart in Hle. discriminate.
  - assert ((n <= base + size / 2)%nat) by (apply Hpart; reflexivity).
    apply IH; lia.
Qed.

Lemma binary_search_by_spec {A} (f : A -> comparison) l n :
  l <> [] -> (n <= length l)%nat ->
  (forall i, (i < length l)%nat -> (cmp_at f l i = Gt <-> (n <= i)%nat)) ->
  binary_search_by f l =
    match n with
    | O => NotFound 0
    | S m => match cmp_at f l m with Eq => Found m | _ => NotFound n end
    end.
Proof.
  intros Hne Hn Hpart. unfold binary_search_by.
  destruct l as [|a l']; [contradiction|]. set (l := a :: l') in *.
  assert (Hlen : (1 <= length l)%nat) by (cbn [length l]; lia).
  replace (length l =? 0)%nat with false by lia.
  rewrite (bs_loop_spec f l n Hpart) by lia.
  destruct n as [|m].
  - replace (0 - 1)%nat with 0%nat by lia.
    assert (cmp_at f l 0 = Gt) as -> by (apply Hpart; lia). reflexivity.
  - replace (S m - 1)%nat with m by lia.
    destruct (cmp_at f l m) eqn:E; try reflexivity.
    + f_equal; lia.
    + exfalso. assert (Hm : (m < length l)%nat) by lia. apply (Hpart _ Hm) in E. lia.
Qed.

(* general bound, no sortedness assumption *)
Lemma binary_search_by_bounds {A} (f : A -> comparison) l :
  match binary_search_by f l with
  | Found i => (i < length l)%nat
  | NotFound i => (i <= length l)%nat
  end.
Proof.
  unfold binary_search_by. destruct (length l =? 0)%nat eqn:E; [lia|].
  pose proof (bs_loop_in_bounds f l (length l) (length l) 0) as Hb.
  assert (1 <= length l)%nat by lia. specialize (Hb ltac:(lia) ltac:(lia)).
  destruct (cmp_at f l (bs_loop f l (length l) (length l) 0)); lia.
Qed.

Lemma cmp_at_app1 {A} (f : A -> comparison) l1 l2 i : (i < length l1)%nat ->
  exists x, In x l1 /\ nth_error l1 i = Some x /\ cmp_at f (l1 ++ l2) i = f x.
Proof.
  intros Hi. unfold cmp_at. rewrite nth_error_app1 by exact Hi.
  destruct (nth_error l1 i) as [x|] eqn:E.
  - exists x. split; [eapply nth_error_In; exact E|split; reflexivity].
  - apply nth_error_None in E. lia.
Qed.

Lemma cmp_at_app2 {A} (f : A -> comparison) l1 l2 i : (length l1 <= i)%nat -> (i < length (l1 ++ l2))%nat ->
  exists x, In x l2 /\ cmp_at f (l1 ++ l2) i = f x.
Proof.
  intros Hi Hlen. unfold cmp_at. rewrite nth_error_app2 by exact Hi.
  rewrite app_length in Hlen.
  destruct (nth_error l2 (i - length l1)) as [x|] eqn:E.
  - exists x. split; [eapply nth_error_In; exact E|reflexivity].
  - apply nth_error_None in E. lia.
Qed.

(* On a list sorted by descending priority, written as A ++ B with A = the rules of priority >= p
   and B = those of priority < p, the search for p answers Found (|A| - 1) when some rule has
   priority p (so: the LAST rule of the run of equal priorities), NotFound |A| otherwise. *)
Lemma sorted_desc_last_le A : sorted_desc A -> forall j m x y, (j <= m)%nat ->
  nth_error A j = Some x -> nth_error A m = Some y -> r_priority y <= r_priority x.
Proof.
  induction A as [|a A IH]; intros HsA j m x y Hjm Hj Hm; [destruct j; discriminate|].
  destruct HsA as [Ha HsA]. destruct j as [|j].
  - inversion Hj; subst. destruct m as [|m]; [inversion Hm; lia|]. apply Ha. eapply nth_error_In; exact Hm.
  - destruct m as [|m]; [lia|]. apply (IH HsA j m); auto; lia.
Qed.

Lemma binary_search_rules_AB p A B :
  (forall x, In x A -> p <= r_priority x) -> (forall x, In x B -> r_priority x < p) -> sorted_desc A ->
  binary_search_by (rule_cmp p) (A ++ B) =
    if existsb (fun r => r_priority r =? p) A then Found (length A - 1) else NotFound (length A).
Proof.
  intros HA HB HsA. set (n := length A).
  destruct (A ++ B) as [|a0 l0] eqn:El.
  { apply app_eq_nil in El. destruct El as [-> ->]. reflexivity. }
  rewrite <- El. assert (Hne : A ++ B <> []) by (rewrite El; discriminate). clear El a0 l0.
  assert (Hpart : forall i, (i < length (A ++ B))%nat -> (cmp_at (rule_cmp p) (A ++ B) i = Gt <-> (n <= i)%nat)).
  { intros i Hi. destruct (Nat.lt_ge_cases i n) as [Hlt | Hge].
    - destruct (cmp_at_app1 (rule_cmp p) A B i Hlt) as [x [Hx [_ ->]]].
      specialize (HA x Hx). unfold rule_cmp. split; [|lia].
      intros Hc. apply N.compare_gt_iff in Hc. lia.
    - destruct (cmp_at_app2 (rule_cmp p) A B i Hge Hi) as [x [Hx ->]].
      specialize (HB x Hx). unfold rule_cmp. split; [intros _; exact Hge|].
      intros _. apply N.compare_gt_iff. exact HB. }
  assert (Hn : (n <= length (A ++ B))%nat) by (rewrite app_length; lia).
  rewrite (binary_search_by_spec (rule_cmp p) (A ++ B) n Hne Hn Hpart).
  destruct (existsb (fun r => r_priority r =? p) A) eqn:Eex.
  - apply existsb_exists in Eex. destruct Eex as [x [HxA Hpx]].
    destruct n as [|m] eqn:En; [destruct A; [destruct HxA|discriminate]|].
    assert (Hm : (m < length A)%nat) by (fold n; lia).
    destruct (cmp_at_app1 (rule_cmp p) A B m Hm) as [y [Hy [Hnth ->]]].
    replace (S m - 1)%nat with m by lia.
    assert (Hyp : r_priority y = p).
    { specialize (HA y Hy).
      assert (r_priority y <= r_priority x); [|lia].
      destruct (In_nth_error A x HxA) as [j Hj].
      assert (Hjm : (j <= m)%nat).
      { assert (j < length A)%nat by (apply nth_error_Some; rewrite Hj; discriminate). fold n in H. lia. }
      exact (sorted_desc_last_le A HsA j m x y Hjm Hj Hnth). }
    unfold rule_cmp. rewrite Hyp, N.compare_refl. reflexivity.
  - destruct n as [|m] eqn:En; [reflexivity|].
    assert (Hm : (m < length A)%nat) by (fold n; lia).
    destruct (cmp_at_app1 (rule_cmp p) A B m Hm) as [y [Hy [_ ->]]].
    assert (r_priority y <> p).
    { intros Heq. assert (existsb (fun r => r_priority r =? p) A = true); [|congruence].
      apply existsb_exists. exists y. split; [exact Hy|lia]. }
    unfold rule_cmp. destruct (p ?= r_priority y) eqn:Ec; try reflexivity.
    apply N.compare_eq_iff in Ec. congruence.
Qed.

(* ---------- position / vec_insert ---------- *)
Lemma position_lt {A} (p : A -> bool) l k : position p l = Some k -> (k < length l)%nat.
Proof.
  revert k; induction l as [|a l IH]; intros k; cbn [position length]; [discriminate|].
  destruct (p a); [intros H; inversion H; lia|].
  destruct (position p l) as [k'|]; cbn [option_map]; [|discriminate].
  intros H; inversion H. specialize (IH k' eq_refl). lia.
Qed.

Lemma position_all_false {A} (p : A -> bool) l : (forall x, In x l -> p x = false) -> position p l = None.
Proof.
  induction l as [|a l IH]; intros H; cbn [position]; [reflexivity|].
  rewrite (H a (or_introl eq_refl)), IH; [reflexivity|]. intros x Hx; apply H; right; exact Hx.
Qed.

Lemma vec_insert_ok {A} i (x : A) l : (i <= length l)%nat ->
  vec_insert i x l = Ok (firstn i l ++ x :: skipn i l).
Proof. intros H. unfold vec_insert. replace (i <=? length l)%nat with true by lia. reflexivity. Qed.

Lemma vec_insert_app {A} (x : A) l1 l2 : vec_insert (length l1) x (l1 ++ l2) = Ok (l1 ++ x :: l2).
Proof.
  rewrite vec_insert_ok by (rewrite app_length; lia).
  rewrite firstn_app, skipn_app, Nat.sub_diag, firstn_all, skipn_all. cbn [firstn skipn].
  rewrite app_nil_r. reflexivity.
Qed.

(* ---------- ReplicationRules::insert ---------- *)
(* never panics, on any list: the rule is inserted somewhere, nothing else changes *)
Lemma rules_insert_ok rules r :
  exists l1 l2, rules = l1 ++ l2 /\ rules_insert rules r = Ok (l1 ++ r :: l2).
Proof.
  unfold rules_insert. pose proof (binary_search_by_bounds (rule_cmp (r_priority r)) rules) as Hb.
  destruct (binary_search_by (rule_cmp (r_priority r)) rules) as [i | i].
  - unfold insert_found.
    set (pos := position _ _).
    assert (Hk : (i + match pos with Some k => k | None => 0%nat end + 1 <= length rules)%nat).
    { destruct pos as [k|] eqn:Ep; [|lia]. apply position_lt in Ep. rewrite skipn_length in Ep. lia. }
    rewrite vec_insert_ok by exact Hk.
    eexists _, _. split; [|reflexivity]. symmetry; apply firstn_skipn.
  - rewrite vec_insert_ok by exact Hb. eexists _, _. split; [|reflexivity]. symmetry; apply firstn_skipn.
Qed.

Lemma rules_insert_never_panics rules r : rules_insert rules r <> Panic.
Proof. destruct (rules_insert_ok rules r) as [l1 [l2 [_ ->]]]. discriminate. Qed.

(* the `Ok(index)` arm in general: where the rule lands for ANY index the search could report *)
Lemma insert_found_next_differs rules r index k :
  position (fun o => negb (r_priority o =? r_priority r)) (skipn (index + 1) rules) = Some k ->
  insert_found rules r index =
    Ok (firstn (index + k + 1) rules ++ r :: skipn (index + k + 1) rules).
Proof.
  intros Hp. unfold insert_found. rewrite Hp. apply vec_insert_ok.
  apply position_lt in Hp. rewrite skipn_length in Hp. lia.
Qed.

(* the `unwrap_or_default` case: the run of equal priorities extends to the end of the vector;
   the rule is put directly after `index`, not after the run *)
Lemma insert_found_run_to_end rules r index : (index < length rules)%nat ->
  (forall o, In o (skipn (index + 1) rules) -> r_priority o = r_priority r) ->
  insert_found rules r index = Ok (firstn (index + 1) rules ++ r :: skipn (index + 1) rules).
Proof.
  intros Hi Hall. unfold insert_found. rewrite position_all_false.
  - replace (index + 0 + 1)%nat with (index + 1)%nat by lia. apply vec_insert_ok. lia.
  - intros x Hx. rewrite (Hall x Hx), N.eqb_refl. reflexivity.
Qed.

(* On a sorted list (the only lists the crate ever builds) the present binary search reports
   the last rule of the run, so both cases above put the rule after ALL rules of priority >= its own:
   descending order is kept and creation order among equal priorities is preserved. *)
Lemma rules_insert_AB A B r :
  (forall x, In x A -> r_priority r <= r_priority x) -> (forall x, In x B -> r_priority x < r_priority r) ->
  sorted_desc A -> rules_insert (A ++ B) r = Ok (A ++ r :: B).
Proof.
  intros HA HB HsA. set (p := r_priority r) in *.
  unfold rules_insert. fold p. rewrite (binary_search_rules_AB p A B HA HB HsA).
  destruct (existsb (fun r0 => r_priority r0 =? p) A) eqn:Eex.
  - assert (HAne : (1 <= length A)%nat).
    { apply existsb_exists in Eex. destruct Eex as [x [HxA _]].
      destruct A; [destruct HxA|cbn [length]; lia]. }
    assert (Hskip : skipn (length A - 1 + 1) (A ++ B) = B).
    { replace (length A - 1 + 1)%nat with (length A) by lia.
      rewrite skipn_app, Nat.sub_diag, skipn_all. reflexivity. }
    unfold insert_found. rewrite Hskip. fold p.
    assert (Hpos : match position (fun o => negb (r_priority o =? p)) B with Some k => k | None => 0%nat end = 0%nat).
    { destruct B as [|b B']; [reflexivity|]. cbn [position].
      specialize (HB b (or_introl eq_refl)). replace (r_priority b =? p) with false by lia. reflexivity. }
    rewrite Hpos. replace (length A - 1 + 0 + 1)%nat with (length A) by lia.
    apply vec_insert_app.
  - apply vec_insert_app.
Qed.

Theorem rules_insert_sorted_spec rules r : sorted_desc rules ->
  rules_insert rules r =
    Ok (filter (prio_ge (r_priority r)) rules ++ r :: filter (prio_lt (r_priority r)) rules).
Proof.
  intros Hs. set (p := r_priority r).
  pose proof (sorted_desc_split p rules Hs) as Hsplit.
  transitivity (rules_insert (filter (prio_ge p) rules ++ filter (prio_lt p) rules) r);
    [f_equal; exact Hsplit|].
  apply rules_insert_AB.
  - intros x Hx. apply filter_In in Hx. destruct Hx as [_ Hx]. unfold prio_ge in Hx. fold p. lia.
  - intros x Hx. apply filter_In in Hx. destruct Hx as [_ Hx]. unfold prio_lt in Hx. fold p. lia.
  - assert (Hs' : sorted_desc (filter (prio_ge p) rules ++ filter (prio_lt p) rules)) by (rewrite <- Hsplit; exact Hs).
    apply sorted_desc_app in Hs'. tauto.
Qed.

Theorem rules_insert_keeps_sorted rules r rules' : sorted_desc rules ->
  rules_insert rules r = Ok rules' -> sorted_desc rules'.
Proof.
  intros Hs. rewrite (rules_insert_sorted_spec rules r Hs). intros H; inversion H; subst rules'. clear H.
  set (p := r_priority r). pose proof (sorted_desc_split p rules Hs) as Hsplit.
  assert (Hs' : sorted_desc (filter (prio_ge p) rules ++ filter (prio_lt p) rules)) by (rewrite <- Hsplit; exact Hs).
  apply sorted_desc_app in Hs'. destruct Hs' as [HsA [HsB HAB]].
  apply sorted_desc_app. split; [exact HsA|]. split.
  - cbn [sorted_desc]. split; [|exact HsB].
    intros b Hb. apply filter_In in Hb. destruct Hb as [_ Hb]. unfold prio_lt in Hb. lia.
  - intros a b Ha [<- | Hb].
    + apply filter_In in Ha. destruct Ha as [_ Ha]. unfold prio_ge in Ha. fold p. lia.
    + apply HAB; assumption.
Qed.

Lemma rules_insert_all_sorted new : forall rules, sorted_desc rules ->
  exists rules', rules_insert_all rules new = Ok rules' /\ sorted_desc rules'.
Proof.
  induction new as [|r new IH]; intros rules Hs; cbn [rules_insert_all].
  - exists rules; split; [reflexivity|exact Hs].
  - pose proof (rules_insert_sorted_spec rules r Hs) as E. rewrite E. cbn [bind].
    apply IH. eapply rules_insert_keeps_sorted; [exact Hs|exact E].
Qed.

(* ---------- matching ---------- *)
Lemma rule_matches_iff r archetype :
  rule_matches r archetype = true <-> (forall c, In c (r_comps r) -> In c archetype).
Proof.
  unfold rule_matches. rewrite forallb_forall. split; intros H c Hc.
  - apply mem_true_iff, H, Hc.
  - apply mem_true_iff, H, Hc.
Qed.

Lemma matches_removals_loop_iff cs post removed b :
  matches_removals_loop cs post removed b = true <->
  (forall c, In c cs -> In c removed \/ In c post) /\ (b = true \/ exists c, In c cs /\ In c removed).
Proof.
  revert b; induction cs as [|c cs IH]; intros b; cbn [matches_removals_loop].
  - split; [intros ->; split; [intros c []|left; reflexivity]|].
    intros [_ [H | [c [[] _]]]]; exact H.
  - destruct (mem c removed) eqn:Er.
    + apply mem_true_iff in Er. rewrite IH. split.
      * intros [H1 _]. split; [intros c' [<- | Hc']; [left; exact Er|apply H1; exact Hc']|].
        right. exists c. split; [left; reflexivity|exact Er].
      * intros [H1 _]. split; [intros c' Hc'; apply H1; right; exact Hc'|left; reflexivity].
    + apply mem_false_iff in Er. destruct (mem c post) eqn:Ep; cbn [negb].
      * apply mem_true_iff in Ep. rewrite IH. split.
        -- intros [H1 H2]. split; [intros c' [<- | Hc']; [right; exact Ep|apply H1; exact Hc']|].
           destruct H2 as [H2 | [c' [Hc' Hr]]]; [left; exact H2|right; exists c'; split; [right; exact Hc'|exact Hr]].
        -- intros [H1 H2]. split; [intros c' Hc'; apply H1; right; exact Hc'|].
           destruct H2 as [H2 | [c' [[<- | Hc'] Hr]]]; [left; exact H2|contradiction|right; exists c'; split; assumption].
      * apply mem_false_iff in Ep. split; [discriminate|].
        intros [H1 _]. destruct (H1 c (or_introl eq_refl)); contradiction.
Qed.

(* doc comment of matches_removals: all components in removed or in the archetype, at least one removed *)
Lemma rule_matches_removals_iff r post removed :
  rule_matches_removals r post removed = true <->
  (forall c, In c (r_comps r) -> In c removed \/ In c post) /\ (exists c, In c (r_comps r) /\ In c removed).
Proof.
  unfold rule_matches_removals. rewrite matches_removals_loop_iff. split.
  - intros [H1 [H2 | H2]]; [discriminate|split; assumption].
  - intros [H1 H2]. split; [exact H1|right; exact H2].
Qed.

(* ---------- component selection ---------- *)
Lemma fold_left_flat_map {A B C} (g : A -> C -> A) (h : B -> list C) (l : list B) : forall a,
  fold_left (fun acc b => fold_left g (h b) acc) l a = fold_left g (flat_map h l) a.
Proof.
  induction l as [|b l IH]; intros a; cbn [fold_left flat_map]; [reflexivity|].
  rewrite fold_left_app. apply IH.
Qed.


Lemma fold_push_new_news cs : forall acc, fold_left push_new cs acc = acc ++ news acc cs.
Proof.
  induction cs as [|c cs IH]; intros acc; cbn [fold_left news]; [symmetry; apply app_nil_r|].
  unfold push_new at 2. destruct (mem c acc); [apply IH|].
  rewrite IH, <- app_assoc. reflexivity.
Qed.

Lemma news_In cs : forall acc k, In k (news acc cs) <-> In k cs /\ ~ In k acc.
Proof.
  induction cs as [|c cs IH]; intros acc k; cbn [news].
  - split; [intros []|intros [[] _]].
  - destruct (mem c acc) eqn:E.
    + apply mem_true_iff in E. rewrite IH. split.
      * intros [H1 H2]. split; [right; exact H1|exact H2].
      * intros [[<- | H1] H2]; [contradiction|split; assumption].
    + apply mem_false_iff in E. cbn [In]. rewrite IH. split.
      * intros [<- | [H1 H2]]; [split; [left; reflexivity|exact E]|].
        split; [right; exact H1|]. intros Hk; apply H2, in_or_app; left; exact Hk.
      * intros [[<- | H1] H2]; [left; reflexivity|].
        destruct (N.eq_dec c k) as [-> | Hne]; [left; reflexivity|right].
        split; [exact H1|]. intros Hk. apply in_app_or in Hk. destruct Hk as [Hk | [Hk | []]]; [contradiction|congruence].
Qed.

Lemma news_NoDup cs : forall acc, NoDup (news acc cs).
Proof.
  induction cs as [|c cs IH]; intros acc; cbn [news]; [constructor|].
  destruct (mem c acc); [apply IH|]. constructor; [|apply IH].
  intros H. apply news_In in H. destruct H as [_ H]. apply H, in_or_app. right; left; reflexivity.
Qed.


Lemma select_components_news rules archetype :
  select_components rules archetype = news [] (selected_from rules archetype).
Proof.
  unfold select_components, selected_from. rewrite fold_left_flat_map, fold_push_new_news. reflexivity.
Qed.

Lemma select_components_NoDup rules archetype : NoDup (select_components rules archetype).
Proof. rewrite select_components_news. apply news_NoDup. Qed.

(* a kind is selected iff some matching rule names it *)
Lemma select_components_In rules archetype k :
  In k (select_components rules archetype) <->
  exists r, In r rules /\ rule_matches r archetype = true /\ In k (r_comps r).
Proof.
  rewrite select_components_news, news_In. unfold selected_from, matching_rules. rewrite in_flat_map. split.
  - intros [[r [Hr Hk]] _]. apply filter_In in Hr. exists r. tauto.
  - intros [r [Hr [Hm Hk]]]. split; [|intros []]. exists r. split; [apply filter_In; split; assumption|exact Hk].
Qed.

(* only components the archetype has are selected *)
Lemma select_components_incl rules archetype k :
  In k (select_components rules archetype) -> In k archetype.
Proof.
  intros H. apply select_components_In in H. destruct H as [r [_ [Hm Hk]]].
  apply (proj1 (rule_matches_iff r archetype) Hm k Hk).
Qed.

(* ---------- association lists ---------- *)
Lemma map_lookup_None {V} k (m : list (N * V)) : map_lookup k m = None <-> ~ In k (map fst m).
Proof.
  induction m as [|[k' v] m IH]; cbn [map_lookup map fst In]; [tauto|].
  destruct (k' =? k) eqn:E.
  - split; [discriminate|]. intros H; exfalso; apply H; left; lia.
  - rewrite IH. split; [intros H [H' | H']; [lia|contradiction]|tauto].
Qed.

Lemma map_lookup_Some_In {V} k (m : list (N * V)) v : map_lookup k m = Some v -> In (k, v) m.
Proof.
  induction m as [|[k' v'] m IH]; cbn [map_lookup In]; [discriminate|].
  destruct (k' =? k) eqn:E.
  - intros H; inversion H; subst. left. f_equal. lia.
  - intros H; right; apply IH; exact H.
Qed.

Lemma In_map_lookup {V} k (m : list (N * V)) v : NoDup (map fst m) -> In (k, v) m -> map_lookup k m = Some v.
Proof.
  induction m as [|[k' v'] m IH]; cbn [map_lookup In map fst]; intros Hnd Hin; [destruct Hin|].
  inversion Hnd as [|? ? Hk' Hm]; subst. destruct Hin as [Heq | Hin].
  - inversion Heq; subst. rewrite N.eqb_refl. reflexivity.
  - destruct (k' =? k) eqn:E; [|apply IH; assumption].
    exfalso. apply Hk'. assert (k' = k) as -> by lia. apply (in_map fst) in Hin. exact Hin.
Qed.

Lemma map_lookup_app {V} k (m m' : list (N * V)) :
  map_lookup k (m ++ m') = match map_lookup k m with Some v => Some v | None => map_lookup k m' end.
Proof.
  induction m as [|[k' v] m IH]; cbn [map_lookup app]; [reflexivity|].
  destruct (k' =? k); [reflexivity|exact IH].
Qed.

Lemma map_update_keys {V} k (f : V -> V) m : map fst (map_update k f m) = map fst m.
Proof.
  induction m as [|[k' v] m IH]; cbn [map_update map fst]; [reflexivity|].
  destruct (k' =? k); cbn [map fst]; [reflexivity|f_equal; exact IH].
Qed.

Lemma map_lookup_update_same {V} k (f : V -> V) m :
  map_lookup k (map_update k f m) = option_map f (map_lookup k m).
Proof.
  induction m as [|[k' v] m IH]; cbn [map_update map_lookup option_map]; [reflexivity|].
  destruct (k' =? k) eqn:E; cbn [map_lookup]; rewrite E; [reflexivity|exact IH].
Qed.

Lemma map_lookup_update_other {V} k k2 (f : V -> V) m : k2 <> k ->
  map_lookup k2 (map_update k f m) = map_lookup k2 m.
Proof.
  intros Hne. induction m as [|[k' v] m IH]; cbn [map_update map_lookup]; [reflexivity|].
  destruct (k' =? k) eqn:E; cbn [map_lookup].
  - replace (k' =? k2) with false by lia. reflexivity.
  - destruct (k' =? k2); [reflexivity|exact IH].
Qed.


Lemma NoDup_app_intro {A} (l1 l2 : list A) :
  NoDup l1 -> NoDup l2 -> (forall x, In x l1 -> ~ In x l2) -> NoDup (l1 ++ l2).
Proof.
  induction l1 as [|a l1 IH]; intros H1 H2 H12; cbn [app]; [exact H2|].
  inversion H1 as [|? ? Ha Hl]; subst. constructor.
  - intros Hin. apply in_app_or in Hin. destruct Hin as [Hin | Hin]; [contradiction|].
    apply (H12 a); [left; reflexivity|exact Hin].
  - apply IH; [exact Hl|exact H2|]. intros x Hx; apply H12; right; exact Hx.
Qed.

(* merging with `push_new`: union, no kind twice, old entries keep their place *)
Lemma fold_push_new_spec cs acc : NoDup acc ->
  NoDup (fold_left push_new cs acc) /\
  (forall k, In k (fold_left push_new cs acc) <-> In k acc \/ In k cs) /\
  exists added, fold_left push_new cs acc = acc ++ added.
Proof.
  intros Hnd. rewrite fold_push_new_news. split; [|split].
  - apply NoDup_app_intro; [exact Hnd|apply news_NoDup|].
    intros x Hx Hn. apply news_In in Hn. tauto.
  - intros k. rewrite in_app_iff, news_In. split; [tauto|].
    intros [H | H]; [left; exact H|]. destruct (in_dec N.eq_dec k acc); tauto.
  - eexists; reflexivity.
Qed.

Lemma news_fresh cs : forall acc, NoDup cs -> (forall k, In k cs -> ~ In k acc) -> news acc cs = cs.
Proof.
  induction cs as [|c cs IH]; intros acc Hnd Hf; cbn [news]; [reflexivity|].
  inversion Hnd as [|? ? Hc Hcs]; subst.
  assert (E : mem c acc = false) by (apply mem_false_iff, Hf; left; reflexivity).
  rewrite E. f_equal. apply IH; [exact Hcs|].
  intros k Hk Hin. apply in_app_or in Hin. destruct Hin as [Hin | [<- | []]]; [|contradiction].
  apply (Hf k); [right; exact Hk|exact Hin].
Qed.

(* ---------- RemovalBuffer::update: the ids registered for one call ---------- *)
Lemma fold_removal_push_spec removed cs : forall ids,
  NoDup ids -> (forall k, In k ids -> In k removed) ->
  let ids' := fold_left (removal_push removed) cs ids in
  NoDup ids' /\ (forall k, In k ids' <-> In k ids \/ (In k cs /\ In k removed)).
Proof.
  induction cs as [|c cs IH]; intros ids Hnd Hsub; cbn [fold_left].
  - split; [exact Hnd|]. intros k. split; [left; assumption|intros [H | [[] _]]; exact H].
  - unfold removal_push at 2 4. destruct (mem c ids) eqn:Ei; cbn [negb andb].
    + apply mem_true_iff in Ei. destruct (IH ids Hnd Hsub) as [H1 H2]. split; [exact H1|].
      intros k. rewrite H2. split.
      * intros [H | [H3 H4]]; [left; exact H|right; split; [right; exact H3|exact H4]].
      * intros [H | [[<- | H3] H4]]; [left; exact H|left; exact Ei|right; split; assumption].
    + apply mem_false_iff in Ei. destruct (mem c removed) eqn:Er.
      * apply mem_true_iff in Er.
        assert (Hnd' : NoDup (ids ++ [c])) by (apply NoDup_snoc; assumption).
        assert (Hsub' : forall k, In k (ids ++ [c]) -> In k removed).
        { intros k Hk. apply in_app_or in Hk. destruct Hk as [Hk | [<- | []]]; [apply Hsub; exact Hk|exact Er]. }
        destruct (IH _ Hnd' Hsub') as [H1 H2]. split; [exact H1|].
        intros k. rewrite H2. split.
        -- intros [H | [H3 H4]].
           ++ apply in_app_or in H. destruct H as [H | [<- | []]]; [left; exact H|right; split; [left; reflexivity|exact Er]].
           ++ right; split; [right; exact H3|exact H4].
        -- intros [H | [[<- | H3] H4]].
           ++ left. apply in_or_app. left; exact H.
           ++ left. apply in_or_app. right; left; reflexivity.
           ++ right; split; assumption.
      * apply mem_false_iff in Er. destruct (IH ids Hnd Hsub) as [H1 H2]. split; [exact H1|].
        intros k. rewrite H2. split.
        -- intros [H | [H3 H4]]; [left; exact H|right; split; [right; exact H3|exact H4]].
        -- intros [H | [[<- | H3] H4]]; [left; exact H|contradiction|right; split; assumption].
Qed.

(* removal_ids: no kind twice; exactly the removed kinds named by a rule that matches_removals *)
Lemma removal_ids_spec rules archetype removed :
  NoDup (removal_ids rules archetype removed) /\
  forall k, In k (removal_ids rules archetype removed) <->
            In k removed /\ exists r, In r rules /\ rule_matches_removals r archetype removed = true /\ In k (r_comps r).
Proof.
  unfold removal_ids. rewrite fold_left_flat_map.
  destruct (fold_removal_push_spec removed
              (flat_map r_comps (filter (fun r => rule_matches_removals r archetype removed) rules)) [])
    as [H1 H2]; [constructor|intros k []|].
  split; [exact H1|]. intros k. rewrite H2, in_flat_map. split.
  - intros [[] | [[r [Hr Hk]] Hrem]]. apply filter_In in Hr. split; [exact Hrem|exists r; tauto].
  - intros [Hrem [r [Hr [Hm Hk]]]]. right. split; [|exact Hrem].
    exists r. split; [apply filter_In; split; assumption|exact Hk].
Qed.

(* RemovalBuffer::update as a whole: the entity's buffered ids become (old ids, or none) merged
   with this call's ids; nothing is overwritten (the merge that was added); other entities untouched *)
Theorem removal_update_lookup removals rules archetype entity removed :
  let ids := removal_ids rules archetype removed in
  let old := match map_lookup entity removals with Some b => b | None => [] end in
  map_lookup entity (removal_update removals rules archetype entity removed) =
    match ids with
    | [] => map_lookup entity removals
    | _ => Some (fold_left push_new ids old)
    end.
Proof.
  intros ids old. unfold removal_update. fold ids.
  destruct ids as [|i ids'] eqn:Ei; [reflexivity|]. rewrite <- Ei.
  unfold old. destruct (map_lookup entity removals) as [b|] eqn:El.
  - rewrite map_lookup_update_same, El. reflexivity.
  - rewrite map_lookup_app, El. cbn [map_lookup]. rewrite N.eqb_refl. f_equal.
    rewrite fold_push_new_news. cbn [app]. symmetry. apply news_fresh; [|intros k _ []].
    unfold ids. apply removal_ids_spec.
Qed.

Theorem removal_update_other removals rules archetype entity removed e2 : e2 <> entity ->
  map_lookup e2 (removal_update removals rules archetype entity removed) = map_lookup e2 removals.
Proof.
  intros Hne. unfold removal_update.
  destruct (removal_ids rules archetype removed) as [|i ids'] eqn:Ei; [reflexivity|].
  destruct (map_lookup entity removals) as [b|] eqn:El.
  - apply map_lookup_update_other; exact Hne.
  - rewrite map_lookup_app. destruct (map_lookup e2 removals); [reflexivity|].
    cbn [map_lookup]. replace (entity =? e2) with false by lia. reflexivity.
Qed.

(* default priority of a single-component rule: re-read from the source on every run *)
Lemma default_priority_pinned : RV.Generated.Params.default_priority_single = 1.
Proof. reflexivity. Qed.
