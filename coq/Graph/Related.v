(* Relation graph of entities replicated in sync: src/server/related_entities.rs
   (`RelatedEntities`: `add_relation`, `remove_relation`, `register_entity`, `is_orphan`,
   `remove_entity`, `rebuild_graphs`, `graph_index`, `graphs_count`, `clear`) and the hook
   `related_entities::verif::Graph` (`add`, `remove`, `indices`, `clear`).

   Entities and relation kinds (`TypeId`) are `N`.  The petgraph `StableUnGraph<Entity, TypeId>`
   together with the two maps `entity_to_node` / `node_to_entity` is abstracted to
     g_nodes : the registered entities, in registration order (one graph node per entity),
     g_edges : the multiset of edges (source, target, kind), in insertion order
               (`add_edge` always adds, so parallel edges and self-loops are possible).
   Node / edge indices, their free lists and `remove_buffer` are not modelled: nothing observable
   through `graph_index` / `graphs_count` depends on them except the NUMBERING of the graphs
   (the order in which `TarjanScc` reports components), which is deliberately left out:
   the observables are `has_index`, `same_graph` and `graphs_count`.

   petgraph 0.8.3, `StableGraph` with `Ty = Undirected` (graph_impl/stable_graph/mod.rs):
   * `edges_directed(a, dir)` walks the list of edges stored with `a` first (`next[0]`) and then
     the list of edges stored with `a` second (`next[1]`), skipping in the second list the edges
     whose first node is `a` (self-loops, already seen); the reported pair is oriented so that
     `node[0] = a` for `Outgoing` (and `node[1] = a` for `Incoming`).  So for both directions it
     yields every edge incident to `a` exactly once, a self-loop included.
   * `edges_connecting(a, b)` = `edges_directed(a, Outgoing)` filtered by `node[1] == b`:
     every edge between `a` and `b` whatever the order in which the endpoints were given to
     `add_edge`; for `a == b` the self-loops of `a`.
   * `edge_endpoints(e)` = the endpoints in the order given to `add_edge`.  Since commit 9283409
     `remove_relation` keeps only the edges stored from source to target.
   * `remove_node` first removes every edge incident to the node; it returns `None` without
     touching anything when the node is vacant.
   * `TarjanScc::run` on an undirected graph reports the connected components (`neighbors`
     yields both directions); `rebuild_graphs` numbers them 0, 1, ... in reporting order.
   `rebuild_needed`: set by every `add_relation` and by every `remove_relation` that passes the
   two lookups; the hook calls `rebuild_graphs` before every query, and `clear` empties
   `entity_graphs` itself, so the observables are always those of the current graph.

   Definitions only; lemmas are in Related_proofs.v. *)
From RV Require Import Lib.Res.
Open Scope N_scope.

(* ---------- state ---------- *)

(* (source, target, kind) *)
Definition edge := (N * N * N)%type.
Definition edge_source (e : edge) : N := fst (fst e).
Definition edge_target (e : edge) : N := snd (fst e).
Definition edge_kind (e : edge) : N := snd e.

Record rgraph := { g_edges : list edge; g_nodes : list N }.

(* `RelatedEntities::default()` *)
Definition rgraph_empty : rgraph := {| g_edges := []; g_nodes := [] |}.

(* `entity_to_node.get(&entity).is_some()` *)
Definition registered (g : rgraph) (e : N) : bool := existsb (N.eqb e) (g_nodes g).

(* ---------- add ---------- *)

(* `register_entity`: a node is added only for an entity that has none *)
Definition register_entity (g : rgraph) (e : N) : rgraph :=
  if registered g e then g
  else {| g_edges := g_edges g; g_nodes := g_nodes g ++ [e] |}.

(* `add_relation::<C>(source, target)` with `kind = TypeId::of::<C>()` *)
Definition add_relation (g : rgraph) (kind source target : N) : rgraph :=
  let g1 := register_entity g source in
  let g2 := register_entity g1 target in
  {| g_edges := g_edges g2 ++ [(source, target, kind)]; g_nodes := g_nodes g2 |}.

(* ---------- remove ---------- *)

(* the edge lies between a and b (membership in `edges_connecting(a, b)`) *)
Definition connects (a b : N) (e : edge) : bool :=
  ((edge_source e =? a) && (edge_target e =? b)) || ((edge_source e =? b) && (edge_target e =? a)).

(* the edge is in `edges_directed(n, _)` *)
Definition incident (n : N) (e : edge) : bool := (edge_source e =? n) || (edge_target e =? n).

(* `is_orphan`: no incoming and no outgoing edge.  Also true for an entity whose node has just been
   removed (`edges_directed` of a vacant node is empty). *)
Definition is_orphan (g : rgraph) (n : N) : bool := negb (existsb (incident n) (g_edges g)).

(* `remove_entity`: `graph.remove_node` drops the node with all its edges; the maps forget it.
   A second call for the same entity changes nothing. *)
Definition remove_entity (g : rgraph) (n : N) : rgraph :=
  {| g_edges := filter (fun e => negb (incident n e)) (g_edges g);
     g_nodes := filter (fun x => negb (x =? n)) (g_nodes g) |}.

(* `graph.edge_endpoints(e.id()) == Some((source_node, target_node))`: the edge is STORED from
   source to target (`add_edge(source_node, target_node, ..)` stores the endpoints as given) *)
Definition stored_as (a b : N) (e : edge) : bool := (edge_source e =? a) && (edge_target e =? b).

(* the edges put into `remove_buffer`:
   edges_connecting(source, target).filter(weight == type_id).filter(edge_endpoints == (source, target)) *)
Definition to_remove (kind source target : N) (e : edge) : bool :=
  connects source target e && (edge_kind e =? kind) && stored_as source target e.

(* `remove_relation::<C>(source, target)` *)
Definition remove_relation (g : rgraph) (kind source target : N) : rgraph :=
  if negb (registered g source) then g
  else if negb (registered g target) then g
  else
    let g1 := {| g_edges := filter (fun e => negb (to_remove kind source target e)) (g_edges g);
                 g_nodes := g_nodes g |} in
    let g2 := if is_orphan g1 target then remove_entity g1 target else g1 in
    let g3 := if is_orphan g2 source then remove_entity g2 source else g2 in
    g3.

(* `clear` *)
Definition clear (g : rgraph) : rgraph := rgraph_empty.

(* ---------- rebuild_graphs ---------- *)

(* A labelling maps every registered entity to a representative entity of its graph. *)
Definition labelling := list (N * N).

Fixpoint lookup (x : N) (l : labelling) : option N :=
  match l with
  | [] => None
  | (k, v) :: l' => if k =? x then Some v else lookup x l'
  end.

Definition relabel (from to : N) (l : labelling) : labelling :=
  map (fun p => if snd p =? from then (fst p, to) else p) l.

(* join the classes of the two endpoints; an edge with an unregistered endpoint joins nothing
   (cannot happen in a reachable state) *)
Definition merge_edge (e : edge) (l : labelling) : labelling :=
  match lookup (edge_source e) l, lookup (edge_target e) l with
  | Some la, Some lb => if la =? lb then l else relabel lb la l
  | _, _ => l
  end.

Fixpoint merge_edges (es : list edge) (l : labelling) : labelling :=
  match es with
  | [] => l
  | e :: es' => merge_edge e (merge_edges es' l)
  end.

(* every entity alone, then one pass over the edges: no fuel is needed *)
Definition labels (g : rgraph) : labelling :=
  merge_edges (g_edges g) (map (fun n => (n, n)) (g_nodes g)).

(* distinct values *)
Definition dedup (l : list N) : list N := nodup N.eq_dec l.

Definition class_of (l : labelling) (r : N) : list N :=
  map fst (filter (fun p => snd p =? r) l).

(* the connected components, as a partition of g_nodes *)
Definition components (g : rgraph) : list (list N) :=
  let l := labels g in map (class_of l) (dedup (map snd l)).

(* ---------- observables ---------- *)

(* `graph_index(e).is_some()` after `rebuild_graphs` *)
Definition has_index (g : rgraph) (e : N) : bool := registered g e.

(* `graph_index(a).is_some() && graph_index(a) == graph_index(b)` after `rebuild_graphs` *)
Definition same_graph (g : rgraph) (a b : N) : bool :=
  let l := labels g in
  match lookup a l, lookup b l with
  | Some la, Some lb => la =? lb
  | _, _ => false
  end.

(* `graphs_count()` after `rebuild_graphs` *)
Definition graphs_count (g : rgraph) : N := N.of_nat (length (components g)).

(* ---------- the hook ---------- *)

Inductive op :=
| OpAdd (kind source target : N)
| OpRemove (kind source target : N)
| OpClear.

Definition apply_op (g : rgraph) (o : op) : rgraph :=
  match o with
  | OpAdd k s t => add_relation g k s t
  | OpRemove k s t => remove_relation g k s t
  | OpClear => clear g
  end.

Definition run_ops (ops : list op) : rgraph := fold_left apply_op ops rgraph_empty.

(* `Graph::indices(entities)`: instead of the graph number, the representative entity of the graph
   (two entities have the same number iff they have the same representative), and the count.
   The labelling is computed once. *)
Definition indices (g : rgraph) (entities : list N) : list (option N) * N :=
  let l := labels g in
  (map (fun e => lookup e l) entities, N.of_nat (length (dedup (map snd l)))).

(* the whole harness scenario: run the operations, then query *)
Definition graph_run (ops : list op) (entities : list N) : list (option N) * N :=
  indices (run_ops ops) entities.

(* ---------- specification vocabulary (not executable) ---------- *)

(* reflexive-symmetric-transitive closure of the edges, inside the registered entities *)
Inductive conn (nodes : list N) (es : list edge) : N -> N -> Prop :=
| conn_refl a : In a nodes -> conn nodes es a a
| conn_edge e : In e es -> In (edge_source e) nodes -> In (edge_target e) nodes ->
                conn nodes es (edge_source e) (edge_target e)
| conn_sym a b : conn nodes es a b -> conn nodes es b a
| conn_trans a b c : conn nodes es a b -> conn nodes es b c -> conn nodes es a c.

Definition connected (g : rgraph) : N -> N -> Prop := conn (g_nodes g) (g_edges g).

(* invariant of the reachable states: one node per entity, edges join registered entities,
   no registered entity without an edge *)
Definition wf (g : rgraph) : Prop :=
  NoDup (g_nodes g) /\
  (forall e, In e (g_edges g) -> In (edge_source e) (g_nodes g) /\ In (edge_target e) (g_nodes g)) /\
  (forall n, In n (g_nodes g) -> exists e, In e (g_edges g) /\ incident n e = true).

(* one representative per equivalence class of `connected` *)
Definition transversal (g : rgraph) (reps : list N) : Prop :=
  NoDup reps /\
  (forall r, In r reps -> In r (g_nodes g)) /\
  (forall a b, In a reps -> In b reps -> connected g a b -> a = b) /\
  (forall n, In n (g_nodes g) -> exists r, In r reps /\ connected g n r).

(* the relationships that exist in the world, as (source, target, kind); what the observers do
   when the world changes: OnInsert -> add_relation, OnReplace -> remove_relation *)
Definition world := list edge.
Definition world_apply (w : world) (o : op) : world :=
  match o with
  | OpAdd k s t => w ++ [(s, t, k)]
  | OpRemove k s t =>
      filter (fun e => negb ((edge_source e =? s) && (edge_target e =? t) && (edge_kind e =? k))) w
  | OpClear => []
  end.
